(* C08's last sentence on the concrete model — definitions only (no proofs): the two renderings of a rewritten
   <meta> declaration, the names of the four modelled encoders, the sniffer's search window, and the side conditions
   of the auto-detection theorems (Proofs/AutodetectProofs.v) in decidable form, so that the extracted model can
   evaluate them on generated documents. *)
From Coq Require Import List NArith Bool Arith.
From BS Require Import Base.Sexp Base.Types Gen.T_Codecs Model.Dammit Model.Sniff Model.Encode Model.Codecs Spec.SniffSpec.
Import ListNotations.
Open Scope N_scope.

Inductive mstyle := MCharset | MContent.

(* through the character that ends the encoding name (the closing quote) ... *)
Definition tag_head (st : mstyle) (e : str) : str :=
  match st with
  | MCharset => [60; 109; 101; 116; 97; 32; 99; 104; 97; 114; 115; 101; 116; 61; 34] ++ e ++ [34]                    (* <meta charset="E" *)
  | MContent => [60; 109; 101; 116; 97; 32; 99; 111; 110; 116; 101; 110; 116; 61; 34; 116; 101; 120; 116; 47; 104; 116; 109; 108; 59; 32; 99; 104; 97; 114; 115; 101; 116; 61] ++ e ++ [34]                    (* <meta content="text/html; charset=E" *)
  end.
(* ... and the rest of the tag *)
Definition tag_tail (st : mstyle) : str :=
  match st with
  | MCharset => [47; 62]                                 (* /> *)
  | MContent => [32; 104; 116; 116; 112; 45; 101; 113; 117; 105; 118; 61; 34; 67; 111; 110; 116; 101; 110; 116; 45; 84; 121; 112; 101; 34; 47; 62]                                 (*  http-equiv="Content-Type"/> *)
  end.
Definition meta_tag (st : mstyle) (e : str) : str := tag_head st e ++ tag_tail st.

(* the names under which the four encoders are known to both Python and the model (Gen/T_Codecs.v) *)
Definition encoder_names : list (str * codec) :=
  flat_map (fun p => match snd p with
                     | Some i => match codec_of_id i with
                                 | Some k => if encoder k then [(fst p, k)] else []
                                 | None => []
                                 end
                     | None => []
                     end) cd_codec_names.

(* the search window of find_declared_encoding on a document of n bytes: max(2048, int(n * 0.05)) *)
Definition html_window (n : nat) : nat := Nat.max 2048 (n / 20).

(* decidable forms of the two "nothing earlier matches" conditions, for closed examples and for the harness *)
Definition no_xml_b (b : str) : bool :=
  match xml_scan bytes_mode (searched_xml false b) with None => true | Some _ => false end.
Fixpoint tails {X} (l : list X) : list (list X) :=
  match l with [] => [] | _ :: t => l :: tails t end.
Definition no_meta_b (bpre t : str) : bool :=
  forallb (fun y => match meta_at bytes_mode (y ++ t) with None => true | Some _ => false end) (tails bpre).

(* the conditions as one boolean (what the harness evaluates through the extracted model) *)
Definition detect_conditions_b (st : mstyle) (e : str) (bpre bpost : str) : bool :=
  let b := bpre ++ meta_tag st e ++ bpost in
  let W := html_window (length b) in
  str_eqb (fst (strip_bom b)) b && match snd (strip_bom b) with None => true | Some _ => false end &&
  Nat.leb (length bpre + length (tag_head st e)) W &&
  no_xml_b b &&
  no_meta_b bpre (tag_head st e ++ firstn (W - length bpre - length (tag_head st e)) (tag_tail st ++ bpost)).

(* ------------------------------------------------------------------ *)
(* C07: what UnicodeDammit returns when every candidate is a modelled codec, in closed form.                 *)
(* A candidate is (name as offered, codec).  Strict pass: the first candidate that decodes; else replace     *)
(* pass: the first candidate not spelled exactly "ascii" (errors="replace" never fails), flag set.           *)
(* ------------------------------------------------------------------ *)
Definition s_ascii : str := [97; 115; 99; 105; 105].

Fixpoint first_strict (cands : list (str * codec)) (b : str) : option (str * str) :=
  match cands with
  | [] => None
  | (n, k) :: r =>
      match codec_decode k Dammit.Strict b with
      | Some u => Some (u, n)
      | None => first_strict r b
      end
  end.
Fixpoint first_replace (cands : list (str * codec)) (b : str) : option (str * str) :=
  match cands with
  | [] => None
  | (n, k) :: r =>
      if str_eqb n s_ascii then first_replace r b
      else match codec_decode k Replace b with
           | Some u => Some (u, n)
           | None => first_replace r b
           end
  end.
(* (unicode_markup, original_encoding, contains_replacement_characters) *)
Definition concrete_outcome (cands : list (str * codec)) (b : str) : option str * option str * bool :=
  match first_strict cands b with
  | Some (u, n) => (Some u, Some n, false)
  | None =>
      match first_replace cands b with
      | Some (u, n) => (Some u, Some n, true)
      | None => (None, None, false)
      end
  end.

(* each name once (first occurrence) *)
Fixpoint nodup_names (seen : list str) (l : list (str * codec)) : list (str * codec) :=
  match l with
  | [] => []
  | (n, k) :: r => if memS n seen then nodup_names seen r else (n, k) :: nodup_names (n :: seen) r
  end.

Definition c_utf8 : str * codec := ([117; 116; 102; 45; 56], Utf8).
Definition c_cp1252 : str * codec := ([119; 105; 110; 100; 111; 119; 115; 45; 49; 50; 53; 50], Cp1252).

(* the candidates when one modelled encoding e is named (known-definite / from_encoding / declared in the document) *)
Definition named_candidates (e : str) (k : codec) : list (str * codec) := nodup_names [] [(e, k); c_utf8; c_cp1252].
(* ... and with only exclusions *)
Definition default_candidates (utf8_excluded cp1252_excluded : bool) : list (str * codec) :=
  (if utf8_excluded then [] else [c_utf8]) ++ (if cp1252_excluded then [] else [c_cp1252]).

(* every (lower-case) name of the generated table that denotes one of the eight decoders *)
Definition decoder_names : list (str * codec) :=
  flat_map (fun p => match snd p with
                     | Some i => match codec_of_id i with Some k => [(fst p, k)] | None => [] end
                     | None => []
                     end) cd_codec_names.
