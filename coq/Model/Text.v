(* C13 — text extraction, as written in bs4/element.py:
     PageElement.stripped_strings / get_text (513-550), NavigableString._all_strings (1365-1412),
     NavigableString.strings (1415), Tag.string (1840-1862), Tag.MAIN_CONTENT_STRING_TYPES (1875),
     Tag._all_strings (1877-1916), Tag.strings, the interesting_string_types assignment of
     Tag.__init__ (1704-1741) and BeautifulSoup.string_container (bs4/__init__.py 732-755).

   The object graph is the heap of Model/Heap.v (six links, kind, text); a string's class and a
   tag's interesting_string_types are carried by a separate payload [tpay] (classes are the
   numbers of Gen/T_C13.v: 0 NavigableString, 1 CData, 2 ProcessingInstruction,
   3 XMLProcessingInstruction, 4 Comment, 5 Declaration, 6 Doctype, 7 Stylesheet, 8 Script,
   9 TemplateString, 10 RubyTextString, 11 RubyParenthesisString; a configuration may use more).
   Tag._all_strings walks [self.descendants] — the generator of Model/Iter.v that chases
   next_element — not the child lists.  Results are lists of (element id, text) so that "which
   string object" is observable as well as "which text".  No proofs here. *)
From Coq Require Import List NArith Bool Arith.
From BS Require Import Base.Sexp Base.Types Gen.Stdlib Gen.T_C13 Model.Heap Model.Iter.
Import ListNotations.

(* the [types] argument, as the code tells its forms apart *)
Inductive types_arg :=
| TyDefault                 (* the sentinel PageElement.default (tested with [is]) *)
| TyNone                    (* types=None *)
| TyOne (c : N)             (* isinstance(types, type): one class *)
| TyMany (cs : list N).     (* anything else: a tuple / list / set of classes, tested with [in] *)

Record tpay := mktp {
  t_cls : nat -> N;                      (* type(string) *)
  t_ist : nat -> option (list N)         (* tag.interesting_string_types; None = attribute is None *)
}.

(* ---- str.strip() with no argument: removes str.isspace() characters from both ends ---- *)
Definition py_space (c : N) : bool := memN c py_whitespace.
Fixpoint lstrip (s : str) : str :=
  match s with
  | [] => []
  | c :: s' => if py_space c then lstrip s' else s
  end.
Definition rstrip (s : str) : str := rev (lstrip (rev s)).
Definition py_strip (s : str) : str := rstrip (lstrip s).

Definition is_empty (s : str) : bool := match s with [] => true | _ => false end.

(* the class test shared by both _all_strings:
     if isinstance(types, type): type is types
     elif types is not None:     type in types
   The sentinel itself is the empty tuple, so once the [is] test has been missed it selects nothing. *)
Definition type_selected (types : types_arg) (c : N) : bool :=
  match types with
  | TyOne t => N.eqb c t
  | TyNone => true
  | TyMany cs => memN c cs
  | TyDefault => false
  end.

(* ---- Tag._all_strings(strip, types) ---- *)
Definition tag_types (p : tpay) (x : nat) (types : types_arg) : types_arg :=
  match types with
  | TyDefault =>
      match t_ist p x with
      | None => TyMany main_content_string_types
      | Some s => TyMany s
      end
  | t => t
  end.

(* body of the loop after the class test *)
Definition tag_emit (strip : bool) (d : nat) (s : str) : list (nat * str) :=
  if strip then
    let stripped := py_strip s in
    if is_empty stripped then [] else [(d, stripped)]
  else [(d, s)].

Definition tag_visit (h : heap) (p : tpay) (strip : bool) (types : types_arg) (d : nat) : list (nat * str) :=
  if is_tag h d then []                                  (* not isinstance(descendant, NavigableString) *)
  else if type_selected types (t_cls p d) then tag_emit strip d (txt (h d))
  else [].

Definition tag_all_strings (fuel : nat) (h : heap) (p : tpay) (x : nat) (strip : bool) (types : types_arg)
  : list (nat * str) :=
  let types := tag_types p x types in
  flat_map (tag_visit h p strip types) (descendants fuel h x).

(* ---- NavigableString._all_strings(strip, types) ---- *)
Definition str_types (types : types_arg) : types_arg :=
  match types with TyDefault => TyMany main_content_string_types | t => t end.

Definition str_all_strings (h : heap) (p : tpay) (x : nat) (strip : bool) (types : types_arg)
  : list (nat * str) :=
  let types := str_types types in
  if type_selected types (t_cls p x) then
    let final_value := if strip then py_strip (txt (h x)) else txt (h x) in
    if is_empty final_value then [] else [(x, final_value)]      (* if len(final_value) > 0: yield *)
  else [].

(* dynamic dispatch on the receiver *)
Definition all_strings (fuel : nat) (h : heap) (p : tpay) (x : nat) (strip : bool) (types : types_arg)
  : list (nat * str) :=
  if is_tag h x then tag_all_strings fuel h p x strip types else str_all_strings h p x strip types.

(* .strings / .stripped_strings *)
Definition strings (fuel : nat) (h : heap) (p : tpay) (x : nat) : list (nat * str) :=
  all_strings fuel h p x false TyDefault.
Definition stripped_strings (fuel : nat) (h : heap) (p : tpay) (x : nat) : list (nat * str) :=
  all_strings fuel h p x true TyDefault.

(* separator.join(list) *)
Fixpoint join (sep : str) (l : list str) : str :=
  match l with
  | [] => []
  | a :: l' => match l' with [] => a | _ => a ++ sep ++ join sep l' end
  end.

(* get_text(separator, strip, types) *)
Definition get_text (fuel : nat) (h : heap) (p : tpay) (x : nat) (sep : str) (strip : bool) (types : types_arg)
  : str :=
  join sep (map snd (all_strings fuel h p x strip types)).

(* .text = property(get_text): all defaults *)
Definition text_prop (fuel : nat) (h : heap) (p : tpay) (x : nat) : str :=
  get_text fuel h p x get_text_default_separator get_text_default_strip TyDefault.

(* ---- Tag.string / NavigableString.string ---- *)
Inductive sres := SFuel | SNone | SIs (x : nat).

Fixpoint tag_string (fuel : nat) (h : heap) (x : nat) : sres :=
  match fuel with
  | O => SFuel
  | S f =>
      match kids (h x) with
      | [child] => if is_tag h child then tag_string f h child else SIs child
      | _ => SNone                                         (* len(self.contents) != 1 *)
      end
  end.

Definition string_prop (fuel : nat) (h : heap) (x : nat) : sres :=
  if is_tag h x then tag_string fuel h x else SIs x.

(* ---- Tag.__init__: interesting_string_types ----
   builder = None: whatever was passed (default None); otherwise from builder.string_containers. *)
Definition init_interesting (builder_containers : option (list (str * N))) (name : str)
           (passed : option (list N)) : option (list N) :=
  match builder_containers with
  | None => passed
  | Some containers =>
      match assocS name containers with
      | Some c => Some [c]
      | None => Some main_content_string_types
      end
  end.

(* ---- BeautifulSoup.string_container(base_class) ----
   element_classes: replacement classes given to the constructor; top: name of the element on top
   of string_container_stack, if the stack is not empty. *)
Definition string_container_of (element_classes : list (N * N)) (containers : list (str * N))
           (top : option str) (base : option N) : N :=
  let container := match base with Some c => c | None => 0%N end in
  let container := match assocN container element_classes with Some c => c | None => container end in
  match top with
  | Some name =>
      if N.eqb container 0
      then match assocS name containers with Some c => c | None => container end
      else container
  | None => container
  end.
