(* C16 — parse_only: the tree-construction machine of bs4/__init__.py with the two places where a
   SoupStrainer is consulted (handle_starttag 1019-1026: allow_tag_creation while no kept element is
   open; endData 855-861: allow_string_creation for top-level strings).

   Two renderings of the same code:
   (A) [feed_po]: Model/Build.v's heap machine (all six links, open_tag_counter, auxiliary stacks) with
       the two checks inserted — this is what is compared with the implementation, link by link;
   (B) [zfeed]: the same control flow over a stack of frames that carry their finished children
       (no links; open_tag_counter[name] read as "number of open elements called name", which is the
       invariant the code maintains; the auxiliary stacks hold stack depths instead of objects).
       The theorems are about (B); (A) and (B) are compared on every case of the correspondence run. *)
From Coq Require Import List NArith ZArith Bool Arith.
From BS Require Import Base.Sexp Base.Types Model.Heap Model.Edit Model.Build Model.Attrs Model.Search.
Import ListNotations.
Local Open Scope nat_scope.

(* the raw attribute dictionary handed to handle_starttag: plain strings *)
Definition raw_attrs (attrs : list (str * str)) : list (str * attrv) :=
  map (fun kv => (fst kv, AvStr (snd kv))) attrs.

(* what endData makes of the gathered chunks: only text is collapsed; the content of a comment, CDATA
   section, doctype, declaration or processing instruction (a PreformattedString class asked for by the
   builder) is kept as sent *)
Definition is_special (container : option N) : bool :=
  match container with Some c => preformatted_cls c | None => false end.
Definition gathered (cfg : bconfig) (preserve special : bool) (chunks : list str) : str :=
  let current := concat (rev chunks) in
  if negb special && negb preserve && all_in (c_spaces cfg) current
  then (if memN 10%N current then [10%N] else [32%N])
  else current.

Section ParseOnly.
  Variable pat_sem : N -> str -> bool.
  Variable fun_sem : N -> callarg -> bool.
  Variable po : option strainer.          (* self.parse_only *)

  Definition rejects_tag (depth : nat) (prefix : option str) (name : str) (attrs : list (str * str)) : bool :=
    match po with
    | Some sr => Nat.leb depth 1 && negb (fst (allow_tag_creation pat_sem fun_sem sr prefix name (raw_attrs attrs)))
    | None => false
    end.
  Definition rejects_string (depth : nat) (s : str) : bool :=
    match po with
    | Some sr => Nat.leb depth 1 && negb (fst (allow_string_creation pat_sem fun_sem sr s))
    | None => false
    end.

  (* ---------------- (A) the heap machine ---------------- *)
  Definition end_data_po (cfg : bconfig) (b : bstate) (container : option N) : bstate :=
    match b_data b with
    | [] => b
    | chunks =>
        let current := gathered cfg (negb (null (b_pws b))) (is_special container) chunks in
        if rejects_string (length (b_stack b)) current
        then mkb (b_st b) (b_pay b) (b_stack b) (b_counter b) (b_pws b) (b_scs b) [] (b_mre b) (b_cur b)
        else end_data cfg b container
    end.

  Definition handle_starttag_po (cfg : bconfig) (b : bstate) (name : str) (prefix : option str)
             (attrs : list (str * str)) : bstate :=
    let b := end_data_po cfg b None in
    if rejects_tag (length (b_stack b)) prefix name attrs then b
    else handle_starttag cfg b name prefix attrs.

  Definition handle_endtag_po (cfg : bconfig) (b : bstate) (name : str) (prefix : option str) : bstate :=
    pop_to_tag cfg (end_data_po cfg b None) name prefix.

  Definition step_event_po (cfg : bconfig) (b : bstate) (e : event) : bstate :=
    match e with
    | EStart n p a => handle_starttag_po cfg b n p a
    | EEnd n p => handle_endtag_po cfg b n p
    | EData s => handle_data b s
    | EEndData c => end_data_po cfg b c
    end.

  Definition feed_po (cfg : bconfig) (evs : list event) : bstate :=
    let b := fold_left (step_event_po cfg) evs (reset cfg) in
    let b := end_data_po cfg b None in
    pop_all (length (b_stack b)) cfg b.

  (* ---------------- (B) the frame machine ---------------- *)
  Inductive pnode :=
  | PTag (name : str) (prefix : option str) (attrs : list (str * str)) (kids : list pnode)
  | PStr (cls : N) (text : str).

  Record frame := mkfr {
    fr_name : str; fr_prefix : option str; fr_attrs : list (str * str);
    fr_kids : list pnode               (* contents so far, most recent first *)
  }.

  Record zst := mkz {
    z_stack : list frame;              (* tagStack, top first; the document root is last *)
    z_pws : list nat;                  (* preserve_whitespace_tag_stack: depths of the open <pre>-like tags *)
    z_scs : list (nat * N);            (* string_container_stack: depth and string class *)
    z_data : list str                  (* current_data, most recent chunk first *)
  }.

  Definition node_of (f : frame) : pnode := PTag (fr_name f) (fr_prefix f) (fr_attrs f) (rev (fr_kids f)).
  Definition add_kid (f : frame) (k : pnode) : frame :=
    mkfr (fr_name f) (fr_prefix f) (fr_attrs f) (k :: fr_kids f).

  (* open_tag_counter[name]: every open element except the document object at the bottom is counted *)
  Definition zcount (name : str) (stack : list frame) : nat :=
    length (filter (fun f => str_eqb name (fr_name f)) (removelast stack)).

  (* reset(): the document object is pushed like any tag (pushTag consults the two name sets for it too) *)
  Definition zreset (cfg : bconfig) : zst :=
    mkz [mkfr (c_root cfg) None [] []]
        (if memS (c_root cfg) (c_pw cfg) then [1] else [])
        (match assocS (c_root cfg) (c_containers cfg) with Some c => [(1, c)] | None => [] end)
        [].

  (* pushTag *)
  Definition zpush (cfg : bconfig) (z : zst) (f : frame) : zst :=
    let stack := f :: z_stack z in
    let d := length stack in
    mkz stack
        (if memS (fr_name f) (c_pw cfg) then d :: z_pws z else z_pws z)
        (match assocS (fr_name f) (c_containers cfg) with Some c => (d, c) :: z_scs z | None => z_scs z end)
        (z_data z).

  (* popTag: the finished element is already in its parent's contents *)
  Definition zpop (z : zst) : zst :=
    match z_stack z with
    | f :: parent :: rest =>
        let d := length (z_stack z) in
        mkz (add_kid parent (node_of f) :: rest)
            (match z_pws z with d' :: r => if Nat.eqb d' d then r else z_pws z | [] => [] end)
            (match z_scs z with (d', c) :: r => if Nat.eqb d' d then r else z_scs z | [] => [] end)
            (z_data z)
    | _ => z
    end.

  (* string_container(base_class) *)
  Definition zstring_container (z : zst) (base : option N) : N :=
    let container := match base with Some c => c | None => 0%N end in
    match z_scs z with
    | (_, c) :: _ => if N.eqb container 0 then c else container
    | [] => container
    end.

  (* endData(containerClass) *)
  Definition zend_data (cfg : bconfig) (z : zst) (container : option N) : zst :=
    match z_data z with
    | [] => z
    | chunks =>
        let current := gathered cfg (negb (null (z_pws z))) (is_special container) chunks in
        if rejects_string (length (z_stack z)) current
        then mkz (z_stack z) (z_pws z) (z_scs z) []
        else
          let o := PStr (zstring_container z container) current in
          match z_stack z with
          | f :: rest => mkz (add_kid f o :: rest) (z_pws z) (z_scs z) []
          | [] => mkz [] (z_pws z) (z_scs z) []
          end
    end.

  (* handle_starttag *)
  Definition zstart (cfg : bconfig) (z : zst) (name : str) (prefix : option str) (attrs : list (str * str)) : zst :=
    let z := zend_data cfg z None in
    if rejects_tag (length (z_stack z)) prefix name attrs then z
    else zpush cfg z (mkfr name prefix attrs []).

  (* _popToTag *)
  (* any(... for t in reversed(self.tagStack[1:])) *)
  Definition zis_open (z : zst) (name : str) (prefix : option str) : bool :=
    existsb (fun f => str_eqb name (fr_name f) && opt_str_eqb prefix (fr_prefix f)) (removelast (z_stack z)).
  Fixpoint zpop_loop (n : nat) (z : zst) (name : str) (prefix : option str) : zst :=
    match n with
    | O => z
    | S n' =>
        if Nat.eqb (zcount name (z_stack z)) 0 then z else
        match z_stack z with
        | [] => z
        | t :: _ =>
            if str_eqb name (fr_name t) && opt_str_eqb prefix (fr_prefix t)
            then zpop z
            else zpop_loop n' (zpop z) name prefix
        end
    end.
  Definition zpop_to_tag (cfg : bconfig) (z : zst) (name : str) (prefix : option str) : zst :=
    if negb (Nat.eqb (zcount name (z_stack z)) 0) && negb (zis_open z name prefix) then z
    else zpop_loop (pred (length (z_stack z))) z name prefix.

  Definition zend (cfg : bconfig) (z : zst) (name : str) (prefix : option str) : zst :=
    zpop_to_tag cfg (zend_data cfg z None) name prefix.

  Definition zdata (z : zst) (s : str) : zst := mkz (z_stack z) (z_pws z) (z_scs z) (s :: z_data z).

  Definition zstep (cfg : bconfig) (z : zst) (e : event) : zst :=
    match e with
    | EStart n p a => zstart cfg z n p a
    | EEnd n p => zend cfg z n p
    | EData s => zdata z s
    | EEndData c => zend_data cfg z c
    end.

  Fixpoint zpop_all (n : nat) (cfg : bconfig) (z : zst) : zst :=
    match n with
    | O => z
    | S n' =>
        match z_stack z with
        | _ :: _ :: _ => zpop_all n' cfg (zpop z)          (* while self.currentTag is not self *)
        | _ => z
        end
    end.

  Definition zrun (cfg : bconfig) (evs : list event) : zst :=
    let z := fold_left (zstep cfg) evs (zreset cfg) in
    let z := zend_data cfg z None in
    zpop_all (length (z_stack z)) cfg z.

  (* the contents of the document object after _feed *)
  Definition zfeed (cfg : bconfig) (evs : list event) : list pnode :=
    match z_stack (zrun cfg evs) with
    | [root] => rev (fr_kids root)
    | _ => []          (* cannot happen: zpop_all leaves only the root *)
    end.
End ParseOnly.


(* reading the tree off a heap-machine state, for comparing (A) with (B) *)
Fixpoint ptree_of (fuel : nat) (b : bstate) (x : nat) : pnode :=
  match fuel with
  | O => PStr 0%N []
  | S f =>
      let p := b_pay b x in
      if is_tag (hp (b_st b)) x
      then PTag (p_name p) (p_prefix p) (p_attrs p) (map (ptree_of f b) (kids (hp (b_st b) x)))
      else PStr (p_cls p) (p_name p)
  end.
Definition heap_contents (b : bstate) : list pnode :=
  map (ptree_of (nxt (b_st b)) b) (kids (hp (b_st b) 0)).
