(* C15 — the entity regexes as ordered alternations (bs4/dammit.py 221-258 assemble them from a
   *set* of particles, so the order of the alternatives varies with hash randomisation).
   re.sub with "(p1|p2|...)": scan left to right; at each position the alternatives are tried in
   the order written and the first that matches wins (not the longest); the match is replaced and
   the scan continues behind it; otherwise the character is copied. A particle is a literal
   optionally followed by a negative look-ahead on one character. *)
From Coq Require Import List NArith Bool.
From BS Require Import Base.Sexp Base.Types Model.FmtTypes Gen.T_C15.
Import ListNotations.
Open Scope N_scope.

(* Some rest  iff  s = p ++ rest *)
Fixpoint strip_prefix (p s : str) : option str :=
  match p, s with
  | [], _ => Some s
  | _ :: _, [] => None
  | x :: p', y :: s' => if x =? y then strip_prefix p' s' else None
  end.

Definition p_matches (p : particle) (s : str) : bool :=
  match strip_prefix (p_lit p) s with
  | Some [] => true
  | Some (c :: _) => negb (memN c (p_not p))
  | None => false
  end.

Definition first_match (ps : list particle) (s : str) : option particle :=
  find (fun p => p_matches p s) ps.

Section Sub.
  Variable ps : list particle.          (* alternatives, in the order of the pattern *)
  Variable repl : str -> str.           (* replacement for the matched text *)

  (* skip: characters of the current match still to be consumed *)
  Fixpoint sub_go (skip : nat) (s : str) : str :=
    match s with
    | [] => []
    | c :: s' =>
        match skip with
        | S k => sub_go k s'
        | O =>
            match first_match ps s with
            | Some p => repl (p_lit p) ++ sub_go (pred (length (p_lit p))) s'
            | None => c :: sub_go O s'
            end
        end
    end.
  Definition sub_alt (s : str) : str := sub_go O s.
End Sub.

(* EntitySubstitution._substitute_html_entity *)
Definition amp_entity : str := [38; 97; 109; 112; 59].
Definition html_entity_repl (m : str) : str :=
  match assocS m char_to_entity_reachable with
  | Some name => 38 :: name ++ [59]
  | None => amp_entity ++ m ++ [59]
  end.

(* CHARACTER_TO_HTML_ENTITY_WITH_AMPERSAND_RE.sub(_substitute_html_entity, s) = substitute_html(s) *)
Definition substitute_html_model (s : str) : str := sub_alt entity_particles_amp html_entity_repl s.
(* CHARACTER_TO_HTML_ENTITY_RE.sub(_substitute_html_entity, s): the second step of substitute_html5 *)
Definition entity_re_sub_model (s : str) : str := sub_alt entity_particles html_entity_repl s.
