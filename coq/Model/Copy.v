(* C12 — copies, pickles and equality of elements.

   Tag.__deepcopy__ / copy_self / PageElement.__copy__ (element.py 493-500, 1762-1826),
   NavigableString.__deepcopy__ (1311-1319), Tag._event_stream (2481-2520),
   BeautifulSoup.copy_self / __getstate__ / __setstate__ (__init__.py 492-532),
   Tag.__eq__ / __ne__ / __hash__ (2225, 2297-2321), modelled as written (after the two fix:
   commits of this property: copy_self copies the attribute values as stored, and keeps
   attribute_value_list_class).

   Objects are numbers.  There are TWO stores, so that aliasing is expressible: the elements
   (parent, contents, payload) and the list objects that hold multi-valued attribute values;
   an attribute value that is a list is a *reference* [CRef l] into the second store.
   Allocation hands out the next free number of the respective store.

   Only .parent and .contents are kept per element: the traversal generator the copy reads
   (Tag.descendants) is the pre-order walk of the child lists by C01 (Props/C01.v,
   C01_descendants), and appending a new parentless element reduces to the two writes of
   [append_child] by C02 (C02_insert1_places_child); the six-link consistency of a finished
   copy is checked on the implementation by the C01 walker. *)
From Coq Require Import List NArith ZArith Bool Arith.
From BS Require Import Base.Sexp Base.Types.
Import ListNotations.
Open Scope nat_scope.

(* ---- attribute values as stored in a tag's dict ---- *)
Inductive cval :=
| CStr (s : str)
| CRef (l : nat)            (* a list object (AttributeValueList or any list subclass) *)
| CBool (b : bool)
| CInt (z : Z)
| CNone.
Definition cattrs := list (str * cval).          (* dict: insertion-ordered, keys unique *)

(* what copy_self hands over unchanged, field by field (constructor arguments and the setattr loop) *)
Record tset := mkset {
  s_cls : N;                     (* type(self): Tag or a subclass *)
  s_ns : option str;             (* namespace *)
  s_prefix : option str;
  s_line : option Z;             (* sourceline *)
  s_pos : option Z;              (* sourcepos *)
  s_cbe : option bool;           (* can_be_empty_element *)
  s_cdata : N;                   (* cdata_list_attributes          (the object, interned) *)
  s_pws : N;                     (* preserve_whitespace_tags       (the object, interned) *)
  s_ist : N;                     (* interesting_string_types       (the object, interned) *)
  s_nsmap : N;                   (* _namespaces                    (the object, interned) *)
  s_hidden : bool;
  s_lcls : N                     (* attribute_value_list_class *)
}.

Record tagd := mktag {
  t_soup : bool;                 (* a BeautifulSoup object *)
  t_name : str;
  t_attrs : cattrs;
  t_kxml : option bool;          (* known_xml *)
  t_set : tset
}.

Inductive payload :=
| PTag (d : tagd)
| PStr (cls : N) (text : str).   (* a NavigableString of class cls *)

Record ccell := mkccell { c_par : option nat; c_kids : list nat; c_pay : payload }.

Record cstate := mkst {
  nh : nat -> ccell;  nn : nat;                (* elements, next free element id *)
  lh : nat -> N * list str;  ln : nat          (* list objects (class, items), next free list id *)
}.

Definition nupd {X} (h : nat -> X) (x : nat) (c : X) : nat -> X :=
  fun y => if Nat.eqb y x then c else h y.

Definition alloc_node (st : cstate) (p : payload) : cstate * nat :=
  (mkst (nupd (nh st) (nn st) (mkccell None [] p)) (Datatypes.S (nn st)) (lh st) (ln st), nn st).

Definition alloc_list (st : cstate) (e : N * list str) : cstate * nat :=
  (mkst (nh st) (nn st) (nupd (lh st) (ln st) e) (Datatypes.S (ln st)), ln st).

Definition set_cell (st : cstate) (x : nat) (c : ccell) : cstate :=
  mkst (nupd (nh st) x c) (nn st) (lh st) (ln st).
Definition set_list (st : cstate) (l : nat) (e : N * list str) : cstate :=
  mkst (nh st) (nn st) (nupd (lh st) l e) (ln st).

Definition is_tagb (st : cstate) (x : nat) : bool :=
  match c_pay (nh st x) with PTag _ => true | PStr _ _ => false end.

(* PageElement._is_xml: known_xml if it is set, else the parent's answer.  At a parentless Tag
   without known_xml the code evaluates getattr(self, "is_xml", False), which goes through
   Tag.__getattr__ and yields self.find("is_xml"), i.e. None (falsy) unless the tree happens to
   contain a tag of that name (not modelled).  None = that falsy answer. *)
Fixpoint is_xml (fuel : nat) (st : cstate) (x : nat) : option bool :=
  match fuel with
  | O => None
  | Datatypes.S f =>
      let up := match c_par (nh st x) with Some p => is_xml f st p | None => None end in
      match c_pay (nh st x) with
      | PTag d => match t_kxml d with Some b => Some b | None => up end
      | PStr _ _ => up
      end
  end.

(* the loop at the end of copy_self: values as stored; [v.__class__(v)] for lists *)
Fixpoint copy_attrs (st : cstate) (a : cattrs) : cstate * cattrs :=
  match a with
  | [] => (st, [])
  | (k, CRef l) :: r =>
      let '(S1, l') := alloc_list st (lh st l) in
      let '(S2, r') := copy_attrs S1 r in (S2, (k, CRef l') :: r')
  | kv :: r => let '(S2, r') := copy_attrs st r in (S2, kv :: r')
  end.

(* Tag.copy_self / BeautifulSoup.copy_self.  A new BeautifulSoup object is made from the same
   builder: no attributes; its settings are what the builder dictates, i.e. the original's. *)
Definition copy_self (fuel : nat) (st : cstate) (x : nat) : cstate * nat :=
  match c_pay (nh st x) with
  | PTag d =>
      if t_soup d then alloc_node st (PTag (mktag true (t_name d) [] (t_kxml d) (t_set d)))
      else
        let '(S1, a') := copy_attrs st (t_attrs d) in
        alloc_node S1 (PTag (mktag false (t_name d) a' (is_xml fuel st x) (t_set d)))
  | PStr c t => alloc_node st (PStr c t)
  end.

(* element.__deepcopy__(memo, recursive=False): NavigableString: type(self)(self) *)
Definition clone1 (fuel : nat) (st : cstate) (e : nat) : cstate * nat :=
  match c_pay (nh st e) with
  | PStr c t => alloc_node st (PStr c t)
  | PTag _ => copy_self fuel st e
  end.

(* self_and_descendants / descendants as lists (pre-order of the child lists: C01) *)
Fixpoint self_and_desc (fuel : nat) (st : cstate) (x : nat) : list nat :=
  match fuel with
  | O => [x]
  | Datatypes.S f => x :: flat_map (self_and_desc f st) (c_kids (nh st x))
  end.
Definition descendants (fuel : nat) (st : cstate) (x : nat) : list nat := tl (self_and_desc fuel st x).

(* ---- Tag._event_stream ---- *)
Inductive ekind := EvStart | EvEnd | EvEmpty | EvString.

Definition is_empty_element (st : cstate) (x : nat) : bool :=
  match c_pay (nh st x), c_kids (nh st x) with
  | PTag d, [] => match s_cbe (t_set d) with Some true => true | _ => false end
  | _, _ => false
  end.

Definition oeq (a b : option nat) : bool :=
  match a, b with
  | None, None => true
  | Some x, Some y => Nat.eqb x y
  | _, _ => false
  end.

(* while tag_stack and c.parent != tag_stack[-1]: pop.  The code's != is Tag.__ne__, i.e.
   structural; the stack holds proper descendants of c.parent or c.parent itself, and a tree is
   never structurally equal to a proper subtree of itself (Proofs: teq_size), so it decides
   identity here. *)
Fixpoint pop_until (q : option nat) (stack : list nat) : list nat * list nat :=
  match stack with
  | [] => ([], [])
  | top :: r =>
      if oeq q (Some top) then ([], stack)
      else let '(c, s) := pop_until q r in (top :: c, s)
  end.

Fixpoint es_loop (st : cstate) (it : list nat) (stack : list nat) : list (ekind * nat) :=
  match it with
  | [] => map (pair EvEnd) stack
  | c :: it' =>
      let '(closed, stack') := pop_until (c_par (nh st c)) stack in
      map (pair EvEnd) closed ++
      (if is_tagb st c then
         if is_empty_element st c then (EvEmpty, c) :: es_loop st it' stack'
         else (EvStart, c) :: es_loop st it' (c :: stack')
       else (EvString, c) :: es_loop st it' stack')
  end.

(* tag_stack[-1].append(descendant_clone): the clone is new, parentless and not the parent *)
Definition append_child (st : cstate) (p d : nat) : cstate :=
  let S1 := set_cell st d (mkccell (Some p) (c_kids (nh st d)) (c_pay (nh st d))) in
  set_cell S1 p (mkccell (c_par (nh S1 p)) (c_kids (nh S1 p) ++ [d]) (c_pay (nh S1 p))).

(* the loop of Tag.__deepcopy__; None = IndexError on an empty tag_stack *)
Fixpoint dc_loop (fuel : nat) (st : cstate) (evs : list (ekind * nat)) (stack : list nat) : option cstate :=
  match evs with
  | [] => Some st
  | (EvEnd, _) :: r => match stack with [] => None | _ :: s => dc_loop fuel st r s end
  | (k, e) :: r =>
      match stack with
      | [] => None
      | top :: _ =>
          let '(S1, d) := clone1 fuel st e in
          dc_loop fuel (append_child S1 top d) r
                  (match k with EvStart => d :: stack | _ => stack end)
      end
  end.

(* copy.copy(x) = copy.deepcopy(x) = x.__deepcopy__({}) *)
Definition deepcopy (fuel : nat) (st : cstate) (x : nat) : option (cstate * nat) :=
  match c_pay (nh st x) with
  | PStr c t => Some (alloc_node st (PStr c t))
  | PTag _ =>
      let '(S1, clone) := copy_self fuel st x in
      match dc_loop fuel S1 (es_loop st (descendants fuel st x) []) [clone] with
      | Some S2 => Some (S2, clone)
      | None => None
      end
  end.

(* ---- Tag.__eq__ ---- *)
Fixpoint dget (k : str) (d : cattrs) : option cval :=
  match d with
  | [] => None
  | (k', v) :: d' => if str_eqb k k' then Some v else dget k d'
  end.

Fixpoint strs_eqb (a b : list str) : bool :=
  match a, b with
  | [], [] => true
  | x :: a', y :: b' => str_eqb x y && strs_eqb a' b'
  | _, _ => false
  end.

(* Python == on two stored values: bool is an int; lists compare item by item whatever their class *)
Definition cval_eqb (st : cstate) (a b : cval) : bool :=
  match a, b with
  | CStr s, CStr t => str_eqb s t
  | CRef l, CRef m => strs_eqb (snd (lh st l)) (snd (lh st m))
  | CNone, CNone => true
  | CBool x, CBool y => Bool.eqb x y
  | CInt x, CInt y => Z.eqb x y
  | CBool x, CInt y => Z.eqb (if x then 1 else 0) y
  | CInt x, CBool y => Z.eqb x (if y then 1 else 0)
  | _, _ => false
  end.

(* dict == dict *)
Definition attrs_eqb (st : cstate) (a b : cattrs) : bool :=
  Nat.eqb (length a) (length b) &&
  forallb (fun kv => match dget (fst kv) b with Some v' => cval_eqb st (snd kv) v' | None => false end) a.

Fixpoint forallb2 {X} (f : X -> X -> bool) (a b : list X) : bool :=
  match a, b with
  | [], [] => true
  | x :: a', y :: b' => f x y && forallb2 f a' b'
  | _, _ => false
  end.

(* x == y for two elements; fuel bounds the depth (false when it runs out) *)
Fixpoint eq_h (fuel : nat) (st : cstate) (x y : nat) : bool :=
  match fuel with
  | O => false
  | Datatypes.S f =>
      if Nat.eqb x y then true else
      match c_pay (nh st x), c_pay (nh st y) with
      | PTag a, PTag b =>
          str_eqb (t_name a) (t_name b) && attrs_eqb st (t_attrs a) (t_attrs b) &&
          Nat.eqb (length (c_kids (nh st x))) (length (c_kids (nh st y))) &&
          forallb2 (eq_h f st) (c_kids (nh st x)) (c_kids (nh st y))
      | PStr _ s, PStr _ t => str_eqb s t
      | _, _ => false
      end
  end.

(* ---- the edits of the independence probes, on .parent / .contents / attributes / list objects ---- *)
Fixpoint dset (k : str) (v : cval) (d : cattrs) : cattrs :=
  match d with
  | [] => [(k, v)]
  | (k', v') :: d' => if str_eqb k k' then (k', v) :: d' else (k', v') :: dset k v d'
  end.
Fixpoint ddel (k : str) (d : cattrs) : cattrs :=
  match d with
  | [] => []
  | (k', v') :: d' => if str_eqb k k' then ddel k d' else (k', v') :: ddel k d'
  end.

Definition with_attrs (st : cstate) (x : nat) (f : cattrs -> cattrs) : cstate :=
  match c_pay (nh st x) with
  | PTag d => set_cell st x (mkccell (c_par (nh st x)) (c_kids (nh st x))
                                    (PTag (mktag (t_soup d) (t_name d) (f (t_attrs d)) (t_kxml d) (t_set d))))
  | PStr _ _ => st
  end.
(* tag[k] = v on a plain container (the coercions of the HTML / XML containers are C17's) *)
Definition set_attr (st : cstate) (x : nat) (k : str) (v : cval) : cstate := with_attrs st x (dset k v).
Definition del_attr (st : cstate) (x : nat) (k : str) : cstate := with_attrs st x (ddel k).
(* tag[k] = [items]: a new list object *)
Definition set_attr_list (st : cstate) (x : nat) (k : str) (cls : N) (items : list str) : cstate :=
  let '(S1, l) := alloc_list st (cls, items) in set_attr S1 x k (CRef l).
(* tag[k].append(s) and friends: any in-place change of one list object *)
Definition list_update (st : cstate) (l : nat) (f : list str -> list str) : cstate :=
  set_list st l (fst (lh st l), f (snd (lh st l))).
Definition set_name (st : cstate) (x : nat) (n : str) : cstate :=
  match c_pay (nh st x) with
  | PTag d => set_cell st x (mkccell (c_par (nh st x)) (c_kids (nh st x))
                                    (PTag (mktag (t_soup d) n (t_attrs d) (t_kxml d) (t_set d))))
  | PStr _ _ => st
  end.

Fixpoint remove_id (x : nat) (l : list nat) : list nat :=      (* del contents[index(x)] by identity *)
  match l with
  | [] => []
  | y :: l' => if Nat.eqb y x then l' else y :: remove_id x l'
  end.
(* extract(), child-list / parent part *)
Definition cp_extract (st : cstate) (x : nat) : cstate :=
  match c_par (nh st x) with
  | None => st
  | Some p =>
      let S1 := set_cell st p (mkccell (c_par (nh st p)) (remove_id x (c_kids (nh st p))) (c_pay (nh st p))) in
      set_cell S1 x (mkccell None (c_kids (nh S1 x)) (c_pay (nh S1 x)))
  end.
(* p.append(c) for an element c of the same tree or a parentless one *)
Definition cp_append (st : cstate) (p c : nat) : cstate := append_child (cp_extract st c) p c.
(* p.append(Tag(name=n)) / p.append("text"): a new element *)
Definition cp_append_new (st : cstate) (p : nat) (pay : payload) : cstate :=
  let '(S1, d) := alloc_node st pay in append_child S1 p d.
