(* C07 — encoding detection: EncodingDetector.strip_byte_order_mark / _usable / encodings,
   UnicodeDammit.__init__ / _convert_from / find_codec / _codec / declared_html_encoding
   (bs4/dammit.py) and HTMLParserTreeBuilder.prepare_markup (bs4/builder/_htmlparser.py),
   as written (after the three fix: commits of this property, see the comments marked FIX).

   External behaviour enters as function parameters (never as axioms):
     lower   : str.lower()                                   (names are arbitrary str)
     known   : codecs.lookup(name) succeeds                  (UnicodeDammit._codec)
     decode  : str(bytes, codec, errors) -> Some text | None (any exception)
     sniff   : EncodingDetector.find_declared_encoding(markup, is_html)  (the two regexes)
     chardet : _chardet_dammit(markup)
   The constants and the *shape* of the BOM if-chain and of the `encodings` generator are not
   restated here: they are read from the source into Gen/T_C07.v and interpreted. *)
From Coq Require Import List NArith Bool Arith.
From BS Require Import Base.Sexp Base.Types Gen.T_C07.
Import ListNotations.
Open Scope N_scope.

Inductive dmode := Strict | Replace.
Definition dmode_eqb (a b : dmode) : bool :=
  match a, b with Strict, Strict | Replace, Replace => true | _, _ => false end.

(* the `markup` argument: a str or a bytestring *)
Inductive markup := MStr (s : str) | MBytes (b : str).

Definition is_empty (s : str) : bool := match s with [] => true | _ => false end.
Definition olist {X} (o : option X) : list X := match o with Some x => [x] | None => [] end.

(* ------------------------------------------------------------------ strip_byte_order_mark *)
Definition bom_rule : Type := (nat * (nat * str) * option (nat * nat * str) * str * nat)%type.

(* data[lo:hi] *)
Definition slice (lo hi : nat) (d : str) : str := firstn (hi - lo) (skipn lo d).

Definition rule_matches (r : bom_rule) (d : str) : bool :=
  match r with
  | (minlen, (n, mark), neq, _, _) =>
      (minlen <=? length d)%nat && str_eqb (firstn n d) mark &&
      match neq with
      | None => true
      | Some (lo, hi, x) => negb (str_eqb (slice lo hi d) x)
      end
  end.
Definition rule_name (r : bom_rule) : str := match r with (_, _, _, name, _) => name end.
Definition rule_strip (r : bom_rule) : nat := match r with (_, _, _, _, k) => k end.

(* the if / elif chain: first branch whose test holds *)
Fixpoint strip_bom_rules (rules : list bom_rule) (d : str) : str * option str :=
  match rules with
  | [] => (d, None)
  | r :: rs => if rule_matches r d then (skipn (rule_strip r) d, Some (rule_name r))
               else strip_bom_rules rs d
  end.
Definition strip_bom (d : str) : str * option str := strip_bom_rules bom_rules d.

(* classmethod as called by EncodingDetector.__init__: `isinstance(data, str)` returns it untouched *)
Definition strip_byte_order_mark (m : markup) : markup * option str :=
  match m with
  | MStr s => (MStr s, None)
  | MBytes b => (MBytes (fst (strip_bom b)), snd (strip_bom b))
  end.

(* ------------------------------------------------------------------ the detector *)
Record dargs := mkargs {
  a_known : list str;          (* known_definite_encodings *)
  a_override : list str;       (* override_encodings (deprecated alias, appended to the former) *)
  a_user : list str;           (* user_encodings *)
  a_exclude : list str;        (* exclude_encodings, as given *)
  a_is_html : bool
}.

Section Detector.
  Variable lower : str -> str.
  Variable sniff : markup -> bool -> option str.
  Variable chardet : markup -> option str.

  (* EncodingDetector._usable: (answer, tried afterwards); `excl` is the lower-cased exclusion set *)
  Definition usable (excl tried : list str) (e : str) : bool * list str :=
    let k := lower e in
    if memS k excl then (false, tried)
    else if memS k tried then (false, tried)
    else (true, k :: tried).

  (* the generator, run to exhaustion over the names its stages offer, in stage order;
     every stage is `if self._usable(e, tried): yield e` *)
  Fixpoint gen (excl tried : list str) (offered : list str) : list str :=
    match offered with
    | [] => []
    | e :: es =>
        let (ok, tried') := usable excl tried e in
        if ok then e :: gen excl tried' es else gen excl tried' es
    end.

  (* what each stage of `encodings` offers (Gen.T_C07.encodings_stage_order gives the order) *)
  Definition stage_items (known user : list str) (sniffed declared guessed : option str) (st : N) : list str :=
    match st with
    | 0 => known
    | 1 => olist sniffed
    | 2 => user
    | 3 => olist declared
    | 4 => olist guessed
    | 5 => last_ditch_encodings
    | _ => []
    end.

  Definition offered (known user : list str) (sniffed declared guessed : option str) : list str :=
    flat_map (stage_items known user sniffed declared guessed) encodings_stage_order.

  (* EncodingDetector.__init__ + list(detector.encodings) *)
  Definition det_known (a : dargs) : list str := a_known a ++ a_override a.
  Definition det_exclude (a : dargs) : list str := map lower (a_exclude a).
  Definition det_markup (m : markup) : markup := fst (strip_byte_order_mark m).
  Definition det_sniffed (m : markup) : option str := snd (strip_byte_order_mark m).
  Definition det_declared (m : markup) (a : dargs) : option str := sniff (det_markup m) (a_is_html a).

  Definition encodings (m : markup) (a : dargs) : list str :=
    gen (det_exclude a) []
        (offered (det_known a) (a_user a) (det_sniffed m) (det_declared m a) (chardet (det_markup m))).
End Detector.

(* ------------------------------------------------------------------ UnicodeDammit *)
Section Dammit.
  Variable lower : str -> str.
  Variable known : str -> bool.
  Variable decode : str -> str -> dmode -> option str.
  Variable sniff : markup -> bool -> option str.
  Variable chardet : markup -> option str.

  (* UnicodeDammit._codec: falsy charset is returned as is (falsy); else the name if the lookup works *)
  Definition codec_ (cs : str) : option str :=
    if is_empty cs then None else if known cs then Some cs else None.

  Definition alias_of (cs : str) : str :=
    match assocS cs charset_aliases with Some t => t | None => cs end.
  Definition remove_dashes (cs : str) : str := filter (fun c => negb (c =? 45)) cs.
  Definition dashes_to_underscores (cs : str) : str := map (fun c => if c =? 45 then 95 else c) cs.

  Definition or_else {X} (a : option X) (b : option X) : option X :=
    match a with Some _ => a | None => b end.

  (* UnicodeDammit.find_codec: an `or` chain over truthy (non-empty) strings,
       _codec(ALIASES.get(cs, cs)) or (cs and _codec(cs.replace("-", ""))) or
       (cs and _codec(cs.replace("-", "_"))) or (cs and cs.lower()) or cs
     then `if value: return value.lower()`, else None *)
  Definition find_codec (cs : str) : option str :=
    let value :=
      or_else (codec_ (alias_of cs))
        (if is_empty cs then None else
         or_else (codec_ (remove_dashes cs))
           (or_else (codec_ (dashes_to_underscores cs))
              (if is_empty (lower cs) then Some cs else Some (lower cs)))) in
    match value with
    | Some v => Some (lower v)
    | None => None
    end.

  Definition tried_mem (k : str) (m : dmode) (t : list (str * dmode)) : bool :=
    existsb (fun p => str_eqb k (fst p) && dmode_eqb m (snd p)) t.

  (* UnicodeDammit._convert_from with smart_quotes_to = None.
     Returns (Some (text, codec) | None, tried_encodings afterwards). *)
  Definition convert_from (bytes : str) (tried : list (str * dmode)) (proposed : str) (m : dmode)
    : option (str * str) * list (str * dmode) :=
    match find_codec proposed with
    | None => (None, tried)
    | Some k =>
        if tried_mem k m tried then (None, tried)
        else
          let tried' := tried ++ [(k, m)] in
          match decode bytes k m with
          | Some u => (Some (u, k), tried')
          | None => (None, tried')
          end
    end.

  (* for encoding in self.detector.encodings: u = self._convert_from(encoding); if u is not None: break *)
  Fixpoint strict_loop (bytes : str) (tried : list (str * dmode)) (cands : list str)
    : option (str * str) * list (str * dmode) :=
    match cands with
    | [] => (None, tried)
    | c :: cs =>
        match convert_from bytes tried c Strict with
        | (Some r, t) => (Some r, t)
        | (None, t) => strict_loop bytes t cs
        end
    end.

  (* the replace pass (entered with u = None, FIX 1):
       if encoding != "ascii": u = self._convert_from(encoding, "replace")
       if u is not None: ...; break *)
  Fixpoint replace_loop (bytes : str) (tried : list (str * dmode)) (cands : list str)
    : option (str * str) * list (str * dmode) :=
    match cands with
    | [] => (None, tried)
    | c :: cs =>
        if str_eqb c replace_pass_skips then replace_loop bytes tried cs
        else
          match convert_from bytes tried c Replace with
          | (Some r, t) => (Some r, t)
          | (None, t) => replace_loop bytes t cs
          end
    end.

  Record dammit_result := mkres {
    r_text : option str;               (* unicode_markup *)
    r_orig : option str;               (* original_encoding *)
    r_flag : bool;                     (* contains_replacement_characters *)
    r_declared_html : option str;      (* declared_html_encoding *)
    r_tried : list (str * dmode);      (* tried_encodings *)
    r_markup : markup                  (* .markup *)
  }.

  (* the property declared_html_encoding (FIX 3: looked up on demand, so it no longer depends on
     how far the generator was driven) *)
  Definition declared_html (m : markup) (a : dargs) : option str :=
    if a_is_html a then det_declared sniff m a else None.

  (* UnicodeDammit.__init__ *)
  Definition dammit (m : markup) (a : dargs) : dammit_result :=
    match m with
    | MStr s =>                                  (* isinstance(markup, str): short-circuit *)
        mkres (Some s) None false (declared_html m a) [] m
    | MBytes [] =>                               (* markup == b"" (FIX 2: the text is "", not "b''") *)
        mkres (Some []) None false (declared_html m a) [] m
    | MBytes b =>
        let bytes := fst (strip_bom b) in
        let cands := encodings lower sniff chardet m a in
        match strict_loop bytes [] cands with
        | (Some (u, k), t) => mkres (Some u) (Some k) false (declared_html m a) t (MBytes bytes)
        | (None, t) =>
            match replace_loop bytes t cands with   (* a second, fresh run of the generator: same list *)
            | (Some (u, k), t') => mkres (Some u) (Some k) true (declared_html m a) t' (MBytes bytes)
            | (None, t') => mkres None None false (declared_html m a) t' (MBytes bytes)
            end
        end
    end.

  (* HTMLParserTreeBuilder.prepare_markup as driven by the BeautifulSoup constructor
     (document_declared_encoding is never passed by it) *)
  Inductive prepared :=
  | Prepared (text : str) (orig declared : option str) (flag : bool)
  | Rejected.                                    (* ParserRejectedMarkup *)

  Definition prepare_markup (m : markup) (from_encoding : option str) (exclude : list str) : prepared :=
    match m with
    | MStr s => Prepared s None None false
    | MBytes _ =>
        let known_definite :=
          match from_encoding with
          | Some e => if is_empty e then [] else [e]
          | None => []
          end in
        let r := dammit m (mkargs known_definite [] [] exclude true) in
        match r_text r with
        | None => Rejected
        | Some t => Prepared t (r_orig r) (r_declared_html r) (r_flag r)
        end
    end.
End Dammit.
