(* C04 / C18 — BeautifulSoupHTMLParser (bs4/builder/_htmlparser.py 127-327): the adapter from the
   standard library's HTMLParser callbacks to the tree-construction events of Model/Build.v.
   Input: the *recorded* callback stream (the tokenizer itself is not in the repository and is not
   modelled); each start-tag callback carries the position getpos() returned when it fired.
   Output: the calls made on the BeautifulSoup object (handle_starttag / handle_endtag /
   handle_data / endData), each start tag with the (sourceline, sourcepos) handed on.
   Follows the code after the fix "handle_startendtag closes the tag it opened"
   (check_already_closed=False); [adapter_step_gen true] is the code before that fix. *)
From Coq Require Import List NArith ZArith Bool.
From BS Require Import Base.Sexp Base.Types Base.Reader Gen.Tables Gen.Entities Gen.Stdlib
                       Model.Attrs Model.Heap Model.Edit Model.Build.
Import ListNotations.
Open Scope N_scope.

Definition pos := (N * N)%type.                 (* getpos(): (lineno, offset) *)

(* HTMLParser callbacks, as the tokenizer fires them *)
Inductive hev :=
| HStart (name : str) (attrs : list (str * option str)) (p : pos)      (* handle_starttag *)
| HStartEnd (name : str) (attrs : list (str * option str)) (p : pos)   (* handle_startendtag *)
| HEnd (name : str)                                                    (* handle_endtag *)
| HData (s : str)
| HCharref (name : str)
| HEntityref (name : str)
| HComment (s : str)
| HDecl (s : str)
| HUnknownDecl (s : str)
| HPi (s : str).

Record acfg := mkacfg {
  a_b : bconfig;                                   (* the builder's tables (Model/Build.v) *)
  a_dup : dup_policy;                              (* on_duplicate_attribute *)
  a_on_dupe : adict -> akey -> aval -> adict;      (* the user's callable, when a_dup = DupCall *)
  a_store : bool;                                  (* builder.store_line_numbers *)
  a_orig : option (N -> option str)                (* bytearray([b]).decode(soup.original_encoding), if any *)
}.

(* string classes, numbering of Gen/Tables.v *)
Definition cls_cdata : N := 1.
Definition cls_pi : N := 2.
Definition cls_comment : N := 4.
Definition cls_declaration : N := 5.
Definition cls_doctype : N := 6.

(* ---- handle_charref ---- *)
Fixpoint lstrip_char (c : N) (s : str) : str :=        (* name.lstrip("x") *)
  match s with
  | x :: s' => if x =? c then lstrip_char c s' else s
  | [] => []
  end.
Definition nonempty_all (f : N -> bool) (s : str) : bool :=
  match s with [] => false | _ => forallb f s end.
(* int(name) / int(name, 16) on the tokenizer's grammar ([0-9]+ | [xX][0-9a-fA-F]+);
   None = ValueError (anything else: int() is richer than this, see ASSUMPTIONS in the harness) *)
Definition charref_value (name : str) : option N :=
  match name with
  | c :: _ =>
      if c =? 120 then let d := lstrip_char 120 name in if nonempty_all is_hexd d then Some (num_of 16 d) else None
      else if c =? 88 then let d := lstrip_char 88 name in if nonempty_all is_hexd d then Some (num_of 16 d) else None
      else if nonempty_all is_digit name then Some (num_of 10 name) else None
  | [] => None
  end.
Definition decode_cp1252 (b : N) : option str :=
  match nth (N.to_nat b) cp1252_table None with Some c => Some [c] | None => None end.
Definition nonempty (o : option str) : option str :=
  match o with Some (_ :: _) => o | _ => None end.
(* the body after int(): the < 256 loop over (original_encoding, "windows-1252") — the second
   iteration overwrites the first when it succeeds —, chr(), REPLACEMENT CHARACTER *)
Definition charref_data (orig : option (N -> option str)) (v : N) : str :=
  let data :=
    if v <? 256 then
      let d1 := match orig with Some f => f v | None => None end in
      match decode_cp1252 v with Some s => Some s | None => d1 end
    else None in
  let data := match nonempty data with
              | Some s => Some s
              | None => if v <? 1114112 then Some [v] else None      (* chr(): ValueError/OverflowError *)
              end in
  match nonempty data with Some s => s | None => [65533] end.

(* ---- handle_entityref ---- *)
Definition entity_data (name : str) : str :=
  match assocS name html_entity_to_character with
  | Some chars => chars
  | None => c_amp :: name
  end.

(* ---- attributes of a start tag ---- *)
Definition akey_of (k : str) : akey := {| k_full := k; k_local := None |}.
Definition aval_text (v : aval) : str :=
  match v with VStr s => s | VList l => join_sp l | _ => [] end.
Definition attrs_out (d : adict) : list (str * str) :=
  map (fun kv => (k_full (fst kv), aval_text (snd kv))) d.
Definition mk_attrs (cfg : acfg) (attrs : list (str * option str)) : list (str * str) :=
  attrs_out (collect_attrs plain_setitem (a_on_dupe cfg) (a_dup cfg)
                           (map (fun kv => (akey_of (fst kv), snd kv)) attrs)).

(* ---- the calls made on the soup object ---- *)
Definition out := (event * option pos)%type.

Fixpoint remove_first (n : str) (l : list str) : list str :=      (* list.remove(name) *)
  match l with
  | [] => []
  | x :: r => if str_eqb n x then r else x :: remove_first n r
  end.

(* handle_endtag(name, check_already_closed) *)
Definition end_tag (ac : list str) (name : str) (check : bool) : list out * list str :=
  if check && memS name ac then ([], remove_first name ac)
  else ([(EEnd name None, None)], ac).

(* handle_starttag(name, attrs, handle_empty_element); the tag is never rejected (no parse_only) *)
Definition start_tag (cfg : acfg) (ac : list str) (name : str) (attrs : list (str * option str))
           (p : pos) (handle_empty : bool) : list out * list str :=
  let sp := if a_store cfg then Some p else None in
  let e := (EStart name None (mk_attrs cfg attrs), sp) in
  if can_be_empty (a_b cfg) name && handle_empty then
    let '(o, ac') := end_tag ac name false in (e :: o, ac' ++ [name])
  else ([e], ac).

Definition ascii_upper (s : str) : str :=
  map (fun c => if (97 <=? c) && (c <=? 122) then c - 32 else c) s.
Fixpoint starts_with (p s : str) : bool :=
  match p, s with
  | [], _ => true
  | x :: p', y :: s' => (x =? y) && starts_with p' s'
  | _ :: _, [] => false
  end.
Definition s_cdata_open : str := [67; 68; 65; 84; 65; 91].          (* "CDATA[" *)
Definition len_doctype : nat := 8.                                   (* len("DOCTYPE ") *)

Definition special (s : str) (cls : N) : list out :=
  [(EEndData None, None); (EData s, None); (EEndData (Some cls), None)].

(* one callback; None = the callback raised ValueError (handle_charref on a name int() rejects).
   [selfclose_checks] is the check_already_closed flag handle_startendtag passes to handle_endtag:
   false in the code as it is now. *)
Definition adapter_step_gen (selfclose_checks : bool) (cfg : acfg) (ac : list str) (h : hev)
  : option (list out * list str) :=
  match h with
  | HStart n a p => Some (start_tag cfg ac n a p true)
  | HStartEnd n a p =>
      let '(o1, ac1) := start_tag cfg ac n a p false in
      let '(o2, ac2) := end_tag ac1 n selfclose_checks in
      Some (o1 ++ o2, ac2)
  | HEnd n => Some (end_tag ac n true)
  | HData s => Some ([(EData s, None)], ac)
  | HCharref n =>
      match charref_value n with
      | Some v => Some ([(EData (charref_data (a_orig cfg) v), None)], ac)
      | None => None
      end
  | HEntityref n => Some ([(EData (entity_data n), None)], ac)
  | HComment s => Some (special s cls_comment, ac)
  | HDecl s => Some (special (skipn len_doctype s) cls_doctype, ac)
  | HUnknownDecl s =>
      if starts_with s_cdata_open (ascii_upper s)
      then Some (special (skipn (length s_cdata_open) s) cls_cdata, ac)
      else Some (special s cls_declaration, ac)
  | HPi s => Some (special s cls_pi, ac)
  end.
Definition adapter_step := adapter_step_gen false.

(* the whole stream: the calls made, the final already_closed_empty_element list, and whether
   every callback returned (false: a callback raised; the calls made before it are kept) *)
Fixpoint adapter_run_gen (sc : bool) (cfg : acfg) (ac : list str) (hs : list hev)
  : list out * list str * bool :=
  match hs with
  | [] => ([], ac, true)
  | h :: r =>
      match adapter_step_gen sc cfg ac h with
      | None => ([], ac, false)
      | Some (o, ac') =>
          let '(o', ac'', ok) := adapter_run_gen sc cfg ac' r in (o ++ o', ac'', ok)
      end
  end.
Definition adapter_run := adapter_run_gen false.

Definition events_of (o : list out) : list event := map fst o.

(* C18: (name, sourceline/sourcepos) of every Tag created, in creation (= document) order *)
Fixpoint tag_positions (o : list out) : list (str * option pos) :=
  match o with
  | [] => []
  | (EStart n _ _, p) :: r => (n, p) :: tag_positions r
  | _ :: r => tag_positions r
  end.

(* the document tree: BeautifulSoup._feed over the adapter's calls *)
Definition parse (cfg : acfg) (hs : list hev) : bstate :=
  let '(o, _, _) := adapter_run cfg [] hs in feed (a_b cfg) (events_of o).
