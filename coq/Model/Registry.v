(* C20 — TreeBuilderRegistry.register / lookup and the constructor's builder decision,
   following bs4/builder/__init__.py 94-151 and bs4/__init__.py 349-375 statement by statement.
   Builders and features are interned as N by the harness / translator. *)
From Coq Require Import List NArith Bool.
From BS Require Import Base.Sexp Base.Types.
Import ListNotations.
Open Scope N_scope.

(* builders_for_feature : defaultdict(list) as an association list *)
Definition fmap := list (N * list N).
Fixpoint fget (f : N) (m : fmap) : list N :=
  match m with
  | [] => []
  | (g, l) :: m' => if N.eqb f g then l else fget f m'
  end.
Fixpoint fins (f b : N) (m : fmap) : fmap :=        (* m[f].insert(0, b) *)
  match m with
  | [] => [(f, [b])]
  | (g, l) :: m' => if N.eqb f g then (g, b :: l) :: m' else (g, l) :: fins f b m'
  end.

Record registry := { bff : fmap; builders : list N }.
Definition empty_registry := {| bff := []; builders := [] |}.

Definition registration := (N * list N)%type.       (* class id, class.features *)

Definition register (r : registry) (c : registration) : registry :=
  {| bff := fold_left (fun m f => fins f (fst c) m) (snd c) (bff r);
     builders := fst c :: builders r |}.

Definition state_of (hist : list registration) : registry :=
  fold_left register hist empty_registry.

(* the while-loop over feature_list: candidates / candidate_set *)
Definition lookup_step (m : fmap) (st : option (list N) * option (list N)) (f : N)
  : option (list N) * option (list N) :=
  let w := fget f m in
  match w with
  | [] => st
  | _ :: _ =>
      match st with
      | (None, _) => (Some w, Some w)
      | (Some c, Some s) => (Some c, Some (filter (fun b => memN b w) s))
      | (Some c, None) => (Some c, None)
      end
  end.

Definition lookup (r : registry) (features : list N) : option N :=
  match builders r with
  | [] => None
  | b0 :: _ =>
      match features with
      | [] => Some b0
      | _ :: _ =>
          match fold_left (lookup_step (bff r)) features (None, None) with
          | (Some c, Some s) => find (fun b => memN b s) c
          | _ => None
          end
      end
  end.

(* BeautifulSoup.__init__ 349-375, 427-431: which builder is used *)
Inductive builder_arg := BNone | BClass (c : N) | BInstance (i : N).
Inductive decision :=
| FeatureNotFound
| Instantiate (c : N) (kwargs : list N)       (* builder_class( **kwargs ) *)
| UseInstance (i : N) (warn_kwargs_ignored : bool).

Definition construct_decision (r : registry) (default_features : list N)
           (b : builder_arg) (features : option (list N)) (kwargs : list N) : decision :=
  match b with
  | BClass c => Instantiate c kwargs
  | BInstance i => UseInstance i (match kwargs with [] => false | _ => true end)
  | BNone =>
      let fs := match features with
                | None | Some [] => default_features
                | Some l => l
                end in
      match lookup r fs with
      | None => FeatureNotFound
      | Some c => Instantiate c kwargs
      end
  end.
