(* C05 — the rendering as a sequence of tokens, how the tokens are spelled, and how an HTML parser
   reads such a token sequence back into tree-builder events (C03's events, Model/Build.v).

   [tokens] follows the recursive rendering ([Spec.RenderSpec.plain]) piece by piece; [spell] gives
   each token's text and Proofs/RoundTripProofs.v shows the spelled tokens to be exactly the
   rendering.  [read_tokens] is the *idealised tokenizer*: it reads one token at a time the way
   html.parser + BeautifulSoupHTMLParser (builder/_htmlparser.py 127-327) handle the corresponding
   markup: start tags (names lower-cased, attribute values unquoted and unescaped, void elements
   closed at once and remembered in already_closed_empty_element, script/style switching to raw
   text), empty-element tags (handle_startendtag), end tags (handle_endtag with its
   already-closed check), character data (entity references resolved, by a function parameter),
   comments / CDATA sections / processing instructions / doctypes (endData(); handle_data; endData(cls)).
   That the standard-library tokenizer cuts the spelled text into these tokens is *not* proved here;
   the harness compares the two on every case. *)
From Coq Require Import List NArith ZArith Bool Arith.
From BS Require Import Base.Sexp Base.Types Gen.Tables Gen.Stdlib Gen.T_C05 Model.Attrs Model.Render Model.Build.
Import ListNotations.
Open Scope N_scope.

Inductive token :=
| TOpen (name : str) (attrs : list (str * option str))          (* <name k="v" ...> ; v as written between the quotes *)
| TEmptyTag (name : str) (attrs : list (str * option str)) (slash : str)   (* <name ... slash> *)
| TClose (name : str)                                            (* </name> *)
| TText (s : str)                                                (* character data as written *)
| TSpecial (c : N) (s : str)                                     (* a markup declaration: PREFIX s SUFFIX *)
| TNone.                                                         (* a hidden tag writes nothing *)

(* ---- from the tree to tokens ---- *)
Definition qname (p : tagp) : str :=
  match truthy (g_prefix p) with Some x => x ++ [colon_] | None => [] end ++ g_name p.

(* what quoted_attribute_value puts between the quotes *)
Definition attr_inner (v : str) : str := if memN dq_ v && memN sq_ v then replace_dq v else v.
Definition token_attr (enc : bool) (f : fmt) (kv : str * rval) : str * option str :=
  (fst kv, option_map (fun v => attr_inner (substitute f false None v)) (value_text enc (snd kv))).
Definition token_attrs (enc : bool) (f : fmt) (p : tagp) : list (str * option str) :=
  map (token_attr enc f) (attributes f p).

(* a suffix that ends with a newline (Doctype's ">\n") is the end of the declaration followed by character
   data: the newline is text to whoever reads the markup back *)
Definition ends_nl (s : str) : bool := match rev s with 10 :: _ => true | _ => false end.
Definition special_suffix (c : N) : str :=
  let suf := snd (affixes c) in if ends_nl suf then removelast suf else suf.
Definition trailing (c : N) : str :=
  if ends_nl (snd (affixes c)) then [nl_] else [].

Definition string_tokens (f : fmt) (c : N) (s : str) (pname : option str) : list token :=
  if preformatted c then
    TSpecial c s :: match trailing c with [] => [] | t => [TText t] end
  else [TText (fst (affixes c) ++ substitute f true pname s ++ snd (affixes c))].

Fixpoint tokens (enc : bool) (f : fmt) (pname : option str) (t : node) : list token :=
  match t with
  | NStr c s => string_tokens f c s pname
  | NTag p ks =>
      if g_hidden p then
        TNone :: (fix go (l : list node) : list token :=
                    match l with
                    | [] => []
                    | k :: l' => tokens enc f (Some (g_name p)) k ++ go l'
                    end) ks ++ (if is_empty_element p (length ks) then [] else [TNone])
      else if is_empty_element p (length ks) then [TEmptyTag (qname p) (token_attrs enc f p) (f_void f)]
      else TOpen (qname p) (token_attrs enc f p) ::
           (fix go (l : list node) : list token :=
              match l with
              | [] => []
              | k :: l' => tokens enc f (Some (g_name p)) k ++ go l'
              end) ks
           ++ [TClose (qname p)]
  end.
Fixpoint tokens_kids (enc : bool) (f : fmt) (pname : str) (l : list node) : list token :=
  match l with
  | [] => []
  | k :: l' => tokens enc f (Some pname) k ++ tokens_kids enc f pname l'
  end.
Definition tokens_of (enc : bool) (f : fmt) (t : node) : list token :=
  match t with
  | NTag p ks => if g_hidden p then tokens_kids enc f (g_name p) ks else tokens enc f None t
  | NStr _ _ => []
  end.

(* ---- spelling ---- *)
Definition spell_attr (kv : str * option str) : str :=
  match snd kv with
  | None => fst kv
  | Some inner =>
      let q := if memN dq_ inner then sq_ else dq_ in
      fst kv ++ eq_ :: q :: inner ++ [q]
  end.
Definition spell_attrs (attrs : list (str * option str)) : str :=
  match map spell_attr attrs with
  | [] => []
  | l => sp_ :: join_with_sp l
  end.
Definition spell (tok : token) : str :=
  match tok with
  | TOpen n a => lt_ :: n ++ spell_attrs a ++ [gt_]
  | TEmptyTag n a slash => lt_ :: n ++ spell_attrs a ++ slash ++ [gt_]
  | TClose n => lt_ :: slash_ :: n ++ [gt_]
  | TText s => s
  | TSpecial c s => fst (affixes c) ++ s ++ special_suffix c
  | TNone => []
  end.

(* ---- reading the tokens back ---- *)
Record rcfg := mkrcfg {
  r_void : list str;          (* the re-parsing builder's empty-element tags *)
  r_cdata : list str;         (* html.parser's CDATA_CONTENT_ELEMENTS *)
  r_check : bool              (* handle_startendtag's handle_endtag consults already_closed_empty_element
                                 (true in the code as it stands; false once C04's repair is in) *)
}.
Record rstate := mkrs {
  rs_raw : option str;        (* cdata_elem: inside script/style everything up to its end tag is text *)
  rs_closed : list str        (* already_closed_empty_element *)
}.

Fixpoint remove_first (n : str) (l : list str) : list str :=     (* list.remove(name) *)
  match l with
  | [] => []
  | x :: l' => if str_eqb n x then l' else x :: remove_first n l'
  end.

Section Reader.
  Variable rt : str -> str.            (* character data -> text (entity / character references resolved) *)
  Variable ra : str -> str.            (* attribute value between the quotes -> value (html.unescape) *)
  Variable cfg : rcfg.

  Definition read_attr (kv : str * option str) : str * str :=
    (ascii_lower (fst kv), match snd kv with None => [] | Some inner => ra inner end).

  (* BeautifulSoupHTMLParser.handle_endtag(name, check_already_closed) *)
  Definition parser_endtag (st : rstate) (n : str) (check : bool) : rstate * list event :=
    if check && memS n (rs_closed st) then (mkrs (rs_raw st) (remove_first n (rs_closed st)), [])
    else (st, [EEnd n None]).

  (* endData(); handle_data(data); endData(cls) *)
  Definition special_events (c : N) (data : str) : list event := [EEndData None; EData data; EEndData (Some c)].

  Definition read_token (st : rstate) (tok : token) : rstate * list event :=
    match rs_raw st with
    | Some e =>
        (* raw text mode: only the matching end tag is markup *)
        match tok with
        | TClose n =>
            if str_eqb (ascii_lower n) e then parser_endtag (mkrs None (rs_closed st)) e true
            else (st, [EData (spell tok)])
        | _ => (st, match spell tok with [] => [] | s => [EData s] end)
        end
    | None =>
        match tok with
        | TOpen n a =>
            let n' := ascii_lower n in
            let start := EStart n' None (map read_attr a) in
            let raw := if memS n' (r_cdata cfg) then Some n' else None in
            if memS n' (r_void cfg)
            then (mkrs raw (n' :: rs_closed st), [start; EEnd n' None])
            else (mkrs raw (rs_closed st), [start])
        | TEmptyTag n a slash =>
            let n' := ascii_lower n in
            let start := EStart n' None (map read_attr a) in
            match slash with
            | [] =>      (* nothing before '>': the tokenizer sees a start tag *)
                let raw := if memS n' (r_cdata cfg) then Some n' else None in
                if memS n' (r_void cfg)
                then (mkrs raw (n' :: rs_closed st), [start; EEnd n' None])
                else (mkrs raw (rs_closed st), [start])
            | _ =>       (* handle_startendtag *)
                let '(st', evs) := parser_endtag st n' (r_check cfg) in (st', start :: evs)
            end
        | TClose n => parser_endtag st (ascii_lower n) true
        | TText s => (st, match s with [] => [] | _ => [EData (rt s)] end)
        | TSpecial c s =>
            (st, match c with
                 | 4 => special_events 4 s                       (* handle_comment *)
                 | 1 => special_events 1 s                       (* unknown_decl "CDATA[" + s *)
                 | 2 => special_events 2 s                       (* handle_pi: <?s> *)
                 | 3 | 5 => special_events 2 (s ++ [63])         (* <?s?> is a processing instruction "s?" *)
                 | 6 => special_events 6 s                       (* handle_decl "DOCTYPE " + s *)
                 | _ => []
                 end)
        | TNone => (st, [])
        end
    end.

  Fixpoint read_from (st : rstate) (toks : list token) : list event :=
    match toks with
    | [] => []
    | tok :: toks' => let '(st', evs) := read_token st tok in evs ++ read_from st' toks'
    end.
  Definition read_tokens (toks : list token) : list event := read_from (mkrs None []) toks.
End Reader.
