(* C09 — element text as the stdlib tokenizer REALLY reads it (html/parser.py goahead(), convert_charrefs=False,
   with bs4's handle_entityref / handle_charref), including the one place where Base/Reader.v is idealised.

   Base.Reader follows the tokenizer exactly except at "&#" that does not begin a numeric character reference
   (pattern charref = &#(?:[0-9]+|[xX][0-9a-fA-F]+)[^0-9a-fA-F] fails: "&#" + neither digit nor x, "&#x" + no hex
   digit, "&#" + digits + a hex letter). There the tokenizer does this:
       if ";" occurs anywhere later in the document: handle_data("&#"), skip those two characters;  then, in
       either case, BREAK out of its loop.
   BeautifulSoup calls feed() once and then close(): feed() runs the loop a first time (pass 1), close() runs it
   again from where it stopped (pass 2), and after the loop of pass 2 everything that is left is handed over as
   character data. So:
     - the first such "&#" of a document, if a ";" follows somewhere: read literally, tokenizing goes on (pass 2);
     - otherwise (no ";" later, or already in pass 2): the tokenizer stops and the whole rest of the document -
       markup included - becomes text.
   [real_from st pass2 t K]: the text t (followed in the document by K, which begins with the '<' of the next tag)
   read from reader state st. Result: the character data given out, and whether the tokenizer goes on (in which
   pass) or has stopped (then the output ends with the raw rest of t and all of K). *)
From Coq Require Import List NArith Bool.
From BS Require Import Base.Sexp Base.Types Base.Reader Model.SmartQuotes Model.EntitySubst.
Import ListNotations.
Open Scope N_scope.

(* the tokenizer stands at "&#" (state says what followed it so far) and c shows that the pattern cannot match *)
Definition bad_hash (st : rstate) (c : N) : bool :=
  match st with
  | Hash => negb (is_digit c || (c =? c_x) || (c =? c_X))
  | HashX _ => negb (is_hexd c)
  | Dec _ => is_hexd c && negb (is_digit c)
  | _ => false
  end.

(* the same at the end of the text: what follows is '<' *)
Definition bad_at_end (st : rstate) : bool :=
  match st with Hash | HashX _ => true | _ => false end.

Definition has_semi (s : str) : bool := memN c_semi s.

Inductive tok_state := Goes (pass2 : bool) | Stopped.

Fixpoint real_from (st : rstate) (pass2 : bool) (t K : str) : str * tok_state :=
  match t with
  | [] =>
      if bad_at_end st then
        if negb pass2 && has_semi K then (literal st, Goes true)
        else (literal st ++ K, Stopped)
      else (finish ent_text num_text st, Goes pass2)
  | c :: t' =>
      if bad_hash st c && negb (negb pass2 && has_semi (c :: t' ++ K)) then (literal st ++ c :: t' ++ K, Stopped)
      else
        let '(st', o) := step ent_text num_text st c in
        let '(r, p) := real_from st' (pass2 || bad_hash st c) t' K in
        (o ++ r, p)
  end.

Definition real_read_text (pass2 : bool) (t K : str) : str * tok_state := real_from Idle pass2 t K.

(* the tokenizer never gets into that situation while reading t *)
Fixpoint never_bad (st : rstate) (t : str) : bool :=
  match t with
  | [] => negb (bad_at_end st)
  | c :: t' => negb (bad_hash st c) && never_bad (fst (step ent_text num_text st c)) t'
  end.

(* a string whose text, with its "&...;" forms protected as substitute_html5 does, never puts the tokenizer at a
   stray "&#" (hypothesis of the html5 theorem about the real reader) *)
Definition no_stray_hash (s : str) : bool := never_bad Idle (escape_any_entity s).

Definition k_pre : str := [60; 47; 112; 114; 101; 62].          (* "</pre>": what follows the text in the harness's documents *)
