(* C04 / C18 — the html.parser route on a *string*: the tokenizer model (Model/Tokenizer.v) feeding the adapter
   model (Model/Adapter.v) feeding the tree construction (Model/Build.v).  No proofs in this file. *)
From Coq Require Import List NArith Bool.
From BS Require Import Base.Sexp Base.Types Model.Build Model.Adapter Model.Pos Model.Tokenizer.
Import ListNotations.
Open Scope N_scope.

(* a callback of the tokenizer as the adapter receives it: start tags with getpos() *)
Definition hev_of (p : pos) (e : tev) : hev :=
  match e with
  | TStart n a => HStart n a p
  | TStartEnd n a => HStartEnd n a p
  | TEnd n => HEnd n
  | TData s => HData s
  | TCharref n => HCharref n
  | TEntityref n => HEntityref n
  | TComment s => HComment s
  | TDecl s => HDecl s
  | TUnknownDecl s => HUnknownDecl s
  | TPi s => HPi s
  end.
Definition hevs_of_items (its : list item) : list hev :=
  flat_map (fun it => map (hev_of (it_pos it)) (it_evs it)) its.

(* the callback stream BeautifulSoupHTMLParser receives for a text *)
Definition callbacks (unesc : str -> str) (text : str) : list hev := hevs_of_items (fst (tokenize unesc text)).
(* html.parser raised AssertionError (HTMLParserTreeBuilder.feed turns it into ParserRejectedMarkup) *)
Definition rejected (unesc : str -> str) (text : str) : bool :=
  match gs_status (snd (tokenize unesc text)) with Running => false | _ => true end.

(* BeautifulSoup(text, "html.parser") for a str: the heap built from the text *)
Definition parse_string (cfg : acfg) (unesc : str -> str) (text : str) : bstate := parse cfg (callbacks unesc text).

(* (name, offset) of every start-tag callback, in order *)
Definition ev_start_name (e : tev) : option str :=
  match e with TStart n _ | TStartEnd n _ => Some n | _ => None end.
Definition tok_starts (its : list item) : list (str * nat) :=
  flat_map (fun it => flat_map (fun e => match ev_start_name e with Some n => [(n, it_off it)] | None => [] end)
                               (it_evs it)) its.
