(* Concrete, executable codecs (C07 / C08 / C19): what Python's bytes.decode / str.encode do for
     ascii, iso-8859-1 (latin-1), windows-1252 (cp1252), utf-8, and (decoding only) utf-16-le/be, utf-32-le/be,
   with the error handlers Beautiful Soup uses:
     decoding  strict | replace            UnicodeDammit._to_unicode = str(data, encoding, errors), errors in
                                           {"strict", "replace"} (bs4/dammit.py, UnicodeDammit.__init__)
     encoding  strict | xmlcharrefreplace | replace
                                           Tag.encode(..., errors="xmlcharrefreplace"), Tag.encode_contents
                                           (bs4/element.py); "replace" is what a caller may pass as errors=
   Bytes and code points are both [list N]. The single-byte tables (which bytes a codec leaves undefined) and the
   names under which codecs.lookup finds a codec are generated from the running interpreter (Gen/T_Codecs.v).
   Then: UnicodeDammit / prepare_markup (Model/Dammit.v) and Tag.encode (Model/Encode.v) with every external
   function instantiated — nothing recorded per case.  No proofs in this file. *)
From Coq Require Import List NArith Bool Arith.
From BS Require Import Base.Sexp Base.Types Spec.Utf8 Gen.T_Codecs Gen.T_C07 Model.Dammit Model.Sniff Model.Encode.
Import ListNotations.
Open Scope N_scope.

Inductive codec := Ascii | Latin1 | Cp1252 | Utf8 | Utf16LE | Utf16BE | Utf32LE | Utf32BE.

Definition codec_of_id (n : N) : option codec :=
  match n with
  | 0 => Some Ascii | 1 => Some Latin1 | 2 => Some Cp1252 | 3 => Some Utf8
  | 4 => Some Utf16LE | 5 => Some Utf16BE | 6 => Some Utf32LE | 7 => Some Utf32BE
  | _ => None
  end.

(* ------------------------------------------------------------------ *)
(* 1. single-byte (charmap) codecs, driven by a 256-entry table        *)
(* ------------------------------------------------------------------ *)
Section SingleByte.
  Variable tbl : list (option N).

  Definition sb_dec_byte (b : N) : option N :=
    if b <? 256 then nth (N.to_nat b) tbl None else None.

  (* bytes.decode(codec, "strict"): None = UnicodeDecodeError *)
  Fixpoint sb_decode (bs : list N) : option str :=
    match bs with
    | [] => Some []
    | b :: r =>
        match sb_dec_byte b, sb_decode r with
        | Some c, Some u => Some (c :: u)
        | _, _ => None
        end
    end.

  (* bytes.decode(codec, "replace"): one U+FFFD per undefined byte *)
  Definition sb_decode_replace (bs : list N) : str :=
    map (fun b => match sb_dec_byte b with Some c => c | None => cd_decode_replacement end) bs.

  (* the encoder: the (first) byte whose entry is c *)
  Fixpoint sb_find (c : N) (t : list (option N)) (i : N) : option N :=
    match t with
    | [] => None
    | e :: r =>
        match e with
        | Some d => if d =? c then Some i else sb_find c r (i + 1)
        | None => sb_find c r (i + 1)
        end
    end.
  Definition sb_enc_char (c : N) : option (list N) :=
    match sb_find c tbl 0 with Some b => Some [b] | None => None end.
End SingleByte.

(* ------------------------------------------------------------------ *)
(* 2. UTF-8                                                            *)
(* ------------------------------------------------------------------ *)
Definition utf8_enc_char (c : N) : option (list N) := if scalar c then Some (utf8_enc c) else None.

Definition is_cont8 (b : N) : bool := (128 <=? b) && (b <=? 191).

(* strict: rejects overlong forms, surrogates, values above U+10FFFF, stray and missing continuation bytes *)
Fixpoint utf8_decode (bs : list N) : option str :=
  match bs with
  | [] => Some []
  | b0 :: r0 =>
      if b0 <? 128 then option_map (cons b0) (utf8_decode r0)
      else if (194 <=? b0) && (b0 <=? 223) then
        match r0 with
        | b1 :: r1 =>
            if is_cont8 b1 then option_map (cons ((b0 - 192) * 64 + (b1 - 128))) (utf8_decode r1) else None
        | _ => None
        end
      else if (224 <=? b0) && (b0 <=? 239) then
        match r0 with
        | b1 :: b2 :: r2 =>
            if is_cont8 b1 && is_cont8 b2 then
              let c := (b0 - 224) * 4096 + (b1 - 128) * 64 + (b2 - 128) in
              if scalar c && (2048 <=? c) then option_map (cons c) (utf8_decode r2) else None
            else None
        | _ => None
        end
      else if (240 <=? b0) && (b0 <=? 244) then
        match r0 with
        | b1 :: b2 :: b3 :: r3 =>
            if is_cont8 b1 && is_cont8 b2 && is_cont8 b3 then
              let c := (b0 - 240) * 262144 + (b1 - 128) * 4096 + (b2 - 128) * 64 + (b3 - 128) in
              if (65536 <=? c) && (c <=? 1114111) then option_map (cons c) (utf8_decode r3) else None
            else None
        | _ => None
        end
      else None
  end.

(* errors="replace": CPython replaces every maximal prefix of a well-formed sequence that cannot be continued
   (and every byte that cannot start one) by one U+FFFD and resumes at the offending byte.
   A left-to-right machine: either at a character boundary, or inside a sequence with [acc] collected so far,
   [rem] continuation bytes missing, the next of which must lie in [lo, hi] (E0 -> A0..BF, ED -> 80..9F,
   F0 -> 90..BF, F4 -> 80..8F: this is where overlong forms, surrogates and > U+10FFFF are cut off). *)
Inductive u8state := U8Start | U8Cont (acc : N) (rem : nat) (lo hi : N).

Definition u8_start (b : N) : str * u8state :=
  if b <? 128 then ([b], U8Start)
  else if (194 <=? b) && (b <=? 223) then ([], U8Cont (b - 192) 1 128 191)
  else if b =? 224 then ([], U8Cont 0 2 160 191)
  else if b =? 237 then ([], U8Cont 13 2 128 159)
  else if (225 <=? b) && (b <=? 239) then ([], U8Cont (b - 224) 2 128 191)
  else if b =? 240 then ([], U8Cont 0 3 144 191)
  else if (241 <=? b) && (b <=? 243) then ([], U8Cont (b - 240) 3 128 191)
  else if b =? 244 then ([], U8Cont 4 3 128 143)
  else ([cd_decode_replacement], U8Start).

Definition u8_step (st : u8state) (b : N) : str * u8state :=
  match st with
  | U8Start => u8_start b
  | U8Cont acc rem lo hi =>
      if (lo <=? b) && (b <=? hi) then
        let acc' := acc * 64 + (b - 128) in
        match rem with
        | S (S k) => ([], U8Cont acc' (S k) 128 191)
        | _ => ([acc'], U8Start)
        end
      else
        let (out, st') := u8_start b in (cd_decode_replacement :: out, st')
  end.

Fixpoint u8_run (st : u8state) (bs : list N) : str :=
  match bs with
  | [] => match st with U8Start => [] | U8Cont _ _ _ _ => [cd_decode_replacement] end
  | b :: r => let (out, st') := u8_step st b in out ++ u8_run st' r
  end.
Definition utf8_decode_replace (bs : list N) : str := u8_run U8Start bs.

(* ------------------------------------------------------------------ *)
(* 3. UTF-16 / UTF-32, decoding only (the encodings a byte-order mark announces; no mark handling here:     *)
(*    strip_byte_order_mark removed it and names the -le / -be codec)                                        *)
(* ------------------------------------------------------------------ *)
(* 16-bit units and whether a single byte is left over *)
Fixpoint units16 (le : bool) (bs : list N) : list N * bool :=
  match bs with
  | [] => ([], false)
  | [_] => ([], true)
  | b0 :: b1 :: r =>
      let (u, t) := units16 le r in
      ((if le then b0 + 256 * b1 else 256 * b0 + b1) :: u, t)
  end.

Definition is_high (u : N) : bool := (55296 <=? u) && (u <=? 56319).
Definition is_low (u : N) : bool := (56320 <=? u) && (u <=? 57343).

(* rep = errors="replace". [pend]: a high surrogate waiting for its low one. A lone surrogate is one error
   (two bytes); a high surrogate with fewer than two bytes after it, or a trailing single byte, is one error
   covering the rest of the data. *)
Fixpoint u16_go (rep : bool) (pend : option N) (us : list N) (trail : bool) : option str :=
  match us with
  | [] =>
      match pend, trail with
      | None, false => Some []
      | _, _ => if rep then Some [cd_decode_replacement] else None
      end
  | u :: r =>
      let fresh :=
        if is_high u then u16_go rep (Some u) r trail
        else if is_low u then
          (if rep then option_map (cons cd_decode_replacement) (u16_go rep None r trail) else None)
        else option_map (cons u) (u16_go rep None r trail) in
      match pend with
      | None => fresh
      | Some h =>
          if is_low u then option_map (cons (65536 + (h - 55296) * 1024 + (u - 56320))) (u16_go rep None r trail)
          else if rep then option_map (cons cd_decode_replacement) fresh else None
      end
  end.
Definition utf16_decode (le rep : bool) (bs : list N) : option str :=
  let (us, t) := units16 le bs in u16_go rep None us t.

Fixpoint units32 (le : bool) (bs : list N) : list N * bool :=
  match bs with
  | [] => ([], false)
  | b0 :: b1 :: b2 :: b3 :: r =>
      let (u, t) := units32 le r in
      ((if le then b0 + 256 * b1 + 65536 * b2 + 16777216 * b3
        else 16777216 * b0 + 65536 * b1 + 256 * b2 + b3) :: u, t)
  | _ => ([], true)
  end.
Fixpoint u32_go (rep : bool) (us : list N) (trail : bool) : option str :=
  match us with
  | [] => if trail then (if rep then Some [cd_decode_replacement] else None) else Some []
  | u :: r =>
      if scalar u then option_map (cons u) (u32_go rep r trail)
      else if rep then option_map (cons cd_decode_replacement) (u32_go rep r trail) else None
  end.
Definition utf32_decode (le rep : bool) (bs : list N) : option str :=
  let (us, t) := units32 le bs in u32_go rep us t.

(* ------------------------------------------------------------------ *)
(* 4. one interface                                                    *)
(* ------------------------------------------------------------------ *)
Definition sb_table (k : codec) : option (list (option N)) :=
  match k with
  | Ascii => Some cd_ascii_table
  | Latin1 => Some cd_latin1_table
  | Cp1252 => Some cd_cp1252_table
  | _ => None
  end.

(* bytes.decode(codec, errors); None = UnicodeDecodeError (never with Replace) *)
Definition codec_decode (k : codec) (m : dmode) (bs : list N) : option str :=
  match k, m with
  | Ascii, Dammit.Strict => sb_decode cd_ascii_table bs
  | Ascii, Dammit.Replace => Some (sb_decode_replace cd_ascii_table bs)
  | Latin1, Dammit.Strict => sb_decode cd_latin1_table bs
  | Latin1, Dammit.Replace => Some (sb_decode_replace cd_latin1_table bs)
  | Cp1252, Dammit.Strict => sb_decode cd_cp1252_table bs
  | Cp1252, Dammit.Replace => Some (sb_decode_replace cd_cp1252_table bs)
  | Utf8, Dammit.Strict => utf8_decode bs
  | Utf8, Dammit.Replace => Some (utf8_decode_replace bs)
  | Utf16LE, Dammit.Strict => utf16_decode true false bs
  | Utf16LE, Dammit.Replace => utf16_decode true true bs
  | Utf16BE, Dammit.Strict => utf16_decode false false bs
  | Utf16BE, Dammit.Replace => utf16_decode false true bs
  | Utf32LE, Dammit.Strict => utf32_decode true false bs
  | Utf32LE, Dammit.Replace => utf32_decode true true bs
  | Utf32BE, Dammit.Strict => utf32_decode false false bs
  | Utf32BE, Dammit.Replace => utf32_decode false true bs
  end.

(* strict encoding of one code point; None = cannot be represented (also: not modelled for UTF-16/32) *)
Definition codec_enc_char (k : codec) (c : N) : option (list N) :=
  match k with
  | Ascii => sb_enc_char cd_ascii_table c
  | Latin1 => sb_enc_char cd_latin1_table c
  | Cp1252 => sb_enc_char cd_cp1252_table c
  | Utf8 => utf8_enc_char c
  | _ => None
  end.

Inductive epolicy := EStrict | EXmlCharRef | EReplace.

(* str.encode(codec, errors). Strict and xmlcharrefreplace are Model.Encode's str_encode with the concrete
   [enc_char]; "replace" writes '?' (through the codec) for every character that cannot be represented. *)
Definition codec_encode (k : codec) (p : epolicy) (s : str) : option (list N) :=
  match p with
  | EStrict => str_encode (codec_enc_char k) [] Encode.Strict s
  | EXmlCharRef => str_encode (codec_enc_char k) [] XmlCharRef s
  | EReplace =>
      enc_strict (codec_enc_char k)
        (flat_map (fun c => if encodable (codec_enc_char k) c then [c] else cd_encode_replacement) s)
  end.

(* ------------------------------------------------------------------ *)
(* 5. codec names                                                      *)
(* ------------------------------------------------------------------ *)
(* codecs.lookup is case-insensitive on these names (checked by the translator) *)
Definition codec_of_name (n : str) : option codec :=
  match assocS (lower_ascii n) cd_codec_names with
  | Some (Some i) => codec_of_id i
  | _ => None
  end.

(* UnicodeDammit._codec's codecs.lookup(name) *)
Definition c_known (n : str) : bool :=
  match codec_of_name n with Some _ => true | None => false end.

(* UnicodeDammit._to_unicode = str(data, encoding, errors): an empty bytestring is decoded without looking the
   codec up; an unknown codec is LookupError (caught by _convert_from like any other exception) *)
Definition c_decode (bytes name : str) (m : dmode) : option str :=
  match bytes with
  | [] => Some []
  | _ =>
      match codec_of_name name with
      | Some k => codec_decode k m bytes
      | None => None
      end
  end.

(* ------------------------------------------------------------------ *)
(* 6. UnicodeDammit and Tag.encode with nothing left as a parameter    *)
(*    (names are ASCII-cased: str.lower = lower_ascii on them; chardet absent) *)
(* ------------------------------------------------------------------ *)
Definition no_chardet (_ : markup) : option str := None.

Definition c_dammit (m : markup) (a : dargs) : dammit_result :=
  dammit lower_ascii c_known c_decode (sniff_model lower_ascii) no_chardet m a.
Definition c_encodings (m : markup) (a : dargs) : list str :=
  encodings lower_ascii (sniff_model lower_ascii) no_chardet m a.
Definition c_prepare_markup (m : markup) (from_encoding : option str) (exclude : list str) : prepared :=
  prepare_markup lower_ascii c_known c_decode (sniff_model lower_ascii) no_chardet m from_encoding exclude.

Definition policy_of_epolicy (p : epolicy) : policy :=
  match p with EStrict => Encode.Strict | EXmlCharRef => XmlCharRef | EReplace => OtherPolicy end.

(* Tag.encode(encoding=name, indent_level, formatter, errors) / prettify(encoding) / encode_contents:
   the outer None = the name is not one of the modelled codecs *)
Definition c_tag_encode (entry : N) (name : str) (indent : option nat) (f : fmt) (p : policy) (t : node)
  : option (option (list N)) :=
  match codec_of_name name with
  | None => None
  | Some k =>
      Some (match entry with
            | 0 => tag_encode (codec_enc_char k) [] name indent f p t
            | 1 => tag_prettify_enc (codec_enc_char k) [] name f t
            | _ => tag_encode_contents (codec_enc_char k) [] name indent f t
            end)
  end.

(* the codecs for which an encoder is modelled *)
Definition encoder (k : codec) : bool :=
  match k with Ascii | Latin1 | Cp1252 | Utf8 => true | _ => false end.

(* ------------------------------------------------------------------ *)
(* 7. UTF-16 / UTF-32 encoders (strict), and the two codecs that write a byte-order mark: "utf-16" / "utf-32" =   *)
(*    the mark (Gen/T_Codecs.v, read from the interpreter) followed by the little-endian form                    *)
(* ------------------------------------------------------------------ *)
Definition bytes16 (le : bool) (u : N) : list N :=
  if le then [u mod 256; u / 256] else [u / 256; u mod 256].
Definition utf16_enc_char (le : bool) (c : N) : option (list N) :=
  if scalar c then
    if c <? 65536 then Some (bytes16 le c)
    else Some (bytes16 le (55296 + (c - 65536) / 1024) ++ bytes16 le (56320 + (c - 65536) mod 1024))
  else None.
Definition bytes32 (le : bool) (c : N) : list N :=
  if le then [c mod 256; (c / 256) mod 256; (c / 65536) mod 256; c / 16777216]
  else [c / 16777216; (c / 65536) mod 256; (c / 256) mod 256; c mod 256].
Definition utf32_enc_char (le : bool) (c : N) : option (list N) :=
  if scalar c then Some (bytes32 le c) else None.

Inductive wide := W16 | W32.
Definition wide_enc_char (w : wide) : N -> option (list N) :=
  match w with W16 => utf16_enc_char true | W32 => utf32_enc_char true end.
Definition wide_bom (w : wide) : list N := match w with W16 => cd_utf16_bom | W32 => cd_utf32_bom end.
(* str.encode("utf-16" / "utf-32", "xmlcharrefreplace") *)
Definition wide_encode (w : wide) (s : str) : option (list N) :=
  str_encode (wide_enc_char w) (wide_bom w) XmlCharRef s.
(* the decoder and the name strip_byte_order_mark announces for that mark *)
Definition wide_codec (w : wide) : codec := match w with W16 => Utf16LE | W32 => Utf32LE end.
