(* C03 — the tree-construction state machine of bs4/__init__.py (reset 664-678, popTag 807-829,
   pushTag 831-846, endData 848-889, object_was_parsed 891-930, _linkage_fixer 932-977,
   _popToTag 979-1013, handle_starttag/endtag/data 1015-1100, _feed 650-662), statement by
   statement, over the heap of Model/Heap.v. *)
From Coq Require Import List NArith ZArith Bool Arith.
From BS Require Import Base.Sexp Base.Types Model.Heap Model.Edit.
Import ListNotations.

(* what a node carries besides its links *)
Record payload := mkpl {
  p_name : str;                 (* tag name, or the text of a string *)
  p_prefix : option str;
  p_attrs : list (str * str);
  p_cls : N;                    (* string class id (Gen/Tables.v numbering); 0 for tags *)
  p_void : bool                 (* can_be_empty_element *)
}.
Definition pmap := nat -> payload.
Definition pupd (m : pmap) (x : nat) (p : payload) : pmap := fun y => if Nat.eqb y x then p else m y.
Definition no_payload : payload := mkpl [] None [] 0%N false.

(* builder configuration *)
Record bconfig := mkcfg {
  c_void : option (list str);          (* empty_element_tags; None = every tag may be empty *)
  c_pw : list str;                     (* preserve_whitespace_tags *)
  c_containers : list (str * N);       (* string_containers: tag name -> string class *)
  c_spaces : list N;                   (* ASCII_SPACES *)
  c_root : str                         (* ROOT_TAG_NAME *)
}.

Inductive event :=
| EStart (name : str) (prefix : option str) (attrs : list (str * str))
| EEnd (name : str) (prefix : option str)
| EData (s : str)
| EEndData (cls : option N).          (* endData(containerClass) *)

Record bstate := mkb {
  b_st : st;
  b_pay : pmap;
  b_stack : list nat;                  (* tagStack, top first *)
  b_counter : list (str * Z);          (* open_tag_counter *)
  b_pws : list nat;                    (* preserve_whitespace_tag_stack, top first *)
  b_scs : list nat;                    (* string_container_stack, top first *)
  b_data : list str;                   (* current_data, most recent chunk first *)
  b_mre : option nat;                  (* _most_recent_element *)
  b_cur : option nat                   (* currentTag *)
}.

Definition cget (k : str) (c : list (str * Z)) : option Z := assocS k c.
Fixpoint cadd (k : str) (d : Z) (c : list (str * Z)) : list (str * Z) :=
  match c with
  | [] => [(k, d)]                                   (* Counter: missing key counts as 0 *)
  | (k', v) :: c' => if str_eqb k k' then (k', (v + d)%Z) :: c' else (k', v) :: cadd k d c'
  end.

Definition can_be_empty (cfg : bconfig) (name : str) : bool :=
  match c_void cfg with None => true | Some l => memS name l end.

(* PageElement.setup(parent, previous_element) with the other three arguments None *)
Definition setup (h : heap) (x : nat) (parent previous : option nat) : heap :=
  let h := set_par h x parent in
  let h := set_pe h x previous in
  let h := match previous with Some q => set_ne h q (Some x) | None => h end in
  let h := set_ne h x None in
  let h := set_ns h x None in
  let previous_sibling :=
    match parent with
    | Some p => last_opt (kids (h p))
    | None => None
    end in
  let h := set_ps h x previous_sibling in
  match previous_sibling with Some q => set_ns h q (Some x) | None => h end.

Definition name_of (b : bstate) (x : nat) : str := p_name (b_pay b x).

(* pushTag *)
Definition push_tag (cfg : bconfig) (b : bstate) (tag : nat) : bstate :=
  let s := b_st b in
  let h := match b_cur b with
           | Some c => set_kids (hp s) c (kids (hp s c) ++ [tag])
           | None => hp s
           end in
  let name := name_of b tag in
  mkb (with_heap s h) (b_pay b) (tag :: b_stack b)
      (if Nat.eqb tag 0 then b_counter b else cadd name 1%Z (b_counter b))   (* `if tag is not self`: the root object is element 0 *)
      (if memS name (c_pw cfg) then tag :: b_pws b else b_pws b)
      (match assocS name (c_containers cfg) with Some _ => tag :: b_scs b | None => b_scs b end)
      (b_data b) (b_mre b) (Some tag).

(* popTag *)
Definition pop_tag (b : bstate) : bstate :=
  match b_stack b with
  | [] => b
  | tag :: rest =>
      let name := name_of b tag in
      let counter := match cget name (b_counter b) with
                     | Some _ => cadd name (-1)%Z (b_counter b)
                     | None => b_counter b
                     end in
      let pws := match b_pws b with t :: r => if Nat.eqb tag t then r else b_pws b | [] => [] end in
      let scs := match b_scs b with t :: r => if Nat.eqb tag t then r else b_scs b | [] => [] end in
      mkb (b_st b) (b_pay b) rest counter pws scs (b_data b) (b_mre b)
          (match rest with t :: _ => Some t | [] => b_cur b end)
  end.

(* reset(): the root object, pushed *)
Definition reset (cfg : bconfig) : bstate :=
  let '(s, root) := alloc (mkst (fun _ => blank KTag []) 0) KSoup (c_root cfg) in
  let pay := pupd (fun _ => no_payload) root (mkpl (c_root cfg) None [] 0%N false) in
  push_tag cfg (mkb s pay [] [] [] [] [] None None) root.

(* string_container(base_class) *)
Definition string_container (cfg : bconfig) (b : bstate) (base : option N) : N :=
  let container := match base with Some c => c | None => 0%N end in
  match b_scs b with
  | t :: _ =>
      if N.eqb container 0
      then match assocS (name_of b t) (c_containers cfg) with Some c => c | None => container end
      else container
  | [] => container
  end.

(* string classes that are PreformattedString subclasses *)
Definition preformatted_cls (c : N) : bool :=
  match c with 1 | 2 | 3 | 4 | 5 | 6 => true | _ => false end%N.

(* _linkage_fixer(el) *)
Fixpoint fixer_walk (fuel : nat) (h : heap) (target : option nat) (descendant child : nat) : heap :=
  match fuel, target with
  | S f, Some t =>
      match ns (h t) with
      | Some s => let h := set_ne h descendant (Some s) in set_pe h s (Some child)
      | None => fixer_walk f h (par (h t)) descendant child
      end
  | _, _ => h
  end.
Definition linkage_fixer (fuel : nat) (h : heap) (el : nat) : heap :=
  match kids (h el), last_opt (kids (h el)) with
  | first :: _, Some child =>
      let h :=
        if Nat.eqb child first && (match par (h el) with Some _ => true | None => false end) then
          let h := set_ne h el (Some child) in
          let h := match pe (h child) with
                   | Some q => if negb (Nat.eqb q el) then set_ne h q None else h
                   | None => h
                   end in
          let h := set_pe h child (Some el) in
          set_ps h child None
        else h in
      let h := set_ns h child None in
      let descendant :=
        if is_tag h child && (match kids (h child) with [] => false | _ => true end)
        then match last_descendant fuel h child false true with Some d => d | None => child end
        else child in
      let h := set_ne h descendant None in
      let h := set_ns h descendant None in
      fixer_walk fuel h (Some el) descendant child
  | _, _ => h
  end.

(* object_was_parsed(o) for a string o *)
Definition object_was_parsed (b : bstate) (o : nat) : bstate :=
  match b_cur b with
  | None => b
  | Some parent =>
      let s := b_st b in
      let h := hp s in
      let fix_ := match ne (h parent) with Some _ => true | None => false end in
      let h := setup h o (Some parent) (b_mre b) in
      let h := set_kids h parent (kids (h parent) ++ [o]) in
      let h := if fix_ then linkage_fixer (fuel_of s) h parent else h in
      mkb (with_heap s h) (b_pay b) (b_stack b) (b_counter b) (b_pws b) (b_scs b) (b_data b)
          (Some o) (b_cur b)
  end.

Definition all_in (l : list N) (s : str) : bool := forallb (fun c => memN c l) s.

(* endData(containerClass) *)
Definition end_data (cfg : bconfig) (b : bstate) (container : option N) : bstate :=
  match b_data b with
  | [] => b
  | chunks =>
      let current := concat (rev chunks) in
      (* only text is collapsed: the content of a comment, CDATA section, doctype, declaration or
         processing instruction (a PreformattedString class asked for by the builder) is kept *)
      let special := match container with Some c => preformatted_cls c | None => false end in
      let current :=
        if special then current else
        match b_pws b with
        | [] => if all_in (c_spaces cfg) current
                then (if memN 10%N current then [10%N] else [32%N])
                else current
        | _ => current
        end in
      let cls := string_container cfg b container in
      let '(s, o) := alloc (b_st b) (KStr (preformatted_cls cls)) current in
      let pay := pupd (b_pay b) o (mkpl current None [] cls false) in
      object_was_parsed
        (mkb s pay (b_stack b) (b_counter b) (b_pws b) (b_scs b) [] (b_mre b) (b_cur b)) o
  end.

(* handle_starttag *)
Definition handle_starttag (cfg : bconfig) (b : bstate) (name : str) (prefix : option str)
           (attrs : list (str * str)) : bstate :=
  let b := end_data cfg b None in
  let '(s, tag) := alloc (b_st b) KTag name in
  let pay := pupd (b_pay b) tag (mkpl name prefix attrs 0%N (can_be_empty cfg name)) in
  let h := setup (hp s) tag (b_cur b) (b_mre b) in
  let h := match b_mre b with Some q => set_ne h q (Some tag) | None => h end in
  push_tag cfg (mkb (with_heap s h) pay (b_stack b) (b_counter b) (b_pws b) (b_scs b) (b_data b)
                    (Some tag) (b_cur b)) tag.

(* _popToTag(name, nsprefix): the for-loop over range(len-1, 0, -1) *)
Definition opt_str_eqb (a b : option str) : bool :=
  match a, b with
  | None, None => true
  | Some x, Some y => str_eqb x y
  | _, _ => false
  end.
Fixpoint pop_loop (n : nat) (b : bstate) (name : str) (prefix : option str) : bstate :=
  match n with
  | O => b
  | S n' =>
      match cget name (b_counter b) with
      | None => b
      | Some z => if Z.eqb z 0 then b else
          match b_stack b with
          | [] => b
          | t :: _ =>
              if str_eqb name (name_of b t) && opt_str_eqb prefix (p_prefix (b_pay b t))
              then pop_tag b
              else pop_loop n' (pop_tag b) name prefix
          end
      end
  end.
(* any(... for t in reversed(self.tagStack[1:])): the root object at the bottom is not looked at *)
Definition is_open (b : bstate) (name : str) (prefix : option str) : bool :=
  existsb (fun t => str_eqb name (name_of b t) && opt_str_eqb prefix (p_prefix (b_pay b t)))
          (removelast (b_stack b)).
Definition counter_positive (b : bstate) (name : str) : bool :=
  match cget name (b_counter b) with Some z => negb (Z.eqb z 0) | None => false end.
Definition pop_to_tag (cfg : bconfig) (b : bstate) (name : str) (prefix : option str) : bstate :=
  if counter_positive b name && negb (is_open b name prefix) then b
  else pop_loop (pred (length (b_stack b))) b name prefix.

Definition handle_endtag (cfg : bconfig) (b : bstate) (name : str) (prefix : option str) : bstate :=
  pop_to_tag cfg (end_data cfg b None) name prefix.

Definition handle_data (b : bstate) (s : str) : bstate :=
  mkb (b_st b) (b_pay b) (b_stack b) (b_counter b) (b_pws b) (b_scs b) (s :: b_data b)
      (b_mre b) (b_cur b).

Definition step_event (cfg : bconfig) (b : bstate) (e : event) : bstate :=
  match e with
  | EStart n p a => handle_starttag cfg b n p a
  | EEnd n p => handle_endtag cfg b n p
  | EData s => handle_data b s
  | EEndData c => end_data cfg b c
  end.

(* _feed: the events, then endData(), then pop everything but the root *)
Fixpoint pop_all (n : nat) (cfg : bconfig) (b : bstate) : bstate :=
  match n with
  | O => b
  | S n' =>
      match b_cur b with
      | Some c => if Nat.eqb c 0 then b else pop_all n' cfg (pop_tag b)   (* while currentTag is not self *)
      | None => b
      end
  end.

Definition feed (cfg : bconfig) (evs : list event) : bstate :=
  let b := fold_left (step_event cfg) evs (reset cfg) in
  let b := end_data cfg b None in
  pop_all (length (b_stack b)) cfg b.
