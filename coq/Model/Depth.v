(* C11 — call-structure semantics of the tree code.

   For every operation the property lists, a function giving the maximum number of
   simultaneously active frames of *repository tree-code functions* — the functions, properties,
   generators and generator expressions defined in bs4/element.py, bs4/__init__.py and
   bs4/filter.py — while the operation runs on a given tree.  Each repository function is one
   Gallina definition [d_<name>]: [fr callees] = one frame for the function itself on top of the
   deepest thing it calls (a generator counts while it is being resumed; calls into the standard
   library, bs4/formatter.py, bs4/dammit.py and bs4/builder/ are not frames of this measure, but
   the calls they make back into the three files are: the module-level __getattr__ reached by
   `from .element import NavigableString` in Formatter.substitute, the attribute-dictionary
   __setitem__ reached from the parser adapter, ...).  The definitions follow the code *after*
   the C11 repairs (identity comparison in _event_stream; loops in Tag.string, smooth, _is_xml;
   __getstate__ dropping next_element); and the other properties' repairs merged into the library: searches, copy_self,
   decompose, the parser adapter); the pre-repair recursion sites are kept at the end of the
   file ([legacy_*]) so that their unboundedness is a theorem too.  No proofs in this file. *)
From Coq Require Import List NArith ZArith Arith Bool.
From BS Require Import Base.Sexp Base.Types.
Import ListNotations.
Local Open Scope nat_scope.

(* one frame on top of the deepest callee *)
Definition fr (callees : list nat) : nat := S (list_max callees).
Definition leaf : nat := fr [].

(* ------------------------------------------------------------------------------------------ *)
(* what a call depth can depend on *)

Inductive aval :=
| AvStr (s : str)                       (* plain string value *)
| AvList (l : list str)                 (* multi-valued attribute (AttributeValueList) *)
| AvCharset (s : str)                   (* CharsetMetaAttributeValue *)
| AvContent (s : str)                   (* ContentMetaAttributeValue *)
| AvNone.                               (* value None *)

Inductive elem :=
| EStr (cls : N) (text : str)           (* string class id as in Gen/Tables.v (0 = NavigableString) *)
| ETag (name : str) (prefix : option str) (attrs : list (str * aval))
       (known_xml : option bool) (void hidden soup : bool) (kids : list elem).
(* void = can_be_empty_element is True; soup = the object is a BeautifulSoup *)

Definition is_tag (e : elem) : bool := match e with ETag _ _ _ _ _ _ _ _ => true | _ => false end.
Definition kids_of (e : elem) : list elem := match e with ETag _ _ _ _ _ _ _ ks => ks | _ => [] end.
Definition name_of (e : elem) : str := match e with ETag n _ _ _ _ _ _ _ => n | _ => [] end.
Definition prefix_of (e : elem) : option str := match e with ETag _ p _ _ _ _ _ _ => p | _ => None end.
Definition attrs_of (e : elem) : list (str * aval) := match e with ETag _ _ a _ _ _ _ _ => a | _ => [] end.
Definition kx_of (e : elem) : option bool := match e with ETag _ _ _ k _ _ _ _ => k | _ => None end.
Definition void_of (e : elem) : bool := match e with ETag _ _ _ _ v _ _ _ => v | _ => false end.
Definition hidden_of (e : elem) : bool := match e with ETag _ _ _ _ _ h _ _ => h | _ => false end.
Definition soup_of (e : elem) : bool := match e with ETag _ _ _ _ _ _ s _ => s | _ => false end.
Definition text_of (e : elem) : str := match e with EStr _ t => t | _ => [] end.
Definition cls_of (e : elem) : N := match e with EStr c _ => c | _ => 0%N end.
Definition has_kids (e : elem) : bool := match kids_of e with [] => false | _ => true end.

(* descendants in document order, each with its chain of ancestors (nearest first) *)
Fixpoint flat_ctx (ctx : list elem) (e : elem) {struct e} : list (elem * list elem) :=
  match e with
  | EStr _ _ => []
  | ETag _ _ _ _ _ _ _ ks => flat_map (fun k => (k, e :: ctx) :: flat_ctx (e :: ctx) k) ks
  end.
Definition flat (e : elem) : list elem := map fst (flat_ctx [] e).

(* the element at a path of child indexes, with its ancestors (nearest first) *)
Fixpoint locate (ctx : list elem) (e : elem) (path : list nat) : elem * list elem :=
  match path with
  | [] => (e, ctx)
  | i :: p =>
      match nth_error (kids_of e) i with
      | Some k => locate (e :: ctx) k p
      | None => (e, ctx)
      end
  end.

(* ------------------------------------------------------------------------------------------ *)
(* iterators (element.py 1151-1228, 2761-2789): a generator is a frame while it is resumed *)

Definition d_last_descendant : nat := leaf.                  (* a loop over .contents[-1] *)
Definition d_descendants (e : elem) : nat :=                 (* `if not len(self.contents): return` *)
  if has_kids e then fr [d_last_descendant] else leaf.
Definition d_self_and (gen : nat) : nat := fr [gen].         (* _self_and(other_generator) *)
Definition d_link_generator : nat := leaf.                   (* next_elements, previous_elements, next_siblings,
                                                                previous_siblings, parents: plain pointer loops *)
Inductive iter_kind := ItDescendants | ItSelfAndDescendants | ItChildren | ItLinks | ItSelfAndLinks.
(* list(x.<iterator>): the property frame first (when there is one), then the generator *)
Definition d_iter (k : iter_kind) (e : elem) : nat :=
  match k with
  | ItDescendants => d_descendants e
  | ItSelfAndDescendants => Nat.max leaf (d_self_and (d_descendants e))
  | ItChildren => Nat.max leaf leaf                           (* property returning a <genexpr> *)
  | ItLinks => d_link_generator
  | ItSelfAndLinks => Nat.max leaf (d_self_and d_link_generator)
  end.

(* ------------------------------------------------------------------------------------------ *)
(* searching: SoupStrainer / MatchRule (filter.py) and _find_all (element.py 1083-1147) *)

Inductive rule :=
| RStr (s : str)            (* exact string *)
| RBool (b : bool)          (* True / False: present / absent *)
| RFun (result : bool)      (* a user function; the harness uses constant functions *)
| RRe (needle : str).       (* a compiled pattern; the harness uses literal patterns (search = infix) *)
Inductive spec :=
| SNone
| SOne (r : rule)
| SList (l : list str).     (* a list of strings *)
Record crit := mkcrit {
  c_name : spec;
  c_attrs : list (str * spec);
  c_string : spec;
  c_limit : option nat;
  c_recursive : bool
}.

Definition rules_of (s : spec) : list rule :=
  match s with SNone => [] | SOne r => [r] | SList l => map RStr l end.

Fixpoint prefix_b (a b : str) : bool :=
  match a, b with
  | [], _ => true
  | x :: a', y :: b' => N.eqb x y && prefix_b a' b'
  | _, [] => false
  end.
Fixpoint infix_b (a b : str) : bool :=
  prefix_b a b || match b with [] => false | _ :: b' => infix_b a b' end.

(* MatchRule._base_match / matches_string on an optional string; a user function is called when
   the cheap tests give no answer *)
Definition rule_matches (r : rule) (s : option str) : bool :=
  match r, s with
  | RBool true, Some _ => true
  | RBool true, None => false
  | RBool false, Some _ => false
  | RBool false, None => true
  | RStr x, Some y => str_eqb x y
  | RStr _, None => false
  | RRe x, Some y => infix_b x y
  | RRe _, None => false
  | RFun b, _ => b
  end.
Definition d_base_match : nat := leaf.
Definition d_rule_matches_string : nat := fr [d_base_match].          (* MatchRule.matches_string *)
Definition d_rule_matches_tag : nat := fr [d_base_match].             (* TagNameMatchRule.matches_tag *)

(* _make_match_rules(obj, cls) as consumed by list(...) / a for loop: the generator frame, a nested
   generator per list item, MatchRule.__init__ *)
Definition d_make_rules (s : spec) : nat :=
  match s with
  | SNone => leaf
  | SOne _ => fr [leaf]
  | SList l => fr (map (fun _ => fr [leaf]) l)
  end.
Definition d_strainer_init (c : crit) : nat :=
  fr (d_make_rules (c_name c) :: map (fun kv => d_make_rules (snd kv)) (c_attrs c) ++ [d_make_rules (c_string c)]).

Definition colon : N := 58%N.
Definition prefixed_name (e : elem) : option str :=
  match prefix_of e with
  | Some p => match p with [] => None | _ => Some (p ++ colon :: name_of e) end
  | None => None
  end.

(* Tag.string (element.py, after the repair: a loop down the chain of only children) *)
Fixpoint tag_string (e : elem) : option str :=
  match e with
  | EStr _ t => Some t
  | ETag _ _ _ _ _ _ _ [k] => tag_string k
  | _ => None
  end.
Definition d_tag_string : nat := leaf.

Fixpoint join_sp (l : list str) : str :=
  match l with
  | [] => []
  | [x] => x
  | x :: l' => x ++ 32%N :: join_sp l'
  end.
(* _attribute_match(attr_value, rules): returns (matched, depth) *)
Definition attr_value_of (e : elem) (k : str) : option aval := assocS k (attrs_of e).
Definition attr_strings (v : option aval) : list (option str) :=
  match v with
  | Some (AvList l) => map Some l
  | Some (AvStr s) | Some (AvCharset s) | Some (AvContent s) => [Some s]
  | Some AvNone | None => [None]
  end.
Definition helper_matches (rules : list rule) (vals : list (option str)) : bool :=
  existsb (fun r => existsb (fun v => rule_matches r v) vals) rules.
Definition attribute_match (rules : list rule) (v : option aval) : bool :=
  let vals := attr_strings v in
  helper_matches rules vals ||
  match v with
  | Some (AvList l) => negb (Nat.eqb (length l) 1) && helper_matches rules [Some (join_sp l)]   (* len != 1 *)
  | _ => false
  end.
(* _attribute_match -> _match_attribute_value_helper -> matches_string -> _base_match *)
Definition d_attribute_match (rules : list rule) (v : option aval) : nat :=
  (* an empty multi-valued attribute has no value to try first, but is then tried as the joined string "" *)
  let inner := match rules with [] => [] | _ => [d_rule_matches_string] end in
  fr [fr inner].

(* the loop over name rules in matches_tag: (calls so far, matched) *)
Fixpoint name_rules_loop (rs : list rule) (e : elem) : list nat * bool :=
  match rs with
  | [] => ([], false)
  | r :: rs' =>
      let m1 := rule_matches r (Some (name_of e)) in
      let '(calls, m) :=
        if m1 then ([d_rule_matches_tag], true)
        else match prefixed_name e with
             | Some pn => ([d_rule_matches_tag; d_base_match],
                           match r with RFun _ => false | _ => rule_matches r (Some pn) end)
             | None => ([d_rule_matches_tag], false)
             end in
      if m then (calls, true)
      else let '(calls', m') := name_rules_loop rs' e in (calls ++ calls', m')
  end.
(* the loop over attribute rules: (calls, all matched) *)
Fixpoint attr_rules_loop (ars : list (str * spec)) (e : elem) : list nat * bool :=
  match ars with
  | [] => ([], true)
  | (k, s) :: ars' =>
      let v := attr_value_of e k in
      let calls := [leaf; d_attribute_match (rules_of s) v] in      (* tag.get(attr) ; _attribute_match *)
      if attribute_match (rules_of s) v
      then let '(calls', ok) := attr_rules_loop ars' e in (calls ++ calls', ok)
      else (calls, false)
  end.
Definition no_prefix (e : elem) : bool :=
  match prefix_of e with None => true | Some [] => true | Some _ => false end.
(* SoupStrainer.matches_tag: (depth, result) *)
Definition matches_tag (c : crit) (e : elem) : nat * bool :=
  let nrs := rules_of (c_name c) in
  let srs := rules_of (c_string c) in
  match nrs, c_attrs c with
  | [], [] => (leaf, false)
  | _, _ =>
      let fast_reject :=
        no_prefix e &&
        match nrs with [RStr s] => negb (str_eqb (name_of e) s) | _ => false end in
      if fast_reject then (leaf, false) else
      let '(ncalls, nok) := match nrs with [] => ([], true) | _ => name_rules_loop nrs e end in
      if negb nok then (fr ncalls, false) else
      let '(acalls, aok) := attr_rules_loop (c_attrs c) e in
      if negb aok then (fr (ncalls ++ acalls), false) else
      match srs with
      | [] => (fr (ncalls ++ acalls), true)
      | _ =>
          match tag_string e with
          | None => (fr (ncalls ++ acalls ++ [d_tag_string]), false)
          | Some s =>
              (* matches_any_string_rule -> matches_string -> _base_match *)
              (fr (ncalls ++ acalls ++ [d_tag_string; fr [d_rule_matches_string]]),
               existsb (fun r => rule_matches r (Some s)) srs)
          end
      end
  end.
(* the loop over string rules in SoupStrainer.match for a string element *)
Fixpoint string_rules_loop (rs : list rule) (t : str) : list nat * bool :=
  match rs with
  | [] => ([], false)
  | r :: rs' =>
      if rule_matches r (Some t) then ([d_rule_matches_string], true)
      else let '(calls, m) := string_rules_loop rs' t in (d_rule_matches_string :: calls, m)
  end.
(* SoupStrainer.match: (depth, result) *)
Definition strainer_match (c : crit) (e : elem) : nat * bool :=
  match e with
  | ETag _ _ _ _ _ _ _ _ => let '(d, m) := matches_tag c e in (fr [d], m)
  | EStr _ t =>
      match rules_of (c_name c), c_attrs c with
      | [], [] => let '(calls, m) := string_rules_loop (rules_of (c_string c)) t in (fr calls, m)
      | _, _ => (leaf, false)
      end
  end.
(* ElementFilter.filter as consumed by ElementFilter.find_all, which stops at the limit:
   calls made while the generator is resumed *)
Fixpoint filter_calls (c : crit) (elems : list elem) (found : nat) : list nat :=
  match elems with
  | [] => []
  | e :: rest =>
      (* `if i is not None:` — every element is offered to match(); a limit of None or 0 is no limit *)
      let '(d, m) := strainer_match c e in
      if m then
        match c_limit c with
        | Some (S lim) => if S lim <=? S found then [d] else d :: filter_calls c rest (S found)
        | _ => d :: filter_calls c rest (S found)
        end
      else d :: filter_calls c rest found
  end.
(* ElementFilter.find_all: ResultSet.__init__, then the filter generator (which resumes the
   element generator) *)
Definition d_strainer_find_all (c : crit) (elems : list elem) (gen : nat) : nat :=
  fr [leaf; fr (gen :: filter_calls c elems 0)].
Definition limit_falsy (c : crit) : bool := match c_limit c with None | Some 0 => true | _ => false end.
(* PageElement._find_all(name, attrs, string, limit, generator) *)
Definition d_find_all_core (c : crit) (elems : list elem) (gen : nat) : nat :=
  let slow := fr [d_strainer_init c; d_strainer_find_all c elems gen] in
  match c_string c, c_attrs c with
  | SNone, [] =>
      match c_name c with
      | SNone | SOne (RBool true) =>
          fr [d_strainer_init c; gen; leaf]              (* no criteria: the loop in _find_all itself (any limit) ; ResultSet.__init__ *)
      | SOne (RStr _) =>
          if limit_falsy c then fr [d_strainer_init c; gen; leaf] else slow
      | _ => slow
      end
  | _, _ => slow
  end.
(* Tag.find_all / Tag.find / Tag.__getattr__ / Tag.__call__ *)
Definition d_find_all (c : crit) (e : elem) : nat :=
  if c_recursive c
  then fr [d_find_all_core c (flat e) (d_descendants e)]
  else fr [leaf; d_find_all_core c (kids_of e) leaf].        (* .children property ; its <genexpr> *)
Definition with_limit1 (c : crit) : crit :=
  mkcrit (c_name c) (c_attrs c) (c_string c) (Some 1) (c_recursive c).
Definition d_find (c : crit) (e : elem) : nat := fr [d_find_all (with_limit1 c) e].
Definition name_crit (n : str) : crit := mkcrit (SOne (RStr n)) [] SNone None true.
Definition d_tag_getattr (n : str) (e : elem) : nat := fr [d_find (name_crit n) e].
Definition d_tag_call (c : crit) (e : elem) : nat := fr [d_find_all c e].

(* the other axes: find_all_next / find_parents / ... = one frame around _find_all over a link
   generator; find_next / ... go through _find_one, find_parent calls find_parents directly *)
Definition d_find_all_axis (c : crit) (elems : list elem) : nat := fr [d_find_all_core c elems d_link_generator].
Definition d_find_one_axis (c : crit) (elems : list elem) : nat := fr [fr [d_find_all_axis (with_limit1 c) elems]].
Definition d_find_parent (c : crit) (elems : list elem) : nat := fr [d_find_all_axis (with_limit1 c) elems].

(* ------------------------------------------------------------------------------------------ *)
(* _is_xml (element.py 467-492, after the repair: a loop up the parents).  At an unknown top-level
   Tag, getattr(element, "is_xml", False) lands in Tag.__getattr__, i.e. a find("is_xml"). *)
Definition is_xml_name : str := [105; 115; 95; 120; 109; 108]%N.
Fixpoint is_xml_walk (chain : list elem) : nat :=
  match chain with
  | [] => leaf
  | [top] =>
      match kx_of top with
      | Some _ => leaf
      | None => if is_tag top && negb (soup_of top) then fr [d_tag_getattr is_xml_name top] else leaf
      end
  | e :: rest => match kx_of e with Some _ => leaf | None => is_xml_walk rest end
  end.
Definition d_is_xml (e : elem) (ctx : list elem) : nat := is_xml_walk (e :: ctx).
Definition d_formatter_for_name (e : elem) (ctx : list elem) : nat := fr [d_is_xml e ctx].

(* ------------------------------------------------------------------------------------------ *)
(* rendering: _event_stream (2466-2508), decode (2344-2451), _format_tag (2538-2598) *)

Definition d_module_getattr : nat := leaf.     (* element.__getattr__('__path__') under `from .element import` *)
Definition d_is_empty_element : nat := leaf.

(* the elements the stream walks over *)
Definition stream_elems (e : elem) (own_iterator : bool) : list elem :=
  if own_iterator then (if hidden_of e then [] else [e]) ++ flat e else flat e.
(* _event_stream(iterator): with no iterator, the self_and_descendants property then _self_and over
   descendants; is_empty_element for every Tag; `c.parent is not tag_stack[-1]` is not a call *)
Definition d_event_stream (e : elem) (own_iterator : bool) : nat :=
  fr ((if own_iterator then [leaf; d_self_and (d_descendants e)] else [d_descendants e]) ++
      (if existsb is_tag (stream_elems e own_iterator) then [d_is_empty_element] else [])).

Inductive enc_kind := EncNone | EncNormal | EncPythonSpecific.
(* substitute_encoding of the <meta> stand-ins; ContentMeta's goes through the nested `rewrite`
   callback of CHARSET_RE.sub *)
Definition d_attr_value (subst : bool) (enc : enc_kind) (v : aval) : list nat :=
  match v with
  | AvNone => []
  | AvCharset _ => (match enc with EncNone => [] | _ => [leaf] end) ++ (if subst then [d_module_getattr] else [])
  | AvContent _ => (match enc with EncNone => [] | EncNormal => [fr [leaf]] | EncPythonSpecific => [leaf] end) ++
                   (if subst then [d_module_getattr] else [])
  | _ => if subst then [d_module_getattr] else []
  end.
Definition d_format_tag (e : elem) (opening subst : bool) (enc : enc_kind) : nat :=
  if hidden_of e then leaf
  else fr (d_is_empty_element ::
           (if opening then flat_map (fun kv => d_attr_value subst enc (snd kv)) (attrs_of e) else [])).
(* output_ready -> format_string -> [Formatter.substitute ->] module __getattr__ *)
Definition d_output_ready (subst : bool) : nat := fr [fr (if subst then [d_module_getattr] else [])].

(* what decode does for one element of the stream (both events of a Tag) *)
Definition decode_elem_calls (subst : bool) (enc : enc_kind) (indent : bool) (c : elem) : list nat :=
  (match c with
   | ETag _ _ _ _ void _ _ ks =>
       [d_format_tag c true subst enc; leaf (* _should_pretty_print, __bool__ *)] ++
       (match ks, void with [], true => [] | _, _ => [d_format_tag c false subst enc] end)
   | EStr _ _ => [d_output_ready subst]
   end) ++ (if indent then [leaf] else []).                      (* _indent_string *)

Inductive fmt :=
| FmtName (subst : bool)       (* formatter given by name: "minimal"/"html"/"html5" (substituting) or None *)
| FmtObject (subst : bool).    (* a Formatter instance *)
Definition fmt_subst (f : fmt) : bool := match f with FmtName b | FmtObject b => b end.

(* Tag.decode(indent_level, eventual_encoding, formatter, iterator) *)
Definition d_tag_decode (e : elem) (ctx : list elem) (indent : bool) (f : fmt) (own_iterator : bool)
           (enc : enc_kind) : nat :=
  fr ((match f with FmtName _ => [d_formatter_for_name e ctx] | FmtObject _ => [] end) ++
      [d_event_stream e own_iterator] ++
      flat_map (decode_elem_calls (fmt_subst f) enc indent) (stream_elems e own_iterator)).
(* BeautifulSoup.decode wraps Tag.decode *)
Definition d_decode (e : elem) (ctx : list elem) (indent : bool) (f : fmt) (enc : enc_kind) : nat :=
  if soup_of e then fr [d_tag_decode e ctx indent f true enc] else d_tag_decode e ctx indent f true enc.
Definition d_encode (e : elem) (ctx : list elem) (indent : bool) (f : fmt) : nat :=
  fr [d_decode e ctx indent f EncNormal].
Definition d_prettify (e : elem) (ctx : list elem) (to_bytes : bool) (f : fmt) : nat :=
  fr [if to_bytes then d_encode e ctx true f else d_decode e ctx true f EncNormal].
Definition d_decode_contents (e : elem) (ctx : list elem) (indent : bool) (f : fmt) : nat :=
  let inner := d_tag_decode e ctx indent f false EncNormal in
  fr [if soup_of e then fr [inner] else inner].
Definition d_encode_contents (e : elem) (ctx : list elem) (indent : bool) (f : fmt) : nat :=
  fr [d_decode_contents e ctx indent f].
Definition d_str (e : elem) (ctx : list elem) : nat :=          (* __repr__ = __str__ *)
  fr [d_decode e ctx false (FmtName true) EncNormal].

(* ------------------------------------------------------------------------------------------ *)
(* text extraction: _all_strings (1877-1916), get_text, stripped_strings, .string *)
Definition d_all_strings (e : elem) : nat := if is_tag e then fr [d_descendants e] else leaf.
Definition d_get_text (e : elem) : nat := fr [d_all_strings e].
Definition d_stripped_strings (e : elem) : nat := fr [d_all_strings e].
Definition d_string_property (e : elem) : nat := leaf.

(* ------------------------------------------------------------------------------------------ *)
(* copying: __copy__, __deepcopy__ (1762-1786), copy_self (1788-1814; bs4/__init__.py 492-503) *)
Definition d_setup : nat := leaf.
Definition d_setitem : nat := leaf.                              (* HTML/XMLAttributeDict.__setitem__ *)
Definition d_nav_new : nat := fr [d_setup].                      (* NavigableString.__new__ -> setup *)
(* Tag.__init__ without a builder and without attributes (copy_self copies them afterwards with
   dict.__setitem__, which is not a frame of the tree code): setup *)
Definition d_tag_init_nobuilder (e : elem) : nat := fr [d_setup].
(* BeautifulSoup("", None, builder): deprecated_argument; _markup_is_url / _markup_resembles_filename
   (each with a <genexpr>); reset -> Tag.__init__ -> setup, pushTag; _feed -> endData *)
Definition d_soup_init_empty : nat :=
  fr [leaf; fr [leaf]; fr [leaf]; fr [fr [d_setup]; leaf]; fr [leaf]].
Definition d_copy_self (e : elem) (ctx : list elem) : nat :=
  if soup_of e then fr [d_soup_init_empty] else fr [d_is_xml e ctx; d_tag_init_nobuilder e].
(* append of a parentless element: append -> insert -> (_insert -> _last_descendant ; index) *)
Definition d_append_fresh : nat := fr [fr [fr [d_last_descendant]; leaf]].
Definition deepcopy_elem_calls (c : elem * list elem) : list nat :=
  [ (if is_tag (fst c) then fr [d_copy_self (fst c) (snd c)]     (* element.__deepcopy__(memo, recursive=False) *)
     else fr [d_nav_new]);
    d_append_fresh ].
Definition d_deepcopy (e : elem) (ctx : list elem) : nat :=
  if is_tag e then
    fr ([d_copy_self e ctx;
         fr (d_descendants e :: (if existsb is_tag (flat e) then [d_is_empty_element] else []))] ++
        flat_map deepcopy_elem_calls (flat_ctx ctx e))
  else fr [d_nav_new].
Definition d_copy (e : elem) (ctx : list elem) : nat := fr [d_deepcopy e ctx].
(* pickling a document: __getstate__ renders the markup (bs4/__init__.py 505-525) *)
Definition d_getstate (e : elem) : nat := fr [d_decode e [] false (FmtName true) EncNormal].

(* ------------------------------------------------------------------------------------------ *)
(* the editing calls *)
Definition d_index : nat := leaf.
Definition d_extract : nat := fr [d_index; d_last_descendant].
(* decompose: extract, then the descendants generator collects what is to be wiped *)
Definition d_decompose (e : elem) : nat := fr (d_extract :: if is_tag e then [d_descendants e] else []).
Inductive ins_arg :=
| IStr                       (* a Python str that is not a NavigableString *)
| IFresh                     (* a PageElement without a parent *)
| IAttached (noop : bool)    (* a PageElement with a parent; noop = already at the requested position *)
| ISoup (children : list ins_arg).   (* a BeautifulSoup object: its children are inserted instead *)
(* Tag.insert(position, *new_children) / Tag._insert(position, new_child): mutually recursive in the
   code through the BeautifulSoup case *)
Fixpoint d_insert_one (a : ins_arg) : nat :=
  match a with
  | IStr => fr [d_nav_new; d_last_descendant]
  | IFresh => fr [d_last_descendant]
  | IAttached true => fr [d_index]
  | IAttached false => fr [d_index; d_extract; d_last_descendant]
  | ISoup l => fr [fr (map d_insert_one l ++ match l with [] => [] | _ => [d_index] end)]
  end.
Definition d_insert (l : list ins_arg) : nat := fr (map d_insert_one l ++ match l with [] => [] | _ => [d_index] end).
Definition d_append (a : ins_arg) : nat := fr [d_insert [a]].
Definition d_extend (l : list ins_arg) : nat := fr (map d_append l).
(* insert_before / insert_after: <genexpr> of any(x is self ...); per argument extract (PageElements),
   parent.index, parent.insert *)
Definition d_insert_beside (l : list ins_arg) : nat :=
  fr (leaf :: flat_map (fun a => match a with
                                 | IStr => [d_index; d_insert [IStr]]
                                 | ISoup c => [d_extract; d_index; d_insert [ISoup c]]
                                 | _ => [d_extract; d_index; d_insert [IFresh]]
                                 end) l).
(* replace_with: <genexpr>, parent.index, extract(_self_index), old_parent.insert *)
Definition d_replace_with (l : list ins_arg) : nat := fr [leaf; d_index; fr [d_last_descendant]; d_insert l].
Definition d_wrap : nat := fr [d_replace_with [IFresh]; d_append IFresh].
Definition d_unwrap (e : elem) : nat :=
  fr (d_index :: fr [d_last_descendant] :: map (fun _ => d_insert [IAttached false]) (kids_of e)).
Definition d_clear (e : elem) (decompose : bool) : nat :=
  fr (map (fun k => if decompose then d_decompose k else d_extract) (kids_of e)).
Definition d_set_string (e : elem) : nat := fr [d_clear e false; d_nav_new; d_append IFresh].
Definition preformatted (c : N) : bool := match c with 1 | 2 | 3 | 4 | 5 | 6 => true | _ => false end%N.
Definition mergeable (a b : elem) : bool :=
  match a, b with
  | EStr ca _, EStr cb _ => negb (preformatted ca) && negb (preformatted cb)
  | _, _ => false
  end.
Fixpoint marked_pairs (ks : list elem) : nat :=
  match ks with
  | a :: ((b :: _) as rest) => (if mergeable a b then 1 else 0) + marked_pairs rest
  | _ => 0
  end.
(* _smooth_contents: per marked pair b.extract(), NavigableString(a + b), a.replace_with(n) *)
Definition d_smooth_contents (e : elem) : nat :=
  fr (match marked_pairs (kids_of e) with 0 => [] | _ => [d_extract; d_nav_new; d_replace_with [IFresh]] end).
(* smooth (after the repair): the <genexpr> over descendants collecting the tags, then a loop *)
Definition d_smooth (e : elem) : nat :=
  fr (fr [d_descendants e] :: d_smooth_contents e :: map d_smooth_contents (filter is_tag (flat e))).
(* BeautifulSoup.new_string: string_container ; NavigableString.__new__ *)
Definition d_new_string : nat := fr [leaf; d_nav_new].

(* ------------------------------------------------------------------------------------------ *)
(* structural equality, Tag.__eq__ / __ne__ (2304-2328): still recursive in the code; it is not one
   of the listed operations, but popTag uses it.  For two distinct objects. *)
Definition aval_eqb (a b : aval) : bool :=
  match a, b with
  | AvStr x, AvStr y | AvCharset x, AvCharset y | AvContent x, AvContent y
  | AvStr x, AvCharset y | AvStr x, AvContent y | AvCharset x, AvStr y | AvContent x, AvStr y
  | AvCharset x, AvContent y | AvContent x, AvCharset y => str_eqb x y
  | AvList x, AvList y => (fix go (x y : list str) := match x, y with
                                                      | [], [] => true
                                                      | p :: x', q :: y' => str_eqb p q && go x' y'
                                                      | _, _ => false
                                                      end) x y
  | AvNone, AvNone => true
  | _, _ => false
  end.
Definition attrs_sub (a b : list (str * aval)) : bool :=
  forallb (fun kv => match assocS (fst kv) b with Some v => aval_eqb (snd kv) v | None => false end) a.
Definition attrs_eqb (a b : list (str * aval)) : bool :=
  Nat.eqb (length a) (length b) && attrs_sub a b && attrs_sub b a.
Fixpoint elem_eqb (a b : elem) {struct a} : bool :=
  match a, b with
  | EStr _ x, EStr _ y => str_eqb x y
  | ETag n _ at_ _ _ _ _ ks, ETag n' _ at' _ _ _ _ ks' =>
      str_eqb n n' && attrs_eqb at_ at' &&
      (fix go (l : list elem) (l' : list elem) : bool :=
         match l, l' with
         | [], [] => true
         | x :: r, y :: r' => elem_eqb x y && go r r'
         | _, _ => false
         end) ks ks'
  | _, _ => false
  end.
(* depth of a.__eq__(b) *)
Fixpoint d_eq (a b : elem) {struct a} : nat :=
  match a, b with
  | ETag n _ at_ _ _ _ _ ks, ETag n' _ at' _ _ _ _ ks' =>
      if negb (str_eqb n n' && attrs_eqb at_ at') then leaf
      else if negb (Nat.eqb (length ks) (length ks')) then fr [leaf]           (* __len__ *)
      else fr (leaf ::
               (fix go (l : list elem) (l' : list elem) : list nat :=
                  match l, l' with
                  | x :: r, y :: r' =>
                      (match x with
                       | ETag _ _ _ _ _ _ _ _ => [fr [d_eq x y]]                 (* Tag.__ne__ -> __eq__ *)
                       | EStr _ _ => if is_tag y then [fr [leaf]] else []       (* reflected __ne__ -> __eq__ *)
                       end) ++ (if elem_eqb x y then go r r' else [])
                  | _, _ => []
                  end) ks ks')
  | _, _ => leaf                                                                (* not isinstance(other, Tag) *)
  end.

(* ------------------------------------------------------------------------------------------ *)
(* parsing with html.parser: the callbacks BeautifulSoupHTMLParser receives are recorded inputs;
   the adapter (_htmlparser.py 127-327) and the construction machine (bs4/__init__.py 650-1078)
   are followed as far as they decide which tree-code functions run. *)
Inductive callback :=
| CbStart (name : str) (attrs : list (str * str)) (selfclosing : bool)   (* handle_starttag / handle_startendtag *)
| CbEnd (name : str)
| CbData                                  (* handle_data / handle_charref / handle_entityref *)
| CbSpecial.                              (* comment, declaration, CDATA, processing instruction *)

Record pconfig := mkpc {
  pc_void : list str;                     (* builder.empty_element_tags *)
  pc_pws : list str;                      (* builder.preserve_whitespace_tags *)
  pc_containers : list str;               (* keys of builder.string_containers *)
  pc_cdata_list : list (str * list str);  (* builder.cdata_list_attributes *)
  pc_root : str                           (* ROOT_TAG_NAME *)
}.
Record open_tag := mkot { ot_id : nat; ot_name : str }.
Record pstate := mkps {
  ps_stack : list open_tag;               (* tagStack above the root, top first *)
  ps_pws : list nat;                      (* preserve_whitespace_tag_stack (ids), top first *)
  ps_scs : list nat;                      (* string_container_stack (ids), top first *)
  ps_data : bool;                         (* current_data is non-empty *)
  ps_closed : list str;                   (* the adapter's already_closed_empty_element *)
  ps_next : nat                           (* next object id *)
}.
Definition ps0 : pstate := mkps [] [] [] false [] 1.

(* cost of `tag == stack[-1]`: one frame when the objects are identical or the names differ;
   [deep a b] frames more when two different objects have the same name (whatever the rest of
   Tag.__eq__ would then cost — the theorems show this case never arises) *)
Definition d_stack_eq (deep : nat -> nat -> nat) (tag : open_tag) (top_id : nat) (top_name : str) : nat :=
  if Nat.eqb (ot_id tag) top_id then leaf
  else if negb (str_eqb (ot_name tag) top_name) then leaf
  else fr [deep (ot_id tag) top_id].
Definition name_of_id (names : list open_tag) (i : nat) : str :=
  match find (fun t => Nat.eqb (ot_id t) i) names with Some t => ot_name t | None => [] end.

(* popTag: (state, calls made by popTag).  [eqres] is what a deep comparison would answer. *)
Definition pop_tag (deep : nat -> nat -> nat) (eqres : nat -> nat -> bool) (s : pstate) : pstate * list nat :=
  match ps_stack s with
  | [] => (s, [])
  | tag :: rest =>
      let eq_with (i : nat) : bool * nat :=
        let nm := name_of_id (ps_stack s) i in
        (if Nat.eqb (ot_id tag) i then true
         else if negb (str_eqb (ot_name tag) nm) then false else eqres (ot_id tag) i,
         d_stack_eq deep tag i nm) in
      let '(pws, c1) := match ps_pws s with
                        | i :: r => let '(b, d) := eq_with i in ((if b then r else ps_pws s), [d])
                        | [] => ([], [])
                        end in
      let '(scs, c2) := match ps_scs s with
                        | i :: r => let '(b, d) := eq_with i in ((if b then r else ps_scs s), [d])
                        | [] => ([], [])
                        end in
      (mkps rest pws scs (ps_data s) (ps_closed s) (ps_next s), c1 ++ c2)
  end.
Definition push_tag (cfg : pconfig) (s : pstate) (name : str) : pstate :=
  let i := ps_next s in
  mkps (mkot i name :: ps_stack s)
       (if memS name (pc_pws cfg) then i :: ps_pws s else ps_pws s)
       (if memS name (pc_containers cfg) then i :: ps_scs s else ps_scs s)
       (ps_data s) (ps_closed s) (S i).

(* endData: nothing when no data is pending, else string_container, NavigableString.__new__ -> setup,
   object_was_parsed -> (setup ; _linkage_fixer) *)
Definition d_end_data (pending : bool) : nat :=
  if pending then fr [leaf; d_nav_new; fr [d_setup; leaf]] else leaf.
Definition clear_data (s : pstate) : pstate :=
  mkps (ps_stack s) (ps_pws s) (ps_scs s) false (ps_closed s) (ps_next s).
Definition set_data (s : pstate) : pstate :=
  mkps (ps_stack s) (ps_pws s) (ps_scs s) true (ps_closed s) (ps_next s).
Definition set_closed (s : pstate) (l : list str) : pstate :=
  mkps (ps_stack s) (ps_pws s) (ps_scs s) (ps_data s) l (ps_next s).

(* _popToTag(name): pops down to and including the most recent open tag of that name *)
Definition open_count (s : pstate) (name : str) : nat :=
  length (filter (fun t => str_eqb (ot_name t) name) (ps_stack s)).
Fixpoint pop_to (deep : nat -> nat -> nat) (eqres : nat -> nat -> bool) (fuel : nat) (s : pstate) (name : str)
  : pstate * list nat :=
  match fuel with
  | 0 => (s, [])
  | S f =>
      match ps_stack s with
      | [] => (s, [])
      | t :: _ =>
          let '(s', c) := pop_tag deep eqres s in
          if str_eqb (ot_name t) name then (s', [fr c])
          else let '(s'', c') := pop_to deep eqres f s' name in (s'', fr c :: c')
      end
  end.
Definition d_pop_to_tag (deep : nat -> nat -> nat) (eqres : nat -> nat -> bool) (cfg : pconfig) (s : pstate) (name : str)
  : pstate * nat :=
  match open_count s name with
       | 0 => (s, leaf)
       | _ => let '(s', c) := pop_to deep eqres (length (ps_stack s)) s name in
              (s', fr (leaf (* <genexpr> of any(...) *) :: c))
  end.
(* BeautifulSoup.handle_endtag *)
Definition soup_handle_endtag deep eqres (cfg : pconfig) (s : pstate) (name : str) : pstate * nat :=
  let e := d_end_data (ps_data s) in
  let '(s', p) := d_pop_to_tag deep eqres cfg (clear_data s) name in
  (s', fr [e; p]).

Definition lower_ascii (c : N) : N := if (65 <=? c)%N && (c <=? 90)%N then (c + 32)%N else c.
Definition is_cdata_list_attr (cfg : pconfig) (tag attr : str) : bool :=
  (match assocS [42%N] (pc_cdata_list cfg) with Some l => memS attr l | None => false end) ||
  (match assocS (map lower_ascii tag) (pc_cdata_list cfg) with Some l => memS attr l | None => false end).
Fixpoint dedup_keys (l : list (str * str)) (seen : list str) : list str :=
  match l with
  | [] => rev seen
  | (k, _) :: l' => if memS k seen then dedup_keys l' seen else dedup_keys l' (k :: seen)
  end.
Definition meta_name : str := [109; 101; 116; 97]%N.
Definition charset_name : str := [99; 104; 97; 114; 115; 101; 116]%N.
Definition content_name : str := [99; 111; 110; 116; 101; 110; 116]%N.
(* Tag.__init__ with a builder: _replace_cdata_list_attribute_values assigns the split value of each
   multi-valued attribute (__setitem__), setup, set_up_substitutions (for <meta>: Tag.get,
   get_attribute_list -> get, and for a charset / content declaration the stand-in's __new__ and
   Tag.__setitem__ -> the dictionary's __setitem__) *)
Definition d_tag_init_builder (cfg : pconfig) (name : str) (attrs : list (str * str)) (http_equiv_ct : bool) : nat :=
  let keys := dedup_keys attrs [] in
  fr ((match pc_cdata_list cfg with
       | [] => match keys with [] => [] | _ => [d_setitem] end      (* no table: every attribute is copied over *)
       | _ => if existsb (is_cdata_list_attr cfg name) keys then [d_setitem] else []
       end) ++
      [d_setup] ++
      (if str_eqb name meta_name then
         [leaf; fr [leaf]] ++
         (if memS charset_name keys then [leaf; fr [d_setitem]]
          else if memS content_name keys && http_equiv_ct then [leaf; fr [d_setitem]] else [])
       else [])).
(* is the http-equiv attribute "content-type" (ASCII case-insensitively)? *)
Definition http_equiv_name : str := [104; 116; 116; 112; 45; 101; 113; 117; 105; 118]%N.
Definition content_type : str := [99; 111; 110; 116; 101; 110; 116; 45; 116; 121; 112; 101]%N.
Fixpoint last_value (k : str) (l : list (str * str)) (acc : option str) : option str :=
  match l with
  | [] => acc
  | (k', v) :: l' => last_value k l' (if str_eqb k k' then Some v else acc)
  end.
Definition http_equiv_is_ct (attrs : list (str * str)) : bool :=
  match last_value http_equiv_name attrs None with
  | Some v => str_eqb (map lower_ascii v) content_type
  | None => false
  end.
(* BeautifulSoup.handle_starttag: endData, Tag.__init__, pushTag *)
Definition soup_handle_starttag (cfg : pconfig) (s : pstate) (name : str) (attrs : list (str * str)) : pstate * nat :=
  let e := d_end_data (ps_data s) in
  (push_tag cfg (clear_data s) name,
   fr [e; d_tag_init_builder cfg name attrs (http_equiv_is_ct attrs); leaf]).
Fixpoint remove_first (x : str) (l : list str) : list str :=
  match l with
  | [] => []
  | y :: l' => if str_eqb x y then l' else y :: remove_first x l'
  end.
(* the adapter's handle_endtag(name, check_already_closed) *)
Definition adapter_endtag deep eqres (cfg : pconfig) (s : pstate) (name : str) (check : bool) : pstate * list nat :=
  if check && memS name (ps_closed s) then (set_closed s (remove_first name (ps_closed s)), [])
  else let '(s', d) := soup_handle_endtag deep eqres cfg s name in (s', [d]).
(* one callback: (state, depths of the tree-code calls the adapter makes) *)
Definition step deep eqres (cfg : pconfig) (s : pstate) (cb : callback) : pstate * list nat :=
  match cb with
  | CbStart name attrs selfclosing =>
      let setitems := map (fun _ => d_setitem) attrs in            (* attr_dict[key] = value *)
      let '(s1, d1) := soup_handle_starttag cfg s name attrs in
      let is_void := memS name (pc_void cfg) in
      (* `if tag and tag.is_empty_element`: Tag.__bool__, is_empty_element *)
      if selfclosing then
        (* handle_startendtag: the end-tag event belongs to the tag just opened (check_already_closed=False) *)
        let '(s2, c2) := adapter_endtag deep eqres cfg s1 name false in
        (s2, setitems ++ [d1; leaf; leaf] ++ c2)
      else if is_void then
        let '(s2, c2) := adapter_endtag deep eqres cfg s1 name false in
        (set_closed s2 (ps_closed s2 ++ [name]), setitems ++ [d1; leaf; leaf] ++ c2)
      else (s1, setitems ++ [d1; leaf; leaf])
  | CbEnd name => adapter_endtag deep eqres cfg s name true
  | CbData => (set_data s, [leaf])                                  (* soup.handle_data *)
  | CbSpecial => (clear_data s, [d_end_data (ps_data s); leaf; d_end_data true])
  end.
Fixpoint run_callbacks deep eqres (cfg : pconfig) (s : pstate) (cbs : list callback) : pstate * list nat :=
  match cbs with
  | [] => (s, [])
  | cb :: rest =>
      let '(s1, c1) := step deep eqres cfg s cb in
      let '(s2, c2) := run_callbacks deep eqres cfg s1 rest in
      (s2, c1 ++ c2)
  end.
(* the popTag loop that closes what is still open at the end of _feed *)
Fixpoint pop_all deep eqres (fuel : nat) (s : pstate) : list nat :=
  match fuel with
  | 0 => []
  | S f => match ps_stack s with
           | [] => []
           | _ => let '(s', c) := pop_tag deep eqres s in fr c :: pop_all deep eqres f s'
           end
  end.
(* _feed: the callbacks (through builder.feed), endData, the closing loop *)
Definition d_feed deep eqres (cfg : pconfig) (cbs : list callback) : nat :=
  let '(s, calls) := run_callbacks deep eqres cfg ps0 cbs in
  fr (calls ++ [d_end_data (ps_data s)] ++ pop_all deep eqres (length (ps_stack s)) (clear_data s)).
(* reset: Tag.__init__ (-> setup) and pushTag *)
Definition d_reset : nat := fr [fr [d_setup]; leaf].
(* BeautifulSoup(markup, "html.parser"): deprecated_argument; for short markup without "<" or a
   newline the two locator checks (each with a <genexpr>); reset; _feed *)
Definition short_plain (markup : str) : bool :=
  (length markup <=? 256) && negb (memN 60%N markup) && negb (memN 10%N markup).
Definition d_parse deep eqres (cfg : pconfig) (markup : str) (cbs : list callback) : nat :=
  fr ([leaf] ++ (if short_plain markup then [fr [leaf]] else []) ++ [d_reset; d_feed deep eqres cfg cbs]).
(* unpickling a document: __setstate__ -> reset ; _feed *)
Definition d_setstate deep eqres (cfg : pconfig) (cbs : list callback) : nat :=
  fr [d_reset; d_feed deep eqres cfg cbs].

(* ------------------------------------------------------------------------------------------ *)
(* the four recursion sites as they were before the C11 repairs *)

(* `c.parent != tag_stack[-1]` in _event_stream: Tag.__ne__ -> Tag.__eq__ on two different tags *)
Definition legacy_d_parent_ne (parent top : elem) : nat := fr [d_eq parent top].
(* Tag.string asking its only child for .string *)
Fixpoint legacy_d_tag_string (e : elem) : nat :=
  match e with
  | ETag _ _ _ _ _ _ _ [k] => if is_tag k then fr [legacy_d_tag_string k] else leaf
  | _ => leaf
  end.
(* smooth() calling smooth() on every child Tag *)
Fixpoint legacy_d_smooth (e : elem) : nat :=
  match e with
  | ETag _ _ _ _ _ _ _ ks =>
      fr (map legacy_d_smooth ks ++      (* a.smooth() for every child Tag; strings make no call *)
          match marked_pairs ks with 0 => [] | _ => [d_extract; d_nav_new; d_replace_with [IFresh]] end)
  | EStr _ _ => 0
  end.
(* _is_xml asking self.parent._is_xml *)
Fixpoint legacy_d_is_xml (chain : list elem) : nat :=
  match chain with
  | [] => leaf
  | e :: rest =>
      match kx_of e with
      | Some _ => leaf
      | None => match rest with [] => leaf | _ => fr [legacy_d_is_xml rest] end
      end
  end.

(* ------------------------------------------------------------------------------------------ *)
(* the shape families of the property, nested d deep *)
Definition s_a : str := [97%N].
Definition s_b : str := [98%N].
Definition s_x : str := [120%N].
Definition s_class : str := [99; 108; 97; 115; 115]%N.
Definition s_id : str := [105; 100]%N.
Definition tag_ (name : str) (attrs : list (str * aval)) (ks : list elem) : elem :=
  ETag name None attrs (Some false) false false false ks.
Definition text_ (t : str) : elem := EStr 0%N t.
Inductive family := FChain | FTrailText | FTrailSibling | FAlternate | FAttrs | FRepeat.
Fixpoint nest (f : family) (d : nat) : elem :=
  match d with
  | 0 => match f with FChain | FAlternate => tag_ s_a [] [] | FAttrs => tag_ s_a [(s_class, AvList [s_x]); (s_id, AvStr s_x)] []
         | _ => text_ s_x end
  | S d' =>
      match f with
      | FChain => tag_ s_a [] [nest f d']
      | FTrailText => tag_ s_a [] [nest f d'; text_ s_x]
      | FTrailSibling => tag_ s_a [] [nest f d'; tag_ s_b [] []]
      | FAlternate => tag_ (if Nat.even d then s_a else s_b) [] [nest f d']
      | FAttrs => tag_ s_a [(s_class, AvList [s_x]); (s_id, AvStr s_x)] [nest f d']
      | FRepeat => tag_ s_a [] [tag_ s_b [] [text_ s_x]; nest f d'; tag_ s_b [] [text_ s_x]]
      end
  end.
Definition soup_ (ks : list elem) : elem :=
  ETag [91; 100; 111; 99; 117; 109; 101; 110; 116; 93]%N None [] (Some false) false true true ks.
Definition document (f : family) (d : nat) : elem := soup_ [nest f d].

(* ------------------------------------------------------------------------------------------ *)
(* the elements the other search axes walk over, from the root and the path of the start element *)
Definition preorder (root : elem) : list elem := root :: flat root.
Fixpoint idx_of (e : elem) (path : list nat) : nat :=
  match path with
  | [] => 0
  | i :: p =>
      match nth_error (kids_of e) i with
      | Some k => S (list_sum (map (fun x => S (length (flat x))) (firstn i (kids_of e)))) + idx_of k p
      | None => 0
      end
  end.
Inductive axis := AxNext | AxPrevious | AxParents | AxNextSiblings | AxPreviousSiblings.
Definition last_index (path : list nat) : nat := last path 0.
Definition axis_elems (root : elem) (path : list nat) (a : axis) (root_linked : bool) : list elem :=
  let i := idx_of root path in
  let ctx := snd (locate [] root path) in
  match a with
  | AxNext => skipn (S i) (preorder root)
  | AxPrevious =>
      let l := rev (firstn i (preorder root)) in
      if root_linked then l else removelast l
  | AxParents => ctx
  | AxNextSiblings => match ctx with p :: _ => skipn (S (last_index path)) (kids_of p) | [] => [] end
  | AxPreviousSiblings => match ctx with p :: _ => rev (firstn (last_index path) (kids_of p)) | [] => [] end
  end.
