(* C17 — attribute values: whitespace split / join of multi-valued attributes
   (TreeBuilder._replace_cdata_list_attribute_values, builder/__init__.py 388-442),
   the HTML and XML attribute containers' coercions (element.py 233-305), and the
   duplicate-attribute policy of BeautifulSoupHTMLParser.handle_starttag (155-174). *)
From Coq Require Import List NArith ZArith Bool.
From BS Require Import Base.Sexp Base.Types Gen.Tables Gen.Stdlib.
Import ListNotations.
Open Scope N_scope.

(* re \s on str *)
Definition is_ws (c : N) : bool := memN c py_whitespace.

(* nonwhitespace_re.findall(value) : maximal runs of non-whitespace, in order *)
Fixpoint split_ws_from (cur : str) (s : str) : list str :=      (* cur: current token, reversed *)
  match s with
  | [] => match cur with [] => [] | _ => [rev cur] end
  | c :: s' =>
      if is_ws c
      then match cur with [] => split_ws_from [] s' | _ => rev cur :: split_ws_from [] s' end
      else split_ws_from (c :: cur) s'
  end.
Definition split_ws (s : str) : list str := split_ws_from [] s.

(* " ".join(tokens) *)
Fixpoint join_sp (l : list str) : str :=
  match l with
  | [] => []
  | [t] => t
  | t :: l' => t ++ 32 :: join_sp l'
  end.

(* attribute values as the containers see them *)
Inductive aval :=
| VStr (s : str)
| VList (l : list str)
| VBool (b : bool)
| VInt (z : Z)
| VFloat (repr : str)        (* str(value) supplied by the caller: float formatting is the interpreter's *)
| VNone.

(* attribute keys: the full (possibly prefixed) name, and for a NamespacedAttribute its
   unqualified .name *)
Record akey := { k_full : str; k_local : option str }.
Definition akey_eqb (a b : akey) : bool := str_eqb (k_full a) (k_full b).
Definition k_unqualified (k : akey) : str :=
  match k_local k with Some n => n | None => k_full k end.

(* dict with insertion order *)
Definition adict := list (akey * aval).
Fixpoint dget (k : akey) (d : adict) : option aval :=
  match d with
  | [] => None
  | (k', v) :: d' => if akey_eqb k k' then Some v else dget k d'
  end.
Fixpoint dset (k : akey) (v : aval) (d : adict) : adict :=
  match d with
  | [] => [(k, v)]
  | (k', v') :: d' => if akey_eqb k k' then (k', v) :: d' else (k', v') :: dset k v d'
  end.
Fixpoint ddel (k : akey) (d : adict) : adict :=     (* keys are unique in a dict *)
  match d with
  | [] => []
  | (k', v') :: d' => if akey_eqb k k' then ddel k d' else (k', v') :: ddel k d'
  end.

(* str(int) *)
Fixpoint dec_digits (fuel : nat) (n : N) (acc : str) : str :=
  match fuel with
  | O => acc
  | S f => let acc' := (48 + n mod 10) :: acc in
           if n / 10 =? 0 then acc' else dec_digits f (n / 10) acc'
  end.
Definition str_of_N (n : N) : str := dec_digits (S (N.size_nat n)) n [].
Definition str_of_Z (z : Z) : str :=
  match z with
  | Z0 => [48]
  | Zpos p => str_of_N (Npos p)
  | Zneg p => 45 :: str_of_N (Npos p)
  end.

(* HTMLAttributeDict.__setitem__ *)
Definition html_setitem (d : adict) (k : akey) (v : aval) : adict :=
  match v with
  | VBool false | VNone => ddel k d
  | VBool true => dset k (VStr (k_unqualified k)) d
  | VInt z => dset k (VStr (str_of_Z z)) d
  | VFloat r => dset k (VStr r) d
  | _ => dset k v d
  end.

(* XMLAttributeDict.__setitem__ *)
Definition xml_setitem (d : adict) (k : akey) (v : aval) : adict :=
  match v with
  | VNone => dset k (VStr []) d
  | VBool b => dset k (VBool b) d
  | VInt z => dset k (VStr (str_of_Z z)) d
  | VFloat r => dset k (VStr r) d
  | _ => dset k v d
  end.

(* plain AttributeDict *)
Definition plain_setitem (d : adict) (k : akey) (v : aval) : adict := dset k v d.

(* ---- multi-valued attributes ---- *)
Definition cdata_table := list (str * list str).
Definition ascii_lower (s : str) : str :=
  map (fun c => if (65 <=? c) && (c <=? 90) then c + 32 else c) s.
Definition tget (k : str) (t : cdata_table) : list str :=
  match assocS k t with Some l => l | None => [] end.
Definition s_star : str := [42].
Definition is_multi (t : cdata_table) (tag attr : str) : bool :=
  memS attr (tget s_star t) || memS attr (tget (ascii_lower tag) t).

Definition split_value (v : aval) : aval :=
  match v with VStr s => VList (split_ws s) | _ => v end.

(* table = None (multi_valued_attributes=None) or empty: nothing is split *)
Definition replace_cdata_list (t : option cdata_table) (tag : str) (attrs : adict) : adict :=
  match t with
  | None | Some [] => attrs
  | Some tb =>
      map (fun kv => if is_multi tb tag (k_full (fst kv)) then (fst kv, split_value (snd kv)) else kv) attrs
  end.

(* the value as written back by the renderer: lists are joined by single spaces *)
Definition rendered_value (v : aval) : option str :=
  match v with
  | VStr s => Some s
  | VList l => Some (join_sp l)
  | _ => None
  end.

(* ---- duplicate attributes (handle_starttag) ---- *)
Inductive dup_policy := DupReplace | DupIgnore | DupCall.

Section Dup.
  Variable setitem : adict -> akey -> aval -> adict.
  Variable on_dupe : adict -> akey -> aval -> adict.     (* the user's callable *)

  Definition dup_step (pol : dup_policy) (d : adict) (kv : akey * option str) : adict :=
    let v := VStr (match snd kv with Some s => s | None => [] end) in
    match dget (fst kv) d with
    | Some _ =>
        match pol with
        | DupIgnore => d
        | DupReplace => setitem d (fst kv) v
        | DupCall => on_dupe d (fst kv) v
        end
    | None => setitem d (fst kv) v
    end.

  Definition collect_attrs (pol : dup_policy) (attrs : list (akey * option str)) : adict :=
    fold_left (dup_step pol) attrs [].
End Dup.
