(* C06 — the constructor on *bytes* whose encoding detection stays within the concrete codecs of Model/Codecs.v
   (ascii, latin-1, windows-1252, utf-8, utf-16/32 LE/BE; chardet absent): BeautifulSoup(b, "html.parser",
   from_encoding=..., exclude_encodings=...) = the concrete prepare_markup of C07 (UnicodeDammit with nothing left as
   a parameter), then the string-level constructor of Model/ConstructStr.v on the text it produced, numeric
   references below 256 being read through the detected codec.  No proofs in this file. *)
From Coq Require Import List NArith Bool Arith.
From BS Require Import Base.Sexp Base.Types Model.Dammit Model.Codecs Model.Heap Model.Edit Model.Build Model.Construct
                       Model.ConstructStr.
Import ListNotations.
Open Scope N_scope.

(* bytearray([n]).decode(name): a concrete codec fails with UnicodeDecodeError only *)
Definition decoder_of (name : str) : byte_decoder :=
  fun n => match c_decode [n] name Dammit.Strict with
           | Some t => DecText t
           | None => DecRaise exc_UnicodeDecodeError
           end.

Definition construct_bytes (cfg : bconfig) (b0 : bstate) (unesc : str -> option str) (b : str)
           (from_encoding : option str) (exclude : list str) : cres * list warning :=
  match c_prepare_markup (Dammit.MBytes b) from_encoding exclude with
  | Dammit.Rejected =>                                   (* nothing could be decoded: prepare_markup raises *)
      construct_htmlparser cfg b0 (Construct.MBytes b) DNone None [] TokFinished
  | Prepared text orig decl flag =>
      construct_text cfg b0 (Construct.MBytes b) (DText orig decl flag) (option_map decoder_of orig) unesc text
  end.
