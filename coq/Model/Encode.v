(* C08 — rendering a tree to bytes in a target encoding.
   Follows, as written:
     bs4/element.py   Tag.encode / Tag.decode / Tag._event_stream / Tag._format_tag / Tag._indent_string /
                      Tag.prettify / Tag.decode_contents / Tag.encode_contents / NavigableString.output_ready /
                      PreformattedString.output_ready / CharsetMetaAttributeValue.substitute_encoding /
                      ContentMetaAttributeValue.substitute_encoding (CHARSET_RE) / PYTHON_SPECIFIC_ENCODINGS
     bs4/builder/__init__.py  HTMLTreeBuilder.set_up_substitutions
     bs4/formatter.py Formatter.substitute / attribute_value / attributes ('minimal' and None formatters)
     bs4/dammit.py    EntitySubstitution.substitute_xml / quoted_attribute_value
   and Python's str.encode(encoding, errors) for errors in {strict, xmlcharrefreplace}.

   The codec is a PARAMETER: [enc_char] (strict encoding of one code point, None = cannot be represented)
   and [bom] (what the codec writes first: UTF-16 / UTF-32 / utf-8-sig). No proofs in this file. *)
From Coq Require Import List NArith Bool Arith.
From BS Require Import Base.Sexp Base.Types Base.Reader Gen.Tables Gen.Stdlib Gen.Entities Gen.T_C08.
Import ListNotations.
Open Scope N_scope.

(* ------------------------------------------------------------------ *)
(* 1. str.encode(encoding, errors)                                     *)
(* ------------------------------------------------------------------ *)

Inductive policy := Strict | XmlCharRef | OtherPolicy.

Definition s_xmlcharrefreplace : str := [120; 109; 108; 99; 104; 97; 114; 114; 101; 102; 114; 101; 112; 108; 97; 99; 101].   (* xmlcharrefreplace *)
Definition s_strict : str := [115; 116; 114; 105; 99; 116].   (* strict *)

Definition policy_of_name (s : str) : policy :=
  if str_eqb s s_xmlcharrefreplace then XmlCharRef
  else if str_eqb s s_strict then Strict else OtherPolicy.

(* decimal digits of n, most significant first ("%d" % n) *)
Fixpoint dec_aux (fuel : nat) (n : N) (acc : str) : str :=
  match fuel with
  | O => acc
  | S f => let acc' := (48 + n mod 10) :: acc in
           if n / 10 =? 0 then acc' else dec_aux f (n / 10) acc'
  end.
Definition decimal (n : N) : str := dec_aux (S (N.size_nat n)) n [].

(* the replacement the xmlcharrefreplace handler produces for code point c *)
Definition charref (c : N) : str := c_amp :: c_hash :: decimal c ++ [c_semi].

Section Codec.
  Variable enc_char : N -> option (list N).
  Variable bom : list N.

  Definition encodable (c : N) : bool :=
    match enc_char c with Some _ => true | None => false end.

  Definition xcr_char (c : N) : str := if encodable c then [c] else charref c.
  (* the text the bytes stand for: every unencodable character replaced by &#N; *)
  Definition xcr_text (s : str) : str := flat_map xcr_char s.

  (* strict encoding of a string; None = UnicodeEncodeError *)
  Fixpoint enc_strict (s : str) : option (list N) :=
    match s with
    | [] => Some []
    | c :: s' =>
        match enc_char c, enc_strict s' with
        | Some b, Some r => Some (b ++ r)
        | _, _ => None
        end
    end.

  (* the replacement string is itself run through the codec (a codec that cannot write '&', '#',
     a digit or ';' raises) *)
  Definition str_encode_body (p : policy) (s : str) : option (list N) :=
    match p with
    | Strict => enc_strict s
    | XmlCharRef => enc_strict (xcr_text s)
    | OtherPolicy => None
    end.

  Definition str_encode (p : policy) (s : str) : option (list N) :=
    option_map (app bom) (str_encode_body p s).
End Codec.

(* ------------------------------------------------------------------ *)
(* 2. the two <meta> placeholders                                      *)
(* ------------------------------------------------------------------ *)

Definition is_python_specific (e : str) : bool := memS e python_specific_encodings.

(* CharsetMetaAttributeValue.substitute_encoding *)
Definition charset_subst (e : str) : str := if is_python_specific e then [] else e.

(* ContentMetaAttributeValue.CHARSET_RE (pattern and flags pinned in Props/C08.v): group 1 = a line start
   or ';', optional whitespace, the word charset in any case, optional whitespace, '=', optional whitespace;
   group 3 = everything up to the next ';'. Compiled with re.M | re.I. As a scanner:
   a match starts at a ';' or at a line start and its value runs to the next ';', so there is at most
   one match per ';'-separated field: at the field start (string start = '^', later fields = their ';'),
   else at the first line start inside the field where group 1 matches. Nothing in group 1 backtracks
   (whitespace, the letters and '=' are pairwise disjoint), so it is a left-to-right automaton. *)
Definition is_py_ws (c : N) : bool := memN c py_whitespace.

(* a lower-case ASCII letter of the pattern under re.I (str pattern): itself, its upper case and, for 's',
   U+017F LATIN SMALL LETTER LONG S (sre's extra case-folding partner) *)
Definition ci_match (p c : N) : bool := (c =? p) || (c =? p - 32) || ((p =? 115) && (c =? 383)).

Definition s_harset : str := [104; 97; 114; 115; 101; 116].   (* harset *)

Inductive mstate :=
| MW1                 (* in the whitespace before the word *)
| MC (i : nat)        (* inside the word: the next letter is nth i of "harset"; past its end = whitespace before '=' *)
| MW3.                (* after '=': trailing whitespace of group 1 *)

(* length of group 1 when it matches at the start of s *)
Fixpoint g1_run (st : mstate) (s : str) : option nat :=
  match s with
  | [] => match st with MW3 => Some O | _ => None end
  | c :: s' =>
      match st with
      | MW1 =>
          if is_py_ws c then option_map S (g1_run MW1 s')
          else if ci_match 99 c then option_map S (g1_run (MC O) s') else None
      | MC i =>
          match nth_error s_harset i with
          | Some p => if ci_match p c then option_map S (g1_run (MC (S i)) s') else None
          | None =>
              if is_py_ws c then option_map S (g1_run (MC i) s')
              else if c =? 61 then option_map S (g1_run MW3 s') else None
          end
      | MW3 =>
          if is_py_ws c then option_map S (g1_run MW3 s') else Some O
      end
  end.
Definition ws_charset (s : str) : option nat := g1_run MW1 s.

Fixpoint split_semi (s : str) : list str :=
  match s with
  | [] => [[]]
  | c :: s' =>
      if c =? c_semi then [] :: split_semi s'
      else match split_semi s' with
           | f :: fs => (c :: f) :: fs
           | [] => [[c]]
           end
  end.

(* e = Some name: group(1) + name ; e = None (python-specific): the match is deleted *)
Definition match_repl (e : option str) (g1 : str) : str :=
  match e with Some n => g1 ++ n | None => [] end.

(* inside a field, after its start: a match can begin only right after a newline *)
Fixpoint line_search (e : option str) (s : str) : str :=
  match s with
  | [] => []
  | c :: s' =>
      c :: (if c =? 10
            then match ws_charset s' with
                 | Some k => match_repl e (firstn k s')
                 | None => line_search e s'
                 end
            else line_search e s')
  end.

(* one field; [lead] is its own ';' (empty for the first field) and belongs to group(1) when the
   match is at the field start *)
Definition sub_field (e : option str) (lead : str) (f : str) : str :=
  match ws_charset f with
  | Some k => match_repl e (lead ++ firstn k f)
  | None => lead ++ line_search e f
  end.

Definition content_sub (e : option str) (v : str) : str :=
  match split_semi v with
  | [] => []
  | f0 :: fs => sub_field e [] f0 ++ flat_map (sub_field e [c_semi]) fs
  end.

(* ContentMetaAttributeValue.substitute_encoding *)
Definition content_subst (e : str) (orig : str) : str :=
  content_sub (if is_python_specific e then None else Some e) orig.

(* what a re-reading of the value finds: the value (group 3) of the match in a field, if any *)
Fixpoint line_value (s : str) : option str :=
  match s with
  | [] => None
  | c :: s' =>
      if c =? 10
      then match ws_charset s' with
           | Some k => Some (skipn k s')
           | None => line_value s'
           end
      else line_value s'
  end.
Definition field_value (f : str) : option str :=
  match ws_charset f with
  | Some k => Some (skipn k f)
  | None => line_value f
  end.
Definition charset_params (v : str) : list (option str) := map field_value (split_semi v).

(* ------------------------------------------------------------------ *)
(* 3. trees                                                            *)
(* ------------------------------------------------------------------ *)

Inductive aval :=
| AStr (s : str)
| AList (l : list str)
| ACharset (orig : str)          (* CharsetMetaAttributeValue *)
| AContent (orig : str)          (* ContentMetaAttributeValue *)
| ANone.

Record tag_head := mkhead {
  h_name : str;
  h_prefix : option str;
  h_attrs : list (str * aval);      (* in dict order, keys distinct *)
  h_can_be_empty : bool;            (* can_be_empty_element is True *)
  h_hidden : bool                   (* only the BeautifulSoup object *)
}.

Inductive node :=
| Txt (cls : N) (s : str)           (* string class as numbered in Gen/Tables.v string_class_affixes *)
| Elt (h : tag_head) (kids : list node).

(* ------------------------------------------------------------------ *)
(* 4. HTMLTreeBuilder.set_up_substitutions                             *)
(* ------------------------------------------------------------------ *)

Definition s_meta : str := [109; 101; 116; 97].   (* meta *)
Definition s_content : str := [99; 111; 110; 116; 101; 110; 116].   (* content *)
Definition s_charset : str := [99; 104; 97; 114; 115; 101; 116].   (* charset *)
Definition s_http_equiv : str := [104; 116; 116; 112; 45; 101; 113; 117; 105; 118].   (* http-equiv *)
Definition s_content_type : str := [99; 111; 110; 116; 101; 110; 116; 45; 116; 121; 112; 101].   (* content-type *)

Definition lower_ascii (s : str) : str :=
  map (fun c => if (65 <=? c) && (c <=? 90) then c + 32 else c) s.

(* tag.get(k): a missing key and a None value both read as None *)
Definition get_str (k : str) (attrs : list (str * aval)) : option str :=
  match assocS k attrs with
  | Some (AStr s) => Some s
  | Some (ACharset s) => Some s
  | Some (AContent s) => Some s
  | _ => None
  end.
(* tag.get_attribute_list(k) *)
Definition get_list (k : str) (attrs : list (str * aval)) : list str :=
  match assocS k attrs with
  | Some (AStr s) => [s]
  | Some (ACharset s) => [s]
  | Some (AContent s) => [s]
  | Some (AList l) => l
  | _ => []
  end.
Fixpoint set_attr (k : str) (v : aval) (attrs : list (str * aval)) : list (str * aval) :=
  match attrs with
  | [] => [(k, v)]
  | (k', v') :: r => if str_eqb k k' then (k, v) :: r else (k', v') :: set_attr k v r
  end.

Definition set_up_substitutions (name : str) (attrs : list (str * aval)) : list (str * aval) :=
  if negb (str_eqb name s_meta) then attrs
  else
    match get_str s_charset attrs with
    | Some cs => set_attr s_charset (ACharset cs) attrs
    | None =>
        match get_str s_content attrs with
        | Some ct =>
            if existsb (fun x => str_eqb (lower_ascii x) s_content_type) (get_list s_http_equiv attrs)
            then set_attr s_content (AContent ct) attrs
            else attrs
        | None => attrs
        end
    end.

(* ------------------------------------------------------------------ *)
(* 5. formatter pieces                                                 *)
(* ------------------------------------------------------------------ *)

Inductive fmt := FMinimal | FNone.

(* EntitySubstitution.substitute_xml: AMPERSAND_OR_BRACKET = ([<>&]), one character at a time *)
Definition subst_xml (s : str) : str :=
  flat_map (fun c => match assocN c xml_entity_for with Some e => e | None => [c] end) s.

(* Formatter.substitute: strings directly inside a cdata-containing tag are left alone *)
Definition fmt_subst (f : fmt) (in_cdata : bool) (s : str) : str :=
  match f with
  | FNone => s
  | FMinimal => if in_cdata then s else subst_xml s
  end.

Definition s_quot_ent : str := [38; 113; 117; 111; 116; 59].   (* &quot; *)
(* EntitySubstitution.quoted_attribute_value *)
Definition quoted_attribute_value (v : str) : str :=
  if memN c_dq v then
    if memN c_sq v
    then c_dq :: flat_map (fun c => if c =? c_dq then s_quot_ent else [c]) v ++ [c_dq]
    else c_sq :: v ++ [c_sq]
  else c_dq :: v ++ [c_dq].

Fixpoint join_sp (l : list str) : str :=
  match l with
  | [] => []
  | [t] => t
  | t :: l' => t ++ 32 :: join_sp l'
  end.

(* lexicographic order on code points (Python's str comparison) *)
Fixpoint str_leb (a b : str) : bool :=
  match a, b with
  | [], _ => true
  | _ :: _, [] => false
  | x :: a', y :: b' => if x <? y then true else if y <? x then false else str_leb a' b'
  end.
Fixpoint insert_attr (kv : str * aval) (l : list (str * aval)) : list (str * aval) :=
  match l with
  | [] => [kv]
  | kv' :: r => if str_leb (fst kv) (fst kv') then kv :: l else kv' :: insert_attr kv r
  end.
(* Formatter.attributes: sorted by key *)
Definition sorted_attrs (attrs : list (str * aval)) : list (str * aval) :=
  fold_right insert_attr [] attrs.

(* the value _format_tag hands to the formatter; None = rendered as a bare key.
   The substitution of a placeholder happens only when eventual_encoding is not None. *)
Definition attr_text (ev : option str) (v : aval) : option str :=
  match v with
  | ANone => None
  | AList l => Some (join_sp l)
  | AStr s => Some s
  | ACharset o => Some (match ev with Some e => charset_subst e | None => o end)
  | AContent o => Some (match ev with Some e => content_subst e o | None => o end)
  end.

Definition format_attr (ev : option str) (f : fmt) (kv : str * aval) : str :=
  let v0 := if minimal_empty_attributes_are_booleans
            then match snd kv with AStr [] | ACharset [] | AContent [] => ANone | v => v end else snd kv in
  match attr_text ev v0 with
  | None => fst kv
  | Some t => fst kv ++ 61 :: quoted_attribute_value (fmt_subst f false t)
  end.

Fixpoint join_with_sp (l : list str) : str :=
  match l with
  | [] => []
  | a :: r => 32 :: a ++ join_with_sp r
  end.

(* Tag._format_tag *)
Definition format_tag (ev : option str) (f : fmt) (h : tag_head) (is_empty : bool) (opening : bool) : str :=
  if h_hidden h then []
  else
    [c_lt] ++ (if opening then [] else [47])
    ++ (match h_prefix h with Some p => match p with [] => [] | _ => p ++ [58] end | None => [] end)
    ++ h_name h
    ++ (if opening then join_with_sp (map (format_attr ev f) (sorted_attrs (h_attrs h))) else [])
    ++ (if is_empty then minimal_void_close_prefix else [])
    ++ [c_gt].

Definition class_affix (cls : N) : str * str :=
  match assocN cls string_class_affixes with Some a => a | None => ([], []) end.
Definition is_preformatted (cls : N) : bool := memN cls preformatted_string_classes.

(* NavigableString.output_ready / PreformattedString.output_ready *)
Definition output_ready (f : fmt) (cls : N) (in_cdata : bool) (s : str) : str :=
  let '(pre, suf) := class_affix cls in
  if is_preformatted cls then pre ++ s ++ suf else pre ++ fmt_subst f in_cdata s ++ suf.

(* ------------------------------------------------------------------ *)
(* 6. Tag._event_stream and the loop of Tag.decode                     *)
(* ------------------------------------------------------------------ *)

Inductive ev :=
| EvStart (h : tag_head)
| EvEnd (h : tag_head)
| EvEmpty (h : tag_head)
| EvStr (cls : N) (s : str) (in_cdata : bool).

Definition cdata_parent (h : tag_head) : bool := memS (h_name h) minimal_cdata_containing_tags.

Fixpoint events (in_cdata : bool) (n : node) : list ev :=
  match n with
  | Txt cls s => [EvStr cls s in_cdata]
  | Elt h kids =>
      match kids with
      | [] => if h_can_be_empty h then [EvEmpty h] else [EvStart h; EvEnd h]
      | _ => EvStart h :: flat_map (events (cdata_parent h)) kids ++ [EvEnd h]
      end
  end.

Definition events_contents (n : node) : list ev :=
  match n with
  | Txt _ _ => []
  | Elt h kids => flat_map (events (cdata_parent h)) kids
  end.
(* self_and_descendants leaves a hidden element (the BeautifulSoup object) out *)
Definition events_self (n : node) : list ev :=
  match n with
  | Txt _ _ => events false n
  | Elt h _ => if h_hidden h then events_contents n else events false n
  end.

Fixpoint drop_ws (s : str) : str :=
  match s with
  | c :: s' => if is_py_ws c then drop_ws s' else s
  | [] => []
  end.
Definition py_strip (s : str) : str := rev (drop_ws (rev (drop_ws s))).

Fixpoint repeat_str (s : str) (n : nat) : str :=
  match n with O => [] | S k => s ++ repeat_str s k end.

(* Tag._indent_string *)
Definition indent_string (s : str) (level : nat) (before after : bool) : str :=
  (if before then repeat_str minimal_indent level else []) ++ s ++ (if after then [10] else []).

Definition should_pretty_print (h : tag_head) : bool :=
  negb (memS (h_name h) default_preserve_whitespace_tags).

Record dstate := mkd {
  d_indent : option nat;      (* indent_level *)
  d_lit : option nat;         (* string_literal_tag, identified by its nesting depth *)
  d_depth : nat               (* open START events *)
}.

Definition is_nil {X} (l : list X) : bool := match l with [] => true | _ => false end.

Definition decode_step (evn : option str) (f : fmt) (st : dstate) (e : ev) : dstate * str :=
  (* the piece, and the decrement on END *)
  let piece :=
    match e with
    | EvStart h => format_tag evn f h false true
    | EvEmpty h => format_tag evn f h true true
    | EvEnd h => format_tag evn f h false false
    | EvStr cls s cd => output_ready f cls cd s
    end in
  let indent1 := match e with EvEnd _ => option_map pred (d_indent st) | _ => d_indent st end in
  let depth1 := match e with EvEnd _ => pred (d_depth st) | _ => d_depth st end in
  let in_lit := match d_lit st with Some _ => true | None => false end in
  (* whitespace decision *)
  let '(before, after, lit') :=
    match e with
    | EvStart h =>
        if negb in_lit && negb (should_pretty_print h) then (true, false, Some depth1)
        else (negb in_lit, negb in_lit, d_lit st)
    | EvEnd _ =>
        match d_lit st with
        | Some d => if Nat.eqb d depth1 then (false, true, None) else (false, false, d_lit st)
        | None => (true, true, None)
        end
    | _ => (negb in_lit, negb in_lit, d_lit st)
    end in
  let piece' :=
    match indent1 with
    | None => piece
    | Some lvl =>
        if before || after then
          let p := match e with EvStr _ _ _ => py_strip piece | _ => piece end in
          if is_nil p then p else indent_string p lvl before after
        else piece
    end in
  let indent2 := match e with EvStart _ => option_map S indent1 | _ => indent1 end in
  let depth2 := match e with EvStart _ => S depth1 | _ => depth1 end in
  (mkd indent2 lit' depth2, piece').

Fixpoint decode_loop (evn : option str) (f : fmt) (st : dstate) (es : list ev) : str :=
  match es with
  | [] => []
  | e :: es' => let '(st', p) := decode_step evn f st e in p ++ decode_loop evn f st' es'
  end.

(* Tag.decode(indent_level, eventual_encoding, formatter) *)
Definition tag_decode (indent : option nat) (evn : option str) (f : fmt) (t : node) : str :=
  decode_loop evn f (mkd indent None O) (events_self t).
(* Tag.decode_contents: the same loop over self.descendants *)
Definition tag_decode_contents (indent : option nat) (evn : option str) (f : fmt) (t : node) : str :=
  decode_loop evn f (mkd indent None O) (events_contents t).

(* ------------------------------------------------------------------ *)
(* 7. the three entry points                                           *)
(* ------------------------------------------------------------------ *)

Definition encode_contents_policy : policy :=
  match encode_contents_errors with
  | None => Strict                      (* str.encode(encoding) *)
  | Some n => policy_of_name n
  end.

Section Entry.
  Variable enc_char : N -> option (list N).
  Variable bom : list N.
  Variable enc_name : str.               (* the `encoding` argument *)

  (* Tag.encode(encoding, indent_level, formatter, errors) *)
  Definition tag_encode (indent : option nat) (f : fmt) (p : policy) (t : node) : option (list N) :=
    str_encode enc_char bom p (tag_decode indent (Some enc_name) f t).

  (* Tag.encode_contents(indent_level, encoding, formatter) *)
  Definition tag_encode_contents (indent : option nat) (f : fmt) (t : node) : option (list N) :=
    str_encode enc_char bom encode_contents_policy (tag_decode_contents indent (Some enc_name) f t).

  (* Tag.prettify(encoding, formatter) with an encoding *)
  Definition tag_prettify_enc (f : fmt) (t : node) : option (list N) :=
    tag_encode (Some O) f (policy_of_name encode_default_errors) t.
End Entry.

(* Tag.prettify(None, formatter): a str; decode's default eventual_encoding applies *)
Definition tag_prettify_str (f : fmt) (t : node) : str :=
  tag_decode (Some O) (Some decode_default_eventual) f t.

(* ------------------------------------------------------------------ *)
(* 8. how a parser reads the output back                               *)
(* ------------------------------------------------------------------ *)

(* element text: bs4's handle_entityref / handle_charref (html.parser builder) *)
Definition ent_text (name : str) : option str := assocS name html_entity_to_character.
Definition decode_byte (tbl : list (option N)) (b : N) : option N := nth (N.to_nat b) tbl None.
Definition num_text (n : N) : str :=
  if n <? 256 then
    match decode_byte cp1252_table n with
    | Some c => [c]
    | None => [n]
    end
  else if n <=? 1114111 then [n] else [65533].
Definition read_text : str -> str := read ent_text num_text.

(* attribute values: html.unescape (replace_charref) *)
Definition ent_attr (name : str) : option str := assocS name html5_core_entities.
Definition num_attr (n : N) : str :=
  match assocN n html_invalid_charrefs with
  | Some r => r
  | None =>
      if ((55296 <=? n) && (n <=? 57343)) || (1114111 <? n) then [65533]
      else if memN n html_invalid_codepoints then []
      else [n]
  end.
Definition read_attr : str -> str := read ent_attr num_attr.
