(* C15 — formatter options and deterministic output.
   Follows, as written:
     bs4/formatter.py   Formatter._default, Formatter.__init__ (option normalisation),
                        HTMLFormatter.__init__ / XMLFormatter.__init__ (forwarding),
                        Formatter.substitute, attribute_value, attributes
     bs4/element.py     PageElement.formatter_for_name, _is_xml, format_string,
                        NavigableString.output_ready, PreformattedString.output_ready,
                        Tag.decode (the loop over the event stream, pretty-printing state included),
                        Tag._indent_string, Tag._format_tag, Tag._should_pretty_print,
                        decode_contents (iterator = descendants), BeautifulSoup.decode's XML prefix
     bs4/dammit.py      EntitySubstitution.quoted_attribute_value
   The entity-substitution function is a parameter ([apply]); registries, defaults and the
   string-class table come from Gen/T_C15.v. Tag._event_stream's explicit stack over parent pointers is
   [event_stream]; [events] is the bracket sequence by structural recursion the proofs work with
   (Proofs/FormatterProofs.v shows they coincide). *)
From Coq Require Import List NArith ZArith Bool.
From BS Require Import Base.Sexp Base.Types Model.FmtTypes Gen.Stdlib Gen.T_C15.
Import ListNotations.
Open Scope N_scope.

(* ------------------------------------------------------------------ constructors *)

(* Formatter._default(language, value, "cdata_containing_tags") *)
Definition default_cdata (language : str) (value : option (list str)) : list str :=
  match value with
  | Some v => v
  | None => if str_eqb language fmt_lang_xml then [] else fmt_html_default_cdata
  end.

(* the indent part of Formatter.__init__ *)
Definition normalise_indent (i : pyindent) : str :=
  let i := match i with INone => IInt 0 | _ => i end in        (* if indent is None: indent = 0 *)
  match i with
  | IInt z => let z := if (z <? 0)%Z then 0%Z else z in          (* if indent < 0: indent = 0 *)
              repeat 32 (Z.to_nat z)                             (* " " * indent *)
  | IStr s => s
  | _ => [32]
  end.

(* language or self.HTML *)
Definition or_html (l : option str) : str :=
  match l with
  | None | Some [] => fmt_lang_html
  | Some l => l
  end.

(* Formatter.__init__(self, language, entity_substitution, void_element_close_prefix,
                      cdata_containing_tags, empty_attributes_are_booleans, indent) *)
Definition formatter_init (language : option str) (es : option subst) (void : option str)
           (cdata : option (list str)) (eab : bool) (indent : pyindent) : formatter :=
  let lang := or_html language in
  mkfmt lang es void (default_cdata lang cdata) eab (normalise_indent indent).

(* keyword arguments of a constructor call: None = not passed (the signature's default applies);
   Some v = passed (v may itself be Python's None) *)
Record ctor_args := mkargs {
  a_language : option (option str);
  a_subst : option (option subst);
  a_void : option (option str);
  a_cdata : option (option (list str));
  a_eab : option bool;
  a_indent : option pyindent
}.
Definition arg {X} (given : option X) (dflt : X) : X := match given with Some x => x | None => dflt end.

Definition new_Formatter (a : ctor_args) : formatter :=
  let d := formatter_defaults in
  formatter_init (arg (a_language a) (d_language d)) (arg (a_subst a) (d_subst d)) (arg (a_void a) (d_void d))
                 (arg (a_cdata a) (d_cdata d)) (arg (a_eab a) (d_eab d)) (arg (a_indent a) (d_indent d)).

(* super().__init__(self.HTML, entity_substitution, void_element_close_prefix, cdata_containing_tags,
                    empty_attributes_are_booleans, indent=indent) *)
Definition new_HTMLFormatter (a : ctor_args) : formatter :=
  let d := htmlformatter_defaults in
  formatter_init (Some fmt_lang_html) (arg (a_subst a) (d_subst d)) (arg (a_void a) (d_void d))
                 (arg (a_cdata a) (d_cdata d)) (arg (a_eab a) (d_eab d)) (arg (a_indent a) (d_indent d)).

Definition new_XMLFormatter (a : ctor_args) : formatter :=
  let d := xmlformatter_defaults in
  formatter_init (Some fmt_lang_xml) (arg (a_subst a) (d_subst d)) (arg (a_void a) (d_void d))
                 (arg (a_cdata a) (d_cdata d)) (arg (a_eab a) (d_eab d)) (arg (a_indent a) (d_indent d)).

Inductive fclass := CFormatter | CHTMLFormatter | CXMLFormatter.
Definition construct (c : fclass) (a : ctor_args) : formatter :=
  match c with
  | CFormatter => new_Formatter a
  | CHTMLFormatter => new_HTMLFormatter a
  | CXMLFormatter => new_XMLFormatter a
  end.

(* ------------------------------------------------------------------ resolution *)

Definition ostr_eqb (a b : option str) : bool :=
  match a, b with
  | None, None => true
  | Some x, Some y => str_eqb x y
  | _, _ => false
  end.
Fixpoint reg_get (k : option str) (r : list (option str * formatter)) : option formatter :=
  match r with
  | [] => None
  | (k', f) :: r' => if ostr_eqb k k' then Some f else reg_get k r'
  end.

(* PageElement._is_xml: known_xml of the element, else of its parent, ...; at the top, the
   object's is_xml attribute if it has one, else False. [chain] = known_xml of self, parent, ... *)
Fixpoint is_xml_of (chain : list (option bool)) (top : bool) : bool :=
  match chain with
  | [] => top
  | Some b :: _ => b
  | None :: rest => is_xml_of rest top
  end.

(* what the caller hands over as `formatter` *)
Inductive fspec := FObj (f : formatter) | FName (n : option str) | FFunc (s : subst).

Definition only_subst (s : subst) : ctor_args := mkargs None (Some (Some s)) None None None None.

(* formatter_for_name; None = KeyError from the registry lookup *)
Definition formatter_for_name (is_xml : bool) (sp : fspec) : option formatter :=
  match sp with
  | FObj f => Some f
  | FFunc s => Some (if is_xml then new_XMLFormatter (only_subst s) else new_HTMLFormatter (only_subst s))
  | FName n => reg_get n (if is_xml then xml_registry else html_registry)
  end.

(* ------------------------------------------------------------------ trees *)

Inductive attrval :=
| ANone                      (* None: rendered as a bare name *)
| AStr (s : str)
| AList (l : list str)       (* list / tuple: joined by single spaces *)
| AOther (repr : str).       (* anything else: str(value), supplied by the caller *)
Definition attr := (str * attrval)%type.

Inductive node :=
| NText (cls : N) (s : str)                                   (* a NavigableString of class cls *)
| NElem (id : nat) (name : str) (prefix : option str) (attrs : list attr)
        (can_be_empty hidden : bool) (pw_tags : list str)     (* preserve_whitespace_tags (None = []) *)
        (kids : list node).

Definition is_nil {X} (l : list X) : bool := match l with [] => true | _ => false end.

(* what _format_tag and the decode loop read from a Tag *)
Record einfo := mkei {
  ei_id : nat; ei_name : str; ei_prefix : option str; ei_attrs : list attr;
  ei_empty : bool;              (* is_empty_element = no contents and can_be_empty_element *)
  ei_hidden : bool; ei_pw : list str
}.

Inductive event :=
| EvStart (e : einfo) | EvEnd (e : einfo) | EvEmpty (e : einfo)
| EvString (cls : N) (s : str) (parent_name : option str).

Fixpoint events (pname : option str) (n : node) : list event :=
  match n with
  | NText c s => [EvString c s pname]
  | NElem i nm pf ats cbe hid pw ks =>
      let e := mkei i nm pf ats (cbe && is_nil ks) hid pw in
      if cbe && is_nil ks then [EvEmpty e]
      else EvStart e :: flat_map (events (Some nm)) ks ++ [EvEnd e]
  end.

(* iterator = self_and_descendants (a hidden element leaves itself out) or descendants *)
Definition root_events (incl_self : bool) (n : node) : list event :=
  match n with
  | NText _ _ => events None n
  | NElem _ nm _ _ _ hid _ ks =>
      if incl_self && negb hid then events None n else flat_map (events (Some nm)) ks
  end.

(* Tag._event_stream as written: a loop over the iterator's elements (document order) with an explicit
   stack of open tags; an element whose parent is not the tag on top of the stack closes tags until it
   is. Parents are compared by identity (ids); `!=` in the code is structural equality, which on a tree
   can only hold for the same object (an ancestor is never equal to its own descendant). *)
Inductive item :=
| ItTag (e : einfo) (parent : option nat)
| ItStr (cls : N) (s : str) (parent_name : option str) (parent : option nat).
Definition parent_of (it : item) : option nat :=
  match it with ItTag _ p => p | ItStr _ _ _ p => p end.

(* self_and_descendants / descendants: document order, every element with its parent pointer *)
Fixpoint preorder (par : option nat) (pname : option str) (n : node) : list item :=
  match n with
  | NText c s => [ItStr c s pname par]
  | NElem i nm pf ats cbe hid pw ks =>
      ItTag (mkei i nm pf ats (cbe && is_nil ks) hid pw) par :: flat_map (preorder (Some i) (Some nm)) ks
  end.
Definition root_items (incl_self : bool) (n : node) : list item :=
  match n with
  | NText _ _ => preorder None None n
  | NElem i nm _ _ _ hid _ ks =>
      if incl_self && negb hid then preorder None None n else flat_map (preorder (Some i) (Some nm)) ks
  end.

Definition is_top (par : option nat) (t : einfo) : bool :=
  match par with Some p => Nat.eqb p (ei_id t) | None => false end.
(* while tag_stack and c.parent != tag_stack[-1]: yield END, pop *)
Fixpoint pop_until (par : option nat) (stack : list einfo) : list event * list einfo :=
  match stack with
  | [] => ([], [])
  | t :: st => if is_top par t then ([], stack)
               else let '(evs, st') := pop_until par st in (EvEnd t :: evs, st')
  end.
Fixpoint event_stream (stack : list einfo) (items : list item) : list event :=
  match items with
  | [] => map EvEnd stack                                   (* while tag_stack: yield END, pop *)
  | it :: items' =>
      let '(closed, st) := pop_until (parent_of it) stack in
      closed ++
      match it with
      | ItTag e _ => if ei_empty e then EvEmpty e :: event_stream st items'
                     else EvStart e :: event_stream (e :: st) items'
      | ItStr c s pn _ => EvString c s pn :: event_stream st items'
      end
  end.

(* ------------------------------------------------------------------ pieces *)

Section Render.
  Variable apply : subst -> str -> str.      (* the entity-substitution functions *)
  Variable fmt : formatter.

  (* Formatter.substitute(ns). is_navstr: ns is a NavigableString (attribute values are plain str) *)
  Definition in_cdata_parent (pname : option str) : bool :=
    match pname with Some p => memS p (f_cdata fmt) | None => false end.
  Definition substitute (is_navstr : bool) (pname : option str) (s : str) : str :=
    match f_subst fmt with
    | None => s
    | Some f => if is_navstr && in_cdata_parent pname then s else apply f s
    end.
  (* the arguments the substitution function is called with, in order *)
  Definition substitute_calls (is_navstr : bool) (pname : option str) (s : str) : list str :=
    match f_subst fmt with
    | None => []
    | Some _ => if is_navstr && in_cdata_parent pname then [] else [s]
    end.

  Definition class_row (c : N) : bool * (str * str) :=
    match assocN c c15_string_classes with Some r => r | None => (false, ([], [])) end.
  (* NavigableString.output_ready / PreformattedString.output_ready (formatter is an object here) *)
  Definition output_ready (c : N) (s : str) (pname : option str) : str :=
    let '(pre, (px, sx)) := class_row c in
    if pre then px ++ s ++ sx                       (* the formatter's return value is ignored *)
    else px ++ substitute true pname s ++ sx.
  Definition output_ready_calls (c : N) (s : str) (pname : option str) : list str :=
    substitute_calls true pname s.

  (* EntitySubstitution.quoted_attribute_value *)
  Definition quot_entity : str := [38; 113; 117; 111; 116; 59].
  Definition replace_dq (v : str) : str := flat_map (fun c => if c =? 34 then quot_entity else [c]) v.
  Definition quoted_attribute_value (v : str) : str :=
    if memN 34 v then
      if memN 39 v then 34 :: replace_dq v ++ [34]
      else 39 :: v ++ [39]
    else 34 :: v ++ [34].

  (* sep.join(l) *)
  Fixpoint join (sep : str) (l : list str) : str :=
    match l with
    | [] => []
    | [t] => t
    | t :: l' => t ++ sep ++ join sep l'
    end.

  (* str comparison: lexicographic by code point *)
  Fixpoint str_ltb (a b : str) : bool :=
    match a, b with
    | _, [] => false
    | [], _ :: _ => true
    | x :: a', y :: b' => if x <? y then true else if y <? x then false else str_ltb a' b'
    end.
  Definition str_leb (a b : str) : bool := negb (str_ltb b a).

  (* Formatter.attributes: sorted((k, None if eab and v == "" else v) for k, v in items) *)
  Definition eab_conv (v : attrval) : attrval :=
    if f_eab fmt then match v with AStr [] => ANone | _ => v end else v.
  Fixpoint insert_attr (x : attr) (l : list attr) : list attr :=
    match l with
    | [] => [x]
    | y :: l' => if str_leb (fst x) (fst y) then x :: l else y :: insert_attr x l'
    end.
  Definition sort_attrs (l : list attr) : list attr := fold_right insert_attr [] l.
  Definition attributes (ats : list attr) : list attr :=
    sort_attrs (map (fun kv => (fst kv, eab_conv (snd kv))) ats).

  (* the value handed to formatter.attribute_value *)
  Definition attr_value_text (v : attrval) : option str :=
    match v with
    | ANone => None
    | AStr s => Some s
    | AList l => Some (join [32] l)
    | AOther r => Some r
    end.
  Definition attr_text (kv : attr) : str :=
    match attr_value_text (snd kv) with
    | None => fst kv
    | Some val => fst kv ++ 61 :: quoted_attribute_value (substitute false None val)
    end.
  Definition attr_calls (kv : attr) : list str :=
    match attr_value_text (snd kv) with
    | None => []
    | Some val => substitute_calls false None val
    end.

  (* Tag._format_tag *)
  Definition qname (e : einfo) : str :=
    match ei_prefix e with
    | Some (c :: p) => (c :: p) ++ 58 :: ei_name e
    | _ => ei_name e
    end.
  Definition attribute_string (e : einfo) : str :=
    match map attr_text (attributes (ei_attrs e)) with
    | [] => []
    | l => 32 :: join [32] l
    end.
  Definition void_slash (e : einfo) : str :=
    if ei_empty e then match f_void fmt with Some v => v | None => [] end else [].
  Definition format_tag (e : einfo) (opening : bool) : str :=
    if ei_hidden e then []
    else 60 :: (if opening then [] else [47]) ++ qname e
            ++ (if opening then attribute_string e else []) ++ void_slash e ++ [62].
  Definition format_tag_calls (e : einfo) (opening : bool) : list str :=
    if ei_hidden e then []
    else if opening then flat_map attr_calls (attributes (ei_attrs e)) else [].

  Definition piece_of (ev : event) : str :=
    match ev with
    | EvStart e | EvEmpty e => format_tag e true
    | EvEnd e => format_tag e false
    | EvString c s pn => output_ready c s pn
    end.
  Definition calls_of (ev : event) : list str :=
    match ev with
    | EvStart e | EvEmpty e => format_tag_calls e true
    | EvEnd e => format_tag_calls e false
    | EvString c s pn => output_ready_calls c s pn
    end.

  (* ---------------------------------------------------------------- the decode loop *)

  (* str.strip() *)
  Definition is_ws (c : N) : bool := memN c py_whitespace.
  Fixpoint lstrip (s : str) : str :=
    match s with
    | c :: s' => if is_ws c then lstrip s' else s
    | [] => []
    end.
  Definition strip (s : str) : str := rev (lstrip (rev (lstrip s))).

  (* s * n *)
  Fixpoint rep (s : str) (n : nat) : str := match n with O => [] | S k => s ++ rep s k end.

  (* Tag._indent_string *)
  Definition indent_string (s : str) (level : Z) (ib ia : bool) : str :=
    (if ib && negb (level =? 0)%Z then rep (f_indent fmt) (Z.to_nat level) else [])
    ++ s ++ (if ia then [10] else []).

  (* Tag._should_pretty_print() with its default argument *)
  Definition should_pretty_print (e : einfo) : bool := negb (memS (ei_name e) (ei_pw e)).

  Definition is_string_event (ev : event) : bool := match ev with EvString _ _ _ => true | _ => false end.

  (* one iteration of the loop body; slt = id of string_literal_tag.
     Returns (text appended, indent_level, string_literal_tag) *)
  Definition step (lvl : option Z) (slt : option nat) (ev : event) : str * option Z * option nat :=
    let piece := piece_of ev in
    let lvl1 := match ev with EvEnd _ => option_map Z.pred lvl | _ => lvl end in
    let '(ib, ia, slt') :=
      let d := match slt with Some _ => false | None => true end in
      match ev, slt with
      | EvStart e, None => if should_pretty_print e then (d, d, slt) else (true, false, Some (ei_id e))
      | EvEnd e, Some k => if Nat.eqb (ei_id e) k then (false, true, None) else (d, d, slt)
      | _, _ => (d, d, slt)
      end in
    let piece' :=
      match lvl1 with
      | Some l =>
          if ib || ia then
            let p := if is_string_event ev then strip piece else piece in
            if is_nil p then p else indent_string p l ib ia
          else piece
      | None => piece
      end in
    let lvl2 := match ev, lvl1 with EvStart _, Some l => Some (l + 1)%Z | _, _ => lvl1 end in
    (piece', lvl2, slt').

  Fixpoint decode_loop (lvl : option Z) (slt : option nat) (evs : list event) : str :=
    match evs with
    | [] => []
    | ev :: evs' => let '(p, lvl', slt') := step lvl slt ev in p ++ decode_loop lvl' slt' evs'
    end.

  (* Tag.decode(indent_level, formatter=<this object>) / decode_contents *)
  Definition decode (lvl : option Z) (incl_self : bool) (root : node) : str :=
    decode_loop lvl None (root_events incl_self root).
  (* every string the substitution function is called with during that call, in order *)
  Definition decode_calls (incl_self : bool) (root : node) : list str :=
    flat_map calls_of (root_events incl_self root).

  (* the same two, over the event stream as the code produces it *)
  Definition decode_stream (lvl : option Z) (incl_self : bool) (root : node) : str :=
    decode_loop lvl None (event_stream [] (root_items incl_self root)).
  Definition decode_stream_calls (incl_self : bool) (root : node) : list str :=
    flat_map calls_of (event_stream [] (root_items incl_self root)).
End Render.

(* ------------------------------------------------------------------ entry points *)

(* BeautifulSoup.decode puts an XML declaration in front when the soup is_xml (default
   eventual_encoding "utf-8") *)
Definition xml_declaration : str :=
  [60; 63; 120; 109; 108; 32; 118; 101; 114; 115; 105; 111; 110; 61; 34; 49; 46; 48; 34; 32; 101; 110; 99; 111;
   100; 105; 110; 103; 61; 34; 117; 116; 102; 45; 56; 34; 63; 62; 10].

(* element.decode(indent_level, formatter=sp) where `formatter` may be an object, a name or a function;
   chain/top describe the element's flavour (see is_xml_of); soup_xml: the element is a BeautifulSoup
   object whose is_xml is true. None = KeyError *)
Definition tag_decode (apply : subst -> str -> str) (chain : list (option bool)) (top : bool) (sp : fspec)
           (lvl : option Z) (incl_self soup_xml : bool) (root : node) : option (str * list str) :=
  match formatter_for_name (is_xml_of chain top) sp with
  | None => None
  | Some f => Some ((if soup_xml then xml_declaration else []) ++ decode_stream apply f lvl incl_self root,
                    decode_stream_calls f incl_self root)
  end.

(* NavigableString.output_ready(formatter=sp) on a string of class c with the given parent name;
   sp = None models formatter=None (format_string returns the string unchanged) *)
Definition string_output_ready (apply : subst -> str -> str) (chain : list (option bool)) (top : bool)
           (sp : option fspec) (c : N) (s : str) (pname : option str) : option (str * list str) :=
  match sp with
  | None =>
      let '(pre, (px, sx)) := class_row c in Some (px ++ s ++ sx, [])
  | Some sp =>
      match formatter_for_name (is_xml_of chain top) sp with
      | None => None
      | Some f => Some (output_ready apply f c s pname, output_ready_calls f c s pname)
      end
  end.
