(* C09 — the one way html.unescape can fail: its decimal alternative calls int() on the digit string, and int()
   refuses strings of more than sys.get_int_max_str_digits() digits (4300 by default; leading zeros count) with a
   ValueError. html.parser lets it escape; bs4 (HTMLParserTreeBuilder.feed) reports it as ParserRejectedMarkup.
   The hexadecimal alternative has no such limit. [Model.EntitySubst.unescape] is total; this file says, with an
   explicit error value, when the real function does not return. *)
From Coq Require Import List NArith Bool Arith.
From BS Require Import Base.Sexp Base.Types Base.Reader Gen.T_C09 Model.EntitySubst.
Import ListNotations.
Open Scope N_scope.

(* r follows '&': the decimal alternative matches and the digit string is longer than int() accepts *)
Definition over_limit (r : str) : bool :=
  match r with
  | h :: d :: r2 =>
      (h =? c_hash) && is_digit d && Nat.ltb py_int_max_str_digits (length (fst (span is_digit (d :: r2))))
  | _ => false
  end.

(* the scanner of [unescape_go], looking only for that event *)
Fixpoint unescape_raises_go (skip : nat) (s : str) : bool :=
  match s with
  | [] => false
  | c :: s' =>
      match skip with
      | S k => unescape_raises_go k s'
      | O =>
          if c =? c_amp then
            if over_limit s' then true
            else match charref_match s' with
                 | Some (_, n) => unescape_raises_go n s'
                 | None => unescape_raises_go O s'
                 end
          else unescape_raises_go O s'
      end
  end.
Definition unescape_raises (s : str) : bool := unescape_raises_go O s.

(* html.unescape with its failure: None = ValueError *)
Definition unescape_checked (s : str) : option str :=
  if unescape_raises s then None else Some (unescape s).

(* the attribute reader with its failure *)
Inductive attr_read := AttrValue (v : str) | AttrNotQuoted | AttrRejected.   (* AttrRejected: ParserRejectedMarkup *)

Definition read_quoted_checked (q : str) : attr_read :=
  match q with
  | [] => AttrNotQuoted
  | qc :: r =>
      if (qc =? c_dq) || (qc =? c_sq) then
        let '(body, after) := span (fun c => negb (c =? qc)) r in
        match after with
        | [_] => match unescape_checked body with Some v => AttrValue v | None => AttrRejected end
        | _ => AttrNotQuoted
        end
      else AttrNotQuoted
  end.
