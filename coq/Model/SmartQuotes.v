(* C19 — UnicodeDammit._sub_ms_char, the smart-quote step of _convert_from, and detwingle,
   following bs4/dammit.py 876-967 and 1340-1408. Tables come from Gen/Tables.v (regenerated
   from /repo on every run); single-byte decoders of the carrier encodings come from
   Gen/Stdlib.v (oracle data about the interpreter). *)
From Coq Require Import List NArith Bool.
From BS Require Import Base.Sexp Base.Types Base.Reader Gen.Tables Gen.Stdlib Gen.Entities.
Import ListNotations.
Open Scope N_scope.

(* smart_quotes_to *)
Inductive sq_mode := SqNone | SqAscii | SqXml | SqHtml | SqOther.

Definition s_amp_hash_x : str := [38; 35; 120].

(* _sub_ms_char *)
Definition sub_ms_char (mode : sq_mode) (b : N) : list N :=
  match mode with
  | SqAscii =>
      match assocN b ms_chars_to_ascii with
      | Some s => s
      | None => [b]
      end
  | _ =>
      match assocN b ms_chars with
      | Some (MsPair name hex) =>
          match mode with
          | SqXml => s_amp_hash_x ++ hex ++ [c_semi]
          | _ => c_amp :: name ++ [c_semi]
          end
      | Some (MsPlain s) => s
      | None => [b]
      end
  end.

(* the regex substitution of _convert_from: every byte in [lo, hi] goes through _sub_ms_char,
   but only when a mode is set and the (already lower-cased) codec name is a carrier *)
Definition in_sq_range (b : N) : bool := (smart_quotes_lo <=? b) && (b <=? smart_quotes_hi).

Definition convert_smart_quotes (mode : sq_mode) (proposed : str) (markup : list N) : list N :=
  match mode with
  | SqNone => markup
  | _ =>
      if memS proposed encodings_with_smart_quotes
      then flat_map (fun b => if in_sq_range b then sub_ms_char mode b else [b]) markup
      else markup
  end.

(* ---- decoding a single-byte carrier encoding (oracle tables) ---- *)
Definition carrier_table (enc : str) : option (list (option N)) :=
  if str_eqb enc [119; 105; 110; 100; 111; 119; 115; 45; 49; 50; 53; 50] then Some cp1252_table
  else if str_eqb enc [105; 115; 111; 45; 56; 56; 53; 57; 45; 49] then Some latin1_table
  else if str_eqb enc [105; 115; 111; 45; 56; 56; 53; 57; 45; 50] then Some latin2_table
  else None.

Definition decode_byte (tbl : list (option N)) (b : N) : option N :=
  nth (N.to_nat b) tbl None.

Fixpoint decode_bytes (tbl : list (option N)) (bs : list N) : option str :=
  match bs with
  | [] => Some []
  | b :: bs' =>
      match decode_byte tbl b, decode_bytes tbl bs' with
      | Some c, Some r => Some (c :: r)
      | _, _ => None
      end
  end.

(* ---- the text reader instantiated with bs4's tables (handle_entityref / handle_charref) ---- *)
Definition ent_text (name : str) : option str := assocS name html_entity_to_character.

(* handle_charref with original_encoding = None: code points < 256 are reinterpreted as
   windows-1252 when that byte is defined there; out of range -> U+FFFD *)
Definition num_text (n : N) : str :=
  if n <? 256 then
    match decode_byte cp1252_table n with
    | Some c => [c]
    | None => [n]
    end
  else if n <=? 1114111 then [n] else [65533].

Definition read_text : str -> str := read ent_text num_text.

(* ---- detwingle ---- *)
Fixpoint marker_size (b : N) (ms : list (N * N * nat)) : nat :=
  match ms with
  | [] => 1%nat                    (* the for-loop found no range: pos is not advanced by it *)
  | (lo, hi, size) :: ms' => if (lo <=? b) && (b <=? hi) then size else marker_size b ms'
  end.

(* skip = number of bytes still to be copied verbatim because a multibyte marker said so.
   Python's slicing makes "pos past the end" harmless: the tail is copied as it is. *)
Fixpoint detwingle_from (skip : nat) (bs : list N) : list N :=
  match bs with
  | [] => []
  | b :: bs' =>
      match skip with
      | S k => b :: detwingle_from k bs'
      | O =>
          if (first_multibyte_marker <=? b) && (b <=? last_multibyte_marker)
          then b :: detwingle_from (pred (marker_size b multibyte_markers)) bs'
          else if (128 <=? b)
               then match assocN b windows_1252_to_utf8 with
                    | Some u => u ++ detwingle_from O bs'
                    | None => b :: detwingle_from O bs'
                    end
               else b :: detwingle_from O bs'
      end
  end.

Definition detwingle (bs : list N) : list N := detwingle_from O bs.
