(* C01 / C02 — the editing calls as one datatype of operations, the executable admissibility test
   [wf_op_b] (targets allocated and alive, tags where the code needs a tag, an element argument
   allocated, alive, and neither the destination parent nor one of its ancestors — found by chasing
   .parent with the state's fuel), and histories: apply each call when it is admissible and returns,
   leave the state unchanged otherwise.  The theorems about them are in Proofs/EditRep.v. *)
From Coq Require Import List Arith Bool.
From BS Require Import Base.Sexp Model.Heap Model.Iter Model.Edit.
Import ListNotations.

(* a is x or one of x's ancestors *)
Fixpoint is_anc_b (fuel : nat) (h : heap) (a x : nat) : bool :=
  match fuel with
  | O => false
  | S f => Nat.eqb x a || match par (h x) with Some p => is_anc_b f h a p | None => false end
  end.


Inductive op :=
| OAlloc (k : nkind) (t : str)
| OInsert (self pos : nat) (args : list arg)
| OAppend (self : nat) (a : arg)
| OExtendTag (self other : nat)
| OExtendList (self : nat) (args : list arg)
| OInsertBefore (self : nat) (args : list arg)
| OInsertAfter (self : nat) (args : list arg)
| OExtract (x : nat)
| OReplaceWith (self : nat) (args : list arg)
| OWrap (self w : nat)
| OUnwrap (self : nat)
| ODecompose (x : nat)
| OClear (self : nat) (decomp : bool)
| OSetString (self : nat) (t : str)
| OSmooth (self : nat).

Definition apply_op (s : st) (o : op) : res st :=
  match o with
  | OAlloc k t => Ok (fst (alloc s k t))
  | OInsert self pos args => op_insert s self pos args
  | OAppend self a => op_append s self a
  | OExtendTag self other => op_extend_tag s self other
  | OExtendList self args => op_extend_list s self args
  | OInsertBefore self args => op_insert_before s self args
  | OInsertAfter self args => op_insert_after s self args
  | OExtract x => op_extract s x
  | OReplaceWith self args => op_replace_with s self args
  | OWrap self w => op_wrap s self w
  | OUnwrap self => op_unwrap s self
  | ODecompose x => op_decompose s x
  | OClear self d => op_clear s self d
  | OSetString self t => op_set_string s self t
  | OSmooth self => op_smooth s self
  end.


Definition live_b (s : st) (x : nat) : bool := Nat.ltb x (nxt s) && negb (dead (hp s x)).
Definition nanc_b (s : st) (a d : nat) : bool := negb (is_anc_b (fuel_of s) (hp s) a d).
Definition arg_ok_b (s : st) (d : nat) (a : arg) : bool :=
  match a with AStr _ => true | AEl x => live_b s x && nanc_b s x d end.
Definition not_soup (k : nkind) : bool := match k with KSoup => false | _ => true end.
Definition has_par (s : st) (x : nat) : bool := match par (hp s x) with Some _ => true | None => false end.

Definition wf_op_b (s : st) (o : op) : bool :=
  match o with
  | OAlloc _ _ => true
  | OInsert self _ args | OExtendList self args =>
      live_b s self && is_tag (hp s) self && forallb (arg_ok_b s self) args
  | OAppend self a => live_b s self && is_tag (hp s) self && arg_ok_b s self a
  | OExtendTag self other =>
      live_b s self && is_tag (hp s) self && live_b s other &&
      forallb (fun c => nanc_b s c self) (kids (hp s other))
  | OInsertBefore self args | OInsertAfter self args =>
      live_b s self && has_par s self && forallb (arg_ok_b s self) args
  | OExtract x | ODecompose x | OClear x _ | OSmooth x => live_b s x
  | OReplaceWith self args =>
      live_b s self &&
      match par (hp s self) with Some p => forallb (arg_ok_b s p) args | None => false end
  | OWrap self w =>
      live_b s self && live_b s w && is_tag (hp s) w && not_soup (kind (hp s w)) && negb (Nat.eqb w self) &&
      match par (hp s self) with Some p => nanc_b s w p | None => false end
  | OUnwrap self => live_b s self && has_par s self
  | OSetString self _ => live_b s self && is_tag (hp s) self
  end.


Definition step (s : st) (o : op) : st :=
  if wf_op_b s o then match apply_op s o with Ok s' => s' | ValueError => s end else s.
Definition run_history (s : st) (ops : list op) : st := fold_left step ops s.

