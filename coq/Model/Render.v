(* C05 / C14 — rendering a tree as markup, statement by statement:
     Tag.decode (element.py 2334-2441): the for-loop over the event stream with its
         indent_level / string_literal_tag bookkeeping,
     Tag._event_stream (2456-2498): the explicit tag stack driven by parent-pointer comparison over
         the pre-order (self_and_descendants; a hidden starting element is skipped by _self_and),
     Tag._indent_string (2500-2526), Tag._format_tag (2528-2588), Tag._should_pretty_print (2590-2599),
     Tag.is_empty_element (1817-1833), NavigableString.output_ready / PreformattedString.output_ready
         (1331-1339, 1443-1456; PREFIX / SUFFIX from Gen/Tables.v), Formatter.substitute (formatter.py 138-159),
     Formatter.attributes (168-190), Formatter.__init__'s indent normalisation (125-136),
     EntitySubstitution.quoted_attribute_value and substitute_xml (dammit.py), BeautifulSoup.decode's
     XML declaration prefix (__init__.py 1104-1117).
   The entity-substitution function is a parameter ([f_subst]); only substitute_xml ('minimal') is
   given in Gallina here.  No proofs in this file. *)
From Coq Require Import List NArith ZArith Bool Arith.
From BS Require Import Base.Sexp Base.Types Gen.Tables Gen.Stdlib Gen.T_C05 Model.Attrs.
Import ListNotations.
Open Scope N_scope.

(* ---- the tree as the renderer sees it ---- *)

(* attribute values as _format_tag meets them *)
Inductive rval :=
| RNone                          (* val is None: the bare key is written *)
| RStr (s : str)
| RList (l : list str)           (* list / tuple: " ".join *)
| ROther (shown : str)           (* any other object: str(val), supplied by the caller *)
| RCharset (orig subst : str).   (* AttributeValueWithCharsetSubstitution: its text, and what
                                    substitute_encoding(eventual_encoding) returns (supplied) *)

Record tagp := mktag {
  g_name : str;
  g_prefix : option str;
  g_attrs : list (str * rval);   (* tag.attrs.items(), insertion order *)
  g_hidden : bool;
  g_can_empty : bool;            (* can_be_empty_element is True *)
  g_pw : list str                (* preserve_whitespace_tags of this tag (None = empty) *)
}.

Inductive node :=
| NTag (p : tagp) (kids : list node)
| NStr (cls : N) (s : str).      (* string classes numbered as in Gen/Tables.v *)

(* the formatter object *)
Record fmt := mkfmt {
  f_subst : option (str -> str);  (* entity_substitution; None = falsy *)
  f_void : str;                   (* void_element_close_prefix or "" *)
  f_cdata : list str;             (* cdata_containing_tags *)
  f_empty_bool : bool;            (* empty_attributes_are_booleans *)
  f_indent : str
}.

(* ---- identity: an element is named by its path from the starting element ---- *)
Definition eid := list nat.
Fixpoint eid_eqb (a b : eid) : bool :=
  match a, b with
  | [], [] => true
  | x :: a', y :: b' => Nat.eqb x y && eid_eqb a' b'
  | _, _ => false
  end.
Definition oeid_eqb (a b : option eid) : bool :=
  match a, b with
  | None, None => true
  | Some x, Some y => eid_eqb x y
  | _, _ => false
  end.

(* one element as the traversal yields it: who it is, its .parent, and what the loop reads of it *)
Inductive body :=
| BTag (p : tagp) (nkids : nat)                      (* len(contents) *)
| BStr (cls : N) (s : str) (pname : option str).     (* parent.name, None when parent is None *)
Record elem := mkel { e_id : eid; e_par : option eid; e_body : body }.

Definition output_kind (c : N) : N :=
  match assocN c string_class_output with Some k => k | None => 0 end.
Definition preformatted (c : N) : bool := negb (output_kind c =? 0).

(* self_and_descendants: the pre-order, each element with its parent pointer *)
Fixpoint flat (q : eid) (par : option eid) (pname : option str) (t : node) : list elem :=
  match t with
  | NStr c s => [mkel q par (BStr c s pname)]
  | NTag p ks =>
      mkel q par (BTag p (length ks)) ::
      (fix go (i : nat) (l : list node) : list elem :=
         match l with
         | [] => []
         | k :: l' => flat (q ++ [i]) (Some q) (Some (g_name p)) k ++ go (S i) l'
         end) 0%nat ks
  end.
(* .descendants of the element at q named pname *)
Fixpoint flat_kids (q : eid) (pname : str) (i : nat) (l : list node) : list elem :=
  match l with
  | [] => []
  | k :: l' => flat (q ++ [i]) (Some q) (Some pname) k ++ flat_kids q pname (S i) l'
  end.

(* ---- _event_stream ---- *)
Inductive evkind := KStart | KEnd | KEmpty | KString.
Record event := mkev { ev_kind : evkind; ev_el : elem }.

Definition is_empty_element (p : tagp) (nkids : nat) : bool := Nat.eqb nkids 0 && g_can_empty p.

(* while tag_stack and c.parent is not tag_stack[-1]: pop, yield END *)
Fixpoint unwind (par : option eid) (stack : list elem) : list elem * list elem :=
  match stack with
  | [] => ([], [])
  | top :: rest =>
      if oeid_eqb par (Some (e_id top)) then ([], stack)
      else let '(closed, st) := unwind par rest in (top :: closed, st)
  end.

Fixpoint event_loop (stack : list elem) (els : list elem) : list event :=
  match els with
  | [] => map (mkev KEnd) stack                      (* while tag_stack: pop, yield END *)
  | c :: rest =>
      let '(closed, stack') := unwind (e_par c) stack in
      map (mkev KEnd) closed ++
      match e_body c with
      | BTag p n =>
          if is_empty_element p n then mkev KEmpty c :: event_loop stack' rest
          else mkev KStart c :: event_loop (c :: stack') rest
      | BStr _ _ _ => mkev KString c :: event_loop stack' rest
      end
  end.
Definition event_stream (els : list elem) : list event := event_loop [] els.

(* ---- strings ---- *)
Definition lt_ : N := 60.  Definition gt_ : N := 62.  Definition amp_ : N := 38.
Definition dq_ : N := 34.  Definition sq_ : N := 39.  Definition slash_ : N := 47.
Definition eq_ : N := 61.  Definition sp_ : N := 32.  Definition colon_ : N := 58.
Definition nl_ : N := 10.  Definition semi_ : N := 59.

(* substitute_xml: every character of AMPERSAND_OR_BRACKET becomes "&" + its XML entity name + ";" *)
Definition subst_xml_char (c : N) : str :=
  if memN c ampersand_or_bracket
  then match assocN c character_to_xml_entity with
       | Some name => amp_ :: name ++ [semi_]
       | None => [c]                                   (* would be a KeyError; never with the shipped table *)
       end
  else [c].
Definition subst_xml (s : str) : str := flat_map subst_xml_char s.

(* quoted_attribute_value *)
Fixpoint replace_dq (s : str) : str :=
  match s with
  | [] => []
  | c :: s' => if c =? dq_ then [amp_; 113; 117; 111; 116; semi_] ++ replace_dq s' else c :: replace_dq s'
  end.
Definition quoted_attribute_value (v : str) : str :=
  if memN dq_ v then
    if memN sq_ v then dq_ :: replace_dq v ++ [dq_]
    else sq_ :: v ++ [sq_]
  else dq_ :: v ++ [dq_].

(* Formatter.substitute(ns): is_navstr says ns is a NavigableString (an attribute value is a plain str) *)
Definition substitute (f : fmt) (is_navstr : bool) (pname : option str) (s : str) : str :=
  match f_subst f with
  | None => s
  | Some g =>
      if is_navstr && match pname with Some n => memS n (f_cdata f) | None => false end
      then s else g s
  end.

Definition affixes (c : N) : str * str :=
  match assocN c string_class_affixes with Some a => a | None => ([], []) end.

(* output_ready: NavigableString's (through the formatter) or PreformattedString's (formatter's result ignored) *)
Definition output_ready (f : fmt) (c : N) (s : str) (pname : option str) : str :=
  let '(pre, suf) := affixes c in
  if preformatted c then pre ++ s ++ suf
  else pre ++ substitute f true pname s ++ suf.

(* ---- _format_tag ---- *)
Fixpoint str_leb (a b : str) : bool :=                 (* Python's str <= : code point by code point *)
  match a, b with
  | [], _ => true
  | _ :: _, [] => false
  | x :: a', y :: b' => if x <? y then true else if y <? x then false else str_leb a' b'
  end.
Fixpoint insert_sorted {X} (kv : str * X) (l : list (str * X)) : list (str * X) :=
  match l with
  | [] => [kv]
  | kv' :: l' => if str_leb (fst kv') (fst kv) then kv' :: insert_sorted kv l' else kv :: l
  end.
Definition sort_by_key {X} (l : list (str * X)) : list (str * X) :=
  fold_left (fun acc kv => insert_sorted kv acc) l [].

Definition val_is_empty_str (v : rval) : bool :=
  match v with RStr [] => true | RCharset [] _ => true | _ => false end.
(* Formatter.attributes *)
Definition attributes (f : fmt) (p : tagp) : list (str * rval) :=
  sort_by_key (map (fun kv => (fst kv, if f_empty_bool f && val_is_empty_str (snd kv) then RNone else snd kv))
                   (g_attrs p)).

(* the text of an attribute value before substitution; None for a bare key *)
Definition value_text (enc : bool) (v : rval) : option str :=
  match v with
  | RNone => None
  | RStr s => Some s
  | RList l => Some (join_sp l)
  | ROther s => Some s
  | RCharset orig sub => Some (if enc then sub else orig)
  end.
Definition format_attr (enc : bool) (f : fmt) (kv : str * rval) : str :=
  match value_text enc (snd kv) with
  | None => fst kv
  | Some v => fst kv ++ eq_ :: quoted_attribute_value (substitute f false None v)
  end.
Fixpoint join_with_sp (l : list str) : str :=
  match l with
  | [] => []
  | [t] => t
  | t :: l' => t ++ sp_ :: join_with_sp l'
  end.

Definition truthy (o : option str) : option str :=
  match o with Some [] => None | _ => o end.

Definition format_tag (enc : bool) (f : fmt) (p : tagp) (nkids : nat) (opening : bool) : str :=
  if g_hidden p then [] else
  let closing_slash := if opening then [] else [slash_] in
  let prefix := match truthy (g_prefix p) with Some x => x ++ [colon_] | None => [] end in
  let attribute_string :=
    if opening then
      match map (format_attr enc f) (attributes f p) with
      | [] => []
      | attrs => sp_ :: join_with_sp attrs
      end
    else [] in
  let void_slash := if is_empty_element p nkids then f_void f else [] in
  lt_ :: closing_slash ++ prefix ++ g_name p ++ attribute_string ++ void_slash ++ [gt_].

(* ---- pretty-printing helpers ---- *)
Definition should_pretty_print (p : tagp) : bool :=
  match g_pw p with [] => true | pw => negb (memS (g_name p) pw) end.

Fixpoint drop_ws (s : str) : str :=
  match s with
  | [] => []
  | c :: s' => if is_ws c then drop_ws s' else s
  end.
Definition strip (s : str) : str := rev (drop_ws (rev (drop_ws s))).   (* str.strip() *)

Fixpoint repeat_str (s : str) (n : nat) : str :=
  match n with O => [] | S n' => s ++ repeat_str s n' end.

Definition indent_string (f : fmt) (s : str) (level : Z) (before after : bool) : str :=
  let space_before := if before && negb (Z.eqb level 0) then repeat_str (f_indent f) (Z.to_nat level) else [] in
  let space_after := if after then [nl_] else [] in
  space_before ++ s ++ space_after.

(* ---- decode: the body of the for-loop as a state transformer ---- *)
Record dstate := mkds {
  d_level : option Z;            (* indent_level *)
  d_slt : option eid;            (* string_literal_tag *)
  d_out : list str               (* pieces, most recent first *)
}.

Definition is_string_body (b : body) : bool := match b with BStr _ _ _ => true | _ => false end.

Definition decode_step (enc : bool) (f : fmt) (st : dstate) (ev : event) : dstate :=
  let el := ev_el ev in
  let piece :=
    match e_body el, ev_kind ev with
    | BTag p n, KEnd => format_tag enc f p n false
    | BTag p n, _ => format_tag enc f p n true
    | BStr c s pn, _ => output_ready f c s pn
    end in
  let level := match ev_kind ev with KEnd => option_map (fun l => (l - 1)%Z) (d_level st) | _ => d_level st end in
  let in_literal := match d_slt st with Some _ => true | None => false end in
  let '(before, after, slt) :=
    match ev_kind ev, e_body el with
    | KStart, BTag p _ =>
        if negb in_literal && negb (should_pretty_print p) then (true, false, Some (e_id el))
        else (negb in_literal, negb in_literal, d_slt st)
    | KEnd, _ =>
        if oeid_eqb (d_slt st) (Some (e_id el)) then (false, true, None)
        else (negb in_literal, negb in_literal, d_slt st)
    | _, _ => (negb in_literal, negb in_literal, d_slt st)
    end in
  let piece :=
    match level with
    | None => piece
    | Some lv =>
        if before || after then
          let pc := if is_string_body (e_body el) then strip piece else piece in
          match pc with
          | [] => pc
          | _ => indent_string f pc lv before after
          end
        else piece
    end in
  let level := match ev_kind ev with KStart => option_map (fun l => (l + 1)%Z) level | _ => level end in
  mkds level slt (piece :: d_out st).

Definition decode_events (enc : bool) (f : fmt) (level : option Z) (evs : list event) : list str :=
  rev (d_out (fold_left (decode_step enc f) evs (mkds level None []))).

(* the elements decode() iterates over: self_and_descendants, a hidden self being skipped *)
Definition elements_of (t : node) : list elem :=
  match t with
  | NTag p ks => if g_hidden p then flat_kids [] (g_name p) 0 ks else flat [] None None t
  | NStr _ _ => []
  end.
Definition contents_of (t : node) : list elem :=
  match t with
  | NTag p ks => flat_kids [] (g_name p) 0 ks
  | NStr _ _ => []
  end.

(* Tag.decode(indent_level, eventual_encoding, formatter): the pieces, and the joined string *)
Definition decode_pieces (enc : bool) (f : fmt) (level : option Z) (t : node) : list str :=
  decode_events enc f level (event_stream (elements_of t)).
Definition decode (enc : bool) (f : fmt) (level : option Z) (t : node) : str :=
  concat (decode_pieces enc f level t).
(* Tag.decode_contents: iterator = self.descendants *)
Definition decode_contents (enc : bool) (f : fmt) (level : option Z) (t : node) : str :=
  concat (decode_events enc f level (event_stream (contents_of t))).
(* prettify() = decode(indent_level=0) *)
Definition prettify (enc : bool) (f : fmt) (t : node) : str := decode enc f (Some 0%Z) t.

(* BeautifulSoup.decode: the XML declaration in front of an XML document;
   declared = eventual_encoding unless it is None or a Python-specific codec name *)
Definition xml_declaration (declared : option str) : str :=
  [60; 63; 120; 109; 108; 32; 118; 101; 114; 115; 105; 111; 110; 61; 34; 49; 46; 48; 34] ++
  match declared with
  | Some e => [32; 101; 110; 99; 111; 100; 105; 110; 103; 61; 34] ++ e ++ [34]
  | None => []
  end ++ [63; 62; 10].
Definition soup_decode (is_xml : bool) (declared : option str) (contents : bool) (enc : bool) (f : fmt)
           (level : option Z) (t : node) : str :=
  (if is_xml then xml_declaration declared else []) ++
  (if contents then decode_contents enc f level t else decode enc f level t).

(* ---- Formatter.__init__: the indent argument ---- *)
Inductive indent_arg := IndNone | IndInt (z : Z) | IndStr (s : str) | IndOther.
Definition formatter_indent (a : indent_arg) : str :=
  match a with
  | IndNone => []                                  (* None -> 0 -> "" *)
  | IndInt z => repeat_str [sp_] (Z.to_nat (if (z <? 0)%Z then 0%Z else z))
  | IndStr s => s
  | IndOther => [sp_]
  end.
