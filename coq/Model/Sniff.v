(* C07 — EncodingDetector.find_declared_encoding (bs4/dammit.py) and the two regular expressions
   it searches with (module constants xml_encoding and html_meta, compiled with re.I into
   encoding_res[bytes] / encoding_res[str]):

     xml  : ^\s*<\?.*encoding=[Q](.*?)[Q].*\?>              with [Q] the class of the two quote characters
     html : <\s*meta[^>]+charset\s*=\s*[Q]?([^>]*?)[T]        with [T] the class: space / ; quote dquote >
   (the exact texts are in Gen/T_C07.v: xml_pattern_text, html_pattern_text)

   The scanners below are hand-written and compute what `pattern.search(markup, endpos=E)` captures
   in group 1, *including which of several possible matches the backtracking engine reports*:
     xml  - anchored at the start; the greedy `.*` makes the RIGHTMOST `encoding=<quote>` on the first
            line win (among those followed by a closing quote and, later on that line, `?>`); the lazy
            group stops at the first quote;
     html - the LEFTMOST `<\s*meta`; inside it the greedy `[^>]+` makes the RIGHTMOST `charset` (before
            the first `>`) win, among those whose remainder matches; `\s*` after `=` takes all
            whitespace, the optional quote is taken when present, the lazy group stops at the first of
            [T]; only if nothing at all terminates the value does the engine back off into the
            whitespace (and then captures the empty string).
   The pattern texts, the flags of the four compiled objects, both window constants and the
   interpreter's meaning of \s, `.` and of each keyword letter under re.I (bytes: ASCII; str: also
   U+0130/U+0131 for i and U+017F for s) are regenerated into Gen/T_C07.v and pinned in Props/C07.v. *)
From Coq Require Import List NArith Bool Arith.
From BS Require Import Base.Sexp Base.Types Gen.T_C07 Model.Dammit.
Import ListNotations.
Open Scope N_scope.

(* what depends on whether the pattern is a bytes or a str pattern *)
Record smode := mkmode { sm_ws : list N; sm_ci : list (N * list N) }.
Definition bytes_mode : smode := mkmode re_ws_bytes re_ci_bytes.
Definition str_mode : smode := mkmode re_ws_str re_ci_str.

Definition w_encoding_eq : str := [101;110;99;111;100;105;110;103;61].   (* encoding= *)
Definition w_meta : str := [109;101;116;97].                             (* meta *)
Definition w_charset : str := [99;104;97;114;115;101;116].               (* charset *)

Definition is_quote (c : N) : bool := (c =? 34) || (c =? 39).            (* the two quote characters *)
Definition is_term (c : N) : bool := memN c [32; 47; 59; 39; 34; 62].    (* the class [T] *)

Section Scan.
  Variable md : smode.

  Definition is_ws (c : N) : bool := memN c (sm_ws md).                   (* \s *)
  (* does character c match the pattern character p under re.I *)
  Definition ci_eq (c p : N) : bool :=
    match assocN p (sm_ci md) with
    | Some l => memN c l
    | None => c =? p
    end.

  (* the text after a case-insensitive occurrence of w at the head of s *)
  Fixpoint prefix_ci (w s : str) : option str :=
    match w, s with
    | [], _ => Some s
    | p :: w', c :: s' => if ci_eq c p then prefix_ci w' s' else None
    | _ :: _, [] => None
    end.

  Fixpoint drop_ws (s : str) : str :=
    match s with
    | c :: t => if is_ws c then drop_ws t else s
    | [] => []
    end.
  Fixpoint span_ws (s : str) : str * str :=
    match s with
    | c :: t => if is_ws c then (c :: fst (span_ws t), snd (span_ws t)) else ([], s)
    | [] => ([], [])
    end.

  (* ---------------- xml ---------------- *)
  (* `.` : everything up to the first newline *)
  Fixpoint take_line (s : str) : str :=
    match s with
    | [] => []
    | c :: t => if c =? 10 then [] else c :: take_line t
    end.
  Fixpoint has_pi_end (s : str) : bool :=                                  (* .*\?> *)
    match s with
    | a :: t => match t with
                | b :: _ => ((a =? 63) && (b =? 62)) || has_pi_end t
                | [] => false
                end
    | [] => false
    end.
  Fixpoint until_quote (s : str) : option (str * str) :=                  (* (.*?)[Q] *)
    match s with
    | [] => None
    | c :: t => if is_quote c then Some ([], t)
                else match until_quote t with
                     | Some (g, r) => Some (c :: g, r)
                     | None => None
                     end
    end.
  (* encoding=[Q](.*?)[Q].*\?> at the head of a suffix of the line *)
  Definition xml_at (suffix : str) : option str :=
    match prefix_ci w_encoding_eq suffix with
    | Some (q :: r) =>
        if is_quote q
        then match until_quote r with
             | Some (g, after) => if has_pi_end after then Some g else None
             | None => None
             end
        else None
    | _ => None
    end.
  (* the greedy .* : the rightmost suffix where f succeeds *)
  Fixpoint last_some_tails (f : str -> option str) (s : str) : option str :=
    match s with
    | [] => f []
    | _ :: t => match last_some_tails f t with
                | Some g => Some g
                | None => f s
                end
    end.
  Definition xml_scan (s : str) : option str :=
    match drop_ws s with
    | a :: b :: t => if (a =? 60) && (b =? 63) then last_some_tails xml_at (take_line t) else None
    | _ => None
    end.

  (* ---------------- html ---------------- *)
  Fixpoint until_term (s : str) : option str :=                           (* ([^>]*?)[T] *)
    match s with
    | [] => None
    | c :: t => if is_term c then Some []
                else match until_term t with Some g => Some (c :: g) | None => None end
    end.
  (* what follows `=` : \s*[Q]?([^>]*?)[T] *)
  Definition after_eq (v : str) : option str :=
    let w := fst (span_ws v) in
    let v1 := snd (span_ws v) in
    match v1 with
    | c :: v2 =>
        if is_quote c
        then match until_term v2 with Some g => Some g | None => Some [] end
        else match until_term v1 with
             | Some g => Some g
             | None => if memN 32 w then Some [] else None
             end
    | [] => if memN 32 w then Some [] else None
    end.
  (* charset\s*=... at the head *)
  Definition charset_at (u : str) : option str :=
    match prefix_ci w_charset u with
    | Some r => match drop_ws r with
                | e :: v => if e =? 61 then after_eq v else None
                | [] => None
                end
    | None => None
    end.
  (* [^>]+ then charset...: the rightmost position, at least one character in, before any `>` *)
  Fixpoint last_charset (r : str) : option str :=
    match r with
    | [] => None
    | c :: t => if c =? 62 then None
                else match last_charset t with
                     | Some g => Some g
                     | None => charset_at t
                     end
    end.
  (* <\s*meta... at the head *)
  Definition meta_at (s : str) : option str :=
    match s with
    | c :: t => if c =? 60
                then match prefix_ci w_meta (drop_ws t) with
                     | Some r => last_charset r
                     | None => None
                     end
                else None
    | [] => None
    end.
  (* search: the leftmost start *)
  Fixpoint html_scan (s : str) : option str :=
    match s with
    | [] => None
    | _ :: t => match meta_at s with
                | Some g => Some g
                | None => html_scan t
                end
    end.
End Scan.

(* ---------------- find_declared_encoding ---------------- *)
Definition xml_endpos (entire : bool) (len : N) : N := if entire then len else sniff_xml_window.
Definition html_endpos (entire : bool) (len : N) : N :=
  if entire then len
  else N.max sniff_html_window_min (len * sniff_html_window_num / sniff_html_window_den).

(* bytes.decode('ascii', 'replace') *)
Definition ascii_replace (g : str) : str := map (fun b => if b <? 128 then b else 65533) g.

Definition markup_mode (m : markup) : smode := match m with MStr _ => str_mode | MBytes _ => bytes_mode end.
Definition markup_chars (m : markup) : str := match m with MStr s => s | MBytes b => b end.

Section Find.
  Variable lower : str -> str.                                            (* str.lower *)

  (* the two searches, then `if not match and is_html` *)
  Definition sniff_match (m : markup) (is_html entire : bool) : option str :=
    let md := markup_mode m in
    let s := markup_chars m in
    let len := N.of_nat (length s) in
    match xml_scan md (firstn (N.to_nat (xml_endpos entire len)) s) with
    | Some g => Some g
    | None => if is_html then html_scan md (firstn (N.to_nat (html_endpos entire len)) s) else None
    end.

  (* group 1; empty is falsy; a bytes group is decoded; lower() *)
  Definition find_declared_encoding (m : markup) (is_html entire : bool) : option str :=
    match sniff_match m is_html entire with
    | Some g =>
        if is_empty g then None
        else Some (lower (match m with MBytes _ => ascii_replace g | MStr _ => g end))
    | None => None
    end.

  (* what EncodingDetector.encodings / declared_html_encoding call *)
  Definition sniff_model (m : markup) (is_html : bool) : option str := find_declared_encoding m is_html false.
End Find.
