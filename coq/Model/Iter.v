(* C01 — the traversal generators of bs4/element.py (next_elements 1152, next_siblings 1166,
   previous_elements 1182, previous_siblings 1200, parents 1219, Tag.descendants 2774): each
   chases one pointer until it is None (descendants: until the element after the last
   descendant).  Generators are lists; fuel bounds the number of steps and its sufficiency is
   part of the theorems. *)
From Coq Require Import List Arith Bool.
From BS Require Import Base.Sexp Model.Heap.
Import ListNotations.

(* i = start; while i is not None: yield i; i = next(i) *)
Fixpoint chase (next : nat -> option nat) (fuel : nat) (i : option nat) : list nat :=
  match fuel, i with
  | S f, Some x => x :: chase next f (next x)
  | _, _ => []
  end.

Definition next_elements (fuel : nat) (h : heap) (x : nat) : list nat :=
  chase (fun y => ne (h y)) fuel (ne (h x)).
Definition previous_elements (fuel : nat) (h : heap) (x : nat) : list nat :=
  chase (fun y => pe (h y)) fuel (pe (h x)).
Definition next_siblings (fuel : nat) (h : heap) (x : nat) : list nat :=
  chase (fun y => ns (h y)) fuel (ns (h x)).
Definition previous_siblings (fuel : nat) (h : heap) (x : nat) : list nat :=
  chase (fun y => ps (h y)) fuel (ps (h x)).
Definition parents (fuel : nat) (h : heap) (x : nat) : list nat :=
  chase (fun y => par (h y)) fuel (par (h x)).

(* while current is not stopNode and current is not None *)
Fixpoint chase_until (next : nat -> option nat) (stop : option nat) (fuel : nat) (i : option nat) : list nat :=
  match fuel, i with
  | S f, Some x => if oeqb (Some x) stop then [] else x :: chase_until next stop f (next x)
  | _, _ => []
  end.

Definition descendants (fuel : nat) (h : heap) (x : nat) : list nat :=
  match kids (h x) with
  | [] => []
  | first :: _ =>
      let last := match last_descendant fuel h x true true with Some l => l | None => x end in
      chase_until (fun y => ne (h y)) (ne (h last)) fuel (Some first)
  end.
