(* C15 — types shared by the generated tables (Gen/T_C15.v) and the formatter model
   (Model/Formatter.v). Types only. *)
From Coq Require Import List NArith ZArith.
From BS Require Import Base.Sexp.
Import ListNotations.

(* Which function object sits in Formatter.entity_substitution. The three library functions are
   told apart by identity; anything else is a user function, numbered by the harness. What a
   function *computes* is never assumed: the renderer takes it as a parameter. *)
Inductive subst := SubXml | SubHtml | SubHtml5 | SubCustom (n : N).

(* the `indent` constructor argument as Python sees it: None, an int (bool included: True is 1),
   a str, or any other object *)
Inductive pyindent := INone | IInt (z : Z) | IStr (s : str) | IOther.

(* the attributes of a constructed Formatter object *)
Record formatter := mkfmt {
  f_language : str;
  f_subst : option subst;              (* None: no substitution *)
  f_void : option str;                 (* void_element_close_prefix (None is possible) *)
  f_cdata : list str;                  (* cdata_containing_tags *)
  f_eab : bool;                        (* empty_attributes_are_booleans *)
  f_indent : str                       (* the normalised indent string *)
}.

(* default values of the keyword arguments of an __init__ (read from its signature) *)
Record ctor_defaults := mkdef {
  d_language : option str;
  d_subst : option subst;
  d_void : option str;
  d_cdata : option (list str);
  d_eab : bool;
  d_indent : pyindent
}.

(* one alternative of the entity regex: a literal, optionally followed by (?![...]) *)
Record particle := mkp { p_lit : str; p_not : list N }.
