(* C09 — EntitySubstitution (bs4/dammit.py 271-479) and Formatter.substitute / attribute_value
   (bs4/formatter.py 138-168), plus the two readers the property speaks about:
     - element text is read back by html.parser's reference tokenisation + bs4's handle_entityref /
       handle_charref: that is Base.Reader instantiated in Model.SmartQuotes ([read_text]);
     - a quoted attribute value is delimited by its quote character and read back by html.unescape
       ([unescape], [read_quoted] below; its tables are interpreter oracle data in Gen/T_C09.v).
   Tables (dictionaries, regex particles, pattern texts, formatter registries) are regenerated from the
   code by translator/gen_c09.py on every run.

   Regular-expression substitutions are modelled by scanners: [re.sub] walks the string from the left,
   at each position takes the first alternative that matches, emits the replacement, and resumes after
   the match ("skip" counts the characters of the match still to be passed over). *)
From Coq Require Import List NArith Bool Arith.
From BS Require Import Base.Sexp Base.Types Base.Reader Gen.Entities Gen.T_C09 Model.SmartQuotes.
Import ListNotations.
Open Scope N_scope.

Definition s_amp_ent : str := [38; 97; 109; 112; 59].        (* "&amp;" *)
Definition s_quot_ent : str := [38; 113; 117; 111; 116; 59]. (* "&quot;" *)

(* ------------------------------------------------------------------------------------------ *)
(* substitute_xml: AMPERSAND_OR_BRACKET.sub(_substitute_xml_entity, value).
   _substitute_xml_entity indexes CHARACTER_TO_XML_ENTITY with the matched character: a missing key is
   a KeyError (None). *)
Definition xml_entity_repl (c : N) : option str :=
  match assocS [c] character_to_xml_entity with
  | Some name => Some (c_amp :: name ++ [c_semi])
  | None => None
  end.

Fixpoint substitute_xml_chars (s : str) : option str :=
  match s with
  | [] => Some []
  | c :: s' =>
      if memN c ampersand_or_bracket_chars then
        match xml_entity_repl c, substitute_xml_chars s' with
        | Some r, Some o => Some (r ++ o)
        | _, _ => None
        end
      else
        match substitute_xml_chars s' with
        | Some o => Some (c :: o)
        | None => None
        end
  end.

(* quoted_attribute_value *)
Definition replace_dq (v : str) : str :=
  flat_map (fun c => if c =? c_dq then s_quot_ent else [c]) v.

Definition quoted_attribute_value (v : str) : str :=
  if memN c_dq v then
    if memN c_sq v then c_dq :: replace_dq v ++ [c_dq]
    else c_sq :: v ++ [c_sq]
  else c_dq :: v ++ [c_dq].

Definition substitute_xml (value : str) (make_quoted_attribute : bool) : option str :=
  match substitute_xml_chars value with
  | Some o => Some (if make_quoted_attribute then quoted_attribute_value o else o)
  | None => None
  end.

(* ------------------------------------------------------------------------------------------ *)
(* the big alternation: a particle is a character sequence plus the set its look-ahead excludes *)
Definition particle := (str * list N)%type.

(* s = p ++ rest  ->  Some rest *)
Fixpoint prefix_rest (p s : str) : option str :=
  match p, s with
  | [], _ => Some s
  | a :: p', b :: s' => if a =? b then prefix_rest p' s' else None
  | _ :: _, [] => None
  end.

Definition p_matches (p : particle) (s : str) : bool :=
  match prefix_rest (fst p) s with
  | Some (d :: _) => negb (memN d (snd p))
  | Some [] => true
  | None => false
  end.

(* the first alternative, in the order of the pattern, that matches at the head of s *)
Definition find_particle (ps : list particle) (s : str) : option particle :=
  find (fun p => p_matches p s) ps.

(* _substitute_html_entity *)
Definition html_entity_repl (matched : str) : str :=
  match assocS matched character_to_html_entity with
  | Some name => c_amp :: name ++ [c_semi]
  | None => s_amp_ent ++ matched ++ [c_semi]
  end.

Fixpoint sub_particles (ps : list particle) (skip : nat) (s : str) : str :=
  match s with
  | [] => []
  | c :: s' =>
      match skip with
      | S k => sub_particles ps k s'
      | O =>
          match find_particle ps (c :: s') with
          | Some p => html_entity_repl (fst p) ++ sub_particles ps (pred (length (fst p))) s'
          | None => c :: sub_particles ps O s'
          end
      end
  end.

(* substitute_html *)
Definition substitute_html (s : str) : str := sub_particles html_particles_amp O s.

(* ------------------------------------------------------------------------------------------ *)
(* ANY_ENTITY_RE = re.compile("&(#\d+|#x[0-9a-fA-F]+|\w+);", re.I) on str: \d and \w are the
   interpreter's Unicode classes (oracle ranges); re.I makes "#x" also match "#X". *)
Fixpoint in_ranges (c : N) (rs : list (N * N)) : bool :=
  match rs with
  | [] => false
  | (lo, hi) :: rs' => if c <? lo then false else if c <=? hi then true else in_ranges c rs'
  end.
Definition is_w (c : N) : bool := in_ranges c py_word_ranges.
Definition is_ud (c : N) : bool := in_ranges c py_digit_ranges.

Fixpoint span (p : N -> bool) (s : str) : str * str :=
  match s with
  | [] => ([], [])
  | c :: s' => if p c then let '(a, b) := span p s' in (c :: a, b) else ([], s)
  end.

Definition starts_semi (s : str) : bool :=
  match s with c :: _ => c =? c_semi | [] => false end.

(* r is what follows '&'. Some n: the pattern matches, group(1) plus the ';' are the first n characters of r.
   Each quantified run is greedy and what must follow it (';') is outside the run's class, so the maximal
   run decides. *)
Definition any_entity_match (r : str) : option nat :=
  let alt1 :=                                   (* #\d+ *)
    match r with
    | h :: r1 =>
        if h =? c_hash then
          let '(ds, rest) := span is_ud r1 in
          if negb (Nat.eqb (length ds) 0) && starts_semi rest then Some (S (S (length ds))) else None
        else None
    | [] => None
    end in
  let alt2 :=                                   (* #x[0-9a-fA-F]+ , case-insensitive *)
    match r with
    | h :: x :: r2 =>
        if (h =? c_hash) && ((x =? c_x) || (x =? c_X)) then
          let '(hs, rest) := span is_hexd r2 in
          if negb (Nat.eqb (length hs) 0) && starts_semi rest then Some (S (S (S (length hs)))) else None
        else None
    | _ => None
    end in
  let alt3 :=                                   (* \w+ *)
    let '(ws, rest) := span is_w r in
    if negb (Nat.eqb (length ws) 0) && starts_semi rest then Some (S (length ws)) else None in
  match alt1 with
  | Some n => Some n
  | None => match alt2 with Some n => Some n | None => alt3 end
  end.

(* ANY_ENTITY_RE.sub(_escape_entity_name, s): "&amp;%s;" % group(1) *)
Fixpoint escape_any_entity_go (skip : nat) (s : str) : str :=
  match s with
  | [] => []
  | c :: s' =>
      match skip with
      | S k => c :: escape_any_entity_go k s'
      | O =>
          if c =? c_amp then
            match any_entity_match s' with
            | Some n => s_amp_ent ++ escape_any_entity_go n s'
            | None => c :: escape_any_entity_go O s'
            end
          else c :: escape_any_entity_go O s'
      end
  end.
Definition escape_any_entity (s : str) : str := escape_any_entity_go O s.

(* substitute_html5 *)
Definition substitute_html5 (s : str) : str :=
  sub_particles html_particles O (escape_any_entity s).

(* ------------------------------------------------------------------------------------------ *)
(* Formatter.substitute / attribute_value; the attribute text of Tag._format_tag *)
Inductive esub := EsNone | EsXml | EsHtml | EsHtml5.

Definition esub_of_id (n : N) : option esub :=
  match n with 0 => Some EsNone | 1 => Some EsXml | 2 => Some EsHtml | 3 => Some EsHtml5 | _ => None end.

Definition apply_esub (f : esub) (s : str) : option str :=
  match f with
  | EsNone => Some s
  | EsXml => substitute_xml s false
  | EsHtml => Some (substitute_html s)
  | EsHtml5 => Some (substitute_html5 s)
  end.

(* in_cdata: ns is a NavigableString whose parent's name is in cdata_containing_tags *)
Definition formatter_substitute (f : esub) (in_cdata : bool) (ns : str) : option str :=
  match f with
  | EsNone => Some ns
  | _ => if in_cdata then Some ns else apply_esub f ns
  end.

(* an attribute value is a plain str: the CDATA test does not apply *)
Definition formatter_attribute_value (f : esub) (value : str) : option str :=
  formatter_substitute f false value.

(* key + "=" + formatter.quoted_attribute_value(formatter.attribute_value(val)) : the part after "=" *)
Definition render_attribute_value (f : esub) (value : str) : option str :=
  match formatter_attribute_value f value with
  | Some t => Some (quoted_attribute_value t)
  | None => None
  end.

Fixpoint assoc_opt (k : option str) (l : list (option str * N)) : option N :=
  match l with
  | [] => None
  | (k', v) :: l' =>
      if match k, k' with
         | None, None => true
         | Some a, Some b => str_eqb a b
         | _, _ => false
         end then Some v else assoc_opt k l'
  end.

(* the substitution a registered formatter name stands for *)
Definition registry_esub (xml : bool) (name : option str) : option esub :=
  match assoc_opt name (if xml then xml_formatter_registry else html_formatter_registry) with
  | Some n => esub_of_id n
  | None => None
  end.

(* ------------------------------------------------------------------------------------------ *)
(* html.unescape (Lib/html/__init__.py): how html.parser reads an attribute value.
   _charref = &(#[0-9]+;?|#[xX][0-9a-fA-F]+;?|[^\t\n\f <&#;]{1,32};?)
   Decimal references of more than 4300 digits make CPython's int() raise; that limit is not modelled
   (no substitution ever produces a numeric reference). *)
Definition html5_lookup (k : str) : option str := assocS k py_html5.

Definition un_name_char (c : N) : bool := negb (memN c [9; 10; 12; 32; 60; 38; 35; 59]).

Fixpoint take_max (p : N -> bool) (max : nat) (s : str) : str * str :=
  match max, s with
  | S m, c :: s' => if p c then let '(a, b) := take_max p m s' in (c :: a, b) else ([], s)
  | _, _ => ([], s)
  end.

(* for x in range(len(s)-1, 1, -1): if s[:x] in html5: return html5[s[:x]] + s[x:] *)
Fixpoint longest_prefix (x : nat) (s : str) : option str :=
  match x with
  | O => None
  | S x' =>
      if Nat.leb 2 x then
        match html5_lookup (firstn x s) with
        | Some v => Some (v ++ skipn x s)
        | None => longest_prefix x' s
        end
      else None
  end.

Definition replace_named (s : str) : str :=
  match html5_lookup s with
  | Some v => v
  | None =>
      match longest_prefix (pred (length s)) s with
      | Some r => r
      | None => c_amp :: s
      end
  end.

Definition replace_numeric (num : N) : str :=
  match assocN num py_invalid_charrefs with
  | Some r => r
  | None =>
      if ((55296 <=? num) && (num <=? 57343)) || (1114111 <? num) then [65533]
      else if memN num py_invalid_codepoints then []
      else [num]
  end.

(* r is what follows '&'. Some (replacement, n): the pattern matches the first n characters of r *)
Definition charref_match (r : str) : option (str * nat) :=
  match r with
  | [] => None
  | h :: r1 =>
      if h =? c_hash then
        match r1 with
        | [] => None
        | d :: r2 =>
            if is_digit d then
              let '(ds, rest) := span is_digit r1 in
              Some (replace_numeric (num_of 10 ds),
                    (1 + length ds + (if starts_semi rest then 1 else 0))%nat)
            else if (d =? c_x) || (d =? c_X) then
              let '(hs, rest) := span is_hexd r2 in
              match hs with
              | [] => None
              | _ => Some (replace_numeric (num_of 16 hs),
                           (2 + length hs + (if starts_semi rest then 1 else 0))%nat)
              end
            else None
        end
      else
        let '(run, rest) := take_max un_name_char 32 r in
        match run with
        | [] => None
        | _ =>
            let s := if starts_semi rest then run ++ [c_semi] else run in
            Some (replace_named s, length s)
        end
  end.

Fixpoint unescape_go (skip : nat) (s : str) : str :=
  match s with
  | [] => []
  | c :: s' =>
      match skip with
      | S k => unescape_go k s'
      | O =>
          if c =? c_amp then
            match charref_match s' with
            | Some (rep, n) => rep ++ unescape_go n s'
            | None => c :: unescape_go O s'
            end
          else c :: unescape_go O s'
      end
  end.
Definition unescape (s : str) : str := unescape_go O s.

(* a quoted attribute value as the tokenizer delimits it (quote, anything but that quote, quote): the opening quote, everything
   up to the next occurrence of the same quote, and nothing after it; then html.unescape *)
Definition read_quoted (q : str) : option str :=
  match q with
  | [] => None
  | qc :: r =>
      if (qc =? c_dq) || (qc =? c_sq) then
        let '(body, after) := span (fun c => negb (c =? qc)) r in
        match after with
        | [_] => Some (unescape body)
        | _ => None
        end
      else None
  end.
