(* C07 — proofs about the scanners of Model/Sniff.v against the shapes of Spec/SniffSpec.v. *)
From Coq Require Import List NArith Bool Arith Lia.
From BS Require Import Base.Sexp Base.Types Gen.T_C07 Model.Dammit Model.Sniff Spec.DammitSpec Spec.SniffSpec
                       Proofs.DammitProofs.
Import ListNotations.
Open Scope N_scope.

(* ------------------------------------------------------------------ what the proofs need of a mode *)
Definition mode_ok (md : smode) : bool :=
  negb (is_ws md 60) && negb (is_ws md 61) &&
  match assocN 109 (sm_ci md) with
  | Some l => forallb (fun c => negb (is_ws md c)) l
  | None => false
  end &&
  forallb (fun c => negb (is_ws md c)) [47; 59; 39; 34; 62].

(* every keyword letter matches itself and its ASCII capital *)
Definition ci_ascii_ok (md : smode) (w : str) : bool :=
  forallb (fun p => ci_eq md p p && (if is_lower_letter p then ci_eq md (p - 32) p else true)) w.

Lemma memN_In x l : memN x l = true <-> In x l.
Proof.
  unfold memN. rewrite existsb_exists. split.
  - intros [y [H E]]. apply N.eqb_eq in E. now subst.
  - intros H. exists x. split; [assumption | apply N.eqb_refl].
Qed.

Section ScanProofs.
  Variable md : smode.
  Hypothesis OK : mode_ok md = true.

  Notation is_ws := (is_ws md).
  Notation ci_eq := (ci_eq md).
  Notation ws_all := (ws_all md).
  Notation ci_word := (ci_word md).

  Lemma ok_lt : is_ws 60 = false.
  Proof. pose proof OK as K. unfold mode_ok in K. repeat (apply andb_prop in K; destruct K as [K ?]).
         apply negb_true_iff. assumption. Qed.
  Lemma ok_eq : is_ws 61 = false.
  Proof. pose proof OK as K. unfold mode_ok in K. repeat (apply andb_prop in K; destruct K as [K ?]).
         apply negb_true_iff. assumption. Qed.
  Lemma ok_m c : ci_eq c 109 = true -> is_ws c = false.
  Proof.
    pose proof OK as K. unfold mode_ok in K. repeat (apply andb_prop in K; destruct K as [K ?]).
    unfold Sniff.ci_eq. destruct (assocN 109 (sm_ci md)) as [l|]; [|discriminate].
    intros Hc. apply memN_In in Hc.
    match goal with H : forallb _ l = true |- _ => rewrite forallb_forall in H; specialize (H c Hc) end.
    apply negb_true_iff. assumption.
  Qed.
  Lemma ok_term c : is_term c = true -> is_ws c = true -> c = 32.
  Proof.
    pose proof OK as K. unfold mode_ok in K. repeat (apply andb_prop in K; destruct K as [K ?]).
    match goal with H : forallb _ [47; 59; 39; 34; 62] = true |- _ => rewrite forallb_forall in H; rename H into F end.
    unfold is_term. intros Ht Hw. apply memN_In in Ht. cbn in Ht.
    destruct Ht as [<- | Ht]; [reflexivity|].
    assert (In c [47; 59; 39; 34; 62]) as Hin by (cbn; tauto).
    apply F in Hin. rewrite Hw in Hin. discriminate.
  Qed.
  Lemma ok_quote c : is_quote c = true -> is_ws c = false.
  Proof.
    pose proof OK as K. unfold mode_ok in K. repeat (apply andb_prop in K; destruct K as [K ?]).
    match goal with H : forallb _ [47; 59; 39; 34; 62] = true |- _ => rewrite forallb_forall in H; rename H into F end.
    unfold is_quote. intros Hq. apply orb_prop in Hq.
    assert (In c [47; 59; 39; 34; 62]) as Hin.
    { destruct Hq as [E | E]; apply N.eqb_eq in E; subst; cbn; tauto. }
    apply F in Hin. apply negb_true_iff. assumption.
  Qed.
  Lemma quote_is_term c : is_quote c = true -> is_term c = true.
  Proof.
    unfold is_quote, is_term. intros Hq. apply orb_prop in Hq.
    destruct Hq as [E | E]; apply N.eqb_eq in E; subst; reflexivity.
  Qed.

  (* ---------------- prefix_ci ---------------- *)
  Lemma prefix_ci_some w : forall s r,
    prefix_ci md w s = Some r -> exists key, s = key ++ r /\ ci_word key w.
  Proof.
    induction w as [|p w IH]; intros s r; cbn.
    - intros H. inversion H; subst. exists []. split; [reflexivity | constructor].
    - destruct s as [|c s]; [discriminate|].
      destruct (ci_eq c p) eqn:E; [|discriminate].
      intros H. apply IH in H. destruct H as [key [-> Hk]].
      exists (c :: key). split; [reflexivity | constructor; assumption].
  Qed.

  Lemma prefix_ci_app key w r : ci_word key w -> prefix_ci md w (key ++ r) = Some r.
  Proof.
    intros H. induction H as [|c p key w Hc Hk IH]; cbn; [reflexivity|].
    rewrite Hc. exact IH.
  Qed.

  (* ---------------- whitespace ---------------- *)
  Lemma drop_ws_app w c t : ws_all w -> is_ws c = false -> drop_ws md (w ++ c :: t) = c :: t.
  Proof.
    intros Hw Hc. induction Hw as [|x w Hx Hw IH]; cbn.
    - rewrite Hc. reflexivity.
    - rewrite Hx. exact IH.
  Qed.

  Lemma drop_ws_spec s : exists w, s = w ++ drop_ws md s /\ ws_all w.
  Proof.
    induction s as [|c s IH]; cbn.
    - exists []. split; [reflexivity | constructor].
    - destruct (is_ws c) eqn:E.
      + destruct IH as [w [Hs Hw]]. exists (c :: w). split; [cbn; congruence | constructor; assumption].
      + exists []. split; [reflexivity | constructor].
  Qed.

  Lemma span_ws_spec v :
    v = fst (span_ws md v) ++ snd (span_ws md v) /\ ws_all (fst (span_ws md v)) /\
    (snd (span_ws md v) = [] \/ exists c t, snd (span_ws md v) = c :: t /\ is_ws c = false).
  Proof.
    induction v as [|c v IH]; cbn.
    - repeat split; [constructor | left; reflexivity].
    - destruct (is_ws c) eqn:E; cbn.
      + destruct IH as [H1 [H2 H3]]. repeat split; [congruence | constructor; assumption | assumption].
      + repeat split; [constructor | right; exists c, v; tauto].
  Qed.

  Lemma span_ws_app w c t : ws_all w -> is_ws c = false -> span_ws md (w ++ c :: t) = (w, c :: t).
  Proof.
    intros Hw Hc. induction Hw as [|x w Hx Hw IH]; cbn.
    - rewrite Hc. reflexivity.
    - rewrite Hx, IH. reflexivity.
  Qed.

  Lemma span_ws_all w : ws_all w -> span_ws md w = (w, []).
  Proof. intros Hw. induction Hw as [|x w Hx Hw IH]; cbn; [reflexivity|]. rewrite Hx, IH. reflexivity. Qed.

  (* ---------------- pieces of the xml scanner ---------------- *)
  Lemma until_quote_some s g r :
    until_quote s = Some (g, r) ->
    exists q, s = g ++ q :: r /\ is_quote q = true /\ Forall (fun c => is_quote c = false) g.
  Proof.
    revert g r. induction s as [|c s IH]; intros g r; cbn; [discriminate|].
    destruct (is_quote c) eqn:E.
    - intros H. inversion H; subst. exists c. repeat split; [assumption | constructor].
    - destruct (until_quote s) as [[g' r']|]; [|discriminate].
      intros H. inversion H; subst. destruct (IH g' r eq_refl) as [q [Hs [Hq Hg]]].
      exists q. repeat split; [cbn; congruence | assumption | constructor; assumption].
  Qed.

  Lemma until_quote_app g q r :
    Forall (fun c => is_quote c = false) g -> is_quote q = true -> until_quote (g ++ q :: r) = Some (g, r).
  Proof.
    intros Hg Hq. induction Hg as [|c g Hc Hg IH]; cbn.
    - rewrite Hq. reflexivity.
    - rewrite Hc, IH. reflexivity.
  Qed.

  Lemma has_pi_end_true s : has_pi_end s = true -> exists a b, s = a ++ 63 :: 62 :: b.
  Proof.
    induction s as [|x s IH]; cbn; [discriminate|].
    destruct s as [|y s']; [discriminate|].
    intros H. apply orb_prop in H. destruct H as [H | H].
    - apply andb_prop in H. destruct H as [H1 H2]. apply N.eqb_eq in H1, H2. subst. exists [], s'. reflexivity.
    - destruct (IH H) as [a [b E]]. exists (x :: a), b. cbn. rewrite E. reflexivity.
  Qed.

  Lemma has_pi_end_app a b : has_pi_end (a ++ 63 :: 62 :: b) = true.
  Proof.
    induction a as [|x a IH].
    - reflexivity.
    - cbn [app]. remember (a ++ 63 :: 62 :: b) as t eqn:Et.
      destruct t as [|y t']; [destruct a; discriminate|].
      cbn. cbn in IH. rewrite IH. apply orb_true_r.
  Qed.

  Lemma take_line_spec s :
    Forall (fun c => c <> 10) (take_line s) /\ exists rest, s = take_line s ++ rest.
  Proof.
    induction s as [|c s IH]; cbn.
    - split; [constructor | exists []; reflexivity].
    - destruct (N.eqb_spec c 10).
      + split; [constructor | exists (c :: s); reflexivity].
      + destruct IH as [H1 [rest H2]]. split; [constructor; assumption | exists rest; cbn; congruence].
  Qed.

  Lemma take_line_app l r : Forall (fun c => c <> 10) l -> take_line (l ++ r) = l ++ take_line r.
  Proof.
    intros H. induction H as [|c l Hc Hl IH]; cbn; [reflexivity|].
    destruct (N.eqb_spec c 10); [contradiction|]. rewrite IH. reflexivity.
  Qed.

  (* the rightmost suffix on which f succeeds *)
  Lemma last_some_tails_some f s g :
    last_some_tails f s = Some g ->
    exists a b, s = a ++ b /\ f b = Some g /\
                forall b1 b2, b = b1 ++ b2 -> b1 <> [] -> f b2 = None.
  Proof.
    revert g. induction s as [|c s IH]; intros g; cbn.
    - intros H. exists [], []. repeat split; [assumption|].
      intros b1 b2 E Hne. destruct b1; [contradiction | discriminate].
    - destruct (last_some_tails f s) as [g'|] eqn:E.
      + intros H. inversion H; subst. destruct (IH g eq_refl) as [a [b [Hs [Hf Hr]]]].
        exists (c :: a), b. repeat split; [cbn; congruence | assumption | assumption].
      + intros H. exists [], (c :: s). repeat split; [assumption|].
        intros b1 b2 Eb Hne. destruct b1 as [|x b1]; [contradiction|]. cbn in Eb. inversion Eb; subst.
        clear - E. revert b2 E. induction b1 as [|y b1 IH2]; intros b2 E; cbn in E.
        * destruct b2; cbn in E; [assumption|]. destruct (last_some_tails f b2); [discriminate | assumption].
        * destruct (last_some_tails f (b1 ++ b2)) eqn:E2; [discriminate|]. apply IH2. assumption.
  Qed.

  Lemma last_some_tails_none f s : last_some_tails f s = None -> forall a b, s = a ++ b -> f b = None.
  Proof.
    induction s as [|c s IH]; cbn.
    - intros H a b E. destruct a; destruct b; try discriminate. assumption.
    - destruct (last_some_tails f s) eqn:E; [discriminate|].
      intros H a b Eab. destruct a as [|x a]; cbn in Eab.
      + subst. assumption.
      + inversion Eab; subst. eapply IH; reflexivity.
  Qed.

  Lemma last_some_tails_found f a b g :
    f b = Some g -> (forall b1 b2, b = b1 ++ b2 -> b1 <> [] -> f b2 = None) ->
    last_some_tails f (a ++ b) = Some g.
  Proof.
    intros Hf Hr.
    assert (Hb : last_some_tails f b = Some g).
    { destruct b as [|c b]; cbn; [assumption|].
      destruct (last_some_tails f b) as [g'|] eqn:E; [|assumption].
      exfalso. apply last_some_tails_some in E. destruct E as [a' [b' [E1 [E2 _]]]].
      rewrite (Hr (c :: a') b') in E2; [discriminate | cbn; congruence | discriminate]. }
    induction a as [|x a IH]; cbn; [assumption|]. rewrite IH. reflexivity.
  Qed.

  Lemma last_some_tails_exists f a b : f b <> None -> last_some_tails f (a ++ b) <> None.
  Proof.
    intros Hf H. apply Hf. apply (last_some_tails_none f _ H a b). reflexivity.
  Qed.

  Lemma xml_at_some b g :
    xml_at md b = Some g ->
    exists key q1 q2 mid c, b = key ++ q1 :: g ++ q2 :: mid ++ 63 :: 62 :: c /\ ci_word key w_encoding_eq /\
      is_quote q1 = true /\ is_quote q2 = true /\ Forall (fun x => is_quote x = false) g.
  Proof.
    unfold xml_at. destruct (prefix_ci md w_encoding_eq b) as [[|q r]|] eqn:P; try discriminate.
    destruct (is_quote q) eqn:Q; [|discriminate].
    destruct (until_quote r) as [[g' after]|] eqn:U; [|discriminate].
    destruct (has_pi_end after) eqn:Hp; [|discriminate].
    intros H. inversion H; subst.
    apply prefix_ci_some in P. destruct P as [key [-> Hk]].
    apply until_quote_some in U. destruct U as [q2 [-> [Hq2 Hg]]].
    apply has_pi_end_true in Hp. destruct Hp as [mid [c ->]].
    exists key, q, q2, mid, c. tauto.
  Qed.

  Lemma xml_at_canonical key q1 g q2 mid c :
    ci_word key w_encoding_eq -> is_quote q1 = true -> is_quote q2 = true ->
    Forall (fun x => is_quote x = false) g ->
    xml_at md (key ++ q1 :: g ++ q2 :: mid ++ 63 :: 62 :: c) = Some g.
  Proof.
    intros Hk H1 H2 Hg. unfold xml_at. rewrite (prefix_ci_app _ _ _ Hk). rewrite H1.
    rewrite (until_quote_app _ _ _ Hg H2). rewrite has_pi_end_app. reflexivity.
  Qed.

  (* ---------------- xml: scanner against shape ---------------- *)
  Theorem xml_scan_sound s g : xml_scan md s = Some g -> xml_shape md s g.
  Proof.
    unfold xml_scan. destruct (drop_ws_spec s) as [lead [Hs Hl]].
    destruct (drop_ws md s) as [|a [|b t]] eqn:D; try discriminate.
    destruct ((a =? 60) && (b =? 63)) eqn:E; [|discriminate].
    apply andb_prop in E. destruct E as [Ea Eb]. apply N.eqb_eq in Ea, Eb. subst a b.
    intros H. apply last_some_tails_some in H. destruct H as [pre [bb [Hline [Hat _]]]].
    apply xml_at_some in Hat. destruct Hat as [key [q1 [q2 [mid [c [-> [Hk [Hq1 [Hq2 Hg]]]]]]]]].
    destruct (take_line_spec t) as [Hnl [rest Ht]].
    rewrite Hs, Ht, Hline.
    replace ((pre ++ key ++ q1 :: g ++ q2 :: mid ++ 63 :: 62 :: c) ++ rest)
      with (pre ++ key ++ q1 :: g ++ q2 :: mid ++ 63 :: 62 :: (c ++ rest))
      by (repeat (rewrite <- app_assoc; cbn); reflexivity).
    constructor; try assumption.
    rewrite Hline in Hnl.
    replace (pre ++ key ++ q1 :: g ++ q2 :: mid ++ 63 :: 62 :: c)
      with ((pre ++ key ++ q1 :: g ++ q2 :: mid) ++ 63 :: 62 :: c) in Hnl
      by (repeat (rewrite <- app_assoc; cbn); reflexivity).
    apply Forall_app in Hnl. tauto.
  Qed.

  Lemma xml_scan_unfold lead pre key q1 g q2 mid tail :
    ws_all lead -> Forall (fun c => c <> 10) (pre ++ key ++ q1 :: g ++ q2 :: mid) ->
    xml_scan md (lead ++ 60 :: 63 :: pre ++ key ++ q1 :: g ++ q2 :: mid ++ 63 :: 62 :: tail) =
    last_some_tails (xml_at md) (pre ++ (key ++ q1 :: g ++ q2 :: mid ++ 63 :: 62 :: take_line tail)).
  Proof.
    intros Hl Hnl. unfold xml_scan. rewrite (drop_ws_app _ _ _ Hl ok_lt). cbn [N.eqb Pos.eqb andb].
    replace (pre ++ key ++ q1 :: g ++ q2 :: mid ++ 63 :: 62 :: tail)
      with ((pre ++ key ++ q1 :: g ++ q2 :: mid) ++ 63 :: 62 :: tail)
      by (repeat (rewrite <- app_assoc; cbn); reflexivity).
    rewrite (take_line_app _ _ Hnl). cbn [take_line N.eqb Pos.eqb].
    repeat (rewrite <- app_assoc; cbn). reflexivity.
  Qed.

  Theorem xml_scan_complete s g : xml_shape md s g -> xml_scan md s <> None.
  Proof.
    intros H. destruct H as [lead pre key q1 g q2 mid tail Hl Hk Hq1 Hq2 Hg Hnl].
    rewrite xml_scan_unfold by assumption.
    apply last_some_tails_exists. rewrite xml_at_canonical by assumption. discriminate.
  Qed.

  (* the declaration is the one reported when no other `encoding=` starts later on the same line *)
  Theorem xml_scan_finds lead pre key q1 g q2 mid tail :
    ws_all lead -> ci_word key w_encoding_eq -> is_quote q1 = true -> is_quote q2 = true ->
    Forall (fun c => is_quote c = false) g ->
    Forall (fun c => c <> 10) (pre ++ key ++ q1 :: g ++ q2 :: mid) ->
    (forall a key' b, key ++ q1 :: g ++ q2 :: mid ++ 63 :: 62 :: take_line tail = a ++ key' ++ b ->
                      ci_word key' w_encoding_eq -> a = []) ->
    xml_scan md (lead ++ 60 :: 63 :: pre ++ key ++ q1 :: g ++ q2 :: mid ++ 63 :: 62 :: tail) = Some g.
  Proof.
    intros Hl Hk Hq1 Hq2 Hg Hnl Hu. rewrite xml_scan_unfold by assumption.
    apply last_some_tails_found.
    - apply xml_at_canonical; assumption.
    - intros b1 b2 E Hne. destruct (xml_at md b2) as [g'|] eqn:X; [|reflexivity].
      exfalso. apply xml_at_some in X. destruct X as [key' [x1 [x2 [m' [c' [-> [Hk' _]]]]]]].
      apply Hne. eapply Hu; [exact E | exact Hk'].
  Qed.

  (* ---------------- pieces of the html scanner ---------------- *)
  Lemma until_term_some s g :
    until_term s = Some g ->
    exists tm after, s = g ++ tm :: after /\ is_term tm = true /\ Forall (fun c => is_term c = false) g.
  Proof.
    revert g. induction s as [|c s IH]; intros g; cbn [until_term]; [discriminate|].
    destruct (is_term c) eqn:E.
    - intros H. inversion H; subst. exists c, s. repeat split; [assumption | constructor].
    - destruct (until_term s) as [g'|]; [|discriminate].
      intros H. inversion H; subst. destruct (IH g' eq_refl) as [tm [after [Hs [Ht Hg]]]].
      exists tm, after. repeat split; [cbn; congruence | assumption | constructor; assumption].
  Qed.

  Lemma until_term_app g tm after :
    Forall (fun c => is_term c = false) g -> is_term tm = true -> until_term (g ++ tm :: after) = Some g.
  Proof.
    intros Hg Ht. induction Hg as [|c g Hc Hg IH]; cbn [app until_term].
    - rewrite Ht. reflexivity.
    - rewrite Hc, IH. reflexivity.
  Qed.

  Lemma until_term_none s : until_term s = None -> Forall (fun c => is_term c = false) s.
  Proof.
    induction s as [|c s IH]; cbn [until_term]; [constructor|].
    destruct (is_term c) eqn:E; [discriminate|].
    destruct (until_term s); [discriminate|]. intros _. constructor; [assumption | apply IH; reflexivity].
  Qed.

  Lemma in_split_first (P : N -> bool) l x :
    In x l -> P x = true -> exists a y b, l = a ++ y :: b /\ P y = true.
  Proof. intros Hin Hp. apply in_split in Hin. destruct Hin as [a [b ->]]. exists a, x, b. tauto. Qed.

  Lemma after_eq_some v g :
    after_eq md v = Some g ->
    exists w2 oq tm after, v = w2 ++ oq ++ g ++ tm :: after /\ ws_all w2 /\ opt_quote oq /\
      Forall (fun c => is_term c = false) g /\ is_term tm = true.
  Proof.
    unfold after_eq. destruct (span_ws_spec v) as [Hv [Hw _]].
    destruct (span_ws md v) as [w v1]. cbn [fst snd] in *.
    assert (Hspace : memN 32 w = true -> exists wa wb, w = wa ++ 32 :: wb /\ ws_all wa).
    { intros Hm. apply memN_In in Hm. apply in_split in Hm. destruct Hm as [wa [wb E]].
      exists wa, wb. split; [assumption|]. unfold SniffSpec.ws_all in *. rewrite E in Hw.
      apply Forall_app in Hw. tauto. }
    destruct v1 as [|c v2].
    - destruct (memN 32 w) eqn:Hm; [|discriminate].
      intros H. inversion H; subst g. destruct (Hspace eq_refl) as [wa [wb [E Hwa]]].
      exists wa, [], 32, wb. subst v w. repeat split.
      + rewrite app_nil_r. cbn [app]. reflexivity.
      + assumption.
      + left; reflexivity.
      + constructor.
    - destruct (is_quote c) eqn:Q.
      + destruct (until_term v2) as [g'|] eqn:U.
        * intros H. inversion H; subst g'. apply until_term_some in U.
          destruct U as [tm [after [-> [Ht Hg]]]].
          exists w, [c], tm, after. subst v. repeat split; try assumption.
          right. exists c. tauto.
        * intros H. inversion H; subst g.
          exists w, [], c, v2. subst v. repeat split; try assumption.
          -- left; reflexivity.
          -- constructor.
          -- apply quote_is_term; assumption.
      + destruct (until_term (c :: v2)) as [g'|] eqn:U.
        * intros H. inversion H; subst g'. apply until_term_some in U.
          destruct U as [tm [after [E [Ht Hg]]]].
          exists w, [], tm, after. subst v. rewrite E. repeat split; try assumption. left; reflexivity.
        * destruct (memN 32 w) eqn:Hm; [|discriminate].
          intros H. inversion H; subst g. destruct (Hspace eq_refl) as [wa [wb [E Hwa]]].
          exists wa, [], 32, (wb ++ c :: v2). subst v w. repeat split.
          -- rewrite <- app_assoc. reflexivity.
          -- assumption.
          -- left; reflexivity.
          -- constructor.
  Qed.

  (* anything at all that can terminate the value makes the rest of the pattern match *)
  Lemma after_eq_exists v x : In x v -> is_term x = true -> after_eq md v <> None.
  Proof.
    intros Hin Ht. unfold after_eq. destruct (span_ws_spec v) as [Hv [Hw _]].
    destruct (span_ws md v) as [w v1]. cbn [fst snd] in *.
    rewrite Hv in Hin. apply in_app_or in Hin. destruct Hin as [Hin | Hin].
    - assert (x = 32).
      { apply ok_term; [assumption|]. unfold SniffSpec.ws_all in Hw. rewrite Forall_forall in Hw. auto. }
      subst x. apply memN_In in Hin. rewrite Hin.
      destruct v1 as [|c v2]; [discriminate|].
      destruct (is_quote c); [destruct (until_term v2); discriminate|].
      destruct (until_term (c :: v2)); discriminate.
    - destruct v1 as [|c v2]; [contradiction|].
      destruct (is_quote c); [destruct (until_term v2); discriminate|].
      destruct (until_term (c :: v2)) eqn:U; [discriminate|].
      apply until_term_none in U. rewrite Forall_forall in U. rewrite (U x Hin) in Ht. discriminate.
  Qed.

  Lemma after_eq_quoted w2 q g tm after :
    ws_all w2 -> is_quote q = true -> Forall (fun c => is_term c = false) g -> is_term tm = true ->
    after_eq md (w2 ++ q :: g ++ tm :: after) = Some g.
  Proof.
    intros Hw Hq Hg Ht. unfold after_eq. rewrite (span_ws_app _ _ _ Hw (ok_quote _ Hq)). cbn [fst snd].
    rewrite Hq. rewrite (until_term_app _ _ _ Hg Ht). reflexivity.
  Qed.

  Lemma after_eq_unquoted w2 c g tm after :
    ws_all w2 -> is_ws c = false -> is_quote c = false ->
    Forall (fun x => is_term x = false) (c :: g) -> is_term tm = true ->
    after_eq md (w2 ++ (c :: g) ++ tm :: after) = Some (c :: g).
  Proof.
    intros Hw Hc Hq Hg Ht. unfold after_eq. cbn [app]. rewrite (span_ws_app _ _ _ Hw Hc). cbn [fst snd].
    rewrite Hq. change (c :: g ++ tm :: after) with ((c :: g) ++ tm :: after).
    rewrite (until_term_app _ _ _ Hg Ht). reflexivity.
  Qed.

  Lemma charset_at_some u g :
    charset_at md u = Some g ->
    exists key w1 v, u = key ++ w1 ++ 61 :: v /\ ci_word key w_charset /\ ws_all w1 /\ after_eq md v = Some g.
  Proof.
    unfold charset_at. destruct (prefix_ci md w_charset u) as [r|] eqn:P; [|discriminate].
    apply prefix_ci_some in P. destruct P as [key [-> Hk]].
    destruct (drop_ws_spec r) as [w1 [Hr Hw1]].
    destruct (drop_ws md r) as [|e v]; [discriminate|].
    destruct (N.eqb_spec e 61); [|discriminate]. subst e.
    intros H. exists key, w1, v. rewrite Hr at 1. tauto.
  Qed.

  Lemma charset_at_app key w1 v :
    ci_word key w_charset -> ws_all w1 -> charset_at md (key ++ w1 ++ 61 :: v) = after_eq md v.
  Proof.
    intros Hk Hw. unfold charset_at. rewrite (prefix_ci_app _ _ _ Hk).
    rewrite (drop_ws_app _ _ _ Hw ok_eq). reflexivity.
  Qed.

  Lemma last_charset_some r g :
    last_charset md r = Some g ->
    exists gap u, r = gap ++ u /\ gap <> [] /\ Forall (fun c => c <> 62) gap /\ charset_at md u = Some g.
  Proof.
    revert g. induction r as [|c r IH]; intros g; cbn; [discriminate|].
    destruct (N.eqb_spec c 62); [discriminate|].
    destruct (last_charset md r) as [g'|] eqn:E.
    - intros H. inversion H; subst g'. destruct (IH g eq_refl) as [gap [u [Hr [Hne [Hg Hc]]]]].
      exists (c :: gap), u. repeat split; [cbn; congruence | discriminate | constructor; assumption | assumption].
    - intros H. exists [c], r. repeat split; [discriminate | constructor; [assumption | constructor] | assumption].
  Qed.

  Lemma last_charset_exists gap u :
    gap <> [] -> Forall (fun c => c <> 62) gap -> charset_at md u <> None -> last_charset md (gap ++ u) <> None.
  Proof.
    intros Hne Hg Hc. induction Hg as [|c gap Hc62 Hg IH]; [contradiction|].
    cbn. destruct (N.eqb_spec c 62); [contradiction|].
    destruct gap as [|d gap].
    - cbn. destruct (last_charset md u); [discriminate | assumption].
    - destruct (last_charset md ((d :: gap) ++ u)) eqn:E; [discriminate|].
      exfalso. apply IH; [discriminate | reflexivity].
  Qed.

  Lemma last_charset_none_tail u1 u2 :
    last_charset md (u1 ++ u2) = None -> u1 <> [] -> Forall (fun c => c <> 62) u1 -> charset_at md u2 = None.
  Proof.
    intros H Hne Hg. induction Hg as [|c u1 Hc Hg IH]; [contradiction|].
    cbn in H. destruct (N.eqb_spec c 62); [contradiction|].
    destruct (last_charset md (u1 ++ u2)) eqn:E; [discriminate|].
    destruct u1 as [|d u1]; [exact H|]. apply IH; [reflexivity | discriminate].
  Qed.

  Lemma last_charset_found gap u g :
    gap <> [] -> Forall (fun c => c <> 62) gap -> charset_at md u = Some g ->
    (forall u1 u2, u = u1 ++ u2 -> u1 <> [] -> Forall (fun c => c <> 62) u1 -> charset_at md u2 = None) ->
    last_charset md (gap ++ u) = Some g.
  Proof.
    intros Hne Hg Hc Hr.
    assert (Hu : last_charset md u = None).
    { destruct (last_charset md u) as [g'|] eqn:E; [|reflexivity].
      exfalso. apply last_charset_some in E. destruct E as [u1 [u2 [E1 [E2 [E3 E4]]]]].
      rewrite (Hr u1 u2 E1 E2 E3) in E4. discriminate. }
    induction Hg as [|c gap Hc62 Hg IH]; [contradiction|].
    cbn. destruct (N.eqb_spec c 62); [contradiction|].
    destruct gap as [|d gap].
    - cbn. rewrite Hu. assumption.
    - rewrite IH; [reflexivity | discriminate].
  Qed.

  (* ---------------- html: scanner against shape ---------------- *)
  Theorem meta_at_sound t g : meta_at md t = Some g -> meta_here md t g.
  Proof.
    unfold meta_at. destruct t as [|c t]; [discriminate|].
    destruct (N.eqb_spec c 60); [|discriminate]. subst c.
    destruct (drop_ws_spec t) as [w0 [Ht Hw0]].
    destruct (prefix_ci md w_meta (drop_ws md t)) as [r|] eqn:P; [|discriminate].
    apply prefix_ci_some in P. destruct P as [meta [Hd Hm]].
    intros H. apply last_charset_some in H. destruct H as [gap [u [-> [Hne [Hgap Hc]]]]].
    apply charset_at_some in Hc. destruct Hc as [key [w1 [v [-> [Hk [Hw1 Ha]]]]]].
    apply after_eq_some in Ha. destruct Ha as [w2 [oq [tm [after [-> [Hw2 [Hoq [Hg Ht2]]]]]]]].
    rewrite Ht, Hd.
    replace (60 :: w0 ++ meta ++ (gap ++ key ++ w1 ++ 61 :: w2 ++ oq ++ g ++ tm :: after))
      with (60 :: w0 ++ meta ++ gap ++ key ++ w1 ++ 61 :: w2 ++ oq ++ g ++ tm :: after)
      by (repeat (rewrite <- app_assoc; cbn); reflexivity).
    constructor; assumption.
  Qed.

  Lemma meta_at_unfold w0 meta r :
    ws_all w0 -> ci_word meta w_meta -> meta_at md (60 :: w0 ++ meta ++ r) = last_charset md r.
  Proof.
    intros Hw Hm. unfold meta_at. cbn [N.eqb Pos.eqb].
    inversion Hm as [|c p meta' w' Hc Hrest E1 E2]; subst.
    cbn [app]. rewrite (drop_ws_app _ _ _ Hw (ok_m _ Hc)).
    change (c :: meta' ++ r) with ((c :: meta') ++ r). rewrite (prefix_ci_app _ _ _ Hm). reflexivity.
  Qed.

  Theorem meta_at_complete t g : meta_here md t g -> meta_at md t <> None.
  Proof.
    intros H. destruct H as [w0 meta gap key w1 w2 oq g tm after Hw0 Hm Hne Hgap Hk Hw1 Hw2 Hoq Hg Ht].
    rewrite meta_at_unfold by assumption.
    apply last_charset_exists; try assumption.
    rewrite charset_at_app by assumption.
    apply (after_eq_exists _ tm); [|assumption].
    apply in_or_app. right. apply in_or_app. right. apply in_or_app. right. left. reflexivity.
  Qed.

  (* search = the leftmost start that works *)
  Lemma html_scan_some s g :
    html_scan md s = Some g ->
    exists before t, s = before ++ t /\ meta_at md t = Some g /\
      forall a b, before = a ++ b -> b <> [] -> meta_at md (b ++ t) = None.
  Proof.
    induction s as [|c s IH]; cbn [html_scan]; [discriminate|].
    destruct (meta_at md (c :: s)) as [g'|] eqn:E.
    - intros H. inversion H; subst g'. exists [], (c :: s). repeat split; [assumption|].
      intros a b Eab Hne. destruct a; destruct b; try discriminate. contradiction.
    - intros H. destruct (IH H) as [before [t [Hs [Hm Hl]]]].
      exists (c :: before), t. repeat split; [cbn; congruence | assumption|].
      intros a b Eab Hne. destruct a as [|x a]; cbn in Eab.
      + subst b. cbn. rewrite <- Hs. assumption.
      + inversion Eab; subst. eapply Hl; [reflexivity | assumption].
  Qed.

  Lemma html_scan_first before t g :
    meta_at md t = Some g ->
    (forall a b, before = a ++ b -> b <> [] -> meta_at md (b ++ t) = None) ->
    html_scan md (before ++ t) = Some g.
  Proof.
    intros Hm Hl. induction before as [|c before IH].
    - cbn [app]. destruct t as [|x t]; [discriminate|]. cbn [html_scan]. rewrite Hm. reflexivity.
    - cbn [app html_scan].
      assert (H0 : meta_at md ((c :: before) ++ t) = None) by (apply (Hl [] (c :: before) eq_refl); discriminate).
      cbn [app] in H0. rewrite H0.
      apply IH. intros a b E Hne. apply (Hl (c :: a) b); [cbn; congruence | assumption].
  Qed.

  Lemma html_scan_none s : html_scan md s = None -> forall a b, s = a ++ b -> meta_at md b = None.
  Proof.
    induction s as [|c s IH]; cbn [html_scan].
    - intros _ a b E. destruct a; destruct b; try discriminate. reflexivity.
    - destruct (meta_at md (c :: s)) eqn:E; [discriminate|].
      intros H a b Eab. destruct a as [|x a]; cbn in Eab.
      + subst b. assumption.
      + inversion Eab; subst. eapply IH; [assumption | reflexivity].
  Qed.

  Theorem html_scan_sound s g : html_scan md s = Some g -> meta_shape md s g.
  Proof.
    intros H. apply html_scan_some in H. destruct H as [before [t [Hs [Hm _]]]].
    exists before, t. split; [assumption | apply meta_at_sound; assumption].
  Qed.

  Theorem html_scan_complete s g : meta_shape md s g -> html_scan md s <> None.
  Proof.
    intros [before [t [Hs Hh]]] H. apply meta_at_complete in Hh. apply Hh.
    eapply html_scan_none; eassumption.
  Qed.

  (* a well-formed meta tag: the declared name is reported when it is the first tag that declares
     anything and no other `charset` starts later inside the same tag *)
  Definition value_ok (oq name : str) : Prop :=
    (exists q, is_quote q = true /\ oq = [q]) \/
    (oq = [] /\ exists c r, name = c :: r /\ is_ws c = false /\ is_quote c = false).

  Theorem meta_at_finds w0 meta gap key w1 w2 oq name tm after :
    ws_all w0 -> ci_word meta w_meta -> gap <> [] -> Forall (fun c => c <> 62) gap ->
    ci_word key w_charset -> ws_all w1 -> ws_all w2 -> value_ok oq name ->
    Forall (fun c => is_term c = false) name -> is_term tm = true ->
    (forall u1 u2 key' r, key ++ w1 ++ 61 :: w2 ++ oq ++ name ++ tm :: after = u1 ++ u2 -> u1 <> [] ->
                          Forall (fun c => c <> 62) u1 -> u2 = key' ++ r -> ~ ci_word key' w_charset) ->
    meta_at md (60 :: w0 ++ meta ++ gap ++ key ++ w1 ++ 61 :: w2 ++ oq ++ name ++ tm :: after) = Some name.
  Proof.
    intros Hw0 Hm Hne Hgap Hk Hw1 Hw2 Hv Hn Ht Hu.
    rewrite meta_at_unfold by assumption.
    apply last_charset_found; try assumption.
    - rewrite charset_at_app by assumption.
      destruct Hv as [[q [Hq ->]] | [-> [c [r [-> [Hc Hq]]]]]].
      + cbn [app]. apply after_eq_quoted; assumption.
      + cbn [app]. apply (after_eq_unquoted w2 c r tm after); assumption.
    - intros u1 u2 E Hne1 Hg1. destruct (charset_at md u2) as [g'|] eqn:C; [|reflexivity].
      exfalso. apply charset_at_some in C. destruct C as [key' [x1 [v' [E2 [Hk' _]]]]].
      eapply Hu; [exact E | exact Hne1 | exact Hg1 | exact E2 | exact Hk'].
  Qed.

  Theorem html_scan_finds before w0 meta gap key w1 w2 oq name tm after :
    let tag := 60 :: w0 ++ meta ++ gap ++ key ++ w1 ++ 61 :: w2 ++ oq ++ name ++ tm :: after in
    (forall a b, before = a ++ b -> b <> [] -> forall g', ~ meta_here md (b ++ tag) g') ->
    ws_all w0 -> ci_word meta w_meta -> gap <> [] -> Forall (fun c => c <> 62) gap ->
    ci_word key w_charset -> ws_all w1 -> ws_all w2 -> value_ok oq name ->
    Forall (fun c => is_term c = false) name -> is_term tm = true ->
    (forall u1 u2 key' r, key ++ w1 ++ 61 :: w2 ++ oq ++ name ++ tm :: after = u1 ++ u2 -> u1 <> [] ->
                          Forall (fun c => c <> 62) u1 -> u2 = key' ++ r -> ~ ci_word key' w_charset) ->
    html_scan md (before ++ tag) = Some name.
  Proof.
    intros tag Hb Hw0 Hm Hne Hgap Hk Hw1 Hw2 Hv Hn Ht Hu.
    apply html_scan_first.
    - apply meta_at_finds; assumption.
    - intros a b E Hneb. destruct (meta_at md (b ++ tag)) as [g'|] eqn:M; [|reflexivity].
      exfalso. apply meta_at_sound in M. exact (Hb a b E Hneb g' M).
  Qed.

  (* ---------------- case ---------------- *)
  Theorem ci_word_any_case key w :
    ci_ascii_ok md w = true -> map lower_ascii_char key = w -> ci_word key w.
  Proof.
    intros Hok. revert w Hok. induction key as [|c key IH]; intros w Hok E; cbn in E; subst w; [constructor|].
    cbn in Hok. apply andb_prop in Hok. destruct Hok as [H1 H2]. apply andb_prop in H1. destruct H1 as [Hpp Hup].
    constructor; [|apply IH; [assumption | reflexivity]].
    unfold lower_ascii_char in *. destruct ((65 <=? c) && (c <=? 90)) eqn:R.
    - apply andb_prop in R. destruct R as [R1 R2]. apply N.leb_le in R1, R2.
      assert (L : is_lower_letter (c + 32) = true).
      { unfold is_lower_letter. apply andb_true_intro. split; apply N.leb_le; lia. }
      rewrite L in Hup. replace (c + 32 - 32) with c in Hup by lia. assumption.
    - assumption.
  Qed.
End ScanProofs.

(* ------------------------------------------------------------------ the two concrete modes *)
Lemma bytes_mode_ok : mode_ok bytes_mode = true.
Proof. vm_compute. reflexivity. Qed.
Lemma str_mode_ok : mode_ok str_mode = true.
Proof. vm_compute. reflexivity. Qed.
Lemma markup_mode_ok m : mode_ok (markup_mode m) = true.
Proof. destruct m; [apply str_mode_ok | apply bytes_mode_ok]. Qed.

Lemma keywords_any_case_ok m :
  ci_ascii_ok (markup_mode m) w_encoding_eq = true /\ ci_ascii_ok (markup_mode m) w_meta = true /\
  ci_ascii_ok (markup_mode m) w_charset = true.
Proof. destruct m; repeat split; vm_compute; reflexivity. Qed.

(* tables as documented / as the interpreter has them *)
Lemma sniff_patterns_documented :
  xml_pattern_text =
    [94;92;115;42;60;92;63;46;42;101;110;99;111;100;105;110;103;61;91;39;34;93;40;46;42;63;41;91;39;34;93;46;42;92;63;62] /\
  html_pattern_text =
    [60;92;115;42;109;101;116;97;91;94;62;93;43;99;104;97;114;115;101;116;92;115;42;61;92;115;42;91;34;39;93;63;40;91;94;62;93;42;63;41;91;32;47;59;39;34;62;93] /\
  sniff_compiled = [(0, 0, xml_pattern_text, 2); (0, 1, html_pattern_text, 2);
                    (1, 0, xml_pattern_text, 34); (1, 1, html_pattern_text, 34)].
Proof. repeat split; reflexivity. Qed.

Lemma sniff_windows_documented :
  sniff_xml_window = 1024 /\ sniff_html_window_min = 2048 /\ sniff_html_window_num = 1 /\ sniff_html_window_den = 20.
Proof. repeat split; reflexivity. Qed.

Lemma re_semantics_as_modelled :
  re_ws_bytes = [9; 10; 11; 12; 13; 32] /\ re_dot_excludes_bytes = [10] /\ re_dot_excludes_str = [10] /\
  incl re_ws_bytes re_ws_str /\
  forallb (fun e => let p := fst e in
             match assocN p re_ci_bytes with Some l => str_eqb l [p - 32; p] | None => false end)
          re_ci_str = true /\
  map fst re_ci_bytes = map fst re_ci_str /\
  forallb (fun p => match assocN p re_ci_bytes with Some _ => true | None => N.eqb p 61 end)
          (w_encoding_eq ++ w_meta ++ w_charset) = true.
Proof.
  repeat split; try reflexivity.
  intros x H. vm_compute in H. vm_compute. tauto.
Qed.

(* ------------------------------------------------------------------ find_declared_encoding *)
Lemma searched_xml_eq e s :
  firstn (N.to_nat (xml_endpos e (N.of_nat (length s)))) s = searched_xml e s.
Proof.
  unfold xml_endpos, searched_xml. destruct e.
  - rewrite Nat2N.id. apply firstn_all.
  - reflexivity.
Qed.

Lemma searched_html_eq e s :
  firstn (N.to_nat (html_endpos e (N.of_nat (length s)))) s = searched_html e s.
Proof.
  unfold html_endpos, searched_html. destruct e.
  - rewrite Nat2N.id. apply firstn_all.
  - f_equal. unfold sniff_html_window_min, sniff_html_window_num, sniff_html_window_den.
    rewrite N2Nat.inj_max, N2Nat.inj_div, N2Nat.inj_mul, Nat2N.id.
    change (N.to_nat 1) with 1%nat. rewrite Nat.mul_1_r. reflexivity.
Qed.

Section FindProofs.
  Variable lower : str -> str.

  Notation find := (find_declared_encoding lower).

  Theorem find_declared_unfold m h e :
    find m h e =
    match xml_scan (markup_mode m) (searched_xml e (markup_chars m)) with
    | Some g => declared_name lower m g
    | None =>
        if h then match html_scan (markup_mode m) (searched_html e (markup_chars m)) with
                  | Some g => declared_name lower m g
                  | None => None
                  end
        else None
    end.
  Proof.
    unfold find_declared_encoding, sniff_match, declared_name.
    rewrite searched_xml_eq, searched_html_eq.
    destruct (xml_scan _ _); [reflexivity|]. destruct h; [|reflexivity].
    destruct (html_scan _ _); reflexivity.
  Qed.

  (* totality: exactly one of three things happens *)
  Theorem sniff_total m h e :
    let md := markup_mode m in
    let sx := searched_xml e (markup_chars m) in
    let sh := searched_html e (markup_chars m) in
    (exists g, xml_shape md sx g /\ find m h e = declared_name lower m g) \/
    ((forall g, ~ xml_shape md sx g) /\ h = true /\ exists g, meta_shape md sh g /\ find m h e = declared_name lower m g) \/
    ((forall g, ~ xml_shape md sx g) /\ (h = false \/ forall g, ~ meta_shape md sh g) /\ find m h e = None).
  Proof.
    intros md sx sh. rewrite find_declared_unfold. fold md sx sh.
    pose proof (markup_mode_ok m) as OK. fold md in OK.
    destruct (xml_scan md sx) as [g|] eqn:X.
    - left. exists g. split; [apply xml_scan_sound; assumption | reflexivity].
    - assert (NX : forall g, ~ xml_shape md sx g).
      { intros g Hs. apply (xml_scan_complete md OK) in Hs. contradiction. }
      right. destruct h.
      + destruct (html_scan md sh) as [g|] eqn:Hh.
        * left. repeat split; [assumption|]. exists g. split; [apply html_scan_sound; assumption | reflexivity].
        * right. repeat split; [assumption|]. right. intros g Hs.
          apply (html_scan_complete md OK) in Hs. contradiction.
      + right. repeat split; [assumption|]. left; reflexivity.
  Qed.

  (* an XML declaration in the searched part decides, whatever else the document contains and
     whether or not it is HTML *)
  Theorem sniff_prefers_xml_declaration m h e lead pre key q1 g q2 mid tail :
    let md := markup_mode m in
    searched_xml e (markup_chars m) = lead ++ 60 :: 63 :: pre ++ key ++ q1 :: g ++ q2 :: mid ++ 63 :: 62 :: tail ->
    ws_all md lead -> ci_word md key w_encoding_eq -> is_quote q1 = true -> is_quote q2 = true ->
    Forall (fun c => is_quote c = false) g ->
    Forall (fun c => c <> 10) (pre ++ key ++ q1 :: g ++ q2 :: mid) ->
    (forall a key' b, key ++ q1 :: g ++ q2 :: mid ++ 63 :: 62 :: take_line tail = a ++ key' ++ b ->
                      ci_word md key' w_encoding_eq -> a = []) ->
    find m h e = declared_name lower m g.
  Proof.
    intros md E Hl Hk H1 H2 Hg Hnl Hu. rewrite find_declared_unfold. fold md. rewrite E.
    rewrite (xml_scan_finds md (markup_mode_ok m)) by assumption. reflexivity.
  Qed.

  (* a <meta ... charset=...> tag lying in the searched part is found, when the document is HTML,
     has no XML declaration there, and no earlier tag declares anything *)
  Theorem sniff_finds_meta_in_window m e before w0 meta gap key w1 w2 oq name tm after :
    let md := markup_mode m in
    let tag := 60 :: w0 ++ meta ++ gap ++ key ++ w1 ++ 61 :: w2 ++ oq ++ name ++ tm :: after in
    (forall g, ~ xml_shape md (searched_xml e (markup_chars m)) g) ->
    searched_html e (markup_chars m) = before ++ tag ->
    (forall a b, before = a ++ b -> b <> [] -> forall g', ~ meta_here md (b ++ tag) g') ->
    ws_all md w0 -> ci_word md meta w_meta -> gap <> [] -> Forall (fun c => c <> 62) gap ->
    ci_word md key w_charset -> ws_all md w1 -> ws_all md w2 -> value_ok md oq name ->
    Forall (fun c => is_term c = false) name -> is_term tm = true ->
    (forall u1 u2 key' r, key ++ w1 ++ 61 :: w2 ++ oq ++ name ++ tm :: after = u1 ++ u2 -> u1 <> [] ->
                          Forall (fun c => c <> 62) u1 -> u2 = key' ++ r -> ~ ci_word md key' w_charset) ->
    find m true e = declared_name lower m name.
  Proof.
    intros md tag NX E Hb Hw0 Hm Hne Hgap Hk Hw1 Hw2 Hv Hn Ht Hu.
    rewrite find_declared_unfold. fold md.
    destruct (xml_scan md (searched_xml e (markup_chars m))) as [g|] eqn:X.
    - exfalso. apply (NX g). apply xml_scan_sound; assumption.
    - rewrite E. unfold tag.
      rewrite (html_scan_finds md (markup_mode_ok m)) by assumption. reflexivity.
  Qed.

  (* nothing in the searched parts: nothing declared *)
  Theorem sniff_none_without_declaration m h e :
    let md := markup_mode m in
    (forall g, ~ xml_shape md (searched_xml e (markup_chars m)) g) ->
    (h = false \/ forall g, ~ meta_shape md (searched_html e (markup_chars m)) g) ->
    find m h e = None.
  Proof.
    intros md NX NH. rewrite find_declared_unfold. fold md.
    destruct (xml_scan md _) as [g|] eqn:X; [exfalso; apply (NX g); apply xml_scan_sound; assumption|].
    destruct NH as [-> | NH]; [reflexivity|]. destruct h; [|reflexivity].
    destruct (html_scan md _) as [g|] eqn:Hh; [|reflexivity].
    exfalso. apply (NH g). apply html_scan_sound; assumption.
  Qed.

  (* what lies beyond both windows does not matter (the length does: the HTML window is relative) *)
  Lemma firstn_app_le {X} n (l1 l2 : list X) : (n <= length l1)%nat -> firstn n (l1 ++ l2) = firstn n l1.
  Proof.
    intros H. rewrite firstn_app. replace (n - length l1)%nat with 0%nat by lia.
    cbn. apply app_nil_r.
  Qed.

  Theorem sniff_ignores_beyond_window (mk : str -> markup) s a b h :
    (mk = MStr \/ mk = MBytes) ->
    length a = length b ->
    (Nat.max 1024 (Nat.max 2048 ((length s + length a) / 20)) <= length s)%nat ->
    find (mk (s ++ a)) h false = find (mk (s ++ b)) h false.
  Proof.
    intros Hmk Hlen Hw.
    assert (Hx : (1024 <= length s)%nat) by lia.
    assert (Hh : (Nat.max 2048 ((length s + length a) / 20) <= length s)%nat) by lia.
    rewrite !find_declared_unfold.
    assert (E1 : markup_mode (mk (s ++ a)) = markup_mode (mk (s ++ b))) by (destruct Hmk; subst; reflexivity).
    assert (E2 : markup_chars (mk (s ++ a)) = s ++ a) by (destruct Hmk; subst; reflexivity).
    assert (E3 : markup_chars (mk (s ++ b)) = s ++ b) by (destruct Hmk; subst; reflexivity).
    rewrite E1, E2, E3. unfold searched_xml, searched_html.
    rewrite !app_length, <- Hlen.
    rewrite !(firstn_app_le 1024) by assumption.
    rewrite !(firstn_app_le (Nat.max 2048 ((length s + length a) / 20))) by assumption.
    assert (E4 : forall g, declared_name lower (mk (s ++ a)) g = declared_name lower (mk (s ++ b)) g)
      by (intros g; destruct Hmk; subst; reflexivity).
    destruct (xml_scan _ _); [apply E4|]. destruct h; [|reflexivity].
    destruct (html_scan _ _); [apply E4 | reflexivity].
  Qed.

  (* the keywords in any mixture of ASCII upper and lower case *)
  Theorem sniff_case_insensitive m key :
    (map lower_ascii_char key = w_encoding_eq -> ci_word (markup_mode m) key w_encoding_eq) /\
    (map lower_ascii_char key = w_meta -> ci_word (markup_mode m) key w_meta) /\
    (map lower_ascii_char key = w_charset -> ci_word (markup_mode m) key w_charset).
  Proof.
    destruct (keywords_any_case_ok m) as [H1 [H2 H3]].
    repeat split; intros E; apply ci_word_any_case; assumption.
  Qed.
End FindProofs.

(* ------------------------------------------------------------------ composed with UnicodeDammit *)
Section Composed.
  Variable lower : str -> str.
  Variable known : str -> bool.
  Variable decode : str -> str -> dmode -> option str.
  Variable chardet : markup -> option str.

  Notation sniff := (sniff_model lower).
  Notation dammit := (dammit lower known decode sniff chardet).

  (* the declared candidate and declared_html_encoding are what the document itself says *)
  Theorem declared_is_sniffed m a :
    det_declared sniff m a = find_declared_encoding lower (fst (strip_byte_order_mark m)) (a_is_html a) false /\
    r_declared_html (dammit m a) =
      if a_is_html a then find_declared_encoding lower (fst (strip_byte_order_mark m)) true false else None.
  Proof. split; [reflexivity | apply declared_reported]. Qed.

  Theorem outcome_spec_sniffed b a :
    b <> [] ->
    outcome (dammit (MBytes b) a) =
    spec_outcome (find_codec lower known) decode (fst (strip_bom b))
      (spec_candidates lower (a_exclude a)
         (documented_order (a_known a ++ a_override a) (snd (strip_bom b)) (a_user a)
            (find_declared_encoding lower (MBytes (fst (strip_bom b))) (a_is_html a) false)
            (chardet (MBytes (fst (strip_bom b)))))).
  Proof.
    intros Hb. rewrite dammit_outcome by assumption. rewrite encodings_spec. reflexivity.
  Qed.

  (* end to end: an HTML byte document without byte-order mark or arguments, whose first declaring tag
     within the window names `name`, is decoded under that name when the bytes decode under it *)
  Theorem meta_declaration_used b a before w0 meta gap key w1 w2 oq name tm after u k :
    let md := bytes_mode in
    let tag := 60 :: w0 ++ meta ++ gap ++ key ++ w1 ++ 61 :: w2 ++ oq ++ name ++ tm :: after in
    let e := lower (ascii_replace name) in
    b <> [] -> snd (strip_bom b) = None ->
    a_known a = [] -> a_override a = [] -> a_user a = [] -> a_is_html a = true ->
    chardet (MBytes b) = None ->
    (forall g, ~ xml_shape md (searched_xml false b) g) ->
    searched_html false b = before ++ tag ->
    (forall x y, before = x ++ y -> y <> [] -> forall g', ~ meta_here md (y ++ tag) g') ->
    ws_all md w0 -> ci_word md meta w_meta -> gap <> [] -> Forall (fun c => c <> 62) gap ->
    ci_word md key w_charset -> ws_all md w1 -> ws_all md w2 -> value_ok md oq name ->
    Forall (fun c => is_term c = false) name -> is_term tm = true -> name <> [] ->
    (forall u1 u2 key' r, key ++ w1 ++ 61 :: w2 ++ oq ++ name ++ tm :: after = u1 ++ u2 -> u1 <> [] ->
                          Forall (fun c => c <> 62) u1 -> u2 = key' ++ r -> ~ ci_word md key' w_charset) ->
    excluded lower (a_exclude a) e = false ->
    find_codec lower known e = Some k -> decode b k Strict = Some u ->
    outcome (dammit (MBytes b) a) = (Some u, Some k, false) /\
    r_declared_html (dammit (MBytes b) a) = Some e.
  Proof.
    intros md tag e Hb Hbom Hkn Hov Hus Hh Hch NX E Hbef Hw0 Hm Hne Hgap Hk Hw1 Hw2 Hv Hn Ht Hnn Hu Hex Hf Hd.
    assert (Hstrip : fst (strip_bom b) = b).
    { pose proof (strip_bom_total b) as T. rewrite Hbom in T. cbn in T. tauto. }
    assert (Hsn : find_declared_encoding lower (MBytes b) true false = Some e).
    { rewrite (sniff_finds_meta_in_window lower (MBytes b) false before w0 meta gap key w1 w2 oq name tm after);
        try assumption.
      unfold declared_name. destruct name; [contradiction | reflexivity]. }
    split.
    - eapply (precedence_documented_order lower known decode sniff chardet b a [] e);
        [exact Hb | | exact Hex | intros y [] | intros y [] | ].
      + rewrite Hkn, Hov, Hus, Hbom, Hstrip, Hh, Hch. unfold sniff_model. rewrite Hsn. reflexivity.
      + rewrite Hstrip. apply attempt_some. tauto.
    - rewrite declared_reported. rewrite Hh. cbn [strip_byte_order_mark fst]. rewrite Hstrip.
      exact Hsn.
  Qed.
End Composed.
