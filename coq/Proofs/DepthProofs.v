(* C11 — proofs about the call-structure model (Model/Depth.v): explicit bounds, for every tree /
   criterion / argument list / callback sequence, on every operation's depth. *)
From Coq Require Import List NArith Bool Lia Arith ZArith.
From BS Require Import Base.Sexp Base.Types Model.Depth.
Import ListNotations.
Local Open Scope nat_scope.

(* ---------- generic ---------- *)
Lemma fr_le l k : Forall (fun x => x <= k) l -> fr l <= S k.
Proof. intros H. unfold fr. apply le_n_S. now apply list_max_le. Qed.

Lemma fr_ge x l : In x l -> S x <= fr l.
Proof.
  intros H. unfold fr. apply le_n_S.
  assert (Hf : Forall (fun k => k <= list_max l) l) by (apply list_max_le; lia).
  rewrite Forall_forall in Hf. now apply Hf.
Qed.

Lemma Forall_le_mono (l : list nat) a b : a <= b -> Forall (fun x => x <= a) l -> Forall (fun x => x <= b) l.
Proof. intros Hab H. eapply Forall_impl; [|exact H]. cbn. intros; lia. Qed.

Lemma Forall_const_map {X} (f : X -> nat) (l : list X) k :
  (forall x, f x <= k) -> Forall (fun y => y <= k) (map f l).
Proof. intros H. apply Forall_map. apply Forall_forall. intros; apply H. Qed.

Lemma Forall_flat_map_bound {X} (f : X -> list nat) (l : list X) k :
  (forall x, Forall (fun y => y <= k) (f x)) -> Forall (fun y => y <= k) (flat_map f l).
Proof. intros H. apply Forall_flat_map. apply Forall_forall. intros; apply H. Qed.

Ltac fall :=
  repeat match goal with
  | |- Forall _ (_ :: _) => constructor
  | |- Forall _ (_ ++ _) => apply Forall_app; split
  | |- Forall _ [] => constructor
  end.

Ltac fb :=
  repeat match goal with
  | |- Forall _ [] => constructor
  | |- Forall _ (_ :: _) => constructor
  | |- Forall _ (_ ++ _) => apply Forall_app; split
  | |- Forall _ (if ?b then _ else _) => destruct b
  end.

Ltac cl :=
  lazymatch goal with |- _ <= _ => idtac | |- @eq nat _ _ => idtac end;
  cbv [fr leaf d_last_descendant d_link_generator d_self_and d_base_match d_rule_matches_string
       d_rule_matches_tag d_tag_string d_module_getattr d_is_empty_element d_setup d_setitem d_nav_new
       d_index d_extract d_append_fresh d_soup_init_empty d_new_string list_max fold_right];
  solve [ lia | cbn; lia
        | cbn; cbv [fr leaf d_last_descendant d_link_generator d_self_and d_base_match d_rule_matches_string
                    d_rule_matches_tag d_tag_string d_module_getattr d_is_empty_element d_setup d_setitem d_nav_new
                    d_index d_extract d_append_fresh d_soup_init_empty d_new_string list_max fold_right];
          cbn; lia ].

Lemma leaf_1 : leaf = 1.
Proof. reflexivity. Qed.

(* ---------- iterators ---------- *)
Lemma d_descendants_le e : d_descendants e <= 2.
Proof. unfold d_descendants. destruct (has_kids e); cl. Qed.
Lemma d_descendants_ge e : 1 <= d_descendants e.
Proof. unfold d_descendants. destruct (has_kids e); cl. Qed.

Lemma iter_bounded k e : d_iter k e <= 3.
Proof.
  pose proof (d_descendants_le e).
  destruct k; unfold d_iter, d_self_and, d_link_generator, leaf, fr; cbn [list_max fold_right]; lia.
Qed.

(* ---------- searching ---------- *)
Lemma d_make_rules_le s : d_make_rules s <= 3.
Proof.
  destruct s as [|r|l]; [cl|cl|].
  cbn [d_make_rules]. apply fr_le. apply Forall_const_map. intros; cl.
Qed.

Lemma d_strainer_init_le c : d_strainer_init c <= 4.
Proof.
  unfold d_strainer_init. apply fr_le. constructor; [apply d_make_rules_le|].
  apply Forall_app; split.
  - apply Forall_const_map. intros; apply d_make_rules_le.
  - constructor; [apply d_make_rules_le|constructor].
Qed.

Lemma name_rules_loop_le rs e : Forall (fun x => x <= 2) (fst (name_rules_loop rs e)).
Proof.
  induction rs as [|r rs IH]; cbn [name_rules_loop fst]; [constructor|].
  destruct (name_rules_loop rs e) as [calls' m'] eqn:E. cbn [fst] in IH.
  destruct (rule_matches r (Some (name_of e))); cbn [fst].
  - fall; cl.
  - destruct (prefixed_name e) as [pn|].
    + match goal with |- context [if ?b then _ else _] => destruct b end; cbn [fst]; fall; try cl; exact IH.
    + cbn [fst]. fall; try cl; exact IH.
Qed.

Lemma d_attribute_match_le rules v : d_attribute_match rules v <= 4.
Proof.
  unfold d_attribute_match. apply fr_le. constructor; [|constructor].
  apply fr_le. destruct rules; fall; cl.
Qed.

Lemma attr_rules_loop_le ars e : Forall (fun x => x <= 4) (fst (attr_rules_loop ars e)).
Proof.
  induction ars as [|[k s] ars IH]; cbn; [constructor|].
  destruct (attribute_match (rules_of s) (attr_value_of e k)).
  - destruct (attr_rules_loop ars e) as [calls' ok] eqn:E. cbn in *.
    constructor; [cl|]. constructor; [apply d_attribute_match_le|exact IH].
  - cbn. constructor; [cl|]. constructor; [apply d_attribute_match_le|constructor].
Qed.

Lemma matches_tag_le c e : fst (matches_tag c e) <= 5.
Proof.
  unfold matches_tag.
  assert (Hn : forall rs, Forall (fun x => x <= 4) (fst (name_rules_loop rs e))).
  { intros rs. eapply Forall_le_mono; [|apply name_rules_loop_le]. lia. }
  pose proof (attr_rules_loop_le (c_attrs c) e) as Ha.
  destruct (rules_of (c_name c)) as [|r0 nrs] eqn:En.
  - destruct (c_attrs c) as [|a0 ars] eqn:Ea; [cl|].
    rewrite andb_false_r.
    destruct (attr_rules_loop (a0 :: ars) e) as [acalls aok]. cbn [fst] in Ha. cbn [negb].
    destruct aok; cbn [negb].
    + destruct (rules_of (c_string c)); cbn [fst app].
      * apply fr_le; exact Ha.
      * destruct (tag_string e); cbn [fst]; apply fr_le; apply Forall_app; split; try exact Ha; fall; cl.
    + cbn [fst app]. apply fr_le; exact Ha.
  - match goal with |- fst (if ?b then _ else _) <= _ => destruct b end; [cl|].
    specialize (Hn (r0 :: nrs)).
    destruct (name_rules_loop (r0 :: nrs) e) as [ncalls nok]. cbn [fst] in Hn.
    destruct nok; cbn [negb].
    + destruct (attr_rules_loop (c_attrs c) e) as [acalls aok]. cbn [fst] in Ha.
      destruct aok; cbn [negb].
      * destruct (rules_of (c_string c)); cbn [fst].
        -- apply fr_le. apply Forall_app; split; assumption.
        -- destruct (tag_string e); cbn [fst]; apply fr_le;
             repeat (apply Forall_app; split); try assumption; fall; cl.
      * cbn [fst]. apply fr_le. apply Forall_app; split; assumption.
    + cbn [fst]. apply fr_le. exact Hn.
Qed.

Lemma string_rules_loop_le rs t : Forall (fun x => x <= 2) (fst (string_rules_loop rs t)).
Proof.
  induction rs as [|r rs IH]; cbn; [constructor|].
  destruct (rule_matches r (Some t)); cbn; [fall; cl|].
  destruct (string_rules_loop rs t) as [calls m]. cbn in *. constructor; [cl|exact IH].
Qed.

Lemma strainer_match_le c e : fst (strainer_match c e) <= 6.
Proof.
  destruct e as [cls t|n p a k v h s ks]; cbn [strainer_match].
  - destruct (rules_of (c_name c)).
    + destruct (c_attrs c).
      * pose proof (string_rules_loop_le (rules_of (c_string c)) t) as H.
        destruct (string_rules_loop (rules_of (c_string c)) t) as [calls m]. cbn [fst] in *.
        assert (fr calls <= 3) by (apply fr_le; exact H). lia.
      * cl.
    + cl.
  - pose proof (matches_tag_le c (ETag n p a k v h s ks)) as H.
    destruct (matches_tag c (ETag n p a k v h s ks)) as [d m]. cbn [fst] in *.
    unfold fr. cbn. lia.
Qed.

Lemma filter_calls_le c elems found : Forall (fun x => x <= 6) (filter_calls c elems found).
Proof.
  revert found. induction elems as [|e rest IH]; intros found; cbn [filter_calls]; [constructor|].
  pose proof (strainer_match_le c e) as H.
  destruct (strainer_match c e) as [d m]. cbn [fst] in H.
  destruct m.
  - destruct (c_limit c) as [[|lim]|].
    + constructor; [exact H|apply IH].
    + destruct (S lim <=? S found); [constructor; [exact H|constructor]|constructor; [exact H|apply IH]].
    + constructor; [exact H|apply IH].
  - constructor; [exact H|apply IH].
Qed.

Lemma d_strainer_find_all_le c elems gen : gen <= 6 -> d_strainer_find_all c elems gen <= 8.
Proof.
  intros Hg. unfold d_strainer_find_all. apply fr_le. constructor; [cl|]. constructor; [|constructor].
  apply fr_le. constructor; [exact Hg|apply filter_calls_le].
Qed.

Lemma d_find_all_core_le c elems gen : gen <= 2 -> d_find_all_core c elems gen <= 9.
Proof.
  intros Hg. unfold d_find_all_core.
  assert (Hslow : fr [d_strainer_init c; d_strainer_find_all c elems gen] <= 9).
  { apply fr_le. constructor; [pose proof (d_strainer_init_le c); lia|].
    constructor; [apply d_strainer_find_all_le; lia|constructor]. }
  pose proof (d_strainer_init_le c) as Hi.
  destruct (c_string c); try exact Hslow.
  destruct (c_attrs c); try exact Hslow.
  assert (Hfast : fr [d_strainer_init c; gen; leaf] <= 9) by (apply fr_le; fall; [lia|lia|cl]).
  destruct (c_name c) as [|r|l]; try exact Hslow; [exact Hfast|].
  destruct r as [s|b|b|s]; try exact Hslow.
  - destruct (limit_falsy c); [exact Hfast|exact Hslow].
  - destruct b; [exact Hfast|exact Hslow].
Qed.

Lemma d_find_all_le c e : d_find_all c e <= 10.
Proof.
  unfold d_find_all. destruct (c_recursive c); apply fr_le.
  - constructor; [|constructor]. apply d_find_all_core_le. apply d_descendants_le.
  - constructor; [cl|]. constructor; [|constructor]. apply d_find_all_core_le. cl.
Qed.

Lemma d_find_le c e : d_find c e <= 11.
Proof. unfold d_find. apply fr_le. constructor; [apply d_find_all_le|constructor]. Qed.

Lemma d_tag_getattr_le n e : d_tag_getattr n e <= 12.
Proof. unfold d_tag_getattr. apply fr_le. constructor; [apply d_find_le|constructor]. Qed.

Lemma d_tag_call_le c e : d_tag_call c e <= 11.
Proof. unfold d_tag_call. apply fr_le. constructor; [apply d_find_all_le|constructor]. Qed.

Lemma d_find_all_axis_le c elems : d_find_all_axis c elems <= 10.
Proof. unfold d_find_all_axis. apply fr_le. constructor; [apply d_find_all_core_le; cl|constructor]. Qed.
Lemma d_find_one_axis_le c elems : d_find_one_axis c elems <= 12.
Proof.
  unfold d_find_one_axis. apply fr_le. constructor; [|constructor].
  apply fr_le. constructor; [apply d_find_all_axis_le|constructor].
Qed.
Lemma d_find_parent_le c elems : d_find_parent c elems <= 11.
Proof. unfold d_find_parent. apply fr_le. constructor; [apply d_find_all_axis_le|constructor]. Qed.

(* ---------- _is_xml ---------- *)
Lemma is_xml_walk_le chain : is_xml_walk chain <= 13.
Proof.
  induction chain as [|e rest IH]; cbn [is_xml_walk]; [cl|].
  destruct rest as [|e' rest'].
  - destruct (kx_of e); [cl|].
    destruct (is_tag e && negb (soup_of e)); [|cl].
    apply fr_le. constructor; [apply d_tag_getattr_le|constructor].
  - destruct (kx_of e); [cl|exact IH].
Qed.

(* a chain in which some element knows whether it is XML (always so below a parsed document or a
   BeautifulSoup object) costs one frame *)
Definition chain_known (chain : list elem) : bool :=
  existsb (fun e => match kx_of e with Some _ => true | None => false end) chain.
Lemma is_xml_walk_known chain : chain_known chain = true -> is_xml_walk chain = leaf.
Proof.
  induction chain as [|e rest IH]; cbn; [discriminate|].
  intros H. destruct rest as [|e' rest'].
  - cbn in H. destruct (kx_of e); [reflexivity|discriminate].
  - destruct (kx_of e); [reflexivity|]. cbn [orb] in H. apply IH. exact H.
Qed.

Lemma d_is_xml_le e ctx : d_is_xml e ctx <= 13.
Proof. apply is_xml_walk_le. Qed.
Lemma d_formatter_for_name_le e ctx : d_formatter_for_name e ctx <= 14.
Proof. unfold d_formatter_for_name. apply fr_le. constructor; [apply d_is_xml_le|constructor]. Qed.

(* ---------- rendering ---------- *)
Lemma d_event_stream_le e own : d_event_stream e own <= 4.
Proof.
  unfold d_event_stream. pose proof (d_descendants_le e) as Hd. apply fr_le. apply Forall_app; split.
  - destruct own; fall; cl.
  - destruct (existsb is_tag (stream_elems e own)); fall; cl.
Qed.

Lemma d_attr_value_le subst enc v : Forall (fun x => x <= 2) (d_attr_value subst enc v).
Proof. destruct v, subst, enc; cbn; fall; cl. Qed.

Lemma d_format_tag_le e opening subst enc : d_format_tag e opening subst enc <= 3.
Proof.
  unfold d_format_tag. destruct (hidden_of e); [cl|].
  apply fr_le. constructor; [cl|]. destruct opening; [|constructor].
  apply Forall_flat_map_bound. intros kv. apply d_attr_value_le.
Qed.

Lemma d_output_ready_le subst : d_output_ready subst <= 3.
Proof. destruct subst; unfold d_output_ready; cl. Qed.

Lemma decode_elem_calls_le subst enc indent c : Forall (fun x => x <= 3) (decode_elem_calls subst enc indent c).
Proof.
  unfold decode_elem_calls. apply Forall_app; split.
  - destruct c as [cls t|n p a k v h s ks].
    + constructor; [apply d_output_ready_le|constructor].
    + apply Forall_app; split.
      * constructor; [apply d_format_tag_le|]. constructor; [cl|constructor].
      * destruct ks; [destruct v|]; fall; apply d_format_tag_le.
  - destruct indent; fall; cl.
Qed.

Lemma d_tag_decode_le e ctx indent f own enc : d_tag_decode e ctx indent f own enc <= 15.
Proof.
  unfold d_tag_decode. apply fr_le. apply Forall_app; split.
  - destruct f; [|constructor]. constructor; [apply d_formatter_for_name_le|constructor].
  - apply Forall_app; split.
    + constructor; [pose proof (d_event_stream_le e own); lia|constructor].
    + apply Forall_flat_map_bound. intros c. eapply Forall_le_mono; [|apply decode_elem_calls_le]. lia.
Qed.

(* when the element or one of its ancestors knows whether it is XML *)
Lemma d_tag_decode_known e ctx indent f own enc :
  chain_known (e :: ctx) = true -> d_tag_decode e ctx indent f own enc <= 5.
Proof.
  intros Hk. unfold d_tag_decode. apply fr_le. apply Forall_app; split.
  - destruct f; [|constructor]. constructor; [|constructor].
    unfold d_formatter_for_name, d_is_xml. rewrite (is_xml_walk_known _ Hk). cl.
  - apply Forall_app; split.
    + constructor; [apply d_event_stream_le|constructor].
    + apply Forall_flat_map_bound. intros c. eapply Forall_le_mono; [|apply decode_elem_calls_le]. lia.
Qed.

Lemma d_decode_le e ctx indent f enc : d_decode e ctx indent f enc <= 16.
Proof.
  unfold d_decode. pose proof (d_tag_decode_le e ctx indent f true enc).
  destruct (soup_of e); [unfold fr; cbn [list_max fold_right]|]; lia.
Qed.
Lemma d_decode_known e ctx indent f enc : chain_known (e :: ctx) = true -> d_decode e ctx indent f enc <= 6.
Proof.
  intros Hk. unfold d_decode. pose proof (d_tag_decode_known e ctx indent f true enc Hk).
  destruct (soup_of e); [unfold fr; cbn [list_max fold_right]|]; lia.
Qed.
Lemma d_encode_le e ctx indent f : d_encode e ctx indent f <= 17.
Proof. unfold d_encode, fr. cbn [list_max fold_right]. pose proof (d_decode_le e ctx indent f EncNormal). lia. Qed.
Lemma d_encode_known e ctx indent f : chain_known (e :: ctx) = true -> d_encode e ctx indent f <= 7.
Proof. intros Hk. unfold d_encode, fr. cbn [list_max fold_right]. pose proof (d_decode_known e ctx indent f EncNormal Hk). lia. Qed.
Lemma d_prettify_le e ctx b f : d_prettify e ctx b f <= 18.
Proof.
  unfold d_prettify, fr. cbn [list_max fold_right]. pose proof (d_encode_le e ctx true f). pose proof (d_decode_le e ctx true f EncNormal).
  destruct b; lia.
Qed.
Lemma d_prettify_known e ctx b f : chain_known (e :: ctx) = true -> d_prettify e ctx b f <= 8.
Proof.
  intros Hk. unfold d_prettify, fr. cbn [list_max fold_right]. pose proof (d_encode_known e ctx true f Hk).
  pose proof (d_decode_known e ctx true f EncNormal Hk). destruct b; lia.
Qed.
Lemma d_decode_contents_le e ctx indent f : d_decode_contents e ctx indent f <= 17.
Proof.
  unfold d_decode_contents. pose proof (d_tag_decode_le e ctx indent f false EncNormal).
  destruct (soup_of e); unfold fr; cl.
Qed.
Lemma d_decode_contents_known e ctx indent f :
  chain_known (e :: ctx) = true -> d_decode_contents e ctx indent f <= 7.
Proof.
  intros Hk. unfold d_decode_contents. pose proof (d_tag_decode_known e ctx indent f false EncNormal Hk).
  destruct (soup_of e); unfold fr; cl.
Qed.
Lemma d_encode_contents_le e ctx indent f : d_encode_contents e ctx indent f <= 18.
Proof. unfold d_encode_contents, fr. cbn [list_max fold_right]. pose proof (d_decode_contents_le e ctx indent f). lia. Qed.
Lemma d_encode_contents_known e ctx indent f :
  chain_known (e :: ctx) = true -> d_encode_contents e ctx indent f <= 8.
Proof. intros Hk. unfold d_encode_contents, fr. cbn [list_max fold_right]. pose proof (d_decode_contents_known e ctx indent f Hk). lia. Qed.
Lemma d_str_le e ctx : d_str e ctx <= 17.
Proof. unfold d_str, fr. cbn [list_max fold_right]. pose proof (d_decode_le e ctx false (FmtName true) EncNormal). lia. Qed.
Lemma d_str_known e ctx : chain_known (e :: ctx) = true -> d_str e ctx <= 7.
Proof. intros Hk. unfold d_str, fr. cbn [list_max fold_right]. pose proof (d_decode_known e ctx false (FmtName true) EncNormal Hk). lia. Qed.

(* ---------- text ---------- *)
Lemma d_all_strings_le e : d_all_strings e <= 3.
Proof. unfold d_all_strings. pose proof (d_descendants_le e). destruct (is_tag e); unfold fr; cl. Qed.
Lemma d_get_text_le e : d_get_text e <= 4.
Proof. unfold d_get_text, fr. cbn [list_max fold_right]. pose proof (d_all_strings_le e). lia. Qed.
Lemma d_stripped_strings_le e : d_stripped_strings e <= 4.
Proof. unfold d_stripped_strings, fr. cbn [list_max fold_right]. pose proof (d_all_strings_le e). lia. Qed.

(* ---------- copying, pickling ---------- *)
Lemma d_tag_init_nobuilder_le e : d_tag_init_nobuilder e <= 2.
Proof. unfold d_tag_init_nobuilder. cl. Qed.
Lemma d_copy_self_le e ctx : d_copy_self e ctx <= 14.
Proof.
  unfold d_copy_self. destruct (soup_of e); [cl|].
  apply fr_le. constructor; [apply d_is_xml_le|].
  constructor; [pose proof (d_tag_init_nobuilder_le e); lia|constructor].
Qed.
Lemma d_copy_self_known e ctx : chain_known (e :: ctx) = true -> d_copy_self e ctx <= 5.
Proof.
  intros Hk. unfold d_copy_self. destruct (soup_of e); [cl|].
  unfold d_is_xml. rewrite (is_xml_walk_known _ Hk).
  apply fr_le. constructor; [cl|].
  constructor; [pose proof (d_tag_init_nobuilder_le e); lia|constructor].
Qed.

Lemma d_deepcopy_le e ctx : d_deepcopy e ctx <= 16.
Proof.
  unfold d_deepcopy. destruct (is_tag e); [|cl].
  apply fr_le. apply Forall_app; split.
  - constructor; [pose proof (d_copy_self_le e ctx); lia|]. constructor; [|constructor].
    pose proof (d_descendants_le e).
    destruct (existsb is_tag (flat e)); unfold fr; cl.
  - apply Forall_flat_map_bound. intros [c cx]. unfold deepcopy_elem_calls. cbn [fst snd].
    constructor.
    + destruct (is_tag c); [|cl]. unfold fr. cbn [list_max fold_right]. pose proof (d_copy_self_le c cx). lia.
    + constructor; [cl|constructor].
Qed.
Lemma d_copy_le e ctx : d_copy e ctx <= 17.
Proof. unfold d_copy, fr. cbn [list_max fold_right]. pose proof (d_deepcopy_le e ctx). lia. Qed.

(* induction over trees *)
Section ElemInd.
  Variable P : elem -> Prop.
  Hypothesis HS : forall c t, P (EStr c t).
  Hypothesis HT : forall n p a k v h s ks, Forall P ks -> P (ETag n p a k v h s ks).
  Fixpoint elem_ind' (e : elem) : P e :=
    match e with
    | EStr c t => HS c t
    | ETag n p a k v h s ks =>
        HT n p a k v h s ks
           ((fix G (l : list elem) : Forall P l :=
               match l with [] => Forall_nil P | x :: r => Forall_cons x (elem_ind' x) (G r) end) ks)
    end.
End ElemInd.

(* every descendant's ancestor chain ends with the chain it started from *)
Lemma flat_ctx_chain e : forall ctx c cx, In (c, cx) (flat_ctx ctx e) -> exists pre, cx = pre ++ e :: ctx.
Proof.
  induction e as [cls t|n p a k v h s ks IH] using elem_ind'; intros ctx c cx Hin.
  - cbn in Hin. contradiction.
  - cbn [flat_ctx] in Hin. apply in_flat_map in Hin as [k0 [Hk0 Hin]].
    rewrite Forall_forall in IH.
    destruct Hin as [Heq|Hin].
    + inversion Heq; subst. exists []. reflexivity.
    + apply (IH k0 Hk0) in Hin as [pre Hpre]. exists (pre ++ [k0]). rewrite <- app_assoc. exact Hpre.
Qed.

Lemma chain_known_app pre rest : chain_known rest = true -> chain_known (pre ++ rest) = true.
Proof. intros H. unfold chain_known in *. rewrite existsb_app, H. apply orb_true_r. Qed.

Lemma d_deepcopy_known e ctx : chain_known (e :: ctx) = true -> d_deepcopy e ctx <= 7.
Proof.
  intros Hk. unfold d_deepcopy. destruct (is_tag e); [|cl].
  apply fr_le. apply Forall_app; split.
  - constructor; [pose proof (d_copy_self_known e ctx Hk); lia|]. constructor; [|constructor].
    pose proof (d_descendants_le e).
    destruct (existsb is_tag (flat e)); unfold fr; cl.
  - apply Forall_flat_map. apply Forall_forall. intros [c cx] Hin. unfold deepcopy_elem_calls. cbn [fst snd].
    apply flat_ctx_chain in Hin as [pre Hpre].
    assert (Hk' : chain_known (c :: cx) = true).
    { subst cx. change (c :: pre ++ e :: ctx) with ((c :: pre) ++ e :: ctx). now apply chain_known_app. }
    constructor.
    + destruct (is_tag c); [|cl]. unfold fr. cbn [list_max fold_right]. pose proof (d_copy_self_known c cx Hk'). lia.
    + constructor; [cl|constructor].
Qed.
Lemma d_copy_known e ctx : chain_known (e :: ctx) = true -> d_copy e ctx <= 8.
Proof. intros Hk. unfold d_copy, fr. cbn [list_max fold_right]. pose proof (d_deepcopy_known e ctx Hk). lia. Qed.

Lemma d_getstate_le e : d_getstate e <= 17.
Proof. unfold d_getstate, fr. cbn [list_max fold_right]. pose proof (d_decode_le e [] false (FmtName true) EncNormal). lia. Qed.
Lemma d_getstate_known e : chain_known [e] = true -> d_getstate e <= 7.
Proof. intros Hk. unfold d_getstate, fr. cbn [list_max fold_right]. pose proof (d_decode_known e [] false (FmtName true) EncNormal Hk). lia. Qed.

(* ---------- editing ---------- *)
(* a BeautifulSoup object never contains another one (_insert expands them), so the mutual recursion
   insert -> _insert -> insert stops after one round *)
Definition plain_arg (a : ins_arg) : bool := match a with ISoup _ => false | _ => true end.
Definition wf_arg (a : ins_arg) : bool :=
  match a with ISoup l => forallb plain_arg l | _ => true end.

Lemma d_insert_one_plain a : plain_arg a = true -> d_insert_one a <= 3.
Proof. destruct a as [| |[]|l]; intros H; try discriminate H; cbn [d_insert_one]; cl. Qed.
Lemma d_insert_one_wf a : wf_arg a = true -> d_insert_one a <= 5.
Proof.
  destruct a as [| |[]|l]; cbn [wf_arg d_insert_one]; try (intros _; cl).
  intros H. rewrite forallb_forall in H.
  apply fr_le. constructor; [|constructor]. apply fr_le. apply Forall_app; split.
  - apply Forall_map. apply Forall_forall. intros x Hx. apply d_insert_one_plain. now apply H.
  - destruct l; fall; cl.
Qed.
Lemma d_insert_wf l : forallb wf_arg l = true -> d_insert l <= 6.
Proof.
  intros H. rewrite forallb_forall in H. unfold d_insert. apply fr_le. apply Forall_app; split.
  - apply Forall_map. apply Forall_forall. intros x Hx. apply d_insert_one_wf. now apply H.
  - destruct l; fall; cl.
Qed.
Lemma d_append_wf a : wf_arg a = true -> d_append a <= 7.
Proof.
  intros H. unfold d_append, fr. cbn [list_max fold_right].
  assert (d_insert [a] <= 6) by (apply d_insert_wf; cbn; now rewrite H). lia.
Qed.
Lemma d_extend_wf l : forallb wf_arg l = true -> d_extend l <= 8.
Proof.
  intros H. rewrite forallb_forall in H. unfold d_extend. apply fr_le.
  apply Forall_map. apply Forall_forall. intros x Hx. apply d_append_wf. now apply H.
Qed.
Lemma d_insert_beside_wf l : forallb wf_arg l = true -> d_insert_beside l <= 7.
Proof.
  intros H. rewrite forallb_forall in H. unfold d_insert_beside. apply fr_le. constructor; [cl|].
  apply Forall_flat_map. apply Forall_forall. intros a Ha. specialize (H a Ha).
  destruct a as [| |b|c].
  - fall; vm_compute; lia.
  - fall; vm_compute; lia.
  - fall; vm_compute; lia.
  - constructor; [cl|]. constructor; [cl|]. constructor; [|constructor].
    apply d_insert_wf. cbn [forallb]. rewrite H. reflexivity.
Qed.
Lemma d_replace_with_wf l : forallb wf_arg l = true -> d_replace_with l <= 7.
Proof.
  intros H. unfold d_replace_with. apply fr_le. fall; try (cl). now apply d_insert_wf.
Qed.
Lemma d_wrap_eq : d_wrap = 5.
Proof. reflexivity. Qed.
Lemma d_unwrap_le e : d_unwrap e <= 6.
Proof.
  unfold d_unwrap. apply fr_le. constructor; [cl|]. constructor; [cl|].
  apply Forall_const_map. intros; vm_compute; lia.
Qed.
Lemma d_clear_le e b : d_clear e b <= 4.
Proof.
  unfold d_clear. apply fr_le. apply Forall_const_map. intros k. destruct b; [|vm_compute; lia].
  unfold d_decompose. pose proof (d_descendants_le k). destruct (is_tag k); unfold fr, d_extract, d_index, d_last_descendant, leaf, fr; cbn [list_max fold_right]; lia.
Qed.
Lemma d_set_string_le e : d_set_string e <= 6.
Proof.
  unfold d_set_string. apply fr_le. constructor; [pose proof (d_clear_le e false); lia|].
  constructor; [cl|]. constructor; [vm_compute; lia|constructor].
Qed.
Lemma d_smooth_contents_le e : d_smooth_contents e <= 5.
Proof. unfold d_smooth_contents. destruct (marked_pairs (kids_of e)); vm_compute; lia. Qed.
Lemma d_smooth_le e : d_smooth e <= 6.
Proof.
  unfold d_smooth. apply fr_le. constructor.
  - pose proof (d_descendants_le e). unfold fr; cbn [list_max fold_right]; lia.
  - constructor; [apply d_smooth_contents_le|]. apply Forall_const_map. intros; apply d_smooth_contents_le.
Qed.
Lemma d_decompose_eq e : d_decompose e = 3.
Proof.
  unfold d_decompose. pose proof (d_descendants_le e). pose proof (d_descendants_ge e).
  destruct (is_tag e); unfold fr, d_extract, d_index, d_last_descendant, leaf, fr; cbn [list_max fold_right]; lia.
Qed.
Lemma edit_constants : d_extract = 2 /\ d_new_string = 3 /\ d_index = 1.
Proof. repeat split. Qed.

(* nested BeautifulSoup arguments (which the library never builds) are the only way to make an
   insertion deep: without the well-formedness hypothesis the bound fails *)
Fixpoint soup_tower (n : nat) : ins_arg := match n with 0 => IFresh | S m => ISoup [soup_tower m] end.
Lemma soup_tower_depth n : d_insert_one (soup_tower n) = 2 * n + 2.
Proof.
  induction n as [|n IH]; [reflexivity|].
  cbn [soup_tower d_insert_one map app]. rewrite IH. unfold fr, d_index, leaf, fr. cbn [list_max fold_right].
  lia.
Qed.


(* ---------- the recursion sites before the repairs: unbounded ---------- *)
Lemma elem_eqb_step x y z :
  elem_eqb x y = false -> elem_eqb (tag_ s_a [] [x; z]) (tag_ s_a [] [y; z]) = false.
Proof. intros H. unfold tag_. cbn [elem_eqb]. rewrite H. cbn [andb]. apply andb_false_r. Qed.

Lemma elem_eqb_trail_neq n : elem_eqb (nest FTrailText (S n)) (nest FTrailText n) = false.
Proof.
  induction n as [|n IH]; [reflexivity|].
  exact (elem_eqb_step _ _ _ IH).
Qed.

Lemma d_eq_step x y z :
  is_tag x = true -> elem_eqb x y = false ->
  d_eq (tag_ s_a [] [x; z]) (tag_ s_a [] [y; z]) = fr [leaf; fr [d_eq x y]].
Proof.
  intros Hx H. unfold tag_. cbn [d_eq]. rewrite H.
  destruct x; [discriminate|]. reflexivity.
Qed.

Lemma legacy_parent_ne_depth n :
  legacy_d_parent_ne (nest FTrailText (S n)) (nest FTrailText n) = 2 * n + 2.
Proof.
  unfold legacy_d_parent_ne.
  assert (H : d_eq (nest FTrailText (S n)) (nest FTrailText n) = 2 * n + 1).
  { induction n as [|n IH]; [reflexivity|].
    transitivity (fr [leaf; fr [d_eq (nest FTrailText (S n)) (nest FTrailText n)]]).
    - exact (d_eq_step (nest FTrailText (S n)) (nest FTrailText n) (text_ s_x) eq_refl (elem_eqb_trail_neq n)).
    - rewrite IH. unfold fr, leaf, fr. cbn [list_max fold_right]. lia. }
  rewrite H. unfold fr. cbn [list_max fold_right]. lia.
Qed.

Lemma legacy_tag_string_depth n : legacy_d_tag_string (nest FChain (S n)) = S (S n).
Proof.
  induction n as [|n IH]; [reflexivity|].
  transitivity (fr [legacy_d_tag_string (nest FChain (S n))]); [reflexivity|].
  rewrite IH. unfold fr. cbn [list_max fold_right]. lia.
Qed.

Lemma legacy_smooth_depth n : legacy_d_smooth (nest FChain n) = S n.
Proof.
  induction n as [|n IH]; [reflexivity|].
  transitivity (fr [legacy_d_smooth (nest FChain n)]); [reflexivity|].
  rewrite IH. unfold fr. cbn [list_max fold_right]. lia.
Qed.

Definition unknown_tag : elem := ETag s_a None [] None false false false [].
Lemma legacy_is_xml_depth n : legacy_d_is_xml (repeat unknown_tag (S n)) = S n.
Proof.
  induction n as [|n IH]; [reflexivity|].
  transitivity (fr [legacy_d_is_xml (repeat unknown_tag (S n))]); [reflexivity|].
  rewrite IH. unfold fr. cbn [list_max fold_right]. lia.
Qed.
(* after the repair the same chain costs a constant *)
Lemma repaired_is_xml_unknown_chain n : is_xml_walk (repeat unknown_tag (S n)) <= 13.
Proof. apply is_xml_walk_le. Qed.
