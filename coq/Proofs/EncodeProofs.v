(* C08 — proofs about Model/Encode.v. *)
From Coq Require Import List NArith Bool Arith Lia.
From BS Require Import Base.Sexp Base.Types Base.Reader Gen.Tables Gen.Stdlib Gen.Entities Gen.T_C08 Model.Encode.
Import ListNotations.
Open Scope N_scope.

(* ================================================================== *)
(* A. decimal digits                                                   *)
(* ================================================================== *)

Lemma dec_aux_acc fuel : forall n acc, dec_aux fuel n acc = dec_aux fuel n [] ++ acc.
Proof.
  induction fuel as [|f IH]; intros n acc; cbn [dec_aux]; [reflexivity|].
  destruct (n / 10 =? 0); [reflexivity|].
  rewrite (IH (n / 10) ((48 + n mod 10) :: acc)), (IH (n / 10) [48 + n mod 10]).
  rewrite <- app_assoc. reflexivity.
Qed.

Lemma is_digit_48 d : d < 10 -> is_digit (48 + d) = true.
Proof. intros H. unfold is_digit. apply andb_true_intro; split; apply N.leb_le; lia. Qed.

Lemma digit_val_48 d : d < 10 -> digit_val (48 + d) = d.
Proof. intros H. unfold digit_val. rewrite is_digit_48 by exact H. lia. Qed.

Lemma dec_aux_digits fuel : forall n, forallb is_digit (dec_aux fuel n []) = true.
Proof.
  induction fuel as [|f IH]; intros n; cbn [dec_aux]; [reflexivity|].
  assert (Hd : is_digit (48 + n mod 10) = true) by (apply is_digit_48; apply N.mod_lt; lia).
  destruct (n / 10 =? 0); [cbn [forallb]; now rewrite Hd|].
  rewrite dec_aux_acc, forallb_app, IH. cbn [forallb]. now rewrite Hd.
Qed.

Lemma dec_aux_nonempty fuel n : dec_aux (S fuel) n [] <> [].
Proof.
  cbn [dec_aux]. destruct (n / 10 =? 0); [discriminate|].
  rewrite dec_aux_acc. intros H. apply app_eq_nil in H as [_ H]. discriminate.
Qed.

Lemma num_of_app base a b :
  num_of base (a ++ b) = fold_left (fun x d => x * base + digit_val d) b (num_of base a).
Proof. unfold num_of. now rewrite fold_left_app. Qed.

Lemma dec_aux_value fuel : forall n, n < 2 ^ N.of_nat fuel -> (0 < fuel)%nat ->
  num_of 10 (dec_aux fuel n []) = n.
Proof.
  induction fuel as [|f IH]; intros n Hn Hf; [lia|].
  cbn [dec_aux]. destruct (n / 10 =? 0) eqn:E.
  - apply N.eqb_eq in E. unfold num_of. cbn [fold_left]. rewrite digit_val_48 by (apply N.mod_lt; lia).
    pose proof (N.div_mod n 10 ltac:(lia)). lia.
  - apply N.eqb_neq in E. rewrite dec_aux_acc, num_of_app. cbn [fold_left].
    rewrite digit_val_48 by (apply N.mod_lt; lia).
    assert (Hf' : (0 < f)%nat).
    { destruct f; [|lia]. cbn in Hn. assert (n / 10 = 0) by (apply N.div_small; lia). contradiction. }
    assert (Hlt : n / 10 < 2 ^ N.of_nat f).
    { rewrite Nat2N.inj_succ, N.pow_succ_r' in Hn. apply N.div_lt_upper_bound; lia. }
    rewrite (IH (n / 10) Hlt Hf').
    pose proof (N.div_mod n 10 ltac:(lia)). lia.
Qed.

Lemma size_nat_bound n : n < 2 ^ N.of_nat (S (N.size_nat n)).
Proof.
  destruct n as [|p]; [cbn; lia|].
  cbn [N.size_nat]. rewrite Nat2N.inj_succ, N.pow_succ_r'.
  assert (H : N.pos p < 2 ^ N.of_nat (Pos.size_nat p)).
  { clear. induction p as [p IH|p IH|]; cbn [Pos.size_nat]; rewrite ?Nat2N.inj_succ, ?N.pow_succ_r'; lia. }
  lia.
Qed.

Lemma decimal_value n : num_of 10 (decimal n) = n.
Proof. unfold decimal. apply dec_aux_value; [apply size_nat_bound | lia]. Qed.
Lemma decimal_digits n : forallb is_digit (decimal n) = true.
Proof. apply dec_aux_digits. Qed.
Lemma decimal_nonempty n : decimal n <> [].
Proof. apply dec_aux_nonempty. Qed.

(* ================================================================== *)
(* B. str.encode                                                       *)
(* ================================================================== *)

Definition lift_app (a b : option (list N)) : option (list N) :=
  match a, b with Some x, Some y => Some (x ++ y) | _, _ => None end.

Section CodecFacts.
  Variable enc_char : N -> option (list N).
  Variable bom : list N.

  Notation encodable := (encodable enc_char).
  Notation xcr_text := (xcr_text enc_char).
  Notation enc_strict := (enc_strict enc_char).

  (* the only fact about the codec the totality theorem needs: it can write ASCII *)
  Definition ascii_ok : Prop := forall c, c < 128 -> encodable c = true.

  Lemma xcr_text_app a b : xcr_text (a ++ b) = xcr_text a ++ xcr_text b.
  Proof. apply flat_map_app. Qed.

  Lemma enc_strict_app a b : enc_strict (a ++ b) = lift_app (enc_strict a) (enc_strict b).
  Proof.
    induction a as [|c a IH]; cbn [app Encode.enc_strict].
    - destruct (enc_strict b); reflexivity.
    - rewrite IH. destruct (enc_char c) as [x|]; [|reflexivity].
      destruct (enc_strict a) as [y|]; cbn [lift_app]; [|reflexivity].
      destruct (enc_strict b) as [z|]; cbn [lift_app]; [|reflexivity]. now rewrite app_assoc.
  Qed.

  Lemma str_encode_body_app p a b :
    str_encode_body enc_char p (a ++ b) = lift_app (str_encode_body enc_char p a) (str_encode_body enc_char p b).
  Proof.
    destruct p; cbn [str_encode_body]; [apply enc_strict_app | rewrite xcr_text_app; apply enc_strict_app | reflexivity].
  Qed.

  Lemma enc_strict_total s : forallb encodable s = true -> exists b, enc_strict s = Some b.
  Proof.
    induction s as [|c s IH]; cbn [forallb Encode.enc_strict]; intros H; [now eexists|].
    apply andb_prop in H as [Hc Hs]. destruct (IH Hs) as [b ->].
    unfold Encode.encodable in Hc. destruct (enc_char c) as [x|]; [now eexists | discriminate].
  Qed.

  Lemma enc_strict_none s : enc_strict s = None <-> exists c, In c s /\ encodable c = false.
  Proof.
    induction s as [|c s IH]; cbn [Encode.enc_strict].
    - split; [discriminate | intros [c [[] _]]].
    - unfold Encode.encodable in *. destruct (enc_char c) as [x|] eqn:Ec.
      + destruct (enc_strict s) as [y|] eqn:Es.
        * split; [discriminate|]. intros [d [[<-|Hd] Hn]]; [rewrite Ec in Hn; discriminate|].
          destruct IH as [_ IH]. discriminate IH. now exists d.
        * split; [|reflexivity]. intros _. destruct IH as [IH _]. destruct (IH eq_refl) as [d [Hd Hn]].
          exists d. split; [now right | exact Hn].
      + split; [|reflexivity]. intros _. exists c. split; [now left|]. now rewrite Ec.
  Qed.

  Lemma decimal_lt_128 n : forallb (fun c => c <? 128) (decimal n) = true.
  Proof.
    pose proof (decimal_digits n) as H. rewrite forallb_forall in *. intros c Hc. specialize (H c Hc).
    unfold is_digit in H. apply andb_prop in H as [_ H]. apply N.leb_le in H. apply N.ltb_lt. lia.
  Qed.

  Lemma charref_lt_128 c : forallb (fun d => d <? 128) (charref c) = true.
  Proof.
    unfold charref. cbn [forallb]. rewrite forallb_app, decimal_lt_128. reflexivity.
  Qed.

  Lemma xcr_text_encodable : ascii_ok -> forall s, forallb encodable (xcr_text s) = true.
  Proof.
    intros Ha s. induction s as [|c s IH]; [reflexivity|].
    cbn [Encode.xcr_text flat_map]. rewrite forallb_app. fold (xcr_text s). rewrite IH, andb_true_r.
    unfold xcr_char. destruct (encodable c) eqn:E; [cbn; now rewrite E|].
    pose proof (charref_lt_128 c) as H. rewrite forallb_forall in *. intros d Hd. apply Ha. apply N.ltb_lt. auto.
  Qed.

  (* encode_total: with xmlcharrefreplace, encoding never raises *)
  Theorem encode_total : ascii_ok -> forall s, exists b, str_encode enc_char bom XmlCharRef s = Some b.
  Proof.
    intros Ha s. unfold str_encode, str_encode_body.
    destruct (enc_strict_total _ (xcr_text_encodable Ha s)) as [b ->]. now eexists.
  Qed.

  (* strict raises exactly when some character cannot be represented *)
  Theorem strict_raises_iff s :
    str_encode enc_char bom Strict s = None <-> exists c, In c s /\ encodable c = false.
  Proof.
    unfold str_encode, str_encode_body. rewrite <- enc_strict_none.
    destruct (enc_strict s); cbn; split; congruence.
  Qed.

  Lemma xcr_text_id s : forallb encodable s = true -> xcr_text s = s.
  Proof.
    induction s as [|c s IH]; cbn [forallb]; intros H; [reflexivity|].
    apply andb_prop in H as [Hc Hs]. cbn [Encode.xcr_text flat_map]. fold (xcr_text s).
    unfold xcr_char. rewrite Hc, IH by exact Hs. reflexivity.
  Qed.

  (* when nothing needs replacing the two policies agree *)
  Theorem xcr_equals_strict_when_encodable s :
    forallb encodable s = true -> str_encode enc_char bom XmlCharRef s = str_encode enc_char bom Strict s.
  Proof. intros H. unfold str_encode, str_encode_body. now rewrite xcr_text_id. Qed.

  (* every unencodable character appears as its decimal reference, every other one as itself *)
  Theorem xcr_text_spec s :
    xcr_text s = flat_map (fun c => if encodable c then [c] else c_amp :: c_hash :: decimal c ++ [c_semi]) s.
  Proof. reflexivity. Qed.

  Section Decoder.
    (* the codec's decoder: a parameter; the hypothesis is the codec's own contract (decoding inverts
       strict encoding), measured per codec by the harness *)
    Variable dec : list N -> option str.
    Hypothesis dec_ok : forall u b, enc_strict u = Some b -> dec (bom ++ b) = Some u.

    Theorem decodes_in_target p s b :
      str_encode enc_char bom p s = Some b ->
      dec b = Some (match p with XmlCharRef => xcr_text s | _ => s end).
    Proof.
      unfold str_encode, str_encode_body. destruct p.
      - destruct (enc_strict s) as [x|] eqn:E; cbn; [|discriminate]. intros [= <-]. now apply dec_ok.
      - destruct (enc_strict (xcr_text s)) as [x|] eqn:E; cbn; [|discriminate]. intros [= <-]. now apply dec_ok.
      - discriminate.
    Qed.
  End Decoder.
End CodecFacts.

(* ================================================================== *)
(* C. reading the output back                                          *)
(* ================================================================== *)

Section ReaderFacts.
  Variable ent : str -> option str.
  Variable num : N -> str.
  Notation read_from := (read_from ent num).
  Notation read := (read ent num).

  Lemma read_plain c r : c <> c_amp -> read_from Idle (c :: r) = c :: read_from Idle r.
  Proof.
    intros H. cbn [Reader.read_from step]. unfold idle_step.
    apply N.eqb_neq in H. rewrite H. reflexivity.
  Qed.

  Lemma read_dec_digits : forall ds acc r,
    forallb is_digit ds = true ->
    read_from (Dec acc) (ds ++ c_semi :: r) = num (num_of 10 (rev acc ++ ds)) ++ read_from Idle r.
  Proof.
    induction ds as [|d ds IH]; intros acc r H.
    - cbn [app Reader.read_from step]. change (is_digit c_semi) with false. cbn iota.
      change (c_semi =? c_semi) with true. cbn iota. now rewrite app_nil_r.
    - cbn [forallb] in H. apply andb_prop in H as [Hd Hs].
      cbn [app Reader.read_from step]. rewrite Hd. cbn [app]. rewrite IH by exact Hs.
      cbn [rev]. now rewrite <- app_assoc.
  Qed.

  Lemma read_amp r : read_from Idle (c_amp :: r) = read_from Amp r.
  Proof. cbn [Reader.read_from step]. unfold idle_step. change (c_amp =? c_amp) with true. reflexivity. Qed.
  Lemma read_amp_hash r : read_from Amp (c_hash :: r) = read_from Hash r.
  Proof. cbn [Reader.read_from step]. change (c_hash =? c_hash) with true. reflexivity. Qed.
  Lemma read_hash_digit d r : is_digit d = true -> read_from Hash (d :: r) = read_from (Dec [d]) r.
  Proof. intros H. cbn [Reader.read_from step]. rewrite H. reflexivity. Qed.

  Lemma read_charref c r : read_from Idle (charref c ++ r) = num c ++ read_from Idle r.
  Proof.
    unfold charref. pose proof (decimal_nonempty c) as Hne. pose proof (decimal_digits c) as Hd.
    pose proof (decimal_value c) as Hv.
    destruct (decimal c) as [|d ds]; [contradiction|].
    cbn [forallb] in Hd. apply andb_prop in Hd as [Hd0 Hds].
    cbn [app]. rewrite read_amp, read_amp_hash, read_hash_digit by exact Hd0.
    rewrite <- app_assoc. cbn [app].
    rewrite read_dec_digits by exact Hds. cbn [rev app]. now rewrite Hv.
  Qed.

  (* a named reference closed by ';' (name: a letter, then name characters) *)
  Lemma read_named_run : forall nm acc r,
    forallb is_namechar nm = true ->
    read_from (Named acc) (nm ++ c_semi :: r) = resolve_named ent (rev nm ++ acc) ++ read_from Idle r.
  Proof.
    induction nm as [|d nm IH]; intros acc r H.
    - cbn [app Reader.read_from step rev]. change (is_namechar c_semi) with false. cbn iota.
      change (c_semi =? c_semi) with true. reflexivity.
    - cbn [forallb] in H. apply andb_prop in H as [Hd Hs].
      cbn [app Reader.read_from step]. rewrite Hd. cbn [app]. rewrite IH by exact Hs.
      cbn [rev]. now rewrite <- app_assoc.
  Qed.

  Lemma read_named a nm r chars :
    is_alpha a = true -> a <> c_hash -> forallb is_namechar nm = true -> ent (a :: nm) = Some chars ->
    read_from Idle (c_amp :: a :: nm ++ c_semi :: r) = chars ++ read_from Idle r.
  Proof.
    intros Ha Hh Hn He. rewrite read_amp. cbn [Reader.read_from step].
    apply N.eqb_neq in Hh. rewrite Hh, Ha. cbn [app].
    rewrite read_named_run by exact Hn. unfold resolve_named.
    rewrite rev_app_distr, rev_involutive. cbn [rev app]. now rewrite He.
  Qed.
End ReaderFacts.

(* ================================================================== *)
(* D. lossless: what the reader makes of the replaced text             *)
(* ================================================================== *)

Lemma xml_entity_for_is :
  xml_entity_for = [(60, [38; 108; 116; 59]); (62, [38; 103; 116; 59]); (38, [38; 97; 109; 112; 59])].
Proof. reflexivity. Qed.

Definition xml_block (c : N) : str :=
  if c =? 60 then [38; 108; 116; 59] else if c =? 62 then [38; 103; 116; 59]
  else if c =? 38 then [38; 97; 109; 112; 59] else [c].

Lemma subst_xml_cons c t : subst_xml (c :: t) = xml_block c ++ subst_xml t.
Proof.
  unfold subst_xml at 1. cbn [flat_map]. fold (subst_xml t). f_equal.
  rewrite xml_entity_for_is. unfold xml_block. cbn [assocN].
  destruct (c =? 60); [reflexivity|]. destruct (c =? 62); [reflexivity|]. destruct (c =? 38); reflexivity.
Qed.

Lemma memN_app x a b : memN x (a ++ b) = memN x a || memN x b.
Proof. apply existsb_app. Qed.

Lemma memN_In x l : memN x l = true <-> In x l.
Proof.
  unfold memN. rewrite existsb_exists. split.
  - intros [y [Hy E]]. apply N.eqb_eq in E. now subst.
  - intros H. exists x. split; [exact H | apply N.eqb_refl].
Qed.

Lemma memN_subst_xml q v : (q = c_dq \/ q = c_sq) -> memN q (subst_xml v) = memN q v.
Proof.
  intros Hq. induction v as [|c v IH]; [reflexivity|].
  rewrite subst_xml_cons, memN_app, IH. change (memN q (c :: v)) with ((q =? c) || memN q v). f_equal.
  unfold xml_block.
  destruct (c =? 60) eqn:E1; [apply N.eqb_eq in E1; subst c; destruct Hq; subst q; reflexivity|].
  destruct (c =? 62) eqn:E2; [apply N.eqb_eq in E2; subst c; destruct Hq; subst q; reflexivity|].
  destruct (c =? 38) eqn:E3; [apply N.eqb_eq in E3; subst c; destruct Hq; subst q; reflexivity|].
  cbn. now rewrite orb_false_r.
Qed.

Section Lossless.
  Variable enc_char : N -> option (list N).
  Variable ent : str -> option str.
  Variable num : N -> str.
  Notation encodable := (encodable enc_char).
  Notation xcr_text := (xcr_text enc_char).
  Notation read_from := (read_from ent num).
  Notation read := (read ent num).

  Hypothesis Hascii : ascii_ok enc_char.
  Hypothesis ent_amp : ent [97; 109; 112] = Some [38].
  Hypothesis ent_lt : ent [108; 116] = Some [60].
  Hypothesis ent_gt : ent [103; 116] = Some [62].
  Hypothesis ent_quot : ent [113; 117; 111; 116] = Some [34].

  (* the reference of an unencodable character reads back as that character *)
  Definition ref_ok (c : N) : Prop := encodable c = false -> num c = [c].

  Lemma xcr_ascii s : forallb (fun c => c <? 128) s = true -> xcr_text s = s.
  Proof.
    intros H. apply xcr_text_id. rewrite forallb_forall in *. intros c Hc. apply Hascii. apply N.ltb_lt. auto.
  Qed.

  Lemma read_xcr_char c r :
    c <> c_amp -> ref_ok c -> read_from Idle (xcr_text [c] ++ r) = c :: read_from Idle r.
  Proof.
    intros Hc Hr. cbn [Encode.xcr_text flat_map]. rewrite app_nil_r. unfold xcr_char.
    destruct (encodable c) eqn:E.
    - cbn [app]. now apply read_plain.
    - rewrite read_charref, (Hr E). reflexivity.
  Qed.

  Lemma read_text_block c r :
    ref_ok c -> read_from Idle (xcr_text (xml_block c) ++ r) = c :: read_from Idle r.
  Proof.
    intros Hr. unfold xml_block.
    destruct (c =? 60) eqn:E1.
    { apply N.eqb_eq in E1. subst c. rewrite xcr_ascii by reflexivity.
      exact (read_named ent num 108 [116] r [60] eq_refl ltac:(discriminate) eq_refl ent_lt). }
    destruct (c =? 62) eqn:E2.
    { apply N.eqb_eq in E2. subst c. rewrite xcr_ascii by reflexivity.
      exact (read_named ent num 103 [116] r [62] eq_refl ltac:(discriminate) eq_refl ent_gt). }
    destruct (c =? 38) eqn:E3.
    { apply N.eqb_eq in E3. subst c. rewrite xcr_ascii by reflexivity.
      exact (read_named ent num 97 [109; 112] r [38] eq_refl ltac:(discriminate) eq_refl ent_amp). }
    apply read_xcr_char; [|exact Hr]. apply N.eqb_neq in E3. exact E3.
  Qed.

  (* text: substitute, replace what cannot be encoded, read back *)
  Theorem lossless_text_gen t r :
    (forall c, In c t -> ref_ok c) ->
    read_from Idle (xcr_text (subst_xml t) ++ r) = t ++ read_from Idle r.
  Proof.
    induction t as [|c t IH]; intros H; [reflexivity|].
    rewrite subst_xml_cons, xcr_text_app, <- app_assoc, read_text_block by (apply H; now left).
    cbn [app]. f_equal. apply IH. intros d Hd. apply H. now right.
  Qed.

  Theorem lossless_text t :
    (forall c, In c t -> ref_ok c) -> read (xcr_text (subst_xml t)) = t.
  Proof.
    intros H. unfold Reader.read. rewrite <- (app_nil_r (xcr_text (subst_xml t))).
    rewrite lossless_text_gen by exact H. cbn. now rewrite app_nil_r.
  Qed.

  (* attribute values *)
  Definition quot_map (s : str) : str := flat_map (fun c => if c =? c_dq then s_quot_ent else [c]) s.
  Definition attr_body (w : str) : str := if memN c_dq w && memN c_sq w then quot_map w else w.
  Definition attr_quote (w : str) : N := if memN c_dq w && negb (memN c_sq w) then c_sq else c_dq.

  Lemma quoted_shape w : quoted_attribute_value w = attr_quote w :: attr_body w ++ [attr_quote w].
  Proof.
    unfold quoted_attribute_value, attr_quote, attr_body.
    destruct (memN c_dq w); destruct (memN c_sq w); reflexivity.
  Qed.

  Lemma quot_map_no_dq s : ~ In c_dq (quot_map s).
  Proof.
    induction s as [|c s IH]; [intros []|]. unfold quot_map. cbn [flat_map]. fold (quot_map s).
    intros H. apply in_app_or in H as [H|H]; [|now apply IH].
    destruct (c =? c_dq) eqn:E.
    - unfold s_quot_ent in H. cbn in H. repeat (destruct H as [H|H]; [discriminate|]). exact H.
    - destruct H as [H|[]]. subst c. now rewrite N.eqb_refl in E.
  Qed.

  Lemma quote_not_in_body w : ~ In (attr_quote w) (attr_body w).
  Proof.
    unfold attr_quote, attr_body.
    destruct (memN c_dq w) eqn:D; destruct (memN c_sq w) eqn:S; cbn [andb negb].
    - apply quot_map_no_dq.
    - intros H. apply memN_In in H. congruence.
    - intros H. apply memN_In in H. congruence.
    - intros H. apply memN_In in H. congruence.
  Qed.

  Lemma in_xcr_text x s : In x (xcr_text s) -> In x s \/ x = c_amp \/ x = c_hash \/ x = c_semi \/ is_digit x = true.
  Proof.
    induction s as [|c s IH]; [intros []|]. cbn [Encode.xcr_text flat_map]. fold (xcr_text s).
    intros H. apply in_app_or in H as [H|H].
    - unfold xcr_char in H. destruct (encodable c).
      + destruct H as [H|[]]. left. now left.
      + right. unfold charref in H. destruct H as [H|[H|H]].
        * left. now symmetry.
        * right. left. now symmetry.
        * apply in_app_or in H as [H|[H|[]]].
          -- right. right. right. pose proof (decimal_digits c) as Hd. rewrite forallb_forall in Hd. auto.
          -- right. right. left. now symmetry.
    - destruct (IH H) as [G|G]; [left; now right | now right].
  Qed.

  Lemma quote_not_in_xcr_body w : ~ In (attr_quote w) (xcr_text (attr_body w)).
  Proof.
    intros H. apply in_xcr_text in H as [H|H]; [now apply (quote_not_in_body w)|].
    unfold attr_quote in H. destruct (memN c_dq w && negb (memN c_sq w));
      destruct H as [H|[H|[H|H]]]; try discriminate; vm_compute in H; discriminate.
  Qed.

  Definition attr_block (both : bool) (c : N) : str :=
    if both then quot_map (xml_block c) else xml_block c.

  Lemma read_attr_block both c r :
    ref_ok c -> read_from Idle (xcr_text (attr_block both c) ++ r) = c :: read_from Idle r.
  Proof.
    intros Hr. destruct both; [|now apply read_text_block]. unfold attr_block.
    destruct (c =? c_dq) eqn:E.
    - apply N.eqb_eq in E. subst c. change (quot_map (xml_block c_dq)) with s_quot_ent.
      rewrite xcr_ascii by reflexivity.
      exact (read_named ent num 113 [117; 111; 116] r [34] eq_refl ltac:(discriminate) eq_refl ent_quot).
    - assert (G : quot_map (xml_block c) = xml_block c).
      { unfold xml_block. destruct (c =? 60); [reflexivity|]. destruct (c =? 62); [reflexivity|].
        destruct (c =? 38); [reflexivity|]. unfold quot_map. cbn [flat_map]. now rewrite E. }
      rewrite G. now apply read_text_block.
  Qed.

  Lemma quot_map_app a b : quot_map (a ++ b) = quot_map a ++ quot_map b.
  Proof. apply flat_map_app. Qed.

  Lemma attr_body_blocks (both : bool) v :
    (if both then quot_map (subst_xml v) else subst_xml v) = flat_map (attr_block both) v.
  Proof.
    induction v as [|c v IH]; [now destruct both|].
    rewrite subst_xml_cons. cbn [flat_map]. rewrite <- IH. destruct both; [apply quot_map_app | reflexivity].
  Qed.

  Lemma read_blocks both v r :
    (forall c, In c v -> ref_ok c) ->
    read_from Idle (xcr_text (flat_map (attr_block both) v) ++ r) = v ++ read_from Idle r.
  Proof.
    induction v as [|c v IH]; intros H; [reflexivity|].
    cbn [flat_map]. rewrite xcr_text_app, <- app_assoc, read_attr_block by (apply H; now left).
    cbn [app]. f_equal. apply IH. intros d Hd. apply H. now right.
  Qed.

  (* an attribute value: substituted, quoted, replaced. The bytes stand for q body' q where q is a quote
     that does not occur in body' (so a parser finds the closing quote) and body' reads back as v *)
  Theorem lossless_attr v :
    (forall c, In c v -> ref_ok c) ->
    let w := subst_xml v in
    let q := attr_quote w in
    xcr_text (quoted_attribute_value w) = q :: xcr_text (attr_body w) ++ [q] /\
    (q = c_dq \/ q = c_sq) /\
    ~ In q (xcr_text (attr_body w)) /\
    read (xcr_text (attr_body w)) = v.
  Proof.
    intros H w q. split; [|split; [|split]].
    - rewrite quoted_shape. fold q. change (q :: attr_body w ++ [q]) with ([q] ++ attr_body w ++ [q]).
      rewrite !xcr_text_app.
      assert (Hq : xcr_text [q] = [q]).
      { apply xcr_ascii. unfold q, attr_quote. destruct (memN c_dq w && negb (memN c_sq w)); reflexivity. }
      now rewrite Hq.
    - unfold q, attr_quote. destruct (memN c_dq w && negb (memN c_sq w)); auto.
    - apply quote_not_in_xcr_body.
    - unfold attr_body. subst q w. rewrite (attr_body_blocks (memN c_dq (subst_xml v) && memN c_sq (subst_xml v)) v).
      unfold Reader.read. rewrite <- (app_nil_r (xcr_text _)).
      rewrite read_blocks by exact H. cbn. now rewrite app_nil_r.
  Qed.
End Lossless.

(* ================================================================== *)
(* E. the content="..." scanner                                        *)
(* ================================================================== *)

(* the automaton with its outcome on a prefix made explicit *)
Inductive outcome := OFail | ODone (k : nat) | OMore (st : mstate) (k : nat).

Definition shift (j : nat) (o : outcome) : outcome :=
  match o with OFail => OFail | ODone k => ODone (j + k) | OMore st k => OMore st (j + k) end.

Fixpoint g1_scan (st : mstate) (s : str) : outcome :=
  match s with
  | [] => OMore st 0
  | c :: s' =>
      match st with
      | MW1 =>
          if is_py_ws c then shift 1 (g1_scan MW1 s')
          else if ci_match 99 c then shift 1 (g1_scan (MC O) s') else OFail
      | MC i =>
          match nth_error s_harset i with
          | Some p => if ci_match p c then shift 1 (g1_scan (MC (S i)) s') else OFail
          | None =>
              if is_py_ws c then shift 1 (g1_scan (MC i) s')
              else if c =? 61 then shift 1 (g1_scan MW3 s') else OFail
          end
      | MW3 => if is_py_ws c then shift 1 (g1_scan MW3 s') else ODone 0
      end
  end.

Definition run_of (o : outcome) : option nat :=
  match o with ODone k => Some k | OMore MW3 k => Some k | _ => None end.

Lemma run_of_shift1 o : run_of (shift 1 o) = option_map S (run_of o).
Proof. destruct o as [|k|[| |] k]; reflexivity. Qed.

Lemma run_scan : forall s st, g1_run st s = run_of (g1_scan st s).
Proof.
  induction s as [|c s IH]; intros st; [destruct st; reflexivity|].
  cbn [g1_run g1_scan]. destruct st as [|i|].
  - destruct (is_py_ws c); [now rewrite run_of_shift1, IH|].
    destruct (ci_match 99 c); [now rewrite run_of_shift1, IH | reflexivity].
  - destruct (nth_error s_harset i) as [p|].
    + destruct (ci_match p c); [now rewrite run_of_shift1, IH | reflexivity].
    + destruct (is_py_ws c); [now rewrite run_of_shift1, IH|].
      destruct (c =? 61); [now rewrite run_of_shift1, IH | reflexivity].
  - destruct (is_py_ws c); [now rewrite run_of_shift1, IH | reflexivity].
Qed.

Lemma shift_0 o : shift 0 o = o.
Proof. destruct o; reflexivity. Qed.
Lemma shift_shift a b o : shift a (shift b o) = shift (a + b) o.
Proof. destruct o; cbn; try reflexivity; f_equal; lia. Qed.

Definition then_scan (o : outcome) (b : str) : outcome :=
  match o with OMore st' k => shift k (g1_scan st' b) | r => r end.

Lemma then_scan_shift j o b : then_scan (shift j o) b = shift j (then_scan o b).
Proof. destruct o as [|k|st k]; cbn [shift then_scan]; [reflexivity | reflexivity | now rewrite shift_shift]. Qed.

Lemma scan_app : forall a b st, g1_scan st (a ++ b) = then_scan (g1_scan st a) b.
Proof.
  induction a as [|c a IH]; intros b st.
  - cbn [app g1_scan then_scan]. now rewrite shift_0.
  - cbn [app g1_scan]. destruct st as [|i|].
    + destruct (is_py_ws c); [now rewrite IH, then_scan_shift|].
      destruct (ci_match 99 c); [now rewrite IH, then_scan_shift | reflexivity].
    + destruct (nth_error s_harset i) as [p|].
      * destruct (ci_match p c); [now rewrite IH, then_scan_shift | reflexivity].
      * destruct (is_py_ws c); [now rewrite IH, then_scan_shift|].
        destruct (c =? 61); [now rewrite IH, then_scan_shift | reflexivity].
    + destruct (is_py_ws c); [now rewrite IH, then_scan_shift | reflexivity].
Qed.

Lemma scan_MW3 s : exists k, g1_scan MW3 s = ODone k \/ g1_scan MW3 s = OMore MW3 k.
Proof.
  induction s as [|c s [k IH]]; [exists O; now right|].
  cbn [g1_scan]. destruct (is_py_ws c); [|exists O; now left].
  exists (1 + k)%nat. destruct IH as [-> | ->]; [now left | now right].
Qed.

Lemma run_MW3_some s j : run_of (shift j (g1_scan MW3 s)) <> None.
Proof. destruct (scan_MW3 s) as [k [-> | ->]]; discriminate. Qed.

Lemma shift_more_inv j o st k : shift j o = OMore st k -> exists k', o = OMore st k'.
Proof. destruct o; cbn; try discriminate. intros [= <- _]. now eexists. Qed.

Lemma ws_61 : is_py_ws 61 = false.
Proof. vm_compute. reflexivity. Qed.

(* once '=' has been consumed and the automaton is still alive, it is in the final state *)
Lemma scan_more_eq : forall s st st' k, g1_scan st s = OMore st' k -> In 61 s -> st' = MW3.
Proof.
  induction s as [|c s IH]; intros st st' k H Hin; [destruct Hin|].
  cbn [g1_scan] in H. destruct Hin as [Hc | Hin].
  - subst c. rewrite ws_61 in H. destruct st as [|i|].
    + change (ci_match 99 61) with false in H. discriminate.
    + destruct i as [|[|[|[|[|[|i]]]]]]; cbn [nth_error s_harset] in H;
        try (match type of H with (if ci_match ?p 61 then _ else _) = _ => change (ci_match p 61) with false in H end; discriminate).
      assert (Hnil : nth_error (@nil N) i = None) by (destruct i; reflexivity). rewrite Hnil in H.
      change (61 =? 61) with true in H. cbn iota in H.
      apply shift_more_inv in H as [k' H]. destruct (scan_MW3 s) as [j [G | G]]; rewrite G in H; [discriminate|].
      now injection H as <- _.
    + discriminate.
  - destruct st as [|i|].
    + destruct (is_py_ws c); [apply shift_more_inv in H as [k' H]; eauto|].
      destruct (ci_match 99 c); [apply shift_more_inv in H as [k' H]; eauto | discriminate].
    + destruct (nth_error s_harset i) as [p|].
      * destruct (ci_match p c); [apply shift_more_inv in H as [k' H]; eauto | discriminate].
      * destruct (is_py_ws c); [apply shift_more_inv in H as [k' H]; eauto|].
        destruct (c =? 61); [apply shift_more_inv in H as [k' H]; eauto | discriminate].
    + destruct (is_py_ws c); [apply shift_more_inv in H as [k' H]; eauto | discriminate].
Qed.

Lemma option_map_S_inv o k : option_map S o = Some k -> exists k', k = S k' /\ o = Some k'.
Proof. destruct o; cbn; [intros [= <-]; eauto | discriminate]. Qed.

(* group 1 is consumed exactly, ending in the final state *)
Lemma run_scan_firstn : forall t st k, g1_run st t = Some k -> g1_scan st (firstn k t) = OMore MW3 k.
Proof.
  induction t as [|c t IH]; intros st k H.
  - destruct st; cbn in H; try discriminate. injection H as <-. reflexivity.
  - cbn [g1_run] in H. destruct st as [|i|].
    + destruct (is_py_ws c) eqn:W.
      { apply option_map_S_inv in H as [k' [-> H]]. cbn [firstn g1_scan]. now rewrite W, (IH _ _ H). }
      destruct (ci_match 99 c) eqn:M; [|discriminate].
      apply option_map_S_inv in H as [k' [-> H]]. cbn [firstn g1_scan]. now rewrite W, M, (IH _ _ H).
    + destruct (nth_error s_harset i) as [p|] eqn:N.
      * destruct (ci_match p c) eqn:M; [|discriminate].
        apply option_map_S_inv in H as [k' [-> H]]. cbn [firstn g1_scan]. now rewrite N, M, (IH _ _ H).
      * destruct (is_py_ws c) eqn:W.
        { apply option_map_S_inv in H as [k' [-> H]]. cbn [firstn g1_scan]. now rewrite N, W, (IH _ _ H). }
        destruct (c =? 61) eqn:E; [|discriminate].
        apply option_map_S_inv in H as [k' [-> H]]. cbn [firstn g1_scan]. now rewrite N, W, E, (IH _ _ H).
    + destruct (is_py_ws c) eqn:W.
      { apply option_map_S_inv in H as [k' [-> H]]. cbn [firstn g1_scan]. now rewrite W, (IH _ _ H). }
      injection H as <-. reflexivity.
Qed.

Lemma run_has_eq : forall t st k, g1_run st t = Some k -> st <> MW3 -> In 61 (firstn k t).
Proof.
  induction t as [|c t IH]; intros st k H Hst.
  - destruct st; cbn in H; try discriminate. contradiction.
  - cbn [g1_run] in H. destruct st as [|i|]; [| |contradiction].
    + destruct (is_py_ws c).
      { apply option_map_S_inv in H as [k' [-> H]]. right. now apply (IH MW1). }
      destruct (ci_match 99 c); [|discriminate].
      apply option_map_S_inv in H as [k' [-> H]]. right. now apply (IH (MC O)).
    + destruct (nth_error s_harset i) as [p|].
      * destruct (ci_match p c); [|discriminate].
        apply option_map_S_inv in H as [k' [-> H]]. right. now apply (IH (MC (S i))).
      * destruct (is_py_ws c).
        { apply option_map_S_inv in H as [k' [-> H]]. right. now apply (IH (MC i)). }
        destruct (c =? 61) eqn:E; [|discriminate].
        apply option_map_S_inv in H as [k' [-> H]]. left. apply N.eqb_eq in E. now symmetry.
Qed.

Lemma run_len : forall t st k, g1_run st t = Some k -> (k <= length t)%nat.
Proof.
  induction t as [|c t IH]; intros st k H.
  - destruct st; cbn in H; try discriminate. injection H as <-. cbn. lia.
  - cbn [g1_run] in H. cbn [length].
    destruct st as [|i|];
      repeat match type of H with
             | (if ?b then _ else _) = _ => destruct b
             | match ?o with Some _ => _ | None => _ end = _ => destruct o
             end;
      try discriminate;
      try (apply option_map_S_inv in H as [k' [-> H]]; apply IH in H; lia);
      try (injection H as <-; lia).
Qed.

(* a replacement value that does not start with a blank (every encoding name) *)
Definition clean (e : str) : Prop := match e with [] => True | c :: _ => is_py_ws c = false end.

Lemma firstn_app_exact {X} (a b : list X) k : length a = k -> firstn k (a ++ b) = a.
Proof. intros <-. rewrite firstn_app, Nat.sub_diag, firstn_all. cbn. apply app_nil_r. Qed.
Lemma skipn_app_exact {X} (a b : list X) k : length a = k -> skipn k (a ++ b) = b.
Proof. intros <-. rewrite skipn_app, Nat.sub_diag, skipn_all. reflexivity. Qed.

(* G2: the same group 1 is found again when the value is replaced *)
Lemma run_replace st t k e : g1_run st t = Some k -> clean e -> g1_run st (firstn k t ++ e) = Some k.
Proof.
  intros H He. rewrite run_scan, scan_app, (run_scan_firstn _ _ _ H). cbn [then_scan].
  destruct e as [|c e]; cbn [g1_scan shift run_of]; [now rewrite Nat.add_0_r|].
  unfold clean in He. rewrite He. cbn [shift run_of]. now rewrite Nat.add_0_r.
Qed.

(* G3: an attempt that fails before a later match fails in the same way when that match's value changes *)
Lemma run_fail_stable st x t k e :
  g1_run st (x ++ t) = None -> g1_run MW1 t = Some k -> g1_run st (x ++ firstn k t ++ e) = None.
Proof.
  intros Hn Hk. rewrite <- (firstn_skipn k t) in Hn.
  rewrite app_assoc, run_scan, scan_app in Hn. rewrite app_assoc, run_scan, scan_app.
  destruct (g1_scan st (x ++ firstn k t)) as [|j|st2 j] eqn:R; cbn [then_scan] in *; [reflexivity | discriminate|].
  assert (st2 = MW3).
  { apply (scan_more_eq _ _ _ _ R). apply in_or_app. right. apply (run_has_eq _ _ _ Hk). discriminate. }
  subst st2. exfalso. now apply (run_MW3_some _ _ Hn).
Qed.

(* G4: an attempt that fails on x ++ t also fails on x alone *)
Lemma run_fail_prefix st x t : g1_run st (x ++ t) = None -> g1_run st x = None.
Proof.
  intros Hn. rewrite run_scan, scan_app in Hn. rewrite run_scan.
  destruct (g1_scan st x) as [|j|st2 j] eqn:R; cbn [then_scan] in *; [reflexivity | discriminate|].
  destruct st2; try reflexivity. exfalso. now apply (run_MW3_some _ _ Hn).
Qed.

(* ---- inside a field ---- *)
Lemma line_search_cases e s :
  line_search e s = s \/
  exists pre t k, s = pre ++ 10 :: t /\ ws_charset t = Some k /\
                  line_search e s = pre ++ 10 :: match_repl e (firstn k t).
Proof.
  induction s as [|c s IH]; [now left|]. cbn [line_search].
  destruct (c =? 10) eqn:E.
  - apply N.eqb_eq in E. subst c. destruct (ws_charset s) as [k|] eqn:W.
    + right. exists [], s, k. repeat split; auto.
    + destruct IH as [-> | [pre [t [k [-> [Hk ->]]]]]]; [now left|].
      right. exists (10 :: pre), t, k. repeat split; auto.
  - destruct IH as [-> | [pre [t [k [-> [Hk ->]]]]]]; [now left|].
    right. exists (c :: pre), t, k. repeat split; auto.
Qed.

Lemma ws_line_search_some e s : ws_charset s = None -> ws_charset (line_search (Some e) s) = None.
Proof.
  intros H. destruct (line_search_cases (Some e) s) as [-> | [pre [t [k [-> [Hk ->]]]]]]; [exact H|].
  cbn [match_repl]. unfold ws_charset in *.
  change (pre ++ 10 :: t) with (pre ++ [10] ++ t) in H. rewrite app_assoc in H.
  change (pre ++ 10 :: firstn k t ++ e) with (pre ++ [10] ++ firstn k t ++ e). rewrite app_assoc.
  now apply run_fail_stable.
Qed.

Lemma ws_line_search_none s : ws_charset s = None -> ws_charset (line_search None s) = None.
Proof.
  intros H. destruct (line_search_cases None s) as [-> | [pre [t [k [-> [Hk ->]]]]]]; [exact H|].
  cbn [match_repl]. unfold ws_charset in *.
  change (pre ++ 10 :: t) with (pre ++ [10] ++ t) in H. rewrite app_assoc in H.
  change (pre ++ [10]) with (pre ++ [10]). apply (run_fail_prefix _ _ _ H).
Qed.

Lemma line_value_search e s : clean e ->
  line_value (line_search (Some e) s) = option_map (fun _ => e) (line_value s).
Proof.
  intros He. induction s as [|c s IH]; [reflexivity|].
  cbn [line_search line_value]. destruct (c =? 10) eqn:E; [|exact IH].
  destruct (ws_charset s) as [k|] eqn:W.
  - cbn [match_repl]. unfold ws_charset in *. rewrite (run_replace _ _ _ _ W He).
    rewrite skipn_app_exact; [reflexivity|]. apply firstn_length_le. now apply (run_len _ _ _ W).
  - rewrite (ws_line_search_some e s W). exact IH.
Qed.

Lemma line_search_idem e1 e2 s : clean e1 ->
  line_search (Some e2) (line_search (Some e1) s) = line_search (Some e2) s.
Proof.
  intros He. induction s as [|c s IH]; [reflexivity|].
  cbn [line_search]. destruct (c =? 10) eqn:E; [|now rewrite IH].
  destruct (ws_charset s) as [k|] eqn:W.
  - cbn [match_repl]. unfold ws_charset in *. rewrite (run_replace _ _ _ _ W He). cbn [match_repl].
    rewrite firstn_app_exact; [reflexivity|]. apply firstn_length_le. now apply (run_len _ _ _ W).
  - rewrite (ws_line_search_some e1 s W). now rewrite IH.
Qed.

Lemma line_value_none_search e s : line_value s = None -> line_search e s = s.
Proof.
  induction s as [|c s IH]; [reflexivity|]. cbn [line_value line_search].
  destruct (c =? 10); [|intros H; now rewrite IH].
  destruct (ws_charset s); [discriminate|]. intros H. now rewrite IH.
Qed.

Lemma line_value_search_none s : line_value (line_search None s) = None.
Proof.
  induction s as [|c s IH]; [reflexivity|]. cbn [line_search].
  destruct (c =? 10) eqn:E; cbn [line_value]; rewrite E; [|exact IH].
  destruct (ws_charset s) as [k|] eqn:W; [reflexivity|].
  now rewrite (ws_line_search_none s W).
Qed.

(* ---- one field ---- *)
Definition sub_body (e : str) (f : str) : str :=
  match ws_charset f with
  | Some k => firstn k f ++ e
  | None => line_search (Some e) f
  end.

Lemma sub_field_some e lead f : sub_field (Some e) lead f = lead ++ sub_body e f.
Proof.
  unfold sub_field, sub_body. destruct (ws_charset f); cbn [match_repl]; [now rewrite app_assoc | reflexivity].
Qed.

Lemma field_value_sub_body e f : clean e ->
  field_value (sub_body e f) = option_map (fun _ => e) (field_value f).
Proof.
  intros He. unfold sub_body, field_value at 2. destruct (ws_charset f) as [k|] eqn:W.
  - unfold field_value, ws_charset in *. rewrite (run_replace _ _ _ _ W He).
    rewrite skipn_app_exact; [reflexivity|]. apply firstn_length_le. now apply (run_len _ _ _ W).
  - unfold field_value. rewrite (ws_line_search_some e f W). now apply line_value_search.
Qed.

Lemma sub_body_idem e1 e2 f : clean e1 -> sub_body e2 (sub_body e1 f) = sub_body e2 f.
Proof.
  intros He. unfold sub_body at 2 3. destruct (ws_charset f) as [k|] eqn:W.
  - unfold sub_body, ws_charset in *. rewrite (run_replace _ _ _ _ W He).
    rewrite firstn_app_exact; [reflexivity|]. apply firstn_length_le. now apply (run_len _ _ _ W).
  - unfold sub_body. rewrite (ws_line_search_some e1 f W). now apply line_search_idem.
Qed.

Lemma in_firstn {X} (x : X) k l : In x (firstn k l) -> In x l.
Proof.
  revert l. induction k as [|k IH]; intros [|y l]; cbn [firstn In]; try tauto.
  intros [H|H]; [now left | right; now apply IH].
Qed.

Lemma in_line_search x e s : In x (line_search e s) -> In x s \/ (match e with Some n => In x n | None => False end).
Proof.
  induction s as [|c s IH]; [intros []|]. cbn [line_search]. intros [H|H]; [left; now left|].
  destruct (c =? 10).
  - destruct (ws_charset s) as [k|].
    + destruct e as [n|]; cbn [match_repl] in H; [|destruct H].
      apply in_app_or in H as [H|H]; [left; right; eapply in_firstn; eauto | now right].
    + destruct (IH H); [left; now right | now right].
  - destruct (IH H); [left; now right | now right].
Qed.

Lemma sub_body_no_semi e f : ~ In c_semi e -> ~ In c_semi f -> ~ In c_semi (sub_body e f).
Proof.
  intros He Hf H. unfold sub_body in H. destruct (ws_charset f) as [k|].
  - apply in_app_or in H as [H|H]; [apply Hf; eapply in_firstn; eauto | auto].
  - apply in_line_search in H as [H|H]; auto.
Qed.

(* ---- fields ---- *)
Definition join_semi (fs : list str) : str :=
  match fs with [] => [] | f0 :: r => f0 ++ flat_map (fun f => c_semi :: f) r end.

Lemma split_semi_nonempty v : split_semi v <> [].
Proof.
  destruct v as [|c v]; [discriminate|]. cbn [split_semi].
  destruct (c =? c_semi); [discriminate|]. destruct (split_semi v); discriminate.
Qed.

Lemma join_split v : join_semi (split_semi v) = v.
Proof.
  induction v as [|c v IH]; [reflexivity|]. cbn [split_semi].
  pose proof (split_semi_nonempty v) as Hne. destruct (split_semi v) as [|f fs]; [contradiction|].
  destruct (c =? c_semi) eqn:E.
  - apply N.eqb_eq in E. subst c. cbn [join_semi app flat_map]. cbn [join_semi] in IH. now rewrite IH.
  - cbn [join_semi] in *. cbn [app]. now rewrite IH.
Qed.

Lemma split_semi_no_semi v : Forall (fun f => ~ In c_semi f) (split_semi v).
Proof.
  induction v as [|c v IH]; [repeat constructor; intros []|]. cbn [split_semi].
  destruct (c =? c_semi) eqn:E; [constructor; [intros []|exact IH]|].
  destruct (split_semi v) as [|f fs]; [repeat constructor; intros [H|[]]; subst; now rewrite N.eqb_refl in E|].
  inversion IH as [|? ? Hf Hfs]; subst. constructor; [|exact Hfs].
  intros [H|H]; [subst; now rewrite N.eqb_refl in E | auto].
Qed.

Lemma split_no_semi f : ~ In c_semi f -> split_semi f = [f].
Proof.
  induction f as [|c f IH]; [reflexivity|]. intros H. cbn [split_semi].
  destruct (c =? c_semi) eqn:E; [apply N.eqb_eq in E; subst; exfalso; apply H; now left|].
  rewrite IH; [reflexivity|]. intros G. apply H. now right.
Qed.

Lemma split_app_semi a b : ~ In c_semi a -> split_semi (a ++ c_semi :: b) = a :: split_semi b.
Proof.
  induction a as [|c a IH]; intros H.
  - cbn [app split_semi]. now rewrite N.eqb_refl.
  - cbn [app split_semi]. destruct (c =? c_semi) eqn:E; [apply N.eqb_eq in E; subst; exfalso; apply H; now left|].
    rewrite IH; [reflexivity|]. intros G. apply H. now right.
Qed.

Lemma split_join fs : fs <> [] -> Forall (fun f => ~ In c_semi f) fs -> split_semi (join_semi fs) = fs.
Proof.
  induction fs as [|f0 fs IH]; [contradiction|]. intros _ H. inversion H as [|? ? H0 Hr]; subst.
  destruct fs as [|f1 fs].
  - cbn [join_semi flat_map]. rewrite app_nil_r. now apply split_no_semi.
  - cbn [join_semi flat_map]. cbn [join_semi] in IH.
    change (f0 ++ (c_semi :: f1) ++ flat_map (fun f => c_semi :: f) fs)
      with (f0 ++ c_semi :: (f1 ++ flat_map (fun f => c_semi :: f) fs)).
    rewrite split_app_semi by exact H0. f_equal. apply IH; [discriminate | exact Hr].
Qed.

Lemma flat_map_lead (g : str -> str) fs :
  flat_map (fun f => [c_semi] ++ g f) fs = flat_map (fun f => c_semi :: f) (map g fs).
Proof. induction fs as [|f fs IH]; [reflexivity|]. cbn [flat_map map]. now rewrite IH. Qed.

Lemma content_sub_some e v : content_sub (Some e) v = join_semi (map (sub_body e) (split_semi v)).
Proof.
  unfold content_sub. pose proof (split_semi_nonempty v) as Hne.
  destruct (split_semi v) as [|f0 fs]; [contradiction|].
  cbn [map join_semi]. rewrite sub_field_some. cbn [app]. f_equal.
  rewrite <- flat_map_lead. apply flat_map_ext. intros f. apply sub_field_some.
Qed.

Lemma sub_bodies_no_semi e v : ~ In c_semi e ->
  Forall (fun f => ~ In c_semi f) (map (sub_body e) (split_semi v)).
Proof.
  intros He. pose proof (split_semi_no_semi v) as H. induction H; cbn [map]; constructor; auto.
  now apply sub_body_no_semi.
Qed.

Lemma map_nonempty {X Y} (g : X -> Y) l : l <> [] -> map g l <> [].
Proof. destruct l; [contradiction | discriminate]. Qed.

(* T2: after the substitution every charset parameter of the value names the encoding, and no other
   parameter appeared or disappeared *)
Theorem content_params_rewritten e v : clean e -> ~ In c_semi e ->
  charset_params (content_sub (Some e) v) = map (option_map (fun _ => e)) (charset_params v).
Proof.
  intros Hc Hs. unfold charset_params. rewrite content_sub_some.
  rewrite split_join; [| apply map_nonempty, split_semi_nonempty | now apply sub_bodies_no_semi].
  rewrite !map_map. apply map_ext. intros f. now apply field_value_sub_body.
Qed.

(* T3: rendering, re-reading and rendering again in another encoding = rendering in that encoding *)
Theorem content_sub_twice e1 e2 v : clean e1 -> ~ In c_semi e1 ->
  content_sub (Some e2) (content_sub (Some e1) v) = content_sub (Some e2) v.
Proof.
  intros Hc Hs. rewrite (content_sub_some e1 v), (content_sub_some e2 (join_semi _)).
  rewrite split_join; [| apply map_nonempty, split_semi_nonempty | now apply sub_bodies_no_semi].
  rewrite content_sub_some, map_map. f_equal. apply map_ext. intros f. now apply sub_body_idem.
Qed.

(* T1: a value without a charset parameter is left alone, whatever the encoding *)
Theorem content_sub_no_param e v :
  (forall o, In o (charset_params v) -> o = None) -> content_sub e v = v.
Proof.
  intros H. unfold content_sub. pose proof (join_split v) as J. unfold charset_params in H.
  assert (G : forall lead f, In f (split_semi v) -> sub_field e lead f = lead ++ f).
  { intros lead f Hf. specialize (H (field_value f) (in_map _ _ _ Hf)).
    unfold field_value in H. unfold sub_field. destruct (ws_charset f); [discriminate|].
    now rewrite line_value_none_search. }
  destruct (split_semi v) as [|f0 fs]; [exact J|].
  cbn [join_semi] in J. rewrite (G [] f0) by now left. cbn [app].
  transitivity (f0 ++ flat_map (fun f => c_semi :: f) fs); [|exact J]. f_equal.
  assert (G' : forall f, In f fs -> sub_field e [c_semi] f = c_semi :: f) by (intros f Hf; apply (G [c_semi] f); now right).
  clear - G'. induction fs as [|f fs IH]; [reflexivity|]. cbn [flat_map].
  rewrite (G' f) by now left. f_equal. apply IH. intros g Hg. apply G'. now right.
Qed.

(* T4: with a python-specific target no charset parameter remains *)
Definition kept_bodies (fs : list str) : list str :=
  flat_map (fun f => match ws_charset f with Some _ => [] | None => [line_search None f] end) fs.

Lemma content_sub_none v :
  content_sub None v =
  match split_semi v with
  | [] => []
  | f0 :: fs => join_semi ((match ws_charset f0 with Some _ => [] | None => line_search None f0 end) :: kept_bodies fs)
  end.
Proof.
  unfold content_sub. destruct (split_semi v) as [|f0 fs]; [reflexivity|].
  cbn [join_semi].
  assert (E1 : sub_field None [] f0 = match ws_charset f0 with Some _ => [] | None => line_search None f0 end).
  { unfold sub_field. destruct (ws_charset f0); reflexivity. }
  assert (E2 : flat_map (sub_field None [c_semi]) fs = flat_map (fun f => c_semi :: f) (kept_bodies fs)).
  { unfold kept_bodies. induction fs as [|f fs IH]; [reflexivity|]. cbn [flat_map].
    rewrite flat_map_app, IH. f_equal. unfold sub_field.
    destruct (ws_charset f); cbn [match_repl app flat_map]; [reflexivity | now rewrite app_nil_r]. }
  now rewrite E1, E2.
Qed.

Lemma line_search_none_no_semi f : ~ In c_semi f -> ~ In c_semi (line_search None f).
Proof. intros Hf H. apply in_line_search in H as [H|[]]. auto. Qed.

Lemma field_value_nil : field_value [] = None.
Proof. reflexivity. Qed.

Lemma field_value_kept f : ws_charset f = None -> field_value (line_search None f) = None.
Proof.
  intros W. unfold field_value. rewrite (ws_line_search_none f W). apply line_value_search_none.
Qed.

Theorem content_params_removed v o : In o (charset_params (content_sub None v)) -> o = None.
Proof.
  unfold charset_params. rewrite content_sub_none.
  pose proof (split_semi_nonempty v) as Hne. pose proof (split_semi_no_semi v) as Hns.
  destruct (split_semi v) as [|f0 fs]; [contradiction|]. inversion Hns as [|? ? H0 Hr]; subst.
  assert (Hk : Forall (fun f => ~ In c_semi f /\ field_value f = None) (kept_bodies fs)).
  { clear H0 Hns Hne. unfold kept_bodies. induction Hr as [|f fs Hf Hfs IH]; [constructor|].
    cbn [flat_map]. destruct (ws_charset f) eqn:W; [exact IH|]. cbn [app]. constructor; [|exact IH].
    split; [now apply line_search_none_no_semi | now apply field_value_kept]. }
  assert (Hh : ~ In c_semi (match ws_charset f0 with Some _ => [] | None => line_search None f0 end) /\
               field_value (match ws_charset f0 with Some _ => [] | None => line_search None f0 end) = None).
  { destruct (ws_charset f0) eqn:W; [split; [intros []|reflexivity]|].
    split; [now apply line_search_none_no_semi | now apply field_value_kept]. }
  rewrite split_join; [|discriminate|].
  - cbn [map]. intros [H|H]; [rewrite <- H; apply Hh|].
    apply in_map_iff in H as [f [<- Hf]]. rewrite Forall_forall in Hk. now apply Hk.
  - constructor; [apply Hh|]. eapply Forall_impl; [|exact Hk]. now intros f [? _].
Qed.

(* the charset="" style *)
Lemma charset_subst_real e : is_python_specific e = false -> charset_subst e = e.
Proof. unfold charset_subst. now intros ->. Qed.
Lemma charset_subst_specific e : is_python_specific e = true -> charset_subst e = [].
Proof. unfold charset_subst. now intros ->. Qed.

(* ================================================================== *)
(* F. placeholders: installation, rendering, the None guard            *)
(* ================================================================== *)

Lemma str_eqb_refl a : str_eqb a a = true.
Proof. now apply str_eqb_eq. Qed.
Lemma str_eqb_sym a b : str_eqb a b = str_eqb b a.
Proof.
  destruct (str_eqb a b) eqn:E1; destruct (str_eqb b a) eqn:E2; try reflexivity.
  - apply str_eqb_eq in E1. subst. now rewrite str_eqb_refl in E2.
  - apply str_eqb_eq in E2. subst. now rewrite str_eqb_refl in E1.
Qed.

Lemma assocS_set_same k v attrs : assocS k (set_attr k v attrs) = Some v.
Proof.
  induction attrs as [|[k' v'] r IH]; cbn [set_attr assocS]; [now rewrite str_eqb_refl|].
  destruct (str_eqb k k') eqn:E; cbn [assocS]; [now rewrite str_eqb_refl | now rewrite E].
Qed.

Lemma assocS_set_other k k2 v attrs : str_eqb k2 k = false -> assocS k2 (set_attr k v attrs) = assocS k2 attrs.
Proof.
  intros H. induction attrs as [|[k' v'] r IH]; cbn [set_attr assocS]; [now rewrite H|].
  destruct (str_eqb k k') eqn:E; cbn [assocS].
  - apply str_eqb_eq in E. subst k'. now rewrite H.
  - now rewrite IH.
Qed.

Lemma in_set_attr k v attrs : In (k, v) (set_attr k v attrs).
Proof.
  induction attrs as [|[k' v'] r IH]; cbn [set_attr]; [now left|].
  destruct (str_eqb k k'); [now left | right; exact IH].
Qed.

Lemma keys_set_attr k v attrs : assocS k attrs <> None -> map fst (set_attr k v attrs) = map fst attrs.
Proof.
  induction attrs as [|[k' v'] r IH]; cbn [set_attr assocS map]; [intros H; now contradiction H|].
  destruct (str_eqb k k') eqn:E; cbn [map fst].
  - apply str_eqb_eq in E. now subst.
  - intros H. now rewrite IH.
Qed.

(* the three outcomes of set_up_substitutions *)
Theorem install_not_meta name attrs : str_eqb name s_meta = false -> set_up_substitutions name attrs = attrs.
Proof. unfold set_up_substitutions. now intros ->. Qed.

Theorem install_charset attrs cs :
  get_str s_charset attrs = Some cs ->
  set_up_substitutions s_meta attrs = set_attr s_charset (ACharset cs) attrs.
Proof. unfold set_up_substitutions. intros ->. reflexivity. Qed.

Definition declares_content_type (attrs : list (str * aval)) : bool :=
  existsb (fun x => str_eqb (lower_ascii x) s_content_type) (get_list s_http_equiv attrs).

Theorem install_content attrs ct :
  get_str s_charset attrs = None -> get_str s_content attrs = Some ct -> declares_content_type attrs = true ->
  set_up_substitutions s_meta attrs = set_attr s_content (AContent ct) attrs.
Proof. unfold set_up_substitutions, declares_content_type. intros -> -> ->. reflexivity. Qed.

Theorem install_none attrs :
  get_str s_charset attrs = None ->
  (get_str s_content attrs = None \/ declares_content_type attrs = false) ->
  set_up_substitutions s_meta attrs = attrs.
Proof.
  unfold set_up_substitutions, declares_content_type. intros -> [-> | H]; [reflexivity|].
  destruct (get_str s_content attrs); [now rewrite H | reflexivity].
Qed.

(* sorting keeps the attributes *)
Lemma in_insert_attr x kv l : In x (insert_attr kv l) <-> x = kv \/ In x l.
Proof.
  induction l as [|kv' r IH]; cbn [insert_attr In]; [intuition|].
  destruct (str_leb (fst kv) (fst kv')); cbn [In]; [intuition|]. rewrite IH. intuition.
Qed.
Lemma in_sorted_attrs x l : In x (sorted_attrs l) <-> In x l.
Proof.
  unfold sorted_attrs. induction l as [|kv r IH]; cbn [fold_right In]; [reflexivity|].
  rewrite in_insert_attr, IH. intuition.
Qed.

(* names made of ordinary characters pass the formatter unchanged and are double-quoted *)
Definition plain_name (e : str) : Prop := forall c, In c e -> c <> 38 /\ c <> 60 /\ c <> 62 /\ c <> 34 /\ c <> 39.

Lemma subst_xml_plain e : plain_name e -> subst_xml e = e.
Proof.
  induction e as [|c e IH]; intros H; [reflexivity|]. rewrite subst_xml_cons, IH.
  - destruct (H c (or_introl eq_refl)) as [H1 [H2 [H3 _]]]. unfold xml_block.
    apply N.eqb_neq in H1, H2, H3. now rewrite H2, H3, H1.
  - intros d Hd. apply H. now right.
Qed.

Lemma memN_false x l : ~ In x l -> memN x l = false.
Proof. intros H. destruct (memN x l) eqn:E; [|reflexivity]. apply memN_In in E. contradiction. Qed.

Lemma quoted_plain e : plain_name e -> quoted_attribute_value e = c_dq :: e ++ [c_dq].
Proof.
  intros H. unfold quoted_attribute_value. rewrite (memN_false c_dq e); [reflexivity|].
  intros G. now destruct (H _ G) as [_ [_ [_ [G1 _]]]].
Qed.

Lemma fmt_subst_plain f e : plain_name e -> fmt_subst f false e = e.
Proof. intros H. destruct f; cbn [fmt_subst]; [now apply subst_xml_plain | reflexivity]. Qed.

Lemma emptybool_off : minimal_empty_attributes_are_booleans = false.
Proof. reflexivity. Qed.

Lemma format_attr_charset e f k o :
  format_attr (Some e) f (k, ACharset o) = k ++ 61 :: quoted_attribute_value (fmt_subst f false (charset_subst e)).
Proof. unfold format_attr. rewrite emptybool_off. reflexivity. Qed.
Lemma format_attr_content e f k o :
  format_attr (Some e) f (k, AContent o) = k ++ 61 :: quoted_attribute_value (fmt_subst f false (content_subst e o)).
Proof. unfold format_attr. rewrite emptybool_off. reflexivity. Qed.

(* meta_rewritten, charset="..." style, from the raw attributes of a parsed <meta> to the rendered piece *)
Theorem meta_charset_rewritten attrs cs e f :
  get_str s_charset attrs = Some cs -> is_python_specific e = false -> plain_name e ->
  In (s_charset ++ 61 :: c_dq :: e ++ [c_dq])
     (map (format_attr (Some e) f) (sorted_attrs (set_up_substitutions s_meta attrs))).
Proof.
  intros Hg Hp Hn. rewrite (install_charset _ _ Hg). apply in_map_iff.
  exists (s_charset, ACharset cs). split.
  - rewrite format_attr_charset, charset_subst_real, fmt_subst_plain, quoted_plain by assumption. reflexivity.
  - apply in_sorted_attrs, in_set_attr.
Qed.

(* python-specific target: the charset attribute is emptied *)
Theorem meta_charset_emptied attrs cs e f :
  get_str s_charset attrs = Some cs -> is_python_specific e = true ->
  In (s_charset ++ [61; c_dq; c_dq])
     (map (format_attr (Some e) f) (sorted_attrs (set_up_substitutions s_meta attrs))).
Proof.
  intros Hg Hp. rewrite (install_charset _ _ Hg). apply in_map_iff.
  exists (s_charset, ACharset cs). split.
  - rewrite format_attr_charset, charset_subst_specific by assumption. now destruct f.
  - apply in_sorted_attrs, in_set_attr.
Qed.

(* meta_rewritten, content="..." style *)
Theorem meta_content_rewritten attrs ct e f :
  get_str s_charset attrs = None -> get_str s_content attrs = Some ct -> declares_content_type attrs = true ->
  is_python_specific e = false ->
  In (s_content ++ 61 :: quoted_attribute_value (fmt_subst f false (content_sub (Some e) ct)))
     (map (format_attr (Some e) f) (sorted_attrs (set_up_substitutions s_meta attrs))).
Proof.
  intros H1 H2 H3 Hp. rewrite (install_content _ _ H1 H2 H3). apply in_map_iff.
  exists (s_content, AContent ct). split.
  - rewrite format_attr_content. unfold content_subst. now rewrite Hp.
  - apply in_sorted_attrs, in_set_attr.
Qed.

(* ---- eventual_encoding = None: rendered as parsed ---- *)
Definition unplace (v : aval) : aval :=
  match v with ACharset o => AStr o | AContent o => AStr o | _ => v end.
Definition unplace_kv (kv : str * aval) : str * aval := (fst kv, unplace (snd kv)).
Definition unplace_head (h : tag_head) : tag_head :=
  mkhead (h_name h) (h_prefix h) (map unplace_kv (h_attrs h)) (h_can_be_empty h) (h_hidden h).
Fixpoint unplace_tree (n : node) : node :=
  match n with
  | Txt c s => Txt c s
  | Elt h kids => Elt (unplace_head h) (map unplace_tree kids)
  end.

Lemma insert_unplace kv l : insert_attr (unplace_kv kv) (map unplace_kv l) = map unplace_kv (insert_attr kv l).
Proof.
  induction l as [|kv' r IH]; [reflexivity|]. cbn [map insert_attr]. cbn [unplace_kv fst].
  destruct (str_leb (fst kv) (fst kv')); [reflexivity|]. cbn [map]. now rewrite IH.
Qed.
Lemma sorted_unplace l : sorted_attrs (map unplace_kv l) = map unplace_kv (sorted_attrs l).
Proof.
  unfold sorted_attrs. induction l as [|kv r IH]; [reflexivity|]. cbn [map fold_right].
  now rewrite IH, insert_unplace.
Qed.
Lemma format_attr_unplace f kv : format_attr None f (unplace_kv kv) = format_attr None f kv.
Proof. destruct kv as [k v]. unfold format_attr, unplace_kv. rewrite emptybool_off. now destruct v. Qed.

Lemma format_attrs_unplace f l :
  map (format_attr None f) (sorted_attrs (map unplace_kv l)) = map (format_attr None f) (sorted_attrs l).
Proof. rewrite sorted_unplace, map_map. apply map_ext. intros kv. apply format_attr_unplace. Qed.

Lemma format_tag_unplace f h b o : format_tag None f (unplace_head h) b o = format_tag None f h b o.
Proof.
  unfold format_tag, unplace_head. cbn [h_hidden h_prefix h_name h_attrs].
  now rewrite format_attrs_unplace.
Qed.

Definition unplace_ev (e : ev) : ev :=
  match e with
  | EvStart h => EvStart (unplace_head h)
  | EvEnd h => EvEnd (unplace_head h)
  | EvEmpty h => EvEmpty (unplace_head h)
  | EvStr c s b => EvStr c s b
  end.

Fixpoint node_ind' (P : node -> Prop) (HT : forall c s, P (Txt c s))
         (HE : forall h kids, Forall P kids -> P (Elt h kids)) (n : node) : P n :=
  match n with
  | Txt c s => HT c s
  | Elt h kids =>
      HE h kids ((fix go (l : list node) : Forall P l :=
                    match l with
                    | [] => Forall_nil P
                    | x :: r => Forall_cons x (node_ind' P HT HE x) (go r)
                    end) kids)
  end.

Lemma flat_map_map_ev (g : node -> list ev) kids :
  Forall (fun n => g (unplace_tree n) = map unplace_ev (g n)) kids ->
  flat_map g (map unplace_tree kids) = map unplace_ev (flat_map g kids).
Proof.
  induction 1 as [|n kids Hn _ IH]; [reflexivity|]. cbn [map flat_map]. now rewrite map_app, Hn, IH.
Qed.

Lemma events_unplace n : forall cd, events cd (unplace_tree n) = map unplace_ev (events cd n).
Proof.
  induction n as [c s | h kids IH] using node_ind'; intros cd; [reflexivity|].
  cbn [unplace_tree events]. destruct kids as [|k kids].
  - cbn [map]. unfold unplace_head at 1. cbn [h_can_be_empty]. now destruct (h_can_be_empty h).
  - change (cdata_parent (unplace_head h)) with (cdata_parent h).
    remember (k :: kids) as ks. rewrite flat_map_map_ev.
    + subst ks. cbn [map]. now rewrite map_app.
    + eapply Forall_impl; [|exact IH]. intros n Hn. apply Hn.
Qed.

Lemma events_contents_unplace n : events_contents (unplace_tree n) = map unplace_ev (events_contents n).
Proof.
  destruct n as [c s | h kids]; [reflexivity|]. cbn [unplace_tree events_contents].
  change (cdata_parent (unplace_head h)) with (cdata_parent h).
  apply flat_map_map_ev. apply Forall_forall. intros n _. apply events_unplace.
Qed.

Lemma events_self_unplace n : events_self (unplace_tree n) = map unplace_ev (events_self n).
Proof.
  destruct n as [c s | h kids]; [reflexivity|].
  unfold events_self. cbn [unplace_tree]. change (h_hidden (unplace_head h)) with (h_hidden h).
  destruct (h_hidden h); [apply (events_contents_unplace (Elt h kids)) | apply (events_unplace (Elt h kids))].
Qed.

Lemma decode_step_unplace f st e : decode_step None f st (unplace_ev e) = decode_step None f st e.
Proof.
  destruct e as [h|h|h|c s b]; cbn [unplace_ev]; unfold decode_step; rewrite ?format_tag_unplace; reflexivity.
Qed.

Lemma decode_loop_unplace f es : forall st,
  decode_loop None f st (map unplace_ev es) = decode_loop None f st es.
Proof.
  induction es as [|e es IH]; intros st; [reflexivity|]. cbn [map decode_loop].
  rewrite decode_step_unplace. destruct (decode_step None f st e) as [st' p]. now rewrite IH.
Qed.

(* meta_untouched: without a target encoding every placeholder is rendered as the value that was parsed *)
Theorem decode_untouched i f t : tag_decode i None f t = tag_decode i None f (unplace_tree t).
Proof. unfold tag_decode. now rewrite events_self_unplace, decode_loop_unplace. Qed.
Theorem decode_contents_untouched i f t :
  tag_decode_contents i None f t = tag_decode_contents i None f (unplace_tree t).
Proof. unfold tag_decode_contents. now rewrite events_contents_unplace, decode_loop_unplace. Qed.

(* ================================================================== *)
(* G. the three entry points                                           *)
(* ================================================================== *)

Lemma encode_contents_policy_is : encode_contents_policy = XmlCharRef.
Proof. reflexivity. Qed.
Lemma default_policy_is : policy_of_name encode_default_errors = XmlCharRef.
Proof. reflexivity. Qed.

Inductive entry := EEncode (indent : option nat) | EPrettify | EEncodeContents (indent : option nat).

(* the str each entry point encodes: all three call decode with eventual_encoding = the target *)
Definition entry_text (ep : entry) (evn : option str) (f : fmt) (t : node) : str :=
  match ep with
  | EEncode i => tag_decode i evn f t
  | EPrettify => tag_decode (Some O) evn f t
  | EEncodeContents i => tag_decode_contents i evn f t
  end.

Definition entry_bytes (enc_char : N -> option (list N)) (bom : list N) (nm : str) (ep : entry) (f : fmt) (t : node)
  : option (list N) :=
  match ep with
  | EEncode i => tag_encode enc_char bom nm i f (policy_of_name encode_default_errors) t
  | EPrettify => tag_prettify_enc enc_char bom nm f t
  | EEncodeContents i => tag_encode_contents enc_char bom nm i f t
  end.

Theorem entry_points_share enc_char bom nm ep f t :
  entry_bytes enc_char bom nm ep f t = str_encode enc_char bom XmlCharRef (entry_text ep (Some nm) f t).
Proof.
  destruct ep; unfold entry_bytes, entry_text, tag_prettify_enc, tag_encode, tag_encode_contents;
    rewrite ?default_policy_is, ?encode_contents_policy_is; reflexivity.
Qed.

Theorem entry_points_total enc_char bom nm ep f t :
  ascii_ok enc_char -> exists b, entry_bytes enc_char bom nm ep f t = Some b.
Proof. intros H. rewrite entry_points_share. now apply encode_total. Qed.

(* without indentation the loop is a plain concatenation of pieces *)
Definition piece (evn : option str) (f : fmt) (e : ev) : str :=
  match e with
  | EvStart h => format_tag evn f h false true
  | EvEmpty h => format_tag evn f h true true
  | EvEnd h => format_tag evn f h false false
  | EvStr cls s cd => output_ready f cls cd s
  end.

Lemma decode_step_flat evn f st e : d_indent st = None ->
  snd (decode_step evn f st e) = piece evn f e /\ d_indent (fst (decode_step evn f st e)) = None.
Proof.
  destruct st as [ind l d]. cbn [d_indent]. intros ->. unfold decode_step. cbn [d_indent d_lit d_depth].
  destruct e as [h|h|h|c s b]; cbn [option_map].
  - destruct l; cbn [negb andb]; [split; reflexivity|]. destruct (should_pretty_print h); split; reflexivity.
  - destruct l as [x|]; [destruct (Nat.eqb x (pred d))|]; split; reflexivity.
  - destruct l; split; reflexivity.
  - destruct l; split; reflexivity.
Qed.

Lemma decode_loop_flat evn f es : forall st, d_indent st = None ->
  decode_loop evn f st es = flat_map (piece evn f) es.
Proof.
  induction es as [|e es IH]; intros st H; [reflexivity|]. cbn [decode_loop flat_map].
  destruct (decode_step_flat evn f st e H) as [H1 H2].
  destruct (decode_step evn f st e) as [st' p]. cbn [fst snd] in *. subst p. now rewrite IH.
Qed.

(* encode(t) = opening tag + encode_contents(t) + closing tag, for any element that is not rendered as a
   void element (no indentation) *)
Theorem decode_open_contents_close evn f h kids :
  h_hidden h = false -> (kids <> [] \/ h_can_be_empty h = false) ->
  tag_decode None evn f (Elt h kids) =
  format_tag evn f h false true ++ tag_decode_contents None evn f (Elt h kids) ++ format_tag evn f h false false.
Proof.
  intros Hh Hk. unfold tag_decode, tag_decode_contents. rewrite !decode_loop_flat by reflexivity.
  unfold events_self. rewrite Hh. cbn [events events_contents].
  destruct kids as [|k kids].
  - destruct Hk as [Hk | Hk]; [contradiction|]. rewrite Hk. cbn [flat_map piece]. now rewrite app_nil_r.
  - cbn [flat_map piece]. rewrite flat_map_app. cbn [flat_map piece]. now rewrite app_nil_r.
Qed.

Theorem encode_open_contents_close enc_char nm f p h kids :
  h_hidden h = false -> (kids <> [] \/ h_can_be_empty h = false) ->
  str_encode_body enc_char p (tag_decode None (Some nm) f (Elt h kids)) =
  lift_app (str_encode_body enc_char p (format_tag (Some nm) f h false true))
           (lift_app (str_encode_body enc_char p (tag_decode_contents None (Some nm) f (Elt h kids)))
                     (str_encode_body enc_char p (format_tag (Some nm) f h false false))).
Proof.
  intros Hh Hk. rewrite (decode_open_contents_close _ _ _ _ Hh Hk). now rewrite !str_encode_body_app.
Qed.

(* ================================================================== *)
(* H. when does a numeric reference read back as its character         *)
(* ================================================================== *)

Definition bytes256 : list N := map N.of_nat (seq 0 256).
Lemma in_bytes256 b : b < 256 -> In b bytes256.
Proof. intros H. unfold bytes256. rewrite <- (N2Nat.id b). apply in_map. apply in_seq. lia. Qed.

Lemma num_text_small_tbl :
  forallb (fun c => negb ((c <? 128) || (160 <=? c)) || str_eqb (num_text c) [c]) bytes256 = true.
Proof. vm_compute. reflexivity. Qed.

(* element text: every code point outside U+0080..U+009F *)
Theorem num_text_id c : c <= 1114111 -> (c < 128 \/ 160 <= c) -> num_text c = [c].
Proof.
  intros Hmax Hr. destruct (c <? 256) eqn:E.
  - apply N.ltb_lt in E. pose proof num_text_small_tbl as T. rewrite forallb_forall in T.
    specialize (T c (in_bytes256 c E)). cbv beta in T.
    assert (G : (c <? 128) || (160 <=? c) = true).
    { destruct Hr as [H|H]; [apply N.ltb_lt in H; now rewrite H | apply N.leb_le in H; rewrite H; apply orb_true_r]. }
    rewrite G in T. cbn [negb orb] in T. now apply str_eqb_eq in T.
  - unfold num_text. rewrite E. apply N.leb_le in Hmax. now rewrite Hmax.
Qed.

Definition is_nonchar (c : N) : bool :=
  ((64976 <=? c) && (c <=? 65007)) || (65534 <=? c mod 65536).
Definition is_surrogate (c : N) : bool := (55296 <=? c) && (c <=? 57343).

(* oracle data about html.unescape, pinned: the special numeric references are 0, 13 and U+0080..U+009F;
   the dropped code points are controls and noncharacters *)
Lemma invalid_charrefs_keys :
  forallb (fun kv => (fst kv =? 0) || (fst kv =? 13) || ((128 <=? fst kv) && (fst kv <=? 159))) html_invalid_charrefs = true.
Proof. vm_compute. reflexivity. Qed.
Lemma invalid_codepoints_class :
  forallb (fun c => (c <? 32) || ((127 <=? c) && (c <=? 159)) || is_nonchar c) html_invalid_codepoints = true.
Proof. vm_compute. reflexivity. Qed.

Lemma assocN_in {X} k (l : list (N * X)) v : assocN k l = Some v -> In (k, v) l.
Proof.
  induction l as [|[k' v'] r IH]; cbn [assocN]; [discriminate|].
  destruct (k =? k') eqn:E; [intros [= <-]; apply N.eqb_eq in E; subst; now left | right; auto].
Qed.

(* attribute values: every scalar value from U+00A0 up that is not a noncharacter *)
Theorem num_attr_id c :
  160 <= c -> c <= 1114111 -> is_surrogate c = false -> is_nonchar c = false -> num_attr c = [c].
Proof.
  intros Hlo Hmax Hs Hn. unfold num_attr.
  destruct (assocN c html_invalid_charrefs) as [r|] eqn:A.
  { exfalso. apply assocN_in in A. pose proof invalid_charrefs_keys as T. rewrite forallb_forall in T.
    specialize (T _ A). cbn [fst] in T.
    apply orb_prop in T as [T|T]; [apply orb_prop in T as [T|T]; apply N.eqb_eq in T; lia|].
    apply andb_prop in T as [_ T]. apply N.leb_le in T. lia. }
  unfold is_surrogate in Hs. rewrite Hs. cbn [orb].
  assert ((1114111 <? c) = false) as -> by (apply N.ltb_ge; lia).
  destruct (memN c html_invalid_codepoints) eqn:M; [|reflexivity].
  exfalso. apply memN_In in M. pose proof invalid_codepoints_class as T. rewrite forallb_forall in T.
  specialize (T _ M). rewrite Hn, orb_false_r in T.
  apply orb_prop in T as [T|T]; [apply N.ltb_lt in T; lia|].
  apply andb_prop in T as [_ T]. apply N.leb_le in T. lia.
Qed.

(* the tables the readers use contain the names the writers emit *)
Lemma ent_text_core :
  ent_text [97; 109; 112] = Some [38] /\ ent_text [108; 116] = Some [60] /\ ent_text [103; 116] = Some [62] /\
  ent_text [113; 117; 111; 116] = Some [34].
Proof. vm_compute. repeat split. Qed.
Lemma ent_attr_core :
  ent_attr [97; 109; 112] = Some [38] /\ ent_attr [108; 116] = Some [60] /\ ent_attr [103; 116] = Some [62] /\
  ent_attr [113; 117; 111; 116] = Some [34].
Proof. vm_compute. repeat split. Qed.

(* the lossless clause with the model's own readers: for ANY codec that can write ASCII, a text whose
   unencodable characters are all >= U+00A0 (and <= U+10FFFF) is read back exactly *)
Theorem lossless_text_any_codec enc_char t :
  ascii_ok enc_char ->
  (forall c, In c t -> encodable enc_char c = false -> 160 <= c <= 1114111) ->
  read_text (xcr_text enc_char (subst_xml t)) = t.
Proof.
  intros Ha H. destruct ent_text_core as [E1 [E2 [E3 E4]]].
  apply (lossless_text enc_char ent_text num_text Ha E1 E2 E3). intros c Hc Hu.
  destruct (H c Hc Hu). apply num_text_id; [lia | now right].
Qed.

Theorem lossless_attr_any_codec enc_char v :
  ascii_ok enc_char ->
  (forall c, In c v -> encodable enc_char c = false ->
             160 <= c <= 1114111 /\ is_surrogate c = false /\ is_nonchar c = false) ->
  let w := subst_xml v in
  let q := attr_quote w in
  xcr_text enc_char (quoted_attribute_value w) = q :: xcr_text enc_char (attr_body w) ++ [q] /\
  (q = c_dq \/ q = c_sq) /\
  ~ In q (xcr_text enc_char (attr_body w)) /\
  read_attr (xcr_text enc_char (attr_body w)) = v.
Proof.
  intros Ha H. destruct ent_attr_core as [E1 [E2 [E3 E4]]].
  apply (lossless_attr enc_char ent_attr num_attr Ha E1 E2 E3 E4). intros c Hc Hu.
  destruct (H c Hc Hu) as [[? ?] [? ?]]. now apply num_attr_id.
Qed.

(* ---- a concrete codec family: the identity below a bound (ASCII: 128, ISO-8859-1: 256) ---- *)
Definition id_codec (B : N) (c : N) : option (list N) := if c <? B then Some [c] else None.
Definition id_dec (B : N) (bs : list N) : option str :=
  if forallb (fun b => b <? B) bs then Some bs else None.

Lemma id_codec_ascii_ok B : 128 <= B -> ascii_ok (id_codec B).
Proof.
  intros HB c Hc. unfold encodable, id_codec. assert ((c <? B) = true) as -> by (apply N.ltb_lt; lia). reflexivity.
Qed.

Lemma id_codec_strict B u b : enc_strict (id_codec B) u = Some b -> b = u /\ forallb (fun x => x <? B) u = true.
Proof.
  revert b. induction u as [|c u IH]; intros b; cbn [enc_strict forallb]; [intros [= <-]; auto|].
  unfold id_codec at 1. destruct (c <? B); [|discriminate].
  destruct (enc_strict (id_codec B) u) as [r|]; [|discriminate]. intros [= <-].
  destruct (IH r eq_refl) as [-> ->]. auto.
Qed.

Lemma id_codec_dec_ok B u b : enc_strict (id_codec B) u = Some b -> id_dec B ([] ++ b) = Some u.
Proof. intros H. destruct (id_codec_strict _ _ _ H) as [-> G]. unfold id_dec. cbn [app]. now rewrite G. Qed.

(* end to end for ASCII / Latin-1, no hypothesis left: encode never fails, the bytes decode, and the decoded
   text reads back as the original text *)
Theorem identity_codec_roundtrip B t :
  128 <= B ->
  (forall c, In c t -> c < B \/ 160 <= c <= 1114111) ->
  exists b, str_encode (id_codec B) [] XmlCharRef (subst_xml t) = Some b /\
            id_dec B b = Some (xcr_text (id_codec B) (subst_xml t)) /\
            read_text (xcr_text (id_codec B) (subst_xml t)) = t.
Proof.
  intros HB H. destruct (encode_total (id_codec B) [] (id_codec_ascii_ok B HB) (subst_xml t)) as [b Hb].
  exists b. split; [exact Hb|]. split.
  - exact (decodes_in_target (id_codec B) [] (id_dec B) (id_codec_dec_ok B) XmlCharRef _ _ Hb).
  - apply lossless_text_any_codec; [now apply id_codec_ascii_ok|].
    intros c Hc Hu. destruct (H c Hc) as [G|G]; [|exact G].
    unfold encodable, id_codec in Hu. apply N.ltb_lt in G. rewrite G in Hu. discriminate.
Qed.

(* the full statement is false of the faithful model: a C1 control that ASCII cannot represent *)
Theorem lossless_refuted :
  exists t, read_text (xcr_text (id_codec 128) (subst_xml t)) <> t.
Proof. exists [150]. vm_compute. discriminate. Qed.
Theorem lossless_attr_refuted :
  exists v, read_attr (xcr_text (id_codec 128) (attr_body (subst_xml v))) <> v.
Proof. exists [64976]. vm_compute. discriminate. Qed.

(* ================================================================== *)
(* I. tree level: the decoded document is a concatenation of segments  *)
(* ================================================================== *)

Lemma xcr_text_flat_map {X} enc_char (g : X -> str) l :
  xcr_text enc_char (flat_map g l) = flat_map (fun x => xcr_text enc_char (g x)) l.
Proof. induction l as [|x l IH]; [reflexivity|]. cbn [flat_map]. now rewrite xcr_text_app, IH. Qed.

(* encode() of any tree (no indentation), decoded in the target encoding, is the concatenation, over the
   events of the tree, of each piece with its unencodable characters replaced *)
Theorem tree_bytes_are_segments enc_char bom dec nm f t b :
  (forall u x, enc_strict enc_char u = Some x -> dec (bom ++ x) = Some u) ->
  tag_encode enc_char bom nm None f XmlCharRef t = Some b ->
  dec b = Some (flat_map (fun e => xcr_text enc_char (piece (Some nm) f e)) (events_self t)).
Proof.
  intros Hd H. unfold tag_encode in H.
  rewrite (decodes_in_target enc_char bom dec Hd XmlCharRef _ _ H).
  unfold tag_decode. rewrite decode_loop_flat by reflexivity. now rewrite xcr_text_flat_map.
Qed.

(* same for encode_contents() *)
Theorem tree_contents_bytes_are_segments enc_char bom dec nm f t b :
  (forall u x, enc_strict enc_char u = Some x -> dec (bom ++ x) = Some u) ->
  tag_encode_contents enc_char bom nm None f t = Some b ->
  dec b = Some (flat_map (fun e => xcr_text enc_char (piece (Some nm) f e)) (events_contents t)).
Proof.
  intros Hd H. unfold tag_encode_contents in H. rewrite encode_contents_policy_is in H.
  rewrite (decodes_in_target enc_char bom dec Hd XmlCharRef _ _ H).
  unfold tag_decode_contents. rewrite decode_loop_flat by reflexivity. now rewrite xcr_text_flat_map.
Qed.

Lemma plain_string_class : class_affix 0 = ([], []) /\ is_preformatted 0 = false.
Proof. split; reflexivity. Qed.

(* the segment of an ordinary text node (NavigableString outside <script>/<style>) reads back as its text *)
Theorem text_segment_reads_back enc_char nm s :
  ascii_ok enc_char ->
  (forall c, In c s -> encodable enc_char c = false -> 160 <= c <= 1114111) ->
  read_text (xcr_text enc_char (piece (Some nm) FMinimal (EvStr 0 s false))) = s.
Proof.
  intros Ha H. cbn [piece]. unfold output_ready. destruct plain_string_class as [-> ->].
  cbn [app fmt_subst]. rewrite app_nil_r. now apply lossless_text_any_codec.
Qed.

(* the piece of a plain attribute inside an opening tag, and how it reads back *)
Theorem attr_segment_reads_back enc_char evn k v :
  ascii_ok enc_char ->
  (forall c, In c v -> encodable enc_char c = false ->
             160 <= c <= 1114111 /\ is_surrogate c = false /\ is_nonchar c = false) ->
  let w := subst_xml v in
  let q := attr_quote w in
  xcr_text enc_char (format_attr evn FMinimal (k, AStr v)) =
    xcr_text enc_char k ++ 61 :: q :: xcr_text enc_char (attr_body w) ++ [q] /\
  ~ In q (xcr_text enc_char (attr_body w)) /\
  read_attr (xcr_text enc_char (attr_body w)) = v.
Proof.
  intros Ha H w q. subst w q. destruct (lossless_attr_any_codec enc_char v Ha H) as [H1 [_ [H3 H4]]].
  cbv zeta in H1, H3, H4. split; [|split; assumption].
  unfold format_attr. rewrite emptybool_off. cbn [snd fst attr_text fmt_subst].
  change (k ++ 61 :: quoted_attribute_value (subst_xml v)) with (k ++ [61] ++ quoted_attribute_value (subst_xml v)).
  rewrite !xcr_text_app. rewrite H1.
  assert (E : xcr_text enc_char [61] = [61]) by (apply xcr_text_id; cbn [forallb]; rewrite (Ha 61); reflexivity).
  now rewrite E.
Qed.
