(* C06 — the constructor on a string (Model/ConstructStr.v): for EVERY text it returns a fully built, well-linked
   tree or raises ParserRejectedMarkup.  Composition of the tokenizer theorems (Proofs/TokenizerProofs.v,
   TokenizerCompose.v: the run ends Running or Rejected; every numeric-reference name it fires is in int()'s
   grammar; Rejected needs "<![" in the text) with this property's own (ConstructProofs.v: numeric references
   never raise, feed maps AssertionError / ValueError; RetryClean.v, FullyBuilt.v, ConstructCompose.v). *)
From Coq Require Import List NArith ZArith Bool Arith Lia.
From BS Require Import Base.Sexp Base.Types Base.Reader Model.Pos Model.Tokenizer Model.TokParse Model.Adapter
  Model.Heap Model.Edit Model.EditOps Model.Build Model.Construct Model.ConstructStr Gen.T_C06 Spec.Tree
  Proofs.PosProofs Proofs.TokenizerProofs Proofs.TokenizerCompose Proofs.EditRep Proofs.ConstructProofs
  Proofs.RetryClean Proofs.FullyBuilt Proofs.ConstructCompose.
Import ListNotations.
Open Scope N_scope.

(* ------------------------------------------------------------------ the two charref models agree on what returns *)
Lemma is_hexd_hex c : is_hexd c = true -> is_hex c = true.
Proof.
  unfold is_hexd, is_hex, hex_val, is_digit, is_dec.
  destruct ((48 <=? c) && (c <=? 57)); [reflexivity|].
  destruct ((97 <=? c) && (c <=? 102)); [reflexivity|].
  destruct ((65 <=? c) && (c <=? 70)); [reflexivity|]. cbn. congruence.
Qed.
Lemma forallb_imp {X} (f g : X -> bool) l : (forall x, f x = true -> g x = true) -> forallb f l = true -> forallb g l = true.
Proof.
  intros H. induction l as [|x l IH]; cbn [forallb]; [auto|]. intros E. apply andb_prop in E as [A B].
  now rewrite (H x A), (IH B).
Qed.
Lemma lstrip_eq c s : Construct.lstrip c s = lstrip_char c s.
Proof. induction s as [|x s IH]; cbn; [reflexivity|]. destruct (x =? c); auto. Qed.

Lemma hex_branch c r : nonempty_all is_hexd (lstrip_char c (c :: r)) = true ->
  exists n, py_int_hex (Construct.lstrip c (c :: r)) = Done n.
Proof.
  change (Construct.lstrip c (c :: r)) with (lstrip_char c (c :: r)). unfold nonempty_all, py_int_hex. destruct (lstrip_char c (c :: r)) as [|x t]; [discriminate|].
  intros H. rewrite (forallb_imp _ _ _ is_hexd_hex H). eauto.
Qed.

Lemma number_of_adapter_ok name : Adapter.charref_value name <> None -> exists n, charref_number name = Done n.
Proof.
  unfold Adapter.charref_value, charref_number. destruct name as [|c r]; [congruence|].
  rewrite hex_prefixes_table. cbn [memN existsb].
  destruct (c =? 120) eqn:E1.
  - apply N.eqb_eq in E1. subst c. cbn [orb].
    destruct (nonempty_all is_hexd (lstrip_char 120 (120 :: r))) eqn:E; [|congruence]. intros _. now apply hex_branch.
  - destruct (c =? 88) eqn:E2.
    + apply N.eqb_eq in E2. subst c. cbn [orb].
      destruct (nonempty_all is_hexd (lstrip_char 88 (88 :: r))) eqn:E; [|congruence]. intros _. now apply hex_branch.
    + cbn [orb]. destruct (nonempty_all is_digit (c :: r)) eqn:E; [|congruence]. intros _.
      destruct (charref_decimal_valid (c :: r)) as [n [Hn _]]; [discriminate | exact E | eauto].
Qed.

Lemma decoder_caught_none : decoder_caught None.
Proof. intros dec n c H. discriminate. Qed.
Lemma charref_text_total orig n : decoder_caught orig -> exists d, charref_text orig n = Done d.
Proof.
  intros Hc. destruct (N.ltb_spec n 256).
  - rewrite charref_text_small by auto. eauto.
  - destruct (N.ltb_spec n 1114112); [rewrite charref_text_mid by lia | rewrite charref_text_big by lia]; eauto.
Qed.
(* a name Model/Adapter.v's int() accepts is converted, without an exception, by this property's handle_charref model *)
Lemma adapter_ok_returns orig name : decoder_caught orig -> Adapter.charref_value name <> None ->
  exists d, Construct.charref_data orig name = Done d.
Proof.
  intros Hc H. unfold Construct.charref_data. destruct (number_of_adapter_ok name H) as [n ->]. now apply charref_text_total.
Qed.

(* ------------------------------------------------------------------ what the tokenizer fires *)
Definition tev_ok (e : tev) : Prop := match e with TCharref n => Adapter.charref_value n <> None | _ => True end.

Lemma cr_tevs its : callbacks_return (hevs_of_items its) = true -> Forall tev_ok (flat_map it_evs its).
Proof.
  unfold hevs_of_items. induction its as [|it its IH]; cbn [flat_map]; [constructor|].
  rewrite callbacks_return_app. intros H. apply andb_prop in H as [H1 H2]. apply Forall_app. split; [|auto].
  clear - H1. induction (it_evs it) as [|e r IHr]; [constructor|].
  cbn [map] in H1. unfold callbacks_return in H1. cbn [forallb] in H1. apply andb_prop in H1 as [A B].
  constructor; [|apply IHr; exact B]. destruct e; cbn in *; auto. destruct (Adapter.charref_value name); congruence.
Qed.
Lemma tok_tevs_ok u text : Forall tev_ok (flat_map it_evs (fst (tokenize u text))).
Proof. apply cr_tevs. exact (tokenize_callbacks_return u text). Qed.

Lemma cut_forall (P : tev -> Prop) : forall evs, Forall P evs -> Forall P (fst (cut_at_raise evs)).
Proof.
  induction evs as [|e r IH]; cbn [cut_at_raise]; [auto|]. intros H. inversion H; subst.
  destruct (tev_raises e); [constructor|]. destruct (cut_at_raise r) as [b raised]. cbn [fst] in *. constructor; auto.
Qed.

Definition cb_returns (orig : option byte_decoder) (cb : callback) : Prop :=
  match cb with CbCharref n => exists d, Construct.charref_data orig n = Done d | _ => True end.

Lemma str_callbacks_return orig u text : decoder_caught orig -> Forall (cb_returns orig) (str_callbacks u text).
Proof.
  intros Hc. unfold str_callbacks, str_run. pose proof (tok_tevs_ok (marking u) text) as H.
  destruct (tokenize (marking u) text) as [its g]. cbn [fst] in H. apply (cut_forall _ _) in H.
  destruct (cut_at_raise (flat_map it_evs its)) as [b raised]. cbn [fst] in *.
  induction H as [|e r He _ IH]; [constructor|]. cbn [map]. constructor; [|exact IH].
  destruct e; cbn; auto. now apply adapter_ok_returns.
Qed.

Lemma adapt_total cfg orig : forall cbs closed, Forall (cb_returns orig) cbs -> snd (adapt cfg orig closed cbs) = None.
Proof.
  induction cbs as [|cb cbs IH]; intros closed H; cbn [adapt]; [reflexivity|]. inversion H as [|? ? H1 H2]; subst.
  assert (E : exists r, cb_step cfg orig closed cb = Done r).
  { destruct cb; cbn [cb_step]; eauto.
    - destruct (cb_starttag cfg closed name attrs false) as [e1 c1]. destruct (cb_endtag c1 name false). eauto.
    - destruct H1 as [d ->]. eauto.
    - destruct (Construct.starts_with cdata_prefix (map upper_ascii s)); eauto. }
  destruct E as [[evs cl] ->]. specialize (IH cl H2). destruct (adapt cfg orig cl cbs) as [e' r']. exact IH.
Qed.

(* ------------------------------------------------------------------ how the run ends *)
Lemma str_fin_rejects u text :
  (str_rejects u text = false /\ str_fin u text = TokFinished) \/
  (str_rejects u text = true /\ (str_fin u text = TokRaised exc_ValueError [] \/ str_fin u text = TokRaised exc_AssertionError [])).
Proof.
  unfold str_rejects, str_fin, str_run. destruct (tokenize (marking u) text) as [its g] eqn:T.
  destruct (cut_at_raise (flat_map it_evs its)) as [b raised].
  destruct raised; [right; auto|]. cbn [orb].
  destruct (tokenize_total _ _ _ _ T) as [-> | ->]; [left | right]; auto.
Qed.

Lemma hp_attempt_text cfg orig u text : decoder_caught orig ->
  hp_attempt cfg orig (str_callbacks u text) (str_fin u text) =
  if str_rejects u text then Reject (text_events cfg orig u text) [] else Accept (text_events cfg orig u text).
Proof.
  intros Hc. unfold hp_attempt, text_events. pose proof (adapt_total cfg orig _ [] (str_callbacks_return orig u text Hc)) as A.
  destruct (adapt cfg orig [] (str_callbacks u text)) as [evs r]. cbn [snd fst] in *. subst r.
  destruct feed_maps_table as (F4 & F3 & _).
  destruct (str_fin_rejects u text) as [[-> ->] | [-> [-> | ->]]]; [reflexivity | |]; unfold feed_classify.
  - unfold exc_ValueError in *. rewrite F3. reflexivity.
  - unfold exc_AssertionError. rewrite F4. reflexivity.
Qed.

(* ------------------------------------------------------------------ the constructor on text *)
Definition str_meta : meta := mkmeta None None false.
Definition meta_of (m : markup) (d : dammit_result) : option meta :=
  match m, d with
  | MStr _, _ => Some str_meta
  | MBytes _, DText e dl r => Some (mkmeta e dl r)
  | MBytes _, DNone => None
  end.

Lemma construct_text_unfold cfg b0 m d orig u text : decoder_caught orig -> exists ws,
  construct_text cfg b0 m d orig u text =
  (match meta_of m d with
   | None => CRaise (ParserRejected [could_not_convert])
   | Some mt =>
       if str_rejects u text then CRaise (ParserRejected [[]])
       else CSoup (mksoup (finish cfg (run_events cfg (reset_obj cfg b0) (text_events cfg orig u text))) mt)
   end, ws).
Proof.
  intros Hc. unfold construct_text, construct_htmlparser. destruct (preparse_total m) as [ws ->]. exists ws.
  unfold hp_strategies, meta_of. rewrite (hp_attempt_text cfg orig u text Hc). unfold construct.
  destruct m as [s|b]; [|destruct d as [|e dl r]]; try reflexivity;
    destruct (str_rejects u text); cbn [construct_loop st_out st_meta]; try rewrite ctor_catches_rejection; reflexivity.
Qed.

Lemma construct_str_unfold cfg b0 u text : exists ws,
  construct_str cfg b0 u text =
  (if str_rejects u text then CRaise (ParserRejected [[]])
   else CSoup (mksoup (finish cfg (run_events cfg (reset_obj cfg b0) (str_events cfg u text))) str_meta), ws).
Proof. exact (construct_text_unfold cfg b0 (MStr text) DNone None u text decoder_caught_none). Qed.

(* text produced by prepare_markup for any input: a tree or ParserRejectedMarkup *)
Theorem text_input_total : forall cfg b0 m d orig u text, decoder_caught orig ->
  cres_ok (fst (construct_text cfg b0 m d orig u text)).
Proof.
  intros cfg b0 m d orig u text Hc. destruct (construct_text_unfold cfg b0 m d orig u text Hc) as [ws ->]. cbn [fst].
  destruct (meta_of m d); [destruct (str_rejects u text)|]; exact I.
Qed.

(* ... and when a tree comes back it is a consistent forest, fully built, carrying the detected encoding's bookkeeping *)
Theorem text_returned_tree : forall cfg b0 m d orig u text s, decoder_caught orig ->
  fst (construct_text cfg b0 m d orig u text) = CSoup s ->
  meta_of m d = Some (so_meta s) /\ str_rejects u text = false /\
  same_object (so_b s) (feed cfg (text_events cfg orig u text)) /\ consistent (b_st (so_b s)) /\
  b_stack (so_b s) = [0%nat] /\ b_cur (so_b s) = Some 0%nat /\ b_data (so_b s) = [].
Proof.
  intros cfg b0 m d orig u text s Hc. destruct (construct_text_unfold cfg b0 m d orig u text Hc) as [ws ->]. cbn [fst].
  destruct (meta_of m d) as [mt|]; [|discriminate]. destruct (str_rejects u text); [discriminate|].
  intros X; inversion X; subst. cbn [so_b so_meta]. split; [reflexivity|]. split; [reflexivity|]. split; [|split].
  - rewrite feed_is_fresh_attempt. apply attempt_independent_of_prior_state.
  - apply attempt_consistent.
  - apply finished_object.
Qed.

(* the parser does not refuse the text: a tree comes back; it is the tree of the events the adapter derives from
   the tokenizer's callbacks (Model.Build.feed on them, on every observable), it is well linked (consistent, C01) and
   fully built *)
Theorem str_accepted : forall cfg b0 u text, str_rejects u text = false ->
  exists s ws, construct_str cfg b0 u text = (CSoup s, ws) /\
    same_object (so_b s) (feed cfg (str_events cfg u text)) /\
    consistent (b_st (so_b s)) /\
    b_stack (so_b s) = [0%nat] /\ b_cur (so_b s) = Some 0%nat /\ b_data (so_b s) = [].
Proof.
  intros cfg b0 u text H. destruct (construct_str_unfold cfg b0 u text) as [ws E]. rewrite H in E.
  eexists. exists ws. split; [exact E|]. cbn [so_b]. split; [|split].
  - rewrite feed_is_fresh_attempt. apply attempt_independent_of_prior_state.
  - apply attempt_consistent.
  - apply finished_object.
Qed.

Theorem str_refused : forall cfg b0 u text, str_rejects u text = true ->
  exists ws, construct_str cfg b0 u text = (CRaise (ParserRejected [[]]), ws).
Proof.
  intros cfg b0 u text H. destruct (construct_str_unfold cfg b0 u text) as [ws E]. rewrite H in E. eauto.
Qed.

(* for EVERY text, configuration, prior state of the object and behaviour of html.unescape: a tree or
   ParserRejectedMarkup, never anything else *)
Theorem str_input_total : forall cfg b0 u text, cres_ok (fst (construct_str cfg b0 u text)).
Proof.
  intros. destruct (construct_str_unfold cfg b0 u text) as [ws ->]. cbn [fst]. destruct (str_rejects u text); exact I.
Qed.

Theorem str_rejected_iff : forall cfg b0 u text,
  (exists msgs, fst (construct_str cfg b0 u text) = CRaise (ParserRejected msgs)) <-> str_rejects u text = true.
Proof.
  intros. destruct (construct_str_unfold cfg b0 u text) as [ws ->]. cbn [fst].
  destruct (str_rejects u text); split; eauto; try (intros [m X]; discriminate); discriminate.
Qed.

(* html.unescape failed on an attribute value of some start tag *)
Definition str_unescape_failed (u : str -> option str) (text : str) : bool := snd (fst (str_run u text)).

(* a refusal that is not html.unescape's is html.parser's AssertionError, and that needs "<![" in the text *)
Theorem str_rejected_cause : forall u text, str_rejects u text = true -> str_unescape_failed u text = false ->
  has_marked_open text.
Proof.
  intros u text. unfold str_rejects, str_unescape_failed, str_run.
  destruct (tokenize (marking u) text) as [its g] eqn:T.
  destruct (cut_at_raise (flat_map it_evs its)) as [b raised]. cbn [fst snd]. intros H ->. cbn [orb] in H.
  apply (tokenize_rejected _ _ _ _ T). destruct (tokenize_total _ _ _ _ T) as [E|E]; [rewrite E in H; discriminate | exact E].
Qed.
