(* C06 — proofs about Model/Construct.v, part 2: a rejected attempt leaves nothing behind.

   reset_obj keeps whatever the heap holds at the numbers >= 1 (the garbage of earlier attempts) and
   whatever the parser-state fields hold is overwritten.  The tree-construction machine of
   Model/Build.v is shown to be *local*: run on two objects that agree below the allocation counter and
   whose cells below the counter only point below the counter, it performs the same steps, reads only
   cells below the counter and keeps both properties — so the two runs end in states that agree on
   every cell, payload and parser-state field.  After reset_obj any two objects are in that relation. *)
From Coq Require Import List NArith ZArith Bool Arith Lia.
From BS Require Import Base.Sexp Base.Types Model.Heap Model.Edit Model.Build Model.Construct Proofs.ConstructProofs.
Import ListNotations.
Open Scope nat_scope.

Definition lt_opt (n : nat) (o : option nat) : Prop := match o with Some x => x < n | None => True end.
Definition all_lt (n : nat) (l : list nat) : Prop := Forall (fun k => k < n) l.
Definition cell_closed (n : nat) (c : cell) : Prop :=
  lt_opt n (par c) /\ all_lt n (kids c) /\ lt_opt n (ps c) /\ lt_opt n (ns c) /\ lt_opt n (pe c) /\ lt_opt n (ne c).

(* the two heaps agree below n, and below n nothing points to n or beyond *)
Definition R (n : nat) (h1 h2 : heap) : Prop := forall x, x < n -> h1 x = h2 x /\ cell_closed n (h1 x).

Lemma lt_opt_mono n m o : n <= m -> lt_opt n o -> lt_opt m o.
Proof. destruct o; cbn; lia. Qed.
Lemma all_lt_mono n m l : n <= m -> all_lt n l -> all_lt m l.
Proof. intros H. unfold all_lt. apply Forall_impl. intros; lia. Qed.
Lemma cell_closed_mono n m c : n <= m -> cell_closed n c -> cell_closed m c.
Proof.
  intros H (A & B & C & D & E & F). repeat split; eauto using lt_opt_mono, all_lt_mono.
Qed.

Lemma R_read n h1 h2 x : R n h1 h2 -> x < n -> h1 x = h2 x.
Proof. intros H L. exact (proj1 (H x L)). Qed.
Lemma R_closed n h1 h2 x : R n h1 h2 -> x < n -> cell_closed n (h1 x).
Proof. intros H L. exact (proj2 (H x L)). Qed.
Lemma R_par n h1 h2 x : R n h1 h2 -> x < n -> lt_opt n (par (h1 x)).
Proof. intros H L. apply (R_closed n h1 h2 x H L). Qed.
Lemma R_kids n h1 h2 x : R n h1 h2 -> x < n -> all_lt n (kids (h1 x)).
Proof. intros H L. apply (R_closed n h1 h2 x H L). Qed.
Lemma R_ps n h1 h2 x : R n h1 h2 -> x < n -> lt_opt n (ps (h1 x)).
Proof. intros H L. apply (R_closed n h1 h2 x H L). Qed.
Lemma R_ns n h1 h2 x : R n h1 h2 -> x < n -> lt_opt n (ns (h1 x)).
Proof. intros H L. apply (R_closed n h1 h2 x H L). Qed.
Lemma R_pe n h1 h2 x : R n h1 h2 -> x < n -> lt_opt n (pe (h1 x)).
Proof. intros H L. apply (R_closed n h1 h2 x H L). Qed.
Lemma R_ne n h1 h2 x : R n h1 h2 -> x < n -> lt_opt n (ne (h1 x)).
Proof. intros H L. apply (R_closed n h1 h2 x H L). Qed.

Lemma R_upd n h1 h2 x c1 c2 :
  R n h1 h2 -> (x < n -> c1 = c2 /\ cell_closed n c1) -> R n (upd h1 x c1) (upd h2 x c2).
Proof.
  intros H Hc y L. unfold upd. destruct (Nat.eqb_spec y x) as [->|Ne].
  - exact (Hc L).
  - exact (H y L).
Qed.

Ltac setter_R :=
  let H := fresh in let Hv := fresh in let L := fresh in
  intros H Hv; apply R_upd; [exact H|]; intros L;
  rewrite <- (R_read _ _ _ _ H L);
  split; [reflexivity|];
  destruct (R_closed _ _ _ _ H L) as (? & ? & ? & ? & ? & ?); repeat split; cbn; assumption.

Lemma R_set_par n h1 h2 x v : R n h1 h2 -> lt_opt n v -> R n (set_par h1 x v) (set_par h2 x v).
Proof. unfold set_par. setter_R. Qed.
Lemma R_set_kids n h1 h2 x v : R n h1 h2 -> all_lt n v -> R n (set_kids h1 x v) (set_kids h2 x v).
Proof. unfold set_kids. setter_R. Qed.
Lemma R_set_ps n h1 h2 x v : R n h1 h2 -> lt_opt n v -> R n (set_ps h1 x v) (set_ps h2 x v).
Proof. unfold set_ps. setter_R. Qed.
Lemma R_set_ns n h1 h2 x v : R n h1 h2 -> lt_opt n v -> R n (set_ns h1 x v) (set_ns h2 x v).
Proof. unfold set_ns. setter_R. Qed.
Lemma R_set_pe n h1 h2 x v : R n h1 h2 -> lt_opt n v -> R n (set_pe h1 x v) (set_pe h2 x v).
Proof. unfold set_pe. setter_R. Qed.
Lemma R_set_ne n h1 h2 x v : R n h1 h2 -> lt_opt n v -> R n (set_ne h1 x v) (set_ne h2 x v).
Proof. unfold set_ne. setter_R. Qed.

Lemma R_alloc n h1 h2 k t : R n h1 h2 -> R (S n) (upd h1 n (blank k t)) (upd h2 n (blank k t)).
Proof.
  intros H y L. unfold upd. destruct (Nat.eqb_spec y n) as [->|Ne].
  - split; [reflexivity|]. unfold blank, cell_closed, all_lt; cbn. repeat split; auto.
  - assert (L' : y < n) by lia. destruct (H y L') as [A B]. split; [exact A|].
    apply (cell_closed_mono n (S n)); [lia | exact B].
Qed.

Lemma last_opt_in {X} (l : list X) x : last_opt l = Some x -> In x l.
Proof.
  unfold last_opt. intros H. apply in_rev. destruct (rev l); inversion H; subst. now left.
Qed.
Lemma all_lt_in n l x : all_lt n l -> In x l -> x < n.
Proof. unfold all_lt. rewrite Forall_forall. auto. Qed.
Lemma all_lt_last n l : all_lt n l -> lt_opt n (last_opt l).
Proof. intros H. destruct (last_opt l) eqn:E; cbn; auto. eapply all_lt_in; eauto using last_opt_in. Qed.
Lemma all_lt_app n l x : all_lt n l -> x < n -> all_lt n (l ++ [x]).
Proof. intros H L. unfold all_lt in *. apply Forall_app. split; auto. Qed.

(* ------------------------------------------------------------------ the heap-level functions *)
Lemma R_walk_last n h1 h2 : R n h1 h2 -> forall fuel x, x < n ->
  walk_last fuel h1 x = walk_last fuel h2 x /\ walk_last fuel h1 x < n.
Proof.
  intros H. induction fuel as [|f IH]; intros x L; cbn [walk_last]; [auto|].
  unfold is_tag. rewrite <- (R_read _ _ _ _ H L). destruct (kind (h1 x)); auto.
  - destruct (rev (kids (h1 x))) as [|y l] eqn:E; auto.
    apply IH. eapply all_lt_in; [exact (R_kids _ _ _ _ H L)|]. apply in_rev. rewrite E. now left.
  - destruct (rev (kids (h1 x))) as [|y l] eqn:E; auto.
    apply IH. eapply all_lt_in; [exact (R_kids _ _ _ _ H L)|]. apply in_rev. rewrite E. now left.
Qed.

Lemma R_last_descendant n h1 h2 fuel x i a : R n h1 h2 -> x < n ->
  last_descendant fuel h1 x i a = last_descendant fuel h2 x i a /\ lt_opt n (last_descendant fuel h1 x i a).
Proof.
  intros H L. unfold last_descendant. rewrite <- (R_read _ _ _ _ H L).
  destruct (R_walk_last n h1 h2 H fuel x L) as [W1 W2]. rewrite <- W1.
  assert (K: (match (if i then ns (h1 x) else None) with Some y => pe (h1 y) | None => Some (walk_last fuel h1 x) end) =
             (match (if i then ns (h1 x) else None) with Some y => pe (h2 y) | None => Some (walk_last fuel h1 x) end) /\
             lt_opt n (match (if i then ns (h1 x) else None) with Some y => pe (h1 y) | None => Some (walk_last fuel h1 x) end)).
  { destruct i; [|split; [reflexivity | exact W2]].
    pose proof (R_ns _ _ _ _ H L) as B. destruct (ns (h1 x)) as [y|]; [|split; [reflexivity | exact W2]].
    cbn in B. rewrite <- (R_read _ _ _ _ H B). split; [reflexivity | exact (R_pe _ _ _ _ H B)]. }
  destruct K as [K1 K2]. rewrite <- K1.
  destruct (negb a && oeqb _ (Some x)); [split; [reflexivity | exact I] | split; [reflexivity | exact K2]].
Qed.

Lemma R_setup n h1 h2 x parent previous : R n h1 h2 -> x < n -> lt_opt n parent -> lt_opt n previous ->
  R n (setup h1 x parent previous) (setup h2 x parent previous).
Proof.
  intros H L Hp Hq. unfold setup.
  assert (R1 : R n (set_ns (set_ne (match previous with Some q => set_ne (set_pe (set_par h1 x parent) x previous) q (Some x)
                                                        | None => set_pe (set_par h1 x parent) x previous end) x None) x None)
                   (set_ns (set_ne (match previous with Some q => set_ne (set_pe (set_par h2 x parent) x previous) q (Some x)
                                                        | None => set_pe (set_par h2 x parent) x previous end) x None) x None)).
  { apply R_set_ns; [|exact I]. apply R_set_ne; [|exact I].
    destruct previous as [q|].
    - apply R_set_ne; [|exact L]. apply R_set_pe; [|exact Hq]. apply R_set_par; assumption.
    - apply R_set_pe; [|exact I]. apply R_set_par; assumption. }
  set (a1 := set_ns _ x None) in *. set (a2 := set_ns _ x None) in *.
  destruct parent as [p|].
  - cbn in Hp. rewrite <- (R_read _ _ _ _ R1 Hp).
    pose proof (all_lt_last _ _ (R_kids _ _ _ _ R1 Hp)) as B.
    destruct (last_opt (kids (a1 p))) as [q|].
    + apply R_set_ns; [|exact L]. apply R_set_ps; [exact R1 | exact B].
    + apply R_set_ps; [exact R1 | exact I].
  - apply R_set_ps; [exact R1 | exact I].
Qed.

Lemma R_fixer_walk n h1 h2 descendant child : descendant < n -> child < n ->
  forall fuel target, R n h1 h2 -> lt_opt n target ->
  R n (fixer_walk fuel h1 target descendant child) (fixer_walk fuel h2 target descendant child).
Proof.
  intros Ld Lc. induction fuel as [|f IH]; intros target H Ht; cbn [fixer_walk]; [exact H|].
  destruct target as [t|]; [|exact H]. cbn in Ht.
  rewrite <- (R_read _ _ _ _ H Ht).
  pose proof (R_ns _ _ _ _ H Ht) as B. destruct (ns (h1 t)) as [s|].
  - cbn in B. apply R_set_pe; [|exact Lc]. apply R_set_ne; [exact H | exact B].
  - apply IH; [exact H | exact (R_par _ _ _ _ H Ht)].
Qed.

Lemma R_linkage_fixer n h1 h2 fuel el : R n h1 h2 -> el < n ->
  R n (linkage_fixer fuel h1 el) (linkage_fixer fuel h2 el).
Proof.
  intros H L. unfold linkage_fixer. rewrite <- (R_read _ _ _ _ H L).
  pose proof (R_kids _ _ _ _ H L) as K.
  destruct (kids (h1 el)) as [|first rest] eqn:EK; [exact H|].
  pose proof (all_lt_last _ _ K) as KL.
  destruct (last_opt (first :: rest)) as [child|]; [|exact H]. cbn in KL.
  assert (Lf : first < n) by (eapply all_lt_in; [exact K | now left]).
  (* first block *)
  assert (R1 : R n
    (if Nat.eqb child first && match par (h1 el) with Some _ => true | None => false end
     then set_ps (set_pe (match pe (set_ne h1 el (Some child) child) with
                          | Some q => if negb (Nat.eqb q el) then set_ne (set_ne h1 el (Some child)) q None else set_ne h1 el (Some child)
                          | None => set_ne h1 el (Some child) end) child (Some el)) child None
     else h1)
    (if Nat.eqb child first && match par (h1 el) with Some _ => true | None => false end
     then set_ps (set_pe (match pe (set_ne h2 el (Some child) child) with
                          | Some q => if negb (Nat.eqb q el) then set_ne (set_ne h2 el (Some child)) q None else set_ne h2 el (Some child)
                          | None => set_ne h2 el (Some child) end) child (Some el)) child None
     else h2)).
  { destruct (Nat.eqb child first && _); [|exact H].
    assert (Ra : R n (set_ne h1 el (Some child)) (set_ne h2 el (Some child))) by (apply R_set_ne; assumption).
    apply R_set_ps; [|exact I]. apply R_set_pe; [|exact L].
    rewrite <- (R_read _ _ _ _ Ra KL).
    destruct (pe (set_ne h1 el (Some child) child)) as [q|]; [|exact Ra].
    destruct (negb (Nat.eqb q el)); [|exact Ra]. apply R_set_ne; [exact Ra | exact I]. }
  set (b1 := if Nat.eqb child first && _ then _ else h1) in *.
  set (b2 := if Nat.eqb child first && _ then _ else h2) in *.
  assert (R2 : R n (set_ns b1 child None) (set_ns b2 child None)) by (apply R_set_ns; [exact R1 | exact I]).
  set (c1 := set_ns b1 child None) in *. set (c2 := set_ns b2 child None) in *.
  (* descendant *)
  assert (D : (if is_tag c1 child && match kids (c1 child) with [] => false | _ => true end
               then match last_descendant fuel c1 child false true with Some d => d | None => child end else child) =
              (if is_tag c2 child && match kids (c2 child) with [] => false | _ => true end
               then match last_descendant fuel c2 child false true with Some d => d | None => child end else child) /\
              (if is_tag c1 child && match kids (c1 child) with [] => false | _ => true end
               then match last_descendant fuel c1 child false true with Some d => d | None => child end else child) < n).
  { unfold is_tag. rewrite <- (R_read _ _ _ _ R2 KL).
    destruct (R_last_descendant n c1 c2 fuel child false true R2 KL) as [E1 E2]. rewrite <- E1.
    destruct (match kind (c1 child) with KStr _ => false | _ => true end && _); [|auto].
    destruct (last_descendant fuel c1 child false true); auto. }
  destruct D as [D1 D2]. rewrite <- D1.
  set (d := if is_tag c1 child && _ then _ else child) in *.
  apply R_fixer_walk; [exact D2 | exact KL | | exact L].
  apply R_set_ns; [|exact I]. apply R_set_ne; [exact R2 | exact I].
Qed.

(* ------------------------------------------------------------------ the parser state *)
Record sim (b1 b2 : bstate) : Prop := mksim {
  sim_nxt : nxt (b_st b1) = nxt (b_st b2);
  sim_R : R (nxt (b_st b1)) (hp (b_st b1)) (hp (b_st b2));
  sim_pay : forall x, x < nxt (b_st b1) -> b_pay b1 x = b_pay b2 x;
  sim_stack : b_stack b1 = b_stack b2;
  sim_counter : b_counter b1 = b_counter b2;
  sim_pws : b_pws b1 = b_pws b2;
  sim_scs : b_scs b1 = b_scs b2;
  sim_data : b_data b1 = b_data b2;
  sim_mre : b_mre b1 = b_mre b2;
  sim_cur : b_cur b1 = b_cur b2;
  sim_stack_lt : all_lt (nxt (b_st b1)) (b_stack b1);
  sim_scs_lt : all_lt (nxt (b_st b1)) (b_scs b1);
  sim_mre_lt : lt_opt (nxt (b_st b1)) (b_mre b1);
  sim_cur_lt : lt_opt (nxt (b_st b1)) (b_cur b1)
}.

(* both states in components: the same parser-state fields, heaps and payloads related *)
Lemma sim_inv b1 b2 : sim b1 b2 ->
  exists h1 h2 n p1 p2 stk cnt pws scs data mre cur,
    b1 = mkb (mkst h1 n) p1 stk cnt pws scs data mre cur /\
    b2 = mkb (mkst h2 n) p2 stk cnt pws scs data mre cur /\
    R n h1 h2 /\ (forall x, x < n -> p1 x = p2 x) /\ all_lt n stk /\ all_lt n scs /\ lt_opt n mre /\ lt_opt n cur.
Proof.
  intros [A B C D E F G H I J K L M N].
  destruct b1 as [[h1 n1] p1 s1 c1 w1 g1 d1 m1 u1], b2 as [[h2 n2] p2 s2 c2 w2 g2 d2 m2 u2]. cbn in *. subst.
  do 12 eexists. split; [reflexivity|]. split; [reflexivity|].
  split; [assumption|]. split; [assumption|]. split; [assumption|]. split; [assumption|]. split; assumption.
Qed.
Lemma sim_intro h1 h2 n p1 p2 stk cnt pws scs data mre cur :
  R n h1 h2 -> (forall x, x < n -> p1 x = p2 x) -> all_lt n stk -> all_lt n scs -> lt_opt n mre -> lt_opt n cur ->
  sim (mkb (mkst h1 n) p1 stk cnt pws scs data mre cur) (mkb (mkst h2 n) p2 stk cnt pws scs data mre cur).
Proof. intros. constructor; cbn; auto. Qed.

Ltac open_sim HS :=
  let h1 := fresh "h1" in let h2 := fresh "h2" in let n := fresh "n" in let p1 := fresh "p1" in let p2 := fresh "p2" in
  let stk := fresh "stk" in let cnt := fresh "cnt" in let pws := fresh "pws" in let scs := fresh "scs" in
  let data := fresh "data" in let mre := fresh "mre" in let cur := fresh "cur" in
  let HR := fresh "HR" in let HP := fresh "HP" in let Hstk := fresh "Hstk" in let Hscs := fresh "Hscs" in
  let Hmre := fresh "Hmre" in let Hcur := fresh "Hcur" in
  destruct (sim_inv _ _ HS) as (h1 & h2 & n & p1 & p2 & stk & cnt & pws & scs & data & mre & cur & -> & -> & HR & HP & Hstk & Hscs & Hmre & Hcur).

Lemma sim_push_tag cfg b1 b2 tag : sim b1 b2 -> tag < nxt (b_st b1) -> sim (push_tag cfg b1 tag) (push_tag cfg b2 tag).
Proof.
  intros HS L. open_sim HS. cbn in L. unfold push_tag, name_of. cbn [b_st b_pay b_cur hp b_stack b_counter b_pws b_scs b_data b_mre with_heap nxt].
  rewrite <- (HP tag L).
  apply sim_intro; auto.
  - destruct cur as [c|]; [|exact HR]. cbn in Hcur. rewrite <- (R_read _ _ _ _ HR Hcur).
    apply R_set_kids; [exact HR|]. apply all_lt_app; [exact (R_kids _ _ _ _ HR Hcur) | exact L].
  - constructor; assumption.
  - destruct (assocS (p_name (p1 tag)) (c_containers cfg)); [constructor; assumption | assumption].
Qed.

Lemma all_lt_tl n x l : all_lt n (x :: l) -> x < n /\ all_lt n l.
Proof. intros H. inversion H; auto. Qed.

Lemma sim_pop_tag b1 b2 : sim b1 b2 -> sim (pop_tag b1) (pop_tag b2).
Proof.
  intros HS. open_sim HS. unfold pop_tag, name_of. cbn [b_st b_pay b_cur hp b_stack b_counter b_pws b_scs b_data b_mre nxt].
  destruct stk as [|tag rest]; [apply sim_intro; auto|].
  destruct (all_lt_tl _ _ _ Hstk) as [Lt Lrest]. rewrite <- (HP tag Lt).
  apply sim_intro; auto.
  - destruct scs as [|t r]; [constructor|]. destruct (Nat.eqb tag t); [exact (proj2 (all_lt_tl _ _ _ Hscs)) | exact Hscs].
  - destruct rest as [|t r]; [exact Hcur|]. exact (proj1 (all_lt_tl _ _ _ Lrest)).
Qed.

Lemma sim_string_container cfg b1 b2 base : sim b1 b2 -> string_container cfg b1 base = string_container cfg b2 base.
Proof.
  intros HS. open_sim HS. unfold string_container, name_of. cbn [b_scs b_pay].
  destruct scs as [|t r]; [reflexivity|]. rewrite <- (HP t (proj1 (all_lt_tl _ _ _ Hscs))). reflexivity.
Qed.

Lemma sim_object_was_parsed b1 b2 o : sim b1 b2 -> o < nxt (b_st b1) -> sim (object_was_parsed b1 o) (object_was_parsed b2 o).
Proof.
  intros HS L. open_sim HS. cbn in L. unfold object_was_parsed.
  cbn [b_st b_pay b_cur hp b_stack b_counter b_pws b_scs b_data b_mre with_heap nxt fuel_of].
  destruct cur as [parent|]; [|apply sim_intro; auto]. cbn in Hcur.
  rewrite <- (R_read _ _ _ _ HR Hcur).
  assert (R1 : R n (setup h1 o (Some parent) mre) (setup h2 o (Some parent) mre)) by (apply R_setup; auto).
  set (a1 := setup h1 o (Some parent) mre) in *. set (a2 := setup h2 o (Some parent) mre) in *.
  rewrite <- (R_read _ _ _ _ R1 Hcur).
  assert (R2 : R n (set_kids a1 parent (kids (a1 parent) ++ [o])) (set_kids a2 parent (kids (a1 parent) ++ [o]))).
  { apply R_set_kids; [exact R1|]. apply all_lt_app; [exact (R_kids _ _ _ _ R1 Hcur) | exact L]. }
  apply sim_intro; auto.
  destruct (ne (h1 parent)); [|exact R2]. apply R_linkage_fixer; assumption.
Qed.

Lemma pay_upd n (p1 p2 : pmap) pl : (forall x, x < n -> p1 x = p2 x) ->
  forall x, x < S n -> pupd p1 n pl x = pupd p2 n pl x.
Proof.
  intros H x L. unfold pupd. destruct (Nat.eqb_spec x n); [reflexivity|]. apply H. lia.
Qed.

Lemma sim_end_data cfg b1 b2 c : sim b1 b2 -> sim (end_data cfg b1 c) (end_data cfg b2 c).
Proof.
  intros HS. pose proof (sim_string_container cfg b1 b2 c HS) as SC. revert SC.
  open_sim HS. intros SC. unfold end_data. cbn [b_data b_pws b_st alloc nxt hp b_pay b_stack b_counter b_scs b_mre b_cur].
  destruct data as [|d0 dl]; [apply sim_intro; auto|].
  rewrite <- SC.
  set (cur_text := match pws with [] => _ | _ => _ end).
  set (cls := string_container cfg _ c).
  apply sim_object_was_parsed; [|cbn; lia].
  apply sim_intro.
  - apply R_alloc. exact HR.
  - apply pay_upd. exact HP.
  - eapply all_lt_mono; [|exact Hstk]. cbn; lia.
  - eapply all_lt_mono; [|exact Hscs]. cbn; lia.
  - eapply lt_opt_mono; [|exact Hmre]. cbn; lia.
  - eapply lt_opt_mono; [|exact Hcur]. cbn; lia.
Qed.

Lemma sim_handle_starttag cfg b1 b2 name prefix attrs : sim b1 b2 ->
  sim (handle_starttag cfg b1 name prefix attrs) (handle_starttag cfg b2 name prefix attrs).
Proof.
  intros HS0. pose proof (sim_end_data cfg b1 b2 None HS0) as HS. unfold handle_starttag.
  set (e1 := end_data cfg b1 None) in *. set (e2 := end_data cfg b2 None) in *. clearbody e1 e2. clear HS0 b1 b2.
  open_sim HS. cbn [b_st alloc nxt hp b_pay b_cur b_mre b_stack b_counter b_pws b_scs b_data with_heap].
  apply sim_push_tag; [|cbn; lia].
  assert (R0 : R (S n) (upd h1 n (blank KTag name)) (upd h2 n (blank KTag name))) by (apply R_alloc; exact HR).
  assert (Hmre' : lt_opt (S n) mre) by (eapply lt_opt_mono; [|exact Hmre]; lia).
  assert (Hcur' : lt_opt (S n) cur) by (eapply lt_opt_mono; [|exact Hcur]; lia).
  apply sim_intro.
  - assert (R1 : R (S n) (setup (upd h1 n (blank KTag name)) n cur mre) (setup (upd h2 n (blank KTag name)) n cur mre))
      by (apply R_setup; auto).
    destruct mre as [q|]; [|exact R1]. apply R_set_ne; [exact R1 | cbn; lia].
  - apply pay_upd. exact HP.
  - eapply all_lt_mono; [|exact Hstk]. cbn; lia.
  - eapply all_lt_mono; [|exact Hscs]. cbn; lia.
  - cbn. lia.
  - exact Hcur'.
Qed.

Lemma sim_name_of b1 b2 t : sim b1 b2 -> t < nxt (b_st b1) -> name_of b1 t = name_of b2 t /\ p_prefix (b_pay b1 t) = p_prefix (b_pay b2 t).
Proof. intros HS L. unfold name_of. rewrite (sim_pay _ _ HS t L). auto. Qed.

Lemma sim_pop_loop b1 b2 name prefix : forall k, sim b1 b2 -> sim (pop_loop k b1 name prefix) (pop_loop k b2 name prefix).
Proof.
  intros k. revert b1 b2. induction k as [|k IH]; intros b1 b2 HS; cbn [pop_loop]; [exact HS|].
  unfold cget. rewrite <- (sim_counter _ _ HS).
  destruct (assocS name (b_counter b1)) as [z|]; [|exact HS].
  destruct (Z.eqb z 0); [exact HS|].
  rewrite <- (sim_stack _ _ HS). pose proof (sim_stack_lt _ _ HS) as Hl.
  destruct (b_stack b1) as [|t r]; [exact HS|].
  destruct (sim_name_of b1 b2 t HS (proj1 (all_lt_tl _ _ _ Hl))) as [E1 E2]. rewrite <- E1, <- E2.
  destruct (str_eqb name (name_of b1 t) && opt_str_eqb prefix (p_prefix (b_pay b1 t))).
  - apply sim_pop_tag. exact HS.
  - apply IH. apply sim_pop_tag. exact HS.
Qed.

Lemma all_lt_removelast n l : all_lt n l -> all_lt n (removelast l).
Proof.
  unfold all_lt. rewrite !Forall_forall. intros H x Hx. apply H.
  induction l as [|a l IH]; [destruct Hx|]. cbn [removelast] in Hx. destruct l as [|b l]; [destruct Hx|].
  destruct Hx as [<-|Hx]; [now left | right; apply IH; [intros; apply H; now right | exact Hx]].
Qed.

Lemma sim_is_open b1 b2 name prefix : sim b1 b2 -> is_open b1 name prefix = is_open b2 name prefix.
Proof.
  intros HS. unfold is_open. rewrite <- (sim_stack _ _ HS).
  pose proof (all_lt_removelast _ _ (sim_stack_lt _ _ HS)) as Hl.
  induction (removelast (b_stack b1)) as [|t r IH]; [reflexivity|]. cbn [existsb].
  destruct (all_lt_tl _ _ _ Hl) as [Lt Lr].
  destruct (sim_name_of b1 b2 t HS Lt) as [E1 E2]. rewrite <- E1, <- E2, (IH Lr). reflexivity.
Qed.

Lemma sim_pop_to_tag cfg b1 b2 name prefix : sim b1 b2 -> sim (pop_to_tag cfg b1 name prefix) (pop_to_tag cfg b2 name prefix).
Proof.
  intros HS. unfold pop_to_tag.
  unfold counter_positive, cget. rewrite <- (sim_counter _ _ HS), <- (sim_is_open b1 b2 name prefix HS).
  destruct (_ && negb (is_open b1 name prefix)); [exact HS|].
  rewrite <- (sim_stack _ _ HS). apply sim_pop_loop. exact HS.
Qed.

Lemma sim_handle_data b1 b2 s : sim b1 b2 -> sim (handle_data b1 s) (handle_data b2 s).
Proof. intros HS. open_sim HS. unfold handle_data. cbn. apply sim_intro; auto. Qed.

Lemma sim_step cfg b1 b2 e : sim b1 b2 -> sim (step_event cfg b1 e) (step_event cfg b2 e).
Proof.
  intros HS. destruct e; cbn [step_event].
  - now apply sim_handle_starttag.
  - unfold handle_endtag. apply sim_pop_to_tag. now apply sim_end_data.
  - now apply sim_handle_data.
  - now apply sim_end_data.
Qed.

Lemma sim_run cfg evs : forall b1 b2, sim b1 b2 -> sim (run_events cfg b1 evs) (run_events cfg b2 evs).
Proof.
  unfold run_events. induction evs as [|e evs IH]; intros b1 b2 HS; cbn [fold_left]; [exact HS|].
  apply IH. now apply sim_step.
Qed.

Lemma sim_pop_all cfg : forall k b1 b2, sim b1 b2 -> sim (pop_all k cfg b1) (pop_all k cfg b2).
Proof.
  induction k as [|k IH]; intros b1 b2 HS; cbn [pop_all]; [exact HS|].
  rewrite <- (sim_cur _ _ HS).
  destruct (b_cur b1) as [c|]; [|exact HS].
  destruct (Nat.eqb c 0); [exact HS|]. apply IH. now apply sim_pop_tag.
Qed.

Lemma sim_finish cfg b1 b2 : sim b1 b2 -> sim (finish cfg b1) (finish cfg b2).
Proof.
  intros HS. unfold finish. pose proof (sim_end_data cfg b1 b2 None HS) as HS'.
  rewrite <- (sim_stack _ _ HS'). now apply sim_pop_all.
Qed.

(* reset() relates any two objects *)
Lemma sim_reset cfg b1 b2 : sim (reset_obj cfg b1) (reset_obj cfg b2).
Proof.
  unfold reset_obj. apply sim_push_tag; [|cbn; lia].
  apply sim_intro.
  - intros x L. assert (x = 0) by lia. subst. unfold upd. cbn.
    split; [reflexivity|]. unfold cell_closed, all_lt. cbn. repeat split; auto.
  - intros x L. assert (x = 0) by lia. subst. reflexivity.
  - constructor.
  - constructor.
  - exact I.
  - exact I.
Qed.

(* ------------------------------------------------------------------ the theorem *)
(* every observable of the object: allocation counter, the cells and payloads below it, the parser state *)
Definition same_object (b1 b2 : bstate) : Prop :=
  nxt (b_st b1) = nxt (b_st b2) /\
  (forall x, x < nxt (b_st b1) -> hp (b_st b1) x = hp (b_st b2) x /\ b_pay b1 x = b_pay b2 x) /\
  b_stack b1 = b_stack b2 /\ b_counter b1 = b_counter b2 /\ b_pws b1 = b_pws b2 /\ b_scs b1 = b_scs b2 /\
  b_data b1 = b_data b2 /\ b_mre b1 = b_mre b2 /\ b_cur b1 = b_cur b2.

Lemma sim_same_object b1 b2 : sim b1 b2 -> same_object b1 b2.
Proof.
  intros [A B C D E F G H I J K L M N]. unfold same_object. repeat split; auto.
  - exact (proj1 (B x H0)).
Qed.

(* the object produced from any prior state equals the one produced from a blank object *)
Theorem attempt_independent_of_prior_state : forall cfg b1 b2 evs,
  same_object (finish cfg (run_events cfg (reset_obj cfg b1) evs))
              (finish cfg (run_events cfg (reset_obj cfg b2) evs)).
Proof. intros. apply sim_same_object, sim_finish, sim_run, sim_reset. Qed.

(* Model.Build.feed (the C03 machine) is the accepted attempt run on a blank object *)
Lemma feed_is_fresh_attempt cfg evs : feed cfg evs = finish cfg (run_events cfg (reset_obj cfg blank_obj) evs).
Proof. reflexivity. Qed.

Lemma loop_skips_rejected cfg acc evs rest tail : st_out acc = Accept evs ->
  forall rejected b rej, forallb is_reject rejected = true ->
  exists b', construct_loop cfg b rej (rejected ++ acc :: rest) tail =
             CSoup (mksoup (finish cfg (run_events cfg (reset_obj cfg b') evs)) (st_meta acc)).
Proof.
  intros Ha. induction rejected as [|s ss IH]; intros b rej H; cbn [app construct_loop].
  - rewrite Ha. eauto.
  - cbn [forallb] in H. apply andb_prop in H as [H1 H2]. unfold is_reject in H1.
    destruct (st_out s) as [|evs' msg|]; try discriminate. rewrite ctor_catches_rejection. now apply IH.
Qed.

(* retry_clean: k rejected attempts (each after any events), then an accepted one — whatever follows,
   and whatever state the object was in before: the result is, on every observable, the object that
   parsing the accepted strategy alone produces, and it carries the accepted strategy's bookkeeping *)
Theorem retry_clean : forall cfg b0 rejected acc evs rest tail,
  forallb is_reject rejected = true -> st_out acc = Accept evs ->
  exists s, construct cfg b0 (rejected ++ acc :: rest) tail = CSoup s /\
            so_meta s = st_meta acc /\ same_object (so_b s) (feed cfg evs).
Proof.
  intros cfg b0 rejected acc evs rest tail H Ha. unfold construct.
  destruct (loop_skips_rejected cfg acc evs rest tail Ha rejected b0 [] H) as [b' ->].
  eexists. split; [reflexivity|]. split; [reflexivity|]. cbn [so_b].
  rewrite feed_is_fresh_attempt. apply attempt_independent_of_prior_state.
Qed.
