From Coq Require Import List NArith Bool Lia Arith.
From BS Require Import Base.Types Model.Registry Spec.RegistrySpec.
Import ListNotations.
Open Scope N_scope.

Lemma memN_In x l : memN x l = true <-> In x l.
Proof.
  unfold memN. rewrite existsb_exists. split.
  - intros [y [Hy E]]. apply N.eqb_eq in E. subst. exact Hy.
  - intros H. exists x. split; [exact H | apply N.eqb_refl].
Qed.

(* ---- builders_for_feature after a history ---- *)

Definition cnt (f : N) (fs : list N) : nat := length (filter (N.eqb f) fs).

Lemma fget_fins f g b m :
  fget f (fins g b m) = if N.eqb f g then b :: fget f m else fget f m.
Proof.
  induction m as [|[h l] m IH]; cbn [fins fget].
  - destruct (N.eqb f g); reflexivity.
  - destruct (N.eqb g h) eqn:Egh; cbn [fget].
    + apply N.eqb_eq in Egh. subst h.
      destruct (N.eqb f g); reflexivity.
    + destruct (N.eqb f h) eqn:Efh.
      * apply N.eqb_eq in Efh. subst h.
        destruct (N.eqb f g) eqn:Efg; [|reflexivity].
        apply N.eqb_eq in Efg. subst g. rewrite N.eqb_refl in Egh. discriminate.
      * exact IH.
Qed.

Lemma repeat_snoc {X} (b : X) n : repeat b n ++ [b] = b :: repeat b n.
Proof. induction n as [|n IH]; cbn; [reflexivity | now rewrite IH]. Qed.

Lemma fget_fold f b fs : forall m,
  fget f (fold_left (fun m g => fins g b m) fs m) = repeat b (cnt f fs) ++ fget f m.
Proof.
  induction fs as [|g fs IH]; intros m; cbn [fold_left].
  - reflexivity.
  - rewrite IH, fget_fins. unfold cnt. cbn [filter].
    destruct (N.eqb f g); cbn [length repeat].
    + change (b :: fget f m) with ([b] ++ fget f m).
      rewrite app_assoc, repeat_snoc. reflexivity.
    + reflexivity.
Qed.

Definition occ (f : N) (l : list registration) : list N :=
  flat_map (fun r => repeat (fst r) (cnt f (snd r))) l.

Lemma state_of_snoc h r : state_of (h ++ [r]) = register (state_of h) r.
Proof. unfold state_of. rewrite fold_left_app. reflexivity. Qed.

Lemma fget_state f hist : fget f (bff (state_of hist)) = occ f (rev hist).
Proof.
  induction hist as [|r h IH] using rev_ind.
  - reflexivity.
  - rewrite state_of_snoc, rev_app_distr. cbn [rev app occ flat_map].
    unfold register at 1. cbn [bff]. rewrite fget_fold, IH. reflexivity.
Qed.

Lemma builders_state hist : builders (state_of hist) = map fst (rev hist).
Proof.
  induction hist as [|r h IH] using rev_ind.
  - reflexivity.
  - rewrite state_of_snoc, rev_app_distr. cbn. now rewrite IH.
Qed.

Lemma cnt_pos f fs : (0 < cnt f fs)%nat <-> memN f fs = true.
Proof.
  unfold cnt. induction fs as [|g fs IH]; cbn [filter length memN existsb].
  - split; [lia | discriminate].
  - destruct (N.eqb f g); cbn [length orb]; [split; [reflexivity|lia] | exact IH].
Qed.

Lemma In_occ b f l :
  In b (occ f l) <-> exists r, In r l /\ fst r = b /\ memN f (snd r) = true.
Proof.
  unfold occ. rewrite in_flat_map. split.
  - intros [r [Hr Hb]]. apply repeat_spec in Hb as Hb'. exists r. repeat split; auto.
    apply cnt_pos. destruct (cnt f (snd r)); [destruct Hb | lia].
  - intros [r [Hr [Hb Hm]]]. exists r. split; [exact Hr|].
    apply cnt_pos in Hm. destruct (cnt f (snd r)) as [|n]; [lia|]. cbn. now left.
Qed.

Lemma occ_nonempty f hist : (occ f (rev hist) <> []) <-> offered hist f = true.
Proof.
  unfold offered. rewrite existsb_exists. split.
  - intros H. destruct (occ f (rev hist)) as [|b l] eqn:E; [congruence|].
    assert (Hb : In b (occ f (rev hist))) by (rewrite E; now left).
    apply In_occ in Hb as [r [Hr [_ Hm]]]. exists r. split; [now apply in_rev|exact Hm].
  - intros [r [Hr Hm]] E.
    assert (Hb : In (fst r) (occ f (rev hist))).
    { apply In_occ. exists r. repeat split; auto. now apply in_rev in Hr. }
    rewrite E in Hb. destruct Hb.
Qed.

Lemma mem_occ b f hist : memN b (occ f (rev hist)) = advertises hist b f.
Proof.
  apply eq_true_iff_eq. rewrite memN_In, In_occ. unfold advertises.
  rewrite existsb_exists. split.
  - intros [r [Hr [Hb Hm]]]. exists r. split; [now apply in_rev|].
    rewrite Hm, andb_true_r. now apply N.eqb_eq.
  - intros [r [Hr H]]. apply andb_true_iff in H as [Hb Hm]. apply N.eqb_eq in Hb.
    exists r. repeat split; auto. now apply in_rev in Hr.
Qed.

Lemma find_occ (p : N -> bool) f l :
  find p (occ f l) =
  option_map fst (find (fun r => memN f (snd r) && p (fst r)) l).
Proof.
  induction l as [|r l IH]; cbn [occ flat_map find]; [reflexivity|].
  fold (occ f l).
  destruct (memN f (snd r)) eqn:Em.
  - apply cnt_pos in Em. destruct (cnt f (snd r)) as [|n] eqn:En; [lia|].
    cbn [repeat app find andb]. destruct (p (fst r)) eqn:Ep; [reflexivity|].
    assert (G : forall k, find p (repeat (fst r) k ++ occ f l) = find p (occ f l)).
    { induction k as [|k IHk]; cbn [repeat app find]; [reflexivity|]. now rewrite Ep. }
    rewrite G. exact IH.
  - cbn [andb]. assert (cnt f (snd r) = 0)%nat as ->.
    { destruct (cnt f (snd r)) eqn:En; [reflexivity|].
      assert (memN f (snd r) = true) by (apply cnt_pos; lia). congruence. }
    cbn [repeat app]. exact IH.
Qed.

(* ---- the candidate loop ---- *)

Section Loop.
  Variable m : fmap.
  Let W (f : N) := fget f m.
  Definition nonempty (l : list N) : bool := match l with [] => false | _ => true end.

  Lemma filter_filter {X} (p q : X -> bool) l :
    filter q (filter p l) = filter (fun x => p x && q x) l.
  Proof.
    induction l as [|x l IH]; cbn [filter]; [reflexivity|].
    destruct (p x); cbn [filter andb]; [destruct (q x); now rewrite IH | exact IH].
  Qed.

  Lemma loop_some feats : forall c s,
    fold_left (lookup_step m) feats (Some c, Some s) =
    (Some c, Some (filter (fun b => forallb (fun f => memN b (W f))
                                            (filter (fun f => nonempty (W f)) feats)) s)).
  Proof.
    induction feats as [|f feats IH]; intros c s; cbn [fold_left filter].
    - cbn [forallb]. f_equal. f_equal. induction s as [|x s IHs]; cbn; [reflexivity|now rewrite <- IHs].
    - unfold lookup_step at 2. fold (W f). destruct (W f) as [|w0 w] eqn:Ew; cbn [nonempty].
      + apply IH.
      + rewrite IH, filter_filter. cbn [forallb]. rewrite Ew. reflexivity.
  Qed.

  Lemma loop_none feats :
    fold_left (lookup_step m) feats (None, None) =
    match filter (fun f => nonempty (W f)) feats with
    | [] => (None, None)
    | f0 :: rest =>
        (Some (W f0), Some (filter (fun b => forallb (fun f => memN b (W f)) rest) (W f0)))
    end.
  Proof.
    induction feats as [|f feats IH]; cbn [fold_left filter]; [reflexivity|].
    unfold lookup_step at 2. fold (W f). destruct (W f) as [|w0 w] eqn:Ew; cbn [nonempty].
    - exact IH.
    - rewrite loop_some. rewrite Ew. reflexivity.
  Qed.
End Loop.

Lemma find_mem_filter (P : N -> bool) c :
  find (fun b => memN b (filter P c)) c = find P c.
Proof.
  assert (G : forall c', (forall b, In b c' -> In b c) ->
                         find (fun b => memN b (filter P c)) c' = find P c').
  { induction c' as [|x c' IH]; intros Hsub; cbn [find]; [reflexivity|].
    assert (E : memN x (filter P c) = P x).
    { apply eq_true_iff_eq. rewrite memN_In, filter_In. split; [tauto|].
      intros Hp. split; [apply Hsub; now left | exact Hp]. }
    rewrite E. destruct (P x); [reflexivity|]. apply IH. intros b Hb. apply Hsub. now right. }
  apply G. auto.
Qed.

Lemma find_ext {X} (p q : X -> bool) l : (forall x, p x = q x) -> find p l = find q l.
Proof. intros H. induction l as [|x l IH]; cbn; [reflexivity|]. rewrite H, IH. reflexivity. Qed.

Lemma filter_ext' {X} (p q : X -> bool) l : (forall x, p x = q x) -> filter p l = filter q l.
Proof. intros H. induction l as [|x l IH]; cbn; [reflexivity|]. rewrite H, IH. reflexivity. Qed.

Lemma forallb_ext' {X} (p q : X -> bool) l : (forall x, p x = q x) -> forallb p l = forallb q l.
Proof. intros H. induction l as [|x l IH]; cbn; [reflexivity|]. rewrite H, IH. reflexivity. Qed.

(* ---- main theorem: every registration history, every request list ---- *)

Theorem lookup_refines_spec : forall hist features,
  lookup (state_of hist) features = lookup_spec hist features.
Proof.
  intros hist features. unfold lookup, lookup_spec.
  rewrite builders_state.
  destruct (rev hist) as [|newest older] eqn:Erev; cbn [map]; [reflexivity|].
  destruct features as [|f1 fs]; [reflexivity|].
  rewrite loop_none.
  assert (Eoff : forall f, nonempty (fget f (bff (state_of hist))) = offered hist f).
  { intros f. rewrite fget_state. apply eq_true_iff_eq. rewrite <- occ_nonempty.
    destruct (occ f (rev hist)); cbn; split; congruence. }
  rewrite (filter_ext' _ (offered hist) (f1 :: fs) Eoff).
  destruct (filter (offered hist) (f1 :: fs)) as [|f0 rest]; [reflexivity|].
  rewrite find_mem_filter, fget_state, <- Erev, find_occ.
  f_equal. apply find_ext. intros r. f_equal.
  apply forallb_ext'. intros f. rewrite fget_state. apply mem_occ.
Qed.

(* ---- the property's wording when every class is registered once ---- *)

Lemma advertises_unique hist r f :
  NoDup (map fst hist) -> In r hist ->
  advertises hist (fst r) f = memN f (snd r).
Proof.
  intros Hnd Hr. apply eq_true_iff_eq. unfold advertises. rewrite existsb_exists. split.
  - intros [r' [Hr' H]]. apply andb_true_iff in H as [Hb Hm]. apply N.eqb_eq in Hb.
    assert (r' = r) as ->; [|exact Hm].
    clear - Hnd Hr Hr' Hb. induction hist as [|x h IH]; [destruct Hr|].
    cbn in Hnd. inversion Hnd as [|? ? Hnotin Hnd']; subst.
    destruct Hr as [->|Hr], Hr' as [->|Hr']; auto.
    + exfalso. apply Hnotin. rewrite <- Hb. now apply in_map.
    + exfalso. apply Hnotin. rewrite Hb. now apply in_map.
  - intros Hm. exists r. split; [exact Hr|]. now rewrite N.eqb_refl, Hm.
Qed.

Lemma find_ext_in {X} (p q : X -> bool) l :
  (forall x, In x l -> p x = q x) -> find p l = find q l.
Proof.
  induction l as [|x l IH]; intros H; cbn; [reflexivity|].
  rewrite (H x (or_introl eq_refl)). destruct (q x); [reflexivity|].
  apply IH. intros y Hy. apply H. now right.
Qed.

Theorem lookup_spec_simple_ok : forall hist features,
  NoDup (map fst hist) ->
  lookup (state_of hist) features = lookup_spec_simple hist features.
Proof.
  intros hist features Hnd. rewrite lookup_refines_spec.
  unfold lookup_spec, lookup_spec_simple, registration in *.
  destruct (rev hist) as [|newest older] eqn:Erev; [reflexivity|].
  destruct features as [|f1 fs]; [reflexivity|].
  destruct (filter (offered hist) (f1 :: fs)) as [|f0 rest]; [reflexivity|].
  f_equal. rewrite <- Erev. apply find_ext_in. intros r Hr. apply in_rev in Hr.
  cbn [forallb]. f_equal. apply forallb_ext'. intros f. now apply advertises_unique.
Qed.

(* ---- corollaries in the property's own words ---- *)

Corollary lookup_empty_registry features : lookup (state_of []) features = None.
Proof. reflexivity. Qed.

Corollary lookup_no_features hist r :
  lookup (state_of (hist ++ [r])) [] = Some (fst r).
Proof. rewrite lookup_refines_spec. unfold lookup_spec. rewrite rev_app_distr. reflexivity. Qed.

Lemma filter_all_false {X} (p : X -> bool) l :
  forallb (fun x => negb (p x)) l = true -> filter p l = [].
Proof.
  induction l as [|x l IH]; cbn; [reflexivity|]. intros H.
  apply andb_true_iff in H as [Hx Hl]. destruct (p x); [discriminate|]. now apply IH.
Qed.

Corollary lookup_nothing_offered hist features :
  features <> [] -> forallb (fun f => negb (offered hist f)) features = true ->
  lookup (state_of hist) features = None.
Proof.
  intros Hne Hall. rewrite lookup_refines_spec. unfold lookup_spec.
  destruct (rev hist); [reflexivity|]. destruct features as [|f fs]; [congruence|].
  rewrite (filter_all_false _ _ Hall). reflexivity.
Qed.

(* unoffered features are ignored: dropping them from the request changes nothing *)
Corollary unoffered_features_ignored hist features :
  filter (offered hist) features <> [] ->
  lookup (state_of hist) features = lookup (state_of hist) (filter (offered hist) features).
Proof.
  intros Hne. rewrite !lookup_refines_spec. unfold lookup_spec.
  destruct (rev hist); [reflexivity|].
  destruct features as [|f fs]; [now cbn in Hne|].
  assert (Eidem : filter (offered hist) (filter (offered hist) (f :: fs)) =
                  filter (offered hist) (f :: fs)).
  { rewrite filter_filter. apply filter_ext'. intros x. now destruct (offered hist x). }
  destruct (filter (offered hist) (f :: fs)) as [|g gs] eqn:E; [congruence|].
  rewrite Eidem. reflexivity.
Qed.

(* the result, when there is one, advertises every offered requested feature, and no
   newer registration does (NoDup form) *)
Corollary lookup_result_sound hist features b :
  NoDup (map fst hist) -> features <> [] ->
  lookup (state_of hist) features = Some b ->
  exists r, In r hist /\ fst r = b /\
            forall f, In f features -> offered hist f = true -> memN f (snd r) = true.
Proof.
  intros Hnd Hne H. rewrite lookup_spec_simple_ok in H by exact Hnd.
  unfold lookup_spec_simple, registration in *. destruct (rev hist) eqn:Erev; [discriminate|].
  destruct features as [|f fs]; [congruence|].
  destruct (filter (offered hist) (f :: fs)) as [|g gs] eqn:E; [discriminate|].
  rewrite <- Erev in H.
  destruct (find _ (rev hist)) as [r|] eqn:Ef; [|discriminate]. cbn in H. inversion H; subst.
  apply find_some in Ef as [Hin Hall]. exists r. split; [now apply in_rev|]. split; [reflexivity|].
  intros x Hx Hoff. rewrite forallb_forall in Hall. apply Hall. rewrite <- E. apply filter_In. auto.
Qed.

(* ---- constructor decision ---- *)

Theorem constructor_fnf_iff r dflt features kwargs :
  construct_decision r dflt BNone features kwargs = FeatureNotFound <->
  lookup r (match features with None | Some [] => dflt | Some l => l end) = None.
Proof. unfold construct_decision. destruct (lookup r _); split; congruence. Qed.

Theorem constructor_explicit_bypasses_registry r r' dflt dflt' features features' kwargs :
  (forall c, construct_decision r dflt (BClass c) features kwargs =
             construct_decision r' dflt' (BClass c) features' kwargs) /\
  (forall i, construct_decision r dflt (BInstance i) features kwargs =
             construct_decision r' dflt' (BInstance i) features' kwargs).
Proof. split; reflexivity. Qed.

Theorem constructor_forwards_kwargs r dflt b features kwargs c kw :
  construct_decision r dflt b features kwargs = Instantiate c kw -> kw = kwargs.
Proof.
  unfold construct_decision. destruct b; [|congruence|congruence].
  destruct (lookup r _); congruence.
Qed.

(* non-vacuity *)
Example nodup_history_exists :
  NoDup (map fst [(1, [10;11]); (2, [10]); (3, [11;12])]) /\
  lookup (state_of [(1, [10;11]); (2, [10]); (3, [11;12])]) [10; 99; 11] = Some 1 /\
  lookup (state_of [(1, [10;11]); (2, [10]); (3, [11;12])]) [10; 12] = None.
Proof.
  repeat split; try reflexivity.
  repeat constructor; cbn; intuition discriminate.
Qed.
