(* C06 — proofs about Model/Construct.v, part 1: the heuristics are total, numeric character
   references never fail, the html.parser adapter and the retry loop add no exception class of their
   own.  (Part 2, Proofs/RetryClean.v: a rejected attempt leaves nothing behind.) *)
From Coq Require Import List NArith ZArith Bool Arith Lia.
From BS Require Import Base.Sexp Base.Types Model.Heap Model.Edit Model.Build Model.Construct Gen.Stdlib Gen.T_C06.
Import ListNotations.
Open Scope N_scope.

(* ------------------------------------------------------------------ str.encode("utf8", errors) *)
Lemma utf8_encode_char_ok errors c :
  errors = 1 \/ errors = 2 \/ errors = 3 -> exists bs, utf8_encode_char errors c = Done bs.
Proof. intros [-> | [-> | ->]]; unfold utf8_encode_char; destruct (is_surrogate c); eauto. Qed.

Lemma utf8_encode_total errors s :
  errors = 1 \/ errors = 2 \/ errors = 3 -> exists bs, utf8_encode errors s = Done bs.
Proof.
  intros H. induction s as [|c s [bs IH]]; cbn [utf8_encode]; eauto.
  destruct (utf8_encode_char_ok errors c H) as [a ->]. rewrite IH. eauto.
Qed.

(* the strict handler fails exactly on the strings that contain a lone surrogate *)
Lemma utf8_encode_strict s :
  (existsb is_surrogate s = false -> exists bs, utf8_encode 0 s = Done bs) /\
  (existsb is_surrogate s = true -> utf8_encode 0 s = Raise (PyExc exc_UnicodeEncodeError)).
Proof.
  induction s as [|c s [IH1 IH2]]; cbn [utf8_encode existsb].
  - split; [eauto | discriminate].
  - unfold utf8_encode_char. destruct (is_surrogate c) eqn:E; cbn [orb].
    + split; [discriminate | reflexivity].
    + split; intros H.
      * destruct (IH1 H) as [bs ->]. eauto.
      * rewrite (IH2 H). reflexivity.
Qed.

(* ------------------------------------------------------------------ the heuristics never raise *)
Lemma filename_errors_lenient :
  c06_filename_encode_errors = 1 \/ c06_filename_encode_errors = 2 \/ c06_filename_encode_errors = 3.
Proof. vm_compute. auto. Qed.

Theorem filename_heuristic_total : forall m, exists b, markup_resembles_filename m = Done b.
Proof.
  intros [s|b]; unfold markup_resembles_filename.
  - destruct (utf8_encode_total _ s filename_errors_lenient) as [bs ->]. eauto.
  - eauto.
Qed.

Theorem preparse_total : forall m, exists ws, preparse m = Done ws.
Proof.
  intros m. unfold preparse. destruct (short_markup m); eauto. destruct (markup_is_url m); eauto.
  destruct (filename_heuristic_total m) as [[|] ->]; eauto.
Qed.

(* ------------------------------------------------------------------ numeric character references *)
Lemma hex_prefixes_table : c06_charref_hex_prefixes = [120; 88].
Proof. reflexivity. Qed.
Lemma byte_limit_table : c06_charref_byte_limit = 256.
Proof. reflexivity. Qed.
Lemma chr_catches_table :
  catches c06_charref_chr_catches exc_ValueError = true /\ catches c06_charref_chr_catches exc_OverflowError = true.
Proof. split; reflexivity. Qed.
Lemma decode_catches_table : catches c06_charref_decode_catches exc_UnicodeDecodeError = true.
Proof. reflexivity. Qed.

(* the decimal guard: present; at most K significant digits are converted, K is within the
   interpreter's limit and at least the 7 digits of 1114111; the sentinel is out of range *)
Definition guard_ok (g : option (nat * N)) : bool :=
  match g with
  | Some (k, s) => (Nat.eqb c06_int_max_str_digits 0 || Nat.leb k c06_int_max_str_digits) && Nat.leb 7 k && (1114112 <=? s)
  | None => false
  end.
Lemma guard_table : guard_ok c06_charref_guard = true.
Proof. reflexivity. Qed.

Definition dv (a : N) (s : str) : N := fold_left (fun a c => 10 * a + (c - 48)) s a.
Lemma dec_value_dv s : dec_value s = dv 0 s.
Proof. reflexivity. Qed.

Lemma dv_lower s : forall a, a * 10 ^ N.of_nat (length s) <= dv a s.
Proof.
  induction s as [|c s IH]; intros a; cbn [dv fold_left length].
  - change (N.of_nat 0) with 0. rewrite N.pow_0_r. lia.
  - fold (dv (10 * a + (c - 48)) s). specialize (IH (10 * a + (c - 48))).
    rewrite Nat2N.inj_succ, N.pow_succ_r by lia.
    eapply N.le_trans; [|exact IH].
    assert (H: 10 * a <= 10 * a + (c - 48)) by lia.
    apply (N.mul_le_mono_r _ _ (10 ^ N.of_nat (length s))) in H. lia.
Qed.

Lemma lstrip_head c s x t : lstrip c s = x :: t -> x <> c.
Proof.
  induction s as [|y s IH]; cbn [lstrip]; [discriminate|].
  destruct (N.eqb_spec y c); [exact IH|]. intros H; inversion H; subst; assumption.
Qed.
Lemma lstrip_forallb P c s : forallb P s = true -> forallb P (lstrip c s) = true.
Proof.
  induction s as [|y s IH]; cbn [lstrip forallb]; auto.
  intros H. apply andb_prop in H as [H1 H2]. destruct (N.eqb y c); auto. cbn [forallb]. now rewrite H1, H2.
Qed.
Lemma dv_lstrip0 s : dv 0 (lstrip 48 s) = dv 0 s.
Proof.
  induction s as [|y s IH]; cbn [lstrip]; auto.
  destruct (N.eqb_spec y 48); [|reflexivity]. subst. rewrite IH. reflexivity.
Qed.

Lemma is_dec_range c : is_dec c = true -> 48 <= c <= 57.
Proof. unfold is_dec. intros H. apply andb_prop in H as [H1 H2]. apply N.leb_le in H1, H2. lia. Qed.
Lemma is_hex_not_prefix x : is_hex x = true -> N.eqb x 120 = false /\ N.eqb x 88 = false.
Proof.
  intros H. split; [destruct (N.eqb_spec x 120) as [->|]|destruct (N.eqb_spec x 88) as [->|]]; auto; discriminate.
Qed.
Lemma is_dec_not_prefix x : is_dec x = true -> N.eqb x 120 = false /\ N.eqb x 88 = false.
Proof.
  intros H. split; [destruct (N.eqb_spec x 120) as [->|]|destruct (N.eqb_spec x 88) as [->|]]; auto; discriminate.
Qed.

(* a decimal numeral without a leading zero that has more than 7 digits is beyond the code space *)
Lemma long_numeral_big d t : is_dec d = true -> d <> 48 -> (7 <= length t)%nat -> 1114112 <= dv 0 (d :: t).
Proof.
  intros Hd Hn Hl. cbn [dv fold_left]. fold (dv (10 * 0 + (d - 48)) t).
  apply is_dec_range in Hd.
  eapply N.le_trans; [|apply dv_lower].
  assert (H1: 1 <= 10 * 0 + (d - 48)) by lia.
  assert (H2: 10 ^ 7 <= 10 ^ N.of_nat (length t)) by (apply N.pow_le_mono_r; lia).
  change (10 ^ 7) with 10000000 in H2. nia.
Qed.

Lemma py_int_dec_ok s : s <> [] -> forallb is_dec s = true ->
  (c06_int_max_str_digits = 0%nat \/ (length s <= c06_int_max_str_digits)%nat) ->
  py_int_dec s = Done (dec_value s).
Proof.
  intros Hne Hd Hl. unfold py_int_dec. destruct s as [|c s]; [congruence|]. rewrite Hd. cbn [negb].
  destruct Hl as [Hl|Hl].
  - rewrite Hl. reflexivity.
  - replace (Nat.ltb c06_int_max_str_digits (length (c :: s))) with false
      by (symmetry; apply Nat.ltb_ge; exact Hl).
    rewrite andb_false_r. reflexivity.
Qed.

Lemma charref_decimal_valid name : name <> [] -> forallb is_dec name = true ->
  exists n, charref_decimal name = Done n /\
            (n = dec_value name \/ (1114112 <= n /\ 1114112 <= dec_value name)).
Proof.
  intros Hne Hd. unfold charref_decimal.
  pose proof guard_table as G. unfold guard_ok in G.
  destruct c06_charref_guard as [[k s]|]; [|discriminate].
  apply andb_prop in G as [G Gs]. apply andb_prop in G as [Glim Gk].
  apply Nat.leb_le in Gk. apply N.leb_le in Gs.
  pose proof (lstrip_forallb is_dec 48 name Hd) as Hd'.
  rewrite dec_value_dv, <- (dv_lstrip0 name).
  destruct (Nat.ltb k (length (lstrip 48 name))) eqn:E.
  - apply Nat.ltb_lt in E. exists s. split; [reflexivity|]. right. split; [exact Gs|].
    destruct (lstrip 48 name) as [|d t] eqn:L; [cbn in E; lia|].
    cbn [forallb] in Hd'. apply andb_prop in Hd' as [Hd1 _].
    apply long_numeral_big; [exact Hd1 | exact (lstrip_head _ _ _ _ L) | cbn [length] in E; lia].
  - apply Nat.ltb_ge in E.
    assert (Hlim: c06_int_max_str_digits = 0%nat \/ (k <= c06_int_max_str_digits)%nat).
    { apply orb_prop in Glim as [H|H]; [left; now apply Nat.eqb_eq | right; now apply Nat.leb_le]. }
    destruct (lstrip 48 name) as [|d t] eqn:L.
    + exists 0. split; [|left; reflexivity].
      rewrite py_int_dec_ok; [reflexivity | discriminate | reflexivity |].
      destruct Hlim as [H|H]; [left; exact H | right; cbn [length]; lia].
    + exists (dv 0 (d :: t)). split; [|left; reflexivity].
      rewrite py_int_dec_ok; [reflexivity | discriminate | exact Hd' |].
      destruct Hlim as [H|H]; [left; exact H | right; lia].
Qed.

Lemma charref_number_valid name : valid_charref_name name = true ->
  exists n, charref_number name = Done n /\
            (n = name_value name \/ (1114112 <= n /\ 1114112 <= name_value name)).
Proof.
  unfold valid_charref_name, charref_number, name_value. destruct name as [|c rest]; [discriminate|].
  rewrite hex_prefixes_table. cbn [memN existsb].
  destruct (N.eqb c 120 || N.eqb c 88) eqn:E.
  - (* hexadecimal *)
    rewrite orb_false_r. rewrite E. intros H. destruct rest as [|d t]; [discriminate|].
    exists (hex_value (d :: t)). split; [|left; reflexivity].
    assert (L: lstrip c (c :: d :: t) = d :: t).
    { cbn [lstrip]. rewrite N.eqb_refl. cbn [forallb] in H. apply andb_prop in H as [Hd _].
      destruct (is_hex_not_prefix d Hd) as [A B].
      apply orb_prop in E as [E|E]; apply N.eqb_eq in E; subst c; [rewrite A|rewrite B]; reflexivity. }
    rewrite L. unfold py_int_hex. rewrite H. reflexivity.
  - rewrite orb_false_r. rewrite E. intros H.
    apply charref_decimal_valid; [discriminate | exact H].
Qed.

Lemma charref_text_big orig n : 1114112 <= n -> charref_text orig n = Done [c06_replacement_char].
Proof.
  intros H. unfold charref_text. rewrite byte_limit_table.
  replace (n <? 256) with false by (symmetry; apply N.ltb_ge; lia).
  cbn [nonempty]. replace (n <? 1114112) with false by (symmetry; apply N.ltb_ge; lia).
  destruct chr_catches_table as [A B]. destruct (n <? 2147483648); [rewrite A | rewrite B]; reflexivity.
Qed.
Lemma charref_text_mid orig n : 256 <= n -> n < 1114112 -> charref_text orig n = Done [n].
Proof.
  intros H1 H2. unfold charref_text. rewrite byte_limit_table.
  replace (n <? 256) with false by (symmetry; apply N.ltb_ge; lia).
  cbn [nonempty]. replace (n <? 1114112) with true by (symmetry; apply N.ltb_lt; lia). reflexivity.
Qed.

(* below 256: the Windows-1252 reading wins, then the document's own encoding, then the code point *)
Definition small_text (orig : option byte_decoder) (n : N) : str :=
  let d0 := match orig with
            | Some dec => match dec n with DecText d => Some d | DecRaise _ => None end
            | None => None
            end in
  let d1 := match cp1252_decoder n with DecText d => Some d | DecRaise _ => d0 end in
  match d1 with Some (c :: t) => c :: t | _ => [n] end.

Lemma cp1252_raises_decode_error n c : cp1252_decoder n = DecRaise c -> c = exc_UnicodeDecodeError.
Proof. unfold cp1252_decoder. destruct (nth_error cp1252_table (N.to_nat n)) as [[x|]|]; congruence. Qed.

Definition decoder_caught (orig : option byte_decoder) : Prop :=
  forall dec n c, orig = Some dec -> dec n = DecRaise c -> catches c06_charref_decode_catches c = true.

Lemma charref_text_small orig n : n < 256 -> decoder_caught orig ->
  charref_text orig n = Done (small_text orig n).
Proof.
  intros H Hc. unfold charref_text, small_text. rewrite byte_limit_table.
  replace (n <? 256) with true by (symmetry; apply N.ltb_lt; lia).
  unfold try_decode. replace (256 <=? n) with false by (symmetry; apply N.leb_gt; lia).
  assert (Hn: n <? 1114112 = true) by (apply N.ltb_lt; lia).
  assert (K: forall d : option str,
    match (match cp1252_decoder n with
           | DecText d' => Done (Some d')
           | DecRaise c => if catches c06_charref_decode_catches c then Done d else Raise (PyExc c)
           end) with
    | Raise e => Raise e
    | Done d' =>
        match (if nonempty d' then Done d' else if n <? 1114112 then Done (Some [n]) else
               (let c := if n <? 2147483648 then exc_ValueError else exc_OverflowError in
                if catches c06_charref_chr_catches c then Done d' else Raise (PyExc c))) with
        | Raise e => Raise e
        | Done d'' => Done match d'' with Some (c :: t) => c :: t | _ => [c06_replacement_char] end
        end
    end = Done (match (match cp1252_decoder n with DecText d' => Some d' | DecRaise _ => d end) with
                | Some (c :: t) => c :: t | _ => [n] end)).
  { intros d. destruct (cp1252_decoder n) as [t|c] eqn:E.
    - destruct t as [|x t]; cbn [nonempty]; [rewrite Hn|]; reflexivity.
    - rewrite (cp1252_raises_decode_error _ _ E), decode_catches_table.
      destruct d as [[|x t]|]; cbn [nonempty]; try rewrite Hn; reflexivity. }
  destruct orig as [dec|].
  - destruct (dec n) as [t|c] eqn:E.
    + apply K.
    + rewrite (Hc dec n c eq_refl E). apply K.
  - apply K.
Qed.

(* for every name the tokenizer can produce, the conversion only depends on the number it denotes *)
Theorem charref_value : forall orig name, valid_charref_name name = true ->
  charref_data orig name = charref_text orig (name_value name).
Proof.
  intros orig name H. unfold charref_data.
  destruct (charref_number_valid name H) as [n [-> [->|[A B]]]]; [reflexivity|].
  now rewrite !charref_text_big.
Qed.

(* ... and whatever it raises was raised by the document's own codec on a single byte and is a class
   the handler does not name *)
Theorem charref_raises_only_codec : forall orig name e, valid_charref_name name = true ->
  charref_data orig name = Raise e ->
  exists dec n c, orig = Some dec /\ n < 256 /\ dec n = DecRaise c /\ e = PyExc c /\
                  catches c06_charref_decode_catches c = false.
Proof.
  intros orig name e H. rewrite (charref_value orig name H). set (v := name_value name). clearbody v.
  destruct (N.ltb_spec v 256) as [L|L].
  - unfold charref_text. rewrite byte_limit_table.
    replace (v <? 256) with true by (symmetry; apply N.ltb_lt; lia).
    unfold try_decode. replace (256 <=? v) with false by (symmetry; apply N.leb_gt; lia).
    assert (Hn: v <? 1114112 = true) by (apply N.ltb_lt; lia).
    assert (K: forall d : option str, forall e',
      match (match cp1252_decoder v with
             | DecText d' => Done (Some d')
             | DecRaise c => if catches c06_charref_decode_catches c then Done d else Raise (PyExc c)
             end) with
      | Raise e => Raise e
      | Done d' =>
          match (if nonempty d' then Done d' else if v <? 1114112 then Done (Some [v]) else
                 (let c := if v <? 2147483648 then exc_ValueError else exc_OverflowError in
                  if catches c06_charref_chr_catches c then Done d' else Raise (PyExc c))) with
          | Raise e => Raise e
          | Done d'' => Done match d'' with Some (c :: t) => c :: t | _ => [c06_replacement_char] end
          end
      end = Raise e' -> False).
    { intros d e'. destruct (cp1252_decoder v) as [t|c] eqn:E.
      - destruct (nonempty (Some t)); [discriminate|]. rewrite Hn. discriminate.
      - rewrite (cp1252_raises_decode_error _ _ E), decode_catches_table.
        destruct (nonempty d); [discriminate|]. rewrite Hn. discriminate. }
    destruct orig as [dec|].
    + destruct (dec v) as [t|c] eqn:E.
      * intros X. destruct (K _ _ X).
      * destruct (catches c06_charref_decode_catches c) eqn:C.
        -- intros X. destruct (K _ _ X).
        -- intros X. inversion X; subst. exists dec, v, c. auto.
    + intros X. destruct (K _ _ X).
  - destruct (N.ltb_spec v 1114112) as [M|M].
    + rewrite charref_text_mid by lia. discriminate.
    + rewrite charref_text_big by lia. discriminate.
Qed.

Theorem charref_never_raises : forall orig name, valid_charref_name name = true -> decoder_caught orig ->
  exists d, charref_data orig name = Done d /\ d <> [].
Proof.
  intros orig name H Hc. destruct (charref_data orig name) as [d|e] eqn:E.
  - exists d. split; [reflexivity|]. rewrite (charref_value orig name H) in E. set (v := name_value name) in *. clearbody v.
    destruct (N.ltb_spec v 256) as [L|L].
    + rewrite (charref_text_small orig v L Hc) in E. inversion E. unfold small_text.
      destruct (match cp1252_decoder v with DecText d' => Some d' | DecRaise _ => _ end) as [[|? ?]|]; discriminate.
    + destruct (N.ltb_spec v 1114112) as [M|M].
      * rewrite charref_text_mid in E by lia. inversion E. discriminate.
      * rewrite charref_text_big in E by lia. inversion E. discriminate.
  - destruct (charref_raises_only_codec orig name e H E) as (dec & n & c & -> & _ & Hd & _ & Hf).
    rewrite (Hc dec n c eq_refl Hd) in Hf. discriminate.
Qed.

(* ------------------------------------------------------------------ the adapter and feed() *)
Definition callback_ok (cb : callback) : bool :=
  match cb with CbCharref n => valid_charref_name n | _ => true end.

(* whatever the document's codec raises on a single byte, feed()'s handler names it (or a base class) *)
Definition decoder_benign (orig : option byte_decoder) : Prop :=
  forall dec n c, orig = Some dec -> dec n = DecRaise c -> catches c06_feed_maps c = true.
Definition fin_benign (fin : tok_end) : Prop :=
  match fin with TokRaised c _ => catches c06_feed_maps c = true | _ => True end.

Lemma feed_maps_table :
  catches c06_feed_maps 4 = true /\ catches c06_feed_maps exc_ValueError = true /\
  catches c06_feed_maps exc_UnicodeError = true /\ catches c06_feed_maps exc_UnicodeDecodeError = true.
Proof. repeat split; reflexivity. Qed.

Lemma cb_step_raise cfg orig closed cb e : callback_ok cb = true -> cb_step cfg orig closed cb = Raise e ->
  exists dec n c, orig = Some dec /\ dec n = DecRaise c /\ e = PyExc c.
Proof.
  destruct cb; cbn [cb_step callback_ok]; intros H; try discriminate.
  - destruct (cb_starttag cfg closed name attrs false) as [e1 c1]. destruct (cb_endtag c1 name false). cbn. discriminate.
  - destruct (charref_data orig name) as [d|e'] eqn:E; [discriminate|]. intros X; inversion X; subst.
    destruct (charref_raises_only_codec orig name e H E) as (dec & n & c & A & _ & B & C & _). exists dec, n, c. auto.
  - destruct (starts_with cdata_prefix (map upper_ascii s)); discriminate.
Qed.

Lemma adapt_raise cfg orig : forall cbs closed evs e, forallb callback_ok cbs = true ->
  adapt cfg orig closed cbs = (evs, Some e) -> exists dec n c, orig = Some dec /\ dec n = DecRaise c /\ e = PyExc c.
Proof.
  induction cbs as [|cb cbs IH]; intros closed evs e H; cbn [adapt].
  - discriminate.
  - cbn [forallb] in H. apply andb_prop in H as [H1 H2].
    destruct (cb_step cfg orig closed cb) as [[evs1 closed1]|e1] eqn:E.
    + destruct (adapt cfg orig closed1 cbs) as [evs2 r] eqn:E2. intros X; inversion X; subst.
      exact (IH closed1 evs2 e H2 E2).
    + intros X; inversion X; subst. exact (cb_step_raise cfg orig closed cb e H1 E).
Qed.

(* the repository's own code turns every benign ending into Accept or Reject *)
Theorem hp_attempt_never_crashes : forall cfg orig cbs fin,
  decoder_benign orig -> fin_benign fin -> forallb callback_ok cbs = true ->
  match hp_attempt cfg orig cbs fin with Crash _ _ => False | _ => True end.
Proof.
  intros cfg orig cbs fin Hd Hf Hc. unfold hp_attempt.
  destruct (adapt cfg orig [] cbs) as [evs r] eqn:E. cbv beta iota. destruct r as [e|].
  - destruct (adapt_raise cfg orig cbs [] evs e Hc E) as (dec & n & c & A & B & ->).
    unfold feed_classify. rewrite (Hd dec n c A B). exact I.
  - destruct fin as [|c m|m]; [exact I | | exact I]. unfold feed_classify. unfold fin_benign in Hf. rewrite Hf. exact I.
Qed.

Theorem hp_attempt_accepts_iff_finished : forall cfg orig cbs fin evs,
  hp_attempt cfg orig cbs fin = Accept evs <-> (adapt cfg orig [] cbs = (evs, None) /\ fin = TokFinished).
Proof.
  intros. unfold hp_attempt. destruct (adapt cfg orig [] cbs) as [evs' r]. cbv beta iota. split.
  - destruct r as [e|].
    + unfold feed_classify. destruct e as [?|c]; [discriminate|]. destruct (catches c06_feed_maps c); discriminate.
    + destruct fin as [|c m|m].
      * intros X; inversion X; auto.
      * unfold feed_classify. destruct (catches c06_feed_maps c); discriminate.
      * discriminate.
  - intros [A ->]. inversion A; subst. reflexivity.
Qed.

(* what is not benign is handed on unchanged: the hypothesis on the tokenizer cannot be dropped *)
Theorem hp_attempt_unmapped_crashes : forall cfg orig cbs c m evs,
  adapt cfg orig [] cbs = (evs, None) -> catches c06_feed_maps c = false ->
  hp_attempt cfg orig cbs (TokRaised c m) = Crash evs (PyExc c).
Proof. intros. unfold hp_attempt. rewrite H. cbv beta iota. unfold feed_classify. rewrite H0. reflexivity. Qed.

(* ------------------------------------------------------------------ the retry loop: outcome classes *)
Lemma ctor_catches_table : c06_ctor_catches = [0].
Proof. reflexivity. Qed.
Lemma ctor_catches_rejection : catches c06_ctor_catches exc_ParserRejectedMarkup = true.
Proof. reflexivity. Qed.

Definition is_reject (s : strategy) : bool := match st_out s with Reject _ _ => true | _ => false end.
Definition reject_msg (s : strategy) : str := match st_out s with Reject _ m => m | _ => [] end.
Definition no_crash (s : strategy) : Prop := match st_out s with Crash _ _ => False | _ => True end.

Lemma loop_all_rejected cfg : forall ss b rej, forallb is_reject ss = true ->
  construct_loop cfg b rej ss GenDone = CRaise (ParserRejected (rev rej ++ map reject_msg ss)).
Proof.
  induction ss as [|s ss IH]; intros b rej H; cbn [construct_loop map].
  - now rewrite app_nil_r.
  - cbn [forallb] in H. apply andb_prop in H as [H1 H2]. unfold is_reject in H1. unfold reject_msg at 1.
    destruct (st_out s) as [|evs msg|]; try discriminate.
    rewrite ctor_catches_rejection, IH by exact H2. cbn [rev]. now rewrite <- app_assoc.
Qed.

(* every strategy rejected (or none offered): ParserRejectedMarkup carrying every rejection, in order *)
Theorem all_rejected_raises_rejected : forall cfg b0 ss, forallb is_reject ss = true ->
  construct cfg b0 ss GenDone = CRaise (ParserRejected (map reject_msg ss)).
Proof. intros. unfold construct. now rewrite loop_all_rejected. Qed.

Theorem rejected_then_generator_raises : forall cfg b0 ss e, forallb is_reject ss = true ->
  construct cfg b0 ss (GenRaise e) = CRaise e.
Proof.
  intros cfg b0 ss e. unfold construct. generalize (@nil str) as rej. revert b0.
  induction ss as [|s ss IH]; intros b rej H; cbn [construct_loop]; [reflexivity|].
  cbn [forallb] in H. apply andb_prop in H as [H1 H2]. unfold is_reject in H1.
  destruct (st_out s) as [|evs msg|]; try discriminate. rewrite ctor_catches_rejection. now apply IH.
Qed.

Definition cres_ok (r : cres) : Prop :=
  match r with CSoup _ => True | CRaise (ParserRejected _) => True | CRaise (PyExc _) => False end.

Lemma loop_classes cfg tail : match tail with GenRaise (PyExc _) => False | _ => True end ->
  forall ss b rej, Forall no_crash ss -> cres_ok (construct_loop cfg b rej ss tail).
Proof.
  intros Ht. induction ss as [|s ss IH]; intros b rej H; cbn [construct_loop].
  - destruct tail as [|[?|?]]; cbn; auto.
  - inversion H as [|? ? H1 H2]; subst. unfold no_crash in H1.
    destruct (st_out s) as [evs|evs msg|evs e]; [exact I | | destruct H1].
    rewrite ctor_catches_rejection. now apply IH.
Qed.

(* the loop itself never produces another class: a tree or ParserRejectedMarkup, unless a builder crashed *)
Theorem construct_classes : forall cfg b0 ss tail,
  Forall no_crash ss -> match tail with GenRaise (PyExc _) => False | _ => True end ->
  cres_ok (construct cfg b0 ss tail).
Proof. intros. unfold construct. now apply loop_classes. Qed.

(* a crash of the builder is not swallowed *)
Theorem crash_propagates : forall cfg b0 pre m evs c rest tail,
  forallb is_reject pre = true -> catches c06_ctor_catches c = false ->
  construct cfg b0 (pre ++ mkstrat m (Crash evs (PyExc c)) :: rest) tail = CRaise (PyExc c).
Proof.
  intros cfg b0 pre m evs c rest tail. unfold construct. generalize (@nil str) as rej. revert b0.
  induction pre as [|s pre IH]; intros b rej H Hc; cbn [construct_loop app].
  - cbn [st_out]. now rewrite Hc.
  - cbn [forallb] in H. apply andb_prop in H as [H1 H2]. unfold is_reject in H1.
    destruct (st_out s) as [|evs' msg|]; try discriminate. rewrite ctor_catches_rejection. now apply IH.
Qed.

(* ------------------------------------------------------------------ the whole constructor, html.parser *)
Theorem no_other_exception : forall cfg b0 m d orig cbs fin,
  decoder_benign orig -> fin_benign fin -> forallb callback_ok cbs = true ->
  cres_ok (fst (construct_htmlparser cfg b0 m d orig cbs fin)).
Proof.
  intros cfg b0 m d orig cbs fin Hd Hf Hc. unfold construct_htmlparser.
  destruct (preparse_total m) as [ws ->].
  pose proof (hp_attempt_never_crashes cfg orig cbs fin Hd Hf Hc) as Ha.
  unfold hp_strategies.
  destruct (match m with MStr _ => true | MBytes _ => false end).
  - cbn [fst]. apply construct_classes; [|exact I]. constructor; [exact Ha | constructor].
  - destruct d as [|e dl r]; cbn [fst].
    + apply construct_classes; [constructor | exact I].
    + apply construct_classes; [|exact I]. constructor; [exact Ha | constructor].
Qed.

(* a tree is returned exactly when there is text to parse and the tokenizer finished *)
Theorem htmlparser_returns_tree_iff : forall cfg b0 m d orig cbs fin,
  (exists s, fst (construct_htmlparser cfg b0 m d orig cbs fin) = CSoup s) <->
  ((match m with MStr _ => True | MBytes _ => d <> DNone end) /\
   exists evs, hp_attempt cfg orig cbs fin = Accept evs).
Proof.
  intros. unfold construct_htmlparser. destruct (preparse_total m) as [ws ->]. unfold hp_strategies, construct.
  destruct m as [s|b]; cbn [fst].
  - cbn [construct_loop st_out]. destruct (hp_attempt cfg orig cbs fin) as [evs|evs msg|evs e]; split.
    + intros _. split; eauto.
    + intros _. eauto.
    + rewrite ctor_catches_rejection. cbn [construct_loop]. intros [s' X]; discriminate.
    + intros [_ [evs' X]]; discriminate.
    + destruct e as [?|c]; [intros [s' X]; discriminate|]. destruct (catches c06_ctor_catches c); cbn [construct_loop]; intros [s' X]; discriminate.
    + intros [_ [evs' X]]; discriminate.
  - destruct d as [|e dl r]; cbn [fst construct_loop st_out].
    + split; [intros [s' X]; discriminate | intros [X _]; congruence].
    + destruct (hp_attempt cfg orig cbs fin) as [evs|evs msg|evs e']; split.
      * intros _. split; [discriminate | eauto].
      * intros _. eauto.
      * rewrite ctor_catches_rejection. cbn [construct_loop]. intros [s' X]; discriminate.
      * intros [_ [evs' X]]; discriminate.
      * destruct e' as [?|c]; [intros [s' X]; discriminate|]. destruct (catches c06_ctor_catches c); cbn [construct_loop]; intros [s' X]; discriminate.
      * intros [_ [evs' X]]; discriminate.
Qed.
