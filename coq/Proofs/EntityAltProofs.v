(* C15 — the order of the alternatives of the entity regexes is irrelevant: the particles are
   pairwise exclusive (no string is matched by two of them at the same position), so "first
   alternative that matches" picks the same particle whatever the order. The exclusivity of the
   particles the code really builds is a table obligation over Gen/T_C15.v. *)
From Coq Require Import List NArith Bool Permutation Lia.
From BS Require Import Base.Sexp Base.Types Model.FmtTypes Gen.T_C15 Model.EntityAlt.
Import ListNotations.
Open Scope N_scope.

(* decidable sufficient condition: neither literal is a prefix of the other, or the longer one
   continues with a character the shorter one's look-ahead forbids *)
Definition excl_b (p q : particle) : bool :=
  match strip_prefix (p_lit q) (p_lit p) with
  | Some [] => false
  | Some (x :: _) => memN x (p_not q)
  | None =>
      match strip_prefix (p_lit p) (p_lit q) with
      | Some [] => false
      | Some (x :: _) => memN x (p_not p)
      | None => true
      end
  end.

Lemma strip_prefix_app p s r : strip_prefix p s = Some r -> s = p ++ r.
Proof.
  revert s. induction p as [|x p IH]; intros s H; cbn in *.
  - now inversion H.
  - destruct s as [|y s]; [discriminate|]. destruct (N.eqb_spec x y); [|discriminate].
    subst. f_equal. now apply IH.
Qed.

Lemma strip_prefix_of_app p r : strip_prefix p (p ++ r) = Some r.
Proof. induction p as [|x p IH]; cbn; [reflexivity|]. now rewrite N.eqb_refl. Qed.

(* two prefixes of the same string: one is a prefix of the other *)
Lemma prefixes_comparable (a b ra rb : str) :
  a ++ ra = b ++ rb -> (exists d, a = b ++ d /\ rb = d ++ ra) \/ (exists d, b = a ++ d /\ ra = d ++ rb).
Proof.
  revert b. induction a as [|x a IH]; intros b H; cbn in *.
  - right. exists b. now split.
  - destruct b as [|y b]; cbn in *.
    + left. exists (x :: a). now split.
    + inversion H; subst. destruct (IH b H2) as [[d [E1 E2]]|[d [E1 E2]]].
      * left. exists d. split; [now rewrite E1|assumption].
      * right. exists d. split; [now rewrite E1|assumption].
Qed.

Lemma excl_sound p q s :
  excl_b p q = true -> p_matches p s = true -> p_matches q s = true -> False.
Proof.
  unfold excl_b, p_matches. intros E Mp Mq.
  destruct (strip_prefix (p_lit p) s) as [rp|] eqn:Sp; [|discriminate].
  destruct (strip_prefix (p_lit q) s) as [rq|] eqn:Sq; [|discriminate].
  apply strip_prefix_app in Sp. apply strip_prefix_app in Sq.
  assert (H : p_lit p ++ rp = p_lit q ++ rq) by congruence.
  destruct (prefixes_comparable _ _ _ _ H) as [[d [E1 E2]]|[d [E1 E2]]].
  - (* p_lit p = p_lit q ++ d *)
    rewrite E1, strip_prefix_of_app in E.
    destruct d as [|x d]; [discriminate|].
    subst rq. cbn in Mq. rewrite E in Mq. discriminate.
  - (* p_lit q = p_lit p ++ d *)
    destruct (strip_prefix (p_lit q) (p_lit p)) as [r|] eqn:Sqp.
    + apply strip_prefix_app in Sqp. rewrite E1 in Sqp.
      assert (d = [] /\ r = []) as [Hd Hr].
      { assert (L : length (p_lit p) = length ((p_lit p ++ d) ++ r)) by now rewrite <- Sqp.
        rewrite !app_length in L. destruct d, r; cbn in L; try lia; now split. }
      subst. discriminate.
    + rewrite E1, strip_prefix_of_app in E.
      destruct d as [|x d]; [discriminate|].
      subst rp. cbn in Mp. rewrite E in Mp. discriminate.
Qed.

Fixpoint pairwise_excl (ps : list particle) : bool :=
  match ps with
  | [] => true
  | p :: ps' => forallb (excl_b p) ps' && pairwise_excl ps'
  end.

Definition exclusive (ps : list particle) : Prop :=
  forall p q s, In p ps -> In q ps -> p_matches p s = true -> p_matches q s = true -> p = q.

Lemma excl_b_sym_sound p q s :
  excl_b q p = true -> p_matches p s = true -> p_matches q s = true -> False.
Proof. intros E Mp Mq. exact (excl_sound q p s E Mq Mp). Qed.

Lemma pairwise_exclusive ps : pairwise_excl ps = true -> exclusive ps.
Proof.
  induction ps as [|a ps IH]; intros H p q s Ip Iq Mp Mq; [destruct Ip|].
  cbn in H. apply andb_prop in H as [Ha Hps]. rewrite forallb_forall in Ha.
  destruct Ip as [<-|Ip], Iq as [<-|Iq].
  - reflexivity.
  - exfalso. exact (excl_sound _ _ s (Ha q Iq) Mp Mq).
  - exfalso. exact (excl_b_sym_sound _ _ s (Ha p Ip) Mp Mq).
  - exact (IH Hps p q s Ip Iq Mp Mq).
Qed.

Lemma first_match_perm ps ps' s :
  exclusive ps -> Permutation ps ps' -> first_match ps' s = first_match ps s.
Proof.
  intros X P. unfold first_match.
  destruct (find (fun p => p_matches p s) ps) as [p|] eqn:F.
  - apply find_some in F as [Ip Mp].
    destruct (find (fun p => p_matches p s) ps') as [q|] eqn:F'.
    + apply find_some in F' as [Iq Mq]. f_equal.
      apply (X q p s); try assumption. eapply Permutation_in; [apply Permutation_sym; exact P|exact Iq].
    + exfalso. pose proof (find_none _ _ F' p (Permutation_in _ P Ip)) as N. cbn in N. congruence.
  - destruct (find (fun p => p_matches p s) ps') as [q|] eqn:F'; [|reflexivity].
    apply find_some in F' as [Iq Mq].
    pose proof (find_none _ _ F q (Permutation_in _ (Permutation_sym P) Iq)) as N. cbn in N. congruence.
Qed.

Lemma sub_go_perm ps ps' repl :
  exclusive ps -> Permutation ps ps' -> forall s skip, sub_go ps' repl skip s = sub_go ps repl skip s.
Proof.
  intros X P. induction s as [|c s IH]; intros skip; cbn; [reflexivity|].
  destruct skip as [|k]; [|apply IH].
  rewrite (first_match_perm ps ps' (c :: s) X P).
  destruct (first_match ps (c :: s)); now rewrite IH.
Qed.

Theorem sub_alt_order_irrelevant ps ps' repl s :
  pairwise_excl ps = true -> Permutation ps ps' -> sub_alt ps' repl s = sub_alt ps repl s.
Proof. intros H P. apply sub_go_perm; [now apply pairwise_exclusive|assumption]. Qed.

(* ---- table obligations over the particles the code builds ---- *)
Lemma particles_exclusive :
  pairwise_excl entity_particles_amp = true /\ pairwise_excl entity_particles = true.
Proof. split; vm_compute; reflexivity. Qed.

(* every alternative has a non-empty literal (no empty match) and an entity name (the "&amp;%s;"
   branch of _substitute_html_entity is never taken) *)
Definition particle_ok (p : particle) : bool :=
  negb (match p_lit p with [] => true | _ => false end) &&
  match assocS (p_lit p) char_to_entity_reachable with Some (_ :: _) => true | _ => false end.
Lemma particles_wellformed :
  forallb particle_ok entity_particles_amp = true /\ forallb particle_ok entity_particles = true.
Proof. split; vm_compute; reflexivity. Qed.

(* the two regexes differ exactly by the ampersand alternative *)
Definition lit_mem (p : particle) (ps : list particle) : bool :=
  existsb (fun q => str_eqb (p_lit p) (p_lit q) && str_eqb (p_not p) (p_not q)) ps.
Lemma amp_is_the_only_difference :
  forallb (fun p => lit_mem p entity_particles_amp) entity_particles = true /\
  forallb (fun p => lit_mem p entity_particles || str_eqb (p_lit p) [38]) entity_particles_amp = true /\
  lit_mem (mkp [38] []) entity_particles_amp = true /\ lit_mem (mkp [38] []) entity_particles = false /\
  length entity_particles_amp = S (length entity_particles).
Proof. repeat split; vm_compute; reflexivity. Qed.

(* < > & are substituted by the names XML also knows *)
Lemma markup_characters_named :
  html_entity_repl [60] = [38; 108; 116; 59] /\ html_entity_repl [62] = [38; 103; 116; 59] /\
  html_entity_repl [38] = [38; 97; 109; 112; 59].
Proof. repeat split; vm_compute; reflexivity. Qed.

(* whatever order the set iteration produced, both regexes substitute the same *)
Theorem alternation_order_irrelevant ps' repl s :
  (Permutation entity_particles_amp ps' -> sub_alt ps' repl s = sub_alt entity_particles_amp repl s) /\
  (Permutation entity_particles ps' -> sub_alt ps' repl s = sub_alt entity_particles repl s).
Proof.
  destruct particles_exclusive as [H1 H2].
  split; intros P; apply sub_alt_order_irrelevant; assumption.
Qed.
