(* C05 — (1) the spelled tokens are the rendering; (2) reading the tokens of a representable tree
   back and building by the documented construction rules (Spec/BuildSpec.v) gives [norm] of the
   tree, for every tree. *)
From Coq Require Import List NArith ZArith Bool Arith Lia.
From BS Require Import Base.Sexp Base.Types Gen.Tables Gen.Stdlib Gen.T_C05 Model.Attrs Model.Render Model.Reparse
     Model.Heap Model.Edit Model.Build Spec.BuildSpec Spec.RenderSpec Spec.RoundTrip Proofs.RenderProofs.
Import ListNotations.
Local Arguments is_ws : simpl never.
Local Arguments ascii_lower : simpl never.

(* ================================================================ 1. spelling *)
Lemma memN_replace_dq v : memN dq_ (replace_dq v) = false.
Proof.
  induction v as [|c v IH]; [reflexivity|]. cbn [replace_dq]. destruct (N.eqb c dq_) eqn:E.
  - cbn. exact IH.
  - unfold memN in *. cbn [existsb]. rewrite N.eqb_sym, E. exact IH.
Qed.

Lemma quoted_spell v :
  quoted_attribute_value v =
  let inner := attr_inner v in let q := if memN dq_ inner then sq_ else dq_ in q :: inner ++ [q].
Proof.
  unfold quoted_attribute_value, attr_inner. cbn zeta. destruct (memN dq_ v) eqn:Ed; cbn [andb].
  - destruct (memN sq_ v) eqn:Es.
    + now rewrite memN_replace_dq.
    + now rewrite Ed.
  - now rewrite Ed.
Qed.

Lemma format_attr_spell enc f kv : format_attr enc f kv = spell_attr (token_attr enc f kv).
Proof.
  unfold format_attr, spell_attr, token_attr. cbn [fst snd]. destruct (value_text enc (snd kv)) as [v|]; [|reflexivity].
  cbn [option_map]. now rewrite quoted_spell.
Qed.

Lemma attribute_string_spell enc f p :
  match map (format_attr enc f) (attributes f p) with [] => [] | attrs => sp_ :: join_with_sp attrs end =
  spell_attrs (token_attrs enc f p).
Proof.
  unfold spell_attrs, token_attrs. rewrite map_map.
  now rewrite (map_ext _ _ (format_attr_spell enc f)).
Qed.

Lemma format_tag_open enc f p n : g_hidden p = false -> is_empty_element p n = false ->
  format_tag enc f p n true = spell (TOpen (qname p) (token_attrs enc f p)).
Proof.
  intros Hh He. unfold format_tag, spell, qname. rewrite Hh, He, attribute_string_spell. cbn [app].
  now rewrite <- !app_assoc.
Qed.
Lemma format_tag_empty enc f p n : g_hidden p = false -> is_empty_element p n = true ->
  format_tag enc f p n true = spell (TEmptyTag (qname p) (token_attrs enc f p) (f_void f)).
Proof.
  intros Hh He. unfold format_tag, spell, qname. rewrite Hh, He, attribute_string_spell. cbn [app].
  now rewrite <- !app_assoc.
Qed.
Lemma format_tag_close enc f p n : g_hidden p = false -> is_empty_element p n = false ->
  format_tag enc f p n false = spell (TClose (qname p)).
Proof.
  intros Hh He. unfold format_tag, spell, qname. rewrite Hh, He. cbn [app]. now rewrite <- !app_assoc.
Qed.
Lemma format_tag_hidden enc f p n o : g_hidden p = true -> format_tag enc f p n o = [].
Proof. intros Hh. unfold format_tag. now rewrite Hh. Qed.

Lemma ends_nl_split s : ends_nl s = true -> removelast s ++ [nl_] = s.
Proof.
  unfold ends_nl. intros H. rewrite <- (rev_involutive s). destruct (rev s) as [|x r]; [discriminate|]. cbn [rev].
  destruct x as [|p]; [discriminate|].
  destruct p as [p|p|]; try discriminate. destruct p as [p|p|]; try discriminate.
  destruct p as [p|p|]; try discriminate. destruct p as [p|p|]; try discriminate.
  now rewrite removelast_last.
Qed.

Lemma string_tokens_spell f c s pn :
  concat (map spell (string_tokens f c s pn)) = output_ready f c s pn.
Proof.
  unfold string_tokens, output_ready. destruct (affixes c) as [pre suf] eqn:Ea.
  destruct (preformatted c).
  - unfold trailing. rewrite Ea. cbn [snd]. destruct (ends_nl suf) eqn:E.
    + cbn [map concat spell]. unfold special_suffix. rewrite Ea. cbn [fst snd]. rewrite E, app_nil_r, <- !app_assoc.
      now rewrite (ends_nl_split suf E).
    + cbn [map concat spell]. unfold special_suffix. rewrite Ea. cbn [fst snd]. now rewrite E, app_nil_r.
  - cbn [map concat spell fst snd]. now rewrite app_nil_r.
Qed.

Lemma tokens_tag enc f pn p ks :
  tokens enc f pn (NTag p ks) =
  if g_hidden p then TNone :: tokens_kids enc f (g_name p) ks ++ (if is_empty_element p (length ks) then [] else [TNone])
  else if is_empty_element p (length ks) then [TEmptyTag (qname p) (token_attrs enc f p) (f_void f)]
  else TOpen (qname p) (token_attrs enc f p) :: tokens_kids enc f (g_name p) ks ++ [TClose (qname p)].
Proof.
  cbn [tokens]. destruct (g_hidden p).
  - f_equal. f_equal. induction ks as [|k ks IH]; cbn; [reflexivity|]. now rewrite IH.
  - destruct (is_empty_element p (length ks)); [reflexivity|]. f_equal. f_equal.
    induction ks as [|k ks IH]; cbn; [reflexivity|]. now rewrite IH.
Qed.

Theorem tokens_spell enc f : forall t pn,
  concat (map spell (tokens enc f pn t)) = concat (plain enc f pn t).
Proof.
  induction t as [c s|p ks IH] using node_ind'; intros pn.
  - cbn [tokens plain concat]. now rewrite string_tokens_spell, app_nil_r.
  - rewrite tokens_tag, plain_tag. cbn zeta.
    assert (Hk : concat (map spell (tokens_kids enc f (g_name p) ks)) = concat (plain_kids enc f (g_name p) ks)).
    { induction ks as [|k ks IHk]; [reflexivity|]. inversion IH; subst. cbn [tokens_kids plain_kids].
      rewrite map_app, !concat_app. f_equal; auto. }
    destruct (g_hidden p) eqn:Hh.
    + destruct (is_empty_element p (length ks)) eqn:He.
      * destruct ks; [|apply is_empty_element_spec in He as [He _]; discriminate He].
        cbn. now rewrite format_tag_hidden.
      * cbn [map concat spell app]. rewrite map_app, !concat_app, Hk. cbn [map concat spell].
        rewrite !format_tag_hidden by assumption. reflexivity.
    + destruct (is_empty_element p (length ks)) eqn:He.
      * cbn [map concat]. now rewrite (format_tag_empty enc f p _ Hh He).
      * cbn [map concat]. rewrite map_app, !concat_app, Hk. cbn [map concat].
        now rewrite (format_tag_open enc f p _ Hh He), (format_tag_close enc f p _ Hh He).
Qed.
Lemma tokens_kids_spell enc f : forall ks pn,
  concat (map spell (tokens_kids enc f pn ks)) = concat (plain_kids enc f pn ks).
Proof.
  induction ks as [|k ks IH]; intros pn; [reflexivity|]. cbn [tokens_kids plain_kids].
  now rewrite map_app, !concat_app, tokens_spell, IH.
Qed.
(* the text decode() returns is the spelling of the tree's tokens *)
Theorem decode_is_spelled_tokens enc f t :
  decode enc f None t = concat (map spell (tokens_of enc f t)).
Proof.
  rewrite decode_spec. unfold render_spec, tokens_of. destruct t as [p ks|c s]; [|reflexivity].
  destruct (g_hidden p); cbn [render_kids render_node]; [now rewrite tokens_kids_spell|now rewrite tokens_spell].
Qed.

(* ================================================================ 2. the round trip *)
(* ---- the flat form grows by appending ---- *)
Lemma sn_node_tag cfg acc parent q attrs kids :
  sn_node cfg acc parent (NT q attrs kids) =
  sn_kids cfg (acc ++ [mksn (Some parent) (tag_payload cfg q attrs)]) (length acc) kids.
Proof.
  cbn [sn_node]. generalize (acc ++ [mksn (Some parent) (tag_payload cfg q attrs)]).
  induction kids as [|k kids IH]; intros a; [reflexivity|]. cbn [sn_kids]. apply IH.
Qed.
Lemma sn_kids_app cfg : forall a b acc x, sn_kids cfg acc x (a ++ b) = sn_kids cfg (sn_kids cfg acc x a) x b.
Proof. induction a as [|k a IH]; intros b acc x; [reflexivity|]. cbn [app sn_kids]. apply IH. Qed.

Section NnodeInd.
  Variable P : nnode -> Prop.
  Hypothesis Hs : forall c s, P (NS c s).
  Hypothesis Ht : forall q a ks, Forall P ks -> P (NT q a ks).
  Fixpoint nnode_ind' (t : nnode) : P t :=
    match t with
    | NS c s => Hs c s
    | NT q a ks => Ht q a ks ((fix go (l : list nnode) : Forall P l :=
                                 match l with
                                 | [] => Forall_nil _
                                 | k :: l' => Forall_cons _ (nnode_ind' k) (go l')
                                 end) ks)
    end.
End NnodeInd.

Lemma sn_node_prefix cfg : forall n acc x, exists more, sn_node cfg acc x n = acc ++ more.
Proof.
  induction n as [c s|q a ks IH] using nnode_ind'; intros acc x.
  - eexists. reflexivity.
  - rewrite sn_node_tag. generalize (length acc). intros me.
    assert (H : forall acc', exists more, sn_kids cfg acc' me ks = acc' ++ more).
    { induction ks as [|k ks IHk]; intros acc'; [exists []; now rewrite app_nil_r|].
      inversion IH; subst. cbn [sn_kids]. destruct (H1 acc' me) as [m1 ->]. destruct (IHk H2 (acc' ++ m1)) as [m2 ->].
      exists (m1 ++ m2). now rewrite app_assoc. }
    destruct (H (acc ++ [mksn (Some x) (tag_payload cfg q a)])) as [m ->]. eexists. now rewrite <- app_assoc.
Qed.
Lemma sn_kids_prefix cfg : forall l acc x, exists more, sn_kids cfg acc x l = acc ++ more.
Proof.
  induction l as [|k l IH]; intros acc x; [exists []; now rewrite app_nil_r|].
  cbn [sn_kids]. destruct (sn_node_prefix cfg k acc x) as [m1 ->]. destruct (IH (acc ++ m1) x) as [m2 ->].
  exists (m1 ++ m2). now rewrite app_assoc.
Qed.

Section RoundTrip.
  Variables (enc : bool) (f : fmt) (rt ra : str -> str) (rc : rcfg) (cfg : bconfig) (g : str -> str).
  Hypothesis Hsub : f_subst f = Some g.
  Hypothesis Hg_nil : g [] = [].
  Hypothesis Hrt : forall s, rt (g s) = s.
  Hypothesis Hrt_nil : rt [] = [].
  Hypothesis Hra : forall s, ra (attr_inner (g s)) = s.
  Hypothesis Hslash : f_void f <> [].
  Hypothesis Hrt_nl : rt [nl_] = [nl_].

  (* ---- the machine: reader state + construction state, one token at a time ---- *)
  Definition mstate := (sstate * rstate)%type.
  Definition mstep (M : mstate) (tok : token) : mstate :=
    let '(r', evs) := read_token rt ra rc (snd M) tok in (fold_left (s_step cfg) evs (fst M), r').
  Definition mrun (M : mstate) (toks : list token) : mstate := fold_left mstep toks M.
  Lemma mrun_app M a b : mrun M (a ++ b) = mrun (mrun M a) b.
  Proof. apply fold_left_app. Qed.
  Lemma mrun_cons M t l : mrun M (t :: l) = mrun (mstep M t) l.
  Proof. reflexivity. Qed.
  Lemma read_from_mrun : forall toks s r,
    fold_left (s_step cfg) (read_from rt ra rc r toks) s = fst (mrun (s, r) toks).
  Proof.
    induction toks as [|tok toks IH]; intros s r; [reflexivity|].
    cbn [read_from]. rewrite mrun_cons. unfold mstep. cbn [fst snd].
    destruct (read_token rt ra rc r tok) as [r' evs]. now rewrite fold_left_app, IH.
  Qed.
  Definition r0 : rstate := mkrs None [].

  (* ---- the normaliser in the machine's own terms: pending text as the list of chunks ---- *)
  Definition flushc (pres : bool) (cls : N) (chunks : list str) : list nnode :=
    match chunks with
    | [] => []
    | _ => [NS cls (collapse cfg pres (concat (rev chunks)))]
    end.
  Definition push_text (s : str) (chunks : list str) : list str :=
    match s with [] => chunks | _ => s :: chunks end.
  Definition kind0 (c : N) : bool := (output_kind c =? 0)%N.
  (* the chunk a declaration's trailing newline becomes *)
  Definition trail_chunks (c : N) : list str := push_text (trailing c) [].

  Fixpoint nn_node (pres : bool) (cont : N) (t : node) : list nnode :=
    match t with
    | NStr _ _ => []
    | NTag p ks =>
        let q := qname p in
        let pres' := pres || memS q (c_pw cfg) in
        let cont' := match assocS q (c_containers cfg) with Some c => c | None => cont end in
        let '(ns, ch) :=
          (fix go (chunks : list str) (l : list node) : list nnode * list str :=
             match l with
             | [] => ([], chunks)
             | k :: r =>
                 let '(ns1, ch1) :=
                   match k with
                   | NStr c s =>
                       if kind0 c then ([], push_text s chunks)
                       else match read_special c s with
                            | Some (c', s') => (flushc pres' cont' chunks ++ [NS c' s'],
                                                trail_chunks c)
                            | None => ([], push_text (trailing c) chunks)
                            end
                   | NTag _ _ => (flushc pres' cont' chunks ++ nn_node pres' cont' k, [])
                   end in
                 let '(ns2, ch2) := go ch1 r in (ns1 ++ ns2, ch2)
             end) [] ks in
        [NT q (norm_attrs enc f p) (ns ++ flushc pres' cont' ch)]
    end.
  Definition nk1 (pres : bool) (cont : N) (chunks : list str) (k : node) : list nnode * list str :=
    match k with
    | NStr c s =>
        if kind0 c then ([], push_text s chunks)
        else match read_special c s with
             | Some (c', s') => (flushc pres cont chunks ++ [NS c' s'], trail_chunks c)
             | None => ([], push_text (trailing c) chunks)
             end
    | NTag _ _ => (flushc pres cont chunks ++ nn_node pres cont k, [])
    end.
  Fixpoint nk (pres : bool) (cont : N) (chunks : list str) (l : list node) : list nnode * list str :=
    match l with
    | [] => ([], chunks)
    | k :: r => let '(ns1, ch1) := nk1 pres cont chunks k in
                let '(ns2, ch2) := nk pres cont ch1 r in (ns1 ++ ns2, ch2)
    end.
  Lemma nn_node_tag pres cont p ks :
    nn_node pres cont (NTag p ks) =
    let q := qname p in
    let pres' := pres || memS q (c_pw cfg) in
    let cont' := match assocS q (c_containers cfg) with Some c => c | None => cont end in
    let '(ns, ch) := nk pres' cont' [] ks in
    [NT q (norm_attrs enc f p) (ns ++ flushc pres' cont' ch)].
  Proof.
    cbn [nn_node]. cbn zeta.
    set (pres' := pres || memS (qname p) (c_pw cfg)).
    set (cont' := match assocS (qname p) (c_containers cfg) with Some c => c | None => cont end).
    match goal with |- (let '(ns, ch) := ?F [] ks in _) = _ => assert (E : forall l chunks, F chunks l = nk pres' cont' chunks l) end.
    { induction l as [|k r IH]; intros chunks; [reflexivity|]. cbn [nk]. unfold nk1.
      destruct k as [p' ks'|c s].
      - rewrite IH. reflexivity.
      - destruct (kind0 c); [now rewrite IH|]. destruct (read_special c s) as [[c' s']|]; now rewrite IH. }
    now rewrite E.
  Qed.

  (* ---- the context an open-element stack provides ---- *)
  Definition ctx (s : sstate) (pres : bool) (cont : N) : Prop :=
    Forall (fun x => (x < length (s_nodes s))%nat) (s_open s) /\
    existsb (fun x => memS (s_name s x) (c_pw cfg)) (s_open s) = pres /\
    nearest_container cfg s (s_open s) = cont.

  Lemma s_name_grow nodes more o c o' c' x : (x < length nodes)%nat ->
    s_name (mkss (nodes ++ more) o' c') x = s_name (mkss nodes o c) x.
  Proof. intros H. unfold s_name. cbn [s_nodes]. now rewrite app_nth1. Qed.

  Lemma nearest_ext s s' : forall open, Forall (fun x => s_name s' x = s_name s x) open ->
    nearest_container cfg s' open = nearest_container cfg s open.
  Proof.
    induction open as [|x open IH]; intros H; [reflexivity|]. inversion H; subst.
    cbn [nearest_container]. rewrite H2. destruct (assocS (s_name s x) (c_containers cfg)); [reflexivity|auto].
  Qed.
  Lemma existsb_ext_in {X} (p q : X -> bool) l : Forall (fun x => p x = q x) l -> existsb p l = existsb q l.
  Proof. induction 1 as [|x l H _ IH]; [reflexivity|]. cbn. now rewrite H, IH. Qed.

  Lemma ctx_grow nodes more open ch ch' pres cont :
    ctx (mkss nodes open ch) pres cont -> ctx (mkss (nodes ++ more) open ch') pres cont.
  Proof.
    intros (H1 & H2 & H3). cbn [s_nodes s_open] in *.
    assert (Hn : Forall (fun x => s_name (mkss (nodes ++ more) open ch') x = s_name (mkss nodes open ch) x) open).
    { eapply Forall_impl; [|exact H1]. cbn. intros x Hx. now apply s_name_grow. }
    repeat split; cbn [s_nodes s_open].
    - eapply Forall_impl; [|exact H1]. cbn. intros x Hx. rewrite app_length. lia.
    - rewrite <- H2. apply existsb_ext_in. eapply Forall_impl; [|exact Hn]. cbn. intros x ->. reflexivity.
    - rewrite <- H3. now apply nearest_ext.
  Qed.
  Lemma ctx_sn_kids nodes open ch ch' pres cont x l :
    ctx (mkss nodes open ch) pres cont -> ctx (mkss (sn_kids cfg nodes x l) open ch') pres cont.
  Proof. intros H. destruct (sn_kids_prefix cfg l nodes x) as [more ->]. eapply ctx_grow; eassumption. Qed.

  Lemma s_name_me nodes par pl more o c :
    s_name (mkss ((nodes ++ [mksn par pl]) ++ more) o c) (length nodes) = p_name pl.
  Proof.
    unfold s_name. cbn [s_nodes]. rewrite <- app_assoc. rewrite app_nth2 by lia. now rewrite Nat.sub_diag.
  Qed.

  Lemma ctx_push nodes open ch pres cont par q attrs :
    ctx (mkss nodes open ch) pres cont ->
    ctx (mkss (nodes ++ [mksn par (tag_payload cfg q attrs)]) (length nodes :: open) [])
        (pres || memS q (c_pw cfg))
        (match assocS q (c_containers cfg) with Some c => c | None => cont end).
  Proof.
    intros H. pose proof (ctx_grow nodes [mksn par (tag_payload cfg q attrs)] open ch [] pres cont H) as (H1 & H2 & H3).
    cbn [s_nodes s_open] in *.
    assert (Hme : forall o c, s_name (mkss (nodes ++ [mksn par (tag_payload cfg q attrs)]) o c) (length nodes) = q).
    { intros o c. rewrite <- (app_nil_r (nodes ++ _)). now rewrite s_name_me. }
    repeat split; cbn [s_nodes s_open].
    - constructor; [rewrite app_length; cbn; lia|exact H1].
    - cbn [existsb]. rewrite Hme. rewrite orb_comm. f_equal.
      rewrite <- H2. apply existsb_ext_in. apply Forall_forall. intros x _. reflexivity.
    - cbn [nearest_container]. rewrite Hme. destruct (assocS q (c_containers cfg)); [reflexivity|].
      rewrite <- H3. apply nearest_ext. apply Forall_forall. intros x _. reflexivity.
  Qed.

  (* ---- endData ---- *)
  Definition flush_class (cont : N) (cls : option N) : N :=
    match cls with Some c => if (c =? 0)%N then cont else c | None => cont end.
  Definition special_cls (cls : option N) : bool := match cls with Some c => preformatted_cls c | None => false end.
  (* text: a whitespace-only run collapses *)
  Lemma flush_step nodes x open chunks pres cont cls :
    ctx (mkss nodes (x :: open) chunks) pres cont -> special_cls cls = false ->
    s_flush cfg (mkss nodes (x :: open) chunks) cls =
    mkss (sn_kids cfg nodes x (flushc pres (flush_class cont cls) chunks)) (x :: open) [].
  Proof.
    intros (H1 & H2 & H3) Hsp. unfold s_flush, flushc, special_cls in *. cbn [s_pending s_open s_nodes] in *.
    destruct chunks as [|c0 chunks]; [reflexivity|]. rewrite H2, H3, Hsp.
    cbn [sn_kids sn_node hd_error negb andb]. unfold collapse, str_payload, flush_class. reflexivity.
  Qed.
  (* the content of a comment, CDATA section, processing instruction, declaration or doctype is kept as sent *)
  Lemma flush_step_special nodes x open chunk pres cont c :
    ctx (mkss nodes (x :: open) [chunk]) pres cont -> preformatted_cls c = true -> c <> 0%N ->
    s_flush cfg (mkss nodes (x :: open) [chunk]) (Some c) =
    mkss (sn_kids cfg nodes x [NS c chunk]) (x :: open) [].
  Proof.
    intros (H1 & H2 & H3) Hsp Hc. unfold s_flush. cbn [s_pending s_open s_nodes rev concat app] in *.
    rewrite Hsp. cbn [negb andb]. rewrite app_nil_r.
    destruct (N.eqb_spec c 0) as [E|_]; [contradiction|]. reflexivity.
  Qed.

  (* ---- one token at a time ---- *)
  Lemma step_text s r w :
    mstep (s, mkrs None r) (TText w) =
    (mkss (s_nodes s) (s_open s) (match w with [] => s_pending s | _ => rt w :: s_pending s end), mkrs None r).
  Proof. unfold mstep, read_token. cbn [snd fst rs_raw]. destruct s, w; reflexivity. Qed.
  Lemma step_text_raw s e r w :
    mstep (s, mkrs (Some e) r) (TText w) =
    (mkss (s_nodes s) (s_open s) (match w with [] => s_pending s | _ => w :: s_pending s end), mkrs (Some e) r).
  Proof. unfold mstep, read_token. cbn [snd fst rs_raw spell]. destruct s, w; reflexivity. Qed.

  Lemma g_nonempty s : s <> [] -> g s <> [].
  Proof. intros Hs E. apply Hs. rewrite <- (Hrt s), E. exact Hrt_nil. Qed.

  Lemma push_text_written s chunks :
    match g s with [] => chunks | _ => rt (g s) :: chunks end = push_text s chunks.
  Proof.
    unfold push_text. destruct s as [|c s]; [now rewrite Hg_nil|].
    pose proof (g_nonempty (c :: s)) as H. destruct (g (c :: s)) eqn:E; [exfalso; apply H; [discriminate|reflexivity]|].
    rewrite <- E, Hrt. reflexivity.
  Qed.

  Lemma read_special_events st c s :
    read_token rt ra rc (mkrs None st) (TSpecial c s) =
    (mkrs None st, match read_special c s with Some (c', s') => special_events c' s' | None => [] end).
  Proof.
    unfold read_token. cbn [rs_raw]. f_equal.
    destruct c as [|[[[]|[]|]|[[]|[]|]|]]; reflexivity.
  Qed.
  Lemma read_special_class c s c' s' : read_special c s = Some (c', s') -> c' <> 0%N /\ preformatted_cls c' = true.
  Proof. destruct c as [|[[[]|[]|]|[[]|[]|]|]]; cbn; intros [= <- _]; split; (discriminate || reflexivity). Qed.

  Lemma step_special nodes x open chunks pres cont st c s c' s' :
    ctx (mkss nodes (x :: open) chunks) pres cont ->
    read_special c s = Some (c', s') ->
    mstep (mkss nodes (x :: open) chunks, mkrs None st) (TSpecial c s) =
    (mkss (sn_kids cfg nodes x (flushc pres cont chunks ++ [NS c' s'])) (x :: open) [], mkrs None st).
  Proof.
    intros Hc Hr. unfold mstep. cbn [snd fst]. rewrite read_special_events, Hr. unfold special_events.
    destruct (read_special_class c s c' s' Hr) as [Hn Hp].
    cbn [fold_left s_step]. rewrite (flush_step _ _ _ _ _ _ None Hc eq_refl). cbn [flush_class s_nodes s_open s_pending].
    rewrite (flush_step_special _ _ _ s' pres cont c') by (try eapply ctx_sn_kids; eassumption).
    now rewrite sn_kids_app.
  Qed.

  (* attributes *)
  Lemma insert_sorted_in {X} (kv : str * X) l x : In x (insert_sorted kv l) -> x = kv \/ In x l.
  Proof.
    induction l as [|a l IH]; cbn; [intuition|]. destruct (str_leb (fst a) (fst kv)); cbn; [|intuition].
    intros [->|H]; [auto|]. destruct (IH H); auto.
  Qed.
  Lemma sort_by_key_in {X} (l : list (str * X)) x : In x (sort_by_key l) -> In x l.
  Proof.
    unfold sort_by_key. assert (H : forall acc, In x (fold_left (fun acc kv => insert_sorted kv acc) l acc) -> In x l \/ In x acc).
    { induction l as [|a l IH]; intros acc; cbn; [auto|]. intros Hin. destruct (IH _ Hin) as [H|H]; [auto|].
      apply insert_sorted_in in H as [->|H]; auto. }
    intros Hin. destruct (H [] Hin) as [H1|[]]. exact H1.
  Qed.
  Lemma read_attrs_norm p :
    forallb (fun kv => str_eqb (ascii_lower (fst kv)) (fst kv)) (g_attrs p) = true ->
    map (read_attr ra) (token_attrs enc f p) = norm_attrs enc f p.
  Proof.
    intros Hk. unfold token_attrs, norm_attrs. rewrite map_map. apply map_ext_in. intros kv Hin.
    unfold read_attr, token_attr. cbn [fst snd].
    assert (El : ascii_lower (fst kv) = fst kv).
    { unfold attributes in Hin. apply sort_by_key_in in Hin. apply in_map_iff in Hin as [kv0 [<- Hin0]]. cbn [fst].
      rewrite forallb_forall in Hk. apply str_eqb_eq. now apply Hk. }
    rewrite El. f_equal. destruct (value_text enc (snd kv)) as [v|]; [|reflexivity]. cbn [option_map].
    unfold substitute. rewrite Hsub. cbn [andb]. apply Hra.
  Qed.

  Lemma s_prefix_me nodes par pl more o c :
    s_prefix (mkss ((nodes ++ [mksn par pl]) ++ more) o c) (length nodes) = p_prefix pl.
  Proof.
    unfold s_prefix. cbn [s_nodes]. rewrite <- app_assoc. rewrite app_nth2 by lia. now rewrite Nat.sub_diag.
  Qed.

  (* a start tag (not a void element's): the pending text becomes a string, the element is created and opened *)
  Lemma step_start nodes x open chunks pres cont q attrs :
    ctx (mkss nodes (x :: open) chunks) pres cont ->
    fold_left (s_step cfg) [EStart q None attrs] (mkss nodes (x :: open) chunks) =
    let nodes1 := sn_kids cfg nodes x (flushc pres cont chunks) in
    mkss (nodes1 ++ [mksn (Some x) (tag_payload cfg q attrs)]) (length nodes1 :: x :: open) [].
  Proof.
    intros Hc. cbn [fold_left s_step]. rewrite (flush_step _ _ _ _ _ _ None Hc eq_refl). reflexivity.
  Qed.
  (* its end tag: pending text becomes a string, the element is closed *)
  Lemma step_end nodes1 x open par attrs q more chunks pres' cont' :
    let me := length nodes1 in
    let nodes2 := (nodes1 ++ [mksn par (tag_payload cfg q attrs)]) ++ more in
    ctx (mkss nodes2 (me :: x :: open) chunks) pres' cont' ->
    fold_left (s_step cfg) [EEnd q None] (mkss nodes2 (me :: x :: open) chunks) =
    mkss (sn_kids cfg nodes2 me (flushc pres' cont' chunks)) (x :: open) [].
  Proof.
    intros me nodes2 Hc. cbn [fold_left s_step]. rewrite (flush_step _ _ _ _ _ _ None Hc eq_refl). cbn [flush_class].
    cbn [s_open s_nodes s_pending close_through].
    destruct (sn_kids_prefix cfg (flushc pres' cont' chunks) nodes2 me) as [m2 E]. rewrite E.
    unfold nodes2. rewrite <- (app_assoc _ more m2). rewrite s_name_me, s_prefix_me. cbn [tag_payload p_name p_prefix opt_str_eqb].
    assert (Eq : str_eqb q q = true) by now apply str_eqb_eq. rewrite Eq. cbn [andb]. reflexivity.
  Qed.

  (* ---- the induction ---- *)
  Definition pn_ok (pn : option str) : Prop :=
    match pn with Some n => memS n (f_cdata f) = false | None => True end.
  Definition result (nodes : list snode) (x : nat) (open : list nat) (r : list nnode * list str) : mstate :=
    (mkss (sn_kids cfg nodes x (fst r)) (x :: open) (snd r), r0).
  Definition P (t : node) : Prop := forall nodes x open chunks pres cont pn,
    ctx (mkss nodes (x :: open) chunks) pres cont ->
    representable f rc cfg t = true -> pn_ok pn ->
    mrun (mkss nodes (x :: open) chunks, r0) (tokens enc f pn t) =
    result nodes x open (nk1 pres cont chunks t).

  Lemma kids_run : forall ks, Forall P ks -> forall nodes x open chunks pres cont pname,
    ctx (mkss nodes (x :: open) chunks) pres cont ->
    forallb (representable f rc cfg) ks = true -> memS pname (f_cdata f) = false ->
    mrun (mkss nodes (x :: open) chunks, r0) (tokens_kids enc f pname ks) =
    result nodes x open (nk pres cont chunks ks).
  Proof.
    induction ks as [|k ks IH]; intros HP nodes x open chunks pres cont pname Hc Hr Hpn; [reflexivity|].
    inversion HP as [|? ? Hk HP']; subst. cbn [forallb] in Hr. apply andb_prop in Hr as [Hr1 Hr2].
    cbn [tokens_kids nk]. rewrite mrun_app. rewrite (Hk nodes x open chunks pres cont (Some pname) Hc Hr1 Hpn).
    destruct (nk1 pres cont chunks k) as [ns1 ch1]. unfold result at 1. cbn [fst snd].
    rewrite (IH HP' _ x open ch1 pres cont pname) by (try eapply ctx_sn_kids; eassumption).
    destruct (nk pres cont ch1 ks) as [ns2 ch2]. unfold result. cbn [fst snd]. now rewrite sn_kids_app.
  Qed.

  Lemma raw_kids_run : forall ks s e cl pres cont pname,
    forallb (raw_text_ok f pname) ks = true ->
    mrun (s, mkrs (Some e) cl) (tokens_kids enc f pname ks) =
    (mkss (s_nodes s) (s_open s) (snd (nk pres cont (s_pending s) ks)), mkrs (Some e) cl)
    /\ fst (nk pres cont (s_pending s) ks) = [].
  Proof.
    induction ks as [|k ks IH]; intros s e cl pres cont pname Hr; [destruct s; split; reflexivity|].
    cbn [forallb] in Hr. apply andb_prop in Hr as [Hr1 Hr2].
    destruct k as [p' ks'|c t]; [discriminate Hr1|]. cbn [raw_text_ok] in Hr1. apply andb_prop in Hr1 as [Hk Hw].
    apply str_eqb_eq in Hw.
    cbn [tokens_kids tokens nk nk1]. unfold kind0. rewrite Hk. unfold string_tokens, preformatted. rewrite Hk. cbn [negb]. rewrite Hw.
    cbn [app]. rewrite mrun_cons, step_text_raw.
    destruct (IH (mkss (s_nodes s) (s_open s) (match t with [] => s_pending s | _ :: _ => t :: s_pending s end)) e cl pres cont pname Hr2)
      as [E1 E2]. cbn [s_nodes s_open s_pending] in E1, E2. unfold push_text.
    destruct (nk pres cont (match t with [] => s_pending s | _ :: _ => t :: s_pending s end) ks) as [ns2 ch2] eqn:E.
    cbn [fst snd] in *. subst ns2. rewrite E1. split; reflexivity.
  Qed.

  Lemma trailing_cases c : trailing c = [] \/ trailing c = [nl_].
  Proof. unfold trailing. destruct (ends_nl _); auto. Qed.

  (* the text token a declaration's trailing newline is *)
  Lemma trailing_run s c :
    mrun (s, r0) (match trailing c with [] => [] | t => [TText t] end) =
    (mkss (s_nodes s) (s_open s) (push_text (trailing c) (s_pending s)), r0).
  Proof.
    destruct (trailing_cases c) as [-> | ->]; [destruct s; reflexivity|].
    cbn [mrun fold_left]. unfold r0. rewrite step_text. cbn iota. rewrite Hrt_nl. reflexivity.
  Qed.

  Lemma string_run c t : P (NStr c t).
  Proof.
    intros nodes x open chunks pres cont pn Hc Hr Hpn. cbn [representable] in Hr. unfold string_ok in Hr.
    cbn [tokens nk1]. unfold string_tokens, kind0, preformatted.
    destruct (N.eqb_spec (output_kind c) 0) as [E0|E0]; cbn [negb].
    - destruct (affixes c) as [[|] [|]]; try discriminate Hr. cbn [fst snd app]. rewrite app_nil_r.
      assert (Es : substitute f true pn t = g t).
      { unfold substitute. rewrite Hsub. cbn [andb]. destruct pn as [n|]; [cbn in Hpn; now rewrite Hpn|reflexivity]. }
      rewrite Es, mrun_cons. unfold r0. rewrite step_text. cbn [s_nodes s_open s_pending mrun fold_left].
      rewrite push_text_written. reflexivity.
    - rewrite mrun_cons. destruct (read_special c t) as [[c' s']|] eqn:Er.
      + unfold r0 at 1. rewrite (step_special _ _ _ _ pres cont [] c t c' s' Hc Er). fold r0.
        rewrite trailing_run. reflexivity.
      + unfold mstep, r0 at 1. cbn [snd fst]. rewrite read_special_events, Er. cbn [fold_left]. fold r0.
        rewrite trailing_run. reflexivity.
  Qed.

  Lemma remove_first_hd q l : remove_first q (q :: l) = l.
  Proof. cbn. assert (E : str_eqb q q = true) by now apply str_eqb_eq. now rewrite E. Qed.

  Lemma tag_run p ks : Forall P ks -> P (NTag p ks).
  Proof.
    intros IH nodes x open chunks pres cont pn Hc Hr Hpn.
    cbn [representable] in Hr. cbn zeta in Hr.
    repeat (apply andb_prop in Hr as [Hr ?]).
    rename H into Hkids, H0 into Hvoid, H1 into Hkeys, H2 into Hlow.
    apply negb_true_iff in Hr. apply str_eqb_eq in Hlow.
    set (q := qname p) in *.
    set (attrs := norm_attrs enc f p).
    set (nodes1 := sn_kids cfg nodes x (flushc pres cont chunks)).
    set (me := length nodes1).
    set (tagn := mksn (Some x) (tag_payload cfg q attrs)).
    set (pres' := pres || memS q (c_pw cfg)).
    set (cont' := match assocS q (c_containers cfg) with Some c => c | None => cont end).
    assert (Hattrs : map (read_attr ra) (token_attrs enc f p) = attrs) by now apply read_attrs_norm.
    (* the context inside the element *)
    assert (Hc1 : ctx (mkss nodes1 (x :: open) []) pres cont) by exact (ctx_sn_kids nodes (x :: open) chunks [] pres cont x _ Hc).
    assert (Hc2 : ctx (mkss (nodes1 ++ [tagn]) (me :: x :: open) []) pres' cont') by exact (ctx_push nodes1 (x :: open) [] pres cont (Some x) q attrs Hc1).
    (* what the start tag does *)
    assert (Hstart : fold_left (s_step cfg) [EStart q None attrs] (mkss nodes (x :: open) chunks) =
                     mkss (nodes1 ++ [tagn]) (me :: x :: open) []) by (now rewrite (step_start _ _ _ _ pres cont)).
    (* what start tag + end tag do when nothing comes in between *)
    assert (Hempty : fold_left (s_step cfg) [EStart q None attrs; EEnd q None] (mkss nodes (x :: open) chunks) =
                     mkss (nodes1 ++ [tagn]) (x :: open) []).
    { change [EStart q None attrs; EEnd q None] with ([EStart q None attrs] ++ [EEnd q None]).
      rewrite fold_left_app, Hstart. unfold me, tagn in *. rewrite <- (app_nil_r (nodes1 ++ [_])) at 1.
      rewrite (step_end nodes1 x open (Some x) attrs q [] [] pres' cont') by exact (ctx_grow _ [] _ [] [] _ _ Hc2).
      cbn [flushc sn_kids]. now rewrite app_nil_r. }
    (* the promised result *)
    unfold result. cbn [nk1 fst snd]. rewrite sn_kids_app. fold nodes1. rewrite nn_node_tag. cbn zeta. fold q pres' cont' attrs.
    rewrite tokens_tag, Hr. fold q.
    destruct (is_empty_element p (length ks)) eqn:Eemp.
    - (* an empty-element tag: <q ... /> *)
      apply is_empty_element_spec in Eemp as [El _]. destruct ks; [|discriminate El]. cbn [nk app flushc sn_kids].
      rewrite sn_node_tag. cbn [sn_kids]. fold me tagn.
      rewrite mrun_cons. cbn [mrun fold_left]. unfold mstep, r0, read_token. cbn [snd fst rs_raw rs_closed].
      destruct (f_void f) as [|v0 vs] eqn:Ev; [contradiction|]. unfold parser_endtag. cbn [rs_closed memS existsb].
      rewrite andb_false_r. rewrite Hlow, Hattrs. now rewrite Hempty.
    - rewrite mrun_cons, mrun_app.
      destruct (memS q (r_void rc)) eqn:Evoid.
      + (* a void element written <q ...></q>: closed by the parser at once, its end tag is checked off *)
        destruct ks; [|discriminate Hvoid]. cbn [tokens_kids mrun fold_left nk app flushc sn_kids].
        rewrite sn_node_tag. cbn [sn_kids]. fold me tagn.
        unfold mstep at 2. unfold r0, read_token. cbn [snd fst rs_raw rs_closed]. rewrite Hlow, Evoid, Hattrs, Hempty.
        destruct (memS q (r_cdata rc)).
        * unfold mstep, read_token. cbn [snd fst rs_raw rs_closed]. rewrite Hlow.
          assert (E : str_eqb q q = true) by now apply str_eqb_eq. rewrite E.
          unfold parser_endtag. cbn [rs_closed rs_raw andb memS existsb]. rewrite E. cbn [orb fold_left].
          now rewrite remove_first_hd.
        * unfold mstep, read_token. cbn [snd fst rs_raw rs_closed]. rewrite Hlow.
          unfold parser_endtag. cbn [rs_closed rs_raw andb memS existsb].
          assert (E : str_eqb q q = true) by now apply str_eqb_eq. rewrite E. cbn [orb fold_left].
          now rewrite remove_first_hd.
      + (* start tag, contents, end tag *)
        unfold mstep at 1. unfold r0, read_token. cbn [snd fst rs_raw rs_closed]. rewrite Hlow, Evoid, Hattrs, Hstart.
        destruct (memS q (r_cdata rc)) eqn:Eraw.
        * (* raw text element *)
          destruct (raw_kids_run ks (mkss (nodes1 ++ [tagn]) (me :: x :: open) []) q [] pres' cont' (g_name p) Hkids) as [E1 E2].
          rewrite E1. cbn [s_nodes s_open s_pending] in *.
          destruct (nk pres' cont' [] ks) as [ns ch]. cbn [fst snd] in *. subst ns.
          cbn [mrun fold_left]. unfold mstep, read_token. cbn [snd fst rs_raw rs_closed]. rewrite Hlow.
          assert (E : str_eqb q q = true) by now apply str_eqb_eq. rewrite E.
          unfold parser_endtag. cbn [rs_closed rs_raw andb memS existsb].
          unfold me, tagn in *. rewrite <- (app_nil_r (nodes1 ++ [_])) at 1.
          rewrite (step_end nodes1 x open (Some x) attrs q [] ch pres' cont')
            by exact (ctx_grow _ [] _ [] ch _ _ Hc2).
          rewrite app_nil_r. cbn [app sn_kids]. rewrite sn_node_tag. reflexivity.
        * (* ordinary element *)
          apply andb_prop in Hkids as [Hcd Hkids]. apply negb_true_iff in Hcd.
          change (mkrs None []) with r0.
          rewrite (kids_run ks IH (nodes1 ++ [tagn]) me (x :: open) [] pres' cont' (g_name p) Hc2 Hkids Hcd).
          destruct (nk pres' cont' [] ks) as [ns ch]. unfold result. cbn [fst snd].
          cbn [mrun fold_left]. unfold mstep, r0, read_token. cbn [snd fst rs_raw rs_closed]. rewrite Hlow.
          unfold parser_endtag. cbn [rs_closed rs_raw andb memS existsb].
          unfold me, tagn in *. destruct (sn_kids_prefix cfg ns (nodes1 ++ [mksn (Some x) (tag_payload cfg q attrs)]) (length nodes1)) as [more Em]. rewrite Em.
          rewrite (step_end nodes1 x open (Some x) attrs q more ch pres' cont')
            by exact (ctx_grow _ more _ [] ch _ _ Hc2).
          rewrite <- Em, <- sn_kids_app. cbn [sn_kids]. rewrite sn_node_tag. reflexivity.
  Qed.

  Theorem tree_run : forall t, P t.
  Proof. induction t as [c s|p ks IH] using node_ind'; [apply string_run|now apply tag_run]. Qed.

  (* ---- the chunk-wise normaliser is [norm] ---- *)
  Definition chunks_ok (chunks : list str) : Prop := Forall (fun c => c <> []) chunks.
  Lemma concat_rev_cons (c : str) chunks : concat (rev (c :: chunks)) = concat (rev chunks) ++ c.
  Proof. cbn [rev]. rewrite concat_app. cbn. now rewrite app_nil_r. Qed.
  Lemma flushc_flush pres cls chunks : chunks_ok chunks ->
    flushc pres cls chunks = flush_text cfg pres cls (concat (rev chunks)).
  Proof.
    intros H. destruct chunks as [|c chunks]; [reflexivity|]. inversion H; subst.
    unfold flushc, flush_text. rewrite concat_rev_cons.
    destruct (concat (rev chunks) ++ c) eqn:E; [|reflexivity].
    apply app_eq_nil in E as [_ E]. contradiction.
  Qed.
  Lemma push_text_ok s chunks : chunks_ok chunks ->
    chunks_ok (push_text s chunks) /\ concat (rev (push_text s chunks)) = concat (rev chunks) ++ s.
  Proof.
    intros H. unfold push_text. destruct s as [|c s]; [split; [exact H|now rewrite app_nil_r]|].
    split; [constructor; [discriminate|exact H]|apply concat_rev_cons].
  Qed.

  Lemma norm_node_tag pres cont p ks :
    norm_node enc f cfg pres cont (NTag p ks) =
    let q := qname p in
    let pres' := pres || memS q (c_pw cfg) in
    let cont' := match assocS q (c_containers cfg) with Some c => c | None => cont end in
    [NT q (norm_attrs enc f p) (norm_kids enc f cfg pres' cont' [] ks)].
  Proof.
    cbn [norm_node]. cbn zeta. f_equal. f_equal.
    match goal with |- ?F [] ks = norm_kids _ _ _ ?a ?b _ _ =>
      assert (E : forall l pend, F pend l = norm_kids enc f cfg a b pend l) end.
    { induction l as [|k l IH]; intros pend; [reflexivity|].
      cbn [norm_kids]. destruct k as [p' ks'|c s].
      - now rewrite IH.
      - destruct (output_kind c =? 0)%N; [apply IH|]. destruct (read_special c s) as [[c' s']|]; [|apply IH]. now rewrite IH. }
    apply E.
  Qed.

  Definition Q (t : node) : Prop := forall pres cont, nn_node pres cont t = norm_node enc f cfg pres cont t.
  Lemma nk_norm : forall ks, Forall Q ks -> forall pres cont chunks, chunks_ok chunks ->
    chunks_ok (snd (nk pres cont chunks ks)) /\
    fst (nk pres cont chunks ks) ++ flushc pres cont (snd (nk pres cont chunks ks)) =
    norm_kids enc f cfg pres cont (concat (rev chunks)) ks.
  Proof.
    induction ks as [|k ks IH]; intros HQ pres cont chunks Hok.
    - cbn [nk fst snd norm_kids app]. split; [exact Hok|now apply flushc_flush].
    - inversion HQ as [|? ? Hk HQ']; subst. cbn [nk norm_kids]. destruct k as [p' ks'|c s]; cbn [nk1].
      + specialize (IH HQ' pres cont [] (Forall_nil _)) as [I1 I2].
        destruct (nk pres cont [] ks) as [ns2 ch2]. cbn [fst snd] in *. split; [exact I1|].
        rewrite <- !app_assoc, I2, (Hk pres cont), flushc_flush by assumption. reflexivity.
      + unfold kind0. destruct (output_kind c =? 0)%N.
        * destruct (push_text_ok s chunks Hok) as [O1 O2]. specialize (IH HQ' pres cont _ O1) as [I1 I2].
          destruct (nk pres cont (push_text s chunks) ks) as [ns2 ch2]. cbn [fst snd app] in *. rewrite O2 in I2. split; assumption.
        * destruct (read_special c s) as [[c' s']|].
          -- destruct (push_text_ok (trailing c) [] (Forall_nil _)) as [O1 O2]. cbn [rev concat app] in O2.
             specialize (IH HQ' pres cont (trail_chunks c) O1) as [I1 I2]. unfold trail_chunks in *.
             destruct (nk pres cont (push_text (trailing c) []) ks) as [ns2 ch2]. cbn [fst snd] in *. split; [exact I1|].
             rewrite <- !app_assoc. cbn [app]. rewrite flushc_flush by assumption. f_equal. f_equal. rewrite I2. now rewrite O2.
          -- destruct (push_text_ok (trailing c) chunks Hok) as [O1 O2]. specialize (IH HQ' pres cont _ O1) as [I1 I2].
             destruct (nk pres cont (push_text (trailing c) chunks) ks) as [ns2 ch2]. cbn [fst snd app] in *. rewrite O2 in I2. split; assumption.
  Qed.
  Lemma nn_norm : forall t, Q t.
  Proof.
    induction t as [c s|p ks IH] using node_ind'; intros pres cont; [reflexivity|].
    rewrite nn_node_tag, norm_node_tag. cbn zeta.
    destruct (nk_norm ks IH (pres || memS (qname p) (c_pw cfg))
                (match assocS (qname p) (c_containers cfg) with Some c => c | None => cont end) [] (Forall_nil _)) as [_ H].
    destruct (nk _ _ [] ks) as [ns ch]. cbn [fst snd rev concat] in H. now rewrite H.
  Qed.
  Lemma nk_norm_kids ks pres cont :
    fst (nk pres cont [] ks) ++ flushc pres cont (snd (nk pres cont [] ks)) = norm_kids enc f cfg pres cont [] ks.
  Proof.
    destruct (nk_norm ks (proj2 (Forall_forall Q ks) (fun t _ => nn_norm t)) pres cont [] (Forall_nil _)) as [_ H]. exact H.
  Qed.

  (* ---- the theorem: rendering, reading the tokens back and building gives [norm] of the tree ---- *)
  Hypothesis Hroot_pw : memS (c_root cfg) (c_pw cfg) = false.
  Hypothesis Hroot_cont : assocS (c_root cfg) (c_containers cfg) = None.

  Lemma ctx_start : ctx (s_start cfg) false 0%N.
  Proof.
    unfold ctx, s_start. cbn [s_nodes s_open length existsb nearest_container]. repeat split.
    - repeat constructor.
    - unfold s_name. cbn. now rewrite Hroot_pw.
    - unfold s_name. cbn. now rewrite Hroot_cont.
  Qed.

  Theorem roundtrip_tokens t : representable_top f rc cfg t = true ->
    spec_run cfg (read_tokens rt ra rc (tokens_of enc f t)) = flat_tree cfg (norm enc f cfg t).
  Proof.
    intros Hr. unfold representable_top in Hr. apply andb_prop in Hr as [_ Hr].
    unfold spec_run, read_tokens. rewrite read_from_mrun. fold r0.
    unfold tokens_of, norm, flat_tree. destruct t as [p ks|c s]; [|reflexivity].
    pose proof ctx_start as Hc. unfold s_start in Hc |- *. fold (root_snode cfg).
    change (mksn None (mkpl (c_root cfg) None [] 0%N false)) with (root_snode cfg) in *.
    destruct (g_hidden p) eqn:Hh.
    - apply andb_prop in Hr as [Hcd Hks]. apply negb_true_iff in Hcd.
      rewrite (kids_run ks (proj2 (Forall_forall P ks) (fun t _ => tree_run t)) [root_snode cfg] 0%nat [] [] false 0%N (g_name p) Hc Hks Hcd).
      unfold result. cbn [fst].
      rewrite (flush_step _ _ _ _ false 0%N None) by (reflexivity || (eapply ctx_sn_kids; exact Hc)).
      cbn [s_nodes flush_class]. now rewrite <- sn_kids_app, nk_norm_kids.
    - rewrite (tree_run (NTag p ks) [root_snode cfg] 0%nat [] [] false 0%N None Hc Hr I).
      unfold result. cbn [nk1 fst snd flushc app s_flush s_pending s_nodes]. now rewrite nn_norm.
  Qed.
End RoundTrip.

(* ================================================================ 3. the 'minimal' formatter: substitute_xml and the reader *)
From BS Require Import Base.Reader Gen.Entities Model.SmartQuotes.

(* the character-wise form of substitute_xml, and of substitute_xml followed by the quoting rule *)
Definition esc (both : bool) (c : N) : str :=
  if (c =? 38)%N then [38; 97; 109; 112; 59]%N
  else if (c =? 60)%N then [38; 108; 116; 59]%N
  else if (c =? 62)%N then [38; 103; 116; 59]%N
  else if both && (c =? 34)%N then [38; 113; 117; 111; 116; 59]%N
  else [c].

Lemma subst_xml_char_esc c : subst_xml_char c = esc false c.
Proof.
  unfold subst_xml_char, esc, ampersand_or_bracket, character_to_xml_entity, memN. cbn [existsb assocN andb].
  destruct (N.eqb_spec c 38) as [->|H1]; [reflexivity|].
  destruct (N.eqb_spec c 60) as [->|H2]; [reflexivity|].
  destruct (N.eqb_spec c 62) as [->|H3]; reflexivity.
Qed.
Lemma subst_xml_esc s : subst_xml s = flat_map (esc false) s.
Proof. unfold subst_xml. induction s as [|c s IH]; [reflexivity|]. cbn [flat_map]. now rewrite subst_xml_char_esc, IH. Qed.

Lemma memN_app x a b : memN x (a ++ b) = memN x a || memN x b.
Proof. unfold memN. apply existsb_app. Qed.
Lemma memN_esc_quote x c : (x = 34 \/ x = 39)%N -> memN x (esc false c) = memN x [c].
Proof.
  intros Hx. unfold esc. cbn [andb].
  destruct (N.eqb_spec c 38) as [->|H1]; [destruct Hx as [-> | ->]; reflexivity|].
  destruct (N.eqb_spec c 60) as [->|H2]; [destruct Hx as [-> | ->]; reflexivity|].
  destruct (N.eqb_spec c 62) as [->|H3]; [destruct Hx as [-> | ->]; reflexivity|]. reflexivity.
Qed.
Lemma memN_subst_xml x s : (x = 34 \/ x = 39)%N -> memN x (subst_xml s) = memN x s.
Proof.
  intros Hx. rewrite subst_xml_esc. induction s as [|c s IH]; [reflexivity|]. cbn [flat_map].
  rewrite memN_app, IH, (memN_esc_quote x c Hx). unfold memN. cbn [existsb]. now rewrite orb_false_r.
Qed.
Lemma replace_dq_app a b : replace_dq (a ++ b) = replace_dq a ++ replace_dq b.
Proof.
  induction a as [|c a IH]; [reflexivity|]. cbn [app replace_dq]. destruct (c =? dq_)%N; rewrite IH; reflexivity.
Qed.
Lemma replace_dq_esc c : replace_dq (esc false c) = esc true c.
Proof.
  unfold esc. cbn [andb].
  destruct (N.eqb_spec c 38) as [->|H1]; [reflexivity|].
  destruct (N.eqb_spec c 60) as [->|H2]; [reflexivity|].
  destruct (N.eqb_spec c 62) as [->|H3]; [reflexivity|].
  cbn [replace_dq]. unfold dq_. destruct (N.eqb_spec c 34); reflexivity.
Qed.
Lemma attr_inner_subst_xml s :
  attr_inner (subst_xml s) = flat_map (esc (memN dq_ s && memN sq_ s)) s.
Proof.
  unfold attr_inner. rewrite !memN_subst_xml by (unfold dq_, sq_; auto).
  destruct (memN dq_ s && memN sq_ s); [|apply subst_xml_esc].
  rewrite subst_xml_esc. clear. induction s as [|c s IH]; [reflexivity|]. cbn [flat_map].
  now rewrite replace_dq_app, replace_dq_esc, IH.
Qed.

Section ReaderInverse.
  Variable ent : str -> option str.
  Variable num : N -> str.
  Hypothesis Hamp : ent [97; 109; 112]%N = Some [38%N].
  Hypothesis Hlt : ent [108; 116]%N = Some [60%N].
  Hypothesis Hgt : ent [103; 116]%N = Some [62%N].
  Hypothesis Hquot : ent [113; 117; 111; 116]%N = Some [34%N].

  Lemma read_esc both c tl :
    read_from ent num Idle (esc both c ++ tl) = c :: read_from ent num Idle tl.
  Proof.
    unfold esc.
    destruct (N.eqb_spec c 38) as [->|H1].
    { cbn [app read_from step idle_step]. cbn. unfold resolve_named. cbn [rev app]. now rewrite Hamp. }
    destruct (N.eqb_spec c 60) as [->|H2].
    { cbn [app read_from step idle_step]. cbn. unfold resolve_named. cbn [rev app]. now rewrite Hlt. }
    destruct (N.eqb_spec c 62) as [->|H3].
    { cbn [app read_from step idle_step]. cbn. unfold resolve_named. cbn [rev app]. now rewrite Hgt. }
    destruct (both && (c =? 34)%N) eqn:E.
    { apply andb_prop in E as [_ E]. apply N.eqb_eq in E. subst c.
      cbn [app read_from step idle_step]. cbn. unfold resolve_named. cbn [rev app]. now rewrite Hquot. }
    cbn [app read_from step]. unfold idle_step, c_amp.
    destruct (N.eqb_spec c 38) as [->|_]; [contradiction|]. reflexivity.
  Qed.
  Lemma read_flat_esc both s : read ent num (flat_map (esc both) s) = s.
  Proof.
    unfold read. induction s as [|c s IH]; [reflexivity|]. cbn [flat_map]. now rewrite read_esc, IH.
  Qed.
End ReaderInverse.

Lemma ent_text_xml :
  ent_text [97; 109; 112]%N = Some [38%N] /\ ent_text [108; 116]%N = Some [60%N] /\
  ent_text [103; 116]%N = Some [62%N] /\ ent_text [113; 117; 111; 116]%N = Some [34%N].
Proof. repeat split; vm_compute; reflexivity. Qed.

(* bs4's reading of character data (Model/SmartQuotes.v read_text: html.parser's reference syntax,
   handle_entityref / handle_charref over the regenerated HTML entity table) undoes substitute_xml,
   in text and — with the quoting rule — in attribute values *)
Theorem read_text_subst_xml s : read_text (subst_xml s) = s.
Proof.
  destruct ent_text_xml as (A & B & C & D). rewrite subst_xml_esc. unfold read_text. now apply read_flat_esc.
Qed.
Theorem read_text_attr_subst_xml s : read_text (attr_inner (subst_xml s)) = s.
Proof.
  destruct ent_text_xml as (A & B & C & D). rewrite attr_inner_subst_xml. unfold read_text. now apply read_flat_esc.
Qed.

(* the round trip for the 'minimal' formatter, nothing assumed *)
Theorem roundtrip_minimal enc f rc cfg t :
  f_subst f = Some subst_xml -> f_void f <> [] ->
  memS (c_root cfg) (c_pw cfg) = false -> assocS (c_root cfg) (c_containers cfg) = None ->
  representable_top f rc cfg t = true ->
  spec_run cfg (read_tokens read_text read_text rc (tokens_of enc f t)) = flat_tree cfg (norm enc f cfg t).
Proof.
  intros Hs Hv H1 H2 Hr.
  apply (roundtrip_tokens enc f read_text read_text rc cfg subst_xml Hs eq_refl read_text_subst_xml eq_refl
           read_text_attr_subst_xml Hv eq_refl H1 H2 t Hr).
Qed.
