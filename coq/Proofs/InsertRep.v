(* Tag._insert() (Model/Heap.v [insert1]) of a fully linked root preserves the representation
   relation [rep] of Spec/Tree.v: the heap after the call describes the forest in which the inserted
   tree has become child number [pos] of [self]. *)
From Coq Require Import List Arith Bool Lia Permutation.
From BS Require Import Base.Sexp Model.Heap Spec.Tree Proofs.HeapBasics.
Import ListNotations.

(* ------------------------------------------------------------------------------------------ *)
(* lists *)

Lemma nth_inj (L : list nat) i j x :
  NoDup L -> nth_error L i = Some x -> nth_error L j = Some x -> i = j.
Proof.
  intros ND Hi Hj. apply (proj1 (NoDup_nth_error L) ND); [apply nth_error_Some; congruence | congruence].
Qed.

Lemma nth_app3_A (A M B : list nat) i : i < length A -> nth_error (A ++ M ++ B) i = nth_error A i.
Proof. intros. now rewrite nth_error_app1. Qed.
Lemma nth_app3_M (A M B : list nat) i :
  i < length M -> nth_error (A ++ M ++ B) (length A + i) = nth_error M i.
Proof.
  intros. rewrite nth_error_app2 by lia. replace (length A + i - length A) with i by lia.
  now rewrite nth_error_app1.
Qed.
Lemma nth_app3_B (A M B : list nat) i :
  nth_error (A ++ M ++ B) (length A + length M + i) = nth_error B i.
Proof. rewrite nth_error_app2 by lia. rewrite nth_error_app2 by lia. f_equal. lia. Qed.

Lemma nth_error_lt {X} (l : list X) i x : nth_error l i = Some x -> i < length l.
Proof. intros H. apply nth_error_Some. congruence. Qed.

(* the last element, as an option *)
Lemma pred_at_last (L : list nat) a : pred_at (L ++ [a]) (length (L ++ [a])) = Some a.
Proof.
  rewrite app_length. cbn [length]. replace (length L + 1) with (S (length L)) by lia.
  cbn [pred_at]. rewrite nth_error_app2 by lia. now rewrite Nat.sub_diag.
Qed.

Lemma pred_at_app_last (A L : list nat) :
  L <> [] -> pred_at (A ++ L) (length (A ++ L)) = pred_at L (length L).
Proof.
  intros HL. destruct L as [|x L]; [congruence|]. rewrite app_length. cbn [length].
  replace (length A + S (length L)) with (S (length A + length L)) by lia. cbn [pred_at].
  rewrite nth_error_app2 by lia. f_equal. lia.
Qed.

Lemma pred_at_nil : pred_at [] 0 = None. Proof. reflexivity. Qed.

Lemma insert_at_split {X} (x : X) l i : insert_at i x l = firstn i l ++ x :: skipn i l.
Proof.
  revert i. induction l as [|y l IH]; intros i; destruct i; cbn; try reflexivity. now rewrite IH.
Qed.

Ltac norm_app := repeat (rewrite <- app_assoc || rewrite <- app_comm_cons).

Lemma exists_last_or_nil {X} (l : list X) : l = [] \/ exists l' a, l = l' ++ [a].
Proof. induction l as [|a l' _] using rev_ind; [now left | right; eauto]. Qed.

Lemma firstn_In' {X} (x : X) n l : In x (firstn n l) -> In x l.
Proof. intros H. rewrite <- (firstn_skipn n l). apply in_or_app. now left. Qed.
Lemma skipn_In' {X} (x : X) n l : In x (skipn n l) -> In x l.
Proof. intros H. rewrite <- (firstn_skipn n l). apply in_or_app. now right. Qed.

Lemma flat_map_app' {X Y} (f : X -> list Y) l1 l2 : flat_map f (l1 ++ l2) = flat_map f l1 ++ flat_map f l2.
Proof. induction l1 as [|a l1 IH]; cbn; [reflexivity|]. now rewrite IH, app_assoc. Qed.

(* ------------------------------------------------------------------------------------------ *)
(* doubly linked chains over arbitrary next / previous functions *)

Definition gchain (nx pv : nat -> option nat) (L : list nat) : Prop :=
  forall i x, nth_error L i = Some x -> nx x = nth_error L (S i) /\ pv x = pred_at L i.

(* a chain open at its end, and a chain open at its start *)
Definition chainA (nx pv : nat -> option nat) (A : list nat) : Prop :=
  forall i x, nth_error A i = Some x ->
    (S i < length A -> nx x = nth_error A (S i)) /\ pv x = pred_at A i.
Definition chainB (nx pv : nat -> option nat) (B : list nat) : Prop :=
  forall i x, nth_error B i = Some x ->
    nx x = nth_error B (S i) /\ (0 < i -> pv x = pred_at B i).

Lemma gchain_split nx pv A B : gchain nx pv (A ++ B) -> chainA nx pv A /\ chainB nx pv B.
Proof.
  intros H. split.
  - intros i x Hx. pose proof (nth_error_lt _ _ _ Hx) as Hi.
    destruct (H i x) as [Hn Hp]; [now rewrite nth_error_app1|]. split.
    + intros Hlt. rewrite Hn. now rewrite nth_error_app1.
    + rewrite Hp. destruct i; cbn [pred_at]; [reflexivity|]. now rewrite nth_error_app1 by lia.
  - intros i x Hx.
    destruct (H (length A + i) x) as [Hn Hp].
    { rewrite nth_error_app2 by lia. rewrite <- Hx. f_equal. lia. }
    split.
    + rewrite Hn. rewrite nth_error_app2 by lia. f_equal. lia.
    + intros Hlt. rewrite Hp. destruct i; [lia|]. replace (length A + S i) with (S (length A + i)) by lia.
      cbn [pred_at]. rewrite nth_error_app2 by lia. f_equal. lia.
Qed.

Lemma gchain_chainA nx pv L : gchain nx pv L -> chainA nx pv L.
Proof. intros H i x Hx. destruct (H i x Hx) as [Hn Hp]. split; auto. Qed.
Lemma gchain_chainB nx pv L : gchain nx pv L -> chainB nx pv L.
Proof. intros H i x Hx. destruct (H i x Hx) as [Hn Hp]. split; auto. Qed.

(* splicing the closed chain M between A and B: the four boundary writes, everything else kept *)
Lemma splice_ok nx pv nx' pv' A M B m0 m1 k :
  NoDup (A ++ M ++ B) ->
  nth_error M 0 = Some m0 -> length M = S k -> nth_error M k = Some m1 ->
  chainA nx pv A -> gchain nx pv M -> chainB nx pv B ->
  (forall a, pred_at A (length A) = Some a -> nx' a = Some m0) ->
  pv' m0 = pred_at A (length A) ->
  nx' m1 = nth_error B 0 ->
  (forall b, nth_error B 0 = Some b -> pv' b = Some m1) ->
  (forall x, pred_at A (length A) <> Some x -> x <> m1 -> nx' x = nx x) ->
  (forall x, x <> m0 -> nth_error B 0 <> Some x -> pv' x = pv x) ->
  gchain nx' pv' (A ++ M ++ B).
Proof.
  intros ND Hm0 HlenM Hm1 HA HM HB Ha Hpm0 Hnm1 Hb Fnx Fpv.
  set (L := A ++ M ++ B) in *.
  assert (posA : forall i y, nth_error A i = Some y -> nth_error L i = Some y).
  { intros i y H. unfold L. rewrite nth_app3_A; [exact H | eapply nth_error_lt; eauto]. }
  assert (posM : forall i y, nth_error M i = Some y -> nth_error L (length A + i) = Some y).
  { intros i y H. unfold L. rewrite nth_app3_M; [exact H | eapply nth_error_lt; eauto]. }
  assert (posB : forall i y, nth_error B i = Some y -> nth_error L (length A + length M + i) = Some y).
  { intros i y H. unfold L. now rewrite nth_app3_B. }
  pose proof (posM _ _ Hm0) as Hm0L. pose proof (posM _ _ Hm1) as Hm1L.
  assert (NlastA : forall i y, nth_error L i = Some y -> S i <> length A -> pred_at A (length A) <> Some y).
  { intros i y HyL Hi Hp. destruct (length A) eqn:E; [discriminate|]. cbn [pred_at] in Hp.
    pose proof (posA _ _ Hp) as HpL. pose proof (nth_inj _ _ _ _ ND HyL HpL). lia. }
  assert (NhdB : forall i y, nth_error L i = Some y -> i <> length A + length M -> nth_error B 0 <> Some y).
  { intros i y HyL Hi Hp. pose proof (posB _ _ Hp) as HpL. pose proof (nth_inj _ _ _ _ ND HyL HpL). lia. }
  assert (Nm0 : forall i y, nth_error L i = Some y -> i <> length A -> y <> m0).
  { intros i y HyL Hi ->. pose proof (nth_inj _ _ _ _ ND HyL Hm0L). lia. }
  assert (Nm1 : forall i y, nth_error L i = Some y -> i <> length A + k -> y <> m1).
  { intros i y HyL Hi ->. pose proof (nth_inj _ _ _ _ ND HyL Hm1L). lia. }
  intros i y Hy.
  destruct (Nat.lt_ge_cases i (length A)) as [HiA|HiA].
  - (* y in A *)
    assert (HyA : nth_error A i = Some y) by (unfold L in Hy; now rewrite nth_error_app1 in Hy).
    destruct (HA _ _ HyA) as [Hn Hp]. split.
    + destruct (Nat.eq_dec (S i) (length A)) as [E|NE].
      * rewrite (Ha y) by (rewrite <- E; exact HyA).
        rewrite E. rewrite <- (Nat.add_0_r (length A)). unfold L. rewrite nth_app3_M by lia. now symmetry.
      * rewrite Fnx; [| eapply NlastA; eauto | eapply Nm1; eauto; lia].
        rewrite Hn by lia. unfold L. now rewrite nth_app3_A by lia.
    + rewrite Fpv; [| eapply Nm0; eauto; lia | eapply NhdB; eauto; lia].
      rewrite Hp. destruct i; cbn [pred_at]; [reflexivity|]. unfold L. now rewrite nth_app3_A by lia.
  - destruct (Nat.lt_ge_cases i (length A + length M)) as [HiM|HiM].
    + (* y in M *)
      remember (i - length A) as j eqn:Ej. assert (Ei : i = length A + j) by lia. subst i.
      assert (HyM : nth_error M j = Some y) by (unfold L in Hy; rewrite nth_app3_M in Hy by lia; exact Hy).
      destruct (HM _ _ HyM) as [Hn Hp]. split.
      * destruct (Nat.eq_dec j k) as [->|NE].
        -- assert (y = m1) by congruence. subst y. rewrite Hnm1.
           replace (S (length A + k)) with (length A + length M + 0) by lia. unfold L.
           now rewrite nth_app3_B.
        -- rewrite Fnx; [| eapply NlastA; eauto; lia | eapply Nm1; eauto; lia].
           rewrite Hn. replace (S (length A + j)) with (length A + S j) by lia. unfold L.
           now rewrite nth_app3_M by lia.
      * destruct j as [|j'].
        -- assert (y = m0) by congruence. subst y. rewrite Hpm0. rewrite Nat.add_0_r.
           destruct (length A) eqn:E; cbn [pred_at]; [reflexivity|]. unfold L.
           now rewrite nth_app3_A by lia.
        -- rewrite Fpv; [| eapply Nm0; eauto; lia | eapply NhdB; eauto; lia].
           rewrite Hp. replace (length A + S j') with (S (length A + j')) by lia. cbn [pred_at].
           unfold L. now rewrite nth_app3_M by lia.
    + (* y in B *)
      remember (i - length A - length M) as j eqn:Ej.
      assert (Ei : i = length A + length M + j) by lia. subst i.
      assert (HyB : nth_error B j = Some y) by (unfold L in Hy; rewrite nth_app3_B in Hy; exact Hy).
      destruct (HB _ _ HyB) as [Hn Hp]. split.
      * rewrite Fnx; [| eapply NlastA; eauto; lia | eapply Nm1; eauto; lia].
        rewrite Hn. replace (S (length A + length M + j)) with (length A + length M + S j) by lia.
        unfold L. now rewrite nth_app3_B.
      * destruct j as [|j'].
        -- rewrite (Hb y HyB). replace (length A + length M + 0) with (S (length A + k)) by lia.
           cbn [pred_at]. unfold L. rewrite nth_app3_M by lia. now symmetry.
        -- rewrite Fpv; [| eapply Nm0; eauto; lia | eapply NhdB; eauto; lia].
           rewrite Hp by lia. replace (length A + length M + S j') with (S (length A + length M + j')) by lia.
           cbn [pred_at]. unfold L. now rewrite nth_app3_B.
Qed.

(* ------------------------------------------------------------------------------------------ *)
(* trees *)

Lemma NoDup_app_disj {X} (l1 l2 : list X) a : NoDup (l1 ++ l2) -> In a l1 -> In a l2 -> False.
Proof.
  induction l1 as [|b l1 IH]; intros ND H1 H2; [contradiction|].
  cbn in ND. inversion ND as [|? ? Hn ND']; subst. destruct H1 as [->|H1].
  - apply Hn. apply in_or_app. now right.
  - now apply IH.
Qed.

Lemma NoDup_app_l {X} (l1 l2 : list X) : NoDup (l1 ++ l2) -> NoDup l1.
Proof.
  induction l1 as [|b l1 IH]; intros ND; [constructor|]. cbn in ND. inversion ND as [|? ? Hn ND']; subst.
  constructor; [|now apply IH]. intros H. apply Hn. apply in_or_app. now left.
Qed.
Lemma NoDup_app_r {X} (l1 l2 : list X) : NoDup (l1 ++ l2) -> NoDup l2.
Proof. induction l1 as [|b l1 IH]; intros ND; [exact ND|]. cbn in ND. inversion ND; subst. now apply IH. Qed.

Lemma pre_rid t : pre t = rid t :: pres (tkids t).
Proof. destruct t; reflexivity. Qed.

Lemma pre_not_nil t : pre t <> [].
Proof. destruct t; discriminate. Qed.

Lemma rid_in_pre t : In (rid t) (pre t).
Proof. destruct t; now left. Qed.

Lemma pres_app l1 l2 : pres (l1 ++ l2) = pres l1 ++ pres l2.
Proof. apply flat_map_app'. Qed.

Lemma pres_cons k l : pres (k :: l) = pre k ++ pres l.
Proof. reflexivity. Qed.

Lemma in_pres x ks : In x (pres ks) <-> exists k, In k ks /\ In x (pre k).
Proof. unfold pres. apply in_flat_map. Qed.

Lemma NoDup_pres_in ks k : NoDup (pres ks) -> In k ks -> NoDup (pre k).
Proof.
  intros ND Hk. apply in_split in Hk. destruct Hk as (l1 & l2 & ->).
  rewrite pres_app, pres_cons in ND. apply NoDup_app_r in ND. now apply NoDup_app_l in ND.
Qed.

Lemma subterms_refl t : In t (subterms t).
Proof. destruct t; now left. Qed.

Lemma subterms_pre_incl : forall t u, In u (subterms t) -> incl (pre u) (pre t).
Proof.
  induction t as [i ks IH] using tree_ind'. intros u Hu. cbn [subterms] in Hu. destruct Hu as [<-|Hu].
  - apply incl_refl.
  - apply in_flat_map in Hu. destruct Hu as (k & Hk & Hu). rewrite Forall_forall in IH.
    intros x Hx. cbn [pre]. right. apply in_flat_map. exists k. split; [exact Hk|]. eapply IH; eauto.
Qed.

Lemma subterms_kid : forall t k u, In k (tkids t) -> In u (subterms k) -> In u (subterms t).
Proof.
  intros [i ks] k u Hk Hu. cbn [tkids] in Hk. cbn [subterms]. right. apply in_flat_map. eauto.
Qed.

Lemma insert_sub_rid p i s t : rid (insert_sub p i s t) = rid t.
Proof. destruct t as [j ks]; cbn. destruct (Nat.eqb j p); reflexivity. Qed.

Lemma map_rid_insert_sub p i s ks : map rid (map (insert_sub p i s) ks) = map rid ks.
Proof. rewrite map_map. apply map_ext. intros. apply insert_sub_rid. Qed.

Lemma insert_sub_notin p i s : forall t, ~ In p (pre t) -> insert_sub p i s t = t.
Proof.
  induction t as [j ks IH] using tree_ind'. intros Hn. cbn [insert_sub].
  destruct (Nat.eqb_spec j p) as [->|Hjp]; [exfalso; apply Hn; now left|].
  f_equal. rewrite Forall_forall in IH. rewrite <- (map_id ks) at 2. apply map_ext_in. intros k Hk.
  apply IH; [exact Hk|]. intros Hp. apply Hn. cbn [pre]. right. apply in_flat_map. eauto.
Qed.

Lemma map_insert_sub_notin p i s ks : ~ In p (pres ks) -> map (insert_sub p i s) ks = ks.
Proof.
  intros Hn. rewrite <- (map_id ks) at 2. apply map_ext_in. intros k Hk. apply insert_sub_notin.
  intros Hp. apply Hn. apply in_pres. eauto.
Qed.

Lemma insert_sub_Node_eq p i s ks : insert_sub p i s (Node p ks) = Node p (insert_at i s ks).
Proof. cbn. now rewrite Nat.eqb_refl. Qed.
Lemma insert_sub_Node_neq p i s j ks :
  j <> p -> insert_sub p i s (Node j ks) = Node j (map (insert_sub p i s) ks).
Proof. intros H. cbn. apply Nat.eqb_neq in H. now rewrite H. Qed.

(* the nodes of the new tree *)
Lemma subterms_insert p i s : forall t, NoDup (pre t) ->
  forall u, In u (subterms (insert_sub p i s t)) ->
    In u (subterms s) \/ exists u0, In u0 (subterms t) /\ u = insert_sub p i s u0.
Proof.
  induction t as [j ks IH] using tree_ind'. intros ND u Hu. rewrite Forall_forall in IH.
  cbn [pre] in ND. inversion ND as [|? ? Hj NDks]; subst.
  destruct (Nat.eq_dec j p) as [->|Hjp].
  - rewrite insert_sub_Node_eq in Hu. cbn [subterms] in Hu. destruct Hu as [<-|Hu].
    + right. exists (Node p ks). split; [apply subterms_refl | now rewrite insert_sub_Node_eq].
    + apply in_flat_map in Hu. destruct Hu as (k & Hk & Hu). rewrite insert_at_split in Hk.
      apply in_app_or in Hk. 
      assert (Hks : In k ks -> In u (subterms s) \/ exists u0, In u0 (subterms (Node p ks)) /\ u = insert_sub p i s u0).
      { intros Hk'. right. exists u. split.
        - cbn [subterms]. right. apply in_flat_map. eauto.
        - symmetry. apply insert_sub_notin. intros Hp. apply Hj. apply in_flat_map. exists k. split; [exact Hk'|].
          eapply subterms_pre_incl; eauto. }
      destruct Hk as [Hk|[<-|Hk]].
      * apply Hks. eapply firstn_In'. exact Hk.
      * now left.
      * apply Hks. eapply skipn_In'. exact Hk.
  - rewrite insert_sub_Node_neq in Hu by exact Hjp. cbn [subterms] in Hu. destruct Hu as [<-|Hu].
    + right. exists (Node j ks). split; [apply subterms_refl | now rewrite insert_sub_Node_neq].
    + apply in_flat_map in Hu. destruct Hu as (k' & Hk' & Hu). apply in_map_iff in Hk'.
      destruct Hk' as (k & <- & Hk).
      destruct (IH k Hk (NoDup_pres_in _ _ NDks Hk) u Hu) as [Hs|(u0 & Hu0 & ->)]; [now left|].
      right. exists u0. split; [|reflexivity]. cbn [subterms]. right. apply in_flat_map. eauto.
Qed.

(* where p sits in the pre-order of t: the subtree at p, what precedes it, what follows it; the
   effect of insert_sub there; and what the walk-up loop of _insert finds *)
Lemma locate p : forall t, NoDup (pre t) -> In p (pre t) ->
  exists A0 ks B0 d,
    pre t = A0 ++ pre (Node p ks) ++ B0 /\
    In (Node p ks) (subterms t) /\
    (forall i s, pre (insert_sub p i s t) = A0 ++ pre (Node p (insert_at i s ks)) ++ B0) /\
    ((p = rid t /\ A0 = [] /\ B0 = []) \/ (p <> rid t /\ exists A1, A0 = rid t :: A1)) /\
    d < length (pre t) /\
    (forall h, (forall u, In u (subterms t) -> node_ok h u) ->
       forall h2, (forall y, In y (A0 ++ [p]) -> ns (h2 y) = ns (h y) /\ par (h2 y) = par (h y)) ->
       forall fuel, parents_next_sibling (d + fuel) h2 p =
          match B0 with b :: _ => Some b | [] => parents_next_sibling fuel h2 (rid t) end).
Proof.
  induction t as [j ks IH] using tree_ind'. intros ND Hp. rewrite Forall_forall in IH.
  destruct (Nat.eq_dec j p) as [->|Hjp].
  - exists [], ks, [], 0. rewrite app_nil_r. cbn [app]. repeat split.
    + apply subterms_refl.
    + intros i s. now rewrite insert_sub_Node_eq, app_nil_r.
    + left. cbn [rid]. auto.
    + cbn [pre length]. lia.
  - cbn [pre] in ND, Hp. inversion ND as [|? ? Hj NDks]; subst.
    destruct Hp as [Hp|Hp]; [congruence|]. apply in_flat_map in Hp. destruct Hp as (k & Hk & Hpk).
    apply in_split in Hk. destruct Hk as (ks1 & ks2 & ->).
    fold (pres (ks1 ++ k :: ks2)) in NDks, Hj. rewrite pres_app, pres_cons in NDks, Hj.
    assert (NDk : NoDup (pre k)) by (apply NoDup_app_r in NDks; now apply NoDup_app_l in NDks).
    destruct (IH k (in_elt _ _ _) NDk Hpk) as (A0 & ksp & B0 & d & Epre & Hsub & Hins & Hroot & Hd & Hpns).
    exists (j :: pres ks1 ++ A0), ksp, (B0 ++ pres ks2), (S d). repeat split.
    + cbn [pre]. fold (pres (ks1 ++ k :: ks2)). rewrite pres_app, pres_cons. rewrite Epre.
      cbn [pre]. norm_app. reflexivity.
    + cbn [subterms]. right. apply in_flat_map. exists k. split; [apply in_elt | exact Hsub].
    + intros i s. rewrite insert_sub_Node_neq by exact Hjp. cbn [pre].
      fold (pres (map (insert_sub p i s) (ks1 ++ k :: ks2))). rewrite map_app. cbn [map].
      rewrite pres_app, pres_cons. rewrite Hins.
      rewrite map_insert_sub_notin.
      2:{ intros H. eapply (NoDup_app_disj _ _ p NDks); [exact H|]. apply in_or_app. now left. }
      rewrite map_insert_sub_notin.
      2:{ intros H. apply NoDup_app_r in NDks. eapply (NoDup_app_disj _ _ p NDks); [exact Hpk|exact H]. }
      cbn [pre]. norm_app. reflexivity.
    + right. cbn [rid]. split; [congruence|]. eauto.
    + cbn [pre length]. fold (pres (ks1 ++ k :: ks2)). rewrite pres_app, pres_cons, !app_length. lia.
    + intros h Hok h2 Hagree fuel.
      assert (Hokk : forall u, In u (subterms k) -> node_ok h u).
      { intros u Hu. apply Hok. cbn [subterms]. right. apply in_flat_map. exists k. split; [apply in_elt|exact Hu]. }
      assert (Hagreek : forall y, In y (A0 ++ [p]) -> ns (h2 y) = ns (h y) /\ par (h2 y) = par (h y)).
      { intros y Hy. apply Hagree. cbn [app]. right. rewrite <- app_assoc. apply in_or_app. now right. }
      replace (S d + fuel) with (d + S fuel) by lia. rewrite (Hpns h Hokk h2 Hagreek (S fuel)).
      destruct B0 as [|b B0']; [|reflexivity].
      assert (Hrk : In (rid k) (A0 ++ [p])).
      { destruct Hroot as [(-> & -> & _)|(_ & A1 & ->)]; now left. }
      destruct (Hagreek _ Hrk) as [Ens Epar].
      destruct (Hok (Node j (ks1 ++ k :: ks2)) (subterms_refl _)) as (_ & Hsch & Hpar & _).
      cbn [rid tkids] in Hsch, Hpar.
      assert (Hnth : nth_error (map rid (ks1 ++ k :: ks2)) (length ks1) = Some (rid k)).
      { rewrite map_app. cbn [map]. rewrite nth_error_app2 by (rewrite map_length; lia).
        rewrite map_length, Nat.sub_diag. reflexivity. }
      destruct (Hsch _ _ Hnth) as [Hns _].
      assert (Hns' : ns (h (rid k)) = nth_error (map rid ks2) 0).
      { rewrite Hns. rewrite map_app. cbn [map]. rewrite nth_error_app2 by (rewrite map_length; lia).
        rewrite map_length. replace (S (length ks1) - length ks1) with 1 by lia. reflexivity. }
      cbn [parents_next_sibling]. rewrite Ens, Hns', Epar, (Hpar k (in_elt _ _ _)).
      destruct ks2 as [|k2 ks2']; cbn [map nth_error app pres flat_map rid]; [reflexivity|].
      rewrite (pre_rid k2). reflexivity.
Qed.

(* insertion splices the whole pre-order of s into the pre-order of t *)
Lemma insert_sub_pre : forall p i s t, In p (pre t) -> NoDup (pre t) ->
  exists A B, pre t = A ++ B /\ pre (insert_sub p i s t) = A ++ pre s ++ B.
Proof.
  intros p i s t Hp ND. destruct (locate p t ND Hp) as (A0 & ks & B0 & d & Epre & _ & Hins & _).
  exists (A0 ++ p :: pres (firstn i ks)), (pres (skipn i ks) ++ B0). split.
  - rewrite Epre. cbn [pre]. fold (pres ks). rewrite <- (firstn_skipn i ks) at 1. rewrite pres_app.
    norm_app. reflexivity.
  - rewrite Hins. cbn [pre]. fold (pres (insert_at i s ks)). rewrite insert_at_split, pres_app, pres_cons.
    norm_app. reflexivity.
Qed.

(* the while loop of _last_descendant ends on the last node of the pre-order *)
Lemma walk_last_ext h h2 :
  (forall y, kids (h2 y) = kids (h y)) -> (forall y, kind (h2 y) = kind (h y)) ->
  forall fuel x, walk_last fuel h2 x = walk_last fuel h x.
Proof.
  intros Hk Hd. induction fuel as [|f IH]; intros x; [reflexivity|]. cbn [walk_last].
  unfold is_tag. rewrite Hk, Hd. destruct (kind (h x)); try reflexivity;
  destruct (rev (kids (h x))); try reflexivity; apply IH.
Qed.

Lemma walk_last_tree h : forall t, (forall u, In u (subterms t) -> node_ok h u) ->
  forall fuel, length (pre t) <= fuel ->
  pred_at (pre t) (length (pre t)) = Some (walk_last fuel h (rid t)).
Proof.
  induction t as [i ks IH] using tree_ind'. intros Hok fuel Hfuel. rewrite Forall_forall in IH.
  destruct fuel as [|f]; [cbn in Hfuel; lia|]. cbn [walk_last rid].
  destruct (Hok _ (subterms_refl _)) as (Hkids & _ & _ & Hleaf). cbn [rid tkids] in Hkids, Hleaf.
  destruct (is_tag h i).
  - rewrite Hkids. destruct (exists_last_or_nil ks) as [->|(ks' & k & ->)]; [reflexivity|].
    rewrite map_app, rev_app_distr. cbn [map rev app].
    assert (Hin : In k (ks' ++ [k])) by (apply in_or_app; right; now left).
    cbn [pre]. fold (pres (ks' ++ [k])). rewrite pres_app, pres_cons. cbn [pres flat_map].
    rewrite app_nil_r. change (i :: pres ks' ++ pre k) with ((i :: pres ks') ++ pre k).
    rewrite pred_at_app_last by apply pre_not_nil. apply IH; [exact Hin| |].
    + intros u Hu. apply Hok. cbn [subterms]. right. apply in_flat_map. eauto.
    + cbn [pre length] in Hfuel. fold (pres (ks' ++ [k])) in Hfuel. rewrite pres_app, pres_cons, !app_length in Hfuel. lia.
  - rewrite Hleaf by reflexivity. reflexivity.
Qed.

(* ------------------------------------------------------------------------------------------ *)
(* the writes of _insert, field by field *)

Ltac setter_if := intros; unfold set_par, set_kids, set_ps, set_ns, set_pe, set_ne, upd;
               destruct (Nat.eqb _ _) eqn:E; [apply Nat.eqb_eq in E; subst|]; reflexivity.
Lemma par_set_par_if h x v y : par (set_par h x v y) = if Nat.eqb y x then v else par (h y). Proof. setter_if. Qed.
Lemma ps_set_ps_if h x v y : ps (set_ps h x v y) = if Nat.eqb y x then v else ps (h y). Proof. setter_if. Qed.
Lemma ns_set_ns_if h x v y : ns (set_ns h x v y) = if Nat.eqb y x then v else ns (h y). Proof. setter_if. Qed.
Lemma pe_set_pe_if h x v y : pe (set_pe h x v y) = if Nat.eqb y x then v else pe (h y). Proof. setter_if. Qed.
Lemma ne_set_ne_if h x v y : ne (set_ne h x v y) = if Nat.eqb y x then v else ne (h y). Proof. setter_if. Qed.
Lemma kids_set_kids_if h x v y : kids (set_kids h x v y) = if Nat.eqb y x then v else kids (h y). Proof. setter_if. Qed.

Lemma last_descendant_ft fuel h x : last_descendant fuel h x false true = Some (walk_last fuel h x).
Proof. reflexivity. Qed.

Global Hint Rewrite last_descendant_ft par_set_par_if ps_set_ps_if ns_set_ns_if pe_set_pe_if ne_set_ne_if kids_set_kids_if
  Nat.eqb_refl : heap.

Lemma is_tag_ext h h2 x : kind (h2 x) = kind (h x) -> is_tag h2 x = is_tag h x.
Proof. unfold is_tag. now intros ->. Qed.

Ltac eqb_cases :=
  repeat match goal with
  | |- context [Nat.eqb ?a ?b] => destruct (Nat.eqb_spec a b); subst
  end.
Ltac fin := intros; autorewrite with heap; eqb_cases; try reflexivity; try congruence; try contradiction.
Ltac wl_norm_in h H :=
  repeat match type of H with
  | context [walk_last ?f ?hh ?x] =>
      lazymatch hh with
      | h => fail
      | _ => rewrite (walk_last_ext h hh) in H by (intros; autorewrite with heap; reflexivity)
      end
  end.

Ltac simp_in H := repeat (progress (autorewrite with heap in H; cbv beta iota in H)).

Lemma insert1_fields fuel h self position nc h' :
  nc <> self -> par (h nc) = None ->
  insert1 fuel h self position nc = Some h' ->
  let K := kids (h self) in
  let pos := Nat.min position (length K) in
  let prevsib := pred_at K pos in
  let nextsib := nth_error K pos in
  let preve := match pos with 0 => self | S pm => walk_last fuel h (nth pm K 0) end in
  let last := walk_last fuel h nc in
  exists nexte,
    match nextsib with
    | Some x => nexte = Some x
    | None => exists hX, nexte = parents_next_sibling fuel hX self /\
               (forall y, y <> nc -> prevsib <> Some y -> ns (hX y) = ns (h y) /\ par (hX y) = par (h y))
    end /\
    (forall y, kind (h' y) = kind (h y)) /\
    kids (h' self) = insert_at pos nc K /\
    (forall y, y <> self -> kids (h' y) = kids (h y)) /\
    par (h' nc) = Some self /\
    (forall y, y <> nc -> par (h' y) = par (h y)) /\
    (* siblings *)
    ns (h' nc) = nextsib /\
    (forall a, prevsib = Some a -> a <> nc -> ns (h' a) = Some nc) /\
    (forall y, y <> nc -> prevsib <> Some y -> ns (h' y) = ns (h y)) /\
    (nextsib <> Some nc -> ps (h' nc) = prevsib) /\
    (forall b, nextsib = Some b -> ps (h' b) = Some nc) /\
    (forall y, y <> nc -> nextsib <> Some y -> ps (h' y) = ps (h y)) /\
    (* elements *)
    ne (h' last) = nexte /\
    (preve <> last -> ne (h' preve) = Some nc) /\
    (forall y, y <> last -> y <> preve -> ne (h' y) = ne (h y)) /\
    (nexte <> Some nc -> pe (h' nc) = Some preve) /\
    (forall b, nexte = Some b -> pe (h' b) = Some last) /\
    (forall y, y <> nc -> nexte <> Some y -> pe (h' y) = pe (h y)).
Proof.
  intros Hneq Hpar H. cbv zeta.
  unfold insert1 in H. apply Nat.eqb_neq in Hneq. rewrite Hneq, Hpar in H. cbv zeta in H.
  apply Nat.eqb_neq in Hneq.
  rewrite !last_descendant_ft in H.
  remember (kids (h self)) as K eqn:EK.
  remember (Nat.min position (length K)) as pos eqn:Epos.
  assert (Hpos : pos <= length K) by lia. clear Epos.
  destruct pos as [|pm].
  - simp_in H. rewrite <- EK in H.
    destruct (length K <=? 0) eqn:Eleb.
    + apply Nat.leb_le in Eleb. destruct K as [|k0 K']; [|cbn in Eleb; lia].
      simp_in H. wl_norm_in h H. 
      match type of H with context [parents_next_sibling fuel ?hX self] =>
        remember (parents_next_sibling fuel hX self) as nexte eqn:Enexte; exists nexte;
        split; [exists hX; split; [exact Enexte | clear; split; fin] |]
      end.
      clear Enexte. destruct nexte as [r|]; injection H as H; subst h'; cbn [pred_at nth_error];
        repeat split; fin; try (rewrite <- EK; reflexivity).
    + apply Nat.leb_gt in Eleb. destruct K as [|k0 K']; [cbn in Eleb; lia|]. cbn [nth] in H.
      simp_in H. wl_norm_in h H.
      exists (Some k0). split; [reflexivity|].
      injection H as H; subst h'; cbn [pred_at nth_error]; repeat split; fin; try (rewrite <- EK; reflexivity).
  - assert (Hpc : nth_error K pm = Some (nth pm K 0)) by (apply nth_error_nth'; lia).
    simp_in H. rewrite <- EK in H.
    remember (nth pm K 0) as pc eqn:Epc. clear Epc. cbn [pred_at]. rewrite Hpc.
    destruct (length K <=? S pm) eqn:Eleb.
    + apply Nat.leb_le in Eleb.
      assert (Hnone : nth_error K (S pm) = None) by (apply nth_error_None; lia). rewrite Hnone.
      simp_in H. wl_norm_in h H.
      match type of H with context [parents_next_sibling fuel ?hX self] =>
        remember (parents_next_sibling fuel hX self) as nexte eqn:Enexte; exists nexte;
        split; [exists hX; split; [exact Enexte | clear; split; fin] |]
      end.
      clear Enexte. destruct nexte as [r|]; injection H as H; subst h';
        repeat split; fin; try (rewrite <- EK; reflexivity).
    + apply Nat.leb_gt in Eleb.
      assert (Hnx : nth_error K (S pm) = Some (nth (S pm) K 0)) by (apply nth_error_nth'; lia).
      remember (nth (S pm) K 0) as nxt eqn:Enxt. clear Enxt. rewrite Hnx.
      simp_in H. wl_norm_in h H.
      exists (Some nxt). split; [reflexivity|].
      injection H as H; subst h'; repeat split; fin; try (rewrite <- EK; reflexivity).
Qed.

(* ------------------------------------------------------------------------------------------ *)
(* frame lemmas *)

Lemma chain_frame nx pv nx' pv' L :
  gchain nx pv L -> (forall x, In x L -> nx' x = nx x /\ pv' x = pv x) -> gchain nx' pv' L.
Proof.
  intros H Fr i x Hx. destruct (Fr x (nth_error_In _ _ Hx)) as [-> ->]. exact (H i x Hx).
Qed.

Lemma kid_rid_in_pres c ks : In c ks -> In (rid c) (pres ks).
Proof. intros H. apply in_pres. exists c. split; [exact H | apply rid_in_pre]. Qed.

Lemma map_rid_incl_pres ks : incl (map rid ks) (pres ks).
Proof. intros x Hx. apply in_map_iff in Hx. destruct Hx as (c & <- & Hc). now apply kid_rid_in_pres. Qed.

Lemma NoDup_map_rid ks : NoDup (pres ks) -> NoDup (map rid ks).
Proof.
  induction ks as [|k ks IH]; intros ND; [constructor|]. rewrite pres_cons in ND. cbn [map].
  constructor.
  - intros Hin. apply map_rid_incl_pres in Hin. eapply (NoDup_app_disj _ _ (rid k) ND); [apply rid_in_pre | exact Hin].
  - apply IH. now apply NoDup_app_r in ND.
Qed.

Lemma subterms_trans : forall t u v, In u (subterms t) -> In v (subterms u) -> In v (subterms t).
Proof.
  induction t as [i ks IH] using tree_ind'. intros u v Hu Hv. rewrite Forall_forall in IH.
  cbn [subterms] in Hu. destruct Hu as [<-|Hu]; [exact Hv|].
  apply in_flat_map in Hu. destruct Hu as (k & Hk & Hu). cbn [subterms]. right. apply in_flat_map.
  exists k. split; [exact Hk|]. eapply IH; eauto.
Qed.

Lemma subterms_rid_in : forall t u, In u (subterms t) -> In (rid u) (pre t).
Proof. intros t u Hu. eapply subterms_pre_incl; [exact Hu | apply rid_in_pre]. Qed.

Lemma subterms_kid_rid_in t u c : In u (subterms t) -> In c (tkids u) -> In (rid c) (pre t).
Proof.
  intros Hu Hc. eapply subterms_pre_incl; [exact Hu|]. rewrite pre_rid. right. now apply kid_rid_in_pres.
Qed.

(* one node, possibly with re-built children carrying the same ids *)
Lemma node_ok_frame h h' u u' :
  node_ok h u -> rid u' = rid u -> map rid (tkids u') = map rid (tkids u) ->
  kids (h' (rid u)) = kids (h (rid u)) -> kind (h' (rid u)) = kind (h (rid u)) ->
  (forall x, In x (map rid (tkids u)) ->
     par (h' x) = par (h x) /\ ns (h' x) = ns (h x) /\ ps (h' x) = ps (h x)) ->
  node_ok h' u'.
Proof.
  intros (Hk & Hs & Hp & Hl) Er Em Ek Ed Fr. unfold node_ok. rewrite Er, Em. split; [|split; [|split]].
  - now rewrite Ek.
  - apply (chain_frame (fun x => ns (h x)) (fun x => ps (h x)) (fun x => ns (h' x)) (fun x => ps (h' x)) _ Hs).
    cbv beta. intros x Hx. destruct (Fr x Hx) as (_ & -> & ->). now split.
  - intros c' Hc'. assert (Hin : In (rid c') (map rid (tkids u))) by (rewrite <- Em; now apply in_map).
    destruct (Fr _ Hin) as (-> & _ & _). apply in_map_iff in Hin. destruct Hin as (c & Ec & Hc).
    rewrite <- Ec. now apply Hp.
  - intros Ht. rewrite (is_tag_ext h h') in Ht by exact Ed. specialize (Hl Ht). rewrite Hl in Em.
    now apply map_eq_nil in Em.
Qed.

Definition same_links (h h' : heap) (x : nat) : Prop :=
  kids (h' x) = kids (h x) /\ kind (h' x) = kind (h x) /\ par (h' x) = par (h x) /\
  ps (h' x) = ps (h x) /\ ns (h' x) = ns (h x) /\ pe (h' x) = pe (h x) /\ ne (h' x) = ne (h x).

Lemma rep1_frame h h' T b : (forall x, In x (pre T) -> same_links h h' x) -> rep1 h T b -> rep1 h' T b.
Proof.
  intros Fr (Hok & Hpar & Hps & Hns & Hch).
  destruct (Fr _ (rid_in_pre T)) as (Ek & Ed & Epar & Eps & Ens & Epe & Ene).
  unfold rep1. rewrite Epar, Eps, Ens. split; [|split; [|split; [|split]]]; try assumption.
  - intros u Hu. apply (node_ok_frame h h' u u (Hok u Hu) eq_refl eq_refl).
    + apply (Fr _ (subterms_rid_in _ _ Hu)).
    + apply (Fr _ (subterms_rid_in _ _ Hu)).
    + intros x Hx. apply in_map_iff in Hx. destruct Hx as (c & <- & Hc).
      destruct (Fr _ (subterms_kid_rid_in _ _ _ Hu Hc)) as (_ & _ & -> & -> & -> & _). auto.
  - destruct b.
    + apply (chain_frame (fun x => ne (h x)) (fun x => pe (h x)) (fun x => ne (h' x)) (fun x => pe (h' x)) _ Hch).
      cbv beta. intros x Hx.
      destruct (Fr x Hx) as (_ & _ & _ & _ & _ & -> & ->). now split.
    + destruct Hch as (Hch & Hne & Hpe). rewrite Epe, Ene. split; [|split]; try assumption.
      apply (chain_frame (fun x => ne (h x)) (fun x => pe (h x)) (fun x => ne (h' x)) (fun x => pe (h' x)) _ Hch).
      cbv beta. intros x Hx.
      assert (Hx' : In x (pre T)) by (rewrite pre_rid in Hx |- *; now right).
      destruct (Fr x Hx') as (_ & _ & _ & _ & _ & -> & ->). now split.
Qed.

(* list facts for the split at [pos] *)
Lemma pred_at_firstn (K : list nat) pos :
  pos <= length K -> pred_at K pos = pred_at (firstn pos K) (length (firstn pos K)).
Proof.
  intros H. rewrite firstn_length_le by exact H. destruct pos as [|pm]; [reflexivity|]. cbn [pred_at].
  rewrite <- (firstn_skipn (S pm) K) at 1. rewrite nth_error_app1; [reflexivity|].
  rewrite firstn_length_le by exact H. lia.
Qed.

Lemma nth_error_skipn0 {X} (K : list X) pos : nth_error K pos = nth_error (skipn pos K) 0.
Proof. revert K. induction pos as [|p IH]; intros [|x K]; cbn; try reflexivity. apply IH. Qed.

Lemma firstn_S_nth {X} (l : list X) n x : nth_error l n = Some x -> firstn (S n) l = firstn n l ++ [x].
Proof.
  revert l. induction n as [|n IH]; intros [|y l] H; try discriminate.
  - cbn in H. inversion H. reflexivity.
  - cbn in H. rewrite !firstn_cons. rewrite (IH l H). reflexivity.
Qed.

Lemma map_insert_at {X Y} (f : X -> Y) i x l : map f (insert_at i x l) = insert_at i (f x) (map f l).
Proof. revert i. induction l as [|y l IH]; intros [|i]; cbn; try reflexivity. now rewrite IH. Qed.

Lemma perm_splice {X} (A B M R : list X) : Permutation ((A ++ B) ++ M ++ R) ((A ++ M ++ B) ++ R).
Proof.
  rewrite <- !app_assoc. apply Permutation_app_head. rewrite !app_assoc. apply Permutation_app_tail.
  apply Permutation_app_comm.
Qed.

Lemma NoDup_insert_mid {X} (A B : list X) x : NoDup (A ++ B) -> ~ In x (A ++ B) -> NoDup (A ++ x :: B).
Proof.
  intros ND Hn. eapply Permutation_NoDup; [apply Permutation_middle|]. now constructor.
Qed.

Lemma pred_at_In (L : list nat) n x : pred_at L n = Some x -> In x L.
Proof. destruct n; [discriminate|]. cbn. apply nth_error_In. Qed.

Lemma pred_at_last_nth (L : list nat) k x : length L = S k -> pred_at L (length L) = Some x -> nth_error L k = Some x.
Proof. intros -> H. exact H. Qed.

(* the element after which the inserted pre-order starts *)
Lemma preve_last h fuel p ks A0 pos :
  (forall k, In k ks -> forall u, In u (subterms k) -> node_ok h u) ->
  pos <= length ks -> length (pres ks) <= fuel ->
  let A := A0 ++ p :: pres (firstn pos ks) in
  pred_at A (length A) =
    Some (match pos with 0 => p | S pm => walk_last fuel h (nth pm (map rid ks) 0) end).
Proof.
  intros Hok Hpos Hfuel A. subst A. destruct pos as [|pm].
  - cbn [firstn pres flat_map]. change (A0 ++ [p]) with (A0 ++ [p]). apply pred_at_last.
  - destruct (nth_error ks pm) as [kp|] eqn:Ekp; [|apply nth_error_None in Ekp; lia].
    rewrite (firstn_S_nth _ _ _ Ekp), pres_app. cbn [pres flat_map]. rewrite app_nil_r.
    change (A0 ++ p :: pres (firstn pm ks) ++ pre kp) with (A0 ++ (p :: pres (firstn pm ks)) ++ pre kp).
    rewrite app_assoc. rewrite pred_at_app_last by apply pre_not_nil.
    assert (Hnth : nth pm (map rid ks) 0 = rid kp).
    { apply nth_error_nth. now apply map_nth_error. }
    rewrite Hnth. pose proof (nth_error_In _ _ Ekp) as Hin. apply walk_last_tree.
    + now apply Hok.
    + apply in_split in Hin. destruct Hin as (l1 & l2 & ->). rewrite pres_app, pres_cons, !app_length in Hfuel. lia.
Qed.

(* ------------------------------------------------------------------------------------------ *)
(* MAIN THEOREM *)
Theorem insert1_rep : forall F Tp bp Tc h self position fuel h',
  rep ((Tp, bp) :: (Tc, true) :: F) h ->
  In self (pre Tp) -> is_tag h self = true ->
  length (pre Tp) + length (pre Tc) <= fuel ->
  insert1 fuel h self position (rid Tc) = Some h' ->
  let pos := Nat.min position (length (kids (h self))) in
  rep ((insert_sub self pos Tc Tp, bp || (Nat.eqb self (rid Tp) && Nat.eqb pos 0)) :: F) h'.
Proof.
  intros F Tp bp Tc h self position fuel h' [ND HF] Hself Htag Hfuel Hins pos.
  unfold fids in ND. cbn [flat_map fst] in ND. fold (fids F) in ND.
  inversion HF as [|? ? R1p HF']; subst. inversion HF' as [|? ? R1c RF]; subst.
  cbn [fst snd] in R1p, R1c. clear HF HF'.
  assert (NDp : NoDup (pre Tp)) by (now apply NoDup_app_l in ND).
  assert (NDc : NoDup (pre Tc)) by (apply NoDup_app_r in ND; now apply NoDup_app_l in ND).
  assert (Dpc : forall x, In x (pre Tp) -> In x (pre Tc) -> False).
  { intros x H1 H2. eapply (NoDup_app_disj _ _ x ND); [exact H1 | apply in_or_app; now left]. }
  assert (DpF : forall x, In x (pre Tp) -> In x (fids F) -> False).
  { intros x H1 H2. eapply (NoDup_app_disj _ _ x ND); [exact H1 | apply in_or_app; now right]. }
  assert (DcF : forall x, In x (pre Tc) -> In x (fids F) -> False).
  { intros x H1 H2. apply NoDup_app_r in ND. eapply (NoDup_app_disj _ _ x ND); eauto. }
  destruct (locate self Tp NDp Hself) as (A0 & ks & B0 & d & Epre & HS & Hinsp & Hroot & Hd & Hpns).
  destruct R1p as (Hokp & Hparp & Hpsp & Hnsp & Hchp).
  destruct R1c as (Hokc & Hparc & Hpsc & Hnsc & Hchc).
  destruct (Hokp _ HS) as (HK & HschS & HparS & _). cbn [rid tkids] in HK, HschS, HparS.
  remember (rid Tc) as nc eqn:Enc.
  assert (Hncc : In nc (pre Tc)) by (subst nc; apply rid_in_pre).
  assert (Hncself : nc <> self) by (intros E; apply (Dpc self Hself); now rewrite <- E).
  pose proof (insert1_fields fuel h self position nc h' Hncself Hparc Hins) as HFl.
  cbv zeta in HFl. subst pos. rewrite HK in HFl |- *.
  remember (Nat.min position (length (map rid ks))) as pos eqn:Epos.
  assert (Hpos : pos <= length ks) by (rewrite map_length in Epos; lia). clear Epos.
  remember (match pos with 0 => self | S pm => walk_last fuel h (nth pm (map rid ks) 0) end) as preve eqn:Epreve.
  remember (walk_last fuel h nc) as last eqn:Elast.
  destruct HFl as (nexte & Hnexte & Fkind & Fkids & Fkids' & Fparnc & Fpar & Fnsnc & Fnsa & Fns & Fpsnc & Fpsb & Fps
                   & Fnelast & Fnepreve & Fne & Fpenc & Fpeb & Fpe).
  (* the split of the children of self *)
  pose proof (firstn_skipn pos ks) as Eks.
  remember (firstn pos ks) as ksa eqn:Eksa. remember (skipn pos ks) as ksb eqn:Eksb.
  assert (Hlena : length ksa = pos) by (subst ksa; now apply firstn_length_le).
  remember (A0 ++ self :: pres ksa) as A eqn:EA. remember (pres ksb ++ B0) as B eqn:EB.
  assert (EpreAB : pre Tp = A ++ B).
  { rewrite Epre, EA, EB. cbn [pre]. fold (pres ks). rewrite <- Eks, pres_app. norm_app. reflexivity. }
  assert (EpreT' : pre (insert_sub self pos Tc Tp) = A ++ pre Tc ++ B).
  { rewrite Hinsp, EA, EB. cbn [pre]. fold (pres (insert_at pos Tc ks)).
    rewrite insert_at_split, <- Eksa, <- Eksb, pres_app, pres_cons. norm_app. reflexivity. }
  assert (Hoksub : forall k, In k ks -> forall u, In u (subterms k) -> node_ok h u).
  { intros k Hk u Hu. apply Hokp. eapply subterms_trans; [exact HS|]. eapply subterms_kid; [|exact Hu]. exact Hk. }
  assert (HlenTp : length (pre Tp) = length A0 + S (length (pres ks)) + length B0).
  { rewrite Epre. cbn [pre]. fold (pres ks). rewrite !app_length. cbn [length]. lia. }
  assert (Hpreve : pred_at A (length A) = Some preve).
  { rewrite EA, Eksa, Epreve. apply preve_last; [exact Hoksub | exact Hpos | lia]. }
  assert (Hlast : pred_at (pre Tc) (length (pre Tc)) = Some last).
  { rewrite Elast, Enc. apply walk_last_tree; [exact Hokc | lia]. }
  assert (Hprevsib : pred_at (map rid ks) pos = pred_at (map rid ksa) (length (map rid ksa))).
  { rewrite Eksa, <- firstn_map. apply pred_at_firstn. now rewrite map_length. }
  assert (Hnextsib : nth_error (map rid ks) pos = nth_error (map rid ksb) 0).
  { rewrite Eksb, <- skipn_map. apply nth_error_skipn0. }
  assert (HinA : forall x, In x A -> In x (pre Tp)) by (intros x Hx; rewrite EpreAB; apply in_or_app; now left).
  assert (HinB : forall x, In x B -> In x (pre Tp)) by (intros x Hx; rewrite EpreAB; apply in_or_app; now right).
  assert (NDAB : NoDup (A ++ B)) by (now rewrite <- EpreAB).
  assert (HTp_nc : forall x, In x (pre Tp) -> x <> nc) by (intros x Hx ->; exact (Dpc _ Hx Hncc)).
  assert (HlastTc : In last (pre Tc)) by (eapply pred_at_In; exact Hlast).
  assert (HTp_last : forall x, In x (pre Tp) -> x <> last) by (intros x Hx ->; exact (Dpc _ Hx HlastTc)).
  assert (HpreveA : In preve A) by (eapply pred_at_In; exact Hpreve).
  assert (Hksa_in : forall c, In c ksa -> In c ks) by (intros c Hc; rewrite <- Eks; apply in_or_app; now left).
  assert (Hksb_in : forall c, In c ksb -> In c ks) by (intros c Hc; rewrite <- Eks; apply in_or_app; now right).
  assert (HinS : forall c, In c ks -> In (rid c) (pre Tp)).
  { intros c Hc. eapply (subterms_kid_rid_in Tp (Node self ks) c HS). exact Hc. }
  assert (Hpsib : forall a, pred_at (map rid ks) pos = Some a ->
                   In a (pres ksa) /\ par (h a) = Some self /\ In a (pre Tp)).
  { intros a Ha. rewrite Hprevsib in Ha. apply pred_at_In in Ha. apply in_map_iff in Ha.
    destruct Ha as (c & <- & Hc). split; [now apply kid_rid_in_pres|]. split; [apply HparS | apply HinS]; auto. }
  assert (Hnsib : forall b, nth_error (map rid ks) pos = Some b ->
                   nth_error B 0 = Some b /\ par (h b) = Some self /\ In b (pre Tp)).
  { intros b Hb. rewrite Hnextsib in Hb. destruct ksb as [|kb ksb']; [discriminate|]. cbn in Hb.
    inversion Hb; subst b. split; [|split; [apply HparS | apply HinS]; apply Hksb_in; now left].
    rewrite EB, pres_cons, (pre_rid kb). reflexivity. }
  assert (HnexteB : nexte = nth_error B 0).
  { destruct (nth_error (map rid ks) pos) as [x|] eqn:Enx.
    - rewrite Hnexte. symmetry. now apply Hnsib.
    - rewrite Hnextsib in Enx. destruct ksb as [|kb ksb']; [|discriminate]. cbn [pres flat_map app] in EB.
      destruct Hnexte as (hX & -> & HX).
      assert (Hagree : forall y, In y (A0 ++ [self]) -> ns (hX y) = ns (h y) /\ par (hX y) = par (h y)).
      { intros y Hy. assert (HyA : In y A).
        { rewrite EA. apply in_app_or in Hy. apply in_or_app. destruct Hy as [Hy|[<-|[]]]; [now left|right; now left]. }
        apply HX; [apply HTp_nc; auto|]. intros Hp. destruct (Hpsib _ Hp) as (Hya & _ & _).
        (* y occurs in A0 ++ [self] and among the descendants of self *)
        rewrite Epre in NDp. cbn [pre] in NDp. fold (pres ks) in NDp. rewrite <- Eks, pres_app in NDp.
        replace (A0 ++ (self :: pres ksa ++ pres []) ++ B0) with ((A0 ++ [self]) ++ pres ksa ++ pres [] ++ B0) in NDp
          by (norm_app; reflexivity).
        eapply (NoDup_app_disj _ _ y NDp); [exact Hy | apply in_or_app; now left]. }
      replace fuel with (d + (fuel - d)) by lia. rewrite (Hpns h Hokp hX Hagree). rewrite EB.
      destruct B0 as [|b B0']; [|reflexivity].
      assert (Hr : In (rid Tp) (A0 ++ [self])).
      { destruct Hroot as [(-> & -> & _)|(_ & A1 & ->)]; now left. }
      destruct (Hagree _ Hr) as [Ens Epar].
      destruct (fuel - d) as [|f]; [reflexivity|]. cbn [parents_next_sibling nth_error].
      now rewrite Ens, Hnsp, Epar, Hparp. }
  assert (Hnexte_in : forall x, nexte = Some x -> In x B).
  { intros x Hx. rewrite HnexteB in Hx. eapply nth_error_In; eauto. }
  assert (NDnew : NoDup ((A ++ pre Tc ++ B) ++ fids F)).
  { eapply Permutation_NoDup; [apply perm_splice|]. rewrite <- EpreAB. exact ND. }
  assert (NDks : NoDup (pres ks)).
  { rewrite Epre in NDp. apply NoDup_app_r in NDp. apply NoDup_app_l in NDp. cbn [pre] in NDp.
    now inversion NDp. }
  (* cells outside the two trees are untouched *)
  assert (Hframe : forall x, ~ In x (pre Tp) -> ~ In x (pre Tc) -> same_links h h' x).
  { intros x Hp Hc. unfold same_links.
    assert (x <> self) by (intros ->; auto).
    assert (x <> nc) by (intros ->; auto).
    assert (x <> last) by (intros ->; auto).
    assert (x <> preve) by (intros ->; apply Hp; apply HinA; exact HpreveA).
    assert (pred_at (map rid ks) pos <> Some x) by (intros Hx; apply Hp; apply (Hpsib _ Hx)).
    assert (nth_error (map rid ks) pos <> Some x) by (intros Hx; apply Hp; apply (Hnsib _ Hx)).
    assert (nexte <> Some x) by (intros Hx; apply Hp, HinB, Hnexte_in, Hx).
    repeat split; auto. }
  (* the element-chain splice, for the three shapes of the destination chain *)
  assert (Hsplice : forall Ax, NoDup (Ax ++ pre Tc ++ B) ->
            chainA (fun x => ne (h x)) (fun x => pe (h x)) Ax ->
            chainB (fun x => ne (h x)) (fun x => pe (h x)) B ->
            pred_at Ax (length Ax) = Some preve ->
            echain (Ax ++ pre Tc ++ B) h').
  { intros Ax NDx HAx HBx Hpx.
    assert (Hlen : length (pre Tc) = S (length (pre Tc) - 1)).
    { rewrite pre_rid. cbn [length]. lia. }
    apply (splice_ok (fun x => ne (h x)) (fun x => pe (h x)) (fun x => ne (h' x)) (fun x => pe (h' x))
             Ax (pre Tc) B nc last (length (pre Tc) - 1)); cbv beta; try assumption.
    - rewrite pre_rid, Enc. reflexivity.
    - now apply pred_at_last_nth.
    - rewrite Hpx. intros a [= <-]. apply Fnepreve. apply HTp_last, HinA, HpreveA.
    - rewrite Hpx. apply Fpenc. intros Hx. apply (HTp_nc nc); [apply HinB, Hnexte_in, Hx | reflexivity].
    - now rewrite Fnelast.
    - intros b Hb. apply Fpeb. now rewrite HnexteB.
    - rewrite Hpx. intros x Hx1 Hx2. apply Fne; [exact Hx2 | congruence].
    - intros x Hx1 Hx2. apply Fpe; [exact Hx1 | now rewrite HnexteB]. }
  split.
  - unfold fids. cbn [flat_map fst]. fold (fids F). now rewrite EpreT'.
  - constructor.
    2:{ rewrite Forall_forall in RF |- *. intros [T b] HT. cbn [fst snd].
        apply (rep1_frame h h'); [|apply (RF _ HT)]. intros x Hx.
        assert (HxF : In x (fids F)) by (apply in_flat_map; exists (T, b); auto).
        apply Hframe; intros Hx'; [exact (DpF _ Hx' HxF) | exact (DcF _ Hx' HxF)]. }
    cbn [fst snd]. unfold rep1. rewrite insert_sub_rid. split; [|split; [|split; [|split]]].
    + (* every node *)
      intros u Hu. destruct (subterms_insert self pos Tc Tp NDp u Hu) as [Hc|(u0 & Hu0 & ->)].
      * destruct (Hokc u Hc) as (_ & _ & Hpu & _).
        apply (node_ok_frame h h' u u (Hokc u Hc) eq_refl eq_refl).
        -- apply Fkids'. intros E. apply (Dpc self Hself). rewrite <- E. now apply subterms_rid_in.
        -- apply Fkind.
        -- intros x Hx. apply in_map_iff in Hx. destruct Hx as (c & <- & Hcu).
           pose proof (subterms_kid_rid_in _ _ _ Hc Hcu) as HxTc.
           assert (Hxnc : rid c <> nc) by (intros E; specialize (Hpu c Hcu); congruence).
           split; [now apply Fpar|]. split.
           ++ apply Fns; [exact Hxnc|]. intros Hp. apply (Dpc (rid c)); [apply (Hpsib _ Hp) | exact HxTc].
           ++ apply Fps; [exact Hxnc|]. intros Hp. apply (Dpc (rid c)); [apply (Hnsib _ Hp) | exact HxTc].
      * destruct u0 as [j ks0]. destruct (Nat.eq_dec j self) as [->|Hj].
        -- rewrite insert_sub_Node_eq. destruct (Hokp _ Hu0) as (HK0 & _ & Hp0 & _). cbn [rid tkids] in HK0, Hp0.
           assert (Emap : map rid ks0 = map rid ks) by congruence.
           unfold node_ok. cbn [rid tkids]. rewrite map_insert_at, Emap, <- Enc. split; [|split; [|split]].
           ++ exact Fkids.
           ++ rewrite insert_at_split, firstn_map, skipn_map, <- Eksa, <- Eksb.
              change (nc :: map rid ksb) with ([nc] ++ map rid ksb).
              assert (Hsp : map rid ks = map rid ksa ++ map rid ksb) by (now rewrite <- map_app, Eks).
              unfold schain in HschS. rewrite Hsp in HschS. apply gchain_split in HschS. destruct HschS as [HcA HcB].
              apply (splice_ok (fun x => ns (h x)) (fun x => ps (h x)) (fun x => ns (h' x)) (fun x => ps (h' x))
                       (map rid ksa) [nc] (map rid ksb) nc nc 0); cbv beta; try assumption; try reflexivity.
              ** apply NoDup_insert_mid; rewrite <- Hsp; [now apply NoDup_map_rid|].
                 intros Hin. apply (HTp_nc nc); [|reflexivity]. apply in_map_iff in Hin.
                 destruct Hin as (c & <- & Hcin). now apply HinS.
              ** intros i x Hx. destruct i as [|i]; [|destruct i; discriminate]. cbn in Hx. inversion Hx; subst x.
                 split; [exact Hnsc | exact Hpsc].
              ** rewrite <- Hprevsib. intros a Ha. apply Fnsa; [exact Ha|]. apply HTp_nc. apply (Hpsib _ Ha).
              ** rewrite <- Hprevsib. apply Fpsnc. intros Hx. apply (HTp_nc nc); [apply (Hnsib _ Hx) | reflexivity].
              ** now rewrite <- Hnextsib.
              ** rewrite <- Hnextsib. exact Fpsb.
              ** rewrite <- Hprevsib. intros x Hx1 Hx2. now apply Fns.
              ** rewrite <- Hnextsib. intros x Hx1 Hx2. now apply Fps.
           ++ intros c Hc. rewrite insert_at_split in Hc. apply in_app_or in Hc.
              assert (Hc0 : In c ks0 -> par (h' (rid c)) = Some self).
              { intros Hin. rewrite Fpar; [now apply Hp0|]. apply HTp_nc.
                apply (subterms_kid_rid_in Tp (Node self ks0) c Hu0 Hin). }
              destruct Hc as [Hc|[<-|Hc]].
              ** apply Hc0. eapply firstn_In'; eauto.
              ** now rewrite <- Enc.
              ** apply Hc0. eapply skipn_In'; eauto.
           ++ intros Ht. rewrite (is_tag_ext h h') in Ht by apply Fkind. congruence.
        -- rewrite insert_sub_Node_neq by exact Hj. destruct (Hokp _ Hu0) as (_ & _ & Hp0 & _). cbn [rid tkids] in Hp0.
           apply (node_ok_frame h h' (Node j ks0) (Node j (map (insert_sub self pos Tc) ks0)) (Hokp _ Hu0)).
           ++ reflexivity.
           ++ cbn [tkids]. apply map_rid_insert_sub.
           ++ cbn [rid]. now apply Fkids'.
           ++ apply Fkind.
           ++ cbn [tkids]. intros x Hx. apply in_map_iff in Hx. destruct Hx as (c & <- & Hc).
              pose proof (Hp0 c Hc) as Hpc.
              assert (Hxnc : rid c <> nc).
              { apply HTp_nc. apply (subterms_kid_rid_in Tp (Node j ks0) c Hu0 Hc). }
              split; [now apply Fpar|]. split.
              ** apply Fns; [exact Hxnc|]. intros Hp. destruct (Hpsib _ Hp) as (_ & Hp' & _). congruence.
              ** apply Fps; [exact Hxnc|]. intros Hp. destruct (Hnsib _ Hp) as (_ & Hp' & _). congruence.
    + rewrite Fpar; [exact Hparp|]. apply HTp_nc, rid_in_pre.
    + rewrite Fps; [exact Hpsp | apply HTp_nc, rid_in_pre |].
      intros Hp. destruct (Hnsib _ Hp) as (_ & Hp' & _). congruence.
    + rewrite Fns; [exact Hnsp | apply HTp_nc, rid_in_pre |].
      intros Hp. destruct (Hpsib _ Hp) as (_ & Hp' & _). congruence.
    + rewrite EpreT'.
      assert (NDx : NoDup (A ++ pre Tc ++ B)) by (now apply NoDup_app_l in NDnew).
      destruct bp; cbn [orb].
      * unfold echain in Hchp. rewrite EpreAB in Hchp. apply gchain_split in Hchp. destruct Hchp as [HcA HcB].
        now apply Hsplice.
      * destruct Hchp as (Hch & Hnep & Hpep).
        assert (Hout : forall A', A = rid Tp :: A' -> A' <> [] ->
                  echain (tl ((rid Tp :: A') ++ pre Tc ++ B)) h' /\
                  ne (h' (rid Tp)) = None /\ pe (h' (rid Tp)) = None).
        { intros A' EA' HA'. cbn [app tl].
          assert (Etl : tl (pre Tp) = A' ++ B) by (rewrite EpreAB, EA'; reflexivity).
          rewrite Etl in Hch. apply gchain_split in Hch. destruct Hch as [HcA HcB].
          assert (Hp' : pred_at A' (length A') = Some preve).
          { rewrite <- Hpreve, EA'. change (rid Tp :: A') with ([rid Tp] ++ A'). symmetry.
            now apply pred_at_app_last. }
          assert (Hnotin : ~ In (rid Tp) (A' ++ B)).
          { rewrite EA' in NDAB. cbn [app] in NDAB. now inversion NDAB. }
          split; [|split].
          - apply Hsplice; auto. rewrite EA' in NDx. cbn [app] in NDx. now inversion NDx.
          - rewrite Fne; [exact Hnep | apply HTp_last, rid_in_pre |]. intros E. apply Hnotin.
            apply in_or_app. left. rewrite E. eapply pred_at_In; exact Hp'.
          - rewrite Fpe; [exact Hpep | apply HTp_nc, rid_in_pre |]. intros Hx. apply Hnotin.
            apply in_or_app. right. now apply Hnexte_in. }
        destruct (Nat.eqb_spec self (rid Tp)) as [Eself|Nself]; [destruct (Nat.eqb_spec pos 0) as [Epos|Npos]|];
          cbn [andb].
        -- (* at position 0 under the unlinked root: the root joins the chain *)
           destruct Hroot as [(_ & EA0 & EB0)|(Hn & _)]; [|congruence].
           assert (Eksa0 : ksa = []) by (rewrite Eksa, Epos; reflexivity).
           rewrite Eksa0, EA0 in EA. cbn [pres flat_map app] in EA.
           assert (Etl : tl (pre Tp) = B) by (rewrite EpreAB, EA; reflexivity).
           rewrite Etl in Hch. apply Hsplice; try assumption.
           ++ rewrite EA. intros i x Hx. destruct i as [|i]; [|destruct i; discriminate]. cbn in Hx.
              inversion Hx; subst x. split; [cbn; lia|]. cbn [pred_at]. now rewrite Eself.
           ++ now apply gchain_chainB.
        -- (* the root stays outside *)
           destruct Hroot as [(_ & EA0 & _)|(Hn & _)]; [|congruence]. rewrite EA0 in EA. cbn [app] in EA.
           assert (HA' : pres ksa <> []).
           { destruct ksa as [|ka ksa']; [cbn in Hlena; lia|]. rewrite pres_cons, (pre_rid ka). discriminate. }
           rewrite Eself in EA. rewrite EA at 1. apply Hout; assumption.
        -- destruct Hroot as [(Hn & _)|(_ & A1 & EA0)]; [congruence|]. rewrite EA0 in EA. cbn [app] in EA.
           rewrite EA at 1. apply Hout; [exact EA | destruct A1; discriminate].
Qed.
Print Assumptions insert1_rep.
