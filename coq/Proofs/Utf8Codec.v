(* C08 — UTF-8 (and utf-8-sig) as a concrete instance of the codec parameter: the hypotheses of the
   codec-parametric theorems hold, with a decoder defined and proved here. *)
From Coq Require Import List NArith Bool Arith Lia ZArith.
From BS Require Import Base.Sexp Base.Types Base.Reader Spec.Utf8 Model.Encode Proofs.EncodeProofs.
Import ListNotations.
Open Scope N_scope.

Ltac Zify.zify_post_hook ::= Z.to_euclidean_division_equations.

Definition utf8_codec (c : N) : option (list N) := if scalar c then Some (utf8_enc c) else None.

Definition is_cont (b : N) : bool := (128 <=? b) && (b <=? 191).

(* a strict UTF-8 decoder (rejects overlong forms, surrogates, values above U+10FFFF, stray bytes) *)
Fixpoint utf8_dec (bs : list N) : option str :=
  match bs with
  | [] => Some []
  | b0 :: r0 =>
      if b0 <? 128 then option_map (cons b0) (utf8_dec r0)
      else if (194 <=? b0) && (b0 <=? 223) then
        match r0 with
        | b1 :: r1 =>
            if is_cont b1 then option_map (cons ((b0 - 192) * 64 + (b1 - 128))) (utf8_dec r1) else None
        | _ => None
        end
      else if (224 <=? b0) && (b0 <=? 239) then
        match r0 with
        | b1 :: b2 :: r2 =>
            if is_cont b1 && is_cont b2 then
              let c := (b0 - 224) * 4096 + (b1 - 128) * 64 + (b2 - 128) in
              if scalar c && (2048 <=? c) then option_map (cons c) (utf8_dec r2) else None
            else None
        | _ => None
        end
      else if (240 <=? b0) && (b0 <=? 244) then
        match r0 with
        | b1 :: b2 :: b3 :: r3 =>
            if is_cont b1 && is_cont b2 && is_cont b3 then
              let c := (b0 - 240) * 262144 + (b1 - 128) * 4096 + (b2 - 128) * 64 + (b3 - 128) in
              if (65536 <=? c) && (c <=? 1114111) then option_map (cons c) (utf8_dec r3) else None
            else None
        | _ => None
        end
      else None
  end.

Lemma is_cont_128 d : d < 64 -> is_cont (128 + d) = true.
Proof. intros H. unfold is_cont. apply andb_true_intro; split; apply N.leb_le; lia. Qed.

Lemma utf8_dec_char c rest : scalar c = true ->
  utf8_dec (utf8_enc c ++ rest) = option_map (cons c) (utf8_dec rest).
Proof.
  intros Hs. unfold utf8_enc.
  destruct (c <? 128) eqn:E1.
  { cbn [app utf8_dec]. now rewrite E1. }
  apply N.ltb_ge in E1.
  destruct (c <? 2048) eqn:E2.
  { apply N.ltb_lt in E2. cbn [app utf8_dec].
    assert ((192 + c / 64 <? 128) = false) as -> by (apply N.ltb_ge; lia).
    assert ((194 <=? 192 + c / 64) && (192 + c / 64 <=? 223) = true) as ->
      by (apply andb_true_intro; split; apply N.leb_le; lia).
    rewrite is_cont_128 by (apply N.mod_lt; lia).
    assert ((192 + c / 64 - 192) * 64 + (128 + c mod 64 - 128) = c) as -> by lia. reflexivity. }
  apply N.ltb_ge in E2.
  destruct (c <? 65536) eqn:E3.
  { apply N.ltb_lt in E3. cbn [app utf8_dec].
    assert ((224 + c / 4096 <? 128) = false) as -> by (apply N.ltb_ge; lia).
    assert ((194 <=? 224 + c / 4096) && (224 + c / 4096 <=? 223) = false) as ->
      by (apply andb_false_iff; right; apply N.leb_gt; lia).
    assert ((224 <=? 224 + c / 4096) && (224 + c / 4096 <=? 239) = true) as ->
      by (apply andb_true_intro; split; apply N.leb_le; lia).
    rewrite !is_cont_128 by (apply N.mod_lt; lia). cbn [andb].
    assert ((224 + c / 4096 - 224) * 4096 + (128 + (c / 64) mod 64 - 128) * 64 + (128 + c mod 64 - 128) = c) as -> by lia.
    rewrite Hs. assert ((2048 <=? c) = true) as -> by (apply N.leb_le; lia). reflexivity. }
  apply N.ltb_ge in E3.
  assert (Hmax : c <= 1114111).
  { unfold scalar in Hs. apply orb_prop in Hs as [H|H]; [apply N.ltb_lt in H; lia|].
    apply andb_prop in H as [_ H]. now apply N.leb_le in H. }
  cbn [app utf8_dec].
  assert ((240 + c / 262144 <? 128) = false) as -> by (apply N.ltb_ge; lia).
  assert ((194 <=? 240 + c / 262144) && (240 + c / 262144 <=? 223) = false) as ->
    by (apply andb_false_iff; right; apply N.leb_gt; lia).
  assert ((224 <=? 240 + c / 262144) && (240 + c / 262144 <=? 239) = false) as ->
    by (apply andb_false_iff; right; apply N.leb_gt; lia).
  assert ((240 <=? 240 + c / 262144) && (240 + c / 262144 <=? 244) = true) as ->
    by (apply andb_true_intro; split; apply N.leb_le; lia).
  rewrite !is_cont_128 by (apply N.mod_lt; lia). cbn [andb].
  assert ((240 + c / 262144 - 240) * 262144 + (128 + (c / 4096) mod 64 - 128) * 4096 +
          (128 + (c / 64) mod 64 - 128) * 64 + (128 + c mod 64 - 128) = c) as -> by lia.
  assert ((65536 <=? c) && (c <=? 1114111) = true) as -> by (apply andb_true_intro; split; apply N.leb_le; lia).
  reflexivity.
Qed.

(* the decoder inverts strict encoding: the hypothesis of C08_decodes_in_target *)
Theorem utf8_dec_ok : forall u b, enc_strict utf8_codec u = Some b -> utf8_dec ([] ++ b) = Some u.
Proof.
  induction u as [|c u IH]; intros b; cbn [enc_strict app]; [intros [= <-]; reflexivity|].
  unfold utf8_codec at 1. destruct (scalar c) eqn:Hs; [|discriminate].
  destruct (enc_strict utf8_codec u) as [r|]; [|discriminate]. intros [= <-].
  rewrite utf8_dec_char by exact Hs. cbn [app] in IH. now rewrite (IH r eq_refl).
Qed.

(* utf-8-sig: the codec writes EF BB BF first and the decoder drops it *)
Definition utf8_bom : list N := [239; 187; 191].
Definition utf8_sig_dec (bs : list N) : option str :=
  match bs with
  | 239 :: 187 :: 191 :: r => utf8_dec r
  | _ => utf8_dec bs
  end.
Theorem utf8_sig_dec_ok : forall u b, enc_strict utf8_codec u = Some b -> utf8_sig_dec (utf8_bom ++ b) = Some u.
Proof. intros u b H. cbn. exact (utf8_dec_ok u b H). Qed.

Lemma utf8_ascii_ok : ascii_ok utf8_codec.
Proof.
  intros c Hc. unfold encodable, utf8_codec, scalar.
  assert ((c <? 55296) = true) as -> by (apply N.ltb_lt; lia). reflexivity.
Qed.

Lemma utf8_encodable_scalar c : encodable utf8_codec c = scalar c.
Proof. unfold encodable, utf8_codec. now destruct (scalar c). Qed.

(* end to end, no hypothesis about the codec left: every text of Unicode scalar values (C1 controls and
   noncharacters included — UTF-8 represents them, so no reference is involved) *)
Theorem utf8_roundtrip bom dec t :
  (bom = [] /\ dec = utf8_dec) \/ (bom = utf8_bom /\ dec = utf8_sig_dec) ->
  forallb scalar t = true ->
  exists b, str_encode utf8_codec bom XmlCharRef (subst_xml t) = Some b /\
            dec b = Some (subst_xml t) /\
            read_text (subst_xml t) = t.
Proof.
  intros Hc Ht.
  destruct (encode_total utf8_codec bom utf8_ascii_ok (subst_xml t)) as [b Hb]. exists b. split; [exact Hb|].
  assert (Hid : xcr_text utf8_codec (subst_xml t) = subst_xml t).
  { apply xcr_text_id. clear Hb. induction t as [|c t IH]; [reflexivity|].
    cbn [forallb] in Ht. apply andb_prop in Ht as [Hc1 Ht]. rewrite subst_xml_cons, forallb_app, (IH Ht), andb_true_r.
    unfold xml_block. destruct (c =? 60); [reflexivity|]. destruct (c =? 62); [reflexivity|].
    destruct (c =? 38); [reflexivity|]. cbn [forallb]. now rewrite utf8_encodable_scalar, Hc1. }
  split.
  - rewrite <- Hid at 1. destruct Hc as [[-> ->] | [-> ->]].
    + exact (decodes_in_target utf8_codec [] utf8_dec utf8_dec_ok XmlCharRef _ _ Hb).
    + exact (decodes_in_target utf8_codec utf8_bom utf8_sig_dec utf8_sig_dec_ok XmlCharRef _ _ Hb).
  - rewrite <- Hid. apply lossless_text_any_codec; [exact utf8_ascii_ok|].
    intros c Hin Hu. exfalso. rewrite utf8_encodable_scalar in Hu.
    rewrite forallb_forall in Ht. rewrite (Ht c Hin) in Hu. discriminate.
Qed.
