(* C01 — extract() preserves the representation relation [rep] of Spec/Tree.v.
   Structure of the file:
     1. lists, doubly linked chains in index form, un-splicing of a segment
     2. rose trees: shallow view of the subterms, what [remove] does (one-hole contexts)
     3. the heap: field-by-field description of [extract] once its reads are resolved
     4. assembly: rep_perm, rep_ext, extract_rep, extract_root_rep *)
From Coq Require Import List Arith Bool Lia Permutation.
From BS Require Import Base.Sexp Model.Heap Spec.Tree Proofs.HeapBasics.
Import ListNotations.

(* ------------------------------------------------------------------ *)
(* 1. lists and chains                                                *)
(* ------------------------------------------------------------------ *)

Lemma NoDup_app_inv {X} (l1 l2 : list X) :
  NoDup (l1 ++ l2) -> NoDup l1 /\ NoDup l2 /\ (forall a, In a l1 -> In a l2 -> False).
Proof.
  induction l1 as [|a l1 IH]; cbn; intros H.
  - repeat split; [constructor | exact H | tauto].
  - inversion H as [|? ? Hn Hd]; subst. destruct (IH Hd) as (H1 & H2 & H3).
    repeat split; [constructor; [rewrite in_app_iff in Hn; tauto | exact H1] | exact H2 |].
    intros c [->|Hc] Hc2; [apply Hn; rewrite in_app_iff; tauto | eauto].
Qed.

Lemma nth_inj (L : list nat) i j x :
  NoDup L -> nth_error L i = Some x -> nth_error L j = Some x -> i = j.
Proof.
  intros ND Hi Hj.
  apply (proj1 (NoDup_nth_error L) ND); [apply nth_error_Some; congruence | congruence].
Qed.

Lemma nth_error_last {X} (l : list X) d : l <> [] -> nth_error l (length l - 1) = Some (last l d).
Proof.
  intros H. destruct (exists_last H) as (l' & a & ->).
  rewrite last_last, app_length. cbn [length].
  rewrite nth_error_app2 by lia. replace (length l' + 1 - 1 - length l') with 0 by lia. reflexivity.
Qed.

Lemma last_app_ne {X} (l l' : list X) d d' : l' <> [] -> last (l ++ l') d = last l' d'.
Proof.
  intros H. destruct (exists_last H) as (l0 & a & ->).
  rewrite app_assoc, !last_last. reflexivity.
Qed.

Definition ptr := nat -> option nat.
Definition pupd (f : ptr) (x : nat) (v : option nat) : ptr := fun y => if Nat.eqb y x then v else f y.
Definition pupdo (f : ptr) (x : option nat) (v : option nat) : ptr :=
  match x with Some x => pupd f x v | None => f end.

Definition chain (L : list nat) (nx pv : ptr) : Prop :=
  forall i x, nth_error L i = Some x -> nx x = nth_error L (S i) /\ pv x = pred_at L i.

Definition unsplice (nx pv : ptr) (x last : nat) : ptr * ptr :=
  let nxt := nx last in
  let prv := pv x in
  let nx1 := pupdo nx prv nxt in
  let pv1 := pupdo pv nxt prv in
  (pupd nx1 last None, pupd pv1 x None).

Lemma pupd_eq f x v : pupd f x v x = v.
Proof. unfold pupd. now rewrite Nat.eqb_refl. Qed.
Lemma pupd_ne f x v y : y <> x -> pupd f x v y = f y.
Proof. unfold pupd. intros H. destruct (Nat.eqb_spec y x); congruence. Qed.

Lemma nth_app3_A (A M B : list nat) i : i < length A -> nth_error (A ++ M ++ B) i = nth_error A i.
Proof. intros. now rewrite nth_error_app1. Qed.
Lemma nth_app3_M (A M B : list nat) i :
  i < length M -> nth_error (A ++ M ++ B) (length A + i) = nth_error M i.
Proof.
  intros. rewrite nth_error_app2 by lia.
  replace (length A + i - length A) with i by lia. now rewrite nth_error_app1.
Qed.
Lemma nth_app3_B (A M B : list nat) i :
  nth_error (A ++ M ++ B) (length A + length M + i) = nth_error B i.
Proof. rewrite nth_error_app2 by lia. rewrite nth_error_app2 by lia. f_equal. lia. Qed.

Lemma chain_ext L nx pv nx' pv' :
  (forall y, nx' y = nx y) -> (forall y, pv' y = pv y) -> chain L nx pv -> chain L nx' pv'.
Proof. intros H1 H2 C i x Hx. rewrite H1, H2. now apply C. Qed.

(* the two reads at the borders of the segment M *)
Lemma chain_reads A M B nx pv x last k :
  nth_error M 0 = Some x -> length M = S k -> nth_error M k = Some last ->
  chain (A ++ M ++ B) nx pv ->
  nx last = nth_error B 0 /\ pv x = pred_at A (length A).
Proof.
  intros Hx HlenM Hlast CH.
  assert (Hx' : nth_error (A ++ M ++ B) (length A + 0) = Some x) by (rewrite nth_app3_M; [exact Hx | lia]).
  assert (Hl' : nth_error (A ++ M ++ B) (length A + k) = Some last) by (rewrite nth_app3_M; [exact Hlast | lia]).
  destruct (CH _ _ Hx') as [_ Hpex]. destruct (CH _ _ Hl') as [Hnel _]. split.
  - rewrite Hnel. replace (S (length A + k)) with (length A + length M + 0) by lia. apply nth_app3_B.
  - rewrite Hpex. rewrite Nat.add_0_r. destruct (length A) eqn:E; cbn [pred_at]; [reflexivity|].
    rewrite nth_app3_A by lia. reflexivity.
Qed.

Lemma pred_at_In A q : pred_at A (length A) = Some q -> In q A.
Proof. destruct (length A); cbn; [discriminate|]. apply nth_error_In. Qed.

(* what precedes the segment is not what follows it *)
Lemma chain_guard A M B q :
  NoDup (A ++ M ++ B) -> pred_at A (length A) = Some q -> nth_error B 0 <> Some q.
Proof.
  intros ND Hq Hr. apply pred_at_In in Hq. apply nth_error_In in Hr.
  destruct (NoDup_app_inv _ _ ND) as (_ & _ & D). apply (D q Hq). rewrite in_app_iff. tauto.
Qed.

Theorem unsplice_ok A M B nx pv x last k :
  NoDup (A ++ M ++ B) -> nth_error M 0 = Some x -> length M = S k -> nth_error M k = Some last ->
  chain (A ++ M ++ B) nx pv ->
  chain (A ++ B) (fst (unsplice nx pv x last)) (snd (unsplice nx pv x last))
  /\ chain M (fst (unsplice nx pv x last)) (snd (unsplice nx pv x last)).
Proof.
  intros ND Hx HlenM Hlast CH.
  destruct (chain_reads _ _ _ _ _ _ _ _ Hx HlenM Hlast CH) as [Hnxt Hprv].
  set (L := A ++ M ++ B) in *.
  assert (Hx' : nth_error L (length A + 0) = Some x) by (unfold L; rewrite nth_app3_M; [exact Hx | lia]).
  assert (Hl' : nth_error L (length A + k) = Some last) by (unfold L; rewrite nth_app3_M; [exact Hlast | lia]).
  unfold unsplice; cbn [fst snd]. rewrite Hnxt, Hprv.
  assert (posA : forall i y, nth_error A i = Some y -> nth_error L i = Some y).
  { intros i y H. unfold L. rewrite nth_app3_A; [exact H| apply nth_error_Some; congruence]. }
  assert (posM : forall i y, nth_error M i = Some y -> nth_error L (length A + i) = Some y).
  { intros i y H. unfold L. rewrite nth_app3_M; [exact H| apply nth_error_Some; congruence]. }
  assert (posB : forall i y, nth_error B i = Some y -> nth_error L (length A + length M + i) = Some y).
  { intros i y H. unfold L. now rewrite nth_app3_B. }
  split.
  - intros i y Hy.
    destruct (Nat.lt_ge_cases i (length A)) as [HiA|HiB].
    + rewrite nth_error_app1 in Hy by exact HiA.
      pose proof (posA _ _ Hy) as HyL. destruct (CH _ _ HyL) as [Hney Hpey].
      assert (y <> last) by (intros ->; pose proof (nth_inj _ _ _ _ ND HyL Hl'); lia).
      assert (y <> x) by (intros ->; pose proof (nth_inj _ _ _ _ ND HyL Hx'); lia).
      rewrite !pupd_ne by assumption.
      split.
      * destruct (Nat.eq_dec (S i) (length A)) as [Elast|Nlast].
        -- rewrite <- Elast. cbn [pred_at]. rewrite Hy. cbn [pupdo]. rewrite pupd_eq.
           rewrite nth_error_app2 by lia. f_equal. lia.
        -- assert (Hy_not_prv : forall p, pred_at A (length A) = Some p -> y <> p).
           { intros p Hp ->. destruct (length A) eqn:E; [discriminate|]. cbn in Hp.
             pose proof (posA _ _ Hp) as HpL. pose proof (nth_inj _ _ _ _ ND HyL HpL). lia. }
           destruct (pred_at A (length A)) as [p|] eqn:Ep; cbn [pupdo].
           ++ rewrite pupd_ne by (apply Hy_not_prv; reflexivity).
              rewrite Hney. unfold L. rewrite nth_app3_A by lia. rewrite nth_error_app1 by lia. reflexivity.
           ++ rewrite Hney. unfold L. rewrite nth_app3_A by lia. rewrite nth_error_app1 by lia. reflexivity.
      * assert (Hy_not_nxt : forall q, nth_error B 0 = Some q -> y <> q).
        { intros q Hq ->. pose proof (posB _ _ Hq) as HqL. pose proof (nth_inj _ _ _ _ ND HyL HqL). lia. }
        destruct (nth_error B 0) as [q|] eqn:Eq; cbn [pupdo].
        -- rewrite pupd_ne by (apply Hy_not_nxt; reflexivity). rewrite Hpey.
           destruct i; cbn [pred_at]; [reflexivity|]. unfold L.
           rewrite nth_app3_A by lia. rewrite nth_error_app1 by lia. reflexivity.
        -- rewrite Hpey. destruct i; cbn [pred_at]; [reflexivity|]. unfold L.
           rewrite nth_app3_A by lia. rewrite nth_error_app1 by lia. reflexivity.
    + rewrite nth_error_app2 in Hy by exact HiB.
      remember (i - length A) as j eqn:Ej0.
      pose proof (posB _ _ Hy) as HyL. destruct (CH _ _ HyL) as [Hney Hpey].
      assert (y <> last) by (intros ->; pose proof (nth_inj _ _ _ _ ND HyL Hl'); lia).
      assert (y <> x) by (intros ->; pose proof (nth_inj _ _ _ _ ND HyL Hx'); lia).
      rewrite !pupd_ne by assumption.
      split.
      * assert (Hy_not_prv : forall p, pred_at A (length A) = Some p -> y <> p).
        { intros p Hp ->. destruct (length A) eqn:E; [discriminate|]. cbn in Hp.
          pose proof (posA _ _ Hp) as HpL. pose proof (nth_inj _ _ _ _ ND HyL HpL). lia. }
        destruct (pred_at A (length A)) as [p|] eqn:Ep; cbn [pupdo];
          [rewrite pupd_ne by (apply Hy_not_prv; reflexivity)|];
          rewrite Hney; replace (S (length A + length M + j)) with (length A + length M + S j) by lia;
          unfold L; rewrite nth_app3_B; rewrite nth_error_app2 by lia; f_equal; lia.
      * destruct (Nat.eq_dec j 0) as [Ej|Nj].
        -- rewrite Ej in Hy. rewrite Hy. cbn [pupdo]. rewrite pupd_eq.
           replace i with (length A) by lia.
           destruct (length A) eqn:E; cbn [pred_at]; [reflexivity|]. rewrite nth_error_app1 by lia. reflexivity.
        -- assert (Hy_not_nxt : forall q, nth_error B 0 = Some q -> y <> q).
           { intros q Hq ->. pose proof (posB _ _ Hq) as HqL. pose proof (nth_inj _ _ _ _ ND HyL HqL). lia. }
           assert (Hi : i = S (length A + (j - 1))) by lia.
           assert (Hj : length A + length M + j = S (length A + length M + (j - 1))) by lia.
           destruct (nth_error B 0) as [q|] eqn:Eq; cbn [pupdo];
             [rewrite pupd_ne by (apply Hy_not_nxt; reflexivity)|];
             rewrite Hpey; rewrite Hj, Hi; cbn [pred_at];
             unfold L; rewrite nth_app3_B;
             rewrite nth_error_app2 by lia; f_equal; lia.
  - intros i y Hy.
    assert (HiM : i < length M) by (apply nth_error_Some; congruence).
    pose proof (posM _ _ Hy) as HyL. destruct (CH _ _ HyL) as [Hney Hpey].
    assert (Hy_not_prv : forall p, pred_at A (length A) = Some p -> y <> p).
    { intros p Hp ->. destruct (length A) eqn:E; [discriminate|]. cbn in Hp.
      pose proof (posA _ _ Hp) as HpL. pose proof (nth_inj _ _ _ _ ND HyL HpL). lia. }
    assert (Hy_not_nxt : forall q, nth_error B 0 = Some q -> y <> q).
    { intros q Hq ->. pose proof (posB _ _ Hq) as HqL. pose proof (nth_inj _ _ _ _ ND HyL HqL). lia. }
    split.
    + destruct (Nat.eq_dec i k) as [->|Nk].
      * assert (y = last) by congruence. subst y. rewrite pupd_eq. symmetry. apply nth_error_None. lia.
      * assert (y <> last) by (intros ->; pose proof (nth_inj _ _ _ _ ND HyL Hl'); lia).
        rewrite pupd_ne by assumption.
        destruct (pred_at A (length A)) as [p|] eqn:Ep; cbn [pupdo];
          [rewrite pupd_ne by (apply Hy_not_prv; reflexivity)|];
          rewrite Hney; replace (S (length A + i)) with (length A + S i) by lia;
          unfold L; rewrite nth_app3_M by lia; reflexivity.
    + destruct i as [|i'].
      * assert (y = x) by congruence. subst y. rewrite pupd_eq. reflexivity.
      * assert (y <> x) by (intros ->; pose proof (nth_inj _ _ _ _ ND HyL Hx'); lia).
        rewrite pupd_ne by assumption.
        destruct (nth_error B 0) as [q|] eqn:Eq; cbn [pupdo];
          [rewrite pupd_ne by (apply Hy_not_nxt; reflexivity)|];
          rewrite Hpey; replace (length A + S i') with (S (length A + i')) by lia; cbn [pred_at];
          unfold L; rewrite nth_app3_M by lia; reflexivity.
Qed.

(* cells outside the chain are not written *)
Lemma unsplice_outside A M B nx pv x last k y :
  nth_error M 0 = Some x -> length M = S k -> nth_error M k = Some last ->
  chain (A ++ M ++ B) nx pv -> ~ In y (A ++ M ++ B) ->
  fst (unsplice nx pv x last) y = nx y /\ snd (unsplice nx pv x last) y = pv y.
Proof.
  intros Hx HlenM Hlast CH Hy.
  destruct (chain_reads _ _ _ _ _ _ _ _ Hx HlenM Hlast CH) as [Hnxt Hprv].
  rewrite !in_app_iff in Hy.
  assert (y <> x) by (intros ->; apply nth_error_In in Hx; tauto).
  assert (y <> last) by (intros ->; apply nth_error_In in Hlast; tauto).
  unfold unsplice; cbn [fst snd]. rewrite Hnxt, Hprv. rewrite !pupd_ne by assumption. split.
  - destruct (pred_at A (length A)) as [p|] eqn:Ep; cbn [pupdo]; [|reflexivity].
    apply pred_at_In in Ep. rewrite pupd_ne; [reflexivity | intros ->; tauto].
  - destruct (nth_error B 0) as [q|] eqn:Eq; cbn [pupdo]; [|reflexivity].
    apply nth_error_In in Eq. rewrite pupd_ne; [reflexivity | intros ->; tauto].
Qed.

(* ------------------------------------------------------------------ *)
(* 2. trees                                                           *)
(* ------------------------------------------------------------------ *)

Lemma remove_Node x i ks :
  remove x (Node i ks) = let '(ks', r) := remove_l x ks in (Node i ks', r).
Proof.
  cbn [remove].
  assert (E : forall l, (fix go (l : list tree) : list tree * option tree :=
       match l with
       | [] => ([], None)
       | k :: l' =>
           if Nat.eqb (rid k) x
           then (l', Some k)
           else
            match remove x k with
            | (k', Some s) => (k' :: l', Some s)
            | (k', None) => let '(l'', r) := go l' in (k' :: l'', r)
            end
       end) l = remove_l x l).
  { induction l as [|k l IH]; cbn; [reflexivity|]. destruct (Nat.eqb (rid k) x); [reflexivity|].
    destruct (remove x k) as [k' [s|]]; [reflexivity|]. rewrite IH. reflexivity. }
  rewrite E. reflexivity.
Qed.

(* contiguity, as in the spike *)
Definition spec_remove (x : nat) (L L' : list nat) (r : option tree) : Prop :=
  match r with
  | Some s => rid s = x /\ exists A B, L = A ++ pre s ++ B /\ L' = A ++ B
  | None => L' = L /\ ~ In x L
  end.

Lemma remove_spec x : forall t, rid t <> x ->
  spec_remove x (pre t) (pre (fst (remove x t))) (snd (remove x t)) /\ rid (fst (remove x t)) = rid t.
Proof.
  induction t as [i ks IH] using tree_ind'. intros Hroot. cbn [rid] in Hroot.
  rewrite remove_Node.
  assert (HL : spec_remove x (pres ks) (pres (fst (remove_l x ks))) (snd (remove_l x ks))).
  { induction ks as [|k ks IHks]; cbn.
    - split; [reflexivity| tauto].
    - inversion IH as [|? ? Hk Hks]; subst.
      destruct (Nat.eqb_spec (rid k) x) as [Ek|Nk].
      + cbn. split; [exact Ek|]. exists [], (pres ks). cbn. split; reflexivity.
      + specialize (Hk Nk). destruct Hk as [Hk Hrid].
        destruct (remove x k) as [k' [s|]] eqn:Er; cbn [fst snd] in *.
        * cbn. destruct Hk as [Hs (A & B & HA & HB)]. split; [exact Hs|].
          exists A, (B ++ pres ks). rewrite HA, HB. rewrite <- !app_assoc. split; reflexivity.
        * specialize (IHks Hks). destruct (remove_l x ks) as [l'' r] eqn:El. cbn [fst snd] in *.
          destruct Hk as [Hk1 Hk2]. cbn [pres flat_map]. fold (pres l'') (pres ks).
          destruct r as [s|]; cbn in IHks |- *.
          -- destruct IHks as [Hs (A & B & HA & HB)]. split; [exact Hs|].
             exists (pre k ++ A), B. rewrite Hk1, HA, HB. rewrite <- !app_assoc. split; reflexivity.
          -- destruct IHks as [E1 E2]. rewrite Hk1, E1. split; [reflexivity|].
             rewrite in_app_iff. tauto. }
  destruct (remove_l x ks) as [ks' r] eqn:El. cbn [fst snd] in *.
  split; [|reflexivity].
  cbn [pre]. fold (pres ks) (pres ks').
  destruct r as [s|]; cbn in HL |- *.
  - destruct HL as [Hs (A & B & HA & HB)]. split; [exact Hs|].
    exists (i :: A), B. rewrite HA, HB. split; reflexivity.
  - destruct HL as [E1 E2]. rewrite E1. split; [reflexivity|]. intros [H|H]; [congruence|tauto].
Qed.

Lemma remove_found : forall x T, In x (pre T) -> x <> rid T ->
  exists T' s, remove x T = (T', Some s) /\ rid s = x.
Proof.
  intros x T Hin Hr. destruct (remove_spec x T (not_eq_sym Hr)) as [H _].
  destruct (remove x T) as [T' [s|]]; cbn [fst snd spec_remove] in H.
  - exists T', s. tauto.
  - tauto.
Qed.

Lemma remove_pre : forall x T T' s, rid T <> x -> remove x T = (T', Some s) ->
  rid s = x /\ rid T' = rid T /\ exists A B, pre T = A ++ pre s ++ B /\ pre T' = A ++ B.
Proof.
  intros x T T' s Hr E. destruct (remove_spec x T Hr) as [H H'].
  rewrite E in H, H'. cbn [fst snd spec_remove] in H, H'. tauto.
Qed.

(* the shallow view of the subterms: every node with the ids of its children, in pre-order *)
Fixpoint shal (t : tree) : list (nat * list nat) :=
  match t with Node i ks => (i, map rid ks) :: flat_map shal ks end.
Definition shals (ks : list tree) : list (nat * list nat) := flat_map shal ks.
Definition sh (t : tree) : nat * list nat := (rid t, map rid (tkids t)).

Lemma shal_subterms : forall t, shal t = map sh (subterms t).
Proof.
  induction t as [i ks IH] using tree_ind'. cbn [shal subterms map]. f_equal.
  induction IH as [|k ks Hk _ IHks]; cbn [flat_map map]; [reflexivity|].
  rewrite map_app. congruence.
Qed.

Lemma shal_fst : forall t, map fst (shal t) = pre t.
Proof.
  induction t as [i ks IH] using tree_ind'. cbn [shal pre map fst]. f_equal.
  induction IH as [|k ks Hk _ IHks]; cbn [flat_map map]; [reflexivity|].
  rewrite map_app. congruence.
Qed.

Lemma shals_fst ks : map fst (shals ks) = pres ks.
Proof.
  unfold shals, pres. induction ks as [|k ks IH]; cbn [flat_map map]; [reflexivity|].
  rewrite map_app, shal_fst. congruence.
Qed.

Lemma shals_app K1 K2 : shals (K1 ++ K2) = shals K1 ++ shals K2.
Proof. apply flat_map_app. Qed.
Lemma pres_app K1 K2 : pres (K1 ++ K2) = pres K1 ++ pres K2.
Proof. apply flat_map_app. Qed.
Lemma shals_cons k K : shals (k :: K) = shal k ++ shals K.
Proof. reflexivity. Qed.
Lemma pres_cons k K : pres (k :: K) = pre k ++ pres K.
Proof. reflexivity. Qed.

Lemma pre_hd t : exists r, pre t = rid t :: r.
Proof. destruct t; cbn; eauto. Qed.

Lemma rid_in_pre t : In (rid t) (pre t).
Proof. destruct t; cbn; auto. Qed.

Lemma rids_in_pres ks c : In c (map rid ks) -> In c (pres ks).
Proof.
  intros H. apply in_map_iff in H. destruct H as (k & <- & Hk).
  unfold pres. apply in_flat_map. exists k. split; [exact Hk | apply rid_in_pre].
Qed.

(* ids mentioned by a shallow entry occur in the pre-order *)
Lemma shal_kids_in_pre : forall t e c, In e (shal t) -> In c (snd e) -> In c (pre t).
Proof.
  induction t as [i ks IH] using tree_ind'. intros e c He Hc. cbn [shal] in He. cbn [pre].
  destruct He as [<-|He].
  - cbn [snd] in Hc. right. now apply rids_in_pres.
  - right. apply in_flat_map in He. destruct He as (k & Hk & He).
    rewrite Forall_forall in IH. apply in_flat_map. exists k. split; [exact Hk|]. eapply IH; eauto.
Qed.

Lemma NoDup_pres_rids ks : NoDup (pres ks) -> NoDup (map rid ks).
Proof.
  induction ks as [|k ks IH]; cbn; intros H; [constructor|].
  fold (pres ks) in H. destruct (NoDup_app_inv _ _ H) as (_ & H2 & D).
  constructor; [|now apply IH].
  intros Hin. apply (D (rid k)); [apply rid_in_pre | now apply rids_in_pres].
Qed.

Lemma remove_None x : forall t t', remove x t = (t', None) -> t' = t.
Proof.
  induction t as [i ks IH] using tree_ind'. intros t'. rewrite remove_Node.
  assert (HL : forall ks', remove_l x ks = (ks', None) -> ks' = ks).
  { induction IH as [|k ks Hk _ IHks]; cbn; intros ks' E.
    - now inversion E.
    - destruct (Nat.eqb (rid k) x); [discriminate|].
      destruct (remove x k) as [k' [s|]] eqn:Ek; [discriminate|].
      destruct (remove_l x ks) as [l'' r] eqn:El. inversion E; subst.
      f_equal; [now apply Hk | now apply IHks]. }
  destruct (remove_l x ks) as [ks' r]. intros E. inversion E; subst. f_equal. now apply HL.
Qed.

Lemma remove_l_Some x : forall ks ks' s, remove_l x ks = (ks', Some s) ->
  (exists K1 K2, ks = K1 ++ s :: K2 /\ ks' = K1 ++ K2 /\ rid s = x) \/
  (exists L1 k k' L2, ks = L1 ++ k :: L2 /\ ks' = L1 ++ k' :: L2 /\
                      remove x k = (k', Some s) /\ rid k <> x).
Proof.
  induction ks as [|k ks IH]; cbn; intros ks' s E; [discriminate|].
  destruct (Nat.eqb_spec (rid k) x) as [Ek|Nk].
  - inversion E; subst. left. exists [], ks'. auto.
  - destruct (remove x k) as [k' [s'|]] eqn:Er.
    + inversion E; subst. right. exists [], k, k', ks. auto.
    + destruct (remove_l x ks) as [l'' r] eqn:El. inversion E; subst.
      apply remove_None in Er. subst k'.
      destruct (IH _ _ eq_refl) as [(K1 & K2 & -> & -> & Hs)|(L1 & k1 & k1' & L2 & -> & -> & Hr & Hn)].
      * left. exists (k :: K1), K2. auto.
      * right. exists (k :: L1), k1, k1', L2. auto.
Qed.

(* one-hole contexts: T' is T with the subterm p replaced by p' *)
Inductive ctx (p p' : tree) : tree -> tree -> Prop :=
| ctx_here : ctx p p' p p'
| ctx_deep i L1 k k' L2 :
    ctx p p' k k' -> ctx p p' (Node i (L1 ++ k :: L2)) (Node i (L1 ++ k' :: L2)).

Lemma remove_ctx x : forall T T' s, rid T <> x -> remove x T = (T', Some s) ->
  rid s = x /\ exists pi K1 K2, ctx (Node pi (K1 ++ s :: K2)) (Node pi (K1 ++ K2)) T T'.
Proof.
  induction T as [i ks IH] using tree_ind'. intros T' s Hr. rewrite remove_Node.
  destruct (remove_l x ks) as [ks' r] eqn:El. intros E. inversion E; subst.
  destruct (remove_l_Some _ _ _ _ El) as [(K1 & K2 & -> & -> & Hs)|(L1 & k & k' & L2 & -> & -> & Hk & Hn)].
  - split; [exact Hs|]. exists i, K1, K2. constructor.
  - rewrite Forall_forall in IH.
    destruct (IH k (in_elt _ _ _) k' s Hn Hk) as [Hs (pi & K1 & K2 & Hc)].
    split; [exact Hs|]. exists pi, K1, K2. now constructor.
Qed.

Lemma ctx_rid p p' T T' : ctx p p' T T' -> rid p = rid p' -> rid T = rid T'.
Proof. induction 1; intros E; [exact E | reflexivity]. Qed.

Lemma ctx_shal p p' T T' : ctx p p' T T' -> rid p = rid p' ->
  exists S1 S2, shal T = S1 ++ shal p ++ S2 /\ shal T' = S1 ++ shal p' ++ S2.
Proof.
  induction 1 as [|i L1 k k' L2 Hc IH]; intros E.
  - exists [], []. rewrite !app_nil_r. cbn. auto.
  - destruct (IH E) as (S1 & S2 & E1 & E2). pose proof (ctx_rid _ _ _ _ Hc E) as Hk.
    exists ((i, map rid (L1 ++ k :: L2)) :: shals L1 ++ S1), (S2 ++ shals L2).
    cbn [shal]. fold (shals (L1 ++ k :: L2)) (shals (L1 ++ k' :: L2)).
    rewrite !shals_app, !shals_cons.
    rewrite E1, E2. rewrite !map_app. cbn [map]. rewrite Hk.
    cbn [app]. rewrite <- !app_assoc. split; reflexivity.
Qed.

Lemma shal_Node_mid pi K1 s K2 :
  shal (Node pi (K1 ++ s :: K2)) =
  (pi, map rid K1 ++ rid s :: map rid K2) :: shals K1 ++ shal s ++ shals K2.
Proof.
  cbn [shal]. fold (shals (K1 ++ s :: K2)). rewrite shals_app, shals_cons, map_app. cbn [map].
  reflexivity.
Qed.

(* the shape of a removal, on the shallow view *)
Lemma remove_shal x T T' s : rid T <> x -> remove x T = (T', Some s) ->
  rid s = x /\ rid T' = rid T /\ exists S1 S2 pi K1 K2,
    shal T = S1 ++ (pi, map rid K1 ++ x :: map rid K2) :: shals K1 ++ shal s ++ shals K2 ++ S2 /\
    shal T' = S1 ++ (pi, map rid K1 ++ map rid K2) :: shals K1 ++ shals K2 ++ S2.
Proof.
  intros Hr E. destruct (remove_ctx x T T' s Hr E) as [Hs (pi & K1 & K2 & Hc)].
  split; [exact Hs|]. split; [symmetry; exact (ctx_rid _ _ _ _ Hc eq_refl)|].
  destruct (ctx_shal _ _ _ _ Hc eq_refl) as (S1 & S2 & E1 & E2).
  exists S1, S2, pi, K1, K2. rewrite E1, E2. rewrite shal_Node_mid, Hs.
  cbn [shal]. fold (shals (K1 ++ K2)). rewrite shals_app, map_app.
  cbn [app]. rewrite <- !app_assoc. split; reflexivity.
Qed.

(* ------------------------------------------------------------------ *)
(* 3. the heap                                                        *)
(* ------------------------------------------------------------------ *)

Lemma par_set_par_if h x v y : par (set_par h x v y) = if Nat.eqb y x then v else par (h y).
Proof. unfold set_par, upd. destruct (Nat.eqb y x); reflexivity. Qed.
Lemma kids_set_kids_if h x v y : kids (set_kids h x v y) = if Nat.eqb y x then v else kids (h y).
Proof. unfold set_kids, upd. destruct (Nat.eqb y x); reflexivity. Qed.
Lemma ps_set_ps_if h x v y : ps (set_ps h x v y) = if Nat.eqb y x then v else ps (h y).
Proof. unfold set_ps, upd. destruct (Nat.eqb y x); reflexivity. Qed.
Lemma ns_set_ns_if h x v y : ns (set_ns h x v y) = if Nat.eqb y x then v else ns (h y).
Proof. unfold set_ns, upd. destruct (Nat.eqb y x); reflexivity. Qed.
Lemma pe_set_pe_if h x v y : pe (set_pe h x v y) = if Nat.eqb y x then v else pe (h y).
Proof. unfold set_pe, upd. destruct (Nat.eqb y x); reflexivity. Qed.
Lemma ne_set_ne_if h x v y : ne (set_ne h x v y) = if Nat.eqb y x then v else ne (h y).
Proof. unfold set_ne, upd. destruct (Nat.eqb y x); reflexivity. Qed.

Lemma oeqb_false a b : a <> b -> oeqb a b = false.
Proof.
  destruct a as [a|], b as [b|]; cbn; intros H; try reflexivity; try congruence.
  apply Nat.eqb_neq. congruence.
Qed.

Lemma index_of_app x cs1 cs2 : ~ In x cs1 -> index_of x (cs1 ++ x :: cs2) = Some (length cs1).
Proof.
  induction cs1 as [|c cs1 IH]; cbn; intros H.
  - now rewrite Nat.eqb_refl.
  - destruct (Nat.eqb_spec c x) as [->|N]; [tauto|]. rewrite IH by tauto. reflexivity.
Qed.

Lemma remove_at_app {X} (cs1 : list X) x cs2 : remove_at (length cs1) (cs1 ++ x :: cs2) = cs1 ++ cs2.
Proof. induction cs1 as [|c cs1 IH]; cbn; [reflexivity | now rewrite IH]. Qed.

Definition nxf (h : heap) : ptr := fun z => ne (h z).
Definition pvf (h : heap) : ptr := fun z => pe (h z).
Definition nsf (h : heap) : ptr := fun z => ns (h z).
Definition psf (h : heap) : ptr := fun z => ps (h z).

(* extract_links, cut into its six groups of writes *)
Definition st1 (h : heap) (x : nat) (nxt : option nat) : heap :=
  match pe (h x) with
  | Some q => if negb (oeqb (Some q) nxt) then set_ne h q nxt else h
  | None => h
  end.
Definition st2 (h : heap) (x : nat) (nxt : option nat) : heap :=
  match nxt with
  | Some r => if negb (oeqb (Some r) (pe (h x))) then set_pe h r (pe (h x)) else h
  | None => h
  end.
Definition st3 (h : heap) (x last : nat) : heap :=
  set_par (set_ne (set_pe h x None) last None) x None.
Definition st4 (h : heap) (x : nat) : heap :=
  match ps (h x) with
  | Some a => if negb (oeqb (Some a) (ns (h x))) then set_ns h a (ns (h x)) else h
  | None => h
  end.
Definition st5 (h : heap) (x : nat) : heap :=
  match ns (h x) with
  | Some b => if negb (oeqb (Some b) (ps (h x))) then set_ps h b (ps (h x)) else h
  | None => h
  end.
Definition st6 (h : heap) (x : nat) : heap := set_ns (set_ps h x None) x None.

Lemma extract_links_stages fuel h x :
  extract_links fuel h x =
  let last := match last_descendant fuel h x true true with Some l => l | None => x end in
  let nxt := ne (h last) in
  st6 (st5 (st4 (st3 (st2 (st1 h x nxt) x nxt) x last) x) x) x.
Proof. reflexivity. Qed.

Lemma cell_eta c :
  c = mkcell (kind c) (par c) (kids c) (ps c) (ns c) (pe c) (ne c) (txt c) (dead c).
Proof. destruct c; reflexivity. Qed.

Ltac prj := cbn [kind par kids ps ns pe ne txt dead].
Ltac setter_cell := intros; unfold set_par, set_kids, set_ps, set_ns, set_pe, set_ne, upd;
  match goal with |- context [Nat.eqb ?y ?x] => destruct (Nat.eqb_spec y x) end;
  [subst; reflexivity | apply cell_eta].

Lemma set_par_cell h x v y : set_par h x v y =
  mkcell (kind (h y)) (if Nat.eqb y x then v else par (h y)) (kids (h y)) (ps (h y)) (ns (h y))
         (pe (h y)) (ne (h y)) (txt (h y)) (dead (h y)).
Proof. setter_cell. Qed.
Lemma set_kids_cell h x v y : set_kids h x v y =
  mkcell (kind (h y)) (par (h y)) (if Nat.eqb y x then v else kids (h y)) (ps (h y)) (ns (h y))
         (pe (h y)) (ne (h y)) (txt (h y)) (dead (h y)).
Proof. setter_cell. Qed.
Lemma set_ps_cell h x v y : set_ps h x v y =
  mkcell (kind (h y)) (par (h y)) (kids (h y)) (if Nat.eqb y x then v else ps (h y)) (ns (h y))
         (pe (h y)) (ne (h y)) (txt (h y)) (dead (h y)).
Proof. setter_cell. Qed.
Lemma set_ns_cell h x v y : set_ns h x v y =
  mkcell (kind (h y)) (par (h y)) (kids (h y)) (ps (h y)) (if Nat.eqb y x then v else ns (h y))
         (pe (h y)) (ne (h y)) (txt (h y)) (dead (h y)).
Proof. setter_cell. Qed.
Lemma set_pe_cell h x v y : set_pe h x v y =
  mkcell (kind (h y)) (par (h y)) (kids (h y)) (ps (h y)) (ns (h y))
         (if Nat.eqb y x then v else pe (h y)) (ne (h y)) (txt (h y)) (dead (h y)).
Proof. setter_cell. Qed.
Lemma set_ne_cell h x v y : set_ne h x v y =
  mkcell (kind (h y)) (par (h y)) (kids (h y)) (ps (h y)) (ns (h y))
         (pe (h y)) (if Nat.eqb y x then v else ne (h y)) (txt (h y)) (dead (h y)).
Proof. setter_cell. Qed.

Lemma st1_c h x nxt : (forall q, pe (h x) = Some q -> nxt <> Some q) -> forall y,
  st1 h x nxt y =
  mkcell (kind (h y)) (par (h y)) (kids (h y)) (ps (h y)) (ns (h y)) (pe (h y))
         (match pe (h x) with Some q => if Nat.eqb y q then nxt else ne (h y) | None => ne (h y) end)
         (txt (h y)) (dead (h y)).
Proof.
  intros G y. unfold st1. destruct (pe (h x)) as [q|]; [|apply cell_eta].
  rewrite oeqb_false by (intros E; symmetry in E; revert E; now apply G). cbn [negb].
  apply set_ne_cell.
Qed.

Lemma st2_c h x nxt : (forall r, nxt = Some r -> pe (h x) <> Some r) -> forall y,
  st2 h x nxt y =
  mkcell (kind (h y)) (par (h y)) (kids (h y)) (ps (h y)) (ns (h y))
         (match nxt with Some r => if Nat.eqb y r then pe (h x) else pe (h y) | None => pe (h y) end)
         (ne (h y)) (txt (h y)) (dead (h y)).
Proof.
  intros G y. unfold st2. destruct nxt as [r|]; [|apply cell_eta].
  rewrite oeqb_false by (intros E; symmetry in E; revert E; now apply G). cbn [negb].
  apply set_pe_cell.
Qed.

Lemma st3_c h x last : forall y,
  st3 h x last y =
  mkcell (kind (h y)) (if Nat.eqb y x then None else par (h y)) (kids (h y)) (ps (h y)) (ns (h y))
         (if Nat.eqb y x then None else pe (h y)) (if Nat.eqb y last then None else ne (h y))
         (txt (h y)) (dead (h y)).
Proof.
  intros y. unfold st3. rewrite set_par_cell, !set_ne_cell. prj. rewrite !set_pe_cell. prj. reflexivity.
Qed.

Lemma st4_c h x : (forall a, ps (h x) = Some a -> ns (h x) <> Some a) -> forall y,
  st4 h x y =
  mkcell (kind (h y)) (par (h y)) (kids (h y)) (ps (h y))
         (match ps (h x) with Some a => if Nat.eqb y a then ns (h x) else ns (h y) | None => ns (h y) end)
         (pe (h y)) (ne (h y)) (txt (h y)) (dead (h y)).
Proof.
  intros G y. unfold st4. destruct (ps (h x)) as [a|]; [|apply cell_eta].
  rewrite oeqb_false by (intros E; symmetry in E; revert E; now apply G). cbn [negb].
  apply set_ns_cell.
Qed.

Lemma st5_c h x : (forall b, ns (h x) = Some b -> ps (h x) <> Some b) -> forall y,
  st5 h x y =
  mkcell (kind (h y)) (par (h y)) (kids (h y))
         (match ns (h x) with Some b => if Nat.eqb y b then ps (h x) else ps (h y) | None => ps (h y) end)
         (ns (h y)) (pe (h y)) (ne (h y)) (txt (h y)) (dead (h y)).
Proof.
  intros G y. unfold st5. destruct (ns (h x)) as [b|]; [|apply cell_eta].
  rewrite oeqb_false by (intros E; symmetry in E; revert E; now apply G). cbn [negb].
  apply set_ps_cell.
Qed.

Lemma st6_c h x : forall y,
  st6 h x y =
  mkcell (kind (h y)) (par (h y)) (kids (h y)) (if Nat.eqb y x then None else ps (h y))
         (if Nat.eqb y x then None else ns (h y)) (pe (h y)) (ne (h y)) (txt (h y)) (dead (h y)).
Proof. intros y. unfold st6. rewrite set_ns_cell, !set_ps_cell. prj. reflexivity. Qed.

Lemma extract_fields fuel h x pi cs1 cs2 last :
  par (h x) = Some pi -> kids (h pi) = cs1 ++ x :: cs2 -> ~ In x cs1 ->
  last_descendant fuel (set_kids h pi (cs1 ++ cs2)) x true true = Some last ->
  (forall q, pe (h x) = Some q -> ne (h last) <> Some q) ->
  (forall q, ps (h x) = Some q -> ns (h x) <> Some q) ->
  ps (h x) <> Some x ->
  forall y,
    kind (extract fuel h x y) = kind (h y) /\
    par (extract fuel h x y) = (if Nat.eqb y x then None else par (h y)) /\
    kids (extract fuel h x y) = (if Nat.eqb y pi then cs1 ++ cs2 else kids (h y)) /\
    ne (extract fuel h x y) = fst (unsplice (nxf h) (pvf h) x last) y /\
    pe (extract fuel h x y) = snd (unsplice (nxf h) (pvf h) x last) y /\
    ns (extract fuel h x y) = fst (unsplice (nsf h) (psf h) x x) y /\
    ps (extract fuel h x y) = snd (unsplice (nsf h) (psf h) x x) y.
Proof.
  intros Hpar Hkids Hnin Hlast Hg1 Hg2 Hax y.
  unfold extract. rewrite Hpar, Hkids, (index_of_app _ _ _ Hnin), remove_at_app.
  set (h1 := set_kids h pi (cs1 ++ cs2)) in *.
  assert (F0 : forall z, h1 z = _) by (intros z; apply set_kids_cell).
  rewrite extract_links_stages, Hlast. cbv zeta.
  assert (Enxt : ne (h1 last) = ne (h last)) by (rewrite F0; reflexivity).
  rewrite Enxt. set (nxt := ne (h last)) in *.
  assert (G1 : forall q, pe (h1 x) = Some q -> nxt <> Some q) by (rewrite F0; prj; exact Hg1).
  pose proof (st1_c _ _ _ G1) as F1. remember (st1 h1 x nxt) as h2 eqn:E2; clear E2.
  assert (G2 : forall r, nxt = Some r -> pe (h2 x) <> Some r).
  { rewrite F1, F0. prj. intros r Hr Hq. exact (Hg1 _ Hq Hr). }
  pose proof (st2_c _ _ _ G2) as F2. remember (st2 h2 x nxt) as h3 eqn:E3; clear E3.
  pose proof (st3_c h3 x last) as F3. remember (st3 h3 x last) as h4 eqn:E4; clear E4.
  assert (G4 : forall a, ps (h4 x) = Some a -> ns (h4 x) <> Some a).
  { rewrite !F3. prj. rewrite !F2. prj. rewrite !F1. prj. rewrite !F0. prj. exact Hg2. }
  pose proof (st4_c _ _ G4) as F4. remember (st4 h4 x) as h5 eqn:E5; clear E5.
  assert (X5 : ps (h5 x) = ps (h x) /\ ns (h5 x) = ns (h x)).
  { rewrite !F4. prj. rewrite !F3. prj. rewrite !F2. prj. rewrite !F1. prj. rewrite !F0. prj.
    split; [reflexivity|]. destruct (ps (h x)) as [a|] eqn:Ea; [|reflexivity].
    destruct (Nat.eqb_spec x a) as [->|_]; [congruence | reflexivity]. }
  destruct X5 as [X5p X5n].
  assert (G5 : forall b, ns (h5 x) = Some b -> ps (h5 x) <> Some b).
  { rewrite X5p, X5n. intros b Hb Ha. exact (Hg2 _ Ha Hb). }
  pose proof (st5_c _ _ G5) as F5. remember (st5 h5 x) as h6 eqn:E6; clear E6.
  pose proof (st6_c h6 x) as F6.
  rewrite !F6. prj. rewrite !F5. prj. rewrite X5p, X5n.
  rewrite !F4. prj. rewrite !F3. prj. rewrite !F2. prj. rewrite !F1. prj. rewrite !F0. prj.
  unfold unsplice, nxf, pvf, nsf, psf, pupdo, pupd. cbn [fst snd]. fold nxt.
  destruct (pe (h x)), nxt, (ps (h x)), (ns (h x)); repeat split; reflexivity.
Qed.

(* the while loop of _last_descendant reaches the last element of the pre-order *)
Lemma walk_last_ok h : forall t fuel,
  (forall e, In e (shal t) -> kids (h (fst e)) = snd e /\ (is_tag h (fst e) = false -> snd e = [])) ->
  length (pre t) <= S fuel -> walk_last fuel h (rid t) = last (pre t) (rid t).
Proof.
  induction t as [i ks IH] using tree_ind'. intros fuel Hn Hlen. cbn [rid].
  destruct (Hn (i, map rid ks)) as [Hk Ht]; [cbn; auto|]. cbn [fst snd] in Hk, Ht.
  assert (Hcase : ks = [] \/ ks <> []) by (destruct ks; [left; reflexivity | right; discriminate]).
  destruct Hcase as [->|Hne].
  - cbn [pre flat_map last]. destruct fuel; cbn [walk_last]; [reflexivity|].
    destruct (is_tag h i); [|reflexivity]. rewrite Hk. reflexivity.
  - destruct (exists_last Hne) as (ks0 & kl & ->).
    cbn [pre] in Hlen |- *. fold (pres (ks0 ++ [kl])) in Hlen |- *.
    rewrite pres_app, pres_cons in Hlen |- *. cbn [pres flat_map] in Hlen |- *.
    rewrite app_nil_r in Hlen |- *.
    destruct (pre_hd kl) as [rl Erl].
    assert (Hkl : pre kl <> []) by (rewrite Erl; discriminate).
    cbn [length] in Hlen. rewrite app_length in Hlen.
    destruct fuel as [|f]; [rewrite Erl in Hlen; cbn [length] in Hlen; lia|].
    cbn [walk_last].
    destruct (is_tag h i) eqn:Et.
    + rewrite Hk, map_app, rev_app_distr. cbn [map rev app].
      rewrite Forall_forall in IH. rewrite (IH kl (in_elt _ _ _) f).
      * rewrite app_comm_cons. symmetry. now apply last_app_ne.
      * intros e He. apply Hn. cbn [shal]. right. fold (shals (ks0 ++ [kl])).
        rewrite shals_app, shals_cons. rewrite !in_app_iff. tauto.
      * lia.
    + specialize (Ht eq_refl). apply map_eq_nil in Ht. now apply app_eq_nil in Ht as [_ Ht].
Qed.

(* node_ok only looks at the shallow view *)
Definition nok (h : heap) (e : nat * list nat) : Prop :=
  kids (h (fst e)) = snd e /\ schain (snd e) h /\
  (forall c, In c (snd e) -> par (h c) = Some (fst e)) /\
  (is_tag h (fst e) = false -> snd e = []).

Lemma node_ok_nok h t : node_ok h t <-> nok h (sh t).
Proof.
  unfold node_ok, nok, sh; cbn [fst snd].
  split; intros (H1 & H2 & H3 & H4); (split; [exact H1|split; [exact H2|split]]).
  - intros c Hc. apply in_map_iff in Hc. destruct Hc as (k & <- & Hk). auto.
  - intros Ht. rewrite (H4 Ht). reflexivity.
  - intros c Hc. apply H3. now apply in_map.
  - intros Ht. apply H4 in Ht. now apply map_eq_nil in Ht.
Qed.

Lemma subterms_nok h T :
  (forall t, In t (subterms T) -> node_ok h t) <-> (forall e, In e (shal T) -> nok h e).
Proof.
  rewrite shal_subterms. split.
  - intros H e He. apply in_map_iff in He. destruct He as (t & <- & Ht). apply node_ok_nok; auto.
  - intros H t Ht. apply node_ok_nok. apply H. now apply in_map.
Qed.

Lemma rep1_shal h T b :
  rep1 h T b <->
  (forall e, In e (shal T) -> nok h e) /\
  par (h (rid T)) = None /\ ps (h (rid T)) = None /\ ns (h (rid T)) = None /\
  (if b then echain (pre T) h
   else echain (tl (pre T)) h /\ ne (h (rid T)) = None /\ pe (h (rid T)) = None).
Proof. unfold rep1. rewrite subterms_nok. reflexivity. Qed.

(* two heaps that agree on the six links (and the kind) of a cell *)
Definition agree (h h' : heap) (y : nat) : Prop :=
  kind (h' y) = kind (h y) /\ par (h' y) = par (h y) /\ kids (h' y) = kids (h y) /\
  ps (h' y) = ps (h y) /\ ns (h' y) = ns (h y) /\ pe (h' y) = pe (h y) /\ ne (h' y) = ne (h y).

Lemma is_tag_kind h h' y : kind (h' y) = kind (h y) -> is_tag h' y = is_tag h y.
Proof. intros K. unfold is_tag. now rewrite K. Qed.

Lemma schain_agree L h h' : (forall y, In y L -> agree h h' y) -> schain L h -> schain L h'.
Proof.
  intros A C i x Hx. destruct (A x (nth_error_In _ _ Hx)) as (_ & _ & _ & P & N & _ & _).
  rewrite P, N. now apply C.
Qed.

Lemma echain_agree L h h' : (forall y, In y L -> agree h h' y) -> echain L h -> echain L h'.
Proof.
  intros A C i x Hx. destruct (A x (nth_error_In _ _ Hx)) as (_ & _ & _ & _ & _ & P & N).
  rewrite P, N. now apply C.
Qed.

Lemma nok_agree h h' e :
  agree h h' (fst e) -> (forall c, In c (snd e) -> agree h h' c) -> nok h e -> nok h' e.
Proof.
  intros Ae Ac (K & C & P & Tg). destruct Ae as (Ek & _ & Ekids & _).
  split; [|split; [|split]].
  - congruence.
  - now apply (schain_agree _ h).
  - intros c Hc. destruct (Ac c Hc) as (_ & Ep & _). rewrite Ep. auto.
  - rewrite (is_tag_kind h h' _ Ek). exact Tg.
Qed.

Lemma tl_pre_incl T y : In y (tl (pre T)) -> In y (pre T).
Proof. destruct (pre_hd T) as [r E]. rewrite E. cbn. auto. Qed.

Lemma rep1_agree h h' T b : (forall y, In y (pre T) -> agree h h' y) -> rep1 h T b -> rep1 h' T b.
Proof.
  intros A. rewrite !rep1_shal. intros (N & P & S1 & S2 & C).
  destruct (A _ (rid_in_pre T)) as (_ & Ep & _ & Eps & Ens & Epe & Ene).
  split; [|rewrite Ep, Eps, Ens, Epe, Ene; repeat (split; [assumption|])].
  - intros e He. apply (nok_agree h); auto.
    + apply A. rewrite <- shal_fst. now apply in_map.
    + intros c Hc. apply A. eapply shal_kids_in_pre; eauto.
  - destruct b.
    + now apply (echain_agree _ h).
    + destruct C as (C & C1 & C2). split; [|split; assumption].
      apply (echain_agree _ h); auto. intros y Hy. apply A. now apply tl_pre_incl.
Qed.

(* ------------------------------------------------------------------ *)
(* 4. assembly                                                        *)
(* ------------------------------------------------------------------ *)

Lemma rep_perm : forall F F' h, Permutation F F' -> rep F h -> rep F' h.
Proof.
  intros F F' h HP [ND HF]. split.
  - eapply Permutation_NoDup; [|exact ND]. unfold fids. now apply Permutation_flat_map.
  - eapply Permutation_Forall; eauto.
Qed.

Lemma rep_ext : forall F h h', (forall x, h' x = h x) -> rep F h -> rep F h'.
Proof.
  intros F h h' E [ND HF]. split; [exact ND|].
  eapply Forall_impl; [|exact HF]. intros [T b] H. cbn [fst snd] in *.
  apply (rep1_agree h); [|exact H]. intros y _. unfold agree. rewrite E. repeat split.
Qed.

Lemma NoDup_fst_mid {X Y} (S1 S2 : list (X * Y)) e0 e :
  NoDup (map fst (S1 ++ e0 :: S2)) -> In e (S1 ++ S2) -> fst e <> fst e0.
Proof.
  rewrite map_app. cbn [map]. intros ND He E. apply NoDup_remove_2 in ND. apply ND.
  rewrite <- E, <- map_app. now apply in_map.
Qed.

Lemma schain_chain L h : schain L h = chain L (nsf h) (psf h).
Proof. reflexivity. Qed.
Lemma echain_chain L h : echain L h = chain L (nxf h) (pvf h).
Proof. reflexivity. Qed.

Theorem extract_rep : forall F T b h x T' s fuel,
  rep ((T, b) :: F) h -> rid T <> x -> remove x T = (T', Some s) -> length (pre T) <= fuel ->
  rep ((T', b) :: (s, true) :: F) (extract fuel h x).
Proof.
  intros F T b h x T' s fuel [ND HF] Hr Hrem Hfuel.
  inversion HF as [|? ? HT HF']; subst. cbn [fst snd] in HT.
  destruct (remove_shal x T T' s Hr Hrem) as (Hs & HrT' & S1 & S2 & pi & K1 & K2 & ET & ET').
  apply rep1_shal in HT. destruct HT as (HN & HP & HPS & HNS & HC).
  remember (map rid K1) as cs1 eqn:Ecs1. remember (map rid K2) as cs2 eqn:Ecs2.
  remember (pres K2 ++ map fst S2) as B eqn:EB.
  remember (pre s) as M eqn:EM.
  (* ---- the pre-orders ---- *)
  assert (EpT : pre T = (map fst S1 ++ pi :: pres K1) ++ M ++ B).
  { rewrite <- shal_fst, ET. rewrite !map_app. cbn [map fst]. rewrite !map_app, !shals_fst, shal_fst.
    subst M B. rewrite <- !app_assoc. reflexivity. }
  assert (EpT' : pre T' = (map fst S1 ++ pi :: pres K1) ++ B).
  { rewrite <- shal_fst, ET'. rewrite !map_app. cbn [map fst]. rewrite !map_app, !shals_fst.
    subst B. rewrite <- !app_assoc. reflexivity. }
  cbn [fids flat_map fst] in ND. fold (fids F) in ND.
  destruct (NoDup_app_inv _ _ ND) as (NDT & NDF & DTF).
  (* the root heads A *)
  destruct (pre_hd T) as [rT ErT].
  assert (EA : exists A', map fst S1 ++ pi :: pres K1 = rid T :: A').
  { destruct (map fst S1) as [|a0 A0]; cbn [app] in EpT |- *; rewrite ErT in EpT;
      injection EpT as -> _; eauto. }
  destruct EA as [A' EA]. rewrite EA in EpT, EpT'.
  assert (HpiA : In pi (rid T :: A')) by (rewrite <- EA; apply in_elt).
  (* the chain list *)
  remember (if b then rid T :: A' else A') as Ac eqn:EAc.
  assert (HCh : chain (Ac ++ M ++ B) (nxf h) (pvf h)).
  { rewrite <- echain_chain. rewrite EpT in HC. subst Ac. destruct b; [exact HC | apply HC]. }
  assert (Hincl : forall y, In y (Ac ++ M ++ B) -> In y (pre T)).
  { intros y Hy. rewrite EpT. subst Ac. destruct b; [exact Hy | right; exact Hy]. }
  assert (NDc : NoDup (Ac ++ M ++ B)).
  { rewrite EpT in NDT. subst Ac. destruct b; [exact NDT | now inversion NDT]. }
  (* the segment *)
  destruct (pre_hd s) as [rs Ers]. rewrite Hs, <- EM in Ers.
  assert (HM0 : nth_error M 0 = Some x) by (rewrite Ers; reflexivity).
  remember (last M x) as lst eqn:Elst.
  assert (HMlen : length M = S (length M - 1)) by (rewrite Ers; cbn [length]; lia).
  assert (HMk : nth_error M (length M - 1) = Some lst).
  { subst lst. apply nth_error_last. rewrite Ers. discriminate. }
  (* the parent node *)
  assert (Hp_in : In (pi, cs1 ++ x :: cs2) (shal T)) by (rewrite ET; apply in_elt).
  destruct (HN _ Hp_in) as (Hkids & Hsch & Hpar & Htag). cbn [fst snd] in Hkids, Hsch, Hpar, Htag.
  assert (NDfst : NoDup (map fst (shal T))) by (rewrite shal_fst; exact NDT).
  assert (Hothers : forall e, In e (S1 ++ shals K1 ++ shal s ++ shals K2 ++ S2) ->
                              In e (shal T) /\ fst e <> pi).
  { intros e He. split.
    - rewrite ET. rewrite in_app_iff in He |- *. cbn [In]. tauto.
    - rewrite ET in NDfst. exact (NoDup_fst_mid _ _ _ _ NDfst He). }
  assert (NDcs : NoDup (cs1 ++ [x] ++ cs2)).
  { cbn [app]. rewrite <- Hs. subst cs1 cs2.
    change (rid s :: map rid K2) with (map rid (s :: K2)). rewrite <- map_app.
    apply NoDup_pres_rids. rewrite pres_app, pres_cons.
    rewrite EpT, <- EA in NDT. subst M B.
    rewrite <- !app_assoc in NDT. cbn [app] in NDT.
    apply NoDup_app_inv in NDT. destruct NDT as (_ & NDT & _). inversion NDT as [|? ? _ NDT']; subst.
    rewrite !app_assoc in NDT'. apply NoDup_app_inv in NDT'. destruct NDT' as (NDT' & _).
    rewrite <- !app_assoc in NDT'. exact NDT'. }
  assert (Hnin : ~ In x cs1).
  { intros Hin. apply NoDup_remove_2 in NDcs. apply NDcs. rewrite in_app_iff. tauto. }
  assert (Hpar_x : par (h x) = Some pi) by (apply Hpar; apply in_elt).
  (* reads *)
  rewrite schain_chain in Hsch. change (cs1 ++ x :: cs2) with (cs1 ++ [x] ++ cs2) in Hsch.
  destruct (chain_reads cs1 [x] cs2 (nsf h) (psf h) x x 0 eq_refl eq_refl eq_refl Hsch) as [Rns Rps].
  destruct (chain_reads Ac M B (nxf h) (pvf h) x lst _ HM0 HMlen HMk HCh) as [Rne Rpe].
  unfold nsf, psf in Rns, Rps. unfold nxf, pvf in Rne, Rpe.
  assert (Hg1 : forall q, pe (h x) = Some q -> ne (h lst) <> Some q).
  { intros q Hq. rewrite Rne. rewrite Rpe in Hq. exact (chain_guard _ _ _ _ NDc Hq). }
  assert (Hg2 : forall q, ps (h x) = Some q -> ns (h x) <> Some q).
  { intros q Hq. rewrite Rns. rewrite Rps in Hq. exact (chain_guard _ _ _ _ NDcs Hq). }
  assert (Hax : ps (h x) <> Some x).
  { rewrite Rps. intros Hq. apply pred_at_In in Hq. tauto. }
  (* _last_descendant *)
  assert (Hlast : last_descendant fuel (set_kids h pi (cs1 ++ cs2)) x true true = Some lst).
  { unfold last_descendant. cbn [negb andb]. autorewrite with heap. rewrite Rns.
    destruct K2 as [|k K2'].
    - subst cs2. cbn [map nth_error]. f_equal. subst lst M. rewrite <- Hs.
      apply walk_last_ok.
      + intros e He. destruct (Hothers e) as [HeT Hne]; [rewrite !in_app_iff; tauto|].
        destruct (HN e HeT) as (Ke & _ & _ & Te).
        rewrite kids_set_kids_other by exact Hne. split; [exact Ke|].
        unfold is_tag in *. rewrite kind_set_kids. exact Te.
      + rewrite EpT in Hfuel. rewrite !app_length in Hfuel. lia.
    - subst cs2. cbn [map nth_error]. autorewrite with heap.
      destruct (pre_hd k) as [rk Erk].
      assert (HB0 : nth_error B 0 = Some (rid k)).
      { subst B. rewrite pres_cons, Erk. reflexivity. }
      assert (Hpos : nth_error (Ac ++ M ++ B) (length Ac + length M + 0) = Some (rid k))
        by (rewrite nth_app3_B; exact HB0).
      destruct (HCh _ _ Hpos) as [_ Hpe]. unfold pvf in Hpe. rewrite Hpe.
      replace (length Ac + length M + 0) with (S (length Ac + (length M - 1))) by lia.
      cbn [pred_at]. rewrite nth_app3_M by lia. exact HMk. }
  pose proof (extract_fields fuel h x pi cs1 cs2 lst Hpar_x Hkids Hnin Hlast Hg1 Hg2 Hax) as FL.
  pose proof (extract_detached fuel h x) as FD. cbv zeta in FD.
  remember (extract fuel h x) as h' eqn:Eh'.
  (* the two chains after the writes *)
  destruct (unsplice_ok Ac M B (nxf h) (pvf h) x lst _ NDc HM0 HMlen HMk HCh) as [CAB CM].
  destruct (unsplice_ok cs1 [x] cs2 (nsf h) (psf h) x x 0 NDcs eq_refl eq_refl eq_refl Hsch) as [SAB _].
  assert (CAB' : echain (Ac ++ B) h').
  { rewrite echain_chain. eapply chain_ext; [| |exact CAB]; intros y; unfold nxf, pvf; apply FL. }
  assert (CM' : echain M h').
  { rewrite echain_chain. eapply chain_ext; [| |exact CM]; intros y; unfold nxf, pvf; apply FL. }
  assert (SAB' : schain (cs1 ++ cs2) h').
  { rewrite schain_chain. eapply chain_ext; [| |exact SAB]; intros y; unfold nsf, psf; apply FL. }
  (* frame facts *)
  assert (Eout : forall y, ~ In y (Ac ++ M ++ B) -> ne (h' y) = ne (h y) /\ pe (h' y) = pe (h y)).
  { intros y Hy. destruct (FL y) as (_ & _ & _ & -> & -> & _).
    exact (unsplice_outside Ac M B (nxf h) (pvf h) x lst _ y HM0 HMlen HMk HCh Hy). }
  assert (Sout : forall y, ~ In y (cs1 ++ [x] ++ cs2) -> ns (h' y) = ns (h y) /\ ps (h' y) = ps (h y)).
  { intros y Hy. destruct (FL y) as (_ & _ & _ & _ & _ & -> & ->).
    exact (unsplice_outside cs1 [x] cs2 (nsf h) (psf h) x x 0 y eq_refl eq_refl eq_refl Hsch Hy). }
  assert (Pout : forall y, y <> x -> par (h' y) = par (h y)).
  { intros y Hy. destruct (FL y) as (_ & -> & _). apply Nat.eqb_neq in Hy. now rewrite Hy. }
  assert (Kout : forall y, y <> pi -> kids (h' y) = kids (h y)).
  { intros y Hy. destruct (FL y) as (_ & _ & -> & _). apply Nat.eqb_neq in Hy. now rewrite Hy. }
  assert (Tout : forall y, is_tag h' y = is_tag h y).
  { intros y. apply is_tag_kind. apply FL. }
  assert (Hnok : forall e, In e (shal T) -> fst e <> pi -> nok h' e).
  { intros e He Hne. destruct (HN e He) as (K & C & P & Tg).
    assert (Hdis : forall c, In c (snd e) -> ~ In c (cs1 ++ [x] ++ cs2)).
    { intros c Hc Hc2. apply Hpar in Hc2. rewrite (P c Hc) in Hc2. congruence. }
    split; [|split; [|split]].
    - rewrite Kout; auto.
    - intros i c Hc. destruct (Sout c (Hdis c (nth_error_In _ _ Hc))) as [-> ->]. now apply C.
    - intros c Hc. rewrite Pout; [auto|]. intros ->. apply (Hdis x Hc). apply in_elt.
    - rewrite Tout. exact Tg. }
  assert (HrootS : ~ In (rid T) (cs1 ++ [x] ++ cs2)).
  { intros Hin. apply Hpar in Hin. congruence. }
  split.
  - (* ids stay distinct *)
    cbn [fids flat_map fst]. fold (fids F). rewrite EpT', <- EM.
    rewrite EpT in ND.
    eapply Permutation_NoDup; [|exact ND].
    rewrite <- !app_assoc. apply Permutation_app_head.
    rewrite !app_assoc. apply Permutation_app_tail. apply Permutation_app_comm.
  - constructor; [|constructor]; cbn [fst snd].
    + (* T' *)
      apply rep1_shal. rewrite HrT'. split; [|split; [|split; [|split]]].
      * intros e He. rewrite ET' in He. apply in_app_or in He. destruct He as [He|[<-|He]].
        -- destruct (Hothers e) as [HeT Hne]; [rewrite !in_app_iff; tauto|]. now apply Hnok.
        -- split; [|split; [|split]]; cbn [fst snd].
           ++ destruct (FL pi) as (_ & _ & -> & _). now rewrite Nat.eqb_refl.
           ++ exact SAB'.
           ++ intros c Hc. assert (c <> x).
              { intros ->. apply NoDup_remove_2 in NDcs. tauto. }
              rewrite Pout by assumption. apply Hpar. rewrite in_app_iff in Hc |- *. cbn [In]. tauto.
           ++ rewrite Tout. intros Ht. apply Htag in Ht. symmetry in Ht. now apply app_cons_not_nil in Ht.
        -- destruct (Hothers e) as [HeT Hne]; [rewrite !in_app_iff in He; rewrite !in_app_iff; tauto|]. now apply Hnok.
      * rewrite Pout by exact Hr. exact HP.
      * destruct (Sout _ HrootS) as [_ ->]. exact HPS.
      * destruct (Sout _ HrootS) as [-> _]. exact HNS.
      * rewrite EpT'. subst Ac. destruct b; [exact CAB'|]. cbn [tl].
        split; [exact CAB'|].
        rewrite EpT in NDT. inversion NDT as [|? ? Hnr _]; subst.
        destruct (Eout _ Hnr) as [-> ->]. destruct HC as (_ & C1 & C2). auto.
    + (* s *)
      apply rep1_shal. rewrite Hs. destruct FD as (D1 & D2 & D3 & _).
      split; [|split; [|split; [|split]]]; try assumption.
      * intros e He. destruct (Hothers e) as [HeT Hne]; [rewrite !in_app_iff; tauto|]. now apply Hnok.
      * rewrite <- EM. exact CM'.
    + (* the other trees are not touched *)
      rewrite Forall_forall in HF' |- *. intros [T2 b2] Hin. specialize (HF' _ Hin). cbn [fst snd] in *.
      apply (rep1_agree h); [|exact HF']. intros y Hy.
      assert (HyT : ~ In y (pre T)).
      { intros HyT. apply (DTF y HyT). unfold fids. apply in_flat_map. exists (T2, b2). auto. }
      assert (y <> x).
      { intros ->. apply HyT. rewrite EpT, Ers. rewrite !in_app_iff. cbn [In]. tauto. }
      assert (y <> pi).
      { intros ->. apply HyT. rewrite EpT. rewrite in_app_iff. tauto. }
      assert (HyC : ~ In y (Ac ++ M ++ B)) by (intros HyC; apply HyT; auto).
      assert (HyS : ~ In y (cs1 ++ [x] ++ cs2)).
      { intros HyS. apply HyT. exact (shal_kids_in_pre T _ y Hp_in HyS). }
      destruct (Eout y HyC) as [E1 E2]. destruct (Sout y HyS) as [E3 E4].
      unfold agree. rewrite E1, E2, E3, E4, Pout, Kout by assumption.
      destruct (FL y) as (-> & _). repeat split.
Qed.

(* extract() on an element that has no parent, no siblings, nothing before it and nothing after
   its last descendant writes back what is already there *)
Lemma extract_root_fields fuel h r last :
  par (h r) = None -> ps (h r) = None -> ns (h r) = None -> pe (h r) = None ->
  last_descendant fuel h r true true = Some last -> ne (h last) = None ->
  forall y, agree h (extract fuel h r) y.
Proof.
  intros Hpar Hps Hns Hpe Hlast Hne y.
  unfold extract. rewrite Hpar. rewrite extract_links_stages, Hlast. cbv zeta. rewrite Hne.
  assert (G1 : forall q, pe (h r) = Some q -> None <> Some q) by (intros; discriminate).
  pose proof (st1_c _ _ _ G1) as F1. remember (st1 h r None) as h2 eqn:E2; clear E2.
  assert (G2 : forall q, @None nat = Some q -> pe (h2 r) <> Some q) by (intros; discriminate).
  pose proof (st2_c _ _ _ G2) as F2. remember (st2 h2 r None) as h3 eqn:E3; clear E3.
  pose proof (st3_c h3 r last) as F3. remember (st3 h3 r last) as h4 eqn:E4; clear E4.
  assert (X4 : ps (h4 r) = None /\ ns (h4 r) = None).
  { rewrite !F3. prj. rewrite !F2. prj. rewrite !F1. prj. auto. }
  destruct X4 as [X4p X4n].
  assert (G4 : forall a, ps (h4 r) = Some a -> ns (h4 r) <> Some a) by (rewrite X4p; discriminate).
  pose proof (st4_c _ _ G4) as F4. remember (st4 h4 r) as h5 eqn:E5; clear E5.
  assert (X5 : ps (h5 r) = None /\ ns (h5 r) = None).
  { rewrite !F4. prj. rewrite X4p, X4n. auto. }
  destruct X5 as [X5p X5n].
  assert (G5 : forall a, ns (h5 r) = Some a -> ps (h5 r) <> Some a) by (rewrite X5n; discriminate).
  pose proof (st5_c _ _ G5) as F5. remember (st5 h5 r) as h6 eqn:E6; clear E6.
  pose proof (st6_c h6 r) as F6.
  unfold agree.
  rewrite !F6. prj. rewrite !F5. prj. rewrite X5p, X5n.
  rewrite !F4. prj. rewrite ?X4p, ?X4n. prj. rewrite !F3. prj. rewrite !F2. prj. rewrite !F1. prj.
  rewrite Hpe.
  destruct (Nat.eqb_spec y r) as [E1|_]; destruct (Nat.eqb_spec y last) as [E2|_]; subst;
    rewrite ?Hpar, ?Hps, ?Hns, ?Hpe, ?Hne; repeat split; reflexivity.
Qed.

Theorem extract_root_rep : forall F T b h fuel,
  rep ((T, b) :: F) h -> length (pre T) <= fuel -> rep ((T, b) :: F) (extract fuel h (rid T)).
Proof.
  intros F T b h fuel [ND HF] Hfuel.
  assert (HA : forall y, agree h (extract fuel h (rid T)) y).
  { inversion HF as [|? ? HT _]; subst. cbn [fst snd] in HT.
    apply rep1_shal in HT. destruct HT as (HN & HP & HPS & HNS & HC).
    destruct (pre_hd T) as [rT ErT].
    assert (Hne : pre T <> []) by (rewrite ErT; discriminate).
    pose proof (nth_error_last (pre T) (rid T) Hne) as Hl.
    assert (Hpe : pe (h (rid T)) = None).
    { destruct b; [|apply HC]. apply (HC 0). rewrite ErT. reflexivity. }
    apply (extract_root_fields fuel h (rid T) (last (pre T) (rid T))); auto.
    - unfold last_descendant. rewrite HNS. cbn [negb andb]. f_equal. apply walk_last_ok; [|lia].
      intros e He. destruct (HN e He) as (K & _ & _ & Tg). auto.
    - destruct b.
      + destruct (HC _ _ Hl) as [-> _]. apply nth_error_None. lia.
      + destruct HC as (C & C1 & C2). rewrite ErT in C |- *. cbn [tl] in C.
        destruct rT as [|a rT']; [exact C1|].
        change (rid T :: a :: rT') with ([rid T] ++ a :: rT').
        rewrite (last_app_ne [rid T] (a :: rT') (rid T) (rid T)) by discriminate.
        assert (Hl2 : nth_error (a :: rT') (length (a :: rT') - 1) = Some (last (a :: rT') (rid T)))
          by (apply nth_error_last; discriminate).
        destruct (C _ _ Hl2) as [-> _]. apply nth_error_None. cbn [length]. lia. }
  split; [exact ND|].
  eapply Forall_impl; [|exact HF]. intros [T2 b2] H. cbn [fst snd] in *.
  apply (rep1_agree h); [|exact H]. intros y _. apply HA.
Qed.

Print Assumptions rep_perm.
Print Assumptions rep_ext.
Print Assumptions remove_found.
Print Assumptions remove_pre.
Print Assumptions extract_rep.
Print Assumptions extract_root_rep.
