(* C02 — second part, complementing Proofs/EditConserve.v.
     A. BeautifulSoup-object arguments: the code inserts the object's children.  [arg_just] (what one argument
        stands for when its turn comes), [arg_expansion] (the expansion read off the call-time state, for
        arguments that do not interact), [expand] (the general truth: a BeautifulSoup object stands for the
        children it still has, i.e. its call-time children minus what earlier arguments took).
        insert_args_general, op_insert_expansion (kmove_all of the expansion, always; splice_spec when the
        expansion has no repetition), op_insert_soup_documented, op_append_soup_documented,
        op_replace_with_expansion, op_extend_list_expansion, op_insert_before_expansion,
        op_insert_after_expansion; [placed] is the frame, [soups_emptied] says the object ends up childless
        and stays where it was
     B. clear(decompose=True): the killed cells are exactly wiped (op_clear_true_wiped), via extract_untouched
        (extract() never touches a cell that is not live) and links_live; forest_read_off (the forest of a
        consistent state is read off the child lists)
     C. smooth(): merge_at_effect (one merge), [smooth_list] (the child list after the merges of one tag),
        smooth_rec_effect, tags_below_iff (the smoothed tags are self and the tags below it),
        op_smooth_documented, op_smooth_text (the text in document order is unchanged), op_smooth_merged
        (the merged strings come back live, detached, childless), smooth_list_collapse / smooth_list_no_pair
        (runs of plain strings are collapsed, nothing is left to merge), op_smooth_nothing_left
     D. apply_op_documented: one statement for every call
     E. examples
   Findings: a BeautifulSoup argument is expanded at PROCESSING time (ex_soup_processing_time); smooth() does
   not drop empty strings, and a run of k plain strings allocates k-1 strings of which k-2 are detached at once
   (ex_smooth_computed). *)
From Coq Require Import List Arith Bool Lia Permutation NArith.
From BS Require Import Base.Sexp Model.Heap Model.Iter Model.Edit Model.EditOps Spec.Tree Spec.ListEdit
  Proofs.HeapBasics Proofs.Views Proofs.ExtractRep Proofs.InsertRep Proofs.EditFrames Proofs.EditBase
  Proofs.EditRep Proofs.ListEditProofs Proofs.EditEffect Proofs.EditConserve.
Import ListNotations.

(* ------------------------------------------------------------------------------------------ *)
(* A. BeautifulSoup-object arguments                                                          *)
(* ------------------------------------------------------------------------------------------ *)

(* ---- list level: kmove_all over a concatenation, with the position the code computes ---- *)

Lemma kmove_In pos c K : In c (kmove pos c K).
Proof.
  unfold kmove. cbv zeta.
  assert (Hi : forall i l, In c (insert_at i c l)).
  { intros i l. eapply Permutation_in; [symmetry; apply insert_at_perm|]. now left. }
  destruct (index_of c K) as [cur|] eqn:E; [|apply Hi].
  destruct (Nat.ltb cur _); [apply Hi|]. destruct (Nat.eqb cur _); [|apply Hi].
  apply index_of_nth in E. eapply nth_error_In; eauto.
Qed.

Lemma kmove_has pos c K : exists i, index_of c (kmove pos c K) = Some i.
Proof. apply index_of_In, kmove_In. Qed.

(* the position after the block J has been placed *)
Fixpoint npos (pos : nat) (J K : list nat) : nat :=
  match J with
  | [] => pos
  | c :: J' => let K' := kmove pos c K in
               npos (match index_of c K' with Some i => S i | None => pos end) J' K'
  end.

Lemma kmove_all_app : forall J R pos K, kmove_all pos (J ++ R) K = kmove_all (npos pos J K) R (kmove_all pos J K).
Proof. induction J as [|c J IH]; intros R pos K; [reflexivity|]. cbn [app kmove_all npos]. apply IH. Qed.

Lemma last_opt_snoc {X} (l : list X) x : last_opt (l ++ [x]) = Some x.
Proof. unfold last_opt. now rewrite rev_app_distr. Qed.

Lemma last_opt_cons {X} (c : X) l : l <> [] -> last_opt (c :: l) = last_opt l.
Proof.
  intros N. destruct l as [|y l] using rev_ind; [congruence|].
  change (c :: l ++ [y]) with ((c :: l) ++ [y]). now rewrite !last_opt_snoc.
Qed.

Lemma last_opt_none {X} (l : list X) : last_opt l = None -> l = [].
Proof. destruct l as [|y l] using rev_ind; [reflexivity|]. rewrite last_opt_snoc. discriminate. Qed.

Lemma npos_last : forall J pos K e, last_opt J = Some e ->
  exists i, index_of e (kmove_all pos J K) = Some i /\ npos pos J K = S i.
Proof.
  induction J as [|c J IH]; intros pos K e H; [discriminate|].
  destruct J as [|c2 J'].
  - cbn in H. inversion H; subst e. cbn [kmove_all npos]. destruct (kmove_has pos c K) as (i & Ei).
    exists i. rewrite Ei. auto.
  - rewrite last_opt_cons in H by discriminate. cbn [kmove_all npos]. now apply IH.
Qed.

(* the position Tag.insert computes for the next argument *)
Lemma model_npos just pos K :
  match last_opt just with
  | Some e => match index_of e (kmove_all pos just K) with Some i => S i | None => pos end
  | None => pos
  end = npos pos just K.
Proof.
  destruct (last_opt just) as [e|] eqn:E.
  - destruct (npos_last just pos K e E) as (i & Ei & ->). now rewrite Ei.
  - apply last_opt_none in E. subst. reflexivity.
Qed.

Lemma others_app_l : forall A B K, others (A ++ B) K = others B (others A K).
Proof. induction A as [|a A IH]; intros B K; cbn [app]; [now rewrite others_nil|]. rewrite !others_cons. apply IH. Qed.

(* ---- the expansion of the arguments ---- *)

(* what one argument stands for, in the state in which it is processed *)
Definition arg_just (s : st) (a : arg) : list nat :=
  match a with
  | AStr _ => [nxt s]
  | AEl x => match kind (hp s x) with KSoup => kids (hp s x) | _ => [x] end
  end.

(* the expansion read off the state at call time, when the arguments do not interact: a string stands for
   the next fresh id, an element for itself, a BeautifulSoup object for its children *)
Fixpoint arg_expansion (h : heap) (n : nat) (args : list arg) : list nat :=
  match args with
  | [] => []
  | AStr _ :: r => n :: arg_expansion h (S n) r
  | AEl x :: r => match kind (h x) with
                  | KSoup => kids (h x) ++ arg_expansion h n r
                  | _ => x :: arg_expansion h n r
                  end
  end.

(* the general truth: a BeautifulSoup object stands for the children it still has when its turn comes, i.e.
   its children at call time minus what the earlier arguments have already taken ([done]) *)
Fixpoint expand (h : heap) (n : nat) (done : list nat) (args : list arg) : list nat :=
  match args with
  | [] => []
  | AStr _ :: r => n :: expand h (S n) (done ++ [n]) r
  | AEl x :: r => match kind (h x) with
                  | KSoup => others done (kids (h x)) ++ expand h n (done ++ others done (kids (h x))) r
                  | _ => x :: expand h n (done ++ [x]) r
                  end
  end.

Lemma arg_expansion_ids : forall args h n, (forall x, In (AEl x) args -> kind (h x) <> KSoup) ->
  arg_expansion h n args = arg_ids n args.
Proof.
  induction args as [|[x|t] args IH]; intros h n H; cbn [arg_expansion arg_ids]; [reflexivity| |].
  - assert (K : kind (h x) <> KSoup) by (apply H; now left).
    rewrite IH by (intros y Hy; apply H; now right). destruct (kind (h x)); congruence.
  - rewrite IH by (intros y Hy; apply H; now right). reflexivity.
Qed.

(* when the naive expansion has no repetition, the arguments do not interact *)
Lemma expand_naive : forall args h n done,
  NoDup (arg_expansion h n args) -> (forall y, In y done -> ~ In y (arg_expansion h n args)) ->
  expand h n done args = arg_expansion h n args.
Proof.
  induction args as [|[x|t] args IH]; intros h n done ND Hd; cbn [arg_expansion expand] in *; [reflexivity| |].
  - destruct (kind (h x)) eqn:Ek.
    + inversion ND as [|? ? Hn ND']; subst. f_equal. apply IH; [exact ND'|].
      intros y Hy Hi. apply in_app_or in Hy. destruct Hy as [Hy|[<-|[]]]; [apply (Hd y Hy); now right | contradiction].
    + inversion ND as [|? ? Hn ND']; subst. f_equal. apply IH; [exact ND'|].
      intros y Hy Hi. apply in_app_or in Hy. destruct Hy as [Hy|[<-|[]]]; [apply (Hd y Hy); now right | contradiction].
    + assert (E : others done (kids (h x)) = kids (h x)).
      { apply others_disjoint. intros y Hy Hi. apply (Hd y Hi). apply in_or_app. now left. }
      rewrite E. f_equal. apply IH; [now apply NoDup_app_r in ND|].
      intros y Hy Hi. apply in_app_or in Hy. destruct Hy as [Hy|Hy].
      * apply (Hd y Hy). apply in_or_app. now right.
      * exact (NoDup_app_disj _ _ y ND Hy Hi).
  - inversion ND as [|? ? Hn ND']; subst. f_equal. apply IH; [exact ND'|].
    intros y Hy Hi. apply in_app_or in Hy. destruct Hy as [Hy|[<-|[]]]; [apply (Hd y Hy); now right | contradiction].
Qed.

(* reading the expansion off a later state of the same call *)
Lemma expand_shift h h1 J : forall args n done,
  (forall x, In (AEl x) args -> kind (h1 x) = kind (h x) /\ kids (h1 x) = others J (kids (h x))) ->
  expand h1 n done args = expand h n (J ++ done) args.
Proof.
  induction args as [|[x|t] args IH]; intros n done H; cbn [expand]; [reflexivity| |].
  - destruct (H x (or_introl eq_refl)) as [Ek Eks]. rewrite Ek.
    assert (H' : forall y, In (AEl y) args -> kind (h1 y) = kind (h y) /\ kids (h1 y) = others J (kids (h y)))
      by (intros y Hy; apply H; now right).
    destruct (kind (h x)).
    + f_equal. rewrite (IH n (done ++ [x]) H'). now rewrite app_assoc.
    + f_equal. rewrite (IH n (done ++ [x]) H'). now rewrite app_assoc.
    + rewrite Eks, <- others_app_l. f_equal. rewrite (IH n _ H'). now rewrite app_assoc.
  - f_equal. rewrite IH by (intros y Hy; apply H; now right). now rewrite app_assoc.
Qed.

(* every child of a BeautifulSoup argument is in the expansion (or had been taken before) *)
Lemma expand_covers : forall args h n done x y, In (AEl x) args -> kind (h x) = KSoup -> In y (kids (h x)) ->
  In y done \/ In y (expand h n done args).
Proof.
  induction args as [|[x0|t] args IH]; intros h n done x y Hx Hk Hy; [contradiction| |].
  - cbn [expand]. destruct Hx as [E|Hx].
    + inversion E; subst x0. rewrite Hk. destruct (in_dec Nat.eq_dec y done) as [Hd|Hd]; [now left|right].
      apply in_or_app. left. apply others_In. auto.
    + destruct (kind (h x0)).
      * destruct (IH h n (done ++ [x0]) x y Hx Hk Hy) as [H|H]; [|right; now right].
        apply in_app_or in H. destruct H as [H|[<-|[]]]; [now left | right; now left].
      * destruct (IH h n (done ++ [x0]) x y Hx Hk Hy) as [H|H]; [|right; now right].
        apply in_app_or in H. destruct H as [H|[<-|[]]]; [now left | right; now left].
      * destruct (IH h n (done ++ others done (kids (h x0))) x y Hx Hk Hy) as [H|H].
        -- apply in_app_or in H. destruct H as [H|H]; [now left | right; apply in_or_app; now left].
        -- right. apply in_or_app. now right.
  - cbn [expand]. destruct Hx as [E|Hx]; [discriminate|].
    destruct (IH h (S n) (done ++ [n]) x y Hx Hk Hy) as [H|H]; [|right; now right].
    apply in_app_or in H. destruct H as [H|[<-|[]]]; [now left | right; now left].
Qed.

(* ---- state level ---- *)

Lemma insert_elems_general : forall cs s d pos s' ins,
  consistent s -> live s d -> is_tag (hp s) d = true ->
  Forall (fun c => live s c /\ ~ anc (hp s) c d /\ par (hp s c) <> None) cs ->
  insert_elems s d pos cs = Ok (s', ins) ->
  ins = cs /\ nxt s' = nxt s /\ into d s s' /\
  kids (hp s' d) = kmove_all pos cs (kids (hp s d)) /\
  (forall q, live s q -> q <> d -> kids (hp s' q) = others cs (kids (hp s q))) /\
  (forall c, In c cs -> par (hp s' c) = Some d) /\
  (forall y, ~ In y cs -> par (hp s' y) = par (hp s y)).
Proof.
  induction cs as [|c cs IH]; intros s d pos s' ins C Ld Td HF H.
  - cbn in H. inversion H; subst. split; [reflexivity|]. split; [reflexivity|]. split; [now apply into_refl|].
    split; [reflexivity|]. split; [intros; now rewrite others_nil|]. split; [intros c []|auto].
  - inversion HF as [|? ? (Lc & Nc & Pc) HF']; subst.
    destruct (move_into s d pos c C Ld Td Lc Nc (or_intror Pc)) as (h' & Hins & Hinto & Ppar & Pfr).
    cbn [insert_elems] in H. rewrite Hins in H. cbv zeta in H.
    remember (with_heap s h') as s1 eqn:Es1.
    assert (Kd1 : kids (hp s1 d) = kmove pos c (kids (hp s d))).
    { subst s1. cbn [with_heap hp]. now apply (insert1_kids_dest s d pos c h'). }
    pose proof Hinto as [E1 P1].
    pose proof (evo_consistent _ _ _ E1) as C1. pose proof (evo_live _ _ _ _ E1 Ld) as Ld1.
    assert (Td1 : is_tag (hp s1) d = true) by (rewrite (evo_tag d s s1 d E1 Ld); exact Td).
    assert (HF1 : Forall (fun c0 => live s1 c0 /\ ~ anc (hp s1) c0 d /\ par (hp s1 c0) <> None) cs).
    { eapply Forall_impl; [|exact HF']. cbv beta. intros c0 (L0 & N0 & P0).
      split; [eapply evo_live; eauto|]. split; [eapply evo_nanc; eauto|].
      destruct (P1 c0 (proj1 L0)) as [Q|Q]; rewrite Q; [exact P0 | discriminate]. }
    destruct (insert_elems s1 d _ cs) as [[s2 ins2]|] eqn:E2; [|discriminate].
    inversion H; subst s2 ins. clear H.
    destruct (IH s1 d _ s' ins2 C1 Ld1 Td1 HF1 E2) as (-> & N' & I' & K' & O' & P' & Pf').
    split; [reflexivity|]. split; [rewrite N'; subst s1; reflexivity|]. split; [eapply into_trans; eauto|].
    split; [|split; [|split]].
    + rewrite K'. cbn [kmove_all]. rewrite Kd1. reflexivity.
    + intros q Lq Nq. rewrite (O' q (evo_live _ _ _ _ E1 Lq) Nq). rewrite others_cons. f_equal.
      subst s1. cbn [with_heap hp]. now apply (insert1_kids_other s d pos c h' q).
    + intros c0 [<-|Hc0]; [|now apply P'].
      assert (Lc1 : live s1 c) by (eapply evo_live; eauto).
      assert (Pc1 : par (hp s1 c) = Some d) by (subst s1; exact Ppar).
      destruct I' as [_ P2]. destruct (P2 c (proj1 Lc1)) as [Q|Q]; rewrite Q; auto.
    + intros y Hy. rewrite Pf' by (intros Hi; apply Hy; now right). subst s1. cbn [with_heap hp].
      apply Pfr. intros ->. apply Hy. now left.
Qed.

Lemma arg_just_nonsoup s a : nonsoup s a -> arg_just s a = [arg_id (nxt s) a].
Proof. destruct a as [x|t]; cbn [nonsoup arg_just arg_id]; [|reflexivity]. destruct (kind (hp s x)); congruence. Qed.

(* one argument of any kind *)
Lemma insert_arg_general s d pos a s1 just :
  consistent s -> live s d -> is_tag (hp s) d = true -> arg_ok s d a ->
  insert_arg s d pos a = Ok (s1, just) ->
  just = arg_just s a /\ nxt s1 = nxt s + nstr [a] /\ into d s s1 /\
  kids (hp s1 d) = kmove_all pos just (kids (hp s d)) /\
  (forall q, live s q -> q <> d -> kids (hp s1 q) = others just (kids (hp s q))) /\
  (forall c, In c just -> par (hp s1 c) = Some d /\ c < nxt s1) /\
  (forall y, y < nxt s -> ~ In y just -> par (hp s1 y) = par (hp s y)).
Proof.
  intros C L T A H.
  assert (NS : nonsoup s a \/ exists x, a = AEl x /\ kind (hp s x) = KSoup).
  { destruct a as [x|t]; [|left; exact I]. cbn [nonsoup]. destruct (kind (hp s x)) eqn:E; [left|left|right]; try discriminate. eauto. }
  destruct NS as [K|(x & -> & K)].
  - assert (H1 : insert_args s d pos [a] = Ok (s1, just ++ [])) by (cbn [insert_args]; rewrite H; reflexivity).
    destruct (insert_args_one s d pos a s1 _ C L T A K H1) as (E & N & Lt1 & I1 & K1 & O1 & P1 & Pf1).
    rewrite app_nil_r in E. rewrite (arg_just_nonsoup s a K). subst just.
    split; [reflexivity|]. split; [exact N|]. split; [exact I1|]. split; [exact K1|].
    split; [intros q Lq Nq; rewrite (O1 q Lq Nq); symmetry; apply others_one|].
    split; [intros c [<-|[]]; split; [exact P1 | exact Lt1]|]. intros y Hy Hn. apply Pf1; auto. intros ->. apply Hn. now left.
  - destruct A as [Lx Nx]. cbn [arg_just]. rewrite K. unfold insert_arg in H.
    assert (Hne : x <> d) by (intros ->; apply Nx; constructor).
    apply Nat.eqb_neq in Hne. rewrite Hne, K in H.
    assert (HF : Forall (fun c => live s c /\ ~ anc (hp s) c d /\ par (hp s c) <> None) (kids (hp s x))).
    { apply Forall_forall. intros c Hc.
      destruct (kids_facts s x c C Lx Hc) as [Lc Pc]. split; [exact Lc|]. split; [|congruence].
      intros Ha. apply Nx. eapply anc_up; eauto. }
    destruct (insert_elems_general _ s d pos s1 just C L T HF H) as (-> & N & I1 & K1 & O1 & P1 & Pf1).
    split; [reflexivity|]. split; [cbn [nstr]; lia|]. split; [exact I1|]. split; [exact K1|]. split; [exact O1|].
    split; [|intros y _ Hn; now apply Pf1].
    intros c Hc. split; [now apply P1|]. rewrite N. rewrite Forall_forall in HF. destruct (HF c Hc) as [[Hlt _] _]. exact Hlt.
Qed.

Lemma nstr_cons a args : nstr (a :: args) = nstr [a] + nstr args.
Proof. destruct a; cbn [nstr]; lia. Qed.

(* Tag.insert with arguments of any kind: the general truth *)
Lemma insert_args_general : forall args s d pos s' ins,
  consistent s -> live s d -> is_tag (hp s) d = true -> Forall (arg_ok s d) args ->
  insert_args s d pos args = Ok (s', ins) ->
  ins = expand (hp s) (nxt s) [] args /\ nxt s' = nxt s + nstr args /\ into d s s' /\
  kids (hp s' d) = kmove_all pos ins (kids (hp s d)) /\
  (forall q, live s q -> q <> d -> kids (hp s' q) = others ins (kids (hp s q))) /\
  (forall c, In c ins -> par (hp s' c) = Some d) /\
  (forall y, y < nxt s -> ~ In y ins -> par (hp s' y) = par (hp s y)) /\
  (forall c, In c ins -> c < nxt s').
Proof.
  induction args as [|a args IH]; intros s d pos s' ins C Ld Td HF H.
  - cbn in H. inversion H; subst. cbn [expand nstr kmove_all]. split; [reflexivity|]. split; [lia|].
    split; [now apply into_refl|]. split; [reflexivity|]. split; [intros; now rewrite others_nil|]. split; [intros c []|].
    split; [auto | intros c []].
  - inversion HF as [|? ? Ha HF']; subst. cbn [insert_args] in H.
    destruct (insert_arg s d pos a) as [[s1 just]|] eqn:E1; [|discriminate].
    destruct (insert_arg_general s d pos a s1 just C Ld Td Ha E1) as (Ej & N1 & I1 & K1 & O1 & P1 & Pf1).
    pose proof I1 as [Ev1 Q1]. pose proof (evo_consistent _ _ _ Ev1) as C1. pose proof (evo_live _ _ _ _ Ev1 Ld) as Ld1.
    assert (Td1 : is_tag (hp s1) d = true) by (rewrite (evo_tag d s s1 d Ev1 Ld); exact Td).
    rewrite K1, model_npos in H.
    destruct (insert_args s1 d _ args) as [[s2 ins2]|] eqn:E2; [|discriminate].
    inversion H; subst s2 ins. clear H.
    destruct (IH s1 d _ s' ins2 C1 Ld1 Td1 (Forall_arg_ok_evo _ _ _ _ Ev1 HF') E2) as (Ei & N2 & I2 & K2 & O2 & P2 & Pf2 & Lt2).
    assert (Nle : nxt s <= nxt s1) by lia.
    split; [|split; [|split; [|split; [|split; [|split; [|split]]]]]].
    + (* the expansion, read off the call-time state *)
      rewrite Ei. rewrite (expand_shift (hp s) (hp s1) just args (nxt s1) []).
      2:{ intros x Hx. rewrite Forall_forall in HF'. destruct (HF' _ Hx) as [Lx Nx]. split.
          - exact (evo_kind d s s1 x Ev1 (proj1 Lx)).
          - apply O1; [exact Lx|]. intros ->. apply Nx. constructor. }
      rewrite app_nil_r, N1, Ej. destruct a as [x|t]; cbn [expand arg_just nstr app].
      * rewrite Nat.add_0_r. destruct (kind (hp s x)); cbn [app]; rewrite ?others_nil; reflexivity.
      * now rewrite Nat.add_1_r.
    + rewrite N2, N1, (nstr_cons a args). lia.
    + eapply into_trans; eauto.
    + rewrite K2, K1. symmetry. apply kmove_all_app.
    + intros q Lq Nq. rewrite (O2 q (evo_live _ _ _ _ Ev1 Lq) Nq), (O1 q Lq Nq). symmetry. apply others_app_l.
    + intros c Hc. apply in_app_or in Hc. destruct Hc as [Hc|Hc]; [|now apply P2].
      destruct (P1 c Hc) as [Pc Lc1]. rewrite <- Pc.
      destruct I2 as [_ Q2]. destruct (Q2 c Lc1) as [Q|Q]; rewrite Q; auto.
    + intros y Hy Hn. rewrite Pf2; [apply Pf1; [exact Hy|] | lia |]; intros Hi; apply Hn; apply in_or_app; auto.
    + intros c Hc. apply in_app_or in Hc. destruct Hc as [Hc|Hc]; [|now apply Lt2]. destruct (P1 c Hc) as [_ Hlt]. lia.
Qed.

(* ---- the calls ---- *)

(* where the expansion ends up, and that nothing else moves *)
Definition placed (s s' : st) (d : nat) (ids : list nat) : Prop :=
  (forall q, live s q -> q <> d -> kids (hp s' q) = others ids (kids (hp s q))) /\
  (forall c, In c ids -> par (hp s' c) = Some d) /\
  (forall y, y < nxt s -> ~ In y ids -> par (hp s' y) = par (hp s y)).

(* a BeautifulSoup argument ends up childless, and stays where it was unless it was itself moved *)
Definition soups_emptied (s s' : st) (args : list arg) (ids : list nat) : Prop :=
  forall x, In (AEl x) args -> kind (hp s x) = KSoup ->
    kids (hp s' x) = [] /\ (~ In x ids -> par (hp s' x) = par (hp s x)).

Lemma expand_naive0 h n args : NoDup (arg_expansion h n args) -> expand h n [] args = arg_expansion h n args.
Proof. intros ND. apply expand_naive; [exact ND | intros y []]. Qed.

(* where the elements of the expansion come from *)
Lemma expand_in : forall args h n done y, In y (expand h n done args) ->
  n <= y \/ (In (AEl y) args /\ kind (h y) <> KSoup) \/
  exists x, In (AEl x) args /\ kind (h x) = KSoup /\ In y (kids (h x)).
Proof.
  induction args as [|[x|t] args IH]; intros h n done y H; cbn [expand] in H; [contradiction| |].
  - assert (Rec : forall n' done', In y (expand h n' done' args) -> n <= n' ->
       n <= y \/ (In (AEl y) (AEl x :: args) /\ kind (h y) <> KSoup) \/
       exists x0, In (AEl x0) (AEl x :: args) /\ kind (h x0) = KSoup /\ In y (kids (h x0))).
    { intros n' done' Hy Hn. destruct (IH h n' done' y Hy) as [H1|[[H1 H2]|(x0 & H1 & H2 & H3)]].
      - left. lia.
      - right. left. split; [now right | exact H2].
      - right. right. exists x0. split; [now right | auto]. }
    destruct (kind (h x)) eqn:Ek.
    + destruct H as [<-|H]; [right; left; split; [now left | rewrite Ek; discriminate] | apply (Rec _ _ H); lia].
    + destruct H as [<-|H]; [right; left; split; [now left | rewrite Ek; discriminate] | apply (Rec _ _ H); lia].
    + apply in_app_or in H. destruct H as [H|H]; [|apply (Rec _ _ H); lia].
      right. right. exists x. split; [now left|]. split; [exact Ek|]. apply others_In in H. tauto.
  - destruct H as [<-|H]; [left; lia|]. destruct (IH h (S n) _ y H) as [H1|[[H1 H2]|(x0 & H1 & H2 & H3)]].
    + left. lia.
    + right. left. split; [now right | exact H2].
    + right. right. exists x0. split; [now right | auto].
Qed.

Lemma soups_emptied_of s s' d args ids :
  consistent s -> Forall (arg_ok s d) args -> ids = expand (hp s) (nxt s) [] args -> placed s s' d ids ->
  soups_emptied s s' args ids.
Proof.
  intros C A -> (O & _ & Pf) x Hx Hk. rewrite Forall_forall in A. destruct (A _ Hx) as [Lx Nx].
  assert (Nd : x <> d) by (intros ->; apply Nx; constructor).
  split; [|intros Hn; apply Pf; [apply Lx | exact Hn]].
  rewrite (O x Lx Nd). apply others_all. intros y Hy.
  destruct (expand_covers args (hp s) (nxt s) [] x y Hx Hk Hy) as [[]|H]. exact H.
Qed.

Lemma kmove_all_end J K pos : NoDup J -> NoDup K -> length K <= pos -> kmove_all pos J K = others J K ++ J.
Proof.
  intros NJ NK Hp. rewrite kmove_all_spec by assumption. rewrite splice_spec_split, firstn_all2, skipn_all2 by lia.
  unfold others at 2. cbn [filter]. now rewrite app_nil_r.
Qed.

(* insert: the general truth (the expansion [expand] takes the interaction of the arguments into account) *)
Theorem op_insert_expansion s self pos args s' :
  consistent s -> wf_op s (OInsert self pos args) -> op_insert s self pos args = Ok s' ->
  let ids := expand (hp s) (nxt s) [] args in
  nxt s' = nxt s + nstr args /\
  kids (hp s' self) = kmove_all pos ids (kids (hp s self)) /\
  (NoDup ids -> kids (hp s' self) = splice_spec pos ids (kids (hp s self))) /\
  placed s s' self ids /\ soups_emptied s s' args ids.
Proof.
  intros C (L & T & A) H. cbv zeta. unfold op_insert in H.
  destruct (insert_args s self pos args) as [[s2 ins]|] eqn:E; [|discriminate]. inversion H; subst s2.
  destruct (insert_args_general args s self pos s' ins C L T A E) as (Ei & N & _ & K & O & P & Pf & _).
  subst ins. assert (Pl : placed s s' self (expand (hp s) (nxt s) [] args)) by (split; [exact O | split; [exact P | exact Pf]]).
  split; [exact N|]. split; [exact K|]. split; [|split; [exact Pl | eapply soups_emptied_of; eauto]].
  intros ND. rewrite K. apply kmove_all_spec; [exact ND | now apply kids_NoDup].
Qed.

(* insert, when the arguments do not interact: the documented effect on the call-time expansion *)
Theorem op_insert_soup_documented s self pos args s' :
  consistent s -> wf_op s (OInsert self pos args) -> op_insert s self pos args = Ok s' ->
  let ids := arg_expansion (hp s) (nxt s) args in
  NoDup ids ->
  nxt s' = nxt s + nstr args /\
  kids (hp s' self) = splice_spec pos ids (kids (hp s self)) /\
  placed s s' self ids /\ soups_emptied s s' args ids.
Proof.
  intros C W H ids ND. destruct (op_insert_expansion s self pos args s' C W H) as (N & _ & K & Pl & Se).
  cbv zeta in *. rewrite (expand_naive0 _ _ _ ND) in *. fold ids in K, Pl, Se. auto.
Qed.

(* append: the expansion of the argument, in order, at the end *)
Theorem op_append_soup_documented s self a s' :
  consistent s -> wf_op s (OAppend self a) -> op_append s self a = Ok s' ->
  let ids := arg_just s a in
  nxt s' = nxt s + nstr [a] /\
  kids (hp s' self) = others ids (kids (hp s self)) ++ ids /\
  placed s s' self ids /\ soups_emptied s s' [a] ids.
Proof.
  intros C (L & T & A) H ids. unfold op_append in H.
  assert (W : wf_op s (OInsert self (length (kids (hp s self))) [a])) by (split; [exact L | split; [exact T | now constructor]]).
  destruct (op_insert_expansion s self _ [a] s' C W H) as (N & K & _ & Pl & Se). cbv zeta in *.
  assert (Ei : expand (hp s) (nxt s) [] [a] = ids).
  { unfold ids. destruct a as [x|t]; cbn [expand arg_just]; [|reflexivity].
    destruct (kind (hp s x)); cbn [app]; rewrite ?others_nil, ?app_nil_r; reflexivity. }
  rewrite Ei in *. split; [exact N|]. split; [|auto]. rewrite K. apply kmove_all_end; [|now apply kids_NoDup | lia].
  unfold ids. destruct a as [x|t]; cbn [arg_just]; [|constructor; [intros []|constructor]].
  destruct A as [Lx _]. destruct (kind (hp s x)); try (constructor; [intros []|constructor]). now apply kids_NoDup.
Qed.

(* replace_with *)
Theorem op_replace_with_expansion s self p args s' :
  consistent s -> wf_op s (OReplaceWith self args) -> ~ In (AEl self) args ->
  par (hp s self) = Some p -> op_replace_with s self args = Ok s' ->
  let ids := expand (hp s) (nxt s) [] args in
  nxt s' = nxt s + nstr args /\ par (hp s' self) = None /\
  (NoDup ids -> kids (hp s' p) = replace_spec self ids (kids (hp s p))) /\
  (forall q, live s q -> q <> p -> kids (hp s' q) = others ids (kids (hp s q))) /\
  (forall c, In c ids -> par (hp s' c) = Some p) /\
  (forall y, y < nxt s -> y <> self -> ~ In y ids -> par (hp s' y) = par (hp s y)) /\
  soups_emptied s s' args ids.
Proof.
  intros C (L & p' & P' & A) Hn P H. cbv zeta. assert (p' = p) by congruence. subst p'.
  destruct (parent_facts s self p C L P) as (Lp & Tp & Hin). destruct (index_of_In _ _ Hin) as (idx & Eidx).
  pose proof (replace_with_as_insert_gen s self p args s' idx P A Hn Eidx H) as G.
  destruct (extract_step s self C L) as (Ev & K1 & P1 & Pf1). cbv zeta in *.
  remember (with_heap s (extract (fuel_of s) (hp s) self)) as s1 eqn:Es1.
  assert (N1 : nxt s1 = nxt s) by (subst s1; reflexivity).
  pose proof (evo_consistent _ _ _ (Ev p)) as C1. pose proof (evo_live _ _ _ _ (Ev p) Lp) as Lp1.
  assert (Tp1 : is_tag (hp s1) p = true) by (rewrite (evo_tag p s s1 p (Ev p) Lp); exact Tp).
  unfold op_insert in G. destruct (insert_args s1 p idx args) as [[s2 ins]|] eqn:E; [|discriminate]. inversion G; subst s2.
  destruct (insert_args_general args s1 p idx s' ins C1 Lp1 Tp1 (Forall_arg_ok_evo _ _ _ _ (Ev p) A) E)
    as (Ei & N2 & _ & K2 & O2 & P2 & Pf2 & _).
  (* the expansion is the same read off s: an argument is not p, so extracting self did not touch its children *)
  assert (Es : expand (hp s1) (nxt s1) [] args = expand (hp s) (nxt s) [] args).
  { rewrite N1. rewrite (expand_shift (hp s) (hp s1) [] args (nxt s) []); [reflexivity|].
    intros x Hx. rewrite Forall_forall in A. destruct (A _ Hx) as [Lx Nx]. split.
    - exact (evo_kind p s s1 x (Ev p) (proj1 Lx)).
    - rewrite others_nil, (K1 x Lx). apply drop_not_kid; auto. intros Q. assert (x = p) by congruence. subst x. apply Nx. constructor. }
  rewrite Es in Ei. subst ins. rewrite N1 in *.
  assert (Hself : ~ In self (expand (hp s) (nxt s) [] args)).
  { intros Hi. destruct (expand_in args (hp s) (nxt s) [] self Hi) as [H0|[[H0 _]|(x & Hx & Hk & Hy)]].
    - destruct L; lia.
    - contradiction.
    - rewrite Forall_forall in A. destruct (A _ Hx) as [Lx Nx]. destruct (kids_facts s x self C Lx Hy) as [_ Ps].
      assert (x = p) by congruence. subst x. apply Nx. constructor. }
  assert (Oq : forall q, live s q -> q <> p -> kids (hp s' q) = others (expand (hp s) (nxt s) [] args) (kids (hp s q))).
  { intros q Lq Nq. rewrite (O2 q (evo_live _ _ _ _ (Ev p) Lq) Nq), (K1 q Lq).
    rewrite (drop_not_kid s q self C Lq); [reflexivity | congruence]. }
  split; [exact (op_replace_with_nxt _ _ _ _ H)|]. split; [rewrite (Pf2 self (proj1 L) Hself); exact P1|].
  split; [|split; [exact Oq|split; [exact P2|split]]].
  - intros ND. rewrite K2. rewrite (K1 p Lp), <- (kremove_drop self _ (kids_NoDup s p C Lp)). unfold kremove. rewrite Eidx.
    assert (Er : kmove_all idx (expand (hp s) (nxt s) [] args) (remove_at idx (kids (hp s p))) =
                 kreplace self (expand (hp s) (nxt s) [] args) (kids (hp s p))) by (unfold kreplace; now rewrite Eidx).
    rewrite Er. apply kreplace_spec; auto. now apply kids_NoDup.
  - intros y Hy Ny Hi. rewrite (Pf2 y Hy Hi). now apply Pf1.
  - intros x Hx Hk. rewrite Forall_forall in A. destruct (A _ Hx) as [Lx Nx].
    assert (Nxp : x <> p) by (intros ->; apply Nx; constructor).
    split.
    + rewrite (Oq x Lx Nxp). apply others_all. intros y Hy.
      destruct (expand_covers args (hp s) (nxt s) [] x y Hx Hk Hy) as [[]|H0]. exact H0.
    + intros Hni. rewrite (Pf2 x (proj1 Lx) Hni). apply Pf1. intros ->. apply Hn. exact Hx.
Qed.

(* extend(list) *)

Lemma expand_cons s a args :
  expand (hp s) (nxt s) [] (a :: args) = arg_just s a ++ expand (hp s) (nxt s + nstr [a]) (arg_just s a) args.
Proof.
  destruct a as [x|t]; cbn [expand arg_just nstr app].
  - rewrite Nat.add_0_r. destruct (kind (hp s x)); cbn [app]; rewrite ?others_nil; reflexivity.
  - now rewrite Nat.add_1_r.
Qed.

Lemma expand_single s a : expand (hp s) (nxt s) [] [a] = arg_just s a.
Proof. rewrite expand_cons. cbn [expand]. apply app_nil_r. Qed.

(* the expansion of the remaining arguments, read off the state after the first one *)
Lemma expand_next s s1 d a args :
  evo d s s1 -> Forall (arg_ok s d) args ->
  (forall q, live s q -> q <> d -> kids (hp s1 q) = others (arg_just s a) (kids (hp s q))) ->
  forall n, expand (hp s1) n [] args = expand (hp s) n (arg_just s a) args.
Proof.
  intros Ev A O n. rewrite (expand_shift (hp s) (hp s1) (arg_just s a) args n []); [now rewrite app_nil_r|].
  intros x Hx. rewrite Forall_forall in A. destruct (A _ Hx) as [Lx Nx]. split.
  - exact (evo_kind d s s1 x Ev (proj1 Lx)).
  - apply O; [exact Lx|]. intros ->. apply Nx. constructor.
Qed.

Lemma placed_trans s s1 s' d J R :
  evo d s s1 -> into d s1 s' -> placed s s1 d J -> (forall c, In c J -> c < nxt s1) -> placed s1 s' d R ->
  placed s s' d (J ++ R).
Proof.
  intros Ev [Ev2 Q2] (O1 & P1 & Pf1) Lt (O2 & P2 & Pf2).
  assert (Nle : nxt s <= nxt s1) by (destruct Ev as (_ & N & _); exact N).
  split; [|split].
  - intros q Lq Nq. rewrite (O2 q (evo_live _ _ _ _ Ev Lq) Nq), (O1 q Lq Nq). symmetry. apply others_app_l.
  - intros c Hc. apply in_app_or in Hc. destruct Hc as [Hc|Hc]; [|now apply P2].
    destruct (Q2 c (Lt c Hc)) as [Q|Q]; rewrite Q; auto.
  - intros y Hy Hn. rewrite Pf2; [apply Pf1; [exact Hy|] | lia |]; intros Hi; apply Hn; apply in_or_app; auto.
Qed.

Lemma NoDup_app_parts (A B : list nat) : NoDup (A ++ B) -> NoDup A /\ NoDup B /\ (forall x, In x A -> ~ In x B).
Proof.
  intros ND. split; [now apply NoDup_app_l in ND|]. split; [now apply NoDup_app_r in ND|].
  intros x HA HB. exact (NoDup_app_disj _ _ x ND HA HB).
Qed.

Lemma append_all_general : forall args s d s',
  consistent s -> live s d -> is_tag (hp s) d = true -> Forall (arg_ok s d) args ->
  NoDup (expand (hp s) (nxt s) [] args) ->
  append_all s d args = Ok s' ->
  into d s s' /\
  kids (hp s' d) = others (expand (hp s) (nxt s) [] args) (kids (hp s d)) ++ expand (hp s) (nxt s) [] args /\
  placed s s' d (expand (hp s) (nxt s) [] args).
Proof.
  induction args as [|a args IH]; intros s d s' C Ld Td HF ND H.
  - cbn in H. inversion H; subst. cbn [expand]. split; [now apply into_refl|]. rewrite others_nil, app_nil_r.
    split; [reflexivity|]. split; [intros; now rewrite others_nil|]. split; [intros c []|auto].
  - inversion HF as [|? ? Ha HF']; subst. cbn [append_all] in H. unfold op_append, op_insert in H.
    destruct (insert_args s d (length (kids (hp s d))) [a]) as [[s1 ins]|] eqn:E1; [|discriminate].
    destruct (insert_args_general [a] s d _ s1 ins C Ld Td (Forall_cons _ Ha (Forall_nil _)) E1)
      as (Ei & N1 & I1 & K1 & O1 & P1 & Pf1 & Lt1).
    rewrite expand_single in Ei. subst ins. rewrite expand_cons in ND |- *.
    remember (arg_just s a) as J eqn:EJ.
    pose proof I1 as [Ev1 _]. pose proof (evo_consistent _ _ _ Ev1) as C1. pose proof (evo_live _ _ _ _ Ev1 Ld) as Ld1.
    assert (Td1 : is_tag (hp s1) d = true) by (rewrite (evo_tag d s s1 d Ev1 Ld); exact Td).
    assert (En : expand (hp s1) (nxt s1) [] args = expand (hp s) (nxt s + nstr [a]) J args).
    { rewrite N1, EJ. apply (expand_next s s1 d a args Ev1 HF'). rewrite <- EJ. exact O1. }
    destruct (NoDup_app_parts _ _ ND) as (NJ & NR & Dis).
    rewrite <- En in *. remember (expand (hp s1) (nxt s1) [] args) as R eqn:ER.
    destruct (IH s1 d s' C1 Ld1 Td1 (Forall_arg_ok_evo _ _ _ _ Ev1 HF') ltac:(rewrite <- ER; exact NR) H) as (I2 & K2 & Pl2).
    rewrite <- ER in *.
    split; [eapply into_trans; eauto|]. split.
    + rewrite K2, K1. rewrite kmove_all_end; [|exact NJ | now apply kids_NoDup | lia].
      rewrite others_app, <- others_app_l, <- app_assoc. f_equal. f_equal.
      apply others_disjoint. intros x Hx Hr. exact (Dis x Hx Hr).
    + apply (placed_trans s s1 s' d J R Ev1 I2); [split; [exact O1 | split; [exact P1 | exact Pf1]] | exact Lt1 | exact Pl2].
Qed.

Theorem op_extend_list_expansion s self args s' :
  consistent s -> wf_op s (OExtendList self args) -> op_extend_list s self args = Ok s' ->
  let ids := expand (hp s) (nxt s) [] args in
  NoDup ids ->
  nxt s' = nxt s + nstr args /\
  kids (hp s' self) = others ids (kids (hp s self)) ++ ids /\
  placed s s' self ids /\ soups_emptied s s' args ids.
Proof.
  intros C (L & T & A) H ids ND. unfold op_extend_list in H. split; [exact (append_all_nxt _ _ _ _ H)|].
  destruct (append_all_general args s self s' C L T A ND H) as (_ & K & Pl). split; [exact K|]. split; [exact Pl|].
  eapply soups_emptied_of; eauto.
Qed.

(* ---- insert_before / insert_after with BeautifulSoup arguments ---- *)

(* list level *)
Lemma index_of_In_rev x l i : index_of x l = Some i -> In x l.
Proof. intros H. apply index_of_nth in H. eapply nth_error_In; eauto. Qed.

Lemma anchor_split self K i : NoDup K -> index_of self K = Some i ->
  exists P Q, K = P ++ self :: Q /\ i = length P /\ ~ In self P /\ ~ In self Q.
Proof.
  intros ND H. destruct (in_split_nodup self K ND (index_of_In_rev _ _ _ H)) as (P & Q & -> & HP & HQ).
  exists P, Q. rewrite (index_of_app_here self P Q HP) in H. inversion H. auto.
Qed.

Lemma others_keep x cs : ~ In x cs -> forall Q, others cs (x :: Q) = x :: others cs Q.
Proof. intros N Q. unfold others. cbn [filter]. now rewrite (mem_notin x cs N). Qed.

Lemma kmove_all_anchor_before J K self i : NoDup J -> NoDup K -> index_of self K = Some i -> ~ In self J ->
  kmove_all i J K = before_spec self J K.
Proof.
  intros NJ NK H Hn. destruct (anchor_split self K i NK H) as (P & Q & -> & -> & HP & HQ).
  rewrite kmove_all_spec, splice_spec_split, before_spec_split by assumption.
  rewrite firstn_app, firstn_all, Nat.sub_diag, skipn_app, skipn_all, Nat.sub_diag. cbn [firstn skipn app].
  rewrite app_nil_r. now rewrite (others_keep self J Hn).
Qed.

Lemma kmove_all_anchor_after J K self i : NoDup J -> NoDup K -> index_of self K = Some i -> ~ In self J ->
  kmove_all (S i) J K = after_spec self J K.
Proof.
  intros NJ NK H Hn. destruct (anchor_split self K i NK H) as (P & Q & -> & -> & HP & HQ).
  rewrite kmove_all_spec, splice_spec_split, after_spec_split by assumption.
  replace (P ++ self :: Q) with ((P ++ [self]) ++ Q) by (now rewrite <- app_assoc).
  replace (S (length P)) with (length (P ++ [self])) by (rewrite app_length; cbn; lia).
  rewrite firstn_app, firstn_all, Nat.sub_diag, skipn_app, skipn_all, Nat.sub_diag. cbn [firstn skipn app].
  rewrite app_nil_r, others_app, (others_single J self Hn), <- app_assoc. reflexivity.
Qed.

Lemma others_disjoint_l R J : (forall x, In x J -> ~ In x R) -> others R J = J.
Proof. intros H. apply others_disjoint. exact H. Qed.

Lemma before_spec_app self J R K :
  NoDup K -> In self K -> ~ In self (J ++ R) -> (forall x, In x J -> ~ In x R) -> NoDup (before_spec self J K) ->
  before_spec self (J ++ R) K = before_spec self R (before_spec self J K).
Proof.
  intros NK Hin Hn Dis ND1. destruct (in_split_nodup self K NK Hin) as (P & Q & -> & HP & HQ).
  assert (HnJ : ~ In self J) by (intros H; apply Hn, in_or_app; now left).
  assert (HnR : ~ In self R) by (intros H; apply Hn, in_or_app; now right).
  rewrite (before_spec_split self J P Q NK HnJ) in *. rewrite (before_spec_split self (J ++ R) P Q NK Hn).
  assert (E : others J P ++ J ++ self :: others J Q = (others J P ++ J) ++ self :: others J Q) by now rewrite app_assoc.
  rewrite E in ND1 |- *. rewrite (before_spec_split self R _ _ ND1 HnR).
  rewrite others_app, (others_disjoint_l R J Dis), <- !others_app_l, <- !app_assoc. reflexivity.
Qed.

Lemma after_spec_app self J R K :
  NoDup K -> In self K -> ~ In self (J ++ R) -> (forall x, In x J -> ~ In x R) -> NoDup (after_spec self J K) ->
  after_spec self (J ++ R) K =
  after_spec (match last_opt J with Some e => e | None => self end) R (after_spec self J K).
Proof.
  intros NK Hin Hn Dis ND1. destruct (in_split_nodup self K NK Hin) as (P & Q & -> & HP & HQ).
  assert (HnJ : ~ In self J) by (intros H; apply Hn, in_or_app; now left).
  assert (HnR : ~ In self R) by (intros H; apply Hn, in_or_app; now right).
  rewrite (after_spec_split self J P Q NK HnJ) in *. rewrite (after_spec_split self (J ++ R) P Q NK Hn).
  destruct J as [|e0 J0] using rev_ind.
  - cbn [last_opt rev app] in *. rewrite !others_nil in *. now rewrite (after_spec_split self R P Q NK HnR).
  - clear IHJ0. rewrite last_opt_snoc.
    assert (HeR : ~ In e0 R) by (apply Dis, in_or_app; right; now left).
    assert (E : others (J0 ++ [e0]) P ++ self :: (J0 ++ [e0]) ++ others (J0 ++ [e0]) Q =
                (others (J0 ++ [e0]) P ++ self :: J0) ++ e0 :: others (J0 ++ [e0]) Q)
      by (rewrite <- !app_assoc; reflexivity).
    rewrite E in ND1 |- *. rewrite (after_spec_split e0 R _ _ ND1 HeR).
    rewrite others_app, (others_keep self R HnR).
    rewrite (others_disjoint_l R J0) by (intros x Hx; apply Dis, in_or_app; now left).
    rewrite <- !others_app_l. rewrite <- ?app_assoc. cbn [app]. rewrite <- ?app_assoc. reflexivity.
Qed.

(* BeautifulSoup objects among the arguments are roots (they always are in documents built by the library) *)
Definition soup_root (s : st) (a : arg) : Prop :=
  match a with AEl x => kind (hp s x) = KSoup -> par (hp s x) = None | AStr _ => True end.

(* one round of the loops: extract the argument, _insert it (its expansion) under p at pos *)
Lemma round_general s p pos a s2 ins :
  consistent s -> live s p -> is_tag (hp s) p = true -> arg_ok s p a -> soup_root s a ->
  insert_args (extract_arg s a) p pos [a] = Ok (s2, ins) ->
  ins = arg_just s a /\ nxt s2 = nxt s + nstr [a] /\ evo p s s2 /\
  (forall y, y < nxt s -> par (hp s2 y) = par (hp s y) \/ par (hp s2 y) = Some p) /\
  placed s s2 p ins /\ (forall c, In c ins -> c < nxt s2) /\
  ((nonsoup s a /\ ins = [arg_id (nxt s) a] /\
    kids (hp (extract_arg s a) p) = kremove (arg_id (nxt s) a) (kids (hp s p)) /\
    kids (hp s2 p) = kmove pos (arg_id (nxt s) a) (kremove (arg_id (nxt s) a) (kids (hp s p)))) \/
   (kids (hp (extract_arg s a) p) = kids (hp s p) /\ kids (hp s2 p) = kmove_all pos ins (kids (hp s p)) /\ NoDup ins)).
Proof.
  intros C Lp Tp Ha Hr H.
  assert (NS : nonsoup s a \/ exists x, a = AEl x /\ kind (hp s x) = KSoup).
  { destruct a as [x|t]; [|left; exact I]. cbn [nonsoup]. destruct (kind (hp s x)) eqn:E; [left|left|right]; try discriminate. eauto. }
  destruct NS as [K|(x & -> & K)].
  - destruct (loop_round s p pos a s2 ins C Lp Tp Ha K H) as (E & N2 & Lx & Ev & Kp1 & K2 & O2 & P2 & Pf2).
    rewrite (arg_just_nonsoup s a K). subst ins.
    split; [reflexivity|]. split; [exact N2|]. split; [exact Ev|]. split.
    { intros y Hy. destruct (Nat.eq_dec y (arg_id (nxt s) a)) as [->|Ny]; [now right | left; now apply Pf2]. }
    split.
    { split; [intros q Lq Nq; rewrite (O2 q Lq Nq); symmetry; apply others_one|].
      split; [intros c [<-|[]]; exact P2|]. intros y Hy Hn. apply Pf2; auto. intros ->. apply Hn. now left. }
    split; [intros c [<-|[]]; exact Lx|]. left. auto.
  - destruct Ha as [Lx Nx]. cbn [soup_root] in Hr. specialize (Hr K). cbn [extract_arg] in H |- *.
    destruct (extract_step s x C Lx) as (Ev & K1 & P1 & Pf1). cbv zeta in *.
    remember (with_heap s (extract (fuel_of s) (hp s) x)) as s1 eqn:Es1.
    assert (N1 : nxt s1 = nxt s) by (subst s1; reflexivity).
    assert (Ks : forall q, live s q -> kids (hp s1 q) = kids (hp s q)).
    { intros q Lq. rewrite (K1 q Lq). apply drop_not_kid; auto. rewrite Hr. discriminate. }
    assert (Ps : forall y, par (hp s1 y) = par (hp s y)).
    { intros y. destruct (Nat.eq_dec y x) as [->|Ny]; [now rewrite P1, Hr | now apply Pf1]. }
    pose proof (evo_consistent _ _ _ (Ev p)) as C1. pose proof (evo_live _ _ _ _ (Ev p) Lp) as Lp1.
    assert (Tp1 : is_tag (hp s1) p = true) by (rewrite (evo_tag p s s1 p (Ev p) Lp); exact Tp).
    assert (Ha1 : arg_ok s1 p (AEl x)) by (apply (arg_ok_evo p s s1 (AEl x) (Ev p)); split; assumption).
    destruct (insert_args_general [AEl x] s1 p pos s2 ins C1 Lp1 Tp1 (Forall_cons _ Ha1 (Forall_nil _)) H)
      as (Ei & N2 & [Ev2 Q2] & K2 & O2 & P2 & Pf2 & Lt2).
    rewrite expand_single in Ei. cbn [arg_just] in Ei |- *.
    rewrite (evo_kind p s s1 x (Ev p) (proj1 Lx)), K, (Ks x Lx) in Ei. rewrite K. subst ins.
    split; [reflexivity|]. split; [cbn [nstr] in *; lia|]. split; [eapply evo_trans; eauto|]. split.
    { intros y Hy. rewrite <- (Ps y). apply Q2. lia. }
    split.
    { split; [intros q Lq Nq; rewrite (O2 q (evo_live _ _ _ _ (Ev p) Lq) Nq), (Ks q Lq); reflexivity|].
      split; [exact P2|]. intros y Hy Hn. rewrite (Pf2 y ltac:(lia) Hn). apply Ps. }
    split; [exact Lt2|]. right. split; [now apply Ks|]. split; [rewrite K2, (Ks p Lp); reflexivity|].
    now apply kids_NoDup.
Qed.

Lemma placed_trans' s s1 s' d J R :
  evo d s s1 -> (forall y, y < nxt s1 -> par (hp s' y) = par (hp s1 y) \/ par (hp s' y) = Some d) ->
  placed s s1 d J -> (forall c, In c J -> c < nxt s1) -> placed s1 s' d R -> placed s s' d (J ++ R).
Proof.
  intros Ev Q2 (O1 & P1 & Pf1) Lt (O2 & P2 & Pf2).
  assert (Nle : nxt s <= nxt s1) by (destruct Ev as (_ & N & _); exact N).
  split; [|split].
  - intros q Lq Nq. rewrite (O2 q (evo_live _ _ _ _ Ev Lq) Nq), (O1 q Lq Nq). symmetry. apply others_app_l.
  - intros c Hc. apply in_app_or in Hc. destruct Hc as [Hc|Hc]; [|now apply P2].
    destruct (Q2 c (Lt c Hc)) as [Q|Q]; rewrite Q; auto.
  - intros y Hy Hn. rewrite Pf2; [apply Pf1; [exact Hy|] | lia |]; intros Hi; apply Hn; apply in_or_app; auto.
Qed.

Lemma before_loop_general : forall args s self p s',
  consistent s -> live s p -> is_tag (hp s) p = true -> Forall (arg_ok s p) args -> Forall (soup_root s) args ->
  NoDup (expand (hp s) (nxt s) [] args) -> ~ In self (expand (hp s) (nxt s) [] args) -> In self (kids (hp s p)) ->
  before_loop s self p args = Ok s' ->
  evo p s s' /\ (forall y, y < nxt s -> par (hp s' y) = par (hp s y) \/ par (hp s' y) = Some p) /\
  kids (hp s' p) = before_spec self (expand (hp s) (nxt s) [] args) (kids (hp s p)) /\
  placed s s' p (expand (hp s) (nxt s) [] args).
Proof.
  induction args as [|a args IH]; intros s self p s' C Lp Tp HF HR ND Hns Hin H.
  - cbn in H. inversion H; subst. cbn [expand]. split; [now apply evo_refl|]. split; [auto|]. split.
    + unfold before_spec. rewrite others_nil. destruct (index_of self (kids (hp s' p))) eqn:E; [|reflexivity].
      cbn [app]. symmetry. apply firstn_skipn.
    + split; [intros; now rewrite others_nil|]. split; [intros c []|auto].
  - inversion HF as [|? ? Ha HF']; subst. inversion HR as [|? ? Hr HR']; subst. cbn [before_loop] in H.
    destruct (index_of self (kids (hp (extract_arg s a) p))) as [idx|] eqn:Eidx; [|discriminate].
    destruct (insert_args (extract_arg s a) p idx [a]) as [[s2 ins]|] eqn:E2; [|discriminate].
    destruct (round_general s p idx a s2 ins C Lp Tp Ha Hr E2) as (Ei & N2 & Ev & Q2 & Pl & Lt & Cases).
    rewrite expand_cons in ND, Hns |- *. rewrite <- Ei in ND, Hns |- *.
    destruct Pl as (O2 & P2 & Pf2).
    assert (En : expand (hp s2) (nxt s2) [] args = expand (hp s) (nxt s + nstr [a]) ins args).
    { rewrite N2, Ei. apply (expand_next s s2 p a args Ev HF'). rewrite <- Ei. exact O2. }
    rewrite <- En in *. remember (expand (hp s2) (nxt s2) [] args) as R eqn:ER.
    destruct (NoDup_app_parts _ _ ND) as (NJ & NR & Dis).
    assert (HnJ : ~ In self ins) by (intros Hi; apply Hns, in_or_app; now left).
    assert (HnR : ~ In self R) by (intros Hi; apply Hns, in_or_app; now right).
    pose proof (kids_NoDup s p C Lp) as NK.
    assert (K2 : kids (hp s2 p) = before_spec self ins (kids (hp s p))).
    { destruct Cases as [(Kn & -> & Kx & K2)|(Kx & K2 & _)].
      - rewrite K2. rewrite Kx in Eidx. rewrite <- (kbefore_spec [arg_id (nxt s) a] self _ NJ NK Hin HnJ).
        cbn [kbefore]. now rewrite Eidx.
      - rewrite K2. rewrite Kx in Eidx. now apply kmove_all_anchor_before. }
    assert (Tp2 : is_tag (hp s2) p = true) by (rewrite (evo_tag p s s2 p Ev Lp); exact Tp).
    pose proof (evo_consistent _ _ _ Ev) as C2. pose proof (evo_live _ _ _ _ Ev Lp) as Lp2.
    assert (Hin2 : In self (kids (hp s2 p))).
    { rewrite K2. destruct (in_split_nodup self _ NK Hin) as (P & Q & EK & _). rewrite EK in *.
      rewrite (before_spec_split self ins P Q NK HnJ). apply in_or_app. right. apply in_or_app. right. now left. }
    assert (HR2 : Forall (soup_root s2) args).
    { rewrite Forall_forall in HF', HR' |- *. intros [x|t] Hx; cbn [soup_root]; [|exact I].
      destruct (HF' _ Hx) as [Lx _]. specialize (HR' _ Hx). cbn [soup_root] in HR'.
      rewrite (evo_kind p s s2 x Ev (proj1 Lx)). intros Kx. specialize (HR' Kx).
      destruct (Q2 x (proj1 Lx)) as [Q|Q]; [congruence|]. exfalso.
      (* a root that got parent p in this round would be in ins *)
      destruct (in_dec Nat.eq_dec x ins) as [Hi|Hi]; [|rewrite (Pf2 x (proj1 Lx) Hi) in Q; congruence].
      rewrite Ei in Hi. destruct a as [x0|t]; cbn [arg_just] in Hi.
      - destruct (kind (hp s x0)) eqn:K0.
        + destruct Hi as [<-|[]]. congruence.
        + destruct Hi as [<-|[]]. congruence.
        + destruct Ha as [Lx0 _]. destruct (kids_facts s x0 x C Lx0 Hi) as [_ Px]. congruence.
      - destruct Hi as [<-|[]]. destruct Lx. lia. }
    destruct (IH s2 self p s' C2 Lp2 Tp2 (Forall_arg_ok_evo _ _ _ _ Ev HF') HR2 ltac:(rewrite <- ER; exact NR)
                ltac:(rewrite <- ER; exact HnR) Hin2 H) as (Ev3 & Q3 & K3 & Pl3).
    rewrite <- ER in *.
    split; [eapply evo_trans; eauto|]. split; [|split].
    + intros y Hy. assert (Hy2 : y < nxt s2) by lia. destruct (Q3 y Hy2) as [Q|Q]; [|now right]. rewrite Q. now apply Q2.
    + rewrite K3, K2. symmetry. apply before_spec_app; auto. rewrite <- K2. now apply kids_NoDup.
    + apply (placed_trans' s s2 s' p ins R Ev Q3); [split; [exact O2 | split; [exact P2 | exact Pf2]] | exact Lt | exact Pl3].
Qed.

Lemma after_loop_general : forall args s anchor p s',
  consistent s -> live s p -> is_tag (hp s) p = true -> Forall (arg_ok s p) args -> Forall (soup_root s) args ->
  NoDup (expand (hp s) (nxt s) [] args) -> ~ In anchor (expand (hp s) (nxt s) [] args) -> In anchor (kids (hp s p)) ->
  after_loop s anchor p args = Ok s' ->
  evo p s s' /\ (forall y, y < nxt s -> par (hp s' y) = par (hp s y) \/ par (hp s' y) = Some p) /\
  kids (hp s' p) = after_spec anchor (expand (hp s) (nxt s) [] args) (kids (hp s p)) /\
  placed s s' p (expand (hp s) (nxt s) [] args).
Proof.
  induction args as [|a args IH]; intros s anchor p s' C Lp Tp HF HR ND Hns Hin H.
  - cbn in H. inversion H; subst. cbn [expand]. split; [now apply evo_refl|]. split; [auto|]. split.
    + unfold after_spec. rewrite others_nil. destruct (index_of anchor (kids (hp s' p))) eqn:E; [|reflexivity].
      cbn [app]. symmetry. apply firstn_skipn.
    + split; [intros; now rewrite others_nil|]. split; [intros c []|auto].
  - inversion HF as [|? ? Ha HF']; subst. inversion HR as [|? ? Hr HR']; subst. cbn [after_loop] in H.
    destruct (index_of anchor (kids (hp (extract_arg s a) p))) as [idx|] eqn:Eidx; [|discriminate].
    destruct (insert_args (extract_arg s a) p (S idx) [a]) as [[s2 ins]|] eqn:E2; [|discriminate].
    destruct (round_general s p (S idx) a s2 ins C Lp Tp Ha Hr E2) as (Ei & N2 & Ev & Q2 & Pl & Lt & Cases).
    rewrite expand_cons in ND, Hns |- *. rewrite <- Ei in ND, Hns |- *.
    destruct Pl as (O2 & P2 & Pf2).
    assert (En : expand (hp s2) (nxt s2) [] args = expand (hp s) (nxt s + nstr [a]) ins args).
    { rewrite N2, Ei. apply (expand_next s s2 p a args Ev HF'). rewrite <- Ei. exact O2. }
    rewrite <- En in *. remember (expand (hp s2) (nxt s2) [] args) as R eqn:ER.
    destruct (NoDup_app_parts _ _ ND) as (NJ & NR & Dis).
    assert (HnJ : ~ In anchor ins) by (intros Hi; apply Hns, in_or_app; now left).
    assert (HnR : ~ In anchor R) by (intros Hi; apply Hns, in_or_app; now right).
    pose proof (kids_NoDup s p C Lp) as NK.
    assert (K2 : kids (hp s2 p) = after_spec anchor ins (kids (hp s p))).
    { destruct Cases as [(Kn & -> & Kx & K2)|(Kx & K2 & _)].
      - rewrite K2. rewrite Kx in Eidx. rewrite <- (kafter_spec [arg_id (nxt s) a] anchor _ NJ NK Hin HnJ).
        cbn [kafter]. now rewrite Eidx.
      - rewrite K2. rewrite Kx in Eidx. now apply kmove_all_anchor_after. }
    assert (Tp2 : is_tag (hp s2) p = true) by (rewrite (evo_tag p s s2 p Ev Lp); exact Tp).
    pose proof (evo_consistent _ _ _ Ev) as C2. pose proof (evo_live _ _ _ _ Ev Lp) as Lp2.
    remember (match last_opt ins with Some e => e | None => anchor end) as anchor' eqn:Ea.
    assert (Ha' : In anchor' (kids (hp s2 p)) /\ ~ In anchor' R).
    { rewrite K2. destruct (in_split_nodup anchor _ NK Hin) as (P & Q & EK & _). rewrite EK in *.
      rewrite (after_spec_split anchor ins P Q NK HnJ).
      destruct ins as [|e0 J0] using rev_ind.
      - cbn in Ea. subst anchor'. split; [apply in_or_app; right; now left | exact HnR].
      - rewrite last_opt_snoc in Ea. subst anchor'. split.
        + apply in_or_app. right. right. apply in_or_app. left. apply in_or_app. right. now left.
        + apply Dis. apply in_or_app. right. now left. }
    destruct Ha' as [Hin2 HnR2].
    assert (HR2 : Forall (soup_root s2) args).
    { rewrite Forall_forall in HF', HR' |- *. intros [x|t] Hx; cbn [soup_root]; [|exact I].
      destruct (HF' _ Hx) as [Lx _]. specialize (HR' _ Hx). cbn [soup_root] in HR'.
      rewrite (evo_kind p s s2 x Ev (proj1 Lx)). intros Kx. specialize (HR' Kx).
      destruct (Q2 x (proj1 Lx)) as [Q|Q]; [congruence|]. exfalso.
      destruct (in_dec Nat.eq_dec x ins) as [Hi|Hi]; [|rewrite (Pf2 x (proj1 Lx) Hi) in Q; congruence].
      rewrite Ei in Hi. destruct a as [x0|t]; cbn [arg_just] in Hi.
      - destruct (kind (hp s x0)) eqn:K0.
        + destruct Hi as [<-|[]]. congruence.
        + destruct Hi as [<-|[]]. congruence.
        + destruct Ha as [Lx0 _]. destruct (kids_facts s x0 x C Lx0 Hi) as [_ Px]. congruence.
      - destruct Hi as [<-|[]]. destruct Lx. lia. }
    destruct (IH s2 anchor' p s' C2 Lp2 Tp2 (Forall_arg_ok_evo _ _ _ _ Ev HF') HR2 ltac:(rewrite <- ER; exact NR)
                ltac:(rewrite <- ER; exact HnR2) Hin2 H) as (Ev3 & Q3 & K3 & Pl3).
    rewrite <- ER in *.
    split; [eapply evo_trans; eauto|]. split; [|split].
    + intros y Hy. assert (Hy2 : y < nxt s2) by lia. destruct (Q3 y Hy2) as [Q|Q]; [|now right]. rewrite Q. now apply Q2.
    + rewrite K3, K2, Ea. symmetry. apply after_spec_app; auto. rewrite <- K2. now apply kids_NoDup.
    + apply (placed_trans' s s2 s' p ins R Ev Q3); [split; [exact O2 | split; [exact P2 | exact Pf2]] | exact Lt | exact Pl3].
Qed.

(* self is not in the expansion of admissible arguments of insert_before / insert_after *)
Lemma self_not_expanded s self p args : consistent s -> live s self -> par (hp s self) = Some p ->
  Forall (arg_ok s self) args -> ~ In self (expand (hp s) (nxt s) [] args).
Proof.
  intros C L P A Hi. rewrite Forall_forall in A.
  destruct (expand_in args (hp s) (nxt s) [] self Hi) as [H0|[[H0 _]|(x & Hx & Hk & Hy)]].
  - destruct L; lia.
  - destruct (A _ H0) as [_ N]. apply N. constructor.
  - destruct (A _ Hx) as [Lx Nx]. destruct (kids_facts s x self C Lx Hy) as [_ Ps].
    apply Nx. eapply anc_step; [exact Ps | constructor].
Qed.

Theorem op_insert_before_expansion s self p args s' :
  consistent s -> wf_op s (OInsertBefore self args) -> Forall (soup_root s) args ->
  par (hp s self) = Some p -> op_insert_before s self args = Ok s' ->
  let ids := expand (hp s) (nxt s) [] args in
  NoDup ids ->
  nxt s' = nxt s + nstr args /\
  kids (hp s' p) = before_spec self ids (kids (hp s p)) /\
  placed s s' p ids /\ soups_emptied s s' args ids.
Proof.
  intros C (L & _ & A) HR P H ids ND. unfold op_insert_before in H. rewrite P in H.
  assert (A' : Forall (fun a => arg_ok s p a /\ is_self self a = false) args).
  { eapply Forall_impl; [|exact A]. intros a. now apply arg_ok_parent. }
  assert (Ap : Forall (arg_ok s p) args) by (eapply Forall_impl; [|exact A']; cbv beta; tauto).
  destruct (existsb (is_self self) args); [discriminate|].
  destruct (parent_facts s self p C L P) as (Lp & Tp & Hin).
  destruct (before_loop_general args s self p s' C Lp Tp Ap HR ND (self_not_expanded s self p args C L P A) Hin H)
    as (_ & _ & K & Pl).
  split; [exact (before_loop_nxt _ _ _ _ _ H)|]. split; [exact K|]. split; [exact Pl|].
  eapply soups_emptied_of; eauto.
Qed.

Theorem op_insert_after_expansion s self p args s' :
  consistent s -> wf_op s (OInsertAfter self args) -> Forall (soup_root s) args ->
  par (hp s self) = Some p -> op_insert_after s self args = Ok s' ->
  let ids := expand (hp s) (nxt s) [] args in
  NoDup ids ->
  nxt s' = nxt s + nstr args /\
  kids (hp s' p) = after_spec self ids (kids (hp s p)) /\
  placed s s' p ids /\ soups_emptied s s' args ids.
Proof.
  intros C (L & _ & A) HR P H ids ND. unfold op_insert_after in H. rewrite P in H.
  assert (A' : Forall (fun a => arg_ok s p a /\ is_self self a = false) args).
  { eapply Forall_impl; [|exact A]. intros a. now apply arg_ok_parent. }
  assert (Ap : Forall (arg_ok s p) args) by (eapply Forall_impl; [|exact A']; cbv beta; tauto).
  destruct (existsb (is_self self) args); [discriminate|].
  destruct (parent_facts s self p C L P) as (Lp & Tp & Hin).
  destruct (after_loop_general args s self p s' C Lp Tp Ap HR ND (self_not_expanded s self p args C L P A) Hin H)
    as (_ & _ & K & Pl).
  split; [exact (after_loop_nxt _ _ _ _ _ H)|]. split; [exact K|]. split; [exact Pl|].
  eapply soups_emptied_of; eauto.
Qed.

(* for all the theorems above: when the call-time expansions of the arguments are pairwise disjoint and without
   repetition, [expand] is the call-time expansion [arg_expansion] and the NoDup side condition holds *)
Corollary expansion_disjoint s args : NoDup (arg_expansion (hp s) (nxt s) args) ->
  expand (hp s) (nxt s) [] args = arg_expansion (hp s) (nxt s) args /\ NoDup (expand (hp s) (nxt s) [] args).
Proof. intros ND. rewrite (expand_naive0 _ _ _ ND). auto. Qed.

(* ------------------------------------------------------------------------------------------ *)
(* B. clear(decompose=True): the killed cells                                                 *)
(* ------------------------------------------------------------------------------------------ *)

Lemma anc_dec s a y : consistent s -> live s y -> anc (hp s) a y \/ ~ anc (hp s) a y.
Proof.
  intros C L. destruct (is_anc_b (fuel_of s) (hp s) a y) eqn:E.
  - left. eapply is_anc_b_sound; eauto.
  - right. now apply is_anc_b_false.
Qed.

(* a cell that is dead, parentless and childless stays so under further decompose() of live elements *)
Lemma dead_stays self : forall cs s, consistent s ->
  Forall (fun c => live s c /\ par (hp s c) = Some self) cs -> NoDup cs -> live s self ->
  forall y, y < nxt s -> dead (hp s y) = true -> par (hp s y) = None -> kids (hp s y) = [] ->
  dead (fold_left (fun h c => decompose_h (fuel_of s) h c) cs (hp s) y) = true /\
  par (fold_left (fun h c => decompose_h (fuel_of s) h c) cs (hp s) y) = None /\
  kids (fold_left (fun h c => decompose_h (fuel_of s) h c) cs (hp s) y) = [].
Proof.
  induction cs as [|c cs IH]; intros s C HF ND Ls y Hy Dy Py Ky; cbn [fold_left]; [auto|].
  inversion HF as [|? ? [Lc Pc] HF']; subst. inversion ND as [|? ? Hn ND']; subst.
  pose proof C as [F CF]. destruct (decompose_cons F s c CF Lc) as (F' & C' & Hfr).
  pose proof (decompose_live F s c CF Lc) as Hlive.
  remember (with_heap s (decompose_h (fuel_of s) (hp s) c)) as s1 eqn:Es1.
  assert (Hcell : forall z, ~ anc (hp s) c z -> hp s1 z = extract (fuel_of s) (hp s) c z).
  { intros z Hz. subst s1. cbn [with_heap hp]. now apply Hfr. }
  assert (Nyc : y <> c) by (intros ->; destruct Lc as [_ D]; congruence).
  assert (Hna : ~ anc (hp s) c y).
  { intros H. apply anc_inv in H. destruct H as [H|(q & Pq & _)]; congruence. }
  assert (Nys : y <> self) by (intros ->; destruct Ls as [_ D]; congruence).
  assert (E1 : dead (hp s1 y) = true /\ par (hp s1 y) = None /\ kids (hp s1 y) = []).
  { rewrite (Hcell y Hna). split; [rewrite (meta_dead _ _ (extract_meta _ _ _ _)); exact Dy|].
    split; [rewrite extract_par_other by exact Nyc; exact Py|].
    rewrite extract_kids, Pc. destruct (index_of c (kids (hp s self))); [|exact Ky].
    apply Nat.eqb_neq in Nys. rewrite Nys. exact Ky. }
  assert (HF1 : Forall (fun c0 => live s1 c0 /\ par (hp s1 c0) = Some self) cs).
  { apply Forall_forall. intros c0 Hc0. rewrite Forall_forall in HF'. destruct (HF' c0 Hc0) as [L0 P0].
    assert (N0 : c0 <> c) by (intros ->; contradiction).
    assert (Hna0 : ~ anc (hp s) c c0).
    { intros H. apply anc_inv in H. destruct H as [H|(q & Pq & H)]; [congruence|].
      rewrite P0 in Pq. inversion Pq; subst q. exact (acyclic s c self C Lc Pc H). }
    split; [subst s1; apply Hlive; split; assumption|]. rewrite (Hcell c0 Hna0).
    rewrite extract_par_other by exact N0. exact P0. }
  assert (Ls1 : live s1 self).
  { subst s1. apply Hlive. split; [exact Ls|]. exact (acyclic s c self C Lc Pc). }
  destruct E1 as (D1 & P1 & K1).
  pose proof (IH s1 (ex_intro _ F' C') HF1 ND' Ls1 y ltac:(subst s1; exact Hy) D1 P1 K1) as G.
  subst s1. exact G.
Qed.

Lemma clear_true_killed self : forall cs s, consistent s -> NoDup cs ->
  Forall (fun c => live s c /\ par (hp s c) = Some self) cs -> live s self ->
  forall y, live s y -> (exists c, In c cs /\ anc (hp s) c y) ->
  dead (fold_left (fun h c => decompose_h (fuel_of s) h c) cs (hp s) y) = true /\
  par (fold_left (fun h c => decompose_h (fuel_of s) h c) cs (hp s) y) = None /\
  kids (fold_left (fun h c => decompose_h (fuel_of s) h c) cs (hp s) y) = [].
Proof.
  induction cs as [|c cs IH]; intros s C ND HF Ls y Ly (c' & Hc' & Ha); [contradiction|].
  inversion HF as [|? ? [Lc Pc] HF']; subst. inversion ND as [|? ? Hn ND']; subst. cbn [fold_left].
  pose proof C as [F CF]. destruct (decompose_cons F s c CF Lc) as (F' & C' & Hfr).
  pose proof (decompose_live F s c CF Lc) as Hlive.
  destruct (decompose_cells F s c CF Lc) as (_ & Hw & _). cbv zeta in Hw.
  remember (with_heap s (decompose_h (fuel_of s) (hp s) c)) as s1 eqn:Es1.
  assert (Hcell : forall z, ~ anc (hp s) c z -> hp s1 z = extract (fuel_of s) (hp s) c z).
  { intros z Hz. subst s1. cbn [with_heap hp]. now apply Hfr. }
  assert (Hpar1 : forall z, ~ anc (hp s) c z -> par (hp s1 z) = par (hp s z)).
  { intros z Hz. rewrite (Hcell z Hz). apply extract_par_other. intros ->. apply Hz. constructor. }
  assert (HF1 : Forall (fun c0 => live s1 c0 /\ par (hp s1 c0) = Some self) cs).
  { apply Forall_forall. intros c0 Hc0. rewrite Forall_forall in HF'. destruct (HF' c0 Hc0) as [L0 P0].
    assert (N0 : c0 <> c) by (intros ->; contradiction).
    assert (Hna0 : ~ anc (hp s) c c0).
    { intros H. apply anc_inv in H. destruct H as [H|(q & Pq & H)]; [congruence|].
      rewrite P0 in Pq. inversion Pq; subst q. exact (acyclic s c self C Lc Pc H). }
    split; [subst s1; apply Hlive; split; assumption|]. rewrite (Hpar1 c0 Hna0). exact P0. }
  assert (Ls1 : live s1 self).
  { subst s1. apply Hlive. split; [exact Ls|]. exact (acyclic s c self C Lc Pc). }
  destruct (anc_dec s c y C Ly) as [Hcy|Hcy].
  - (* killed now; stays so *)
    assert (E : hp s1 y = wiped (hp s y)) by (subst s1; cbn [with_heap hp]; now apply Hw).
    pose proof (dead_stays self cs s1 (ex_intro _ F' C') HF1 ND' Ls1 y ltac:(subst s1; apply Ly)
                  ltac:(rewrite E; reflexivity) ltac:(rewrite E; reflexivity) ltac:(rewrite E; reflexivity)) as G.
    subst s1. exact G.
  - (* survives this round; killed by a later one *)
    assert (Ly1 : live s1 y) by (subst s1; apply Hlive; split; assumption).
    assert (Nc' : c' <> c) by (intros ->; contradiction).
    destruct Hc' as [Hc'|Hc']; [congruence|].
    assert (Ha1 : anc (hp s1) c' y).
    { apply (anc_agree (hp s) (hp s1) c' y); [|exact Ha].
      intros z Hz. apply Hpar1. intros Hcz. apply Hcy. eapply anc_trans; eauto. }
    pose proof (IH s1 (ex_intro _ F' C') ND' HF1 Ls1 y Ly1 (ex_intro _ c' (conj Hc' Ha1))) as G.
    subst s1. exact G.
Qed.

(* clear(decompose=True): every element strictly below self ends up dead, parentless and childless, with its
   kind and label (op_clear_true_wiped below: the whole cell is [wiped]) *)
Theorem op_clear_true_killed s self s' : consistent s -> live s self -> op_clear s self true = Ok s' ->
  forall y, live s y -> anc (hp s) self y -> y <> self ->
  dead (hp s' y) = true /\ par (hp s' y) = None /\ kids (hp s' y) = [] /\
  kind (hp s' y) = kind (hp s y) /\ txt (hp s' y) = txt (hp s y).
Proof.
  intros C L E y Ly Ha Ny. destruct (op_clear_true_conserves s self s' C L E) as (_ & _ & _ & St).
  unfold op_clear in E. inversion E; subst s'. clear E. cbn [with_heap hp] in *.
  assert (HF : Forall (fun c => live s c /\ par (hp s c) = Some self) (kids (hp s self))).
  { apply Forall_forall. intros c Hc. apply (kids_facts s self c C L Hc). }
  destruct (clear_true_killed self (kids (hp s self)) s C (kids_NoDup s self C L) HF L y Ly
              (anc_via_child s self y C Ha Ly Ny)) as (D & P & K).
  destruct (St y) as (Kd & Tx & _). auto.
Qed.

(* ---- dead cells are not touched: the links of a live element lead to live elements ---- *)

Lemma nth_error_In' {X} (L : list X) i y : nth_error L i = Some y -> In y L.
Proof. apply nth_error_In. Qed.

Lemma pred_at_In L i y : pred_at L i = Some y -> In y L.
Proof. destruct i as [|j]; [discriminate|]. cbn [pred_at]. apply nth_error_In. Qed.

Lemma links_live s x : consistent s -> live s x ->
  (forall y, ps (hp s x) = Some y -> live s y) /\ (forall y, ns (hp s x) = Some y -> live s y) /\
  (forall y, pe (hp s x) = Some y -> live s y) /\ (forall y, ne (hp s x) = Some y -> live s y).
Proof.
  intros [F C] L. destruct (live_tree F s x C L) as (T & b & F1 & HP & Hx & R1 & C').
  assert (Hlive : forall y, In y (pre T) -> live s y).
  { intros y Hy. apply (cons_live _ _ _ C'). rewrite fids_cons. apply in_or_app. now left. }
  destruct R1 as (Hok & Hr & Hps & Hns & Hch).
  assert (Sib : (forall y, ps (hp s x) = Some y -> In y (pre T)) /\ (forall y, ns (hp s x) = Some y -> In y (pre T))).
  { destruct (in_pre_cases T x Hx) as [->|(u & c & Hu & Hc & Ec)]; [split; intros y H; congruence|].
    destruct (Hok u Hu) as (_ & Hsch & _). 
    assert (Hin : In x (map rid (tkids u))) by (rewrite <- Ec; now apply in_map).
    destruct (In_nth_error _ _ Hin) as (i & Ei). destruct (Hsch i x Ei) as [E1 E2].
    assert (Hsub : forall y, In y (map rid (tkids u)) -> In y (pre T)).
    { intros y Hy. apply in_map_iff in Hy. destruct Hy as (k & <- & Hk). exact (subterms_kid_rid_in T u k Hu Hk). }
    split; intros y H; apply Hsub.
    - rewrite E2 in H. exact (pred_at_In _ _ _ H).
    - rewrite E1 in H. exact (nth_error_In _ _ H). }
  assert (Elt : (forall y, pe (hp s x) = Some y -> In y (pre T)) /\ (forall y, ne (hp s x) = Some y -> In y (pre T))).
  { destruct b.
    - destruct (In_nth_error _ _ Hx) as (i & Ei). destruct (Hch i x Ei) as [E1 E2].
      split; intros y H; [rewrite E2 in H; exact (pred_at_In _ _ _ H) | rewrite E1 in H; exact (nth_error_In _ _ H)].
    - destruct Hch as (Hc & Hne & Hpe). rewrite (pre_cons T) in Hx. destruct Hx as [<-|Hx]; [split; intros y H; congruence|].
      destruct (In_nth_error _ _ Hx) as (i & Ei). destruct (Hc i x Ei) as [E1 E2].
      split; intros y H; apply tl_pre_incl;
        [rewrite E2 in H; exact (pred_at_In _ _ _ H) | rewrite E1 in H; exact (nth_error_In _ _ H)]. }
  destruct Sib as [S1 S2]. destruct Elt as [E1 E2].
  split; [intros y H; apply Hlive, S1, H|]. split; [intros y H; apply Hlive, S2, H|].
  split; [intros y H; apply Hlive, E1, H | intros y H; apply Hlive, E2, H].
Qed.

Lemma walk_last_closed (P : nat -> Prop) h0 : (forall z c, P z -> In c (kids (h0 z)) -> P c) ->
  forall fuel x, P x -> P (walk_last fuel h0 x).
Proof.
  intros Hk. induction fuel as [|f IH]; intros x Px; [exact Px|]. cbn [walk_last].
  destruct (is_tag h0 x); [|exact Px]. destruct (rev (kids (h0 x))) as [|y l] eqn:E; [exact Px|].
  apply IH. apply (Hk x y Px). apply in_rev. rewrite E. now left.
Qed.

Lemma remove_at_In {X} (c : X) : forall K i, In c (remove_at i K) -> In c K.
Proof.
  induction K as [|y K IH]; intros i H; [destruct i; exact H|]. destruct i as [|i]; cbn [remove_at] in H.
  - now right.
  - destruct H as [->|H]; [now left | right; eapply IH; eauto].
Qed.

Lemma set_ne_at h z v y : y <> z -> set_ne h z v y = h y. Proof. intros N. unfold set_ne. now apply upd_other. Qed.
Lemma set_pe_at h z v y : y <> z -> set_pe h z v y = h y. Proof. intros N. unfold set_pe. now apply upd_other. Qed.
Lemma set_ns_at h z v y : y <> z -> set_ns h z v y = h y. Proof. intros N. unfold set_ns. now apply upd_other. Qed.
Lemma set_ps_at h z v y : y <> z -> set_ps h z v y = h y. Proof. intros N. unfold set_ps. now apply upd_other. Qed.
Lemma set_par_at h z v y : y <> z -> set_par h z v y = h y. Proof. intros N. unfold set_par. now apply upd_other. Qed.
Lemma set_kids_at h z v y : y <> z -> set_kids h z v y = h y. Proof. intros N. unfold set_kids. now apply upd_other. Qed.

(* the cells extract_links writes to: x, its last descendant, and their four neighbours *)
Lemma xl_other h x l y : y <> x -> y <> l -> pe (h x) <> Some y -> ne (h l) <> Some y ->
  ps (h x) <> Some y -> ns (h x) <> Some y -> xl h x l y = h y.
Proof.
  intros Nx Nl Npe Nne Nps Nns. unfold xl. cbv zeta.
  set (h1 := match pe (h x) with
             | Some q => if negb (oeqb (Some q) (ne (h l))) then set_ne h q (ne (h l)) else h
             | None => h end).
  assert (E1 : h1 y = h y).
  { unfold h1. destruct (pe (h x)) as [q|] eqn:Eq; [|reflexivity]. destruct (negb _); [|reflexivity].
    apply set_ne_at. congruence. }
  assert (F1 : forall z, ps (h1 z) = ps (h z) /\ ns (h1 z) = ns (h z) /\ pe (h1 z) = pe (h z)).
  { intros z. unfold h1. destruct (pe (h x)) as [q|]; [|auto]. destruct (negb _); [|auto]. now autorewrite with heap. }
  set (h2 := match ne (h l) with
             | Some r => if negb (oeqb (Some r) (pe (h1 x))) then set_pe h1 r (pe (h1 x)) else h1
             | None => h1 end).
  assert (E2 : h2 y = h y).
  { unfold h2. destruct (ne (h l)) as [r|] eqn:Er; [|exact E1]. destruct (negb _); [|exact E1].
    rewrite set_pe_at by congruence. exact E1. }
  assert (F2 : forall z, ps (h2 z) = ps (h z) /\ ns (h2 z) = ns (h z)).
  { intros z. destruct (F1 z) as (A & B & _). unfold h2. destruct (ne (h l)) as [r|]; [|auto]. destruct (negb _); [|auto].
    now autorewrite with heap. }
  set (h5 := set_par (set_ne (set_pe h2 x None) l None) x None).
  assert (E5 : h5 y = h y).
  { unfold h5. rewrite set_par_at, set_ne_at, set_pe_at by assumption. exact E2. }
  assert (F5 : forall z, ps (h5 z) = ps (h z) /\ ns (h5 z) = ns (h z)).
  { intros z. destruct (F2 z) as (A & B). unfold h5. now autorewrite with heap. }
  set (h6 := match ps (h5 x) with
             | Some a => if negb (oeqb (Some a) (ns (h5 x))) then set_ns h5 a (ns (h5 x)) else h5
             | None => h5 end).
  assert (E6 : h6 y = h y).
  { unfold h6. destruct (F5 x) as [A _]. destruct (ps (h5 x)) as [a|] eqn:Ea; [|exact E5]. destruct (negb _); [|exact E5].
    rewrite set_ns_at by congruence. exact E5. }
  assert (F6 : ns (h6 x) = ns (h x)).
  { destruct (F5 x) as [_ B]. unfold h6. destruct (ps (h5 x)) as [a|]; [|exact B]. destruct (negb _); [|exact B].
    destruct (Nat.eq_dec x a) as [<-|N]; [rewrite ns_set_ns_same; exact B | rewrite ns_set_ns_other by exact N; exact B]. }
  set (h7 := match ns (h6 x) with
             | Some b => if negb (oeqb (Some b) (ps (h6 x))) then set_ps h6 b (ps (h6 x)) else h6
             | None => h6 end).
  assert (E7 : h7 y = h y).
  { unfold h7. destruct (ns (h6 x)) as [b|] eqn:Eb; [|exact E6]. destruct (negb _); [|exact E6].
    rewrite set_ps_at by congruence. exact E6. }
  change (set_ns (set_ps h7 x None) x None y = h y).
  rewrite set_ns_at, set_ps_at by assumption. exact E7.
Qed.

(* extract() does not touch a cell that is not live *)
Lemma extract_untouched s x y : consistent s -> live s x -> ~ live s y ->
  extract (fuel_of s) (hp s) x y = hp s y.
Proof.
  intros C L Ny. unfold extract.
  set (h0 := match par (hp s x) with
             | Some p => match index_of x (kids (hp s p)) with
                         | Some i => set_kids (hp s) p (remove_at i (kids (hp s p)))
                         | None => hp s end
             | None => hp s end).
  assert (Hlinks : forall z, ps (h0 z) = ps (hp s z) /\ ns (h0 z) = ns (hp s z) /\ pe (h0 z) = pe (hp s z) /\ ne (h0 z) = ne (hp s z)).
  { intros z. unfold h0. destruct (par (hp s x)) as [p|]; [|auto]. destruct (index_of x (kids (hp s p))); [|auto].
    now autorewrite with heap. }
  assert (E0 : h0 y = hp s y).
  { unfold h0. destruct (par (hp s x)) as [p|] eqn:P; [|reflexivity]. destruct (index_of x (kids (hp s p))); [|reflexivity].
    apply set_kids_at. intros ->. apply Ny. apply (parent_facts s x p C L P). }
  assert (Hkids : forall z c, live s z -> In c (kids (h0 z)) -> live s c).
  { intros z c Lz Hc. assert (Hc' : In c (kids (hp s z))).
    { unfold h0 in Hc. destruct (par (hp s x)) as [p|]; [|exact Hc]. destruct (index_of x (kids (hp s p))) as [i|]; [|exact Hc].
      rewrite InsertRep.kids_set_kids_if in Hc. destruct (Nat.eqb_spec z p) as [->|N]; [eapply remove_at_In; eauto | exact Hc]. }
    apply (kids_facts s z c C Lz Hc'). }
  rewrite extract_links_xl.
  destruct (links_live s x C L) as (Lps & Lns & Lpe & Lne).
  destruct (Hlinks x) as (Aps & Ans & Ape & Ane).
  set (l0 := match last_descendant (fuel_of s) h0 x true true with Some l => l | None => x end).
  assert (Ll0 : live s l0).
  { unfold l0, last_descendant. cbn [negb andb]. rewrite Ans.
    destruct (ns (hp s x)) as [y'|] eqn:En.
    - destruct (Hlinks y') as (_ & _ & Bpe & _). rewrite Bpe. destruct (pe (hp s y')) as [l|] eqn:El; [|exact L].
      destruct (links_live s y' C (Lns y' eq_refl)) as (_ & _ & Hpe' & _). exact (Hpe' l El).
    - apply (walk_last_closed (live s) h0 Hkids). exact L. }
  rewrite xl_other; [exact E0| | | | | |].
  - intros ->. exact (Ny L).
  - intros ->. exact (Ny Ll0).
  - rewrite Ape. intros H. exact (Ny (Lpe y H)).
  - destruct (Hlinks l0) as (_ & _ & _ & Bne). rewrite Bne. intros H.
    destruct (links_live s l0 C Ll0) as (_ & _ & _ & Hne'). exact (Ny (Hne' y H)).
  - rewrite Aps. intros H. exact (Ny (Lps y H)).
  - rewrite Ans. intros H. exact (Ny (Lns y H)).
Qed.

(* ---- clear(decompose=True): the killed cells are exactly wiped ---- *)

Lemma sibling_round self c cs s : consistent s -> live s c -> par (hp s c) = Some self -> ~ In c cs ->
  Forall (fun c0 => live s c0 /\ par (hp s c0) = Some self) cs ->
  let s1 := with_heap s (decompose_h (fuel_of s) (hp s) c) in
  consistent s1 /\ Forall (fun c0 => live s1 c0 /\ par (hp s1 c0) = Some self) cs /\
  (forall z, ~ anc (hp s) c z -> hp s1 z = extract (fuel_of s) (hp s) c z) /\
  (forall z, live s1 z <-> live s z /\ ~ anc (hp s) c z).
Proof.
  intros C Lc Pc Hn HF s1. pose proof C as [F CF]. destruct (decompose_cons F s c CF Lc) as (F' & C' & Hfr).
  pose proof (decompose_live F s c CF Lc) as Hlive. fold s1 in C', Hlive.
  assert (Hcell : forall z, ~ anc (hp s) c z -> hp s1 z = extract (fuel_of s) (hp s) c z).
  { intros z Hz. unfold s1. cbn [with_heap hp]. now apply Hfr. }
  split; [now exists F'|]. split; [|split; [exact Hcell | exact Hlive]].
  apply Forall_forall. intros c0 Hc0. rewrite Forall_forall in HF. destruct (HF c0 Hc0) as [L0 P0].
  assert (N0 : c0 <> c) by (intros ->; contradiction).
  assert (Hna0 : ~ anc (hp s) c c0).
  { intros H. apply anc_inv in H. destruct H as [H|(q & Pq & H)]; [congruence|].
    rewrite P0 in Pq. inversion Pq; subst q. exact (acyclic s c self C Lc Pc H). }
  split; [apply Hlive; split; assumption|]. rewrite (Hcell c0 Hna0).
  rewrite extract_par_other by exact N0. exact P0.
Qed.

Lemma dead_untouched self : forall cs s, consistent s ->
  Forall (fun c => live s c /\ par (hp s c) = Some self) cs -> NoDup cs ->
  forall y, ~ live s y -> par (hp s y) = None ->
  fold_left (fun h c => decompose_h (fuel_of s) h c) cs (hp s) y = hp s y.
Proof.
  induction cs as [|c cs IH]; intros s C HF ND y Ny Py; cbn [fold_left]; [reflexivity|].
  inversion HF as [|? ? [Lc Pc] HF']; subst. inversion ND as [|? ? Hn ND']; subst.
  destruct (sibling_round self c cs s C Lc Pc Hn HF') as (C1 & HF1 & Hcell & Hlive). cbv zeta in *.
  remember (with_heap s (decompose_h (fuel_of s) (hp s) c)) as s1 eqn:Es1.
  assert (Hna : ~ anc (hp s) c y).
  { intros H. apply anc_inv in H. destruct H as [H|(q & Pq & _)]; [subst y; exact (Ny Lc) | congruence]. }
  assert (E1 : hp s1 y = hp s y) by (rewrite (Hcell y Hna); now apply extract_untouched).
  assert (Ny1 : ~ live s1 y) by (intros H; apply Hlive in H; exact (Ny (proj1 H))).
  pose proof (IH s1 C1 HF1 ND' y Ny1 ltac:(rewrite E1; exact Py)) as G. rewrite E1 in G.
  subst s1. exact G.
Qed.

Lemma wiped_meta c d : meta c = meta d -> wiped c = wiped d.
Proof. intros M. unfold wiped. now rewrite (meta_kind _ _ M), (meta_txt _ _ M). Qed.

Lemma clear_true_wiped self : forall cs s, consistent s -> NoDup cs ->
  Forall (fun c => live s c /\ par (hp s c) = Some self) cs ->
  forall y, live s y -> (exists c, In c cs /\ anc (hp s) c y) ->
  fold_left (fun h c => decompose_h (fuel_of s) h c) cs (hp s) y = wiped (hp s y).
Proof.
  induction cs as [|c cs IH]; intros s C ND HF y Ly (c' & Hc' & Ha); [contradiction|].
  inversion HF as [|? ? [Lc Pc] HF']; subst. inversion ND as [|? ? Hn ND']; subst. cbn [fold_left].
  destruct (sibling_round self c cs s C Lc Pc Hn HF') as (C1 & HF1 & Hcell & Hlive). cbv zeta in *.
  pose proof C as [F CF]. destruct (decompose_cells F s c CF Lc) as (_ & Hw & _). cbv zeta in Hw.
  remember (with_heap s (decompose_h (fuel_of s) (hp s) c)) as s1 eqn:Es1.
  destruct (anc_dec s c y C Ly) as [Hcy|Hcy].
  - assert (E : hp s1 y = wiped (hp s y)) by (subst s1; cbn [with_heap hp]; now apply Hw).
    assert (Ny1 : ~ live s1 y) by (intros [_ D]; rewrite E in D; discriminate).
    pose proof (dead_untouched self cs s1 C1 HF1 ND' y Ny1 ltac:(rewrite E; reflexivity)) as G. rewrite E in G.
    subst s1. exact G.
  - assert (Ly1 : live s1 y) by (apply Hlive; split; assumption).
    assert (Nc' : c' <> c) by (intros ->; contradiction).
    destruct Hc' as [Hc'|Hc']; [congruence|].
    assert (Hpar1 : forall z, ~ anc (hp s) c z -> par (hp s1 z) = par (hp s z)).
    { intros z Hz. rewrite (Hcell z Hz). apply extract_par_other. intros ->. apply Hz. constructor. }
    assert (Ha1 : anc (hp s1) c' y).
    { apply (anc_agree (hp s) (hp s1) c' y); [|exact Ha].
      intros z Hz. apply Hpar1. intros Hcz. apply Hcy. eapply anc_trans; eauto. }
    pose proof (IH s1 C1 ND' HF1 y Ly1 (ex_intro _ c' (conj Hc' Ha1))) as G.
    rewrite (Hcell y Hcy) in G. rewrite (wiped_meta _ _ (extract_meta _ _ _ _)) in G.
    subst s1. exact G.
Qed.

(* clear(decompose=True): every element strictly below self becomes exactly the wiped cell (dead, no parent, no
   children, no links, kind and label kept), as for decompose() *)
Theorem op_clear_true_wiped s self s' : consistent s -> live s self -> op_clear s self true = Ok s' ->
  forall y, live s y -> anc (hp s) self y -> y <> self -> hp s' y = wiped (hp s y).
Proof.
  intros C L E y Ly Ha Ny. unfold op_clear in E. inversion E; subst s'. clear E. cbn [with_heap hp].
  assert (HF : Forall (fun c => live s c /\ par (hp s c) = Some self) (kids (hp s self))).
  { apply Forall_forall. intros c Hc. apply (kids_facts s self c C L Hc). }
  exact (clear_true_wiped self (kids (hp s self)) s C (kids_NoDup s self C L) HF y Ly (anc_via_child s self y C Ha Ly Ny)).
Qed.

(* no call ever touches a cell that is not live: stated for the two primitives that destroy / detach *)
Theorem decompose_untouched s c y : consistent s -> live s c -> ~ live s y -> par (hp s y) = None ->
  decompose_h (fuel_of s) (hp s) c y = hp s y.
Proof.
  intros C Lc Ny Py. pose proof C as [F CF]. destruct (decompose_cons F s c CF Lc) as (_ & _ & Hfr).
  rewrite Hfr; [now apply extract_untouched|].
  intros H. apply anc_inv in H. destruct H as [H|(q & Pq & _)]; [subst y; exact (Ny Lc) | congruence].
Qed.

(* ---- the forest of a consistent state is read off the child lists ---- *)

(* so every statement about child lists above is a statement about the forest: [abs_tree] (Spec/Tree.v) of a
   node of a represented tree is the subtree at that node *)
Lemma abs_tree_rep h : forall t f, (forall u, In u (subterms t) -> node_ok h u) -> length (pre t) <= f ->
  abs_tree f h (rid t) = t.
Proof.
  induction t as [i ks IH] using tree_ind'. intros f Hok Hf. rewrite Forall_forall in IH.
  destruct f as [|f]; [cbn in Hf; lia|]. cbn [rid abs_tree].
  destruct (Hok (Node i ks) (subterms_self _)) as (K & _). cbn [rid tkids] in K. rewrite K, map_map. f_equal.
  rewrite <- (map_id ks) at 2. apply map_ext_in. intros k Hk. apply IH; [exact Hk| |].
  - intros u Hu. apply Hok. apply (in_subterms_kid u k (Node i ks)); [exact Hk | exact Hu].
  - pose proof (pre_kid_length k ks Hk) as Hl. cbn [pre length] in Hf. fold (pres ks) in Hf. lia.
Qed.

Theorem forest_read_off F s : cons_with F s ->
  forall T b, In (T, b) F -> abs_tree (fuel_of s) (hp s) (rid T) = T /\ par (hp s (rid T)) = None.
Proof.
  intros C T b HT. pose proof C as (R & _). pose proof (rep_in _ _ _ _ R HT) as (Hok & Hr & _).
  split; [|exact Hr]. apply abs_tree_rep; [exact Hok|]. pose proof (cons_tree_fuel F s T b C HT). lia.
Qed.

(* ------------------------------------------------------------------------------------------ *)
(* C. smooth(): the exact result                                                              *)
(* ------------------------------------------------------------------------------------------ *)

(* ---- list level: what the merge loop of one tag does to its child list ---- *)

(* positions i and i+1 are replaced by the fresh id n *)
Definition merge_list (K : list nat) (n i : nat) : list nat := firstn i K ++ n :: skipn (S (S i)) K.

Definition mstep (st : list nat * nat) (i : nat) : list nat * nat := (merge_list (fst st) (snd st) i, S (snd st)).

(* the child list after the merges, and the next free id: the marked positions (both neighbours plain
   strings, as the code tests them before merging anything) are merged from right to left *)
Definition smooth_list (h : heap) (K : list nat) (n : nat) : list nat * nat :=
  fold_left mstep (rev (marked_positions h 0 K)) (K, n).

Lemma split_at {X} (K : list X) i d : S i < length K ->
  K = firstn i K ++ nth i K d :: nth (S i) K d :: skipn (S (S i)) K.
Proof.
  revert i. induction K as [|x K IH]; intros i Hi; [cbn in Hi; lia|]. destruct i as [|i].
  - destruct K as [|y K]; [cbn in Hi; lia|]. reflexivity.
  - cbn [firstn nth skipn app length] in *. f_equal. apply IH. lia.
Qed.

Lemma merge_list_length K n i : S i < length K -> length (merge_list K n i) = pred (length K).
Proof.
  intros Hi. unfold merge_list. rewrite app_length, firstn_length. cbn [length]. rewrite skipn_length. lia.
Qed.

(* ---- one merge ---- *)

Lemma merge_at_effect s self i : consistent s -> live s self -> S i < length (kids (hp s self)) ->
  let K := kids (hp s self) in let a := nth i K 0 in let b := nth (S i) K 0 in let s' := merge_at s self i in
  ext s s' /\ nxt s' = S (nxt s) /\
  kids (hp s' self) = merge_list K (nxt s) i /\
  kind (hp s' (nxt s)) = KStr false /\ txt (hp s' (nxt s)) = txt (hp s a) ++ txt (hp s b) /\
  par (hp s' (nxt s)) = Some self /\
  par (hp s' a) = None /\ par (hp s' b) = None /\
  (forall q, live s q -> q <> self -> kids (hp s' q) = kids (hp s q)) /\
  (forall y, live s y -> y <> a -> y <> b -> par (hp s' y) = par (hp s y)).
Proof.
  intros C L Hi K a b s'. pose proof (kids_NoDup s self C L) as ND. fold K in ND.
  pose proof (split_at K i 0 Hi) as EK. fold a b in EK.
  remember (firstn i K) as A eqn:EA. remember (skipn (S (S i)) K) as B eqn:EB.
  assert (Ha : In a K) by (rewrite EK; apply in_or_app; right; now left).
  assert (Hb : In b K) by (rewrite EK; apply in_or_app; right; right; now left).
  destruct (kids_facts s self a C L Ha) as [La Pa]. destruct (kids_facts s self b C L Hb) as [Lb Pb].
  assert (Nab : a <> b).
  { intros E. rewrite EK in ND. apply NoDup_remove_2 in ND. apply ND. apply in_or_app. right. left. now symmetry. }
  (* 1. extract b *)
  destruct (extract_step s b C Lb) as (Ev1 & K1 & P1 & Pf1). cbv zeta in *.
  unfold s', merge_at. cbv zeta. fold K a b.
  remember (with_heap s (extract (fuel_of s) (hp s) b)) as s1 eqn:Es1.
  assert (N1 : nxt s1 = nxt s) by (subst s1; reflexivity).
  pose proof (evo_consistent _ _ _ (Ev1 self)) as C1. pose proof (evo_live _ _ _ _ (Ev1 self) L) as L1.
  assert (M1 : forall y, meta (hp s1 y) = meta (hp s y)) by (intros y; subst s1; apply extract_meta).
  assert (Ks1 : kids (hp s1 self) = A ++ a :: B).
  { rewrite (K1 self L). fold K. rewrite EK. 
    replace (A ++ a :: b :: B) with ((A ++ [a]) ++ b :: B) by (now rewrite <- app_assoc).
    rewrite EK in ND. replace (A ++ a :: b :: B) with ((A ++ [a]) ++ b :: B) in ND by (now rewrite <- app_assoc).
    rewrite drop_here; [now rewrite <- app_assoc| |].
    - intros Hx. apply NoDup_remove_2 in ND. apply ND. apply in_or_app. now left.
    - intros Hx. apply NoDup_remove_2 in ND. apply ND. apply in_or_app. now right. }
  (* 2. the new string *)
  pose proof (alloc_into self s1 (KStr false) (txt (hp s1 a) ++ txt (hp s1 b)) C1 L1) as HA. cbv zeta in HA.
  assert (Hsame : forall y, y <> nxt s1 -> hp (fst (alloc s1 (KStr false) (txt (hp s1 a) ++ txt (hp s1 b)))) y = hp s1 y).
  { intros y Hy. unfold alloc. cbn [fst hp]. now apply upd_other. }
  assert (N2 : nxt (fst (alloc s1 (KStr false) (txt (hp s1 a) ++ txt (hp s1 b)))) = S (nxt s1)) by reflexivity.
  destruct (alloc s1 (KStr false) (txt (hp s1 a) ++ txt (hp s1 b))) as [s2 n] eqn:EA2. cbn [fst snd] in HA, Hsame, N2.
  destruct HA as ([Ev2 _] & En & Ln & Hcell & Nn). rewrite N1 in En. subst n. rewrite N1 in *.
  pose proof (evo_consistent _ _ _ Ev2) as C2.
  assert (Na_n : a <> nxt s) by (destruct La; lia).
  assert (Ns_n : self <> nxt s) by (destruct L; lia).
  assert (Pa2 : par (hp s2 a) = Some self).
  { rewrite Hsame by exact Na_n. rewrite (Pf1 a Nab). exact Pa. }
  assert (La2 : live s2 a) by (eapply evo_live; [exact Ev2|]; eapply evo_live; [exact (Ev1 self)|]; exact La).
  assert (Ks2 : kids (hp s2 self) = A ++ a :: B) by (rewrite Hsame by exact Ns_n; exact Ks1).
  (* 3. replace a by it *)
  assert (W : wf_op s2 (OReplaceWith a [AEl (nxt s)])).
  { split; [exact La2|]. exists self. split; [exact Pa2|]. constructor; [split; assumption | constructor]. }
  assert (EAr : elem_args s2 [AEl (nxt s)] [nxt s]).
  { split; [reflexivity|]. split; [constructor; [intros []|constructor]|]. constructor; [|constructor].
    rewrite Hcell. discriminate. }
  assert (Hn : ~ In a [nxt s]) by (intros [E|[]]; congruence).
  destruct (op_replace_with_evo s2 a self [AEl (nxt s)] C2 La2 Pa2 (Forall_cons (AEl (nxt s)) (conj Ln Nn) (Forall_nil _))) as (s3 & E3 & Ev3 & _).
  rewrite E3.
  pose proof (op_replace_with_documented s2 a self _ _ s3 C2 W EAr Hn Pa2 E3) as Kd.
  destruct (op_replace_with_frame s2 a self _ _ s3 C2 W EAr Hn Pa2 E3) as (N3 & Pa3 & O3 & Pc3 & Pf3).
  assert (E13 : evo self s s3) by (eapply evo_trans; [exact (Ev1 self)|]; eapply evo_trans; eauto).
  assert (L12 : forall y, live s y -> live s2 y).
  { intros y Ly. eapply evo_live; [exact Ev2|]. eapply evo_live; [exact (Ev1 self)|]. exact Ly. }
  assert (Hfresh : forall q, live s q -> ~ In (nxt s) (kids (hp s q))) by (intros q Lq; now apply fresh_not_kid).
  split; [eapply evo_ext; exact E13|]. split; [rewrite N3, N2; reflexivity|].
  split; [|split; [|split; [|split; [|split; [|split; [|split]]]]]].
  - rewrite Kd, Ks2. 
    assert (NDs : NoDup (A ++ a :: B)) by (rewrite <- Ks1; now apply kids_NoDup).
    rewrite replace_spec_split; [|exact NDs | exact Hn]. unfold merge_list. rewrite <- EA, <- EB.
    assert (HnK : ~ In (nxt s) K) by (apply (Hfresh self L)).
    rewrite EK in HnK.
    rewrite !others_disjoint; [reflexivity| |].
    + intros x Hx [E|[]]. subst x. apply HnK. apply in_or_app. right. right. now right.
    + intros x Hx [E|[]]. subst x. apply HnK. apply in_or_app. now left.
  - assert (M : meta (hp s3 (nxt s)) = meta (hp s2 (nxt s))) by (apply Ev3; lia).
    rewrite (meta_kind _ _ M), Hcell. reflexivity.
  - assert (M : meta (hp s3 (nxt s)) = meta (hp s2 (nxt s))) by (apply Ev3; lia).
    rewrite (meta_txt _ _ M), Hcell. cbn [blank txt]. now rewrite (meta_txt _ _ (M1 a)), (meta_txt _ _ (M1 b)).
  - apply Pc3. now left.
  - exact Pa3.
  - rewrite (Pf3 b (L12 b Lb) (not_eq_sym Nab)); [|intros [E|[]]; destruct Lb; lia].
    rewrite Hsame by (destruct Lb; lia). exact P1.
  - intros q Lq Nq. rewrite (O3 q (L12 q Lq) Nq), others_one, Hsame by (destruct Lq; lia).
    rewrite (K1 q Lq). rewrite drop_notin.
    + apply drop_not_kid; auto. rewrite Pb. congruence.
    + intros Hx. apply drop_In in Hx. destruct Hx as [Hx _]. exact (Hfresh q Lq Hx).
  - intros y Ly Nya Nyb. rewrite (Pf3 y (L12 y Ly) Nya); [|intros [E|[]]; destruct Ly; lia].
    rewrite Hsame by (destruct Ly; lia). now apply Pf1.
Qed.

(* ---- the merge loop of one tag ---- *)
(* K' is K with some adjacent pairs of plain strings a b replaced by a plain string n whose text is the
   concatenation (all ids below N) *)
Inductive mrel (N : nat) (h : heap) : list nat -> list nat -> Prop :=
| mrel_refl K : mrel N h K K
| mrel_step A a b B n K' :
    a < N -> b < N -> n < N -> plain_str h a = true -> plain_str h b = true -> plain_str h n = true ->
    txt (h n) = txt (h a) ++ txt (h b) ->
    mrel N h (A ++ n :: B) K' -> mrel N h (A ++ a :: b :: B) K'.

Lemma mrel_ext N N' h1 h2 K K' : N <= N' -> (forall x, x < N -> meta (h2 x) = meta (h1 x)) ->
  mrel N h1 K K' -> mrel N' h2 K K'.
Proof.
  intros Hle M H. induction H as [K|A a b B n K' La Lb Ln Pa Pb Pn T H IH]; [constructor|].
  assert (Pl : forall x, x < N -> plain_str h2 x = plain_str h1 x) by (intros x Hx; unfold plain_str; now rewrite (meta_kind _ _ (M x Hx))).
  apply (mrel_step N' h2 A a b B n K'); try lia; try (rewrite Pl by assumption; assumption); [|exact IH].
  now rewrite (meta_txt _ _ (M n Ln)), (meta_txt _ _ (M a La)), (meta_txt _ _ (M b Lb)).
Qed.

(* any additive reading of the child list is unchanged *)
Lemma mrel_flat_map N h K K' (W : nat -> str) : mrel N h K K' ->
  (forall x, plain_str h x = true -> W x = txt (h x)) -> flat_map W K' = flat_map W K.
Proof.
  intros H HW. induction H as [K|A a b B n K' La Lb Ln Pa Pb Pn T H IH]; [reflexivity|].
  rewrite IH. rewrite !flat_map_app. cbn [flat_map]. rewrite (HW n Pn), (HW a Pa), (HW b Pb), T, <- app_assoc. reflexivity.
Qed.

Lemma plain_ext s s' x : ext s s' -> x < nxt s -> plain_str (hp s') x = plain_str (hp s) x.
Proof. intros (_ & _ & M) Hx. unfold plain_str. now rewrite (meta_kind _ _ (M x Hx)). Qed.

Definition plain_at (h : heap) (K : list nat) (j : nat) : Prop :=
  plain_str h (nth j K 0) = true /\ plain_str h (nth (S j) K 0) = true.

Lemma marked_plain h : forall K i j, In j (marked_positions h i K) -> i <= j /\ plain_at h K (j - i).
Proof.
  induction K as [|a K IH]; intros i j H; [contradiction|]. destruct K as [|b K']; [contradiction|].
  change (marked_positions h i (a :: b :: K')) with
    (if plain_str h a && plain_str h b then i :: marked_positions h (S i) (b :: K') else marked_positions h (S i) (b :: K')) in H.
  assert (Rec : In j (marked_positions h (S i) (b :: K')) -> i <= j /\ plain_at h (a :: b :: K') (j - i)).
  { intros H0. destruct (IH (S i) j H0) as [Hle [P1 P2]]. split; [lia|].
    replace (j - i) with (S (j - S i)) by lia. split; [exact P1 | exact P2]. }
  destruct (plain_str h a && plain_str h b) eqn:E; [|now apply Rec].
  destruct H as [<-|H]; [|now apply Rec]. split; [lia|]. rewrite Nat.sub_diag.
  apply andb_true_iff in E. exact E.
Qed.


Lemma merge_fold_effect a : forall P s, consistent s -> live s a -> desc P ->
  (forall j, In j P -> S j < length (kids (hp s a))) ->
  (forall j, In j P -> plain_at (hp s) (kids (hp s a)) j) ->
  mrel (nxt (fold_left (fun s i => merge_at s a i) P s)) (hp (fold_left (fun s i => merge_at s a i) P s))
       (kids (hp s a)) (kids (hp (fold_left (fun s i => merge_at s a i) P s) a)) /\
  ext s (fold_left (fun s i => merge_at s a i) P s) /\
  (kids (hp (fold_left (fun s i => merge_at s a i) P s) a), nxt (fold_left (fun s i => merge_at s a i) P s)) =
    fold_left mstep P (kids (hp s a), nxt s) /\
  (forall q, live s q -> q <> a -> kids (hp (fold_left (fun s i => merge_at s a i) P s) q) = kids (hp s q)) /\
  (forall y, live s y -> par (hp (fold_left (fun s i => merge_at s a i) P s) y) = par (hp s y) \/
                         (par (hp (fold_left (fun s i => merge_at s a i) P s) y) = None /\ par (hp s y) = Some a)).
Proof.
  induction P as [|i P IH]; intros s C L D Hb Hpl; cbn [fold_left].
  - split; [constructor|]. split; [now apply ext_refl|]. split; [reflexivity|]. split; [auto|]. intros y _. now left.
  - destruct D as [D1 D2]. pose proof (Hb i (or_introl eq_refl)) as Hi.
    destruct (merge_at_effect s a i C L Hi) as (E1 & N1 & K1 & Kn & Tn & _ & Pa & Pb & O1 & Pf1). cbv zeta in *.
    remember (merge_at s a i) as s1 eqn:Es1.
    pose proof E1 as (C1 & _). pose proof (ext_live _ _ _ E1 L) as L1.
    assert (Hb1 : forall j, In j P -> S j < length (kids (hp s1 a))).
    { intros j Hj. rewrite K1, merge_list_length by exact Hi. pose proof (D1 j Hj). lia. }
    pose proof (split_at (kids (hp s a)) i 0 Hi) as EK.
    remember (firstn i (kids (hp s a))) as A eqn:EA. remember (skipn (S (S i)) (kids (hp s a))) as B eqn:EB.
    remember (nth i (kids (hp s a)) 0) as ai eqn:Eai. remember (nth (S i) (kids (hp s a)) 0) as bi eqn:Ebi.
    assert (LA : length A = i) by (subst A; rewrite firstn_length; lia).
    assert (K1' : kids (hp s1 a) = A ++ nxt s :: B) by (rewrite K1; unfold merge_list; now rewrite <- EA, <- EB).
    assert (Hai : In ai (kids (hp s a))) by (rewrite EK; apply in_or_app; right; now left).
    assert (Hbi : In bi (kids (hp s a))) by (rewrite EK; apply in_or_app; right; right; now left).
    destruct (kids_facts s a ai C L Hai) as [[Lai _] _]. destruct (kids_facts s a bi C L Hbi) as [[Lbi _] _].
    destruct (Hpl i (or_introl eq_refl)) as [Pai Pbi]. rewrite <- Eai in Pai. rewrite <- Ebi in Pbi.
    assert (Pn1 : plain_str (hp s1) (nxt s) = true) by (unfold plain_str; now rewrite Kn).
    assert (Hpl1 : forall j, In j P -> plain_at (hp s1) (kids (hp s1 a)) j).
    { intros j Hj. pose proof (D1 j Hj) as Hji. destruct (Hpl j (or_intror Hj)) as [P1 P2].
      assert (Old : forall x, In x (kids (hp s a)) -> plain_str (hp s1) x = plain_str (hp s) x).
      { intros x Hx. destruct (kids_facts s a x C L Hx) as [[Hlt _] _]. now apply (plain_ext s s1). }
      rewrite K1'. rewrite EK in P1, P2. unfold plain_at. split.
      - rewrite app_nth1 by lia. rewrite app_nth1 in P1 by lia. rewrite Old; [exact P1|].
        rewrite EK. apply in_or_app. left. apply nth_In. lia.
      - destruct (Nat.eq_dec (S j) i) as [E|N].
        + rewrite app_nth2 by lia. replace (S j - length A) with 0 by lia. exact Pn1.
        + rewrite app_nth1 by lia. rewrite app_nth1 in P2 by lia. rewrite Old; [exact P2|].
          rewrite EK. apply in_or_app. left. apply nth_In. lia. }
    destruct (IH s1 C1 L1 D2 Hb1 Hpl1) as (R2 & E2 & K2 & O2 & Pf2).
    assert (Nle : nxt s1 <= nxt (fold_left (fun s0 i0 => merge_at s0 a i0) P s1)) by (destruct E2 as (_ & N & _); exact N).
    pose proof (ext_trans _ _ _ E1 E2) as E12. pose proof E12 as (_ & _ & M12). pose proof E2 as (_ & _ & M2).
    split.
    { rewrite EK. rewrite K1' in R2. apply (mrel_step _ _ A ai bi B (nxt s)); try lia; [| | | |exact R2].
      - rewrite (plain_ext s _ ai E12 Lai). exact Pai.
      - rewrite (plain_ext s _ bi E12 Lbi). exact Pbi.
      - rewrite (plain_ext s1 _ (nxt s) E2) by lia. exact Pn1.
      - rewrite (meta_txt _ _ (M2 (nxt s) ltac:(lia))), Tn, (meta_txt _ _ (M12 ai Lai)), (meta_txt _ _ (M12 bi Lbi)).
        reflexivity. }
    split; [exact E12|]. split; [|split].
    + rewrite K2, K1, N1. reflexivity.
    + intros q Lq Nq. rewrite (O2 q (ext_live _ _ _ E1 Lq) Nq). now apply O1.
    + intros y Ly.
      assert (Hab : forall z, z = ai \/ z = bi -> par (hp s1 z) = None /\ par (hp s z) = Some a).
      { intros z Hz. assert (Hin : In z (kids (hp s a))) by (destruct Hz as [-> | ->]; assumption).
        destruct (kids_facts s a z C L Hin) as [_ Pz]. split; [destruct Hz as [-> | ->]; assumption | exact Pz]. }
      destruct (Pf2 y (ext_live _ _ _ E1 Ly)) as [Q|[Q1 Q2]].
      * destruct (Nat.eq_dec y ai) as [Ea|Na]; [right; destruct (Hab y (or_introl Ea)) as [H1 H2]; split; congruence|].
        destruct (Nat.eq_dec y bi) as [Eb|Nb]; [right; destruct (Hab y (or_intror Eb)) as [H1 H2]; split; congruence|].
        left. rewrite Q. now apply Pf1.
      * right. split; [exact Q1|].
        destruct (Nat.eq_dec y ai) as [Ea|Na]; [destruct (Hab y (or_introl Ea)); congruence|].
        destruct (Nat.eq_dec y bi) as [Eb|Nb]; [destruct (Hab y (or_intror Eb)); congruence|].
        rewrite <- (Pf1 y Ly Na Nb). exact Q2.
Qed.

(* ---- which tags are smoothed, in which order ---- *)

Fixpoint tags_below (f : nat) (h : heap) (a : nat) : list nat :=
  match f with
  | 0 => []
  | S f' => flat_map (fun c => if is_tag h c then tags_below f' h c else []) (kids (h a)) ++ [a]
  end.

(* the effect of smoothing the tags of L *)
Definition SmEff (s s' : st) (L : list nat) : Prop :=
  ext s s' /\
  (forall q, live s q -> ~ In q L -> kids (hp s' q) = kids (hp s q)) /\
  (forall q, In q L -> exists n, nxt s <= n /\ kids (hp s' q) = fst (smooth_list (hp s) (kids (hp s q)) n)) /\
  (forall y, live s y -> par (hp s' y) = par (hp s y) \/
                         (par (hp s' y) = None /\ exists q, In q L /\ par (hp s y) = Some q)) /\
  (forall q, In q L -> mrel (nxt s') (hp s') (kids (hp s q)) (kids (hp s' q))).

Lemma marked_ext h h1 : forall K i, (forall x, In x K -> plain_str h1 x = plain_str h x) ->
  marked_positions h1 i K = marked_positions h i K.
Proof.
  induction K as [|a K IH]; intros i H; [reflexivity|]. destruct K as [|b K']; [reflexivity|].
  change (marked_positions h1 i (a :: b :: K')) with
    (if plain_str h1 a && plain_str h1 b then i :: marked_positions h1 (S i) (b :: K') else marked_positions h1 (S i) (b :: K')).
  change (marked_positions h i (a :: b :: K')) with
    (if plain_str h a && plain_str h b then i :: marked_positions h (S i) (b :: K') else marked_positions h (S i) (b :: K')).
  rewrite (H a (or_introl eq_refl)), (H b (or_intror (or_introl eq_refl))).
  rewrite (IH (S i)) by (intros x Hx; apply H; now right). reflexivity.
Qed.

Lemma smooth_list_ext h h1 K n : (forall x, In x K -> plain_str h1 x = plain_str h x) ->
  smooth_list h1 K n = smooth_list h K n.
Proof. intros H. unfold smooth_list. now rewrite (marked_ext h h1 K 0 H). Qed.


Lemma SmEff_refl s : consistent s -> SmEff s s [].
Proof.
  intros C. split; [now apply ext_refl|]. split; [auto|]. split; [intros q []|]. split; [intros y _; now left | intros q []].
Qed.

Lemma SmEff_trans s s1 s2 L1 L2 : consistent s -> SmEff s s1 L1 -> SmEff s1 s2 L2 ->
  (forall q, In q L1 -> live s q /\ ~ In q L2) -> (forall q, In q L2 -> live s q /\ ~ In q L1) ->
  SmEff s s2 (L1 ++ L2).
Proof.
  intros C (E1 & O1 & S1 & P1 & R1) (E2 & O2 & S2 & P2 & R2) H1 H2.
  assert (Nle : nxt s <= nxt s1) by (destruct E1 as (_ & N & _); exact N).
  split; [eapply ext_trans; eauto|]. split; [|split; [|split]].
  - intros q Lq Hn. rewrite (O2 q (ext_live _ _ _ E1 Lq)) by (intros Hi; apply Hn, in_or_app; now right).
    apply O1; [exact Lq|]. intros Hi. apply Hn, in_or_app. now left.
  - intros q Hq. apply in_app_or in Hq. destruct Hq as [Hq|Hq].
    + destruct (H1 q Hq) as [Lq Nq]. destruct (S1 q Hq) as (n & Hn & Kq). exists n. split; [exact Hn|].
      rewrite (O2 q (ext_live _ _ _ E1 Lq) Nq). exact Kq.
    + destruct (H2 q Hq) as [Lq Nq]. destruct (S2 q Hq) as (n & Hn & Kq). exists n. split; [lia|].
      rewrite Kq, (O1 q Lq Nq). f_equal. apply smooth_list_ext. intros x Hx.
      destruct (kids_facts s q x C Lq Hx) as [[Hlt _] _]. now apply (plain_ext s s1).
  - intros y Ly. destruct (P2 y (ext_live _ _ _ E1 Ly)) as [Q2|(Q2 & q2 & Hq2 & Pq2)];
      destruct (P1 y Ly) as [Q1|(Q1 & q1 & Hq1 & Pq1)].
    + left. congruence.
    + right. split; [congruence|]. exists q1. split; [apply in_or_app; now left | exact Pq1].
    + right. split; [exact Q2|]. exists q2. split; [apply in_or_app; now right | congruence].
    + congruence.
  - intros q Hq. apply in_app_or in Hq. destruct Hq as [Hq|Hq].
    + destruct (H1 q Hq) as [Lq Nq]. rewrite (O2 q (ext_live _ _ _ E1 Lq) Nq).
      destruct E2 as (_ & N2 & M2). apply (mrel_ext (nxt s1) (nxt s2) (hp s1) (hp s2)); [exact N2 | exact M2 | now apply R1].
    + destruct (H2 q Hq) as [Lq Nq]. rewrite <- (O1 q Lq Nq). now apply R2.
Qed.

Lemma flat_map_ext_in' {A B} (f g : A -> list B) l : (forall a, In a l -> f a = g a) -> flat_map f l = flat_map g l.
Proof.
  induction l as [|x l IH]; intros H; [reflexivity|]. cbn [flat_map]. rewrite (H x (or_introl eq_refl)).
  f_equal. apply IH. intros a Ha. apply H. now right.
Qed.

Lemma tags_below_agree : forall f h h1 c,
  (forall q, In q (tags_below f h c) -> kids (h1 q) = kids (h q) /\ forall x, In x (kids (h q)) -> is_tag h1 x = is_tag h x) ->
  tags_below f h1 c = tags_below f h c.
Proof.
  induction f as [|f IH]; intros h h1 c H; [reflexivity|]. cbn [tags_below] in *.
  destruct (H c ltac:(apply in_or_app; right; now left)) as [Ek Et]. rewrite Ek. f_equal.
  apply flat_map_ext_in'. intros x Hx. rewrite (Et x Hx). destruct (is_tag h x) eqn:T; [|reflexivity].
  apply IH. intros q Hq. apply H. apply in_or_app. left. apply in_flat_map. exists x. split; [exact Hx|]. now rewrite T.
Qed.

Lemma tags_below_live s : consistent s -> forall f c, live s c -> forall q, In q (tags_below f (hp s) c) -> live s q.
Proof.
  intros C. induction f as [|f IH]; intros c Lc q Hq; [contradiction|]. cbn [tags_below] in Hq.
  apply in_app_or in Hq. destruct Hq as [Hq|[<-|[]]]; [|exact Lc].
  apply in_flat_map in Hq. destruct Hq as (x & Hx & Hq). destruct (is_tag (hp s) x); [|contradiction].
  destruct (kids_facts s c x C Lc Hx) as [Lx _]. exact (IH x Lx q Hq).
Qed.

Lemma is_tag_ext_st s s' x : ext s s' -> x < nxt s -> is_tag (hp s') x = is_tag (hp s) x.
Proof. intros (_ & _ & M) Hx. apply is_tag_ext. exact (meta_kind _ _ (M x Hx)). Qed.

(* ---- smooth_rec ---- *)

Lemma smooth_rec_effect : forall f s a, consistent s -> live s a -> NoDup (tags_below f (hp s) a) ->
  SmEff s (smooth_rec f s a) (tags_below f (hp s) a).
Proof.
  induction f as [|f IHf]; intros s a C La ND; [now apply SmEff_refl|].
  rewrite smooth_rec_S. cbv zeta. cbn [tags_below] in ND |- *.
  set (g := fun c => if is_tag (hp s) c then tags_below f (hp s) c else []) in *.
  set (stepf := fun (s0 : st) c => if is_tag (hp s0) c then smooth_rec f s0 c else s0).
  (* phase 1: the children, left to right *)
  assert (Fold : forall l cur Ld, Forall (live s) l -> SmEff s cur Ld -> (forall q, In q Ld -> live s q) ->
            NoDup (Ld ++ flat_map g l) -> SmEff s (fold_left stepf l cur) (Ld ++ flat_map g l)).
  { induction l as [|c l IHl]; intros cur Ld HL Ecur HLd NDl; cbn [fold_left flat_map].
    - now rewrite app_nil_r.
    - inversion HL as [|? ? Lc HL']; subst. pose proof Ecur as (Ex & Ox & Sx & Px & _).
      pose proof Ex as (Cx & _).
      assert (Tc : is_tag (hp cur) c = is_tag (hp s) c) by (apply (is_tag_ext_st s cur c Ex), Lc).
      cbn [flat_map] in NDl. rewrite app_assoc in NDl |- *.
      change (stepf cur c) with (if is_tag (hp cur) c then smooth_rec f cur c else cur). rewrite Tc.
      assert (Eg : g c = if is_tag (hp s) c then tags_below f (hp s) c else []) by reflexivity.
      rewrite Eg in NDl |- *. clear Eg.
      destruct (is_tag (hp s) c) eqn:T.
      + set (Lc' := tags_below f (hp s) c) in *.
        destruct (NoDup_app_parts _ _ NDl) as (ND1 & _ & _).
        destruct (NoDup_app_parts _ _ ND1) as (_ & NDc & Dis).
        assert (HLc : forall q, In q Lc' -> live s q) by (apply (tags_below_live s C f c Lc)).
        assert (Eagree : tags_below f (hp cur) c = Lc').
        { apply tags_below_agree. intros q Hq. split.
          - apply Ox; [now apply HLc|]. intros Hi. exact (Dis q Hi Hq).
          - intros x Hx. destruct (kids_facts s q x C (HLc q Hq) Hx) as [[Hlt _] _]. now apply (is_tag_ext_st s cur). }
        pose proof (IHf cur c Cx (ext_live _ _ _ Ex Lc) ltac:(rewrite Eagree; exact NDc)) as Ec. rewrite Eagree in Ec.
        apply IHl; [exact HL'| | |exact NDl].
        * apply (SmEff_trans s cur _ Ld Lc' C Ecur Ec).
          -- intros q Hq. split; [now apply HLd | intros Hi; exact (Dis q Hq Hi)].
          -- intros q Hq. split; [now apply HLc | intros Hi; exact (Dis q Hi Hq)].
        * intros q Hq. apply in_app_or in Hq. destruct Hq; [now apply HLd | now apply HLc].
      + rewrite app_nil_r in NDl |- *. apply IHl; auto. }
  assert (HLk : Forall (live s) (kids (hp s a))).
  { apply Forall_forall. intros c Hc. apply (kids_facts s a c C La Hc). }
  destruct (NoDup_app_parts _ _ ND) as (NDk & _ & Dis).
  pose proof (Fold (kids (hp s a)) s [] HLk (SmEff_refl s C) ltac:(intros q []) NDk) as E1. cbn [app] in E1.
  remember (fold_left stepf (kids (hp s a)) s) as s1 eqn:Es1.
  pose proof E1 as (Ex1 & O1 & _ & _ & _). pose proof Ex1 as (C1 & _). pose proof (ext_live _ _ _ Ex1 La) as La1.
  assert (Na : ~ In a (flat_map g (kids (hp s a)))) by (intros Hi; apply (Dis a Hi); now left).
  assert (Ka1 : kids (hp s1 a) = kids (hp s a)) by (now apply O1).
  (* phase 2: the merges of a itself *)
  destruct (merge_fold_effect a (rev (marked_positions (hp s1) 0 (kids (hp s1 a)))) s1 C1 La1 (desc_rev_marked _ _ _))
    as (R2 & Ex2 & K2 & O2 & P2).
  { intros j Hj. apply in_rev in Hj. apply marked_positions_spec in Hj. lia. }
  { intros j Hj. apply in_rev in Hj. destruct (marked_plain _ _ _ _ Hj) as [_ Hp]. now rewrite Nat.sub_0_r in Hp. }
  remember (fold_left (fun s0 i => merge_at s0 a i) (rev (marked_positions (hp s1) 0 (kids (hp s1 a)))) s1) as s2 eqn:Es2.
  assert (E2 : SmEff s1 s2 [a]).
  { split; [exact Ex2|]. split; [|split; [|split]].
    - intros q Lq Hn. apply O2; [exact Lq|]. intros ->. apply Hn. now left.
    - intros q [<-|[]]. exists (nxt s1). split; [lia|]. unfold smooth_list. rewrite <- K2. reflexivity.
    - intros y Ly. destruct (P2 y Ly) as [Q|[Q1 Q2]]; [now left|]. right. split; [exact Q1|]. exists a. split; [now left | exact Q2].
    - intros q [<-|[]]. exact R2. }
  apply (SmEff_trans s s1 s2 _ [a] C E1 E2).
  - intros q Hq. split.
    + apply in_flat_map in Hq. destruct Hq as (x & Hx & Hq). unfold g in Hq. destruct (is_tag (hp s) x); [|contradiction].
      rewrite Forall_forall in HLk. exact (tags_below_live s C f x (HLk x Hx) q Hq).
    + intros [<-|[]]. exact (Na Hq).
  - intros q [<-|[]]. split; [exact La | exact Na].
Qed.

(* ---- the smoothed tags are the tags at or below self (self itself whatever its kind) ---- *)

Lemma anc_comparable h a b y : anc h a y -> anc h b y -> anc h a b \/ anc h b a.
Proof.
  intros Ha. revert b. induction Ha as [|y p P Ha IH]; intros b Hb; [now right|].
  apply anc_inv in Hb. destruct Hb as [->|(p' & P' & Hb)].
  - left. eapply anc_step; eauto.
  - assert (p' = p) by congruence. subst p'. now apply IH.
Qed.

Lemma tags_below_anc s : consistent s -> forall f c, live s c -> forall q, In q (tags_below f (hp s) c) -> anc (hp s) c q.
Proof.
  intros C. induction f as [|f IH]; intros c Lc q Hq; [contradiction|]. cbn [tags_below] in Hq.
  apply in_app_or in Hq. destruct Hq as [Hq|[<-|[]]]; [|constructor].
  apply in_flat_map in Hq. destruct Hq as (x & Hx & Hq). destruct (is_tag (hp s) x); [|contradiction].
  destruct (kids_facts s c x C Lc Hx) as [Lx Px]. eapply anc_trans; [|exact (IH x Lx q Hq)].
  eapply anc_step; [exact Px | constructor].
Qed.

Lemma NoDup_flat_map {A} (g : A -> list nat) : forall K, NoDup K -> (forall x, In x K -> NoDup (g x)) ->
  (forall x1 x2 q, In x1 K -> In x2 K -> x1 <> x2 -> In q (g x1) -> In q (g x2) -> False) -> NoDup (flat_map g K).
Proof.
  induction K as [|x K IH]; intros ND Hg Hd; [constructor|]. cbn [flat_map]. inversion ND as [|? ? Hn ND']; subst.
  apply NoDup_app_intro.
  - apply Hg. now left.
  - apply IH; [exact ND' | intros y Hy; apply Hg; now right|].
    intros x1 x2 q H1 H2. apply Hd; now right.
  - intros q Hq Hq2. apply in_flat_map in Hq2. destruct Hq2 as (x2 & Hx2 & Hq2).
    apply (Hd x x2 q); auto; [now left | now right | intros ->; contradiction].
Qed.

Lemma tags_below_NoDup s : consistent s -> forall f c, live s c -> NoDup (tags_below f (hp s) c).
Proof.
  intros C. induction f as [|f IH]; intros c Lc; [constructor|]. cbn [tags_below].
  assert (Hk : forall x, In x (kids (hp s c)) -> live s x /\ par (hp s x) = Some c) by (intros x Hx; apply (kids_facts s c x C Lc Hx)).
  apply NoDup_app_intro.
  - apply NoDup_flat_map; [now apply kids_NoDup| |].
    + intros x Hx. destruct (is_tag (hp s) x); [|constructor]. apply IH. apply (Hk x Hx).
    + intros x1 x2 q H1 H2 N Q1 Q2. destruct (Hk x1 H1) as [L1 P1]. destruct (Hk x2 H2) as [L2 P2].
      destruct (is_tag (hp s) x1); [|contradiction]. destruct (is_tag (hp s) x2); [|contradiction].
      pose proof (tags_below_anc s C f x1 L1 q Q1) as A1. pose proof (tags_below_anc s C f x2 L2 q Q2) as A2.
      destruct (anc_comparable _ _ _ _ A1 A2) as [H|H]; apply anc_inv in H; destruct H as [H|(p & Pp & H)]; try congruence.
      * assert (p = c) by congruence. subst p. exact (acyclic s x1 c C L1 P1 H).
      * assert (p = c) by congruence. subst p. exact (acyclic s x2 c C L2 P2 H).
  - constructor; [intros []|constructor].
  - intros q Hq [<-|[]]. apply in_flat_map in Hq. destruct Hq as (x & Hx & Hq). destruct (Hk x Hx) as [Lx Px].
    destruct (is_tag (hp s) x); [|contradiction]. exact (acyclic s x c C Lx Px (tags_below_anc s C f x Lx c Hq)).
Qed.

Lemma tags_below_self f h a : In a (tags_below (S f) h a).
Proof. cbn [tags_below]. apply in_or_app. right. now left. Qed.

Lemma tags_below_child : forall f h a p q, In p (tags_below f h a) -> In q (kids (h p)) -> is_tag h q = true ->
  In q (tags_below (S f) h a).
Proof.
  induction f as [|f IH]; intros h a p q Hp Hq Tq; [contradiction|].
  cbn [tags_below] in Hp. apply in_app_or in Hp. destruct Hp as [Hp|[<-|[]]].
  - apply in_flat_map in Hp. destruct Hp as (x & Hx & Hp). destruct (is_tag h x) eqn:Tx; [|contradiction].
    pose proof (IH h x p q Hp Hq Tq) as H. change (tags_below (S (S f)) h a) with
      (flat_map (fun c => if is_tag h c then tags_below (S f) h c else []) (kids (h a)) ++ [a]).
    apply in_or_app. left. apply in_flat_map. exists x. split; [exact Hx|]. now rewrite Tx.
  - change (tags_below (S (S f)) h a) with
      (flat_map (fun c => if is_tag h c then tags_below (S f) h c else []) (kids (h a)) ++ [a]).
    apply in_or_app. left. apply in_flat_map. exists q. split; [exact Hq|]. rewrite Tq. apply tags_below_self.
Qed.

Lemma tags_below_complete s : consistent s -> forall f a q, live s q -> is_anc_b f (hp s) a q = true ->
  (q = a \/ is_tag (hp s) q = true) -> In q (tags_below f (hp s) a).
Proof.
  intros C. induction f as [|f IH]; intros a q Lq H Hq; [discriminate|].
  cbn [is_anc_b] in H. destruct (Nat.eqb_spec q a) as [->|N]; [apply tags_below_self|]. cbn [orb] in H.
  destruct (par (hp s q)) as [p|] eqn:P; [|discriminate]. destruct Hq as [Hq|Tq]; [congruence|].
  destruct (parent_facts s q p C Lq P) as (Lp & Tp & Hin).
  apply (tags_below_child f (hp s) a p q); auto.
Qed.

Lemma tags_below_iff s self : consistent s -> live s self -> forall q, live s q ->
  (In q (tags_below (fuel_of s) (hp s) self) <-> anc (hp s) self q /\ (q = self \/ is_tag (hp s) q = true)).
Proof.
  intros C L q Lq. split.
  - intros H. split; [now apply (tags_below_anc s C (fuel_of s) self L)|].
    unfold fuel_of in H. cbn [tags_below] in H. apply in_app_or in H. destruct H as [H|[<-|[]]]; [|now left].
    apply in_flat_map in H. destruct H as (x & Hx & H). destruct (is_tag (hp s) x) eqn:Tx; [|contradiction].
    destruct (kids_facts s self x C L Hx) as [Lx _].
    (* every element of tags_below f x other than x is a tag, and x is *)
    assert (G : forall f c, live s c -> is_tag (hp s) c = true -> forall q0, In q0 (tags_below f (hp s) c) -> is_tag (hp s) q0 = true).
    { induction f as [|f IHf]; intros c Lc Tc q0 H0; [contradiction|]. cbn [tags_below] in H0.
      apply in_app_or in H0. destruct H0 as [H0|[<-|[]]]; [|exact Tc].
      apply in_flat_map in H0. destruct H0 as (y & Hy & H0). destruct (is_tag (hp s) y) eqn:Ty; [|contradiction].
      destruct (kids_facts s c y C Lc Hy) as [Ly _]. exact (IHf y Ly Ty q0 H0). }
    right. exact (G _ x Lx Tx q H).
  - intros [Ha Hq]. apply (tags_below_complete s C); auto.
    destruct (is_anc_b (fuel_of s) (hp s) self q) eqn:E; [reflexivity|].
    exfalso. exact (is_anc_b_false s self q C Lq E Ha).
Qed.

(* smooth(): in every tag at or below self (and in self), the child list becomes [smooth_list] of what it was;
   every other child list is unchanged; the only parent pointers that change are those of merged strings,
   which come back detached; nothing is lost, kinds and labels of old elements are kept *)
Theorem op_smooth_documented s self s' : consistent s -> live s self -> op_smooth s self = Ok s' ->
  ext s s' /\
  (forall q, live s q -> anc (hp s) self q -> (q = self \/ is_tag (hp s) q = true) ->
     exists n, nxt s <= n /\ kids (hp s' q) = fst (smooth_list (hp s) (kids (hp s q)) n)) /\
  (forall q, live s q -> ~ (anc (hp s) self q /\ (q = self \/ is_tag (hp s) q = true)) -> kids (hp s' q) = kids (hp s q)) /\
  (forall y, live s y -> par (hp s' y) = par (hp s y) \/
     (par (hp s' y) = None /\ exists q, anc (hp s) self q /\ par (hp s y) = Some q)) /\
  (forall q, live s q -> anc (hp s) self q -> (q = self \/ is_tag (hp s) q = true) ->
     mrel (nxt s') (hp s') (kids (hp s q)) (kids (hp s' q))).
Proof.
  intros C L E. assert (E2 : s' = smooth_rec (fuel_of s) s self) by (unfold op_smooth in E; congruence). subst s'.
  destruct (smooth_rec_effect (fuel_of s) s self C L (tags_below_NoDup s C _ self L)) as (Ex & O & S & P & R).
  split; [exact Ex|]. split; [|split; [|split]].
  - intros q Lq Ha Hq. apply S. apply (tags_below_iff s self C L q Lq). auto.
  - intros q Lq Hn. apply O; [exact Lq|]. intros Hi. apply Hn. now apply (tags_below_iff s self C L q Lq).
  - intros y Ly. destruct (P y Ly) as [Q|(Q & q & Hq & Pq)]; [now left|]. right. split; [exact Q|].
    exists q. split; [|exact Pq]. exact (tags_below_anc s C _ self L q Hq).
  - intros q Lq Ha Hq. apply R. apply (tags_below_iff s self C L q Lq). auto.
Qed.

(* ---- the text is unchanged ---- *)

(* the concatenation, in document order, of the string payloads at or below x (to depth f) *)
Fixpoint text_below (f : nat) (h : heap) (x : nat) : str :=
  if is_tag h x then match f with 0 => [] | S f' => flat_map (text_below f' h) (kids (h x)) end
  else txt (h x).

Lemma text_below_plain f h x : plain_str h x = true -> text_below f h x = txt (h x).
Proof.
  intros P. assert (T : is_tag h x = false).
  { unfold plain_str in P. unfold is_tag. destruct (kind (h x)); [discriminate|reflexivity|discriminate]. }
  destruct f; cbn [text_below]; now rewrite T.
Qed.

Theorem op_smooth_text s self s' : consistent s -> live s self -> op_smooth s self = Ok s' ->
  forall f q, live s q -> anc (hp s) self q -> text_below f (hp s') q = text_below f (hp s) q.
Proof.
  intros C L E. destruct (op_smooth_documented s self s' C L E) as (Ex & _ & _ & _ & R).
  pose proof Ex as (_ & _ & M).
  induction f as [|f IH]; intros q Lq Ha.
  - cbn [text_below]. rewrite (is_tag_ext_st s s' q Ex (proj1 Lq)), (meta_txt _ _ (M q (proj1 Lq))). reflexivity.
  - cbn [text_below]. rewrite (is_tag_ext_st s s' q Ex (proj1 Lq)), (meta_txt _ _ (M q (proj1 Lq))).
    destruct (is_tag (hp s) q) eqn:T; [|reflexivity].
    rewrite (mrel_flat_map _ _ _ _ (text_below f (hp s')) (R q Lq Ha (or_intror T))) by (intros x Px; now apply text_below_plain).
    apply flat_map_ext_in'. intros y Hy. destruct (kids_facts s q y C Lq Hy) as [Ly Py].
    apply IH; [exact Ly|]. eapply anc_trans; [exact Ha|]. eapply anc_step; [exact Py | constructor].
Qed.

(* ---- the merged strings come back detached, childless, live ---- *)

Lemma mrel_removed N h K K' : mrel N h K K' -> forall y, In y K -> In y K' \/ plain_str h y = true.
Proof.
  intros H. induction H as [K|A a b B n K' La Lb Ln Pa Pb Pn T H IH]; intros y Hy; [now left|].
  apply in_app_or in Hy. destruct Hy as [Hy|[<-|[<-|Hy]]]; [|now right|now right|];
    apply IH; apply in_or_app; [now left | right; now right].
Qed.

Lemma leaf_childless s y : consistent s -> live s y -> is_tag (hp s) y = false -> kids (hp s y) = [].
Proof.
  intros C L T. destruct (kids (hp s y)) as [|c ks] eqn:E; [reflexivity|]. exfalso.
  destruct (kids_facts s y c C L) as [Lc Pc]; [rewrite E; now left|].
  destruct (parent_facts s c y C Lc Pc) as (_ & Ty & _). congruence.
Qed.

Theorem op_smooth_merged s self s' q y : consistent s -> live s self -> op_smooth s self = Ok s' ->
  live s q -> anc (hp s) self q -> (q = self \/ is_tag (hp s) q = true) -> In y (kids (hp s q)) ->
  (In y (kids (hp s' q)) /\ par (hp s' y) = Some q) \/
  (~ In y (kids (hp s' q)) /\ par (hp s' y) = None /\ plain_str (hp s) y = true /\ kids (hp s' y) = [] /\ live s' y).
Proof.
  intros C L E Lq Ha Hq Hy. destruct (op_smooth_documented s self s' C L E) as (Ex & _ & O & P & R).
  pose proof Ex as (C' & _). destruct (kids_facts s q y C Lq Hy) as [Ly Py].
  pose proof (ext_live _ _ _ Ex Lq) as Lq'. pose proof (ext_live _ _ _ Ex Ly) as Ly'.
  destruct (in_dec Nat.eq_dec y (kids (hp s' q))) as [Hi|Hi].
  - left. split; [exact Hi|]. apply (kids_facts s' q y C' Lq' Hi).
  - right. split; [exact Hi|].
    assert (Pn : par (hp s' y) = None).
    { destruct (P y Ly) as [Q|[Q _]]; [|exact Q]. exfalso. apply Hi.
      apply (parent_facts s' y q C' Ly'). congruence. }
    assert (Pl : plain_str (hp s) y = true).
    { destruct (mrel_removed _ _ _ _ (R q Lq Ha Hq) y Hy) as [H|H]; [contradiction|].
      now rewrite (plain_ext s s' y Ex (proj1 Ly)) in H. }
    assert (Ty : is_tag (hp s) y = false).
    { unfold plain_str in Pl. unfold is_tag. destruct (kind (hp s y)); [discriminate|reflexivity|discriminate]. }
    split; [exact Pn|]. split; [exact Pl|]. split; [|exact Ly'].
    rewrite (O y Ly).
    + now apply leaf_childless.
    + intros [_ [->|T]]; [|congruence]. exact (acyclic s self q C L Py Ha).
Qed.

(* ---- [smooth_list] collapses runs: a recursive reading ---- *)

(* from the right: an element that is a plain string followed (originally) by a plain string is absorbed into
   its successor, which by then may already be a merged string, and the result gets the next fresh id *)
Fixpoint collapse (pl : nat -> bool) (K : list nat) (n : nat) : list nat * nat :=
  match K with
  | [] => ([], n)
  | a :: K' =>
      match K' with
      | [] => ([a], n)
      | b :: _ => if pl a && pl b
                  then (snd (collapse pl K' n) :: tl (fst (collapse pl K' n)), S (snd (collapse pl K' n)))
                  else (a :: fst (collapse pl K' n), snd (collapse pl K' n))
      end
  end.

Lemma fold_left_rev_as_right {A B} (f : A -> B -> A) l x : fold_left f (rev l) x = fold_right (fun b a => f a b) x l.
Proof. rewrite <- (rev_involutive l) at 2. now rewrite fold_left_rev_right. Qed.

Lemma merge_list_at P T n : merge_list (P ++ T) n (length P) = P ++ n :: skipn 2 T.
Proof.
  unfold merge_list. rewrite firstn_app, firstn_all, Nat.sub_diag. cbn [firstn]. rewrite app_nil_r. f_equal. f_equal.
  rewrite skipn_app. rewrite skipn_all2 by lia. replace (S (S (length P)) - length P) with 2 by lia. reflexivity.
Qed.

Lemma collapse_fold h n : forall K P,
  fold_right (fun j st => mstep st j) (P ++ K, n) (marked_positions h (length P) K) =
  (P ++ fst (collapse (plain_str h) K n), snd (collapse (plain_str h) K n)).
Proof.
  induction K as [|a K IH]; intros P; [reflexivity|]. destruct K as [|b K']; [reflexivity|].
  change (marked_positions h (length P) (a :: b :: K')) with
    (if plain_str h a && plain_str h b then length P :: marked_positions h (S (length P)) (b :: K')
     else marked_positions h (S (length P)) (b :: K')).
  assert (Rec : fold_right (fun j st => mstep st j) (P ++ a :: b :: K', n) (marked_positions h (S (length P)) (b :: K')) =
                (P ++ a :: fst (collapse (plain_str h) (b :: K') n), snd (collapse (plain_str h) (b :: K') n))).
  { specialize (IH (P ++ [a])). rewrite app_length in IH. cbn [length] in IH. rewrite Nat.add_1_r in IH.
    rewrite <- !app_assoc in IH. exact IH. }
  cbn [collapse]. destruct (plain_str h a && plain_str h b).
  - cbn [fold_right]. rewrite Rec. unfold mstep. cbn [fst snd]. rewrite merge_list_at. reflexivity.
  - rewrite Rec. reflexivity.
Qed.

Theorem smooth_list_collapse h K n : smooth_list h K n = collapse (plain_str h) K n.
Proof.
  unfold smooth_list. rewrite fold_left_rev_as_right. pose proof (collapse_fold h n K []) as H. cbn [app length] in H.
  rewrite H. now destruct (collapse (plain_str h) K n).
Qed.

(* ---- nothing is left to merge: in the result no two neighbours are both plain strings ---- *)

(* [P] holds of no two neighbours *)
Fixpoint nopair (P : nat -> bool) (l : list nat) : bool :=
  match l with
  | a :: l' => match l' with b :: _ => negb (P a && P b) | [] => true end && nopair P l'
  | [] => true
  end.

(* plain after the call: an old plain string, or one of the fresh strings (ids from n0 on) *)
Definition plain_after (pl : nat -> bool) (n0 : nat) (x : nat) : bool := pl x || Nat.leb n0 x.

Lemma collapse_shape pl n0 : forall K n, n0 <= n -> (forall x, In x K -> x < n0) ->
  n <= snd (collapse pl K n) /\
  nopair (plain_after pl n0) (fst (collapse pl K n)) = true /\
  match K with
  | [] => fst (collapse pl K n) = []
  | a :: _ => exists t T, fst (collapse pl K n) = t :: T /\ (t = a \/ (pl a = true /\ n0 <= t))
  end.
Proof.
  induction K as [|a K IH]; intros n Hn Hlt; [cbn; auto|].
  destruct K as [|b K'].
  - cbn [collapse fst snd nopair]. split; [lia|]. split; [reflexivity|]. exists a, []. auto.
  - destruct (IH n Hn ltac:(intros x Hx; apply Hlt; now right)) as (Hle & Hnp & t & T & ET & Ht).
    assert (La : a < n0) by (apply Hlt; now left). assert (Lb : b < n0) by (apply Hlt; right; now left).
    change (collapse pl (a :: b :: K') n) with
      (if pl a && pl b
       then (snd (collapse pl (b :: K') n) :: tl (fst (collapse pl (b :: K') n)), S (snd (collapse pl (b :: K') n)))
       else (a :: fst (collapse pl (b :: K') n), snd (collapse pl (b :: K') n))).
    destruct (pl a && pl b) eqn:E.
    + apply andb_true_iff in E. destruct E as [Pa Pb]. cbn [fst snd]. rewrite ET in *. cbn [tl].
      split; [lia|]. split.
      * (* t is plain after the call, so its successor is not *)
        assert (Pt : plain_after pl n0 t = true).
        { unfold plain_after. destruct Ht as [->|[_ Ht]]; [now rewrite Pb | apply orb_true_iff; right; now apply Nat.leb_le]. }
        cbn [nopair] in Hnp |- *. destruct T as [|t2 T']; [reflexivity|].
        apply andb_true_iff in Hnp. destruct Hnp as [H1 H2]. rewrite Pt in H1. cbn [andb] in H1.
        apply negb_true_iff in H1. rewrite H1, andb_false_r. cbn [negb andb]. exact H2.
      * exists (snd (collapse pl (b :: K') n)), T. split; [reflexivity|]. right. split; [exact Pa | lia].
    + cbn [fst snd]. rewrite ET in *. split; [exact Hle|]. split.
      * cbn [nopair]. cbn [nopair] in Hnp. rewrite Hnp, andb_true_r. apply negb_true_iff.
        unfold plain_after at 1. replace (Nat.leb n0 a) with false by (symmetry; apply Nat.leb_gt; lia).
        rewrite orb_false_r. destruct (pl a) eqn:Pa; [|reflexivity]. cbn [andb] in E |- *.
        destruct Ht as [->|[Pb _]]; [|congruence]. unfold plain_after. rewrite E.
        apply Nat.leb_gt. lia.
      * exists a, (t :: T). auto.
Qed.

Theorem smooth_list_no_pair h K n0 n : n0 <= n -> (forall x, In x K -> x < n0) ->
  nopair (plain_after (plain_str h) n0) (fst (smooth_list h K n)) = true.
Proof.
  intros Hn Hlt. rewrite smooth_list_collapse. apply (collapse_shape (plain_str h) n0 K n Hn Hlt).
Qed.

(* ---- after smooth(), nothing is left to merge in the smoothed tags ---- *)

Lemma mrel_new N h K K' : mrel N h K K' -> forall y, In y K' -> In y K \/ plain_str h y = true.
Proof.
  intros H. induction H as [K|A a b B n K' La Lb Ln Pa Pb Pn T H IH]; intros y Hy; [now left|].
  destruct (IH y Hy) as [Hi|Hp]; [|now right]. apply in_app_or in Hi. destruct Hi as [Hi|[<-|Hi]].
  - left. apply in_or_app. now left.
  - now right.
  - left. apply in_or_app. right. right. now right.
Qed.

Lemma nopair_marked h P : (forall x, P x = plain_str h x) -> forall l i, nopair P l = true -> marked_positions h i l = [].
Proof.
  intros HP. induction l as [|a l IH]; intros i H; [reflexivity|]. destruct l as [|b l']; [reflexivity|].
  change (marked_positions h i (a :: b :: l')) with
    (if plain_str h a && plain_str h b then i :: marked_positions h (S i) (b :: l') else marked_positions h (S i) (b :: l')).
  cbn [nopair] in H. apply andb_true_iff in H. destruct H as [H1 H2]. apply negb_true_iff in H1.
  rewrite !HP in H1. rewrite H1. apply IH. exact H2.
Qed.

Lemma nopair_ext P Q : forall l, (forall x, In x l -> P x = Q x) -> nopair P l = nopair Q l.
Proof.
  induction l as [|a l IH]; intros H; [reflexivity|]. cbn [nopair].
  rewrite IH by (intros x Hx; apply H; now right). destruct l as [|b l']; [reflexivity|].
  rewrite (H a (or_introl eq_refl)), (H b (or_intror (or_introl eq_refl))). reflexivity.
Qed.

(* in the model's own terms: no position of a smoothed tag is marked for merging any more *)
Theorem op_smooth_nothing_left s self s' q : consistent s -> live s self -> op_smooth s self = Ok s' ->
  live s q -> anc (hp s) self q -> (q = self \/ is_tag (hp s) q = true) ->
  marked_positions (hp s') 0 (kids (hp s' q)) = [].
Proof.
  intros C L E Lq Ha Hq. destruct (op_smooth_documented s self s' C L E) as (Ex & S & _ & P & R).
  destruct (S q Lq Ha Hq) as (n & Hn & Kq). pose proof (R q Lq Ha Hq) as Rq.
  pose proof Ex as (C' & _). pose proof (ext_live _ _ _ Ex Lq) as Lq'.
  assert (Hold : forall x, In x (kids (hp s q)) -> x < nxt s) by (intros x Hx; apply (kids_facts s q x C Lq Hx)).
  pose proof (smooth_list_no_pair (hp s) (kids (hp s q)) (nxt s) n Hn Hold) as NP. rewrite <- Kq in NP.
  apply (nopair_marked (hp s') (plain_str (hp s')) (fun x => eq_refl)).
  rewrite <- NP. apply nopair_ext. intros y Hy. unfold plain_after.
  destruct (kids_facts s' q y C' Lq' Hy) as [Ly' Py'].
  destruct (mrel_new _ _ _ _ Rq y Hy) as [Hi|Hp].
  - (* an old child *)
    pose proof (Hold y Hi) as Hlt. rewrite (plain_ext s s' y Ex Hlt).
    replace (Nat.leb (nxt s) y) with false by (symmetry; apply Nat.leb_gt; exact Hlt). now rewrite orb_false_r.
  - (* a merged string: plain, and fresh *)
    rewrite Hp. symmetry. apply orb_true_iff.
    destruct (ext_back s s' y Ex Ly') as [Ly|Hge]; [|right; now apply Nat.leb_le].
    left. rewrite <- (plain_ext s s' y Ex (proj1 Ly)). exact Hp.
Qed.

(* ------------------------------------------------------------------------------------------ *)
(* D. one statement for every call                                                            *)
(* ------------------------------------------------------------------------------------------ *)

(* the conclusions of the per-call theorems, by name *)
Definition conserves_doc (s : st) (o : op) (s' : st) : Prop :=
  ltac:(let T := type of (op_conserves s o s') in lazymatch T with _ -> _ -> _ -> ?C => exact C end).
Definition insert_doc (s : st) (self pos : nat) (args : list arg) (s' : st) : Prop :=
  ltac:(let T := type of (op_insert_expansion s self pos args s') in lazymatch T with _ -> _ -> _ -> ?C => exact C end).
Definition append_doc (s : st) (self : nat) (a : arg) (s' : st) : Prop :=
  ltac:(let T := type of (op_append_soup_documented s self a s') in lazymatch T with _ -> _ -> _ -> ?C => exact C end).
Definition extend_tag_doc (s : st) (self other : nat) (s' : st) : Prop :=
  ltac:(let T := type of (op_extend_tag_documented s self other s') in lazymatch T with _ -> _ -> _ -> _ -> _ -> ?C => exact C end).
Definition extend_list_doc (s : st) (self : nat) (args : list arg) (s' : st) : Prop :=
  ltac:(let T := type of (op_extend_list_expansion s self args s') in lazymatch T with _ -> _ -> _ -> ?C => exact C end).
Definition insert_before_doc (s : st) (self p : nat) (args : list arg) (s' : st) : Prop :=
  ltac:(let T := type of (op_insert_before_expansion s self p args s') in lazymatch T with _ -> _ -> _ -> _ -> _ -> ?C => exact C end).
Definition insert_after_doc (s : st) (self p : nat) (args : list arg) (s' : st) : Prop :=
  ltac:(let T := type of (op_insert_after_expansion s self p args s') in lazymatch T with _ -> _ -> _ -> _ -> _ -> ?C => exact C end).
Definition extract_doc (s : st) (x : nat) (s' : st) : Prop :=
  ltac:(let T := type of (op_extract_documented s x s') in lazymatch T with _ -> _ -> _ -> ?C => exact C end).
Definition replace_with_doc (s : st) (self p : nat) (args : list arg) (s' : st) : Prop :=
  ltac:(let T := type of (op_replace_with_expansion s self p args s') in lazymatch T with _ -> _ -> _ -> _ -> _ -> ?C => exact C end).
Definition wrap_doc (s : st) (self w p : nat) (s' : st) : Prop :=
  ltac:(let T := type of (op_wrap_documented s self w p s') in lazymatch T with _ -> _ -> _ -> _ -> _ -> ?C => exact C end).
Definition unwrap_doc (s : st) (self p : nat) (s' : st) : Prop :=
  ltac:(let T := type of (op_unwrap_documented s self p s') in lazymatch T with _ -> _ -> _ -> _ -> _ -> ?C => exact C end).
Definition decompose_doc (s : st) (x : nat) (s' : st) : Prop :=
  ltac:(let T := type of (op_decompose_documented s x s') in lazymatch T with _ -> _ -> _ -> ?C => exact C end).
Definition decompose_dies (s : st) (x : nat) (s' : st) : Prop :=
  ltac:(let T := type of (op_decompose_conserves s x s') in lazymatch T with _ -> _ -> _ -> ?C => exact C end).
Definition clear_doc (s : st) (self : nat) (s' : st) : Prop :=
  ltac:(let T := type of (op_clear_documented s self s') in lazymatch T with _ -> _ -> _ -> ?C => exact C end).
Definition clear_true_doc (s : st) (self : nat) (s' : st) : Prop :=
  ltac:(let T := type of (op_clear_true_documented s self s') in lazymatch T with _ -> _ -> _ -> ?C => exact C end).
Definition clear_true_dies (s : st) (self : nat) (s' : st) : Prop :=
  ltac:(let T := type of (op_clear_true_conserves s self s') in lazymatch T with _ -> _ -> _ -> ?C => exact C end).
Definition clear_true_killed_doc (s : st) (self : nat) (s' : st) : Prop :=
  ltac:(let T := type of (op_clear_true_killed s self s') in lazymatch T with _ -> _ -> _ -> ?C => exact C end).
Definition clear_true_wiped_doc (s : st) (self : nat) (s' : st) : Prop :=
  ltac:(let T := type of (op_clear_true_wiped s self s') in lazymatch T with _ -> _ -> _ -> ?C => exact C end).
Definition set_string_doc (s : st) (self : nat) (t : str) (s' : st) : Prop :=
  ltac:(let T := type of (op_set_string_documented s self t s') in lazymatch T with _ -> _ -> _ -> ?C => exact C end).
Definition smooth_doc (s : st) (self : nat) (s' : st) : Prop :=
  ltac:(let T := type of (op_smooth_documented s self s') in lazymatch T with _ -> _ -> _ -> ?C => exact C end).

(* what each call does.  The side conditions that remain are: for extend(tag), unwrap, wrap the children /
   the wrapped element are not BeautifulSoup objects; for extend(list), insert_before, insert_after the
   expansion has no repetition (NoDup, inside the [_doc]); for insert_before / insert_after the BeautifulSoup
   arguments are roots; for replace_with the replaced element is not among its own replacements *)
Definition documented (s : st) (o : op) (s' : st) : Prop :=
  match o with
  | OAlloc k t => nxt s' = S (nxt s) /\ hp s' (nxt s) = blank k t /\ (forall y, y <> nxt s -> hp s' y = hp s y)
  | OInsert self pos args => insert_doc s self pos args s'
  | OAppend self a => append_doc s self a s'
  | OExtendTag self other => live s other -> nonsoups s (kids (hp s other)) -> extend_tag_doc s self other s'
  | OExtendList self args => extend_list_doc s self args s'
  | OInsertBefore self args =>
      forall p, Forall (soup_root s) args -> par (hp s self) = Some p -> insert_before_doc s self p args s'
  | OInsertAfter self args =>
      forall p, Forall (soup_root s) args -> par (hp s self) = Some p -> insert_after_doc s self p args s'
  | OExtract x => extract_doc s x s'
  | OReplaceWith self args =>
      forall p, ~ In (AEl self) args -> par (hp s self) = Some p -> replace_with_doc s self p args s'
  | OWrap self w => forall p, par (hp s self) = Some p -> kind (hp s self) <> KSoup -> wrap_doc s self w p s'
  | OUnwrap self => forall p, par (hp s self) = Some p -> nonsoups s (kids (hp s self)) -> unwrap_doc s self p s'
  | ODecompose x => decompose_doc s x s' /\ decompose_dies s x s'
  | OClear self true => clear_true_doc s self s' /\ clear_true_dies s self s' /\ clear_true_wiped_doc s self s'
  | OClear self false => clear_doc s self s'
  | OSetString self t => set_string_doc s self t s'
  | OSmooth self => smooth_doc s self s'
  end.

(* every admissible editing call that returns: the new state is a consistent forest, nothing is lost or
   invented except as documented, and the call has its documented effect *)
Theorem apply_op_documented s o s' : consistent s -> wf_op s o -> apply_op s o = Ok s' ->
  consistent s' /\ conserves_doc s o s' /\ documented s o s'.
Proof.
  intros C W E. split; [exact (op_consistent s o s' C W E)|]. split; [exact (op_conserves s o s' C W E)|].
  destruct o as [k t|self pos args|self a|self other|self args|self args|self args|x|self args|self w|self|x|self d|self t|self];
    cbn [documented apply_op] in *.
  - inversion E; subst s'. unfold alloc. cbn [fst hp nxt]. split; [reflexivity|]. split; [apply upd_same|].
    intros y Hy. now apply upd_other.
  - exact (op_insert_expansion s self pos args s' C W E).
  - exact (op_append_soup_documented s self a s' C W E).
  - intros Lo K. exact (op_extend_tag_documented s self other s' C W Lo K E).
  - exact (op_extend_list_expansion s self args s' C W E).
  - intros p HR P. exact (op_insert_before_expansion s self p args s' C W HR P E).
  - intros p HR P. exact (op_insert_after_expansion s self p args s' C W HR P E).
  - exact (op_extract_documented s x s' C W E).
  - intros p Hn P. exact (op_replace_with_expansion s self p args s' C W Hn P E).
  - intros p P K. exact (op_wrap_documented s self w p s' C W P K E).
  - intros p P K. exact (op_unwrap_documented s self p s' C W P K E).
  - split; [exact (op_decompose_documented s x s' C W E) | exact (op_decompose_conserves s x s' C W E)].
  - destruct d.
    + split; [exact (op_clear_true_documented s self s' C W E)|].
      split; [exact (op_clear_true_conserves s self s' C W E) | exact (op_clear_true_wiped s self s' C W E)].
    + exact (op_clear_documented s self s' C W E).
  - exact (op_set_string_documented s self t s' C W E).
  - exact (op_smooth_documented s self s' C W E).
Qed.

(* ------------------------------------------------------------------------------------------ *)
(* E. examples                                                                                *)
(* ------------------------------------------------------------------------------------------ *)

(* the document of Proofs/EditRep.v, 0[1[3 5] 2[4 6]] with 0 a BeautifulSoup object, plus a tag 7 with one child 8 *)
Definition s_soup : st := run_history s_ex [OAlloc KTag []; OAlloc KTag []; OAppend 7 (AEl 8)].

Lemma s_soup_consistent : consistent s_soup.
Proof. apply history_consistent, ex_consistent. Qed.

Definition ins_of (r : res (st * list nat)) : list nat := match r with Ok (_, ins) => ins | ValueError => [] end.
Definition st_of (r : res (st * list nat)) : st := match r with Ok (s, _) => s | ValueError => s_empty end.

(* a BeautifulSoup argument stands for the children it has when its turn comes (processing time, not call
   time): with [1; soup 0] the soup has only 2 left; with [soup 0; 1] the element 1 is moved a second time *)
Example ex_soup_processing_time :
  wf_op_b s_soup (OInsert 7 0 [AEl 1; AEl 0]) = true /\ wf_op_b s_soup (OInsert 7 0 [AEl 0; AEl 1]) = true /\
  ins_of (insert_args s_soup 7 0 [AEl 1; AEl 0]) = [1; 2] /\
  kids (hp (st_of (insert_args s_soup 7 0 [AEl 1; AEl 0])) 7) = [1; 2; 8] /\
  ins_of (insert_args s_soup 7 0 [AEl 0; AEl 1]) = [1; 2; 1] /\
  kids (hp (st_of (insert_args s_soup 7 0 [AEl 0; AEl 1])) 7) = [2; 1; 8] /\
  expand (hp s_soup) (nxt s_soup) [] [AEl 1; AEl 0] = [1; 2] /\
  expand (hp s_soup) (nxt s_soup) [] [AEl 0; AEl 1] = [1; 2; 1] /\
  arg_expansion (hp s_soup) (nxt s_soup) [AEl 1; AEl 0] = [1; 1; 2].
Proof. vm_compute. repeat split; reflexivity. Qed.

(* the theorems instantiated: insert_before(soup, "new string") on 8 *)
Example ex_soup_before :
  let s' := ok_of (op_insert_before s_soup 8 [AEl 0; AStr []]) in
  kids (hp s' 7) = [1; 2; 9; 8] /\ kids (hp s' 0) = [] /\ par (hp s' 0) = None /\ par (hp s' 1) = Some 7.
Proof.
  cbv zeta. assert (E : op_insert_before s_soup 8 [AEl 0; AStr []] = Ok (ok_of (op_insert_before s_soup 8 [AEl 0; AStr []])))
    by (vm_compute; reflexivity).
  assert (W : wf_op_b s_soup (OInsertBefore 8 [AEl 0; AStr []]) = true) by (vm_compute; reflexivity).
  assert (HR : Forall (soup_root s_soup) [AEl 0; AStr []]).
  { constructor; [intros _; vm_compute; reflexivity | constructor; [exact I | constructor]]. }
  assert (P : par (hp s_soup 8) = Some 7) by (vm_compute; reflexivity).
  assert (Ei : expand (hp s_soup) (nxt s_soup) [] [AEl 0; AStr []] = [1; 2; 9]) by (vm_compute; reflexivity).
  assert (ND : NoDup (expand (hp s_soup) (nxt s_soup) [] [AEl 0; AStr []])).
  { rewrite Ei. constructor; [intros [H|[H|[]]]; discriminate|]. constructor; [intros [H|[]]; discriminate|].
    constructor; [intros []|constructor]. }
  destruct (op_insert_before_expansion s_soup 8 7 _ _ s_soup_consistent (wf_op_b_sound _ _ s_soup_consistent W) HR P E ND)
    as (_ & K & (_ & Pc & Pf) & Se).
  rewrite Ei in *.
  assert (K0 : kind (hp s_soup 0) = KSoup) by (vm_compute; reflexivity).
  destruct (Se 0 (or_introl eq_refl) K0) as [Ks Ps].
  split; [rewrite K; vm_compute; reflexivity|]. split; [exact Ks|]. split.
  - rewrite Ps; [vm_compute; reflexivity | intros [H|[H|[H|[]]]]; discriminate].
  - apply Pc. now left.
Qed.

(* smooth(): tag 0 has children "a" "" "b" <4> "c", tag 4 has "x" "y" PRE "z" (PRE preformatted) *)
Definition s_sm : st := run_history s_empty
  [OAlloc KTag []; OAppend 0 (AStr [1%N]); OAppend 0 (AStr []); OAppend 0 (AStr [2%N]); OAlloc KTag []; OAppend 0 (AEl 4);
   OAppend 0 (AStr [3%N]); OAppend 4 (AStr [7%N]); OAppend 4 (AStr [8%N]); OAlloc (KStr true) [9%N]; OAppend 4 (AEl 8);
   OAppend 4 (AStr [6%N])].

Lemma s_sm_consistent : consistent s_sm.
Proof. apply history_consistent, empty_consistent. Qed.

(* what the model computes: the run 1 2 3 of tag 0 becomes the fresh string 12 with text "a"++""++"b" (the
   empty string is merged like any other, not dropped; the intermediate string 11 = ""++"b" is allocated and
   immediately detached), the run 6 7 of tag 4 becomes 10; the preformatted 8 and the lone 9, 5 stay *)
Example ex_smooth_computed :
  let s' := ok_of (op_smooth s_sm 0) in
  kids (hp s_sm 0) = [1; 2; 3; 4; 5] /\ kids (hp s_sm 4) = [6; 7; 8; 9] /\
  kids (hp s' 0) = [12; 4; 5] /\ kids (hp s' 4) = [10; 8; 9] /\ nxt s' = 13 /\
  txt (hp s' 12) = [1%N; 2%N] /\ txt (hp s' 10) = [7%N; 8%N] /\ txt (hp s' 11) = [2%N] /\
  map (fun y => par (hp s' y)) [1; 2; 3; 6; 7; 11] = [None; None; None; None; None; None] /\
  tags_below (fuel_of s_sm) (hp s_sm) 0 = [4; 0] /\
  fst (smooth_list (hp s_sm) (kids (hp s_sm 0)) 11) = [12; 4; 5] /\
  fst (smooth_list (hp s_sm) (kids (hp s_sm 4)) 10) = [10; 8; 9] /\
  text_below 5 (hp s' ) 0 = text_below 5 (hp s_sm) 0.
Proof. vm_compute. repeat split; reflexivity. Qed.

Example ex_smooth_theorem :
  let s' := ok_of (op_smooth s_sm 0) in
  (exists n, nxt s_sm <= n /\ kids (hp s' 4) = fst (smooth_list (hp s_sm) (kids (hp s_sm 4)) n)) /\
  (forall f, text_below f (hp s') 0 = text_below f (hp s_sm) 0).
Proof.
  cbv zeta. assert (E : op_smooth s_sm 0 = Ok (ok_of (op_smooth s_sm 0))) by (unfold op_smooth; cbn [ok_of]; reflexivity).
  assert (L0 : live s_sm 0) by (apply live_b_true; vm_compute; reflexivity).
  assert (L4 : live s_sm 4) by (apply live_b_true; vm_compute; reflexivity).
  assert (A4 : anc (hp s_sm) 0 4).
  { apply (is_anc_b_sound (hp s_sm) 0 3 4). vm_compute. reflexivity. }
  destruct (op_smooth_documented s_sm 0 _ s_sm_consistent L0 E) as (_ & S & _).
  split.
  - apply (S 4 L4 A4). right. vm_compute. reflexivity.
  - intros f. apply (op_smooth_text s_sm 0 _ s_sm_consistent L0 E f 0 L0). constructor.
Qed.

(* decompose() / clear(decompose=True) on the root of a document: everything is wiped; on the examples the
   cells killed by clear(decompose=True) are exactly [wiped] (links included) *)
Definition cell_same (c d : cell) : bool :=
  oeqb (par c) (par d) && list_eqb (kids c) (kids d) && oeqb (ps c) (ps d) && oeqb (ns c) (ns d) &&
  oeqb (pe c) (pe d) && oeqb (ne c) (ne d) && Bool.eqb (dead c) (dead d).

Example ex_root_destroyed :
  shape (ok_of (op_decompose s_ex 0)) =
    [(0, None, [], true); (1, None, [], true); (2, None, [], true); (3, None, [], true); (4, None, [], true);
     (5, None, [], true); (6, None, [], true)] /\
  forallb (fun y => cell_same (hp (ok_of (op_clear s_ex 0 true)) y) (wiped (hp s_ex y))) [1; 2; 3; 4; 5; 6] = true /\
  forallb (fun y => cell_same (hp (ok_of (op_clear s_sm 0 true)) y) (wiped (hp s_sm y))) [1; 2; 3; 4; 5; 6; 7; 8; 9] = true.
Proof. vm_compute. repeat split; reflexivity. Qed.

(* the hypotheses of the one-statement theorem are met *)
Example ex_apply_op_documented :
  let o := OInsert 7 1 [AEl 0; AStr []] in
  consistent (ok_of (apply_op s_soup o)) /\ documented s_soup o (ok_of (apply_op s_soup o)).
Proof.
  cbv zeta. assert (E : apply_op s_soup (OInsert 7 1 [AEl 0; AStr []]) = Ok (ok_of (apply_op s_soup (OInsert 7 1 [AEl 0; AStr []]))))
    by (vm_compute; reflexivity).
  assert (W : wf_op_b s_soup (OInsert 7 1 [AEl 0; AStr []]) = true) by (vm_compute; reflexivity).
  destruct (apply_op_documented s_soup _ _ s_soup_consistent (wf_op_b_sound _ _ s_soup_consistent W) E) as (C' & _ & D).
  split; [exact C' | exact D].
Qed.

Print Assumptions op_insert_expansion.
Print Assumptions op_insert_soup_documented.
Print Assumptions op_append_soup_documented.
Print Assumptions op_replace_with_expansion.
Print Assumptions op_extend_list_expansion.
Print Assumptions op_insert_before_expansion.
Print Assumptions op_insert_after_expansion.
Print Assumptions op_clear_true_killed.
Print Assumptions extract_untouched.
Print Assumptions op_clear_true_wiped.
Print Assumptions forest_read_off.
Print Assumptions merge_at_effect.
Print Assumptions smooth_rec_effect.
Print Assumptions op_smooth_documented.
Print Assumptions op_smooth_text.
Print Assumptions op_smooth_merged.
Print Assumptions smooth_list_collapse.
Print Assumptions smooth_list_no_pair.
Print Assumptions op_smooth_nothing_left.
Print Assumptions tags_below_iff.
Print Assumptions apply_op_documented.
Print Assumptions ex_soup_before.
Print Assumptions ex_smooth_theorem.
Print Assumptions ex_apply_op_documented.
