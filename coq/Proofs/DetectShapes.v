(* C07 on the concrete model: what UnicodeDammit returns, for EVERY byte string, for the common call shapes —
   one encoding named (known_definite_encodings=[e] / from_encoding=e / declared in the document), exclusions only,
   a declared encoding that is not a modelled codec — in closed form over the decoders of Model/Codecs.v. *)
From Coq Require Import List NArith Bool Arith Lia.
From BS Require Import Base.Sexp Base.Types Gen.T_Codecs Gen.T_C07
     Model.Dammit Model.Sniff Model.Encode Model.Codecs Model.Autodetect Spec.DammitSpec Spec.SniffSpec
     Proofs.DammitProofs Proofs.SniffProofs Proofs.CodecsProofs.
Import ListNotations.
Open Scope N_scope.

(* a candidate whose name is one the code resolves to itself and the model knows *)
Definition resolved (c : str * codec) : Prop :=
  find_codec lower_ascii c_known (fst c) = Some (fst c) /\ codec_of_name (fst c) = Some (snd c).

Lemma c_decode_known b n k m : b <> [] -> codec_of_name n = Some k -> c_decode b n m = codec_decode k m b.
Proof. intros Hb H. unfold c_decode. destruct b; [contradiction|]. now rewrite H. Qed.

Lemma attempt_resolved b m n k : b <> [] -> resolved (n, k) ->
  attempt (find_codec lower_ascii c_known) c_decode b m n =
  match codec_decode k m b with Some u => Some (u, n) | None => None end.
Proof. intros Hb [H1 H2]. cbn [fst snd] in *. unfold attempt. now rewrite H1, (c_decode_known b _ _ m Hb H2). Qed.

Lemma first_some_strict cands b : b <> [] -> Forall resolved cands ->
  first_some (attempt (find_codec lower_ascii c_known) c_decode b Dammit.Strict) (map fst cands) = first_strict cands b.
Proof.
  intros Hb H. induction H as [|[n k] r Hc Hr IH]; [reflexivity|].
  cbn [map first_some first_strict]. cbn [fst]. rewrite (attempt_resolved b Dammit.Strict n k Hb Hc).
  destruct (codec_decode k Dammit.Strict b); [reflexivity|exact IH].
Qed.

Lemma s_ascii_is : s_ascii = n_ascii. Proof. reflexivity. Qed.

Lemma first_some_replace cands b : b <> [] -> Forall resolved cands ->
  first_some (attempt (find_codec lower_ascii c_known) c_decode b Replace)
             (filter (fun c => negb (str_eqb c n_ascii)) (map fst cands)) = first_replace cands b.
Proof.
  intros Hb H. induction H as [|[n k] r Hc Hr IH]; [reflexivity|].
  cbn [map filter first_replace fst]. rewrite s_ascii_is.
  destruct (str_eqb n n_ascii); cbn [negb]; [exact IH|].
  cbn [first_some]. rewrite (attempt_resolved b Replace n k Hb Hc).
  destruct (codec_decode k Replace b); [reflexivity|exact IH].
Qed.

Lemma spec_outcome_concrete cands b : b <> [] -> Forall resolved cands ->
  spec_outcome (find_codec lower_ascii c_known) c_decode b (map fst cands) = concrete_outcome cands b.
Proof.
  intros Hb H. unfold spec_outcome, concrete_outcome.
  rewrite (first_some_strict cands b Hb H), (first_some_replace cands b Hb H).
  destruct (first_strict cands b) as [[u n]|]; [reflexivity|].
  destruct (first_replace cands b) as [[u n]|]; reflexivity.
Qed.

(* master statement: whenever the candidate list consists of resolved names *)
Theorem concrete_detection b a cands :
  b <> [] -> fst (strip_bom b) <> [] ->
  c_encodings (MBytes b) a = map fst cands -> Forall resolved cands ->
  outcome (c_dammit (MBytes b) a) = concrete_outcome cands (fst (strip_bom b)).
Proof.
  intros Hb Hs Hc Hr. unfold c_dammit.
  rewrite (dammit_outcome lower_ascii c_known c_decode (sniff_model lower_ascii) no_chardet b a Hb).
  unfold c_encodings in Hc. rewrite Hc. now apply spec_outcome_concrete.
Qed.

(* a candidate the model does not know is skipped in both passes *)
Lemma attempt_unknown b m d d' : b <> [] ->
  find_codec lower_ascii c_known d = Some d' -> codec_of_name d' = None ->
  attempt (find_codec lower_ascii c_known) c_decode b m d = None.
Proof. intros Hb H1 H2. unfold attempt. rewrite H1. unfold c_decode. destruct b; [contradiction|]. now rewrite H2. Qed.

Lemma spec_outcome_skip b d l :
  attempt (find_codec lower_ascii c_known) c_decode b Dammit.Strict d = None ->
  attempt (find_codec lower_ascii c_known) c_decode b Replace d = None ->
  spec_outcome (find_codec lower_ascii c_known) c_decode b (d :: l) =
  spec_outcome (find_codec lower_ascii c_known) c_decode b l.
Proof.
  intros H1 H2. unfold spec_outcome. cbn [first_some filter]. rewrite H1.
  destruct (negb (str_eqb d n_ascii)); cbn [first_some]; [rewrite H2|]; reflexivity.
Qed.

(* ---- the candidate lists of the call shapes ---- *)
Ltac each_dname H :=
  vm_compute in H;
  repeat (destruct H as [H|H]; [injection H as <- <-|]); [..|contradiction].

Lemma named_candidates_ok e k : In (e, k) decoder_names ->
  spec_candidates lower_ascii [] [e; n_utf8; n_windows1252] = map fst (named_candidates e k) /\
  Forall resolved (named_candidates e k).
Proof.
  intros H. each_dname H; (split; [vm_compute; reflexivity|]);
    repeat (constructor; [split; vm_compute; reflexivity|]); constructor.
Qed.

Lemma default_candidates_ok X :
  spec_candidates lower_ascii X [n_utf8; n_windows1252] =
    map fst (default_candidates (excluded lower_ascii X n_utf8) (excluded lower_ascii X n_windows1252)) /\
  Forall resolved (default_candidates (excluded lower_ascii X n_utf8) (excluded lower_ascii X n_windows1252)).
Proof.
  unfold spec_candidates. cbn [filter].
  destruct (excluded lower_ascii X n_utf8), (excluded lower_ascii X n_windows1252); cbn [negb];
    (split; [vm_compute; reflexivity|]); repeat (constructor; [split; vm_compute; reflexivity|]); constructor.
Qed.

Lemma encodings_of b a decl : strip_bom b = (b, None) ->
  find_declared_encoding lower_ascii (MBytes b) (a_is_html a) false = decl ->
  c_encodings (MBytes b) a =
  spec_candidates lower_ascii (a_exclude a) (documented_order (a_known a ++ a_override a) None (a_user a) decl None).
Proof.
  intros Hb Hd. unfold c_encodings. rewrite encodings_spec.
  unfold det_sniffed, det_declared, det_markup, strip_byte_order_mark, sniff_model, no_chardet.
  rewrite Hb. cbn [fst snd]. now rewrite Hd.
Qed.

Lemma detection_from_candidates b a decl cands :
  b <> [] -> strip_bom b = (b, None) ->
  find_declared_encoding lower_ascii (MBytes b) (a_is_html a) false = decl ->
  spec_candidates lower_ascii (a_exclude a) (documented_order (a_known a ++ a_override a) None (a_user a) decl None)
    = map fst cands ->
  Forall resolved cands ->
  outcome (c_dammit (MBytes b) a) = concrete_outcome cands b.
Proof.
  intros Hb Hbom Hd Hc Hr.
  assert (Hs : fst (strip_bom b) <> []) by (rewrite Hbom; exact Hb).
  rewrite (concrete_detection b a cands Hb Hs); [now rewrite Hbom| |exact Hr].
  rewrite (encodings_of b a decl Hbom Hd). exact Hc.
Qed.

(* (1) one modelled encoding is named as known-definite (UnicodeDammit(data, known_definite_encodings=[e]);
       BeautifulSoup(data, from_encoding=e)), nothing declared in the document, no mark: for every byte string *)
Theorem known_encoding_detection b e k h :
  In (e, k) decoder_names -> b <> [] -> strip_bom b = (b, None) ->
  find_declared_encoding lower_ascii (MBytes b) h false = None ->
  outcome (c_dammit (MBytes b) (mkargs [e] [] [] [] h)) = concrete_outcome (named_candidates e k) b.
Proof.
  intros Hin Hb Hbom Hd. destruct (named_candidates_ok e k Hin) as [Hc Hr].
  apply (detection_from_candidates b (mkargs [e] [] [] [] h) None _ Hb Hbom Hd); [exact Hc|exact Hr].
Qed.

(* (2) the document declares a modelled encoding (meta or XML declaration), no arguments *)
Theorem declared_encoding_detection b e k :
  In (e, k) decoder_names -> b <> [] -> strip_bom b = (b, None) ->
  find_declared_encoding lower_ascii (MBytes b) true false = Some e ->
  outcome (c_dammit (MBytes b) no_args) = concrete_outcome (named_candidates e k) b /\
  r_declared_html (c_dammit (MBytes b) no_args) = Some e.
Proof.
  intros Hin Hb Hbom Hd. destruct (named_candidates_ok e k Hin) as [Hc Hr]. split.
  - apply (detection_from_candidates b no_args (Some e) _ Hb Hbom Hd); [exact Hc|exact Hr].
  - unfold c_dammit. rewrite declared_reported. cbn [no_args a_is_html strip_byte_order_mark]. rewrite Hbom. exact Hd.
Qed.

(* (3) exclusions only *)
Theorem excluded_encodings_detection b X h :
  b <> [] -> strip_bom b = (b, None) ->
  find_declared_encoding lower_ascii (MBytes b) h false = None ->
  outcome (c_dammit (MBytes b) (mkargs [] [] [] X h)) =
  concrete_outcome (default_candidates (excluded lower_ascii X n_utf8) (excluded lower_ascii X n_windows1252)) b.
Proof.
  intros Hb Hbom Hd. destruct (default_candidates_ok X) as [Hc Hr].
  apply (detection_from_candidates b (mkargs [] [] [] X h) None _ Hb Hbom Hd); [exact Hc|exact Hr].
Qed.

(* (4) the document declares something the model does not know as a codec (and that is not a spelling of the two
       defaults): it is tried and skipped; the result is the default one, the declaration is still reported *)
Theorem unknown_declared_encoding_detection b d d' :
  b <> [] -> strip_bom b = (b, None) ->
  find_declared_encoding lower_ascii (MBytes b) true false = Some d ->
  find_codec lower_ascii c_known d = Some d' -> codec_of_name d' = None ->
  lower_ascii d <> n_utf8 -> lower_ascii d <> n_windows1252 ->
  outcome (c_dammit (MBytes b) no_args) = concrete_outcome (default_candidates false false) b /\
  r_declared_html (c_dammit (MBytes b) no_args) = Some d.
Proof.
  intros Hb Hbom Hd Hf Hn H1 H2. split.
  - unfold c_dammit.
    rewrite (dammit_outcome lower_ascii c_known c_decode (sniff_model lower_ascii) no_chardet b no_args Hb).
    fold (c_encodings (MBytes b) no_args). rewrite (encodings_of b no_args (Some d) Hbom Hd).
    cbn [no_args a_exclude a_known a_override a_user app documented_order olist]. rewrite Hbom. cbn [fst].
    assert (Hc : spec_candidates lower_ascii [] [d; n_utf8; n_windows1252] = [d; n_utf8; n_windows1252]).
    { unfold spec_candidates. cbn [filter excluded map memS existsb negb dedup_by].
      assert (E1 : str_eqb (lower_ascii n_utf8) (lower_ascii d) = false).
      { apply str_eqb_neq. intros E. apply H1. rewrite <- E. reflexivity. }
      assert (E2 : str_eqb (lower_ascii n_windows1252) (lower_ascii d) = false).
      { apply str_eqb_neq. intros E. apply H2. rewrite <- E. reflexivity. }
      rewrite E1. cbn [orb]. rewrite E2.
      assert (E3 : str_eqb (lower_ascii n_windows1252) (lower_ascii n_utf8) = false) by (vm_compute; reflexivity).
      rewrite E3. reflexivity. }
    rewrite Hc. rewrite spec_outcome_skip by (apply (attempt_unknown b _ d d' Hb Hf Hn)).
    destruct (default_candidates_ok []) as [_ Hr].
    assert (Ex : excluded lower_ascii [] n_utf8 = false /\ excluded lower_ascii [] n_windows1252 = false) by (split; reflexivity).
    destruct Ex as [-> ->] in Hr.
    exact (spec_outcome_concrete (default_candidates false false) b Hb Hr).
  - unfold c_dammit. rewrite declared_reported. cbn [no_args a_is_html strip_byte_order_mark]. rewrite Hbom. exact Hd.
Qed.

(* ---- reading the closed form: when the flag is set, when there is no text ---- *)
Lemma first_strict_none_iff cands b :
  first_strict cands b = None <-> forall n k, In (n, k) cands -> codec_decode k Dammit.Strict b = None.
Proof.
  induction cands as [|[n k] r IH]; cbn [first_strict]; [split; [intros _ n k []|reflexivity]|].
  destruct (codec_decode k Dammit.Strict b) as [u|] eqn:E.
  - split; [discriminate|]. intros H. rewrite (H n k (or_introl eq_refl)) in E. discriminate.
  - rewrite IH. split.
    + intros H n' k' [[= <- <-]|Hin]; [exact E|now apply (H n' k')].
    + intros H n' k' Hin. apply (H n' k'). now right.
Qed.

Lemma first_replace_none_iff cands b :
  first_replace cands b = None <-> forall n k, In (n, k) cands -> n = s_ascii.
Proof.
  induction cands as [|[n k] r IH]; cbn [first_replace]; [split; [intros _ n k []|reflexivity]|].
  destruct (str_eqb n s_ascii) eqn:E.
  - apply str_eqb_eq in E. rewrite IH. split.
    + intros H n' k' [[= <- <-]|Hin]; [exact E|now apply (H n' k')].
    + intros H n' k' Hin. apply (H n' k'). now right.
  - destruct (codec_replace_total k b) as [u Hu]. rewrite Hu. split; [discriminate|].
    intros H. apply str_eqb_neq in E. exfalso. apply E. exact (H n k (or_introl eq_refl)).
Qed.

(* contains_replacement_characters is set iff no candidate decodes strictly and some candidate is not spelled "ascii" *)
Theorem concrete_outcome_flag_iff cands b :
  snd (concrete_outcome cands b) = true <->
  (forall n k, In (n, k) cands -> codec_decode k Dammit.Strict b = None) /\
  (exists n k, In (n, k) cands /\ n <> s_ascii).
Proof.
  unfold concrete_outcome. rewrite <- first_strict_none_iff.
  destruct (first_strict cands b) as [[u n]|] eqn:S; cbn [snd].
  - split; [discriminate|intros [H _]; discriminate H].
  - destruct (first_replace cands b) as [[u n]|] eqn:R; cbn [snd].
    + split; [|reflexivity]. intros _. split; [reflexivity|].
      clear S. induction cands as [|[n' k'] r IH]; cbn [first_replace] in R; [discriminate|].
      destruct (str_eqb n' s_ascii) eqn:E.
      * destruct (IH R) as (x & y & Hin & Hne). exists x, y. split; [now right|exact Hne].
      * exists n', k'. split; [now left|now apply str_eqb_neq].
    + split; [discriminate|]. intros [_ (n & k & Hin & Hne)]. exfalso. apply Hne.
      apply (proj1 (first_replace_none_iff cands b) R n k Hin).
Qed.

(* there is no text (the constructor raises ParserRejectedMarkup) iff every candidate fails strictly and all are
   spelled "ascii" — in particular iff there is no candidate at all *)
Theorem concrete_outcome_no_text_iff cands b :
  fst (fst (concrete_outcome cands b)) = None <->
  (forall n k, In (n, k) cands -> codec_decode k Dammit.Strict b = None) /\
  (forall n k, In (n, k) cands -> n = s_ascii).
Proof.
  unfold concrete_outcome. rewrite <- (first_strict_none_iff cands b), <- (first_replace_none_iff cands b).
  destruct (first_strict cands b) as [[u n]|]; cbn [fst]; [split; [discriminate|intros [H _]; discriminate H]|].
  destruct (first_replace cands b) as [[u n]|]; cbn [fst]; [split; [discriminate|intros [_ H]; discriminate H]|].
  split; [intros _; split; reflexivity|reflexivity].
Qed.

(* with exclusions only: no text iff both last resorts are excluded *)
Corollary excluded_no_text_iff b X h :
  b <> [] -> strip_bom b = (b, None) -> find_declared_encoding lower_ascii (MBytes b) h false = None ->
  (r_text (c_dammit (MBytes b) (mkargs [] [] [] X h)) = None <->
   excluded lower_ascii X n_utf8 = true /\ excluded lower_ascii X n_windows1252 = true).
Proof.
  intros Hb Hbom Hd. pose proof (excluded_encodings_detection b X h Hb Hbom Hd) as O.
  unfold outcome in O.
  assert (E : r_text (c_dammit (MBytes b) (mkargs [] [] [] X h)) =
              fst (fst (concrete_outcome (default_candidates (excluded lower_ascii X n_utf8) (excluded lower_ascii X n_windows1252)) b)))
    by (rewrite <- O; reflexivity).
  rewrite E. destruct (excluded lower_ascii X n_utf8), (excluded lower_ascii X n_windows1252); cbn [default_candidates app].
  - split; [tauto|]. intros _. reflexivity.
  - split; [|intros [_ H]; discriminate H]. intros H. apply concrete_outcome_no_text_iff in H. destruct H as [_ H].
    specialize (H _ _ (or_introl eq_refl)). discriminate.
  - split; [|intros [H _]; discriminate H]. intros H. apply concrete_outcome_no_text_iff in H. destruct H as [_ H].
    specialize (H _ _ (or_introl eq_refl)). discriminate.
  - split; [|intros [H _]; discriminate H]. intros H. apply concrete_outcome_no_text_iff in H. destruct H as [_ H].
    specialize (H _ _ (or_introl eq_refl)). discriminate.
Qed.

(* ---- BeautifulSoup(data, from_encoding=e): prepare_markup ---- *)
Lemma decoder_names_nonempty e k : In (e, k) decoder_names -> e <> [].
Proof. intros H. each_dname H; discriminate. Qed.

Theorem from_encoding_detection b e k :
  In (e, k) decoder_names -> b <> [] -> strip_bom b = (b, None) ->
  find_declared_encoding lower_ascii (MBytes b) true false = None ->
  c_prepare_markup (MBytes b) (Some e) [] =
  match concrete_outcome (named_candidates e k) b with
  | (Some t, o, f) => Prepared t o None f
  | (None, _, _) => Rejected
  end.
Proof.
  intros Hin Hb Hbom Hd. unfold c_prepare_markup. rewrite prepare_markup_bytes.
  assert (Hl : from_encoding_list (Some e) = [e]).
  { unfold from_encoding_list. pose proof (decoder_names_nonempty e k Hin). destruct e; [contradiction|reflexivity]. }
  rewrite Hl. cbv zeta.
  pose proof (known_encoding_detection b e k true Hin Hb Hbom Hd) as O. unfold outcome, c_dammit in O.
  revert O. generalize (dammit lower_ascii c_known c_decode (sniff_model lower_ascii) no_chardet (MBytes b)
                              (mkargs [e] [] [] [] true)). intros X O.
  destruct (concrete_outcome (named_candidates e k) b) as [[t o] f]. injection O as H1 H2 H3. rewrite H1, H2, H3.
  rewrite Hbom. cbn [fst]. unfold sniff_model at 1. rewrite Hd.
  destruct t; reflexivity.
Qed.
