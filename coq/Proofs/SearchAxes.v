(* C10 — each of the seven find_all-style families iterates the C01 view of its axis (Proofs/Views.v),
   so, on a heap that represents a tree, its result is the documented filter of the pre-order /
   child-list / ancestor path of that tree; plural, singular, tag(...) and tag.name forms; and the
   two boundary witnesses (a list criterion without usable items; odd namespace prefixes). *)
From Coq Require Import List NArith ZArith Bool Arith Lia.
From BS Require Import Base.Sexp Base.Types Model.Heap Model.Iter Model.Attrs Model.Search
                       Spec.Tree Spec.SearchSpec Proofs.Views Proofs.SearchProofs.
Import ListNotations.
Local Open Scope nat_scope.

Section Axes.
  Variable pat_sem : N -> str -> bool.
  Variable fun_sem : N -> callarg -> bool.
  Variable h : heap.
  Variable xm : xmap.

  Notation find_all_method := (find_all_method pat_sem fun_sem h xm).
  Notation find_method := (find_method pat_sem fun_sem h xm).
  Notation find_all_spec := (find_all_spec pat_sem fun_sem h xm).
  Notation matches_spec := (matches_spec pat_sem fun_sem h xm).

  Definition all_names_wf : Prop := forall x, name_wf h xm x = true.

  Lemma wf_Forall (W : all_names_wf) (L : list nat) : Forall (fun x => name_wf h xm x = true) L.
  Proof. apply Forall_forall. intros x _. apply W. Qed.

  (* whatever list the axis generator yields, the plural method is the documented filter of it *)
  Lemma method_on_view fuel a x q V :
    axis_list h fuel a x = V -> query_ok (method_query a q) = true -> all_names_wf ->
    fst (find_all_method fuel a x q) = find_all_spec fuel (method_query a q) V /\
    fst (find_method fuel a x q) = hd_error (filter (matches_spec fuel (method_query a q)) V).
  Proof.
    intros <- Q W. unfold Search.find_all_method, Search.find_method. split.
    - apply find_all_refines; [exact Q|apply wf_Forall, W].
    - apply find_is_head; [exact Q|apply wf_Forall, W].
  Qed.

  Variable T : tree.
  Variable linked : bool.
  Variable fuel : nat.
  Hypothesis REP : rep1 h T linked.
  Hypothesis FUEL : length (pre T) <= fuel.
  Hypothesis WF : all_names_wf.

  (* find_all / find: the descendants, in document order *)
  Theorem descendants_family t q : In t (subterms T) -> query_ok q = true ->
    fst (find_all_method fuel AxDescendants (rid t) q) = find_all_spec fuel q (tl (pre t)) /\
    fst (find_method fuel AxDescendants (rid t) q) = hd_error (filter (matches_spec fuel q) (tl (pre t))).
  Proof.
    intros Ht Q. apply (method_on_view fuel AxDescendants (rid t) q); [|exact Q|exact WF].
    cbn [axis_list]. now apply (descendants_spec' h T linked).
  Qed.

  (* find_all(recursive=False): the children *)
  Theorem children_family t q : In t (subterms T) -> query_ok q = true ->
    fst (find_all_method fuel AxChildren (rid t) q) = find_all_spec fuel q (map rid (tkids t)) /\
    fst (find_method fuel AxChildren (rid t) q) = hd_error (filter (matches_spec fuel q) (map rid (tkids t))).
  Proof.
    intros Ht Q. apply (method_on_view fuel AxChildren (rid t) q); [|exact Q|exact WF].
    cbn [axis_list]. destruct (rep1_node_ok _ _ _ _ REP Ht) as (K & _). exact K.
  Qed.

  (* find_all_next / find_next: everything after x in document order *)
  Theorem next_family i x q : nth_error (echain_of T linked) i = Some x -> query_ok q = true ->
    fst (find_all_method fuel AxNext x q) = find_all_spec fuel q (skipn (S i) (echain_of T linked)) /\
    fst (find_method fuel AxNext x q) = hd_error (filter (matches_spec fuel q) (skipn (S i) (echain_of T linked))).
  Proof.
    intros Hx Q. apply (method_on_view fuel AxNext x q); [|exact Q|exact WF].
    cbn [axis_list]. now apply (next_elements_spec h T linked).
  Qed.

  (* find_all_previous / find_previous: everything before x, nearest first *)
  Theorem previous_family i x q : nth_error (echain_of T linked) i = Some x -> query_ok q = true ->
    fst (find_all_method fuel AxPrevious x q) = find_all_spec fuel q (rev (firstn i (echain_of T linked))) /\
    fst (find_method fuel AxPrevious x q) = hd_error (filter (matches_spec fuel q) (rev (firstn i (echain_of T linked)))).
  Proof.
    intros Hx Q. apply (method_on_view fuel AxPrevious x q); [|exact Q|exact WF].
    cbn [axis_list]. now apply (previous_elements_spec h T linked).
  Qed.

  (* find_next_siblings / find_next_sibling *)
  Theorem next_siblings_family t j c q : In t (subterms T) -> nth_error (map rid (tkids t)) j = Some c ->
    query_ok q = true ->
    fst (find_all_method fuel AxNextSiblings c q) = find_all_spec fuel q (skipn (S j) (map rid (tkids t))) /\
    fst (find_method fuel AxNextSiblings c q) = hd_error (filter (matches_spec fuel q) (skipn (S j) (map rid (tkids t)))).
  Proof.
    intros Ht Hc Q. apply (method_on_view fuel AxNextSiblings c q); [|exact Q|exact WF].
    cbn [axis_list]. now apply (next_siblings_spec h T linked t).
  Qed.

  (* find_previous_siblings / find_previous_sibling: nearest first *)
  Theorem previous_siblings_family t j c q : In t (subterms T) -> nth_error (map rid (tkids t)) j = Some c ->
    query_ok q = true ->
    fst (find_all_method fuel AxPreviousSiblings c q) = find_all_spec fuel q (rev (firstn j (map rid (tkids t)))) /\
    fst (find_method fuel AxPreviousSiblings c q) = hd_error (filter (matches_spec fuel q) (rev (firstn j (map rid (tkids t))))).
  Proof.
    intros Ht Hc Q. apply (method_on_view fuel AxPreviousSiblings c q); [|exact Q|exact WF].
    cbn [axis_list]. now apply (previous_siblings_spec h T linked t).
  Qed.

  (* find_parents / find_parent: the ancestors, innermost first; these two take no string argument *)
  Theorem parents_family x anc q : path_to x T = Some anc -> query_ok (method_query AxParents q) = true ->
    fst (find_all_method fuel AxParents x q) = find_all_spec fuel (method_query AxParents q) (rev anc) /\
    fst (find_method fuel AxParents x q) = hd_error (filter (matches_spec fuel (method_query AxParents q)) (rev anc)).
  Proof.
    intros Hp Q. apply (method_on_view fuel AxParents x q); [|exact Q|exact WF].
    cbn [axis_list]. now apply (parents_spec' h T linked).
  Qed.
End Axes.

(* ---- the shorthands ---- *)
Section Shorthand.
  Variable pat_sem : N -> str -> bool.
  Variable fun_sem : N -> callarg -> bool.
  Variable h : heap.
  Variable xm : xmap.

  (* tag(...) is tag.find_all(...) *)
  Theorem call_is_find_all fuel x recursive q :
    call_m pat_sem fun_sem h xm fuel x recursive q =
    find_all_method pat_sem fun_sem h xm fuel (if recursive then AxDescendants else AxChildren) x q.
  Proof. reflexivity. Qed.

  (* tag.name is tag.find("name"), for every attribute name that reaches __getattr__, is not
     dunder-prefixed, is not "contents" and is not a BS3-style "...Tag" spelling *)
  Theorem getattr_is_find fuel x name :
    (Nat.ltb 3 (length name) && ends_with lit_Tag name) = false ->
    starts_with [95; 95]%N name = false -> str_eqb name lit_contents = false ->
    getattr_m pat_sem fun_sem h xm fuel x name =
    Some (find_method pat_sem fun_sem h xm fuel AxDescendants x (name_query name)).
  Proof. intros H1 H2 H3. unfold getattr_m. now rewrite H1, H2, H3. Qed.

  (* the BS3 spelling tag.fooTag is tag.find("foo") *)
  Theorem getattr_bs3_spelling fuel x name :
    (Nat.ltb 3 (length name) && ends_with lit_Tag name) = true ->
    getattr_m pat_sem fun_sem h xm fuel x name =
    Some (find_method pat_sem fun_sem h xm fuel AxDescendants x (name_query (firstn (length name - 3) name))).
  Proof. intros H1. unfold getattr_m. now rewrite H1. Qed.
End Shorthand.

(* ---- boundary witnesses ---- *)
Definition lit_a : str := [97]%N.
Definition lit_b : str := [98]%N.
Definition lit_id : str := [105; 100]%N.

(* a document with two <a> tags (ids 1, 2) under the root 0 *)
Definition w_heap : heap := fun x =>
  match x with
  | 0 => mkcell KSoup None [1; 2] None None None None [] false
  | 1 => mkcell KTag (Some 0) [] None (Some 2) None (Some 2) lit_a false
  | 2 => mkcell KTag (Some 0) [] (Some 1) None (Some 1) None lit_a false
  | _ => blank (KStr false) []
  end.
Definition w_xm : xmap := fun _ => no_tagx.
Definition no_pat : N -> str -> bool := fun _ _ => false.
Definition no_fun : N -> callarg -> bool := fun _ _ => false.

(* find_all("a", id=[]): the specification (a list matches when one of its items does) says
   nothing matches; the code drops the criterion and returns both tags.  OPEN FINDING
   C10-unusable-list-criterion; this is why [query_ok] asks every given criterion to be usable. *)
Definition q_a_id_empty : query :=
  mkq (COne (AtStr lit_a)) (AttrsDict []) c_none [(lit_id, CList [])] None.
Lemma unusable_list_refuted :
  exists q L,
    Forall (fun x => name_wf w_heap w_xm x = true) L /\
    fst (find_all_m no_pat no_fun w_heap w_xm 5 q L) <> find_all_spec no_pat no_fun w_heap w_xm 5 q L.
Proof.
  exists q_a_id_empty, [1; 2]. split.
  - repeat constructor.
  - vm_compute. discriminate.
Qed.

(* a tag whose prefix is the empty string, or whose local name contains a colon, is matched
   differently by the plain-name path and by the general path: outside XML's naming rules, and
   outside [name_wf] *)
Definition w_xm_odd : xmap := fun x => match x with 1 => mkx (Some []) [] | _ => no_tagx end.
Definition q_colon_a : query := mkq (COne (AtStr (colon :: lit_a))) (AttrsDict []) c_none [] None.
Lemma odd_prefix_refuted :
  exists q L,
    query_ok q = true /\
    fst (find_all_m no_pat no_fun w_heap w_xm_odd 5 q L) <> find_all_spec no_pat no_fun w_heap w_xm_odd 5 q L /\
    fst (find_all_m no_pat no_fun w_heap w_xm_odd 5 (with_limit q (Some 1)) L) = find_all_spec no_pat no_fun w_heap w_xm_odd 5 q L.
Proof.
  exists q_colon_a, [1; 2]. split; [reflexivity|]. split.
  - vm_compute. discriminate.
  - vm_compute. reflexivity.
Qed.

(* the hypotheses of the refinement theorems are satisfiable on a non-trivial case *)
Example domain_inhabited :
  query_ok (mkq (CList [AtStr lit_a; AtNone; AtPat 0]) (AttrsOther (COne (AtStr lit_b)) true) (COne (AtBool true))
                [(lit_id, COne AtNone); ([114; 101; 108]%N, CList [AtFun 1; AtStr lit_a])] (Some 2)) = true /\
  (forall x, name_wf w_heap w_xm x = true).
Proof. split; [reflexivity|]. intros x. reflexivity. Qed.
