(* C02 — the multi-argument editing calls (insert / insert_before / insert_after / replace_with)
   have exactly their documented effect on the child list, for ALL lists.

   Method: everything is stated in "decomposed" form.  The child list is written
   [P ++ D ++ Q] where [D] is the block of arguments already placed and the running position is
   [length P + length D]; one [kmove] of a fresh argument [c] (not in [D]) yields
   [P\c ++ D ++ c :: Q\c]  (lemma [kmove_block]), and the loop invariant is
   [kmove_all (|P|+|D|) cs (P ++ D ++ Q) = others cs P ++ D ++ cs ++ others cs Q]
   (lemma [kmove_all_block]).  The specs are put in the same form. *)
From Coq Require Import List Arith Bool Lia Permutation.
From BS Require Import Base.Sexp Model.Heap Spec.ListEdit.
Import ListNotations.

(* ------------------------------------------------------------------ *)
(* basic facts: index_of, remove_at, insert_at                          *)
(* ------------------------------------------------------------------ *)

Lemma index_of_notin : forall x l, ~ In x l -> index_of x l = None.
Proof.
  intros x l; induction l as [|y l IH]; intros Hn; cbn [index_of]; [reflexivity|].
  destruct (Nat.eqb_spec y x) as [E|E].
  - exfalso; apply Hn; left; exact E.
  - rewrite IH; [reflexivity|]. intros Hi; apply Hn; right; exact Hi.
Qed.

Lemma index_of_app_here : forall x A B, ~ In x A -> index_of x (A ++ x :: B) = Some (length A).
Proof.
  intros x A B; induction A as [|y A IH]; intros Hn; cbn [app index_of length].
  - rewrite Nat.eqb_refl; reflexivity.
  - destruct (Nat.eqb_spec y x) as [E|E].
    + exfalso; apply Hn; left; exact E.
    + rewrite IH; [reflexivity|]. intros Hi; apply Hn; right; exact Hi.
Qed.

Lemma index_of_Some_nth : forall x l i, index_of x l = Some i ->
  nth_error l i = Some x /\ (forall j, j < i -> nth_error l j <> Some x).
Proof.
  intros x l; induction l as [|y l IH]; intros i H; cbn [index_of] in H; [discriminate|].
  destruct (Nat.eqb_spec y x) as [E|E].
  - injection H as <-. subst y. split; [reflexivity|]. intros j Hj; lia.
  - destruct (index_of x l) as [k|] eqn:Hk; cbn [option_map] in H; [|discriminate].
    injection H as <-. destruct (IH k eq_refl) as [H1 H2]. split; [exact H1|].
    intros [|j] Hj; cbn [nth_error].
    + intros Heq; injection Heq as Heq; contradiction.
    + apply H2; lia.
Qed.

Lemma remove_at_app_here : forall {X} (A : list X) x B, remove_at (length A) (A ++ x :: B) = A ++ B.
Proof.
  intros X A x B; induction A as [|y A IH]; cbn [app length remove_at]; [reflexivity|].
  rewrite IH; reflexivity.
Qed.

Lemma insert_at_app_here : forall {X} (A : list X) x B, insert_at (length A) x (A ++ B) = A ++ x :: B.
Proof.
  intros X A x B; induction A as [|y A IH]; cbn [app length insert_at].
  - destruct B; reflexivity.
  - rewrite IH; reflexivity.
Qed.

Lemma insert_at_firstn_skipn : forall {X} i (x : X) l, i <= length l ->
  insert_at i x l = firstn i l ++ x :: skipn i l.
Proof.
  intros X i x l Hi.
  rewrite <- (firstn_skipn i l) at 1.
  replace i with (length (firstn i l)) at 1 by (rewrite firstn_length; lia).
  apply insert_at_app_here.
Qed.

Lemma insert_at_clip : forall {X} i (x : X) l, length l <= i -> insert_at i x l = l ++ [x].
Proof.
  intros X i x l; revert i; induction l as [|y l IH]; intros i Hi; cbn [length] in Hi.
  - destruct i; reflexivity.
  - destruct i as [|i]; [lia|]. cbn [insert_at app]. rewrite IH; [reflexivity|lia].
Qed.

Lemma in_split_nodup : forall (x : nat) K, NoDup K -> In x K ->
  exists A B, K = A ++ x :: B /\ ~ In x A /\ ~ In x B.
Proof.
  intros x K Hnd Hin. destruct (in_split _ _ Hin) as (A & B & ->).
  exists A, B. split; [reflexivity|].
  apply NoDup_remove_2 in Hnd. split; intros Hi; apply Hnd; apply in_or_app; [left|right]; exact Hi.
Qed.

(* ------------------------------------------------------------------ *)
(* filters: [drop c] (everything but c) and [others cs]                 *)
(* ------------------------------------------------------------------ *)

Definition drop (c : nat) (l : list nat) : list nat := filter (fun y => negb (Nat.eqb y c)) l.

Lemma mem_In : forall x l, mem x l = true <-> In x l.
Proof.
  intros x l; unfold mem; rewrite existsb_exists; split.
  - intros (y & Hy & E). apply Nat.eqb_eq in E; subst y; exact Hy.
  - intros Hi; exists x; split; [exact Hi|apply Nat.eqb_refl].
Qed.

Lemma mem_notin : forall x l, ~ In x l -> mem x l = false.
Proof.
  intros x l Hn. destruct (mem x l) eqn:E; [|reflexivity].
  exfalso; apply Hn; apply mem_In; exact E.
Qed.

Lemma drop_notin : forall c l, ~ In c l -> drop c l = l.
Proof.
  intros c l; induction l as [|y l IH]; intros Hn; unfold drop; cbn [filter]; [reflexivity|].
  destruct (Nat.eqb_spec y c) as [E|E]; cbn [negb].
  - exfalso; apply Hn; left; exact E.
  - f_equal. apply IH. intros Hi; apply Hn; right; exact Hi.
Qed.

Lemma drop_app : forall c l1 l2, drop c (l1 ++ l2) = drop c l1 ++ drop c l2.
Proof. intros; unfold drop; apply filter_app. Qed.

Lemma drop_here : forall c A B, ~ In c A -> ~ In c B -> drop c (A ++ c :: B) = A ++ B.
Proof.
  intros c A B HA HB. rewrite drop_app. rewrite (drop_notin c A HA).
  unfold drop at 1; cbn [filter]. rewrite Nat.eqb_refl; cbn [negb].
  fold (drop c B). rewrite (drop_notin c B HB). reflexivity.
Qed.

Lemma drop_In : forall c l x, In x (drop c l) <-> In x l /\ x <> c.
Proof.
  intros c l x; unfold drop; rewrite filter_In. rewrite negb_true_iff, Nat.eqb_neq. tauto.
Qed.

Lemma NoDup_drop : forall c l, NoDup l -> NoDup (drop c l).
Proof. intros; unfold drop; apply NoDup_filter; assumption. Qed.

Lemma others_app : forall cs l1 l2, others cs (l1 ++ l2) = others cs l1 ++ others cs l2.
Proof. intros; unfold others; apply filter_app. Qed.

Lemma others_nil : forall l, others [] l = l.
Proof.
  intros l; unfold others; induction l as [|y l IH]; cbn [filter mem existsb negb]; [reflexivity|].
  f_equal; exact IH.
Qed.

Lemma others_cons : forall c cs l, others (c :: cs) l = others cs (drop c l).
Proof.
  intros c cs l; unfold others, drop; induction l as [|y l IH]; cbn [filter]; [reflexivity|].
  unfold mem at 1; cbn [existsb]. fold (mem y cs).
  destruct (Nat.eqb y c); cbn [orb negb filter].
  - exact IH.
  - destruct (mem y cs); cbn [negb]; [exact IH|f_equal; exact IH].
Qed.

Lemma others_In : forall cs l x, In x (others cs l) <-> In x l /\ ~ In x cs.
Proof.
  intros cs l x; unfold others; rewrite filter_In, negb_true_iff.
  split; intros [H1 H2]; (split; [exact H1|]).
  - intros Hi; apply mem_In in Hi; congruence.
  - apply mem_notin; exact H2.
Qed.

Lemma others_disjoint : forall cs l, (forall x, In x l -> ~ In x cs) -> others cs l = l.
Proof.
  intros cs l; induction l as [|y l IH]; intros H; unfold others; cbn [filter]; [reflexivity|].
  rewrite (mem_notin y cs) by (apply H; left; reflexivity). cbn [negb].
  f_equal. apply IH. intros x Hx; apply H; right; exact Hx.
Qed.

Lemma others_single : forall cs x, ~ In x cs -> others cs [x] = [x].
Proof.
  intros cs x Hn; apply others_disjoint. intros y [<-|[]]; exact Hn.
Qed.

Lemma NoDup_others : forall cs l, NoDup l -> NoDup (others cs l).
Proof. intros; unfold others; apply NoDup_filter; assumption. Qed.

Lemma NoDup_app_intro : forall (l1 l2 : list nat), NoDup l1 -> NoDup l2 ->
  (forall x, In x l1 -> ~ In x l2) -> NoDup (l1 ++ l2).
Proof.
  intros l1 l2 H1 H2 Hd; induction H1 as [|x l1 Hx H1 IH]; cbn [app]; [exact H2|].
  constructor.
  - intros Hi; apply in_app_or in Hi; destruct Hi as [Hi|Hi]; [exact (Hx Hi)|].
    apply (Hd x); [left; reflexivity|exact Hi].
  - apply IH. intros y Hy; apply Hd; right; exact Hy.
Qed.

Lemma NoDup_app_remove_r : forall (l1 l2 : list nat), NoDup (l1 ++ l2) -> NoDup l1.
Proof.
  intros l1 l2; induction l1 as [|x l1 IH]; cbn [app]; intros H; [constructor|].
  inversion H as [|y l Hx Hl Heq]; subst y l. constructor.
  - intros Hi; apply Hx; apply in_or_app; left; exact Hi.
  - apply IH; exact Hl.
Qed.

Lemma NoDup_app_remove_l : forall (l1 l2 : list nat), NoDup (l1 ++ l2) -> NoDup l2.
Proof.
  intros l1 l2; induction l1 as [|x l1 IH]; cbn [app]; intros H; [exact H|].
  inversion H as [|y l Hx Hl Heq]; subst y l. apply IH; exact Hl.
Qed.

(* ------------------------------------------------------------------ *)
(* one step: kremove and kmove                                          *)
(* ------------------------------------------------------------------ *)

Lemma kremove_drop : forall c K, NoDup K -> kremove c K = drop c K.
Proof.
  intros c K Hnd; unfold kremove.
  destruct (in_dec Nat.eq_dec c K) as [Hin|Hn].
  - destruct (in_split_nodup c K Hnd Hin) as (A & B & -> & HA & HB).
    rewrite (index_of_app_here c A B HA), remove_at_app_here, drop_here; auto.
  - rewrite (index_of_notin c K Hn), drop_notin; auto.
Qed.

Lemma kmove_fresh : forall c A B, ~ In c (A ++ B) -> kmove (length A) c (A ++ B) = A ++ c :: B.
Proof.
  intros c A B Hn; unfold kmove.
  rewrite (index_of_notin c _ Hn).
  rewrite Nat.min_l by (rewrite app_length; lia).
  apply insert_at_app_here.
Qed.

(* moving a fresh argument c to the position just after the block D *)
Lemma kmove_block : forall c P D Q, NoDup (P ++ D ++ Q) -> ~ In c D ->
  kmove (length P + length D) c (P ++ D ++ Q) = drop c P ++ D ++ c :: drop c Q.
Proof.
  intros c P D Q Hnd HcD.
  destruct (in_dec Nat.eq_dec c P) as [HP|HP].
  - (* c sits before the block: taken out, re-inserted one place to the left *)
    assert (HndP : NoDup P) by (apply NoDup_app_remove_r in Hnd; exact Hnd).
    destruct (in_split_nodup c P HndP HP) as (A & B & -> & HA & HB).
    assert (HQ : ~ In c Q).
    { intros Hi. rewrite <- app_assoc in Hnd. cbn [app] in Hnd.
      apply NoDup_remove_2 in Hnd. apply Hnd.
      apply in_or_app; right. apply in_or_app; right. apply in_or_app; right; exact Hi. }
    rewrite (drop_here c A B HA HB), (drop_notin c Q HQ).
    unfold kmove.
    replace ((A ++ c :: B) ++ D ++ Q) with (A ++ c :: (B ++ D ++ Q))
      by (rewrite <- app_assoc; reflexivity).
    rewrite (index_of_app_here c A _ HA).
    rewrite Nat.min_l by (repeat (rewrite app_length; cbn [length]); lia).
    assert (Hlt : (length A <? length (A ++ c :: B) + length D) = true).
    { apply Nat.ltb_lt. rewrite app_length; cbn [length]; lia. }
    rewrite Hlt. rewrite remove_at_app_here.
    replace (pred (length (A ++ c :: B) + length D)) with (length ((A ++ B) ++ D))
      by (repeat (rewrite app_length; cbn [length]); lia).
    replace (A ++ B ++ D ++ Q) with (((A ++ B) ++ D) ++ Q) by (repeat rewrite <- app_assoc; reflexivity).
    rewrite insert_at_app_here. repeat rewrite <- app_assoc. reflexivity.
  - rewrite (drop_notin c P HP).
    destruct (in_dec Nat.eq_dec c Q) as [HQ|HQ].
    + (* c sits after the block *)
      assert (HndQ : NoDup Q) by (apply NoDup_app_remove_l in Hnd; apply NoDup_app_remove_l in Hnd; exact Hnd).
      destruct (in_split_nodup c Q HndQ HQ) as (A & B & -> & HA & HB).
      rewrite (drop_here c A B HA HB).
      unfold kmove.
      replace (P ++ D ++ A ++ c :: B) with ((P ++ D ++ A) ++ c :: B)
        by (repeat rewrite <- app_assoc; reflexivity).
      rewrite (index_of_app_here c (P ++ D ++ A) B)
        by (intros Hi; apply in_app_or in Hi; destruct Hi as [Hi|Hi]; [exact (HP Hi)|];
            apply in_app_or in Hi; destruct Hi as [Hi|Hi]; [exact (HcD Hi)|exact (HA Hi)]).
      rewrite Nat.min_l by (repeat (rewrite app_length; cbn [length]); lia).
      assert (Hlt : (length (P ++ D ++ A) <? length P + length D) = false).
      { apply Nat.ltb_ge. repeat rewrite app_length; lia. }
      rewrite Hlt.
      destruct (Nat.eqb_spec (length (P ++ D ++ A)) (length P + length D)) as [E|E].
      * assert (A = []) as ->.
        { repeat rewrite app_length in E. destruct A; [reflexivity|cbn [length] in E; lia]. }
        cbn [app]. repeat rewrite <- app_assoc. reflexivity.
      * rewrite remove_at_app_here.
        replace ((P ++ D ++ A) ++ B) with ((P ++ D) ++ A ++ B) by (repeat rewrite <- app_assoc; reflexivity).
        replace (length P + length D) with (length (P ++ D)) by (rewrite app_length; reflexivity).
        rewrite insert_at_app_here. repeat rewrite <- app_assoc. reflexivity.
    + rewrite (drop_notin c Q HQ).
      replace (P ++ D ++ Q) with ((P ++ D) ++ Q) by (rewrite <- app_assoc; reflexivity).
      replace (length P + length D) with (length (P ++ D)) by (rewrite app_length; reflexivity).
      rewrite kmove_fresh.
      * rewrite <- app_assoc; reflexivity.
      * intros Hi. apply in_app_or in Hi; destruct Hi as [Hi|Hi]; [|exact (HQ Hi)].
        apply in_app_or in Hi; destruct Hi as [Hi|Hi]; [exact (HP Hi)|exact (HcD Hi)].
Qed.

Lemma NoDup_block_step : forall c P D Q, NoDup (P ++ D ++ Q) -> ~ In c D ->
  NoDup (drop c P ++ (D ++ [c]) ++ drop c Q).
Proof.
  intros c P D Q Hnd HcD.
  apply (Permutation_NoDup (l := c :: drop c (P ++ D ++ Q))).
  - repeat rewrite drop_app. rewrite (drop_notin c D HcD).
    replace (drop c P ++ (D ++ [c]) ++ drop c Q) with ((drop c P ++ D) ++ c :: drop c Q)
      by (repeat rewrite <- app_assoc; reflexivity).
    apply Permutation_cons_app. rewrite <- app_assoc. apply Permutation_refl.
  - constructor.
    + intros Hi; apply drop_In in Hi; destruct Hi as [_ Hi]; apply Hi; reflexivity.
    + apply NoDup_drop; exact Hnd.
Qed.

(* ------------------------------------------------------------------ *)
(* the multi-argument loop                                              *)
(* ------------------------------------------------------------------ *)

Lemma kmove_all_block : forall cs P D Q,
  NoDup cs -> NoDup (P ++ D ++ Q) -> (forall x, In x cs -> ~ In x D) ->
  kmove_all (length P + length D) cs (P ++ D ++ Q) = others cs P ++ D ++ cs ++ others cs Q.
Proof.
  intros cs; induction cs as [|c cs IH]; intros P D Q Hcs Hnd Hdis.
  - cbn [kmove_all app]. repeat rewrite others_nil. reflexivity.
  - cbn [kmove_all].
    assert (HcD : ~ In c D) by (apply Hdis; left; reflexivity).
    rewrite (kmove_block c P D Q Hnd HcD).
    replace (drop c P ++ D ++ c :: drop c Q) with ((drop c P ++ D) ++ c :: drop c Q)
      by (rewrite <- app_assoc; reflexivity).
    rewrite index_of_app_here.
    2:{ intros Hi; apply in_app_or in Hi; destruct Hi as [Hi|Hi]; [|exact (HcD Hi)].
        apply drop_In in Hi; destruct Hi as [_ Hi]; apply Hi; reflexivity. }
    replace ((drop c P ++ D) ++ c :: drop c Q) with (drop c P ++ (D ++ [c]) ++ drop c Q)
      by (repeat rewrite <- app_assoc; reflexivity).
    replace (S (length (drop c P ++ D))) with (length (drop c P) + length (D ++ [c]))
      by (repeat rewrite app_length; cbn [length]; lia).
    inversion Hcs as [|c' cs' Hc Hcs' Heq]; subst c' cs'.
    rewrite IH.
    + repeat rewrite others_cons. repeat rewrite <- app_assoc. reflexivity.
    + exact Hcs'.
    + apply NoDup_block_step; assumption.
    + intros x Hx Hi. apply in_app_or in Hi; destruct Hi as [Hi|Hi].
      * apply (Hdis x); [right; exact Hx|exact Hi].
      * destruct Hi as [<-|[]]. exact (Hc Hx).
Qed.

Lemma kmove_min : forall pos c K, kmove pos c K = kmove (Nat.min pos (length K)) c K.
Proof.
  intros pos c K; unfold kmove.
  replace (Nat.min (Nat.min pos (length K)) (length K)) with (Nat.min pos (length K)) by lia.
  reflexivity.
Qed.

Lemma kmove_all_min : forall cs pos K, kmove_all pos cs K = kmove_all (Nat.min pos (length K)) cs K.
Proof.
  intros [|c cs] pos K; cbn [kmove_all]; [reflexivity|].
  rewrite <- (kmove_min pos c K).
  destruct (index_of c (kmove pos c K)) as [i|] eqn:E; [reflexivity|].
  (* c is always present after kmove; but we do not even need that: *)
  exfalso. revert E. unfold kmove.
  assert (Hins : forall i (l : list nat), In c (insert_at i c l)).
  { intros i l; revert i; induction l as [|y l IHl]; intros [|i]; cbn [insert_at]; try (left; reflexivity).
    right; apply IHl. }
  assert (Hsome : forall l, In c l -> index_of c l <> None).
  { intros l Hin Hnone. destruct (in_split _ _ Hin) as (A & B & ->).
    clear Hin. induction A as [|y A IHA]; cbn [app index_of] in Hnone.
    - rewrite Nat.eqb_refl in Hnone; discriminate.
    - destruct (Nat.eqb y c); [discriminate|].
      destruct (index_of c (A ++ c :: B)); [discriminate|]. apply IHA; reflexivity. }
  destruct (index_of c K) as [cur|] eqn:Ecur.
  - destruct (cur <? Nat.min pos (length K)); [apply Hsome, Hins|].
    destruct (cur =? Nat.min pos (length K)); [|apply Hsome, Hins].
    rewrite Ecur; discriminate.
  - apply Hsome, Hins.
Qed.

(* the documented effect, in decomposed form *)
Lemma splice_spec_split : forall pos cs K,
  splice_spec pos cs K = others cs (firstn pos K) ++ cs ++ others cs (skipn pos K).
Proof.
  intros pos cs K; unfold splice_spec. fold (others cs K). fold (others cs (firstn pos K)).
  assert (E : others cs K = others cs (firstn pos K) ++ others cs (skipn pos K))
    by (rewrite <- others_app, firstn_skipn; reflexivity).
  rewrite E.
  rewrite firstn_app, skipn_app, Nat.sub_diag, firstn_all, skipn_all. cbn [firstn skipn].
  rewrite app_nil_r. cbn [app]. reflexivity.
Qed.

Theorem kmove_all_spec : forall cs pos K, NoDup cs -> NoDup K -> kmove_all pos cs K = splice_spec pos cs K.
Proof.
  intros cs pos K Hcs HK.
  rewrite splice_spec_split, kmove_all_min.
  replace (Nat.min pos (length K)) with (length (firstn pos K) + length (@nil nat))
    by (rewrite firstn_length; cbn [length]; lia).
  rewrite <- (firstn_skipn pos K) at 2.
  change (firstn pos K ++ skipn pos K) with (firstn pos K ++ [] ++ skipn pos K).
  rewrite kmove_all_block.
  - reflexivity.
  - exact Hcs.
  - cbn [app]. rewrite firstn_skipn. exact HK.
  - intros x _ [].
Qed.

(* ------------------------------------------------------------------ *)
(* insert_before / insert_after / replace_with                          *)
(* ------------------------------------------------------------------ *)

Lemma notin_app_cons : forall (x self : nat) P Q, ~ In x (P ++ self :: Q) -> ~ In x P /\ x <> self /\ ~ In x Q.
Proof.
  intros x self P Q Hn. repeat split.
  - intros Hi; apply Hn; apply in_or_app; left; exact Hi.
  - intros ->; apply Hn; apply in_or_app; right; left; reflexivity.
  - intros Hi; apply Hn; apply in_or_app; right; right; exact Hi.
Qed.

Lemma others_anchor : forall self cs P Q, ~ In self cs ->
  others cs (P ++ self :: Q) = others cs P ++ self :: others cs Q.
Proof.
  intros self cs P Q Hn. rewrite others_app.
  change (self :: Q) with ([self] ++ Q). rewrite others_app, (others_single cs self Hn). reflexivity.
Qed.

Lemma anchor_notin_others : forall self cs P Q, NoDup (P ++ self :: Q) -> ~ In self (others cs P).
Proof.
  intros self cs P Q Hnd Hi. apply others_In in Hi; destruct Hi as [Hi _].
  apply NoDup_remove_2 in Hnd. apply Hnd; apply in_or_app; left; exact Hi.
Qed.

Lemma drop_anchor : forall c self P Q, self <> c ->
  drop c (P ++ self :: Q) = drop c P ++ self :: drop c Q.
Proof.
  intros c self P Q Hne. rewrite drop_app. f_equal.
  unfold drop at 1; cbn [filter].
  destruct (Nat.eqb_spec self c) as [E|E]; [contradiction|]. reflexivity.
Qed.

Lemma anchor_notin_drop : forall c self P Q, NoDup (P ++ self :: Q) -> ~ In self (drop c P).
Proof.
  intros c self P Q Hnd Hi. apply drop_In in Hi; destruct Hi as [Hi _].
  apply NoDup_remove_2 in Hnd. apply Hnd; apply in_or_app; left; exact Hi.
Qed.

Lemma c_notin_dropped : forall c self P Q, self <> c -> ~ In c (drop c P ++ self :: drop c Q).
Proof.
  intros c self P Q Hne Hi. apply in_app_or in Hi; destruct Hi as [Hi|[Hi|Hi]].
  - apply drop_In in Hi; destruct Hi as [_ Hi]; apply Hi; reflexivity.
  - exact (Hne Hi).
  - apply drop_In in Hi; destruct Hi as [_ Hi]; apply Hi; reflexivity.
Qed.

Lemma before_spec_split : forall self cs P Q, NoDup (P ++ self :: Q) -> ~ In self cs ->
  before_spec self cs (P ++ self :: Q) = others cs P ++ cs ++ self :: others cs Q.
Proof.
  intros self cs P Q Hnd Hn; unfold before_spec.
  rewrite (others_anchor self cs P Q Hn).
  rewrite index_of_app_here by (apply (anchor_notin_others self cs P Q Hnd)).
  rewrite firstn_app, skipn_app, Nat.sub_diag, firstn_all, skipn_all. cbn [firstn skipn].
  rewrite app_nil_r. cbn [app]. reflexivity.
Qed.

Lemma after_spec_split : forall self cs P Q, NoDup (P ++ self :: Q) -> ~ In self cs ->
  after_spec self cs (P ++ self :: Q) = others cs P ++ self :: cs ++ others cs Q.
Proof.
  intros self cs P Q Hnd Hn; unfold after_spec.
  rewrite (others_anchor self cs P Q Hn).
  rewrite index_of_app_here by (apply (anchor_notin_others self cs P Q Hnd)).
  replace (others cs P ++ self :: others cs Q) with ((others cs P ++ [self]) ++ others cs Q)
    by (rewrite <- app_assoc; reflexivity).
  replace (S (length (others cs P))) with (length (others cs P ++ [self]))
    by (rewrite app_length; cbn [length]; lia).
  rewrite firstn_app, skipn_app, Nat.sub_diag, firstn_all, skipn_all. cbn [firstn skipn].
  rewrite app_nil_r. cbn [app]. rewrite <- app_assoc. reflexivity.
Qed.

Lemma replace_spec_split : forall self cs P Q, NoDup (P ++ self :: Q) -> ~ In self cs ->
  replace_spec self cs (P ++ self :: Q) = others cs P ++ cs ++ others cs Q.
Proof.
  intros self cs P Q Hnd Hn; unfold replace_spec.
  rewrite (others_anchor self cs P Q Hn).
  rewrite index_of_app_here by (apply (anchor_notin_others self cs P Q Hnd)).
  rewrite firstn_app, Nat.sub_diag, firstn_all. cbn [firstn]. rewrite app_nil_r.
  replace (others cs P ++ self :: others cs Q) with ((others cs P ++ [self]) ++ others cs Q)
    by (rewrite <- app_assoc; reflexivity).
  replace (S (length (others cs P))) with (length (others cs P ++ [self]))
    by (rewrite app_length; cbn [length]; lia).
  rewrite skipn_app, Nat.sub_diag, skipn_all. cbn [skipn app]. reflexivity.
Qed.

Lemma NoDup_anchor_step_before : forall c self P Q, NoDup (P ++ self :: Q) -> self <> c ->
  NoDup ((drop c P ++ [c]) ++ self :: drop c Q).
Proof.
  intros c self P Q Hnd Hne.
  apply (Permutation_NoDup (l := c :: drop c (P ++ self :: Q))).
  - rewrite (drop_anchor c self P Q Hne). rewrite <- app_assoc. cbn [app].
    apply Permutation_cons_app. apply Permutation_refl.
  - constructor.
    + intros Hi; apply drop_In in Hi; destruct Hi as [_ Hi]; apply Hi; reflexivity.
    + apply NoDup_drop; exact Hnd.
Qed.

Lemma NoDup_anchor_step_after : forall c self P Q, NoDup (P ++ self :: Q) -> self <> c ->
  NoDup ((drop c P ++ [self]) ++ c :: drop c Q).
Proof.
  intros c self P Q Hnd Hne.
  apply (Permutation_NoDup (l := c :: drop c (P ++ self :: Q))).
  - rewrite (drop_anchor c self P Q Hne).
    apply Permutation_cons_app. rewrite <- app_assoc. cbn [app]. apply Permutation_refl.
  - constructor.
    + intros Hi; apply drop_In in Hi; destruct Hi as [_ Hi]; apply Hi; reflexivity.
    + apply NoDup_drop; exact Hnd.
Qed.

Lemma kbefore_split : forall cs self P Q, NoDup cs -> NoDup (P ++ self :: Q) -> ~ In self cs ->
  kbefore self cs (P ++ self :: Q) = others cs P ++ cs ++ self :: others cs Q.
Proof.
  intros cs; induction cs as [|c cs IH]; intros self P Q Hcs Hnd Hn.
  - cbn [kbefore app]. repeat rewrite others_nil. reflexivity.
  - cbn [kbefore].
    assert (Hne : self <> c) by (intros ->; apply Hn; left; reflexivity).
    assert (Hn' : ~ In self cs) by (intros Hi; apply Hn; right; exact Hi).
    inversion Hcs as [|c' cs' Hc Hcs' Heq]; subst c' cs'.
    rewrite (kremove_drop c _ Hnd), (drop_anchor c self P Q Hne).
    rewrite index_of_app_here by (apply (anchor_notin_drop c self P Q Hnd)).
    rewrite kmove_fresh by (apply c_notin_dropped; exact Hne).
    replace (drop c P ++ c :: self :: drop c Q) with ((drop c P ++ [c]) ++ self :: drop c Q)
      by (rewrite <- app_assoc; reflexivity).
    rewrite IH.
    + rewrite others_app, (others_single cs c Hc). repeat rewrite others_cons.
      repeat rewrite <- app_assoc. reflexivity.
    + exact Hcs'.
    + apply NoDup_anchor_step_before; assumption.
    + exact Hn'.
Qed.

Lemma kafter_split : forall cs self P Q, NoDup cs -> NoDup (P ++ self :: Q) -> ~ In self cs ->
  kafter self cs (P ++ self :: Q) = others cs P ++ self :: cs ++ others cs Q.
Proof.
  intros cs; induction cs as [|c cs IH]; intros self P Q Hcs Hnd Hn.
  - cbn [kafter app]. repeat rewrite others_nil. reflexivity.
  - cbn [kafter].
    assert (Hne : self <> c) by (intros ->; apply Hn; left; reflexivity).
    assert (Hn' : ~ In self cs) by (intros Hi; apply Hn; right; exact Hi).
    inversion Hcs as [|c' cs' Hc Hcs' Heq]; subst c' cs'.
    rewrite (kremove_drop c _ Hnd), (drop_anchor c self P Q Hne).
    rewrite index_of_app_here by (apply (anchor_notin_drop c self P Q Hnd)).
    replace (drop c P ++ self :: drop c Q) with ((drop c P ++ [self]) ++ drop c Q)
      by (rewrite <- app_assoc; reflexivity).
    replace (S (length (drop c P))) with (length (drop c P ++ [self]))
      by (rewrite app_length; cbn [length]; lia).
    rewrite kmove_fresh.
    2:{ rewrite <- app_assoc. cbn [app]. apply c_notin_dropped; exact Hne. }
    rewrite IH.
    + rewrite others_app, (others_single cs self Hn'). repeat rewrite others_cons.
      repeat rewrite <- app_assoc. reflexivity.
    + exact Hcs'.
    + apply NoDup_anchor_step_after; assumption.
    + exact Hc.
Qed.

Theorem kbefore_spec : forall cs self K, NoDup cs -> NoDup K -> In self K -> ~ In self cs ->
  kbefore self cs K = before_spec self cs K.
Proof.
  intros cs self K Hcs HK Hin Hn.
  destruct (in_split _ _ Hin) as (P & Q & ->).
  rewrite kbefore_split, before_spec_split; auto.
Qed.

Theorem kafter_spec : forall cs self K, NoDup cs -> NoDup K -> In self K -> ~ In self cs ->
  kafter self cs K = after_spec self cs K.
Proof.
  intros cs self K Hcs HK Hin Hn.
  destruct (in_split _ _ Hin) as (P & Q & ->).
  rewrite kafter_split, after_spec_split; auto.
Qed.

Theorem kreplace_spec : forall cs self K, NoDup cs -> NoDup K -> In self K -> ~ In self cs ->
  kreplace self cs K = replace_spec self cs K.
Proof.
  intros cs self K Hcs HK Hin Hn.
  destruct (in_split_nodup self K HK Hin) as (P & Q & -> & HP & HQ).
  rewrite replace_spec_split by assumption.
  unfold kreplace. rewrite (index_of_app_here self P Q HP), remove_at_app_here.
  replace (length P) with (length P + length (@nil nat)) by (cbn [length]; lia).
  change (P ++ Q) with (P ++ [] ++ Q).
  rewrite kmove_all_block.
  - reflexivity.
  - exact Hcs.
  - cbn [app]. apply NoDup_remove_1 in HK. exact HK.
  - intros x _ [].
Qed.

(* ------------------------------------------------------------------ *)
(* corollaries in the property's words                                  *)
(* ------------------------------------------------------------------ *)

Corollary splice_contiguous : forall cs pos K, NoDup cs -> NoDup K ->
  exists A B, kmove_all pos cs K = A ++ cs ++ B /\ A ++ B = others cs K.
Proof.
  intros cs pos K Hcs HK.
  exists (others cs (firstn pos K)), (others cs (skipn pos K)). split.
  - rewrite kmove_all_spec by assumption. apply splice_spec_split.
  - rewrite <- others_app, firstn_skipn. reflexivity.
Qed.

Corollary splice_conserves : forall cs pos K, NoDup cs -> NoDup K ->
  NoDup (kmove_all pos cs K) /\ (forall x, In x (kmove_all pos cs K) <-> In x K \/ In x cs).
Proof.
  intros cs pos K Hcs HK.
  destruct (splice_contiguous cs pos K Hcs HK) as (A & B & -> & HAB).
  assert (Hperm : Permutation (cs ++ others cs K) (A ++ cs ++ B)).
  { rewrite <- HAB. apply Permutation_app_swap_app. }
  split.
  - apply (Permutation_NoDup Hperm).
    apply NoDup_app_intro; [exact Hcs|apply NoDup_others; exact HK|].
    intros x Hx Hi. apply others_In in Hi. destruct Hi as [_ Hi]; exact (Hi Hx).
  - intros x. split.
    + intros Hi. apply (Permutation_in x (Permutation_sym Hperm)) in Hi.
      apply in_app_or in Hi; destruct Hi as [Hi|Hi]; [right; exact Hi|].
      apply others_In in Hi; left; tauto.
    + intros Hi. apply (Permutation_in x Hperm). apply in_or_app.
      destruct (in_dec Nat.eq_dec x cs) as [Hc|Hc]; [left; exact Hc|].
      destruct Hi as [Hi|Hi]; [|left; exact Hi].
      right. apply others_In; split; assumption.
Qed.

Print Assumptions kmove_all_spec.
Print Assumptions kbefore_spec.
Print Assumptions kafter_spec.
Print Assumptions kreplace_spec.
Print Assumptions splice_conserves.
Print Assumptions splice_contiguous.
