(* C05 — a second round trip changes nothing: [norm] of the re-parsed tree (put back under a
   document root) is the re-parsed tree. *)
From Coq Require Import List NArith ZArith Bool Arith Lia.
From BS Require Import Base.Sexp Base.Types Gen.Tables Gen.Stdlib Gen.T_C05 Model.Attrs Model.Render Model.Reparse
     Model.Heap Model.Edit Model.Build Spec.BuildSpec Spec.RenderSpec Spec.RoundTrip Proofs.RenderProofs
     Proofs.RoundTripProofs.
Import ListNotations.
Local Arguments is_ws : simpl never.
Local Arguments ascii_lower : simpl never.

(* ================================================================ sorting by key *)
Lemma str_leb_cons x a y b :
  str_leb (x :: a) (y :: b) = true <-> (x < y)%N \/ (x = y /\ str_leb a b = true).
Proof.
  cbn [str_leb]. destruct (N.ltb_spec x y) as [H|H]; [split; auto|].
  destruct (N.ltb_spec y x) as [H2|H2].
  - split; [discriminate|]. intros [H3|[H3 _]]; lia.
  - assert (x = y) by lia. split; [auto|]. intros [H3|[_ H3]]; [lia|exact H3].
Qed.
Lemma str_leb_total : forall a b, str_leb a b = false -> str_leb b a = true.
Proof.
  induction a as [|x a IH]; intros [|y b] H; try reflexivity; try discriminate H.
  apply str_leb_cons. destruct (N.lt_trichotomy x y) as [L|[E|G]].
  - exfalso. assert (T : str_leb (x :: a) (y :: b) = true) by (apply str_leb_cons; auto). congruence.
  - right. split; [auto|]. apply IH. destruct (str_leb a b) eqn:E2; [|reflexivity].
    exfalso. assert (T : str_leb (x :: a) (y :: b) = true) by (apply str_leb_cons; auto). congruence.
  - left. exact G.
Qed.
Lemma str_leb_trans : forall a b c, str_leb a b = true -> str_leb b c = true -> str_leb a c = true.
Proof.
  induction a as [|x a IH]; intros [|y b] [|z c] H1 H2; try reflexivity; try discriminate.
  apply str_leb_cons in H1, H2. apply str_leb_cons.
  destruct H1 as [H1|[E1 H1]], H2 as [H2|[E2 H2]].
  - left; lia.
  - left; lia.
  - left; lia.
  - right. split; [lia|]. eapply IH; eassumption.
Qed.

Section Sorting.
  Context {X : Type}.
  Definition kle (a b : str * X) : Prop := str_leb (fst a) (fst b) = true.
  Inductive sk : list (str * X) -> Prop :=
  | sk_nil : sk []
  | sk_cons x l : Forall (kle x) l -> sk l -> sk (x :: l).

  Lemma insert_sorted_sk kv l : sk l -> sk (insert_sorted kv l).
  Proof.
    induction 1 as [|a l Ha Hl IH]; cbn; [repeat constructor|].
    destruct (str_leb (fst a) (fst kv)) eqn:E.
    - constructor; [|exact IH]. clear IH Hl.
      assert (H : forall x, In x (insert_sorted kv l) -> x = kv \/ In x l) by (intros x; apply insert_sorted_in).
      apply Forall_forall. intros x Hx. destruct (H x Hx) as [->|Hin]; [exact E|].
      rewrite Forall_forall in Ha. now apply Ha.
    - constructor; [|now constructor]. apply str_leb_total in E.
      constructor; [exact E|]. eapply Forall_impl; [|exact Ha]. intros y Hy. unfold kle in *. eapply str_leb_trans; eassumption.
  Qed.
  Lemma sort_by_key_sk (l : list (str * X)) : sk (sort_by_key l).
  Proof.
    unfold sort_by_key. assert (H : forall acc, sk acc -> sk (fold_left (fun acc kv => insert_sorted kv acc) l acc)).
    { induction l as [|a l IH]; intros acc Hacc; [exact Hacc|]. cbn. apply IH. now apply insert_sorted_sk. }
    apply H. constructor.
  Qed.
  Lemma insert_sorted_last kv acc : Forall (fun a => kle a kv) acc -> insert_sorted kv acc = acc ++ [kv].
  Proof.
    induction 1 as [|a acc Ha _ IH]; [reflexivity|]. cbn. unfold kle in Ha. now rewrite Ha, IH.
  Qed.
  Lemma sk_app_inv a b : sk (a ++ b) -> Forall (fun x => Forall (kle x) b) a.
  Proof.
    induction a as [|x a IH]; intros H; [constructor|]. inversion H as [|? ? Hx Hs]; subst.
    constructor; [|now apply IH]. apply Forall_app in Hx. tauto.
  Qed.
  Lemma sort_sorted (l : list (str * X)) : sk l -> sort_by_key l = l.
  Proof.
    intros Hs. unfold sort_by_key.
    assert (H : forall l2 acc, sk (acc ++ l2) -> fold_left (fun acc kv => insert_sorted kv acc) l2 acc = acc ++ l2).
    { induction l2 as [|a l2 IH]; intros acc Hk; [now rewrite app_nil_r|]. cbn.
      rewrite insert_sorted_last.
      - rewrite IH; [now rewrite <- app_assoc|]. now rewrite <- app_assoc.
      - apply sk_app_inv in Hk. eapply Forall_impl; [|exact Hk]. intros x Hx. now inversion Hx. }
    apply (H l []). exact Hs.
  Qed.
End Sorting.

Lemma sk_map {X Y} (h : str * X -> str * Y) l : (forall kv, fst (h kv) = fst kv) -> sk l -> sk (map h l).
Proof.
  intros Hh. induction 1 as [|x l Hx Hl IH]; [constructor|]. cbn. constructor; [|exact IH].
  apply Forall_forall. intros y Hy. apply in_map_iff in Hy as [y0 [<- Hy0]]. unfold kle. rewrite !Hh.
  rewrite Forall_forall in Hx. now apply Hx.
Qed.

(* ================================================================ normal forms *)
Section Norm.
  Variables (enc : bool) (f : fmt) (cfg : bconfig).
  Hypothesis Hcont : forall n c, assocS n (c_containers cfg) = Some c -> output_kind c = 0%N.
  Hypothesis Hnl : memN 10%N (c_spaces cfg) = true.

  Definition k0 (c : N) : bool := (output_kind c =? 0)%N.

  Lemma collapse_idem pres s : collapse cfg pres (collapse cfg pres s) = collapse cfg pres s.
  Proof.
    unfold collapse. destruct (negb pres && all_in (c_spaces cfg) s) eqn:E; [|now rewrite E].
    apply andb_prop in E as [Ep Ea]. rewrite Ep. cbn [andb].
    destruct (memN 10 s) eqn:Em.
    - assert (H : all_in (c_spaces cfg) [10%N] = true).
      { unfold all_in in *. cbn [forallb]. rewrite andb_true_r. rewrite forallb_forall in Ea.
        unfold memN in Em. apply existsb_exists in Em as [x [Hx Hx2]]. apply N.eqb_eq in Hx2. subst x. now apply Ea. }
      rewrite H. reflexivity.
    - destruct (all_in (c_spaces cfg) [32%N]); reflexivity.
  Qed.
  Lemma collapse_nonempty pres s : s <> [] -> collapse cfg pres s <> [].
  Proof. intros H. unfold collapse. destruct (_ && _); [destruct (memN 10 s); discriminate|exact H]. Qed.
  Lemma collapse_two_newlines : collapse cfg false [10%N; 10%N] = [10%N].
  Proof. unfold collapse, all_in. cbn [negb andb forallb]. rewrite Hnl. reflexivity. Qed.

  (* what a list of re-parsed siblings looks like *)
  Definition nontext (x : nnode) : Prop := match x with NS c _ => k0 c = false | NT _ _ _ => True end.
  Definition special_ok (c : N) : Prop := k0 c = false /\ (forall x, read_special c x = Some (c, x)).
  Definition attrs_ok (a : list (str * str)) : Prop := sk a.

  Inductive wnf : bool -> N -> list nnode -> Prop :=
  | wn_nil pres cont : wnf pres cont []
  | wn_text_last pres cont s : s <> [] -> collapse cfg pres s = s -> wnf pres cont [NS cont s]
  | wn_text_cons pres cont s x l : s <> [] -> collapse cfg pres s = s -> nontext x -> wnf pres cont (x :: l) ->
      wnf pres cont (NS cont s :: x :: l)
  | wn_special pres cont c s l : special_ok c -> wnf pres cont l -> wnf pres cont (NS c s :: l)
  | wn_tag pres cont q a kids l : attrs_ok a ->
      wnf (pres || memS q (c_pw cfg)) (match assocS q (c_containers cfg) with Some c => c | None => cont end) kids ->
      wnf pres cont l -> wnf pres cont (NT q a kids :: l).

  Definition head_nontext (l : list nnode) : Prop := match l with [] => True | x :: _ => nontext x end.

  (* ---- attributes of a re-parsed tag render and read back as themselves ---- *)
  Lemma norm_attrs_inj q a void pw : attrs_ok a ->
    norm_attrs enc f (mktag q None (map (fun kv => (fst kv, RStr (snd kv))) a) false void pw) = a.
  Proof.
    intros Ha. unfold norm_attrs, attributes. cbn [g_attrs]. rewrite map_map. cbn [fst snd].
    rewrite sort_sorted.
    - rewrite map_map. rewrite <- (map_id a) at 2. apply map_ext. intros [k v]. cbn [fst snd].
      destruct (f_empty_bool f); cbn [andb]; [|reflexivity]. destruct v; reflexivity.
    - apply sk_map; [intros kv; reflexivity|exact Ha].
  Qed.
  Lemma norm_attrs_sorted p : attrs_ok (norm_attrs enc f p).
  Proof. unfold attrs_ok, norm_attrs. apply sk_map; [intros kv; reflexivity|apply sort_by_key_sk]. Qed.

  Lemma qname_plain q a h ce pw : qname (mktag q None a h ce pw) = q.
  Proof. reflexivity. Qed.

  (* ---- one step of norm_kids ---- *)
  Lemma nk_text pres cont P c s r : (output_kind c =? 0)%N = true ->
    norm_kids enc f cfg pres cont P (NStr c s :: r) = norm_kids enc f cfg pres cont (P ++ s) r.
  Proof. intros H. cbn [norm_kids]. now rewrite H. Qed.
  Lemma nk_special pres cont P c s r c' s' : (output_kind c =? 0)%N = false -> read_special c s = Some (c', s') ->
    norm_kids enc f cfg pres cont P (NStr c s :: r) =
    flush_text cfg pres cont P ++ NS c' s' :: norm_kids enc f cfg pres cont (trailing c) r.
  Proof. intros H1 H2. cbn [norm_kids]. now rewrite H1, H2. Qed.
  Lemma nk_none pres cont P c s r : (output_kind c =? 0)%N = false -> read_special c s = None ->
    norm_kids enc f cfg pres cont P (NStr c s :: r) = norm_kids enc f cfg pres cont (P ++ trailing c) r.
  Proof. intros H1 H2. cbn [norm_kids]. now rewrite H1, H2. Qed.
  Lemma nk_tag pres cont P p ks r :
    norm_kids enc f cfg pres cont P (NTag p ks :: r) =
    flush_text cfg pres cont P ++ norm_node enc f cfg pres cont (NTag p ks) ++ norm_kids enc f cfg pres cont [] r.
  Proof. reflexivity. Qed.

  Lemma stable_node_tag pres cont q a kids :
    stable_node cfg pres cont (NT q a kids) =
    stable_list cfg (pres || memS q (c_pw cfg)) (match assocS q (c_containers cfg) with Some c => c | None => cont end) kids.
  Proof. cbn [stable_node]. induction kids as [|k r IH]; [reflexivity|]. cbn [stable_list]. now rewrite IH. Qed.

  Lemma doctype_next_inv cont r :
    match r with NS c2 [10%N] :: _ => (c2 =? cont)%N | _ => false end = true -> exists l2, r = NS cont [10%N] :: l2.
  Proof.
    intros H. destruct r as [|[q0 a0 k0'|c2 s] l2]; try discriminate H. destruct s as [|x [|y s]]; try discriminate H.
    2:{ destruct x as [|[[[[]|[]|]|[[]|[]|]|]|[[[]|[]|]|[[]|[]|]|]|]]; discriminate H. }
    destruct x as [|[[[[]|[]|]|[[]|[]|]|]|[[[]|[]|]|[[]|[]|]|]|]]; try discriminate H.
    revert H.
    intros H. apply N.eqb_eq in H. subst c2. now exists l2.
  Qed.

  (* ---- (A) re-normalising a stable normal list gives it back ---- *)
  Lemma flush_text_normal pres cont s : s <> [] -> flush_text cfg pres cont s = [NS cont (collapse cfg pres s)].
  Proof. intros Hs. unfold flush_text. destruct s; [contradiction|reflexivity]. Qed.

  Lemma renorm : forall pres cont l, wnf pres cont l -> stable_list cfg pres cont l = true -> k0 cont = true ->
    (head_nontext l -> forall P, norm_kids enc f cfg pres cont P (map (inj cfg) l) = flush_text cfg pres cont P ++ l) /\
    (forall s r, l = NS cont s :: r -> forall P,
        norm_kids enc f cfg pres cont P (map (inj cfg) l) = NS cont (collapse cfg pres (P ++ s)) :: r) /\
    norm_kids enc f cfg pres cont [] (map (inj cfg) l) = l.
  Proof.
    induction 1 as [pres cont|pres cont s Hs Hc|pres cont s x l Hs Hc Hx Hl IH|pres cont c s l [Hk Hr] Hl IH
                    |pres cont q a kids l Ha Hkids IHk Hl IH]; intros Hst Hcont0.
    - split; [intros _ P; cbn; now rewrite app_nil_r|]. split; [intros s r H; discriminate H|reflexivity].
    - assert (G2 : forall P, norm_kids enc f cfg pres cont P (map (inj cfg) [NS cont s]) = [NS cont (collapse cfg pres (P ++ s))]).
      { intros P. cbn [map inj]. unfold k0 in Hcont0. rewrite nk_text by exact Hcont0. cbn [norm_kids].
        apply flush_text_normal. intros E. apply app_eq_nil in E as [_ E]. contradiction. }
      split; [intros H; cbn in H; unfold k0 in *; congruence|]. split.
      + intros s0 r [= <- <-] P. apply G2.
      + rewrite G2. cbn [app]. now rewrite Hc.
    - cbn [stable_list] in Hst. apply andb_prop in Hst as [_ Hst].
      destruct (IH Hst Hcont0) as [IH1 _].
      assert (G2 : forall P, norm_kids enc f cfg pres cont P (map (inj cfg) (NS cont s :: x :: l)) =
                             NS cont (collapse cfg pres (P ++ s)) :: x :: l).
      { intros P. change (map (inj cfg) (NS cont s :: x :: l)) with (NStr cont s :: map (inj cfg) (x :: l)).
        unfold k0 in Hcont0. rewrite nk_text by exact Hcont0. rewrite (IH1 Hx).
        rewrite flush_text_normal; [reflexivity|]. intros E. apply app_eq_nil in E as [_ E]. contradiction. }
      split; [intros H; cbn in H; unfold k0 in *; congruence|]. split.
      + intros s0 r [= <- <-] P. apply G2.
      + rewrite G2. cbn [app]. now rewrite Hc.
    - cbn [stable_list] in Hst. apply andb_prop in Hst as [Hst Hst2]. apply andb_prop in Hst as [Hd _].
      destruct (IH Hst2 Hcont0) as (IH1 & IH2 & IH0). unfold k0 in Hk.
      assert (Etail : norm_kids enc f cfg pres cont (trailing c) (map (inj cfg) l) = l).
      { cbn [doctype_ok] in Hd. destruct (trailing_cases c) as [E|E]; rewrite E in Hd |- *; [exact IH0|].
        apply andb_prop in Hd as [Hp Hd]. apply negb_true_iff in Hp. subst pres.
        destruct (doctype_next_inv cont l Hd) as [l2 ->].
        rewrite (IH2 [10%N] l2 eq_refl [nl_]). cbn [app]. unfold nl_. now rewrite collapse_two_newlines. }
      assert (E : forall P, norm_kids enc f cfg pres cont P (map (inj cfg) (NS c s :: l)) = flush_text cfg pres cont P ++ NS c s :: l).
      { intros P. change (map (inj cfg) (NS c s :: l)) with (NStr c s :: map (inj cfg) l).
        rewrite (nk_special pres cont P c s _ c s Hk (Hr s)), Etail. reflexivity. }
      split; [intros _; exact E|]. split; [|now rewrite E].
      intros s0 r [= -> _ _]. unfold k0 in Hcont0. congruence.
    - cbn [stable_list] in Hst. apply andb_prop in Hst as [Hst Hst2]. apply andb_prop in Hst as [_ Hsn].
      rewrite stable_node_tag in Hsn.
      destruct (IH Hst2 Hcont0) as (_ & _ & IH0).
      assert (Hc' : k0 (match assocS q (c_containers cfg) with Some c => c | None => cont end) = true).
      { destruct (assocS q (c_containers cfg)) as [c|] eqn:Ea; [|exact Hcont0]. unfold k0. now rewrite (Hcont _ _ Ea). }
      destruct (IHk Hsn Hc') as (_ & _ & IHk0).
      assert (E : forall P, norm_kids enc f cfg pres cont P (map (inj cfg) (NT q a kids :: l)) =
                            flush_text cfg pres cont P ++ NT q a kids :: l).
      { intros P. cbn [map inj]. rewrite nk_tag, (norm_node_tag enc f cfg). cbn zeta.
        rewrite qname_plain, norm_attrs_inj by assumption. rewrite IHk0, IH0. reflexivity. }
      split; [intros _; exact E|]. split; [intros s0 r H; discriminate H|now rewrite E].
  Qed.

  (* ---- (B) what [norm] produces is a normal list ---- *)
  Lemma wnf_flush pres cont pend : wnf pres cont (flush_text cfg pres cont pend).
  Proof.
    unfold flush_text. destruct pend as [|c0 pend]; [constructor|].
    apply wn_text_last; [apply collapse_nonempty; discriminate|apply collapse_idem].
  Qed.
  Lemma wnf_flush_cons pres cont pend x l : nontext x -> wnf pres cont (x :: l) ->
    wnf pres cont (flush_text cfg pres cont pend ++ x :: l).
  Proof.
    intros Hx Hl. unfold flush_text. destruct pend as [|c0 pend]; [exact Hl|]. cbn [app].
    apply wn_text_cons; [apply collapse_nonempty; discriminate|apply collapse_idem|exact Hx|exact Hl].
  Qed.

  (* the classes a markup declaration can come back with *)
  Lemma read_special_cases c s c' s' : read_special c s = Some (c', s') -> special_ok c'.
  Proof.
    destruct c as [|[[[]|[]|]|[[]|[]|]|]]; cbn [read_special]; intros [= <- <-] || intros H; try discriminate H;
      (split; [reflexivity|intros x; reflexivity]).
  Qed.

  Definition R (t : node) : Prop :=
    match t with
    | NStr _ _ => True
    | NTag p ks => forall pres cont, k0 cont = true -> wnf pres cont (norm_kids enc f cfg pres cont [] ks)
    end.

  Lemma wnf_norm_kids : forall ks, Forall R ks -> forall pres cont, k0 cont = true -> forall pend,
    wnf pres cont (norm_kids enc f cfg pres cont pend ks).
  Proof.
    induction ks as [|k r IH]; intros HR pres cont Hcont0 pend.
    - cbn [norm_kids]. apply wnf_flush.
    - inversion HR as [|? ? Hk HR']; subst. specialize (IH HR' pres cont Hcont0).
      destruct k as [p ks'|c s].
      + rewrite nk_tag, (norm_node_tag enc f cfg). cbn zeta. cbn [app].
        assert (Hc' : k0 (match assocS (qname p) (c_containers cfg) with Some c => c | None => cont end) = true).
        { destruct (assocS (qname p) (c_containers cfg)) as [c|] eqn:Ea; [|exact Hcont0]. unfold k0. now rewrite (Hcont _ _ Ea). }
        apply wnf_flush_cons; [exact I|]. apply wn_tag; [apply norm_attrs_sorted|now apply Hk|apply IH].
      + destruct (output_kind c =? 0)%N eqn:Ek.
        * rewrite nk_text by exact Ek. apply IH.
        * destruct (read_special c s) as [[c' s']|] eqn:Er.
          -- rewrite (nk_special pres cont pend c s r c' s' Ek Er).
             pose proof (read_special_cases c s c' s' Er) as Hok.
             apply wnf_flush_cons; [exact (proj1 Hok)|]. apply wn_special; [exact Hok|apply IH].
          -- rewrite (nk_none pres cont pend c s r Ek Er). apply IH.
  Qed.

  Lemma R_all : forall t, R t.
  Proof.
    induction t as [c s|p ks IH] using node_ind'; [exact I|].
    intros pres cont Hc. now apply (wnf_norm_kids ks IH pres cont Hc []).
  Qed.

  Lemma k0_zero : k0 0%N = true.
  Proof. reflexivity. Qed.

  Lemma wnf_norm t : wnf false 0%N (norm enc f cfg t).
  Proof.
    unfold norm. destruct t as [p ks|c s]; [|constructor]. destruct (g_hidden p).
    - apply (wnf_norm_kids ks (proj2 (Forall_forall R ks) (fun t _ => R_all t)) false 0%N k0_zero []).
    - rewrite (norm_node_tag enc f cfg). cbn zeta. apply wn_tag; [apply norm_attrs_sorted| |constructor].
      apply (R_all (NTag p ks)).
      destruct (assocS (qname p) (c_containers cfg)) as [c|] eqn:Ea; [|exact k0_zero]. unfold k0. now rewrite (Hcont _ _ Ea).
  Qed.

  (* ---- a second round trip changes nothing, where no doctype is followed by text other than its newline ---- *)
  Theorem norm_second_roundtrip_partial t :
    stable_doctypes cfg (norm enc f cfg t) = true ->
    norm enc f cfg (doc cfg (norm enc f cfg t)) = norm enc f cfg t.
  Proof.
    intros Hst. unfold doc. unfold norm at 1. cbn [g_hidden].
    apply (renorm false 0%N _ (wnf_norm t) Hst k0_zero).
  Qed.
End Norm.

Lemma assocS_forallb {X} (p : X -> bool) (l : list (str * X)) n c :
  forallb (fun kv => p (snd kv)) l = true -> assocS n l = Some c -> p c = true.
Proof.
  induction l as [|[k v] l IH]; cbn; [discriminate|]. intros H. apply andb_prop in H as [H1 H2].
  destruct (str_eqb n k); [intros [= <-]; exact H1|now apply IH].
Qed.
Lemma html_containers_text_classes :
  forallb (fun kv => (output_kind (snd kv) =? 0)%N) default_string_containers = true.
Proof. reflexivity. Qed.
(* with the HTML builder's tables *)
Theorem norm_second_roundtrip_partial_html enc f t :
  stable_doctypes html_bcfg (norm enc f html_bcfg t) = true ->
  norm enc f html_bcfg (doc html_bcfg (norm enc f html_bcfg t)) = norm enc f html_bcfg t.
Proof.
  apply norm_second_roundtrip_partial; [|reflexivity]. intros n c H. apply N.eqb_eq.
  exact (assocS_forallb (fun c => (output_kind c =? 0)%N) default_string_containers n c html_containers_text_classes H).
Qed.
