(* C05 — a second round trip changes nothing: [norm] of the re-parsed tree (put back under a
   document root) is the re-parsed tree. *)
From Coq Require Import List NArith ZArith Bool Arith Lia.
From BS Require Import Base.Sexp Base.Types Gen.Tables Gen.Stdlib Gen.T_C05 Model.Attrs Model.Render Model.Reparse
     Model.Heap Model.Edit Model.Build Spec.BuildSpec Spec.RenderSpec Spec.RoundTrip Proofs.RenderProofs
     Proofs.RoundTripProofs.
Import ListNotations.
Local Arguments is_ws : simpl never.
Local Arguments ascii_lower : simpl never.

(* ================================================================ sorting by key *)
Lemma str_leb_cons x a y b :
  str_leb (x :: a) (y :: b) = true <-> (x < y)%N \/ (x = y /\ str_leb a b = true).
Proof.
  cbn [str_leb]. destruct (N.ltb_spec x y) as [H|H]; [split; auto|].
  destruct (N.ltb_spec y x) as [H2|H2].
  - split; [discriminate|]. intros [H3|[H3 _]]; lia.
  - assert (x = y) by lia. split; [auto|]. intros [H3|[_ H3]]; [lia|exact H3].
Qed.
Lemma str_leb_total : forall a b, str_leb a b = false -> str_leb b a = true.
Proof.
  induction a as [|x a IH]; intros [|y b] H; try reflexivity; try discriminate H.
  apply str_leb_cons. destruct (N.lt_trichotomy x y) as [L|[E|G]].
  - exfalso. assert (T : str_leb (x :: a) (y :: b) = true) by (apply str_leb_cons; auto). congruence.
  - right. split; [auto|]. apply IH. destruct (str_leb a b) eqn:E2; [|reflexivity].
    exfalso. assert (T : str_leb (x :: a) (y :: b) = true) by (apply str_leb_cons; auto). congruence.
  - left. exact G.
Qed.
Lemma str_leb_trans : forall a b c, str_leb a b = true -> str_leb b c = true -> str_leb a c = true.
Proof.
  induction a as [|x a IH]; intros [|y b] [|z c] H1 H2; try reflexivity; try discriminate.
  apply str_leb_cons in H1, H2. apply str_leb_cons.
  destruct H1 as [H1|[E1 H1]], H2 as [H2|[E2 H2]].
  - left; lia.
  - left; lia.
  - left; lia.
  - right. split; [lia|]. eapply IH; eassumption.
Qed.

Section Sorting.
  Context {X : Type}.
  Definition kle (a b : str * X) : Prop := str_leb (fst a) (fst b) = true.
  Inductive sk : list (str * X) -> Prop :=
  | sk_nil : sk []
  | sk_cons x l : Forall (kle x) l -> sk l -> sk (x :: l).

  Lemma insert_sorted_sk kv l : sk l -> sk (insert_sorted kv l).
  Proof.
    induction 1 as [|a l Ha Hl IH]; cbn; [repeat constructor|].
    destruct (str_leb (fst a) (fst kv)) eqn:E.
    - constructor; [|exact IH]. clear IH Hl.
      assert (H : forall x, In x (insert_sorted kv l) -> x = kv \/ In x l) by (intros x; apply insert_sorted_in).
      apply Forall_forall. intros x Hx. destruct (H x Hx) as [->|Hin]; [exact E|].
      rewrite Forall_forall in Ha. now apply Ha.
    - constructor; [|now constructor]. apply str_leb_total in E.
      constructor; [exact E|]. eapply Forall_impl; [|exact Ha]. intros y Hy. unfold kle in *. eapply str_leb_trans; eassumption.
  Qed.
  Lemma sort_by_key_sk (l : list (str * X)) : sk (sort_by_key l).
  Proof.
    unfold sort_by_key. assert (H : forall acc, sk acc -> sk (fold_left (fun acc kv => insert_sorted kv acc) l acc)).
    { induction l as [|a l IH]; intros acc Hacc; [exact Hacc|]. cbn. apply IH. now apply insert_sorted_sk. }
    apply H. constructor.
  Qed.
  Lemma insert_sorted_last kv acc : Forall (fun a => kle a kv) acc -> insert_sorted kv acc = acc ++ [kv].
  Proof.
    induction 1 as [|a acc Ha _ IH]; [reflexivity|]. cbn. unfold kle in Ha. now rewrite Ha, IH.
  Qed.
  Lemma sk_app_inv a b : sk (a ++ b) -> Forall (fun x => Forall (kle x) b) a.
  Proof.
    induction a as [|x a IH]; intros H; [constructor|]. inversion H as [|? ? Hx Hs]; subst.
    constructor; [|now apply IH]. apply Forall_app in Hx. tauto.
  Qed.
  Lemma sort_sorted (l : list (str * X)) : sk l -> sort_by_key l = l.
  Proof.
    intros Hs. unfold sort_by_key.
    assert (H : forall l2 acc, sk (acc ++ l2) -> fold_left (fun acc kv => insert_sorted kv acc) l2 acc = acc ++ l2).
    { induction l2 as [|a l2 IH]; intros acc Hk; [now rewrite app_nil_r|]. cbn.
      rewrite insert_sorted_last.
      - rewrite IH; [now rewrite <- app_assoc|]. now rewrite <- app_assoc.
      - apply sk_app_inv in Hk. eapply Forall_impl; [|exact Hk]. intros x Hx. now inversion Hx. }
    apply (H l []). exact Hs.
  Qed.
End Sorting.

Lemma sk_map {X Y} (h : str * X -> str * Y) l : (forall kv, fst (h kv) = fst kv) -> sk l -> sk (map h l).
Proof.
  intros Hh. induction 1 as [|x l Hx Hl IH]; [constructor|]. cbn. constructor; [|exact IH].
  apply Forall_forall. intros y Hy. apply in_map_iff in Hy as [y0 [<- Hy0]]. unfold kle. rewrite !Hh.
  rewrite Forall_forall in Hx. now apply Hx.
Qed.

(* ================================================================ normal forms *)
Section Norm.
  Variables (enc : bool) (f : fmt) (cfg : bconfig).
  Hypothesis Hcont : forall n c, assocS n (c_containers cfg) = Some c -> output_kind c = 0%N.

  Definition k0 (c : N) : bool := (output_kind c =? 0)%N.

  Lemma collapse_idem pres s : collapse cfg pres (collapse cfg pres s) = collapse cfg pres s.
  Proof.
    unfold collapse. destruct (negb pres && all_in (c_spaces cfg) s) eqn:E; [|now rewrite E].
    apply andb_prop in E as [Ep Ea]. rewrite Ep. cbn [andb].
    destruct (memN 10 s) eqn:Em.
    - assert (H : all_in (c_spaces cfg) [10%N] = true).
      { unfold all_in in *. cbn [forallb]. rewrite andb_true_r. rewrite forallb_forall in Ea.
        unfold memN in Em. apply existsb_exists in Em as [x [Hx Hx2]]. apply N.eqb_eq in Hx2. subst x. now apply Ea. }
      rewrite H. reflexivity.
    - destruct (all_in (c_spaces cfg) [32%N]); reflexivity.
  Qed.
  Lemma collapse_nonempty pres s : s <> [] -> collapse cfg pres s <> [].
  Proof. intros H. unfold collapse. destruct (_ && _); [destruct (memN 10 s); discriminate|exact H]. Qed.
  Lemma collapse_nl pres s : exists s2, collapse cfg pres (10%N :: s) = 10%N :: s2.
  Proof.
    unfold collapse. destruct (_ && _); [|eexists; reflexivity].
    unfold memN. cbn [existsb N.eqb Pos.eqb orb]. eexists; reflexivity.
  Qed.

  (* what a list of re-parsed siblings looks like *)
  Definition nontext (x : nnode) : Prop := match x with NS c _ => k0 c = false | NT _ _ _ => True end.
  Definition special_ok (c : N) (s : str) : Prop :=
    k0 c = false /\ (forall x, read_special c x = Some (c, x)).
  Definition attrs_ok (a : list (str * str)) : Prop := sk a.

  Inductive nfl : bool -> N -> list nnode -> Prop :=
  | nf_nil pres cont : nfl pres cont []
  | nf_text_last pres cont s : s <> [] -> collapse cfg pres s = s -> nfl pres cont [NS cont s]
  | nf_text_cons pres cont s x l : s <> [] -> collapse cfg pres s = s -> nontext x -> nfl pres cont (x :: l) ->
      nfl pres cont (NS cont s :: x :: l)
  | nf_special pres cont c s l : special_ok c s -> (output_kind c =? 2)%N = false -> collapse cfg pres s = s ->
      nfl pres cont l -> nfl pres cont (NS c s :: l)
  | nf_doctype pres cont c s s2 l : special_ok c s -> collapse cfg pres s = s ->
      nfl pres cont (NS cont (10%N :: s2) :: l) -> nfl pres cont (NS c s :: NS cont (10%N :: s2) :: l)
  | nf_tag pres cont q a kids l : attrs_ok a ->
      nfl (pres || memS q (c_pw cfg)) (match assocS q (c_containers cfg) with Some c => c | None => cont end) kids ->
      nfl pres cont l -> nfl pres cont (NT q a kids :: l).

  Definition head_nontext (l : list nnode) : Prop := match l with [] => True | x :: _ => nontext x end.

  (* ---- attributes of a re-parsed tag render and read back as themselves ---- *)
  Lemma norm_attrs_inj q a void pw : attrs_ok a ->
    norm_attrs enc f (mktag q None (map (fun kv => (fst kv, RStr (snd kv))) a) false void pw) = a.
  Proof.
    intros Ha. unfold norm_attrs, attributes. cbn [g_attrs]. rewrite map_map. cbn [fst snd].
    rewrite sort_sorted.
    - rewrite map_map. rewrite <- (map_id a) at 2. apply map_ext. intros [k v]. cbn [fst snd].
      destruct (f_empty_bool f); cbn [andb]; [|reflexivity]. destruct v; reflexivity.
    - apply sk_map; [intros kv; reflexivity|exact Ha].
  Qed.
  Lemma norm_attrs_sorted p : attrs_ok (norm_attrs enc f p).
  Proof. unfold attrs_ok, norm_attrs. apply sk_map; [intros kv; reflexivity|apply sort_by_key_sk]. Qed.

  Lemma qname_plain q a h ce pw : qname (mktag q None a h ce pw) = q.
  Proof. reflexivity. Qed.

  (* ---- (A) re-normalising a normal list gives it back ---- *)
  Lemma flush_text_normal pres cont s : s <> [] -> collapse cfg pres s = s -> flush_text cfg pres cont s = [NS cont s].
  Proof. intros Hs Hc. unfold flush_text. destruct s; [contradiction|]. now rewrite Hc. Qed.

  Lemma nk_text pres cont P c s r : (output_kind c =? 0)%N = true ->
    norm_kids enc f cfg pres cont P (NStr c s :: r) = norm_kids enc f cfg pres cont (P ++ s) r.
  Proof. intros H. cbn [norm_kids]. now rewrite H. Qed.
  Lemma nk_special pres cont P c s r c' s' : (output_kind c =? 0)%N = false -> read_special c s = Some (c', s') ->
    norm_kids enc f cfg pres cont P (NStr c s :: r) =
    flush_text cfg pres cont P ++ NS c' (collapse cfg pres s') ::
    norm_kids enc f cfg pres cont (if (output_kind c =? 2)%N && negb (starts_nl r) then [nl_] else []) r.
  Proof. intros H1 H2. cbn [norm_kids]. now rewrite H1, H2. Qed.
  Lemma nk_none pres cont P c s r : (output_kind c =? 0)%N = false -> read_special c s = None ->
    norm_kids enc f cfg pres cont P (NStr c s :: r) = norm_kids enc f cfg pres cont P r.
  Proof. intros H1 H2. cbn [norm_kids]. now rewrite H1, H2. Qed.
  Lemma nk_tag pres cont P p ks r :
    norm_kids enc f cfg pres cont P (NTag p ks :: r) =
    flush_text cfg pres cont P ++ norm_node enc f cfg pres cont (NTag p ks) ++ norm_kids enc f cfg pres cont [] r.
  Proof. reflexivity. Qed.

  Lemma renorm : forall pres cont l, nfl pres cont l -> k0 cont = true ->
    (head_nontext l -> forall P, norm_kids enc f cfg pres cont P (map (inj cfg) l) = flush_text cfg pres cont P ++ l) /\
    norm_kids enc f cfg pres cont [] (map (inj cfg) l) = l.
  Proof.
    induction 1 as [pres cont|pres cont s Hs Hc|pres cont s x l Hs Hc Hx Hl IH|pres cont c s l [Hk Hr] Hk2 Hc Hl IH
                    |pres cont c s s2 l [Hk Hr] Hc Hl IH|pres cont q a kids l Ha Hkids IHk Hl IH]; intros Hcont0.
    - split; [intros _ P; cbn; now rewrite app_nil_r|reflexivity].
    - split; [intros H; cbn in H; unfold k0 in *; congruence|].
      cbn [map inj]. unfold k0 in Hcont0. rewrite nk_text by exact Hcont0. cbn [app norm_kids]. now apply flush_text_normal.
    - destruct (IH Hcont0) as [IH1 _]. split; [intros H; cbn in H; unfold k0 in *; congruence|].
      change (map (inj cfg) (NS cont s :: x :: l)) with (NStr cont s :: map (inj cfg) (x :: l)).
      unfold k0 in Hcont0. rewrite nk_text by exact Hcont0. cbn [app]. rewrite (IH1 Hx).
      now rewrite flush_text_normal.
    - destruct (IH Hcont0) as [_ IH2]. unfold k0 in Hk.
      assert (E : forall P, norm_kids enc f cfg pres cont P (map (inj cfg) (NS c s :: l)) = flush_text cfg pres cont P ++ NS c s :: l).
      { intros P. change (map (inj cfg) (NS c s :: l)) with (NStr c s :: map (inj cfg) l).
        rewrite (nk_special pres cont P c s _ c s Hk (Hr s)), Hk2, Hc. cbn [andb]. now rewrite IH2. }
      split; [intros _; exact E|]. now rewrite E.
    - destruct (IH Hcont0) as [_ IH2]. unfold k0 in Hk.
      assert (E : forall P, norm_kids enc f cfg pres cont P (map (inj cfg) (NS c s :: NS cont (10%N :: s2) :: l)) =
                            flush_text cfg pres cont P ++ NS c s :: NS cont (10%N :: s2) :: l).
      { intros P. change (map (inj cfg) (NS c s :: NS cont (10%N :: s2) :: l)) with (NStr c s :: map (inj cfg) (NS cont (10%N :: s2) :: l)).
        rewrite (nk_special pres cont P c s _ c s Hk (Hr s)), Hc.
        assert (Es : starts_nl (map (inj cfg) (NS cont (10%N :: s2) :: l)) = true).
        { cbn [map inj starts_nl]. unfold preformatted. unfold k0 in Hcont0. now rewrite Hcont0. }
        rewrite Es. cbn [negb]. rewrite andb_false_r. now rewrite IH2. }
      split; [intros _; exact E|]. now rewrite E.
    - destruct (IH Hcont0) as [_ IH2].
      assert (Hc' : k0 (match assocS q (c_containers cfg) with Some c => c | None => cont end) = true).
      { destruct (assocS q (c_containers cfg)) as [c|] eqn:Ea; [|exact Hcont0]. unfold k0. now rewrite (Hcont _ _ Ea). }
      destruct (IHk Hc') as [_ IHk2].
      assert (E : forall P, norm_kids enc f cfg pres cont P (map (inj cfg) (NT q a kids :: l)) =
                            flush_text cfg pres cont P ++ NT q a kids :: l).
      { intros P. cbn [map inj]. rewrite nk_tag, (norm_node_tag enc f cfg). cbn zeta.
        rewrite qname_plain, norm_attrs_inj by assumption. rewrite IHk2, IH2. reflexivity. }
      split; [intros _; exact E|]. now rewrite E.
  Qed.

  (* ---- (B) what [norm] produces is a normal list ---- *)
  Lemma nfl_flush pres cont pend : nfl pres cont (flush_text cfg pres cont pend).
  Proof.
    unfold flush_text. destruct pend as [|c0 pend]; [constructor|].
    apply nf_text_last; [apply collapse_nonempty; discriminate|apply collapse_idem].
  Qed.
  Lemma nfl_flush_cons pres cont pend x l : nontext x -> nfl pres cont (x :: l) ->
    nfl pres cont (flush_text cfg pres cont pend ++ x :: l).
  Proof.
    intros Hx Hl. unfold flush_text. destruct pend as [|c0 pend]; [exact Hl|]. cbn [app].
    apply nf_text_cons; [apply collapse_nonempty; discriminate|apply collapse_idem|exact Hx|exact Hl].
  Qed.
  Lemma flush_starts pres cont s0 : exists s2, flush_text cfg pres cont (10%N :: s0) = [NS cont (10%N :: s2)].
  Proof. unfold flush_text. destruct (collapse_nl pres s0) as [s2 E]. rewrite E. now exists s2. Qed.

  Definition starts10 (cont : N) (out : list nnode) : Prop := exists s2 rest, out = NS cont (10%N :: s2) :: rest.

  (* the classes a markup declaration can come back with *)
  Lemma read_special_cases c s c' s' : read_special c s = Some (c', s') ->
    k0 c' = false /\ (forall x, read_special c' x = Some (c', x)) /\
    ((output_kind c =? 2)%N = true /\ c' = 6%N \/ (output_kind c =? 2)%N = false /\ (output_kind c' =? 2)%N = false).
  Proof.
    destruct c as [|[[[]|[]|]|[[]|[]|]|]]; cbn [read_special]; intros [= <- <-] || intros H; try discriminate H;
      (split; [reflexivity|split; [intros x; reflexivity|]]); (left; split; reflexivity) || (right; split; reflexivity).
  Qed.

  Definition R (t : node) : Prop :=
    match t with
    | NStr _ _ => True
    | NTag p ks => forall pres cont, k0 cont = true ->
        nfl pres cont (norm_kids enc f cfg pres cont [] ks)
    end.

  Lemma starts_nl_inv ks : starts_nl ks = true ->
    exists c s3 r, ks = NStr c (10%N :: s3) :: r /\ (output_kind c =? 0)%N = true.
  Proof.
    destruct ks as [|[p k|c [|[|x] s]] r]; cbn [starts_nl]; try discriminate.
    destruct x as [x|x|]; try discriminate. destruct x as [x|x|]; try discriminate. destruct x as [x|x|]; try discriminate.
    destruct x as [x|x|]; try discriminate.
    unfold preformatted. intros H. apply negb_true_iff, negb_false_iff in H. exists c, s, r. split; [reflexivity|exact H].
  Qed.

  Lemma nfl_norm_kids : forall ks, Forall R ks -> forall pres cont, k0 cont = true -> forall pend,
    nfl pres cont (norm_kids enc f cfg pres cont pend ks) /\
    (forall s0, pend = 10%N :: s0 -> starts10 cont (norm_kids enc f cfg pres cont pend ks)) /\
    (pend = [] -> starts_nl ks = true -> starts10 cont (norm_kids enc f cfg pres cont pend ks)).
  Proof.
    induction ks as [|k r IH]; intros HR pres cont Hcont0 pend.
    - cbn [norm_kids]. split; [apply nfl_flush|]. split; [|discriminate].
      intros s0 ->. destruct (flush_starts pres cont s0) as [s2 E]. rewrite E. now exists s2, [].
    - inversion HR as [|? ? Hk HR']; subst. specialize (IH HR' pres cont Hcont0).
      destruct k as [p ks'|c s].
      + rewrite nk_tag, (norm_node_tag enc f cfg). cbn zeta. cbn [app].
        assert (Hc' : k0 (match assocS (qname p) (c_containers cfg) with Some c => c | None => cont end) = true).
        { destruct (assocS (qname p) (c_containers cfg)) as [c|] eqn:Ea; [|exact Hcont0]. unfold k0. now rewrite (Hcont _ _ Ea). }
        destruct (IH []) as [I1 _]. split; [|split].
        * apply nfl_flush_cons; [exact I|]. apply nf_tag; [apply norm_attrs_sorted|now apply Hk|exact I1].
        * intros s0 ->. destruct (flush_starts pres cont s0) as [s2 E]. rewrite E. cbn [app]. eexists _, _. reflexivity.
        * intros _ H. discriminate H.
      + destruct (output_kind c =? 0)%N eqn:Ek.
        * rewrite nk_text by exact Ek. destruct (IH (pend ++ s)) as (I1 & I2 & _). split; [exact I1|]. split.
          -- intros s0 ->. apply (I2 (s0 ++ s)). reflexivity.
          -- intros -> H. apply starts_nl_inv in H as (c2 & s3 & r2 & [= -> -> ->] & _). apply (I2 s3). reflexivity.
        * assert (Hns : starts_nl (NStr c s :: r) = false).
          { destruct s as [|x s]; [reflexivity|]. cbn [starts_nl]. unfold preformatted. rewrite Ek.
            destruct x as [|[[[[]|[]|]|[[]|[]|]|]|[[[]|[]|]|[[]|[]|]|]|]]; reflexivity. }
          destruct (read_special c s) as [[c' s']|] eqn:Er.
          -- rewrite (nk_special pres cont pend c s r c' s' Ek Er).
             destruct (read_special_cases c s c' s' Er) as (Hk0 & Hfix & Hkind).
             set (pend' := if (output_kind c =? 2)%N && negb (starts_nl r) then [nl_] else []).
             destruct (IH pend') as (I1 & I2 & I3).
             assert (Hn : nfl pres cont (NS c' (collapse cfg pres s') :: norm_kids enc f cfg pres cont pend' r)).
             { destruct Hkind as [[H2 ->]|[H2 H2']].
               - assert (S10 : starts10 cont (norm_kids enc f cfg pres cont pend' r)).
                 { destruct (starts_nl r) eqn:Es.
                   - apply I3; [unfold pend'; rewrite H2; reflexivity|reflexivity].
                   - apply (I2 []). unfold pend'. rewrite H2. reflexivity. }
                 destruct S10 as (s2 & rest & E). rewrite E in I1 |- *.
                 apply nf_doctype; [split; [exact Hk0|exact Hfix]|apply collapse_idem|exact I1].
               - apply nf_special; [split; [exact Hk0|exact Hfix]|exact H2'|apply collapse_idem|exact I1]. }
             split; [apply nfl_flush_cons; [exact Hk0|exact Hn]|]. split.
             ++ intros s0 ->. destruct (flush_starts pres cont s0) as [s2 E]. rewrite E. cbn [app]. eexists _, _. reflexivity.
             ++ intros _ H. rewrite Hns in H. discriminate H.
          -- rewrite (nk_none pres cont pend c s r Ek Er). destruct (IH pend) as (I1 & I2 & _). split; [exact I1|]. split; [exact I2|].
             intros _ H. rewrite Hns in H. discriminate H.
  Qed.

  Lemma R_all : forall t, R t.
  Proof.
    induction t as [c s|p ks IH] using node_ind'; [exact I|].
    intros pres cont Hc. now apply (nfl_norm_kids ks IH pres cont Hc []).
  Qed.

  Lemma k0_zero : k0 0%N = true.
  Proof. reflexivity. Qed.

  (* ---- a second round trip changes nothing ---- *)
  Theorem norm_second_roundtrip t : norm enc f cfg (doc cfg (norm enc f cfg t)) = norm enc f cfg t.
  Proof.
    assert (Hn : nfl false 0%N (norm enc f cfg t)).
    { unfold norm. destruct t as [p ks|c s]; [|constructor]. destruct (g_hidden p).
      - apply (nfl_norm_kids ks (proj2 (Forall_forall R ks) (fun t _ => R_all t)) false 0%N k0_zero []).
      - rewrite (norm_node_tag enc f cfg). cbn zeta. apply nf_tag; [apply norm_attrs_sorted| |constructor].
        apply (R_all (NTag p ks)).
        destruct (assocS (qname p) (c_containers cfg)) as [c|] eqn:Ea; [|exact k0_zero]. unfold k0. now rewrite (Hcont _ _ Ea). }
    unfold doc. unfold norm at 1. cbn [g_hidden].
    apply (renorm false 0%N _ Hn k0_zero).
  Qed.
End Norm.

Lemma assocS_forallb {X} (p : X -> bool) (l : list (str * X)) n c :
  forallb (fun kv => p (snd kv)) l = true -> assocS n l = Some c -> p c = true.
Proof.
  induction l as [|[k v] l IH]; cbn; [discriminate|]. intros H. apply andb_prop in H as [H1 H2].
  destruct (str_eqb n k); [intros [= <-]; exact H1|now apply IH].
Qed.
Lemma html_containers_text_classes :
  forallb (fun kv => (output_kind (snd kv) =? 0)%N) default_string_containers = true.
Proof. reflexivity. Qed.
(* with the HTML builder's tables: nothing assumed *)
Theorem norm_second_roundtrip_html enc f t :
  norm enc f html_bcfg (doc html_bcfg (norm enc f html_bcfg t)) = norm enc f html_bcfg t.
Proof.
  apply norm_second_roundtrip. intros n c H. apply N.eqb_eq.
  exact (assocS_forallb (fun c => (output_kind c =? 0)%N) default_string_containers n c html_containers_text_classes H).
Qed.
