(* C09 — table obligations: facts about the tables regenerated from the code (Gen/T_C09.v, Gen/Entities.v),
   decided by evaluation inside Coq. A wrong dictionary entry, a particle the dictionary or a reader does not
   know, a missing particle for '<', '>' or '&', two alternatives that can match at the same place, or a
   changed pattern text breaks one of these lemmas. *)
From Coq Require Import List NArith Bool Arith.
From BS Require Import Base.Sexp Base.Types Base.Reader Gen.Entities Gen.T_C09
     Model.SmartQuotes Model.EntitySubst Spec.EntitiesSpec.
Import ListNotations.
Open Scope N_scope.

(* a character that can neither continue nor start a character reference *)
Definition inert (c : N) : bool :=
  negb (is_namechar c || (c =? c_semi) || (c =? c_hash) || (c =? c_amp)).


Definition n_quot : str := [113; 117; 111; 116].
Definition n_amp : str := [97; 109; 112].
Definition n_lt : str := [108; 116].
Definition n_gt : str := [103; 116].

(* oracle/table facts about the four names the quoting and the minimal substitution write *)
Lemma known_quot : known_ref n_quot [c_dq].
Proof. repeat split; vm_compute; reflexivity. Qed.
Lemma known_amp : known_ref n_amp [c_amp].
Proof. repeat split; vm_compute; reflexivity. Qed.
Lemma known_lt : known_ref n_lt [c_lt].
Proof. repeat split; vm_compute; reflexivity. Qed.
Lemma known_gt : known_ref n_gt [c_gt].
Proof. repeat split; vm_compute; reflexivity. Qed.


(* table obligations *)
Lemma xml_class_tbl : ampersand_or_bracket_chars = [c_lt; c_gt; c_amp].
Proof. reflexivity. Qed.

(* only the entries the regex can reach (the two quote characters are in the dictionary but never matched) *)
Lemma xml_entities_tbl :
  assocS [c_amp] character_to_xml_entity = Some n_amp /\
  assocS [c_lt] character_to_xml_entity = Some n_lt /\
  assocS [c_gt] character_to_xml_entity = Some n_gt.
Proof. repeat split; reflexivity. Qed.


(* ---- per-particle table obligations ---- *)
Definition opt_str_eqb (a : option str) (b : str) : bool :=
  match a with Some x => str_eqb x b | None => false end.

(* the dictionary has the particle's sequence, under a name both readers resolve to that very sequence *)
Definition particle_entity_ok (p : particle) : bool :=
  match fst p with
  | [] => false
  | _ :: _ =>
      match assocS (fst p) character_to_html_entity with
      | Some name =>
          good_name name && opt_str_eqb (ent_text name) (fst p)
          && opt_str_eqb (html5_lookup (name ++ [c_semi])) (fst p)
      | None => false
      end
  end.

(* characters of a particle never continue or start a reference *)
Definition particle_inert (p : particle) : bool :=
  match fst p with
  | [] => false
  | h :: t => inert h && forallb (fun c => negb (c =? c_amp)) t
  end.

Lemma particles_amp_entity_tbl : forallb particle_entity_ok html_particles_amp = true.
Proof. vm_compute. reflexivity. Qed.

Lemma particles_entity_tbl : forallb particle_entity_ok html_particles = true.
Proof. vm_compute. reflexivity. Qed.

Lemma particles_inert_tbl : forallb particle_inert html_particles = true.
Proof. vm_compute. reflexivity. Qed.


(* ---- coverage: the characters that must never be written raw are matched wherever they stand ---- *)
Definition is_nil {X} (l : list X) : bool := match l with [] => true | _ => false end.

Definition covered (ps : list particle) (c : N) : bool :=
  existsb (fun p =>
    str_eqb (fst p) [c] &&
    forallb (fun d => existsb (fun q => str_eqb (fst q) [c; d] && is_nil (snd q)) ps) (snd p)) ps.

Lemma covered_amp_tbl :
  covered html_particles_amp c_amp = true /\ covered html_particles_amp c_lt = true /\
  covered html_particles_amp c_gt = true.
Proof. repeat split; vm_compute; reflexivity. Qed.

Lemma covered_tbl : covered html_particles c_lt = true /\ covered html_particles c_gt = true.
Proof. repeat split; vm_compute; reflexivity. Qed.


(* ---- the alternatives are pairwise exclusive: no two particles can match at the same place, so the
   order of the alternation (it is built from a Python set) cannot matter ---- *)
Definition overlap (p q : particle) : bool :=
  match prefix_rest (fst p) (fst q) with
  | Some [] => true
  | Some (d :: _) => negb (memN d (snd p))
  | None => false
  end.

Fixpoint pairwise_excl (ps : list particle) : bool :=
  match ps with
  | [] => true
  | p :: ps' => forallb (fun q => negb (overlap p q || overlap q p)) ps' && pairwise_excl ps'
  end.

Lemma particles_amp_exclusive_tbl : pairwise_excl html_particles_amp = true.
Proof. vm_compute. reflexivity. Qed.

Lemma particles_exclusive_tbl : pairwise_excl html_particles = true.
Proof. vm_compute. reflexivity. Qed.

(* ---- the two alternations differ by exactly the particle "&" ---- *)
Definition particle_eqb (p q : particle) : bool := str_eqb (fst p) (fst q) && str_eqb (snd p) (snd q).
Definition memP (p : particle) (ps : list particle) : bool := existsb (particle_eqb p) ps.

Lemma particles_amp_is_plus_amp_tbl :
  forallb (fun p => memP p html_particles || particle_eqb p ([c_amp], [])) html_particles_amp = true /\
  forallb (fun p => memP p html_particles_amp) html_particles = true /\
  memP ([c_amp], []) html_particles_amp = true /\ memP ([c_amp], []) html_particles = false.
Proof. repeat split; vm_compute; reflexivity. Qed.

(* ---- ANY_ENTITY_RE: the scanner [any_entity_match] was aligned with exactly this pattern and these flags ---- *)
Lemma any_entity_pattern_tbl :
  any_entity_pattern =
  [38; 40; 35; 92; 100; 43; 124; 35; 120; 91; 48; 45; 57; 97; 45; 102; 65; 45; 70; 93; 43; 124; 92; 119; 43; 41; 59]
  /\ any_entity_flags = 34.
Proof. split; reflexivity. Qed.

(* oracle facts about re's classes: the characters with a role in references are not word characters or digits *)
Lemma word_class_tbl :
  is_w c_amp = false /\ is_w c_semi = false /\ is_w c_hash = false /\ is_ud c_amp = false /\ is_ud c_semi = false.
Proof. repeat split; vm_compute; reflexivity. Qed.

(* ---- the registered formatter names stand for the documented substitutions ---- *)
Definition f_minimal : str := [109; 105; 110; 105; 109; 97; 108].
Definition f_html : str := [104; 116; 109; 108].
Definition f_html5 : str := [104; 116; 109; 108; 53].

Lemma formatter_registry_tbl :
  registry_esub false (Some f_minimal) = Some EsXml /\
  registry_esub false (Some f_html) = Some EsHtml /\
  registry_esub false (Some f_html5) = Some EsHtml5 /\
  registry_esub false None = Some EsNone /\
  registry_esub true (Some f_minimal) = Some EsXml /\
  registry_esub true (Some f_html) = Some EsHtml /\
  registry_esub true None = Some EsNone.
Proof. repeat split; reflexivity. Qed.
