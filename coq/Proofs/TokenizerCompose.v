(* C18 / C04 — the tokenizer model composed with the adapter model: string-level statements. *)
From Coq Require Import List NArith Bool Arith Lia Sorted.
From BS Require Import Base.Sexp Base.Types Base.Reader Model.Attrs Model.Build Model.Adapter Model.Pos
                       Proofs.PosProofs Proofs.AdapterProofs Model.Tokenizer Model.TokParse Proofs.TokenizerProofs.
Import ListNotations.
Open Scope N_scope.

Section Unesc.
Variable unesc : str -> str.

(* ---- a property of the callbacks of every consumed slice ---- *)
Lemma go_evs_local (Q : list tev -> Prop) :
  (forall x, Q [TData x]) ->
  (forall endf cd r k evs cd', dispatch unesc endf cd r = ACont k evs cd' -> Q evs) ->
  (forall endf cd r k evs, dispatch unesc endf cd r = AStop k evs -> Q evs) ->
  forall fuel endf cd off p s its g,
  go unesc fuel endf cd off p s = (its, g) -> Forall (fun it => Q (it_evs it)) its.
Proof.
  intros QD QC QS. induction fuel as [|f IH]; intros endf cd off p s its g H.
  - destruct s; cbn in H; inversion H; constructor.
  - destruct s as [|c0 s0]; [cbn in H; inversion H; constructor|].
    cbn [go] in H. remember (c0 :: s0) as s eqn:Es.
    destruct (find_interesting cd s) as [[txt r]|] eqn:FI; [|inversion H; constructor].
    assert (Forall (fun it => Q (it_evs it)) (item_of off p txt [TData txt])) as T1
      by (apply Forall_item_of; apply QD).
    destruct r as [|c1 r1]; [inversion H; subst; exact T1|].
    remember (c1 :: r1) as r eqn:Er.
    destruct (dispatch unesc endf cd r) as [k evs cd'|k evs|] eqn:D.
    + destruct k as [|k']; [inversion H; subst; exact T1|].
      destruct (go unesc f endf cd' (off + length txt + length (firstn (S k') r))%nat
                   (updatepos (updatepos p txt) (firstn (S k') r)) (skipn (S k') r)) as [its' g'] eqn:G.
      inversion H; subst its g. apply Forall_app. split; [exact T1|]. apply Forall_app. split.
      * apply Forall_item_of. cbn. eapply QC. exact D.
      * eapply IH. exact G.
    + inversion H; subst its g. apply Forall_app. split; [exact T1|].
      apply Forall_item_of. cbn. eapply QS. exact D.
    + inversion H; subst. exact T1.
Qed.

Lemma tokenize_evs_local (Q : list tev -> Prop) :
  (forall x, Q [TData x]) ->
  (forall endf cd r k evs cd', dispatch unesc endf cd r = ACont k evs cd' -> Q evs) ->
  (forall endf cd r k evs, dispatch unesc endf cd r = AStop k evs -> Q evs) ->
  forall text its g, tokenize unesc text = (its, g) -> Forall (fun it => Q (it_evs it)) its.
Proof.
  intros QD QC QS text its g. unfold tokenize.
  destruct (go unesc (S (length text)) false None 0 start_pos text) as [i1 g1] eqn:G1.
  pose proof (go_evs_local Q QD QC QS _ _ _ _ _ _ _ _ G1) as S1.
  destruct (gs_status g1); try (intros H; inversion H; subst; exact S1).
  destruct (go unesc (S (length (gs_rest g1))) true (gs_cd g1) (gs_off g1) (gs_pos g1) (gs_rest g1)) as [i2 g2] eqn:G2.
  pose proof (go_evs_local Q QD QC QS _ _ _ _ _ _ _ _ G2) as S2.
  destruct (flush g2) as [i3 g3] eqn:F. intros H; inversion H; subst.
  apply Forall_app. split; [exact S1|]. apply Forall_app. split; [exact S2|].
  unfold flush in F. break_match F; inversion F; subst; try constructor; [apply QD|constructor].
Qed.

(* every slice fires at most one callback *)
Lemma parse_bogus_comment_le1 s k evs u : parse_bogus_comment s = PTo k evs u -> (length evs <= 1)%nat.
Proof. unfold parse_bogus_comment. intros H. break_match H; inversion H; cbn; lia. Qed.
Lemma parse_comment_le1 s k evs u : parse_comment s = PTo k evs u -> (length evs <= 1)%nat.
Proof. unfold parse_comment. intros H. break_match H; inversion H; cbn; lia. Qed.
Lemma parse_marked_section_le1 s k evs u : parse_marked_section s = PTo k evs u -> (length evs <= 1)%nat.
Proof. unfold parse_marked_section. intros H. break_match H; inversion H; cbn; lia. Qed.
Lemma parse_pi_le1 s k evs u : parse_pi s = PTo k evs u -> (length evs <= 1)%nat.
Proof. unfold parse_pi. intros H. break_match H; inversion H; cbn; lia. Qed.
Lemma parse_html_declaration_le1 s k evs u : parse_html_declaration s = PTo k evs u -> (length evs <= 1)%nat.
Proof.
  unfold parse_html_declaration. intros H.
  destruct (has_prefix s_comment_open s); [now apply parse_comment_le1 in H|].
  destruct (has_prefix s_marked_open s); [now apply parse_marked_section_le1 in H|].
  destruct (str_eqb (ascii_lower (firstn 9 s)) s_doctype_open); [|now apply parse_bogus_comment_le1 in H].
  break_match H; inversion H; cbn; lia.
Qed.
Lemma parse_starttag_le1 s k evs u : parse_starttag unesc s = PTo k evs u -> (length evs <= 1)%nat.
Proof. unfold parse_starttag. intros H. break_match H; inversion H; cbn; lia. Qed.
Lemma parse_endtag_le1 cd s k evs u : parse_endtag cd s = PTo k evs u -> (length evs <= 1)%nat.
Proof.
  unfold parse_endtag. intros H. break_match H; try (inversion H; cbn; lia);
    eapply parse_bogus_comment_le1; eauto.
Qed.
Lemma of_pres_le1 endf cd r p k evs cd' :
  (forall k evs u, p = PTo k evs u -> (length evs <= 1)%nat) -> of_pres endf cd r p = ACont k evs cd' -> (length evs <= 1)%nat.
Proof.
  intros Hp. unfold of_pres, fallback. destruct p as [| |k0 evs0 u0].
  - destruct endf; [|discriminate]. intros H. inversion H; cbn; lia.
  - discriminate.
  - intros H. inversion H; subst. eapply Hp. reflexivity.
Qed.
Lemma dispatch_le1 endf cd r k evs cd' : dispatch unesc endf cd r = ACont k evs cd' -> (length evs <= 1)%nat.
Proof.
  unfold dispatch. destruct r as [|c r1]; [discriminate|].
  destruct (c =? 60).
  - destruct r1 as [|d r2]; [discriminate|].
    destruct (is_alpha d); [apply of_pres_le1; intros; eapply parse_starttag_le1; eassumption|].
    destruct (d =? 47); [apply of_pres_le1; intros; eapply parse_endtag_le1; eassumption|].
    destruct (has_prefix s_comment_open (c :: d :: r2)); [apply of_pres_le1; intros; eapply parse_comment_le1; eassumption|].
    destruct (d =? 63); [apply of_pres_le1; intros; eapply parse_pi_le1; eassumption|].
    destruct (d =? 33); [apply of_pres_le1; intros; eapply parse_html_declaration_le1; eassumption|].
    intros H; inversion H; cbn; lia.
  - destruct (c =? 38); [|discriminate].
    destruct r1 as [|d r2]; [discriminate|].
    intros H. break_match H; inversion H; cbn; lia.
Qed.
Lemma dispatch_stop_le1 endf cd r k evs : dispatch unesc endf cd r = AStop k evs -> (length evs <= 1)%nat.
Proof.
  unfold dispatch. intros H.
  destruct r as [|c r1]; [inversion H; cbn; lia|].
  destruct (c =? 60).
  - destruct r1 as [|d r2]; [inversion H; cbn; lia|].
    break_match H; try (apply of_pres_stop in H; subst; cbn; lia); discriminate.
  - destruct (c =? 38); [|discriminate].
    destruct r1 as [|d r2]; [inversion H; cbn; lia|].
    break_match H; inversion H; subst; cbn; lia.
Qed.
Theorem tokenize_le1 text its g : tokenize unesc text = (its, g) ->
  Forall (fun it => (length (it_evs it) <= 1)%nat) its.
Proof.
  apply (tokenize_evs_local (fun evs => (length evs <= 1)%nat)).
  - intros; cbn; lia.
  - intros; eapply dispatch_le1; eassumption.
  - intros; eapply dispatch_stop_le1; eassumption.
Qed.

(* ---- the start tags, in order, with strictly increasing offsets ---- *)
Lemma tok_starts_cons it its : tok_starts (it :: its) = tok_starts [it] ++ tok_starts its.
Proof. unfold tok_starts. cbn [flat_map]. now rewrite app_nil_r. Qed.
Lemma tok_starts_one it : (length (it_evs it) <= 1)%nat ->
  tok_starts [it] = [] \/ exists n, tok_starts [it] = [(n, it_off it)].
Proof.
  unfold tok_starts. cbn [flat_map]. rewrite app_nil_r. destruct (it_evs it) as [|e [|e' r]]; cbn; intros H; [auto| |lia].
  destruct (ev_start_name e); [right; eexists; reflexivity|auto].
Qed.
Lemma tok_starts_offs its : forall x, In x (map snd (tok_starts its)) -> In x (map it_off its).
Proof.
  induction its as [|it its IH]; intros x H; [contradiction|].
  rewrite tok_starts_cons, map_app in H. apply in_app_or in H as [H|H].
  - left. unfold tok_starts in H. cbn [flat_map] in H. rewrite app_nil_r in H.
    induction (it_evs it) as [|e r IHr]; [contradiction|]. cbn [flat_map] in H. rewrite map_app in H.
    apply in_app_or in H as [H|H]; [|auto]. destruct (ev_start_name e); cbn in H; [|contradiction].
    destruct H as [H|[]]. auto.
  - right. auto.
Qed.
Lemma tok_starts_sorted its :
  StronglySorted lt (map it_off its) -> Forall (fun it => (length (it_evs it) <= 1)%nat) its ->
  StronglySorted lt (map snd (tok_starts its)).
Proof.
  induction its as [|it its IH]; intros S L; [constructor|].
  inversion S as [|? ? S' F]; subst. inversion L as [|? ? L1 L']; subst.
  rewrite tok_starts_cons, map_app. destruct (tok_starts_one it L1) as [->|[n ->]]; cbn [map app snd].
  - apply IH; assumption.
  - constructor; [apply IH; assumption|].
    apply Forall_forall. intros x Hx. apply tok_starts_offs in Hx.
    rewrite Forall_forall in F. apply F. exact Hx.
Qed.

(* ---- the adapter's view ---- *)
Lemma start_events_app a b : start_events (a ++ b) = start_events a ++ start_events b.
Proof. unfold start_events. apply flat_map_app. Qed.
Lemma start_events_items its :
  start_events (hevs_of_items its) =
  flat_map (fun it => flat_map (fun e => match ev_start_name e with Some n => [(n, it_pos it)] | None => [] end)
                               (it_evs it)) its.
Proof.
  induction its as [|it its IH]; [reflexivity|].
  unfold hevs_of_items in *. cbn [flat_map]. rewrite start_events_app, IH. f_equal.
  induction (it_evs it) as [|e r IHr]; [reflexivity|].
  cbn [map flat_map]. rewrite <- IHr. rewrite start_events_cons. f_equal. destruct e; reflexivity.
Qed.
Lemma start_events_true text its :
  Forall (fun it => it_pos it = true_pos text (it_off it)) its ->
  start_events (hevs_of_items its) = map (fun no => (fst no, true_pos text (snd no))) (tok_starts its).
Proof.
  intros H. rewrite start_events_items. unfold tok_starts.
  induction H as [|it its Hit Hits IH]; [reflexivity|].
  cbn [flat_map]. rewrite map_app, IH. f_equal.
  induction (it_evs it) as [|e r IHr]; [reflexivity|].
  cbn [flat_map]. rewrite map_app, IHr. f_equal. destruct (ev_start_name e); [|reflexivity].
  cbn. rewrite Hit. reflexivity.
Qed.
Lemma map_eq_Forall {A B} (f g : A -> B) l : map f l = map g l -> Forall (fun x => f x = g x) l.
Proof. induction l as [|x l IH]; cbn; intros H; constructor; inversion H; auto. Qed.

Lemma skipn_nth_error {A} (l : list A) : forall o x r, skipn o l = x :: r -> nth_error l o = Some x.
Proof.
  induction l as [|y l IH]; intros o x r H; destruct o; cbn in *; try discriminate.
  - inversion H. reflexivity.
  - eapply IH. exact H.
Qed.

Lemma tok_starts_in its n off : In (n, off) (tok_starts its) ->
  exists it e, In it its /\ In e (it_evs it) /\ ev_start_name e = Some n /\ it_off it = off.
Proof.
  unfold tok_starts. intros H. apply in_flat_map in H as (it & Hit & H).
  apply in_flat_map in H as (e & He & H). destruct (ev_start_name e) as [n'|] eqn:E; [|contradiction].
  destruct H as [H|[]]. inversion H; subst. exists it, e. auto.
Qed.

(* C18 at the level of the text *)
Theorem string_positions cfg text its g o ac' :
  tokenize unesc text = (its, g) ->
  adapter_run cfg [] (hevs_of_items its) = (o, ac', true) ->
  tag_positions o =
    map (fun no => (fst no, if a_store cfg then Some (true_pos text (snd no)) else None)) (tok_starts its) /\
  (forall n off, In (n, off) (tok_starts its) ->
     nth_error text off = Some 60 /\ start_at (skipn off text) n) /\
  StronglySorted lt (map snd (tok_starts its)).
Proof.
  intros T R. pose proof (tokenize_covers _ _ _ _ T) as C. split; [|split].
  - rewrite (pos_pass_through false _ _ _ _ _ R).
    assert (Forall (fun it => it_pos it = true_pos text (it_off it)) its) as FP.
    { apply (map_eq_Forall it_pos (fun it => true_pos text (it_off it))).
      rewrite (covers_positions _ _ _ C), map_map. reflexivity. }
    rewrite (start_events_true text its FP).
    rewrite map_map. apply map_ext. intros [n off]. reflexivity.
  - intros n off Hin. apply tok_starts_in in Hin as (it & e & Hit & He & Hn & <-).
    pose proof (tokenize_starts _ _ _ _ T) as S. rewrite Forall_forall in S.
    pose proof (S _ Hit _ _ He Hn) as SA. split; [|exact SA].
    destruct SA as (d & r' & E & _). eapply skipn_nth_error. exact E.
  - apply tok_starts_sorted; [eapply covers_sorted; exact C|eapply tokenize_le1; exact T].
Qed.

(* ---- every callback returns: the names of numeric references are in int()'s grammar ---- *)
Definition ev_returns (e : tev) : Prop :=
  match e with TCharref n => charref_value n <> None | _ => True end.
Lemma charref_match_value r2 name term : charref_match r2 = Some (name, term) -> charref_value name <> None.
Proof.
  unfold charref_match. destruct (span is_digit r2) as [ds t] eqn:E.
  destruct ds as [|d ds'].
  - destruct r2 as [|x r3]; [discriminate|].
    destruct ((x =? 120) || (x =? 88)) eqn:X; [|discriminate].
    destruct (span is_hexd r3) as [hs t'] eqn:E2. destruct hs as [|h hs']; [discriminate|].
    destruct t' as [|c t'']; [discriminate|]. intros H; inversion H; subst.
    pose proof (span_all _ _ _ _ E2) as HA.
    rewrite (charref_value_hex x (h :: hs')); [discriminate| |exact HA].
    apply orb_prop in X as [X|X]; apply N.eqb_eq in X; auto.
  - destruct t as [|c t']; [discriminate|]. destruct (is_hexd c); [discriminate|].
    intros H; inversion H; subst. pose proof (span_all _ _ _ _ E) as HA.
    rewrite (charref_value_decimal (d :: ds')); [discriminate|exact HA].
Qed.
Lemma dispatch_returns endf cd r k evs cd' : dispatch unesc endf cd r = ACont k evs cd' -> Forall ev_returns evs.
Proof.
  unfold dispatch. destruct r as [|c r1]; [discriminate|].
  destruct (c =? 60).
  - destruct r1 as [|d r2]; [discriminate|]. intros H.
    assert (forall e, In e evs -> match e with TCharref _ => False | _ => True end) as NC.
    { intros e He.
      assert (forall p, of_pres endf cd (c :: d :: r2) p = ACont k evs cd' ->
                (forall k evs u, p = PTo k evs u -> forall e, In e evs -> match e with TCharref _ => False | _ => True end) ->
                match e with TCharref _ => False | _ => True end) as OP.
      { intros p Hp Hq. unfold of_pres, fallback in Hp. destruct p as [| |k0 evs0 u0].
        - destruct endf; [|discriminate]. inversion Hp; subst. destruct He as [<-|[]]. exact I.
        - discriminate.
        - inversion Hp; subst. eapply Hq; eauto. }
      break_match H.
      - eapply OP; [exact H|]. intros k0 evs0 u0 P e0 He0. unfold parse_starttag in P.
        break_match P; inversion P; subst; destruct He0 as [<-|[]]; exact I.
      - eapply OP; [exact H|]. intros k0 evs0 u0 P e0 He0. unfold parse_endtag, parse_bogus_comment in P.
        break_match P; inversion P; subst; try contradiction; destruct He0 as [<-|[]]; exact I.
      - eapply OP; [exact H|]. intros k0 evs0 u0 P e0 He0. unfold parse_comment in P.
        break_match P; inversion P; subst; destruct He0 as [<-|[]]; exact I.
      - eapply OP; [exact H|]. intros k0 evs0 u0 P e0 He0. unfold parse_pi in P.
        break_match P; inversion P; subst; destruct He0 as [<-|[]]; exact I.
      - eapply OP; [exact H|]. intros k0 evs0 u0 P e0 He0.
        unfold parse_html_declaration, parse_comment, parse_marked_section, parse_bogus_comment in P.
        break_match P; inversion P; subst; destruct He0 as [<-|[]]; exact I.
      - inversion H; subst. destruct He as [<-|[]]. exact I. }
    apply Forall_forall. intros e He. specialize (NC e He). destruct e; try exact I. contradiction.
  - destruct (c =? 38); [|discriminate].
    destruct r1 as [|d r2]; [discriminate|].
    destruct (d =? 35).
    + destruct (charref_match r2) as [[name term]|] eqn:CM.
      * intros H; inversion H; subst. constructor; [|constructor]. cbn. eapply charref_match_value. exact CM.
      * destruct (memN 59 (c :: d :: r2)); discriminate.
    + intros H. break_match H; inversion H; subst; repeat constructor.
Qed.
Lemma dispatch_stop_returns endf cd r k evs : dispatch unesc endf cd r = AStop k evs -> Forall ev_returns evs.
Proof.
  unfold dispatch. intros H.
  destruct r as [|c r1]; [inversion H; constructor|].
  destruct (c =? 60).
  - destruct r1 as [|d r2]; [inversion H; constructor|].
    break_match H; try (apply of_pres_stop in H; subst; constructor); discriminate.
  - destruct (c =? 38); [|discriminate].
    destruct r1 as [|d r2]; [inversion H; constructor|].
    break_match H; inversion H; subst; repeat constructor.
Qed.

Lemma callbacks_return_app a b : callbacks_return (a ++ b) = callbacks_return a && callbacks_return b.
Proof. unfold callbacks_return. apply forallb_app. Qed.

(* for EVERY text: no callback the tokenizer fires makes the adapter raise *)
Theorem tokenize_callbacks_return text : callbacks_return (callbacks unesc text) = true.
Proof.
  unfold callbacks. destruct (tokenize unesc text) as [its g] eqn:T. cbn [fst].
  assert (forall x, Forall ev_returns [TData x]) as QD by (intros x; constructor; [exact I|constructor]).
  pose proof (tokenize_evs_local (Forall ev_returns) QD dispatch_returns dispatch_stop_returns _ _ _ T) as F.
  clear T. unfold hevs_of_items. induction F as [|it its Hit Hits IH]; [reflexivity|].
  cbn [flat_map]. rewrite callbacks_return_app, IH, andb_true_r.
  induction Hit as [|e r He Hr IHr]; [reflexivity|].
  cbn [map]. change (callbacks_return (hev_of (it_pos it) e :: map (hev_of (it_pos it)) r))
    with ((match hev_of (it_pos it) e with
           | HCharref n => match charref_value n with Some _ => true | None => false end
           | _ => true end) && callbacks_return (map (hev_of (it_pos it)) r)).
  rewrite IHr, andb_true_r. destruct e; cbn; try reflexivity.
  cbn in He. destruct (charref_value name); [reflexivity|congruence].
Qed.

(* C18 for every text, with nothing assumed about the callbacks *)
Theorem string_level cfg text :
  let its := fst (tokenize unesc text) in
  exists o ac', adapter_run cfg [] (hevs_of_items its) = (o, ac', true) /\
  tag_positions o =
    map (fun no => (fst no, if a_store cfg then Some (true_pos text (snd no)) else None)) (tok_starts its) /\
  (forall n off, In (n, off) (tok_starts its) ->
     nth_error text off = Some 60 /\ start_at (skipn off text) n) /\
  StronglySorted lt (map snd (tok_starts its)).
Proof.
  cbv zeta. destruct (tokenize unesc text) as [its g] eqn:T. cbn [fst].
  pose proof (run_ok_iff false cfg (hevs_of_items its) []) as OK.
  pose proof (tokenize_callbacks_return text) as CR. unfold callbacks in CR. rewrite T in CR. cbn [fst] in CR.
  rewrite CR in OK. fold adapter_run in OK.
  destruct (adapter_run cfg [] (hevs_of_items its)) as [[o ac'] ok] eqn:R. cbn [snd] in OK. subst ok.
  exists o, ac'. split; [reflexivity|]. eapply string_positions; eassumption.
Qed.

(* what is left unconsumed at the end: nothing, unless a script / style element is still open *)
Theorem tokenize_leftover text its g : tokenize unesc text = (its, g) ->
  gs_status g = Running -> gs_rest g = [] \/ gs_cd g <> None.
Proof.
  unfold tokenize. destruct (go unesc (S (length text)) false None 0 start_pos text) as [i1 g1] eqn:G1.
  destruct (gs_status g1) eqn:S1; try (intros H; inversion H; subst; congruence).
  destruct (go unesc (S (length (gs_rest g1))) true (gs_cd g1) (gs_off g1) (gs_pos g1) (gs_rest g1)) as [i2 g2] eqn:G2.
  destruct (flush g2) as [i3 g3] eqn:F. intros H; inversion H; subst. clear H.
  unfold flush in F. destruct (gs_status g2) eqn:S2; try (inversion F; subst; congruence).
  destruct (gs_cd g2) eqn:C2; [inversion F; subst; intros _; right; congruence|].
  destruct (gs_rest g2) eqn:R2; inversion F; subst; auto.
Qed.
End Unesc.

(* ------------------------------------------------------------------ when does html.parser raise? *)
Lemma index_of_none c s : index_of c s = None -> ~ In c s.
Proof.
  induction s as [|x s IH]; cbn; [tauto|]. destruct (x =? c) eqn:E; [discriminate|].
  destruct (index_of c s); [discriminate|]. intros _ [H|H]; [subst; now rewrite N.eqb_refl in E|now apply IH].
Qed.
Lemma index_of_some c s k : index_of c s = Some k -> In c s.
Proof.
  revert k. induction s as [|x s IH]; cbn; [discriminate|]. intros k. destruct (x =? c) eqn:E.
  - apply N.eqb_eq in E. auto.
  - destruct (index_of c s) as [k'|]; [|discriminate]. intros _. right. eapply IH. reflexivity.
Qed.
Lemma forallb_not_in p (l : str) c : forallb p l = true -> p c = false -> ~ In c l.
Proof. intros H Hc Hin. rewrite forallb_forall in H. rewrite (H _ Hin) in Hc. discriminate. Qed.
Lemma skip_ws_slash_split s : forall a b, skip_ws_slash s = (a, b) -> s = a ++ b /\ ~ In 62 a.
Proof.
  induction s as [|c r IH]; intros a b H; cbn [skip_ws_slash] in H.
  - inversion H. split; auto.
  - destruct (is_space c) eqn:SP.
    + destruct (skip_ws_slash r) as [a' b'] eqn:E. inversion H; subst. destruct (IH _ _ eq_refl) as [E1 E2].
      split; [cbn; now f_equal|]. intros [Hc|Hc]; [subst c; discriminate SP|auto].
    + destruct (c =? 47) eqn:SL; [|inversion H; subst; split; auto].
      apply N.eqb_eq in SL. subst c. destruct r as [|d r'].
      * inversion H; subst. split; [reflexivity|]. intros [Hc|[]]. discriminate.
      * destruct (d =? 62); [inversion H; subst; split; auto|].
        destruct (skip_ws_slash (d :: r')) as [a' b'] eqn:E. inversion H; subst.
        destruct (IH _ _ eq_refl) as [E1 E2]. split; [cbn; now f_equal|]. intros [Hc|Hc]; [discriminate|auto].
Qed.

(* the AssertionError exit of the tolerant end-tag branch is dead code *)
Lemma parse_endtag_no_rej cd c0 rest2 : parse_endtag cd (c0 :: 47 :: rest2) <> PRej.
Proof.
  unfold parse_endtag. cbn [tl skipn]. intros H.
  assert (forall s, parse_bogus_comment s <> PRej) as NB
    by (intros s0 H0; unfold parse_bogus_comment in H0; break_match H0; discriminate).
  destruct (index_of 62 (47 :: rest2)) as [g0|] eqn:G; [|discriminate].
  apply index_of_some in G. destruct G as [G|G]; [discriminate|].
  destruct (endtagfind (c0 :: 47 :: rest2)); [break_match H; discriminate|].
  destruct cd; [discriminate|].
  destruct rest2 as [|c r]; [now apply NB in H|].
  destruct (is_alpha c).
  - destruct (span name_char (c :: r)) as [nm s1] eqn:E1. destruct (skip_ws_slash s1) as [w s2] eqn:E2.
    destruct (index_of 62 s2) eqn:E3; [discriminate|].
    apply index_of_none in E3. apply E3.
    pose proof (span_split _ _ _ _ E1) as S1. pose proof (span_all _ _ _ _ E1) as A1.
    destruct (skip_ws_slash_split _ _ _ E2) as [S2 N2].
    rewrite S1, S2 in G. apply in_app_or in G as [G|G]; [exfalso; exact (forallb_not_in name_char nm 62 A1 eq_refl G)|].
    apply in_app_or in G as [G|G]; [contradiction|exact G].
  - destruct (has_prefix s_empty_end (c0 :: 47 :: c :: r)); [discriminate|now apply NB in H].
Qed.

Definition has_marked_open (s : str) : Prop := exists pre post, s = pre ++ 60 :: 33 :: 91 :: post.

Section Unesc2.
Variable unesc : str -> str.

Lemma has_prefix_marked s : has_prefix s_marked_open s = true -> exists post, s = 60 :: 33 :: 91 :: post.
Proof.
  unfold s_marked_open. destruct s as [|a [|b [|c post]]]; cbn [has_prefix]; intros H; try discriminate H;
    try (rewrite ?andb_false_r in H; discriminate H).
  apply andb_prop in H as [H1 H]. apply andb_prop in H as [H2 H]. apply andb_prop in H as [H3 _].
  apply N.eqb_eq in H1. apply N.eqb_eq in H2. apply N.eqb_eq in H3. subst. eauto.
Qed.
Lemma dispatch_reject endf cd r : dispatch unesc endf cd r = AReject ->
  (exists post, r = 60 :: 33 :: 91 :: post) \/ (exists c r', r = c :: r' /\ c <> 60 /\ c <> 38).
Proof.
  unfold dispatch. destruct r as [|c r1]; [discriminate|].
  destruct (c =? 60) eqn:C60.
  - apply N.eqb_eq in C60. subst c. destruct r1 as [|d r2]; [discriminate|].
    assert (forall p, of_pres endf cd (60 :: d :: r2) p = AReject -> p = PRej) as OP.
    { intros p Hp. unfold of_pres, fallback in Hp. destruct p; [destruct endf; discriminate|reflexivity|discriminate]. }
    intros H. left. break_match H; try discriminate; apply OP in H.
    + exfalso. unfold parse_starttag in H. break_match H; discriminate.
    + exfalso. match goal with E : (d =? 47) = true |- _ => apply N.eqb_eq in E; subst d end.
      exact (parse_endtag_no_rej cd 60 r2 H).
    + exfalso. unfold parse_comment in H. break_match H; discriminate.
    + exfalso. unfold parse_pi in H. break_match H; discriminate.
    + unfold parse_html_declaration in H.
      destruct (has_prefix s_comment_open (60 :: d :: r2)); [unfold parse_comment in H; break_match H; discriminate|].
      destruct (has_prefix s_marked_open (60 :: d :: r2)) eqn:M; [exact (has_prefix_marked _ M)|].
      exfalso. destruct (str_eqb (ascii_lower (firstn 9 (60 :: d :: r2))) s_doctype_open).
      * break_match H; discriminate.
      * unfold parse_bogus_comment in H. break_match H; discriminate.
  - destruct (c =? 38) eqn:C38.
    + destruct r1 as [|d r2]; [discriminate|]. intros H. break_match H; discriminate.
    + intros _. right. exists c, r1. apply N.eqb_neq in C60. apply N.eqb_neq in C38. auto.
Qed.

Lemma find_cdata_close_head e s a b : find_cdata_close e s = Some (a, b) -> cdata_close_at e b = true.
Proof.
  revert a b. induction s as [|c s IH]; intros a b H; cbn [find_cdata_close] in H.
  - destruct (cdata_close_at e []) eqn:E; inversion H; subst. exact E.
  - destruct (cdata_close_at e (c :: s)) eqn:E.
    + inversion H; subst. exact E.
    + destruct (find_cdata_close e s) as [[a' b']|] eqn:F; [|discriminate]. inversion H; subst. eapply IH. reflexivity.
Qed.
Lemma find_interesting_head cd s txt c r' : find_interesting cd s = Some (txt, c :: r') -> c = 60 \/ c = 38.
Proof.
  destruct cd as [e|]; cbn [find_interesting]; intros H.
  - apply find_cdata_close_head in H. unfold cdata_close_at in H.
    destruct c as [|pc]; [discriminate|]. left.
    repeat (destruct pc as [pc|pc|]; try discriminate). reflexivity.
  - inversion H as [E]. apply span_stop in E. unfold not_interesting in E. apply negb_false_iff in E.
    apply orb_prop in E as [E|E]; apply N.eqb_eq in E; auto.
Qed.

Lemma go_rejected fuel : forall endf cd off p s its g,
  go unesc fuel endf cd off p s = (its, g) -> gs_status g = Rejected -> has_marked_open s.
Proof.
  induction fuel as [|f IH]; intros endf cd off p s its g H R.
  - destruct s; cbn in H; inversion H; subst; discriminate R.
  - destruct s as [|c0 s0]; [cbn in H; inversion H; subst; discriminate R|].
    cbn [go] in H. remember (c0 :: s0) as s eqn:Es.
    destruct (find_interesting cd s) as [[txt r]|] eqn:FI; [|inversion H; subst; discriminate R].
    pose proof (find_interesting_split _ _ _ _ FI) as SP.
    destruct r as [|c1 r1]; [inversion H; subst; discriminate R|].
    pose proof (find_interesting_head _ _ _ _ _ FI) as HD.
    remember (c1 :: r1) as r eqn:Er.
    destruct (dispatch unesc endf cd r) as [k evs cd'|k evs|] eqn:D.
    + destruct k as [|k']; [inversion H; subst; discriminate R|].
      destruct (go unesc f endf cd' (off + length txt + length (firstn (S k') r))%nat
                   (updatepos (updatepos p txt) (firstn (S k') r)) (skipn (S k') r)) as [its' g'] eqn:G.
      inversion H; subst its g. destruct (IH _ _ _ _ _ _ _ G R) as (pre & post & E).
      exists (txt ++ firstn (S k') r ++ pre), post. rewrite SP. rewrite <- (firstn_skipn (S k') r) at 1.
      rewrite E. now rewrite <- !app_assoc.
    + inversion H; subst; discriminate R.
    + apply dispatch_reject in D. destruct D as [[post E]|(c & r' & E & N1 & N2)].
      * exists txt, post. rewrite SP, E. reflexivity.
      * exfalso. rewrite Er in E. inversion E; subst. destruct HD; congruence.
Qed.

(* AssertionError (hence ParserRejectedMarkup) only for a text that contains "<![" *)
Theorem tokenize_rejected text its g : tokenize unesc text = (its, g) -> gs_status g = Rejected -> has_marked_open text.
Proof.
  unfold tokenize. destruct (go unesc (S (length text)) false None 0 start_pos text) as [i1 g1] eqn:G1.
  pose proof (go_covers _ _ _ _ _ _ _ _ _ G1) as (C1 & _).
  destruct (gs_status g1) eqn:S1; try (intros H R; inversion H; subst; congruence).
  - destruct (go unesc (S (length (gs_rest g1))) true (gs_cd g1) (gs_off g1) (gs_pos g1) (gs_rest g1)) as [i2 g2] eqn:G2.
    destruct (flush g2) as [i3 g3] eqn:F. intros H R. inversion H as [[Hi Hg]]. rewrite <- Hg in R.
    rewrite (flush_status _ _ _ F) in R. destruct (go_rejected _ _ _ _ _ _ _ _ G2 R) as (pre & post & E).
    exists (concat (spans i1) ++ pre), post. rewrite <- C1, E. now rewrite <- app_assoc.
  - intros H R. exact (go_rejected _ _ _ _ _ _ _ _ G1 S1).
Qed.
End Unesc2.

(* the statements of Props/C18.v about coverage and positions, unfolded *)
Theorem tok_covers unesc text its g : tokenize unesc text = (its, g) ->
  concat (map it_span its) ++ gs_rest g = text /\
  map it_off its = offsets 0 (map it_span its) /\
  Forall (fun it => it_span it <> []) its /\
  StronglySorted lt (map it_off its).
Proof.
  intros H. pose proof (tokenize_covers unesc text its g H) as C.
  pose proof (covers_sorted _ _ _ _ _ C) as S. destruct C as (C1 & C2 & _ & _ & _ & C6). auto.
Qed.
Theorem tok_pos_accumulated unesc text its g : tokenize unesc text = (its, g) ->
  map it_pos its = running start_pos (map it_span its).
Proof. intros H. destruct (tokenize_covers unesc text its g H) as (_ & _ & C3 & _). exact C3. Qed.
Theorem tok_pos_true unesc text its g : tokenize unesc text = (its, g) ->
  map it_pos its = map (true_pos text) (map it_off its).
Proof. intros H. apply covers_positions with (g := g). now apply tokenize_covers with (unesc := unesc). Qed.

