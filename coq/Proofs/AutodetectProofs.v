(* C08's last sentence on the concrete model: a rendering that carries a rewritten <meta> declaration, encoded in
   ascii / iso-8859-1 / windows-1252 / utf-8 (Model/Codecs.v) and given back to UnicodeDammit (Model/Dammit.v with the
   modelled sniffer Model/Sniff.v and the concrete codecs), is detected as that encoding and decodes to the rendering.
   Also: UTF-16 / UTF-32 encoders with round trips, and detection through the byte-order mark. *)
From Coq Require Import List NArith Bool Arith Lia ZArith.
From BS Require Import Base.Sexp Base.Types Base.Reader Spec.Utf8 Gen.T_Codecs Gen.T_C07 Gen.T_C08 Gen.Stdlib
     Model.Dammit Model.Sniff Model.Encode Model.Codecs Spec.DammitSpec Spec.SniffSpec
     Model.Autodetect
     Proofs.EncodeProofs Proofs.Utf8Codec Proofs.DammitProofs Proofs.SniffProofs Proofs.CodecsProofs.
Import ListNotations.
Open Scope N_scope.

(* ================================================================== *)
(* 1. the two renderings of a rewritten declaration                    *)
(* ================================================================== *)


Lemma encoder_names_are : map fst encoder_names =
  [[108; 97; 116; 105; 110; 45; 49];
   [108; 97; 116; 105; 110; 49];
   [108; 97; 116; 105; 110; 95; 49];
   [105; 115; 111; 45; 56; 56; 53; 57; 45; 49];
   [105; 115; 111; 95; 56; 56; 53; 57; 95; 49];
   [99; 112; 49; 50; 53; 50];
   [119; 105; 110; 100; 111; 119; 115; 45; 49; 50; 53; 50];
   [119; 105; 110; 100; 111; 119; 115; 95; 49; 50; 53; 50];
   [97; 115; 99; 105; 105];
   [117; 115; 45; 97; 115; 99; 105; 105];
   [117; 115; 95; 97; 115; 99; 105; 105];
   [117; 116; 102; 45; 56];
   [117; 116; 102; 56];
   [117; 116; 102; 95; 56]].
Proof. vm_compute. reflexivity. Qed.

Ltac each_name H :=
  vm_compute in H;
  repeat (destruct H as [H|H]; [injection H as <- <-|]); [..|contradiction].

Lemma encoder_names_sound e k : In (e, k) encoder_names ->
  codec_of_name e = Some k /\ encoder k = true /\ lower_ascii e = e /\ ascii_replace e = e /\
  is_ascii e = true /\ e <> [].
Proof. intros H. each_name H; (repeat split; [vm_compute; reflexivity..|discriminate]). Qed.

(* ================================================================== *)
(* 2. the sniffer on such a tag: whatever follows it, and also when the search window ends anywhere after the   *)
(*    character that closes the name                                                                            *)
(* ================================================================== *)
Ltac cut_cases n :=
  repeat (destruct n as [|n]; [reflexivity|]); reflexivity.

Lemma meta_at_tag st e k : In (e, k) encoder_names ->
  forall n rest, meta_at bytes_mode (tag_head st e ++ firstn n (tag_tail st ++ rest)) = Some e.
Proof.
  intros H n rest. destruct st; each_name H.
  all: first [ do 3 (destruct n as [|n]; [reflexivity|]); reflexivity
             | do 29 (destruct n as [|n]; [reflexivity|]); reflexivity ].
Qed.

(* ================================================================== *)
(* 3. ASCII goes through the four encoders unchanged                   *)
(* ================================================================== *)
Lemma enc_char_ascii k c : encoder k = true -> c < 128 -> codec_enc_char k c = Some [c].
Proof.
  intros Hk Hc. destruct k; try discriminate.
  - change (codec_enc_char Ascii) with (sb_enc_char cd_ascii_table). apply (sb_dec_enc _ ascii_inverse_ok).
    rewrite ascii_dec_byte. assert ((c <? 128) = true) as -> by (now apply N.ltb_lt). reflexivity.
  - change (codec_enc_char Latin1) with (sb_enc_char cd_latin1_table). apply (sb_dec_enc _ latin1_inverse_ok).
    rewrite latin1_dec_byte. assert ((c <? 256) = true) as -> by (apply N.ltb_lt; lia). reflexivity.
  - change (codec_enc_char Cp1252) with (sb_enc_char cd_cp1252_table). apply (sb_dec_enc _ cp1252_inverse_ok).
    apply cp1252_dec_byte_id. now left.
  - cbn [codec_enc_char]. unfold utf8_enc_char, scalar, utf8_enc.
    assert ((c <? 55296) = true) as -> by (apply N.ltb_lt; lia).
    assert ((c <? 128) = true) as -> by (now apply N.ltb_lt). reflexivity.
Qed.

Lemma enc_ascii k a : encoder k = true -> is_ascii a = true ->
  xcr_text (codec_enc_char k) a = a /\ enc_strict (codec_enc_char k) a = Some a.
Proof.
  intros Hk. induction a as [|c a IH]; [split; reflexivity|].
  cbn [is_ascii forallb]. intros H. apply andb_prop in H as [H1 H2]. apply N.ltb_lt in H1.
  destruct (IH H2) as [I1 I2]. pose proof (enc_char_ascii k c Hk H1) as E.
  split.
  - cbn [xcr_text flat_map]. unfold xcr_char, encodable. rewrite E. cbn [app]. f_equal. exact I1.
  - cbn [enc_strict]. rewrite E, I2. reflexivity.
Qed.

(* the bytes of pre ++ T ++ post, T ASCII: the three parts encoded one after the other *)
Lemma encode_three k pre T post bpre bpost : encoder k = true -> is_ascii T = true ->
  codec_encode k EXmlCharRef pre = Some bpre -> codec_encode k EXmlCharRef post = Some bpost ->
  codec_encode k EXmlCharRef (pre ++ T ++ post) = Some (bpre ++ T ++ bpost).
Proof.
  intros Hk HT. cbn [codec_encode]. unfold str_encode, str_encode_body.
  destruct (enc_strict (codec_enc_char k) (xcr_text (codec_enc_char k) pre)) as [x|] eqn:E1; [|discriminate].
  destruct (enc_strict (codec_enc_char k) (xcr_text (codec_enc_char k) post)) as [y|] eqn:E2; [|discriminate].
  cbn [option_map app]. intros [= <-] [= <-].
  destruct (enc_ascii k T Hk HT) as [A1 A2].
  rewrite !xcr_text_app, A1, !enc_strict_app, E1, A2, E2. reflexivity.
Qed.

Lemma is_ascii_app a b : is_ascii (a ++ b) = is_ascii a && is_ascii b.
Proof. apply forallb_app. Qed.

Lemma meta_tag_ascii st e k : In (e, k) encoder_names -> is_ascii (meta_tag st e) = true.
Proof. intros H. destruct st; each_name H; vm_compute; reflexivity. Qed.

(* ================================================================== *)
(* 4. the sniffer on the encoded bytes                                 *)
(* ================================================================== *)

Lemma firstn_three {X} W (a h t : list X) : (length a + length h <= W)%nat ->
  firstn W (a ++ h ++ t) = a ++ h ++ firstn (W - length a - length h) t.
Proof.
  intros H. rewrite firstn_app, (firstn_all2 (n := W) a) by lia. f_equal.
  rewrite firstn_app, (firstn_all2 (n := W - length a) h) by lia. reflexivity.
Qed.

Lemma sniff_encoded st e k bpre bpost : In (e, k) encoder_names ->
  let b := bpre ++ meta_tag st e ++ bpost in
  (length bpre + length (tag_head st e) <= html_window (length b))%nat ->
  (forall g, ~ xml_shape bytes_mode (searched_xml false b) g) ->
  (forall x y g, bpre = x ++ y -> y <> [] ->
     ~ meta_here bytes_mode (y ++ tag_head st e ++
          firstn (html_window (length b) - length bpre - length (tag_head st e)) (tag_tail st ++ bpost)) g) ->
  find_declared_encoding lower_ascii (MBytes b) true false = Some e.
Proof.
  intros Hin b Hwin Hxml Hmeta.
  rewrite find_declared_unfold. cbn [markup_mode markup_chars].
  destruct (xml_scan bytes_mode (searched_xml false b)) as [g|] eqn:X.
  { exfalso. exact (Hxml g (xml_scan_sound bytes_mode _ _ X)). }
  assert (Hs : searched_html false b =
               bpre ++ tag_head st e ++
               firstn (html_window (length b) - length bpre - length (tag_head st e)) (tag_tail st ++ bpost)).
  { unfold searched_html. change (Nat.max 2048 (length b / 20)) with (html_window (length b)).
    revert Hwin. generalize (html_window (length b)) as W. intros W Hwin.
    unfold b, meta_tag. rewrite <- app_assoc. now apply firstn_three. }
  rewrite Hs.
  rewrite (html_scan_first bytes_mode bpre _ e).
  - destruct (encoder_names_sound e k Hin) as (_ & _ & Hl & Ha & _ & Hne).
    unfold declared_name. destruct e as [|c e']; [contradiction|]. cbn [is_empty]. now rewrite Ha, Hl.
  - apply (meta_at_tag st e k Hin).
  - intros x y E Hy.
    destruct (meta_at bytes_mode (y ++ tag_head st e ++
                firstn (html_window (length b) - length bpre - length (tag_head st e)) (tag_tail st ++ bpost)))
      as [g|] eqn:M; [|reflexivity].
    exfalso. exact (Hmeta x y g E Hy (meta_at_sound bytes_mode _ _ M)).
Qed.

(* ================================================================== *)
(* 5. encode, then detect: string level                                *)
(* ================================================================== *)
Lemma find_codec_encoder_name e k : In (e, k) encoder_names -> find_codec lower_ascii c_known e = Some e.
Proof. intros H. each_name H; vm_compute; reflexivity. Qed.

(* the side conditions, all about the ENCODED bytes b = bpre ++ tag ++ bpost:
     no_bom     strip_byte_order_mark finds no mark (e.g. because the rendering starts with '<')
     in_window  the declaration, through the character that closes the name, lies in the first
                max(2048, len(b) * 5 %) bytes
     no_xml     the first 1024 bytes are not an XML declaration naming an encoding
     no_meta    no earlier position of the searched part starts something the html pattern matches *)
Record detect_conditions (st : mstyle) (e : str) (bpre bpost : str) : Prop := {
  dc_no_bom : strip_bom (bpre ++ meta_tag st e ++ bpost) = (bpre ++ meta_tag st e ++ bpost, None);
  dc_in_window : (length bpre + length (tag_head st e) <=
                  html_window (length (bpre ++ meta_tag st e ++ bpost)))%nat;
  dc_no_xml : forall g, ~ xml_shape bytes_mode (searched_xml false (bpre ++ meta_tag st e ++ bpost)) g;
  dc_no_meta : forall x y g, bpre = x ++ y -> y <> [] ->
     ~ meta_here bytes_mode (y ++ tag_head st e ++
          firstn (html_window (length (bpre ++ meta_tag st e ++ bpost)) - length bpre - length (tag_head st e))
                 (tag_tail st ++ bpost)) g
}.

Theorem autodetect_declared_str st e k pre post bpre bpost a :
  In (e, k) encoder_names ->
  codec_encode k EXmlCharRef pre = Some bpre -> codec_encode k EXmlCharRef post = Some bpost ->
  detect_conditions st e bpre bpost ->
  a_known a = [] -> a_override a = [] -> a_user a = [] -> a_is_html a = true ->
  excluded lower_ascii (a_exclude a) e = false ->
  let s := pre ++ meta_tag st e ++ post in
  let b := bpre ++ meta_tag st e ++ bpost in
  codec_encode k EXmlCharRef s = Some b /\
  outcome (c_dammit (MBytes b) a) = (Some (xcr_text (codec_enc_char k) s), Some e, false) /\
  r_declared_html (c_dammit (MBytes b) a) = Some e.
Proof.
  intros Hin Hpre Hpost [Hbom Hwin Hxml Hmeta] Hk Ho Hu Hh Hex s b.
  destruct (encoder_names_sound e k Hin) as (Hcn & Hek & _ & _ & _ & Hne).
  assert (Henc : codec_encode k EXmlCharRef s = Some b)
    by (apply encode_three; [exact Hek|now apply (meta_tag_ascii st e k)|exact Hpre|exact Hpost]).
  assert (Hb : b <> []).
  { unfold b, meta_tag. destruct bpre; [|discriminate]. destruct st; discriminate. }
  assert (Hsn : find_declared_encoding lower_ascii (MBytes b) true false = Some e)
    by (apply (sniff_encoded st e k bpre bpost Hin Hwin Hxml Hmeta)).
  assert (Hdec : c_decode b e Dammit.Strict = Some (xcr_text (codec_enc_char k) s)).
  { rewrite (proj2 c_extends b e k Dammit.Strict Hcn).
    destruct (concrete_encode_total k s Hek) as (b' & E1 & E2). rewrite Henc in E1. injection E1 as <-. exact E2. }
  split; [exact Henc|]. unfold c_dammit. split.
  - apply (precedence_documented_order lower_ascii c_known c_decode (sniff_model lower_ascii) no_chardet
             b a [] e [n_utf8; n_windows1252]); try assumption.
    + fold b in Hbom. rewrite Hbom. cbn [fst snd]. rewrite Hk, Ho, Hu, Hh. unfold sniff_model, no_chardet.
      rewrite Hsn. reflexivity.
    + intros y [].
    + intros y [].
    + unfold attempt. fold b in Hbom. rewrite Hbom. cbn [fst]. rewrite (find_codec_encoder_name e k Hin), Hdec. reflexivity.
  - rewrite declared_reported, Hh. cbn [strip_byte_order_mark]. fold b in Hbom. rewrite Hbom. cbn [fst].
    exact Hsn.
Qed.

(* a rendering that starts with an ASCII character other than NUL carries no byte-order mark *)
Lemma no_bom_ascii_start c r : 0 < c < 128 -> strip_bom (c :: r) = (c :: r, None).
Proof.
  intros Hc. apply strip_bom_unmarked. intros rest n M. inversion M; subst; lia.
Qed.

(* ================================================================== *)
(* 6. tree level: any tree, any split of its events around a <meta> element whose tag renders as above *)
(* ================================================================== *)
Theorem autodetect_declared_tree st e k f t evs1 h evs2 bpre bpost a :
  In (e, k) encoder_names ->
  events_self t = evs1 ++ EvEmpty h :: evs2 ->
  format_tag (Some e) f h true true = meta_tag st e ->
  codec_encode k EXmlCharRef (flat_map (piece (Some e) f) evs1) = Some bpre ->
  codec_encode k EXmlCharRef (flat_map (piece (Some e) f) evs2) = Some bpost ->
  detect_conditions st e bpre bpost ->
  a_known a = [] -> a_override a = [] -> a_user a = [] -> a_is_html a = true ->
  excluded lower_ascii (a_exclude a) e = false ->
  let b := bpre ++ meta_tag st e ++ bpost in
  c_tag_encode 0 e None f XmlCharRef t = Some (Some b) /\
  outcome (c_dammit (MBytes b) a) =
    (Some (xcr_text (codec_enc_char k) (tag_decode None (Some e) f t)), Some e, false) /\
  r_declared_html (c_dammit (MBytes b) a) = Some e.
Proof.
  intros Hin Hev Htag Hpre Hpost Hdc Hk Ho Hu Hh Hex b.
  assert (Hs : tag_decode None (Some e) f t =
               flat_map (piece (Some e) f) evs1 ++ meta_tag st e ++ flat_map (piece (Some e) f) evs2).
  { unfold tag_decode. rewrite decode_loop_flat by reflexivity. rewrite Hev, flat_map_app. cbn [flat_map piece].
    now rewrite Htag. }
  destruct (autodetect_declared_str st e k _ _ bpre bpost a Hin Hpre Hpost Hdc Hk Ho Hu Hh Hex) as (E1 & E2 & E3).
  rewrite Hs. split; [|split; assumption].
  unfold c_tag_encode. rewrite (proj1 (encoder_names_sound e k Hin)). f_equal.
  unfold tag_encode. rewrite Hs. exact E1.
Qed.

(* ================================================================== *)
(* 7. the tags are what the model of Tag._format_tag writes for a <meta> created through the builder *)
(* ================================================================== *)
Definition s_ct_value : str := [67; 111; 110; 116; 101; 110; 116; 45; 84; 121; 112; 101].   (* Content-Type *)
Definition content_value (old : str) : str := [116; 101; 120; 116; 47; 104; 116; 109; 108; 59; 32; 99; 104; 97; 114; 115; 101; 116; 61] ++ old.   (* text/html; charset=OLD *)

Lemma charset_tag_rendering e k f c old : In (e, k) encoder_names ->
  format_tag (Some e) f (mkhead s_meta None (set_up_substitutions s_meta [(s_charset, AStr (c :: old))]) true false) true true
  = meta_tag MCharset e.
Proof. intros H. destruct f; each_name H; reflexivity. Qed.

Lemma content_tag_rendering e k f : In (e, k) encoder_names ->
  forallb (fun old =>
    str_eqb (format_tag (Some e) f
               (mkhead s_meta None
                  (set_up_substitutions s_meta [(s_http_equiv, AStr s_ct_value); (s_content, AStr (content_value old))])
                  true false) true true)
            (meta_tag MContent e))
    [[107; 111; 105; 56; 45; 114]; [120; 45; 115; 106; 105; 115]; [73; 83; 79; 45; 56; 56; 53; 57; 45; 49]; [117; 116; 102; 45; 56]] = true.
Proof. intros H. destruct f; each_name H; vm_compute; reflexivity. Qed.

(* ================================================================== *)
(* 8. the hypotheses are satisfiable; and each side condition is needed (witnesses reproduced on the real code) *)
(* ================================================================== *)
Definition ex_pre : str := [60; 104; 116; 109; 108; 62; 60; 104; 101; 97; 100; 62; 60; 116; 105; 116; 108; 101; 62; 233; 9731; 60; 47; 116; 105; 116; 108; 101; 62].          (* <html><head><title>é☃</title> *)
Definition ex_post : str := [60; 47; 104; 101; 97; 100; 62; 60; 98; 111; 100; 121; 62; 60; 112; 62; 233; 60; 47; 112; 62; 60; 47; 98; 111; 100; 121; 62; 60; 47; 104; 116; 109; 108; 62].         (* </head><body><p>é</p></body></html> *)
Definition n_latin1 : str := [108; 97; 116; 105; 110; 45; 49].          (* latin-1 *)


Lemma no_xml_b_sound b : no_xml_b b = true -> forall g, ~ xml_shape bytes_mode (searched_xml false b) g.
Proof.
  unfold no_xml_b. intros H g S.
  destruct (xml_scan bytes_mode (searched_xml false b)) eqn:E; [discriminate|].
  exact (xml_scan_complete bytes_mode bytes_mode_ok _ g S E).
Qed.
Lemma tails_in {X} (x y : list X) : y <> [] -> In y (tails (x ++ y)).
Proof.
  intros Hy. induction x as [|c x IH]; cbn [app].
  - destruct y; [contradiction|]. now left.
  - cbn [tails]. right. exact IH.
Qed.
Lemma no_meta_b_sound bpre t : no_meta_b bpre t = true ->
  forall x y g, bpre = x ++ y -> y <> [] -> ~ meta_here bytes_mode (y ++ t) g.
Proof.
  unfold no_meta_b. intros H x y g E Hy M. rewrite forallb_forall in H.
  assert (Hin : In y (tails bpre)) by (rewrite E; now apply tails_in).
  specialize (H y Hin). cbn beta in H.
  destruct (meta_at bytes_mode (y ++ t)) eqn:A; [discriminate|].
  exact (meta_at_complete bytes_mode bytes_mode_ok _ g M A).
Qed.


Lemma detect_conditions_b_sound st e bpre bpost :
  detect_conditions_b st e bpre bpost = true -> detect_conditions st e bpre bpost.
Proof.
  unfold detect_conditions_b. intros H.
  apply andb_prop in H as [H H5]. apply andb_prop in H as [H H4]. apply andb_prop in H as [H H3].
  apply andb_prop in H as [H1 H2].
  constructor.
  - apply str_eqb_eq in H1. destruct (strip_bom (bpre ++ meta_tag st e ++ bpost)) as [d o] eqn:E. cbn [fst snd] in *.
    subst d. destruct o; [discriminate|reflexivity].
  - now apply Nat.leb_le.
  - now apply no_xml_b_sound.
  - now apply no_meta_b_sound.
Qed.

Example autodetect_satisfiable :
  detect_conditions MContent n_latin1
    (match codec_encode Latin1 EXmlCharRef ex_pre with Some x => x | None => [] end)
    (match codec_encode Latin1 EXmlCharRef ex_post with Some x => x | None => [] end) /\
  In (n_latin1, Latin1) encoder_names /\
  outcome (c_dammit (MBytes (match codec_encode Latin1 EXmlCharRef (ex_pre ++ meta_tag MContent n_latin1 ++ ex_post)
                             with Some x => x | None => [] end)) no_args)
  = (Some (xcr_text (codec_enc_char Latin1) (ex_pre ++ meta_tag MContent n_latin1 ++ ex_post)), Some n_latin1, false).
Proof.
  split; [apply detect_conditions_b_sound; vm_compute; reflexivity|]. split; vm_compute; [tauto|reflexivity].
Qed.

(* ---- each side condition is needed: four renderings that DO contain the rewritten declaration, encoded in the
        target, whose re-detection names another encoding and reads other text. All four reproduce on the real
        library (BeautifulSoup(markup).encode(target) given back to BeautifulSoup). ---- *)
Definition redetect (k : codec) (s : str) : option (option str * option str * bool) :=
  match codec_encode k EXmlCharRef s with
  | Some b => Some (outcome (c_dammit (MBytes b) no_args))
  | None => None
  end.
Definition wrongly_detected (k : codec) (e : str) (s : str) (detected : str) : Prop :=
  exists u, redetect k s = Some (Some u, Some detected, false) /\ detected <> e /\
            u <> xcr_text (codec_enc_char k) s.

Definition n_utf8' : str := [117; 116; 102; 45; 56].

(* (1) no_bom: the rendering starts with the text "ÿþ"; in iso-8859-1 that is FF FE, a UTF-16LE mark *)
Theorem autodetect_refuted_bom_lookalike :
  In (n_latin1, Latin1) encoder_names /\
  wrongly_detected Latin1 n_latin1 ([255; 254] ++ meta_tag MCharset n_latin1 ++ [60; 112; 62; 99; 97; 102; 233; 60; 47; 112; 62]) n_utf16le.
Proof. split; [vm_compute; tauto|]. eexists. split; [vm_compute; reflexivity|]. split; vm_compute; discriminate. Qed.

(* (2) no_xml: a processing instruction <?xml ... encoding="latin-1"?> in front (it is not rewritten), target utf-8 *)
Theorem autodetect_refuted_stale_xml_declaration :
  In (n_utf8', Utf8) encoder_names /\
  wrongly_detected Utf8 n_utf8' ([60; 63; 120; 109; 108; 32; 118; 101; 114; 115; 105; 111; 110; 61; 34; 49; 46; 48; 34; 32; 101; 110; 99; 111; 100; 105; 110; 103; 61; 34; 108; 97; 116; 105; 110; 45; 49; 34; 63; 62] ++ meta_tag MCharset n_utf8' ++ [60; 112; 62; 99; 97; 102; 233; 32; 8364; 60; 47; 112; 62]) n_latin1.
Proof. split; [vm_compute; tauto|]. eexists. split; [vm_compute; reflexivity|]. split; vm_compute; discriminate. Qed.

(* (3) no_meta: a comment that contains the text of a meta declaration, target utf-8 *)
Theorem autodetect_refuted_declaration_in_comment :
  wrongly_detected Utf8 n_utf8' ([60; 33; 45; 45; 32; 60; 109; 101; 116; 97; 32; 99; 104; 97; 114; 115; 101; 116; 61; 34; 108; 97; 116; 105; 110; 45; 49; 34; 62; 32; 45; 45; 62] ++ meta_tag MCharset n_utf8' ++ [60; 112; 62; 99; 97; 102; 233; 32; 8364; 60; 47; 112; 62]) n_latin1.
Proof. eexists. split; [vm_compute; reflexivity|]. split; vm_compute; discriminate. Qed.

(* (4) the shape of the tag: another attribute after the rewritten one whose value contains charset= — inside one tag
   the pattern's greedy [^>]+ reports the RIGHTMOST charset *)
Theorem autodetect_refuted_later_charset_in_tag :
  wrongly_detected Utf8 n_utf8' (tag_head MCharset n_utf8' ++ [32; 120; 61; 34; 99; 104; 97; 114; 115; 101; 116; 61; 108; 97; 116; 105; 110; 45; 49; 34; 47; 62; 60; 112; 62; 99; 97; 102; 233; 32; 8364; 60; 47; 112; 62]) n_latin1.
Proof. eexists. split; [vm_compute; reflexivity|]. split; vm_compute; discriminate. Qed.

(* the same witnesses in the form "some rendering pre ++ tag ++ post" *)
Lemma autodetect_refuted_stale_xml_declaration_ex :
  In (n_utf8', Utf8) encoder_names /\
  exists pre post, wrongly_detected Utf8 n_utf8' (pre ++ meta_tag MCharset n_utf8' ++ post) n_latin1.
Proof.
  split; [exact (proj1 autodetect_refuted_stale_xml_declaration)|].
  eexists. eexists. exact (proj2 autodetect_refuted_stale_xml_declaration).
Qed.
Lemma autodetect_refuted_declaration_in_comment_ex :
  exists pre post, wrongly_detected Utf8 n_utf8' (pre ++ meta_tag MCharset n_utf8' ++ post) n_latin1.
Proof. eexists. eexists. exact autodetect_refuted_declaration_in_comment. Qed.
Lemma autodetect_refuted_later_charset_in_tag_ex :
  exists rest, wrongly_detected Utf8 n_utf8' (tag_head MCharset n_utf8' ++ rest) n_latin1.
Proof. eexists. exact autodetect_refuted_later_charset_in_tag. Qed.

(* ================================================================== *)
(* 9. UTF-16 / UTF-32: decode (encode s) = s, and detection through the byte-order mark                       *)
(* ================================================================== *)
Ltac Zify.zify_post_hook ::= Z.to_euclidean_division_equations.

Lemma some_inj {X} (a b : X) : Some a = Some b -> a = b.
Proof. now intros [=]. Qed.

Lemma scalar_cases c : scalar c = true -> c < 55296 \/ 57344 <= c <= 1114111.
Proof. exact (scalar_prop c). Qed.

Lemma units16_bytes le x r : x < 65536 ->
  units16 le (bytes16 le x ++ r) = (x :: fst (units16 le r), snd (units16 le r)).
Proof.
  intros Hx. unfold bytes16. destruct le; cbn [app units16]; destruct (units16 _ r) as [u t]; cbn [fst snd];
    f_equal; f_equal; lia.
Qed.

Definition units_char (c : N) : list N :=
  if c <? 65536 then [c] else [55296 + (c - 65536) / 1024; 56320 + (c - 65536) mod 1024].

Lemma units16_encoded le u : forall b, enc_strict (utf16_enc_char le) u = Some b ->
  units16 le b = (flat_map units_char u, false) /\ forallb scalar u = true.
Proof.
  induction u as [|c u IH]; intros b; cbn [enc_strict flat_map forallb]; [intros [= <-]; split; reflexivity|].
  unfold utf16_enc_char at 1. destruct (scalar c) eqn:Hs; [|discriminate].
  destruct (enc_strict (utf16_enc_char le) u) as [r|] eqn:E.
  2:{ destruct (c <? 65536); discriminate. }
  destruct (IH r eq_refl) as [I1 I2]. rewrite I2. cbn [andb].
  apply scalar_cases in Hs. unfold units_char.
  destruct (c <? 65536) eqn:L; intros HS; apply some_inj in HS; subst b.
  - apply N.ltb_lt in L. rewrite units16_bytes by exact L. rewrite I1. split; reflexivity.
  - apply N.ltb_ge in L. rewrite <- app_assoc.
    rewrite units16_bytes by lia. rewrite units16_bytes by lia. rewrite I1. split; reflexivity.
Qed.

Lemma u16_go_units u : forallb scalar u = true -> u16_go false None (flat_map units_char u) false = Some u.
Proof.
  induction u as [|c u IH]; [reflexivity|]. cbn [forallb flat_map]. intros H. apply andb_prop in H as [Hs Hu].
  specialize (IH Hu). apply scalar_cases in Hs. unfold units_char at 1.
  destruct (c <? 65536) eqn:L.
  - apply N.ltb_lt in L. cbn [app u16_go].
    assert (is_high c = false) as -> by (unfold is_high; apply andb_false_iff; destruct Hs; [left; apply N.leb_gt|right; apply N.leb_gt]; lia).
    assert (is_low c = false) as -> by (unfold is_low; apply andb_false_iff; destruct Hs; [left; apply N.leb_gt|right; apply N.leb_gt]; lia).
    now rewrite IH.
  - apply N.ltb_ge in L. cbn [app u16_go].
    set (h := 55296 + (c - 65536) / 1024). set (l := 56320 + (c - 65536) mod 1024).
    assert (Hh : is_high h = true) by (unfold is_high, h; apply andb_true_intro; split; apply N.leb_le; lia).
    assert (Hl : is_low l = true) by (unfold is_low, l; apply andb_true_intro; split; apply N.leb_le; lia).
    rewrite Hh, Hl, IH. cbn [option_map]. f_equal. f_equal. unfold h, l. lia.
Qed.

Theorem utf16_decode_encode le u b : enc_strict (utf16_enc_char le) u = Some b -> utf16_decode le false b = Some u.
Proof.
  intros H. destruct (units16_encoded le u b H) as [U S]. unfold utf16_decode. rewrite U. now apply u16_go_units.
Qed.

Lemma units32_bytes le c r : c < 4294967296 ->
  units32 le (bytes32 le c ++ r) = (c :: fst (units32 le r), snd (units32 le r)).
Proof.
  intros Hc. unfold bytes32. destruct le; cbn [app units32]; destruct (units32 _ r) as [u t]; cbn [fst snd];
    f_equal; f_equal; lia.
Qed.

Theorem utf32_decode_encode le u : forall b, enc_strict (utf32_enc_char le) u = Some b -> utf32_decode le false b = Some u.
Proof.
  unfold utf32_decode.
  induction u as [|c u IH]; intros b; cbn [enc_strict]; [intros [= <-]; reflexivity|].
  unfold utf32_enc_char at 1. destruct (scalar c) eqn:Hs; [|discriminate].
  destruct (enc_strict (utf32_enc_char le) u) as [r|] eqn:E; [|discriminate]. intros HS; apply some_inj in HS; subst b.
  specialize (IH r eq_refl). pose proof (scalar_cases c Hs) as Hc.
  rewrite units32_bytes by lia. destruct (units32 le r) as [us t]. cbn [fst snd u32_go]. rewrite Hs.
  now rewrite IH.
Qed.

Lemma wide_ascii_ok w : ascii_ok (wide_enc_char w).
Proof.
  intros c Hc. unfold encodable. destruct w; cbn [wide_enc_char]; unfold utf16_enc_char, utf32_enc_char, scalar;
    assert ((c <? 55296) = true) as -> by (apply N.ltb_lt; lia); cbn [orb]; [destruct (c <? 65536)|]; reflexivity.
Qed.

Lemma wide_dec_ok w u x : enc_strict (wide_enc_char w) u = Some x ->
  codec_decode (wide_codec w) Dammit.Strict x = Some u.
Proof.
  destruct w; cbn [wide_enc_char wide_codec codec_decode]; [apply utf16_decode_encode|apply utf32_decode_encode].
Qed.

Definition wide_name (w : wide) : str := match w with W16 => n_utf16le | W32 => n_utf32le end.

(* the bytes written by encode("utf-16") / encode("utf-32") given back to UnicodeDammit: the mark decides — for every
   non-empty string; for UTF-16 the first character must not be U+0000 (FF FE 00 00 is the UTF-32 mark) *)
Theorem autodetect_bom w c0 s a :
  (w = W16 -> c0 <> 0) ->
  a_known a = [] -> a_override a = [] ->
  excluded lower_ascii (a_exclude a) (wide_name w) = false ->
  exists b, wide_encode w (c0 :: s) = Some b /\
    outcome (c_dammit (MBytes b) a) = (Some (xcr_text (wide_enc_char w) (c0 :: s)), Some (wide_name w), false).
Proof.
  intros Hc0 Hk Ho Hex.
  destruct (encode_total (wide_enc_char w) (wide_bom w) (wide_ascii_ok w) (c0 :: s)) as [b Hb].
  exists b. split; [exact Hb|].
  unfold str_encode, str_encode_body in Hb.
  destruct (enc_strict (wide_enc_char w) (xcr_text (wide_enc_char w) (c0 :: s))) as [x|] eqn:E; [|discriminate].
  cbn [option_map] in Hb. apply some_inj in Hb. subst b.
  pose proof (wide_dec_ok w _ x E) as Hdec.
  (* the first character's bytes *)
  assert (Hx : exists y0 y1 r, x = y0 :: y1 :: r /\ (w = W16 -> [y0; y1] <> [0; 0])).
  { change (xcr_text (wide_enc_char w) (c0 :: s))
      with (xcr_char (wide_enc_char w) c0 ++ xcr_text (wide_enc_char w) s) in E.
    rewrite enc_strict_app in E.
    destruct (enc_strict (wide_enc_char w) (xcr_char (wide_enc_char w) c0)) as [y|] eqn:Ey; [|discriminate E].
    destruct (enc_strict (wide_enc_char w) (xcr_text (wide_enc_char w) s)) as [r'|] eqn:Er; [|discriminate E].
    cbn [lift_app] in E. apply some_inj in E. subst x.
    assert (Hy : exists y0 y1 y', y = y0 :: y1 :: y' /\ (w = W16 -> [y0; y1] <> [0; 0])).
    { unfold xcr_char in Ey. destruct (encodable (wide_enc_char w) c0) eqn:En.
      - cbn [enc_strict] in Ey. destruct (wide_enc_char w c0) as [z|] eqn:Ez; [|discriminate Ey].
        apply some_inj in Ey. subst y. rewrite app_nil_r.
        destruct w; cbn [wide_enc_char] in Ez.
        + unfold utf16_enc_char in Ez. destruct (scalar c0) eqn:Hs; [|discriminate Ez]. apply scalar_cases in Hs.
          destruct (c0 <? 65536) eqn:L; apply some_inj in Ez; subst z; unfold bytes16; cbn [app].
          * apply N.ltb_lt in L. eexists _, _, _. split; [reflexivity|]. intros _ HH.
            assert (H0 : c0 mod 256 = 0) by congruence. assert (H1 : c0 / 256 = 0) by congruence.
            specialize (Hc0 eq_refl). lia.
          * apply N.ltb_ge in L. eexists _, _, _. split; [reflexivity|]. intros _ HH.
            assert (H1 : (55296 + (c0 - 65536) / 1024) / 256 = 0) by congruence. lia.
        + unfold utf32_enc_char in Ez. destruct (scalar c0); [|discriminate Ez]. apply some_inj in Ez. subst z.
          unfold bytes32. eexists _, _, _. split; [reflexivity|]. discriminate.
      - (* an unencodable first character goes out as &#...; : '&' first *)
        unfold charref in Ey. cbn [enc_strict] in Ey.
        assert (A : wide_enc_char w c_amp = Some (match w with W16 => [38; 0] | W32 => [38; 0; 0; 0] end))
          by (destruct w; vm_compute; reflexivity).
        rewrite A in Ey.
        match type of Ey with context [match ?t with Some _ => _ | None => _ end] => destruct t as [q|]; [|discriminate Ey] end.
        apply some_inj in Ey. subst y. destruct w; cbn [app]; eexists _, _, _; (split; [reflexivity|]); [intros _ HH|]; discriminate. }
    destruct Hy as (y0 & y1 & y' & -> & Hnz). exists y0, y1, (y' ++ r'). split; [reflexivity|exact Hnz]. }
  destruct Hx as (y0 & y1 & r & -> & Hnz).
  assert (Hm : marked (wide_bom w ++ y0 :: y1 :: r) (y0 :: y1 :: r) (wide_name w)).
  { destruct w; cbn [wide_bom wide_name].
    - change cd_utf16_bom with [255; 254]. cbn [app]. apply M_utf16le; [cbn [length]; lia|]. cbn [firstn]. now apply Hnz.
    - change cd_utf32_bom with [255; 254; 0; 0]. cbn [app]. apply M_utf32le. }
  pose proof (strip_bom_marked _ _ _ Hm) as Hsb.
  apply (bom_encoding_wins c_known c_decode (sniff_model lower_ascii) no_chardet _ a (wide_name w) (wide_codec w));
    try assumption; try (exact (proj1 c_extends)); try (exact (proj2 c_extends)).
  - destruct w; cbn [wide_bom]; [change cd_utf16_bom with [255; 254]|change cd_utf32_bom with [255; 254; 0; 0]]; discriminate.
  - now rewrite Hsb.
  - destruct w; cbn [wide_name In]; tauto.
  - destruct w; vm_compute; reflexivity.
  - rewrite Hsb. exact Hdec.
Qed.
