(* C08 x C09 — the end-to-end lossless statement with C09's model of the formatter and C09's readers:
     substitute (Model/EntitySubst.v) -> str.encode(enc, xmlcharrefreplace) (Model/Encode.v) -> decode ->
     read back (element text: Model.SmartQuotes.read_text = the reader of C09/C19; attribute values:
     Model.EntitySubst.read_quoted = tokenizer quote delimiting + the full html.unescape model)  =  original.
   Everything about the substitution is discharged by C09's theorems through its relation [enc o s]
   ("o is s written with known &name; references"); what this file adds is that replacing the characters the
   codec cannot represent by decimal references keeps both readers on the original string, outside the class
   of the open finding C08-c1-nonchar-reference. The only hypotheses left are the codec ones. *)
From Coq Require Import List NArith Bool Arith Lia.
From BS Require Import Base.Sexp Base.Types Base.Reader Spec.Utf8 Gen.T_C08 Model.Encode Proofs.EncodeProofs Proofs.Utf8Codec.
From BS Require Gen.T_C09 Model.SmartQuotes Model.EntitySubst Spec.EntitiesSpec Proofs.EntitiesTables
     Proofs.EntitiesProofs Proofs.EntitiesAttrProofs.
Import ListNotations.
Open Scope N_scope.

Module SQ := BS.Model.SmartQuotes.
Module ES := BS.Model.EntitySubst.
Module ESp := BS.Spec.EntitiesSpec.
Module EP := BS.Proofs.EntitiesProofs.
Module EA := BS.Proofs.EntitiesAttrProofs.

(* ================================================================== *)
(* 1. the two developments model the same functions                    *)
(* ================================================================== *)

(* element-text reader: C09/C19's and C08's are the same function *)
Lemma text_reader_same s : SQ.read_text s = read_text s.
Proof. reflexivity. Qed.
Lemma num_text_same n : SQ.num_text n = num_text n.
Proof. reflexivity. Qed.

(* html.unescape's numeric references: same tables (generated twice from the interpreter), same rule *)
Lemma invalid_tables_same :
  T_C09.py_invalid_charrefs = html_invalid_charrefs /\ T_C09.py_invalid_codepoints = html_invalid_codepoints.
Proof. split; reflexivity. Qed.
Lemma num_attr_same n : ES.replace_numeric n = num_attr n.
Proof. unfold ES.replace_numeric, num_attr. destruct invalid_tables_same as [-> ->]. reflexivity. Qed.

(* substitute_xml and quoted_attribute_value *)
Lemma subst_xml_chars_same s : ES.substitute_xml_chars s = Some (subst_xml s).
Proof.
  induction s as [|c s IH]; [reflexivity|]. cbn [ES.substitute_xml_chars]. rewrite IH, subst_xml_cons.
  unfold xml_block. change T_C09.ampersand_or_bracket_chars with [60; 62; 38]. unfold memN. cbn [existsb].
  rewrite (N.eqb_sym c 60), (N.eqb_sym c 62), (N.eqb_sym c 38).
  destruct (60 =? c) eqn:E1; [apply N.eqb_eq in E1; subst c; reflexivity|].
  destruct (62 =? c) eqn:E2; [apply N.eqb_eq in E2; subst c; reflexivity|].
  destruct (38 =? c) eqn:E3; [apply N.eqb_eq in E3; subst c; reflexivity|].
  reflexivity.
Qed.
Lemma subst_xml_same s : ES.substitute_xml s false = Some (subst_xml s).
Proof. unfold ES.substitute_xml. now rewrite subst_xml_chars_same. Qed.
Lemma quoted_same v : ES.quoted_attribute_value v = quoted_attribute_value v.
Proof. reflexivity. Qed.
Lemma subst_xml_quoted_same v : ES.substitute_xml v true = Some (quoted_attribute_value (subst_xml v)).
Proof. unfold ES.substitute_xml. now rewrite subst_xml_chars_same. Qed.

(* ================================================================== *)
(* 2. html.unescape on a decimal reference                             *)
(* ================================================================== *)

Lemma charref_match_decimal ds r : ds <> [] -> forallb is_digit ds = true ->
  ES.charref_match (c_hash :: ds ++ c_semi :: r) =
  Some (ES.replace_numeric (num_of 10 ds), (1 + length ds + 1)%nat).
Proof.
  intros Hne Hd. destruct ds as [|d ds]; [contradiction|].
  assert (Hd0 : is_digit d = true) by (cbn [forallb] in Hd; now apply andb_prop in Hd as [? _]).
  unfold ES.charref_match. change (c_hash =? c_hash) with true. cbn iota. cbn [app]. rewrite Hd0.
  change (d :: ds ++ c_semi :: r) with ((d :: ds) ++ c_semi :: r).
  rewrite (EP.span_stop is_digit (d :: ds) c_semi r Hd eq_refl).
  cbn [ES.starts_semi]. change (c_semi =? c_semi) with true. reflexivity.
Qed.

Lemma unescape_charref c r :
  ES.unescape_go O (charref c ++ r) = ES.replace_numeric c ++ ES.unescape_go O r.
Proof.
  unfold charref. pose proof (decimal_nonempty c) as Hne. pose proof (decimal_digits c) as Hd.
  pose proof (decimal_value c) as Hv.
  remember (decimal c) as ds eqn:E. clear E.
  change ((c_amp :: c_hash :: ds ++ [c_semi]) ++ r) with (c_amp :: (c_hash :: ds ++ [c_semi]) ++ r).
  assert (Et : (c_hash :: ds ++ [c_semi]) ++ r = c_hash :: ds ++ c_semi :: r).
  { cbn [app]. now rewrite <- app_assoc. }
  remember ((c_hash :: ds ++ [c_semi]) ++ r) as tail eqn:Etail.
  assert (Hm : ES.charref_match tail = Some (ES.replace_numeric c, (1 + length ds + 1)%nat)).
  { rewrite Et, (charref_match_decimal ds r Hne Hd), Hv. reflexivity. }
  cbn [ES.unescape_go]. change (c_amp =? c_amp) with true. cbn iota. rewrite Hm. f_equal.
  rewrite EP.unescape_skip. f_equal. subst tail.
  apply skipn_app_exact. cbn [length]. rewrite app_length. cbn [length]. lia.
Qed.

(* ================================================================== *)
(* 3. escaped text, with the unencodable characters replaced, still reads back *)
(* ================================================================== *)

Lemma alnum_lt_128 c : is_alnum c = true -> (c <? 128) = true.
Proof.
  unfold is_alnum, is_alpha, is_upper, is_lower, is_digit. intros H. apply N.ltb_lt.
  repeat (apply orb_prop in H as [H|H]); apply andb_prop in H as [_ H]; apply N.leb_le in H; lia.
Qed.

Section Compose.
  Variable enc_char : N -> option (list N).
  Hypothesis Hascii : ascii_ok enc_char.

  Notation xcr := (xcr_text enc_char).

  (* a reference "&name;" with a good name is plain ASCII: nothing in it is replaced *)
  Lemma xcr_ref name o : ESp.good_name name = true ->
    xcr (c_amp :: name ++ c_semi :: o) = c_amp :: name ++ c_semi :: xcr o.
  Proof.
    intros Hg. change (c_amp :: name ++ c_semi :: o) with ([c_amp] ++ name ++ [c_semi] ++ o).
    rewrite !xcr_text_app.
    rewrite (xcr_ascii enc_char Hascii [c_amp] eq_refl), (xcr_ascii enc_char Hascii [c_semi] eq_refl).
    rewrite (xcr_ascii enc_char Hascii name); [reflexivity|].
    pose proof (EP.good_name_alnum name Hg) as Hal. rewrite forallb_forall in *.
    intros x Hx. apply alnum_lt_128. auto.
  Qed.

  Lemma xcr_cons c o : xcr (c :: o) = xcr_char enc_char c ++ xcr o.
  Proof. reflexivity. Qed.

  (* element text, C09's reader *)
  Lemma xcr_enc_read_text o s : ESp.enc o s ->
    (forall c, In c s -> encodable enc_char c = false -> SQ.num_text c = [c]) ->
    SQ.read_text (xcr o) = s.
  Proof.
    unfold SQ.read_text, read. induction 1 as [|c o s Hc _ IH|name seq o s [Hg [He _]] _ IH]; intros Hn.
    - reflexivity.
    - rewrite xcr_cons. unfold xcr_char. destruct (encodable enc_char c) eqn:E.
      + cbn [app]. rewrite read_plain by exact Hc. f_equal. apply IH. intros d Hd. apply Hn. now right.
      + rewrite read_charref, (Hn c (or_introl eq_refl) E). cbn [app]. f_equal.
        apply IH. intros d Hd. apply Hn. now right.
    - rewrite (xcr_ref name o Hg).
      destruct (EP.good_name_parts name Hg) as (a & t & -> & Ha & Ht & _).
      cbn [app]. rewrite (read_named SQ.ent_text SQ.num_text a t (xcr o) seq Ha).
      + f_equal. apply IH. intros d Hd. apply Hn. apply in_or_app. now right.
      + intros ->. discriminate.
      + rewrite forallb_forall in *. intros x Hx. apply EP.alnum_namechar. auto.
      + exact He.
  Qed.

  (* html.unescape (C09's full model) *)
  Lemma xcr_enc_unescape o s : ESp.enc o s ->
    (forall c, In c s -> encodable enc_char c = false -> ES.replace_numeric c = [c]) ->
    ES.unescape (xcr o) = s.
  Proof.
    unfold ES.unescape. induction 1 as [|c o s Hc _ IH|name seq o s [Hg [_ Hl]] _ IH]; intros Hn.
    - reflexivity.
    - rewrite xcr_cons. unfold xcr_char. destruct (encodable enc_char c) eqn:E.
      + cbn [app]. rewrite EP.unescape_plain by exact Hc. f_equal. apply IH. intros d Hd. apply Hn. now right.
      + rewrite unescape_charref, (Hn c (or_introl eq_refl) E). cbn [app]. f_equal.
        apply IH. intros d Hd. apply Hn. now right.
    - rewrite (xcr_ref name o Hg), (EP.unescape_ref name seq (xcr o) Hg Hl). f_equal.
      apply IH. intros d Hd. apply Hn. apply in_or_app. now right.
  Qed.

  Lemma xcr_quote qc : qc = c_dq \/ qc = c_sq -> xcr [qc] = [qc].
  Proof. intros [-> | ->]; apply (xcr_ascii enc_char Hascii); reflexivity. Qed.

  Lemma quote_not_in_xcr qc body : qc = c_dq \/ qc = c_sq -> ~ In qc body -> ~ In qc (xcr body).
  Proof.
    intros Hq Hb H. apply in_xcr_text in H as [H|H]; [contradiction|].
    destruct Hq as [-> | ->]; destruct H as [H|[H|[H|H]]]; try discriminate; vm_compute in H; discriminate.
  Qed.

  Lemma xcr_read_quoted_wf qc body : qc = c_dq \/ qc = c_sq -> ~ In qc body ->
    ES.read_quoted (xcr (qc :: body ++ [qc])) = Some (ES.unescape (xcr body)).
  Proof.
    intros Hq Hb. change (qc :: body ++ [qc]) with ([qc] ++ body ++ [qc]).
    rewrite !xcr_text_app, (xcr_quote qc Hq). cbn [app].
    apply EP.read_quoted_wf; [exact Hq | now apply quote_not_in_xcr].
  Qed.

  (* the quoted form of escaped text, replaced, is still delimited correctly and reads back *)
  Lemma xcr_enc_read_quoted o s : ESp.enc o s ->
    (forall c, In c s -> encodable enc_char c = false -> ES.replace_numeric c = [c]) ->
    ES.read_quoted (xcr (ES.quoted_attribute_value o)) = Some s.
  Proof.
    intros H Hn. unfold ES.quoted_attribute_value.
    destruct (memN c_dq o) eqn:E1; [destruct (memN c_sq o) eqn:E2|].
    - rewrite xcr_read_quoted_wf; [| now left | apply EP.replace_dq_no_dq].
      f_equal. apply xcr_enc_unescape; [now apply EP.enc_replace_dq | exact Hn].
    - rewrite xcr_read_quoted_wf; [| now right | now apply EP.memN_false].
      f_equal. now apply xcr_enc_unescape.
    - rewrite xcr_read_quoted_wf; [| now left | now apply EP.memN_false].
      f_equal. now apply xcr_enc_unescape.
  Qed.

  (* ---- which references read back: the classes of EncodeProofs, for C09's readers ---- *)
  Definition text_class (t : str) : Prop :=
    forall c, In c t -> encodable enc_char c = false -> 160 <= c <= 1114111.
  Definition attr_class (v : str) : Prop :=
    forall c, In c v -> encodable enc_char c = false ->
              160 <= c <= 1114111 /\ is_surrogate c = false /\ is_nonchar c = false.

  Lemma text_class_ok t : text_class t ->
    forall c, In c t -> encodable enc_char c = false -> SQ.num_text c = [c].
  Proof. intros H c Hc Hu. destruct (H c Hc Hu). rewrite num_text_same. apply num_text_id; [lia | now right]. Qed.
  Lemma attr_class_ok v : attr_class v ->
    forall c, In c v -> encodable enc_char c = false -> ES.replace_numeric c = [c].
  Proof.
    intros H c Hc Hu. destruct (H c Hc Hu) as [[? ?] [? ?]]. rewrite num_attr_same. now apply num_attr_id.
  Qed.

  (* ---- the end-to-end statements: only codec hypotheses left ---- *)
  Variable bom : list N.
  Variable dec : list N -> option str.
  Hypothesis dec_ok : forall u b, enc_strict enc_char u = Some b -> dec (bom ++ b) = Some u.

  Lemma encode_decode o :
    exists b, str_encode enc_char bom XmlCharRef o = Some b /\ dec b = Some (xcr o).
  Proof.
    destruct (encode_total enc_char bom Hascii o) as [b Hb]. exists b. split; [exact Hb|].
    exact (decodes_in_target enc_char bom dec dec_ok XmlCharRef o b Hb).
  Qed.

  (* any escaped text (the form both formatters produce, by C09) *)
  Theorem lossless_text_escaped o t : ESp.enc o t -> text_class t ->
    exists b d, str_encode enc_char bom XmlCharRef o = Some b /\ dec b = Some d /\ SQ.read_text d = t.
  Proof.
    intros He Hc. destruct (encode_decode o) as [b [Hb Hd]]. exists b, (xcr o). repeat split; try assumption.
    apply (xcr_enc_read_text o t He). now apply text_class_ok.
  Qed.

  Theorem lossless_attr_escaped o v : ESp.enc o v -> attr_class v ->
    exists b d, str_encode enc_char bom XmlCharRef (ES.quoted_attribute_value o) = Some b /\ dec b = Some d /\
                ES.read_quoted d = Some v.
  Proof.
    intros He Hc. destruct (encode_decode (ES.quoted_attribute_value o)) as [b [Hb Hd]].
    exists b, (xcr (ES.quoted_attribute_value o)). repeat split; try assumption.
    apply (xcr_enc_read_quoted o v He). now apply attr_class_ok.
  Qed.

  (* formatter 'minimal' = substitute_xml *)
  Theorem lossless_text_minimal t : text_class t ->
    exists o b d, ES.substitute_xml t false = Some o /\
                  str_encode enc_char bom XmlCharRef o = Some b /\ dec b = Some d /\ SQ.read_text d = t.
  Proof.
    intros Hc. destruct (EP.minimal_escaped t) as [o [Ho [He _]]].
    destruct (lossless_text_escaped o t He Hc) as [b [d H]]. exists o, b, d. now split.
  Qed.

  Theorem lossless_attr_minimal v : attr_class v ->
    exists q b d, ES.substitute_xml v true = Some q /\
                  str_encode enc_char bom XmlCharRef q = Some b /\ dec b = Some d /\ ES.read_quoted d = Some v.
  Proof.
    intros Hc. destruct (EP.xml_enc v) as [o [Ho [He _]]].
    destruct (lossless_attr_escaped o v He Hc) as [b [d H]].
    exists (ES.quoted_attribute_value o), b, d. split; [|exact H].
    unfold ES.substitute_xml. now rewrite Ho.
  Qed.

  (* formatter 'html' = substitute_html *)
  Theorem lossless_text_html t : text_class t ->
    exists b d, str_encode enc_char bom XmlCharRef (ES.substitute_html t) = Some b /\ dec b = Some d /\
                SQ.read_text d = t.
  Proof. intros Hc. exact (lossless_text_escaped _ t (EP.html_enc t) Hc). Qed.

  Theorem lossless_attr_html v : attr_class v ->
    exists b d, str_encode enc_char bom XmlCharRef (ES.quoted_attribute_value (ES.substitute_html v)) = Some b /\
                dec b = Some d /\ ES.read_quoted d = Some v.
  Proof. intros Hc. exact (lossless_attr_escaped _ v (EP.html_enc v) Hc). Qed.

  (* the two attribute readers (C09's html.unescape model, C08's reference reader with the html5 core names)
     agree on what 'minimal' writes: both give the value back *)
  Theorem attr_readers_agree_minimal v : attr_class v ->
    let w := subst_xml v in
    ES.unescape (xcr (attr_body w)) = v /\ read_attr (xcr (attr_body w)) = v.
  Proof.
    intros Hc w. split.
    - assert (He : ESp.enc (attr_body w) v).
      { unfold attr_body. destruct (EP.xml_enc v) as [o [Ho [He _]]].
        rewrite subst_xml_chars_same in Ho. injection Ho as <-. fold w in He.
        destruct (memN c_dq w && memN c_sq w); [exact (EP.enc_replace_dq _ _ He) | exact He]. }
      apply (xcr_enc_unescape _ _ He). now apply attr_class_ok.
    - now destruct (lossless_attr_any_codec enc_char v Hascii Hc) as [_ [_ [_ H]]].
  Qed.
End Compose.

(* ================================================================== *)
(* 4. closed instances: no hypothesis about the codec left             *)
(* ================================================================== *)

(* UTF-8 / utf-8-sig. Text: EVERY Python str (code points <= U+10FFFF; a lone surrogate is written as a
   reference and read back). Attribute values: every string of scalar values. *)
Lemma utf8_text_class t : (forall c, In c t -> c <= 1114111) -> text_class utf8_codec t.
Proof.
  intros H c Hc Hu. split; [|auto]. rewrite utf8_encodable_scalar in Hu. unfold scalar in Hu.
  apply orb_false_iff in Hu as [Hu _]. apply N.ltb_ge in Hu. lia.
Qed.
Lemma utf8_attr_class v : forallb scalar v = true -> attr_class utf8_codec v.
Proof.
  intros H c Hc Hu. exfalso. rewrite utf8_encodable_scalar in Hu. rewrite forallb_forall in H.
  rewrite (H c Hc) in Hu. discriminate.
Qed.

Theorem utf8_lossless_text_minimal t : (forall c, In c t -> c <= 1114111) ->
  exists o b d, ES.substitute_xml t false = Some o /\
                str_encode utf8_codec [] XmlCharRef o = Some b /\ utf8_dec b = Some d /\ SQ.read_text d = t.
Proof.
  intros H. exact (lossless_text_minimal utf8_codec utf8_ascii_ok [] utf8_dec utf8_dec_ok t (utf8_text_class t H)).
Qed.

Theorem utf8_lossless_attr_minimal v : forallb scalar v = true ->
  exists q b d, ES.substitute_xml v true = Some q /\
                str_encode utf8_codec [] XmlCharRef q = Some b /\ utf8_dec b = Some d /\ ES.read_quoted d = Some v.
Proof.
  intros H. exact (lossless_attr_minimal utf8_codec utf8_ascii_ok [] utf8_dec utf8_dec_ok v (utf8_attr_class v H)).
Qed.

Theorem utf8_lossless_html t : forallb scalar t = true ->
  (exists b d, str_encode utf8_codec [] XmlCharRef (ES.substitute_html t) = Some b /\ utf8_dec b = Some d /\
               SQ.read_text d = t) /\
  (exists b d, str_encode utf8_codec [] XmlCharRef (ES.quoted_attribute_value (ES.substitute_html t)) = Some b /\
               utf8_dec b = Some d /\ ES.read_quoted d = Some t).
Proof.
  intros H. split.
  - apply (lossless_text_html utf8_codec utf8_ascii_ok [] utf8_dec utf8_dec_ok t).
    apply utf8_text_class. intros c Hc. rewrite forallb_forall in H. specialize (H c Hc). unfold scalar in H.
    apply orb_prop in H as [H|H]; [apply N.ltb_lt in H; lia|]. apply andb_prop in H as [_ H]. now apply N.leb_le in H.
  - exact (lossless_attr_html utf8_codec utf8_ascii_ok [] utf8_dec utf8_dec_ok t (utf8_attr_class t H)).
Qed.

(* utf-8-sig: the same with the byte-order mark written and dropped *)
Theorem utf8_sig_lossless_minimal t : forallb scalar t = true ->
  (exists o b d, ES.substitute_xml t false = Some o /\ str_encode utf8_codec utf8_bom XmlCharRef o = Some b /\
                 utf8_sig_dec b = Some d /\ SQ.read_text d = t) /\
  (exists q b d, ES.substitute_xml t true = Some q /\ str_encode utf8_codec utf8_bom XmlCharRef q = Some b /\
                 utf8_sig_dec b = Some d /\ ES.read_quoted d = Some t).
Proof.
  intros H. split.
  - apply (lossless_text_minimal utf8_codec utf8_ascii_ok utf8_bom utf8_sig_dec utf8_sig_dec_ok t).
    apply utf8_text_class. intros c Hc. rewrite forallb_forall in H. specialize (H c Hc). unfold scalar in H.
    apply orb_prop in H as [H|H]; [apply N.ltb_lt in H; lia|]. apply andb_prop in H as [_ H]. now apply N.leb_le in H.
  - exact (lossless_attr_minimal utf8_codec utf8_ascii_ok utf8_bom utf8_sig_dec utf8_sig_dec_ok t (utf8_attr_class t H)).
Qed.

(* ASCII (B = 128) and ISO-8859-1 (B = 256): every text / value whose characters are below B or from U+00A0
   up (attributes: and no surrogate / noncharacter above B) *)
Theorem identity_lossless_minimal B t : 128 <= B ->
  (forall c, In c t -> c < B \/ (160 <= c <= 1114111 /\ is_surrogate c = false /\ is_nonchar c = false)) ->
  (exists o b d, ES.substitute_xml t false = Some o /\ str_encode (id_codec B) [] XmlCharRef o = Some b /\
                 id_dec B b = Some d /\ SQ.read_text d = t) /\
  (exists q b d, ES.substitute_xml t true = Some q /\ str_encode (id_codec B) [] XmlCharRef q = Some b /\
                 id_dec B b = Some d /\ ES.read_quoted d = Some t).
Proof.
  intros HB H.
  assert (Hu : forall c, In c t -> encodable (id_codec B) c = false ->
                         160 <= c <= 1114111 /\ is_surrogate c = false /\ is_nonchar c = false).
  { intros c Hc Hu. destruct (H c Hc) as [G|G]; [|exact G].
    unfold encodable, id_codec in Hu. apply N.ltb_lt in G. rewrite G in Hu. discriminate. }
  split.
  - apply (lossless_text_minimal (id_codec B) (id_codec_ascii_ok B HB) [] (id_dec B) (id_codec_dec_ok B) t).
    intros c Hc Hx. now destruct (Hu c Hc Hx).
  - exact (lossless_attr_minimal (id_codec B) (id_codec_ascii_ok B HB) [] (id_dec B) (id_codec_dec_ok B) t Hu).
Qed.
