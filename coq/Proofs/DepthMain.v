(* C11 — the property theorems' statements, assembled from the lemmas of DepthProofs / DepthParse /
   DepthFamilies; Props/C11.v restates each one and closes it with [exact]. *)
From Coq Require Import List NArith Arith Bool String.
From BS Require Import Base.Sexp Base.Types Base.Lit Gen.T_C11 Model.Depth
     Proofs.DepthProofs Proofs.DepthParse Proofs.DepthFamilies.
Import ListNotations.
Local Open Scope nat_scope.

Lemma render_bounded_thm : forall e ctx indent f enc to_bytes,
  d_decode e ctx indent f enc <= 16 /\ d_encode e ctx indent f <= 17 /\ d_prettify e ctx to_bytes f <= 18 /\
  d_decode_contents e ctx indent f <= 17 /\ d_encode_contents e ctx indent f <= 18 /\ d_str e ctx <= 17.
Proof.
  intros. repeat split; [apply d_decode_le|apply d_encode_le|apply d_prettify_le|apply d_decode_contents_le|
                         apply d_encode_contents_le|apply d_str_le].
Qed.

Lemma render_bounded_in_documents_thm : forall e ctx indent f enc to_bytes,
  chain_known (e :: ctx) = true ->
  d_decode e ctx indent f enc <= 6 /\ d_encode e ctx indent f <= 7 /\ d_prettify e ctx to_bytes f <= 8 /\
  d_decode_contents e ctx indent f <= 7 /\ d_encode_contents e ctx indent f <= 8 /\ d_str e ctx <= 7.
Proof.
  intros e ctx indent f enc b H.
  repeat split; [now apply d_decode_known|now apply d_encode_known|now apply d_prettify_known|
                 now apply d_decode_contents_known|now apply d_encode_contents_known|now apply d_str_known].
Qed.

Lemma copy_bounded_thm : forall e ctx,
  d_deepcopy e ctx <= 16 /\ d_copy e ctx <= 17 /\
  (chain_known (e :: ctx) = true -> d_deepcopy e ctx <= 7 /\ d_copy e ctx <= 8).
Proof.
  intros e ctx. split; [apply d_deepcopy_le|]. split; [apply d_copy_le|].
  intros H. split; [now apply d_deepcopy_known|now apply d_copy_known].
Qed.

Lemma pickle_bounded_thm : forall soup cfg callbacks deep eqres,
  d_getstate soup <= 17 /\ (chain_known [soup] = true -> d_getstate soup <= 7) /\
  d_setstate deep eqres cfg callbacks <= 6.
Proof.
  intros. split; [apply d_getstate_le|]. split; [apply d_getstate_known|apply setstate_depth_bounded].
Qed.

Lemma text_bounded_thm : forall e,
  d_get_text e <= 4 /\ d_stripped_strings e <= 4 /\ d_string_property e = 1.
Proof. intros e. split; [apply d_get_text_le|]. split; [apply d_stripped_strings_le|reflexivity]. Qed.

Lemma search_bounded_thm : forall (c : crit) (e : elem) (elems : list elem) (n : str),
  d_find_all c e <= 10 /\ d_find c e <= 11 /\ d_tag_getattr n e <= 12 /\ d_tag_call c e <= 11 /\
  d_find_all_axis c elems <= 10 /\ d_find_one_axis c elems <= 12 /\ d_find_parent c elems <= 11.
Proof.
  intros. repeat split; [apply d_find_all_le|apply d_find_le|apply d_tag_getattr_le|apply d_tag_call_le|
                         apply d_find_all_axis_le|apply d_find_one_axis_le|apply d_find_parent_le].
Qed.

Lemma edit_bounded_thm : forall (args : list ins_arg) (a : ins_arg) (e : elem) (decompose : bool),
  forallb wf_arg args = true -> wf_arg a = true ->
  d_insert args <= 6 /\ d_append a <= 7 /\ d_extend args <= 8 /\ d_insert_beside args <= 7 /\
  d_replace_with args <= 7 /\ d_wrap = 5 /\ d_unwrap e <= 6 /\ d_clear e decompose <= 4 /\
  d_set_string e <= 6 /\ d_smooth e <= 6 /\ d_extract = 2 /\ d_decompose e = 3 /\ d_new_string = 3.
Proof.
  intros args a e b Hl Ha.
  repeat split; [now apply d_insert_wf|now apply d_append_wf|now apply d_extend_wf|now apply d_insert_beside_wf|
                 now apply d_replace_with_wf|apply d_unwrap_le|apply d_clear_le|apply d_set_string_le|apply d_smooth_le|apply d_decompose_eq].
Qed.

Lemma parse_bounded_thm : forall deep eqres cfg markup callbacks,
  d_parse deep eqres cfg markup callbacks <= 6.
Proof. intros. apply parse_depth_bounded. Qed.

Lemma parse_never_compares_deeply_thm : forall deep eqres deep' eqres' cfg markup callbacks,
  d_parse deep eqres cfg markup callbacks = d_parse deep' eqres' cfg markup callbacks.
Proof. intros. apply parse_depth_independent_of_deep_eq. Qed.

Lemma family_depth_independent_thm : forall (f : family) (d : nat), 2 <= d ->
  (forall indent fm enc, d_decode (document f d) [] indent fm enc = d_decode (document f 2) [] indent fm enc) /\
  (forall indent fm, d_decode_contents (document f d) [] indent fm = d_decode_contents (document f 2) [] indent fm) /\
  (forall c, c_limit c = None -> c_recursive c = true -> d_find_all c (document f d) = d_find_all c (document f 2)) /\
  d_get_text (document f d) = d_get_text (document f 2) /\
  d_smooth (document f d) = d_smooth (document f 2) /\
  d_deepcopy (document f d) [] = d_deepcopy (document f 2) [].
Proof.
  intros f d Hd. repeat split; intros.
  - apply (step_to_all (fun k => d_decode (document f k) [] indent fm enc)); [|exact Hd].
    intros; now apply family_decode_step.
  - apply (step_to_all (fun k => d_decode_contents (document f k) [] indent fm)); [|exact Hd].
    intros; now apply family_decode_contents_step.
  - apply (step_to_all (fun k => d_find_all c (document f k))); [|exact Hd].
    intros; now apply family_find_all_step.
  - apply (step_to_all (fun k => d_smooth (document f k))); [|exact Hd]. intros; now apply family_smooth_step.
  - apply (step_to_all (fun k => d_deepcopy (document f k) [])); [|exact Hd]. intros; now apply family_deepcopy_step.
Qed.

Lemma bounds_attained_thm :
  d_decode (document FAttrs 3) [] false (FmtName true) EncNormal = 6 /\
  d_prettify (document FTrailText 3) [] true (FmtName true) = 8 /\
  d_copy (document FRepeat 3) [] = 7 /\ d_get_text (document FChain 3) = 4 /\
  d_smooth (soup_ [tag_ s_a [] [text_ s_x; text_ s_x]]) = 6 /\
  d_find (mkcrit (SOne (RStr s_a)) [(s_id, SOne (RStr s_x))] SNone None true) (document FAttrs 3) = 11.
Proof. repeat split; vm_compute; reflexivity. Qed.
